/-
Lemmas about the model of the D-set generator, part 12: no set is emitted twice — the
subtrees below different children hold sets that differ at the entry the children were
branched on.  Core Lean only.
-/
import DSymVerif.Proofs.DSetGenCanonical

namespace DSymVerif.DSG
open DSymVerif.DS

/-- the set of a descendant extends the set of its ancestor -/
theorem reach_partOf {dim maxSize : Nat} {n m : Node} (hr : BT.Reach (problem dim maxSize) n m) :
    ∀ s t, n = .st s → m = .st t → GInv dim maxSize s → PartOf s.dset t.dset := by
  induction hr with
  | refl =>
    intro s t hs ht _
    rw [hs] at ht
    injection ht with ht
    subst ht
    exact (Ext.refl _).partOf
  | @step a c b hc _ ih =>
    intro s t hs ht hinv
    subst hs
    have hc' : c ∈ children maxSize (.st s) := hc
    rcases children_inv hinv hc' with rfl | ⟨c', rfl, hinvc⟩
    · exact absurd hc' (children_no_panic hinv)
    · have hstep : ∃ i d e, childFor maxSize s i d e = .ok (some c') := by
        unfold children at hc'
        simp only at hc'
        split at hc'
        · cases hc'
        · rename_i i d hnext
          split at hc'
          · simp at hc'
          · split at hc'
            · rename_i cs hcs
              obtain ⟨c2, hc2, hcc⟩ := List.mem_map.1 hc'
              injection hcc with hcc
              subst hcc
              obtain ⟨e, _, _, hfor⟩ := childLoop_mem _ _ hcs c2 hc2
              exact ⟨i, d, e, hfor⟩
            · simp at hc'
      obtain ⟨i, d, e, hfor⟩ := hstep
      exact (childFor_facts hinv hfor).1.trans (ih c' t rfl ht hinvc)

/-- the children differ at the entry they were branched on -/
theorem childLoop_pairwise {dim maxSize : Nat} {s : GenState} {i d : Nat}
    (hs : GInv dim maxSize s) :
    ∀ (es : List Nat) (cs : List GenState), childLoop maxSize s i d es = .ok cs →
    es.Pairwise (· ≠ ·) →
    cs.Pairwise (fun c1 c2 => c1.dset.opU i d ≠ c2.dset.opU i d) := by
  intro es
  induction es with
  | nil => intro cs h _; simp only [childLoop] at h; cases h; exact List.Pairwise.nil
  | cons e es ih =>
    intro cs h hp
    obtain ⟨hpe, hpes⟩ := List.pairwise_cons.1 hp
    simp only [childLoop] at h
    split at h
    · split at h
      · rename_i c hc
        split at h
        · rename_i cs0 hcs0
          cases h
          refine List.pairwise_cons.2 ⟨?_, ih _ hcs0 hpes⟩
          intro c' hc'
          obtain ⟨e', he', _, hfor'⟩ := childLoop_mem _ _ hcs0 c' hc'
          rw [(childFor_facts hs hc).2.1, (childFor_facts hs hfor').2.1]
          exact hpe e' he'
        · cases h
      · exact ih _ h hpes
      · cases h
    · exact ih _ h hpes
    · cases h

theorem pairwise_ne_range' (s n : Nat) : (List.range' s n).Pairwise (· ≠ ·) :=
  (List.pairwise_lt_range' (s := s) (n := n)).imp (fun {a b} h => by omega)

/-- two different nodes of the preorder listing never emit the same value -/
def NoSame (a b : Node) : Prop := ∀ x, extract a = some x → extract b = some x → False

theorem dfs_noSame {dim maxSize : Nat} :
    ∀ (n : Nat) (s : GenState), height maxSize (.st s) ≤ n → GInv dim maxSize s →
    (BT.dfs (problem dim maxSize) (height maxSize) (.st s)).Pairwise NoSame := by
  intro n
  induction n with
  | zero => intro s hh _; simp only [height] at hh; omega
  | succ n ih =>
    intro s hh hs
    rw [BT.dfs_unfold _ _ (children_decreasing dim maxSize)]
    change ((Node.st s) :: (children maxSize (.st s)).flatMap
      (BT.dfs (problem dim maxSize) (height maxSize))).Pairwise NoSame
    cases hnext : s.next with
    | none =>
      have : children maxSize (.st s) = [] := by unfold children; simp [hnext]
      rw [this]
      simp
    | some pr =>
      obtain ⟨i, d⟩ := pr
      obtain ⟨hi, hd1, hd2, _, _⟩ := hs.next_some i d hnext
      have hidim : i ≤ s.dset.dim := by rw [hs.dim_eq]; exact hi
      refine List.pairwise_cons.2 ⟨?_, ?_⟩
      · -- s itself emits nothing
        intro b _ x hx _
        simp [extract, hnext] at hx
      · rw [List.pairwise_flatMap]
        refine ⟨?_, ?_⟩
        · intro c hc
          rcases children_inv hs hc with rfl | ⟨c', rfl, hinvc⟩
          · exact absurd hc (children_no_panic hs)
          · have := children_decreasing dim maxSize (.st s) (.st c') hc
            exact ih c' (by omega) hinvc
        · -- different children
          have hst : storeOk s.dset = true := by
            simp only [storeOk, beq_iff_eq]; exact hs.valid.size_eq
          unfold children
          simp only [hnext, hst, Bool.not_true, Bool.false_eq_true, if_false]
          split
          · rename_i cs hcs
            rw [List.pairwise_map]
            refine (childLoop_pairwise hs _ _ hcs (pairwise_ne_range' _ _)).imp_of_mem ?_
            intro c1 c2 hm1 hm2 hne x hx y hy v hxv hyv
            have hchild : ∀ c, c ∈ cs → Node.st c ∈ children maxSize (.st s) := by
              intro c hc
              unfold children
              simp only [hnext, hst, Bool.not_true, Bool.false_eq_true, if_false, hcs]
              exact List.mem_map.2 ⟨c, hc, rfl⟩
            -- a set emitted below a child has the child's entry at (i, d)
            have below : ∀ c, c ∈ cs → ∀ z, z ∈ BT.dfs (problem dim maxSize) (height maxSize) (.st c) →
                ∀ w, extract z = some w → ∃ T, w = .ok T ∧ T.opU i d = c.dset.opU i d := by
              intro c hc z hz w hw
              have hcc := hchild c hc
              have hinvc : GInv dim maxSize c := by
                rcases children_inv hs hcc with h | ⟨c', h, hinv⟩
                · cases h
                · injection h with h; subst h; exact hinv
              have hreach := (BT.mem_dfs_iff (problem dim maxSize) (height maxSize)
                (children_decreasing dim maxSize) _ _).1 hz
              obtain ⟨t, rfl, _⟩ := reach_no_panic hreach ⟨c, rfl, hinvc⟩
              simp only [extract] at hw
              split at hw
              · injection hw with hw
                refine ⟨t.dset, hw.symm, ?_⟩
                have hpo := reach_partOf hreach c t rfl rfl hinvc
                obtain ⟨e, _, _, hfor⟩ := childLoop_mem _ _ hcs c hc
                obtain ⟨_, hnew, he1, _⟩ := childFor_facts hs hfor
                have hdc : d ≤ c.dset.size := Nat.le_trans hd2 (childFor_facts hs hfor).1.size_le
                exact hpo.agree i d (by rw [hinvc.dim_eq]; exact hi) hd1 hdc (by rw [hnew]; omega)
              · cases hw
            obtain ⟨T1, e1, h1⟩ := below c1 hm1 x hx v hxv
            obtain ⟨T2, e2, h2⟩ := below c2 hm2 y hy v hyv
            rw [e1] at e2
            injection e2 with e2
            subst e2
            exact hne (h1.symm.trans h2)
          · simp

/-- **no value is emitted twice** -/
theorem dsets_nodup (dim maxSize : Nat) : (dsets dim maxSize).Pairwise (· ≠ ·) := by
  rw [dsets_eq_dfs]
  rw [List.pairwise_filterMap]
  have hpw : (BT.dfs (problem dim maxSize) (height maxSize) (root dim maxSize)).Pairwise NoSame := by
    rw [root_eq]
    split
    · rw [BT.dfs_unfold _ _ (children_decreasing dim maxSize)]
      change ((Node.panicked) :: (children maxSize .panicked).flatMap
        (BT.dfs (problem dim maxSize) (height maxSize))).Pairwise NoSame
      simp [children]
    · exact dfs_noSame _ _ (Nat.le_refl _) (rootState_inv dim maxSize)
  refine hpw.imp ?_
  intro a b hab x hx y hy hxy
  subst hxy
  exact hab x hx hy

end DSymVerif.DSG
