/-
C12 completeness, part 5 (Spec side): the breadth-first renumbering of the Spec lists the rows in
standard order (every row has a creation slot before which all slots lead to earlier rows).
-/
import DSymVerif.Proofs.CosetBfs
import DSymVerif.Proofs.CosetTrace
import DSymVerif.Proofs.LowIndexPath3

namespace DSymVerif.CanonP
open DSymVerif DSymVerif.SpecC11 DSymVerif.CosetP DSymVerif.RebaseP

theorem getD_push_lt (ord : Array Nat) (d p : Nat) (hp : p < ord.size) :
    (ord.push d).getD p 0 = ord.getD p 0 := by
  simp [Array.getD_eq_getD_getElem?, Array.getElem?_push, hp, Nat.ne_of_lt hp]

theorem getD_push_eq (ord : Array Nat) (d : Nat) : (ord.push d).getD ord.size 0 = d := by
  simp [Array.getD_eq_getD_getElem?, Array.getElem?_push]

/-- the order array lists the rows in standard order: every position `j ≥ 1` has a creation
    slot at an earlier position, and all slots before it lead to positions below `j` -/
def StdOrd (t : Tab) (n : Nat) (ord : Array Nat) : Prop :=
  ∀ j, 0 < j → j < ord.size → ∃ k g pre post, k < j ∧ letters n = pre ++ g :: post ∧
    entry t n (ord.getD k 0) g = some (ord.getD j 0) ∧
    ∀ k' g', g' ∈ letters n → Before k' g' k pre →
      ∃ p, p < j ∧ entry t n (ord.getD k' 0) g' = some (ord.getD p 0)

theorem StdOrd.push {t : Tab} {n : Nat} {ord : Array Nat} (h : StdOrd t n ord) (d : Nat)
    (hnew : 0 < ord.size → ∃ k g pre post, k < ord.size ∧ letters n = pre ++ g :: post ∧
      entry t n (ord.getD k 0) g = some d ∧
      ∀ k' g', g' ∈ letters n → Before k' g' k pre →
        ∃ p, p < ord.size ∧ entry t n (ord.getD k' 0) g' = some (ord.getD p 0)) :
    StdOrd t n (ord.push d) := by
  intro j hj0 hj
  rw [Array.size_push] at hj
  by_cases hjo : j < ord.size
  · obtain ⟨k, g, pre, post, hk, hs, he, hb⟩ := h j hj0 hjo
    refine ⟨k, g, pre, post, hk, hs, ?_, ?_⟩
    · rw [getD_push_lt _ _ _ (by omega), getD_push_lt _ _ _ hjo]; exact he
    · intro k' g' hg' hbef
      obtain ⟨p, hp, hep⟩ := hb k' g' hg' hbef
      have hk' : k' < ord.size := by rcases hbef with hb' | ⟨hb', _⟩ <;> omega
      exact ⟨p, hp, by rw [getD_push_lt _ _ _ hk', getD_push_lt _ _ _ (by omega)]; exact hep⟩
  · have hje : j = ord.size := by omega
    subst hje
    obtain ⟨k, g, pre, post, hk, hs, he, hb⟩ := hnew hj0
    refine ⟨k, g, pre, post, hk, hs, ?_, ?_⟩
    · rw [getD_push_lt _ _ _ hk, getD_push_eq]; exact he
    · intro k' g' hg' hbef
      obtain ⟨p, hp, hep⟩ := hb k' g' hg' hbef
      have hk' : k' < ord.size := by rcases hbef with hb' | ⟨hb', _⟩ <;> omega
      exact ⟨p, hp, by rw [getD_push_lt _ _ _ hk', getD_push_lt _ _ _ hp]; exact hep⟩

theorem mem_getD {ord : Array Nat} {d : Nat} (h : d ∈ ord) : ∃ p, p < ord.size ∧ ord.getD p 0 = d := by
  obtain ⟨p, hp, rfl⟩ := Array.mem_iff_getElem.mp h
  exact ⟨p, hp, getD_of_lt ord hp⟩

/-- processing the letters of the row at position `i` keeps the order array standard -/
theorem bfsLetters_std {t : Tab} {n : Nat} (htot : ∀ c, c < t.size → ∀ g ∈ letters n, ∃ d, entry t n c g = some d)
    (i c : Nat) (wc : List Int) :
    ∀ (gs done : List Int) (ord : Array Nat) (ws : Array (Option (List Int))),
      letters n = done ++ gs → Marks t.size (ord, ws) → i < ord.size → ord.getD i 0 = c →
      ClosedUpTo t n (ord, ws) i → (∀ g' ∈ done, ∀ d, entry t n c g' = some d → d ∈ ord) →
      StdOrd t n ord → StdOrd t n (bfsLetters t n c wc gs (ord, ws)).1
  | [], _, ord, ws, _, _, _, _, _, _, hstd => by simpa [bfsLetters] using hstd
  | g :: gs, done, ord, ws, hsplit, hm, hi, hc, hcl, hdone, hstd => by
    have hcsz : c < t.size := by
      rw [← hc, getD_of_lt ord hi]; exact hm.lt _ (by simp)
    have hg : g ∈ letters n := by rw [hsplit]; simp
    obtain ⟨d, he⟩ := htot c hcsz g hg
    have hsplit' : letters n = (done ++ [g]) ++ gs := by rw [hsplit]; simp
    by_cases hv : (ws.getD d none).isNone = true
    · rw [bfsLetters_cons_new he hv]
      have hm' : Marks t.size (ord.push d, ws.setIfInBounds d (some (g :: wc))) := by
        have := bfsLetters_marks t n c wc [g] (ord, ws) hm
        rw [bfsLetters_cons_new he hv] at this
        simpa [bfsLetters] using this
      refine bfsLetters_std htot i c wc gs (done ++ [g]) _ _ hsplit' hm' (by rw [Array.size_push]; omega)
        (by rw [getD_push_lt _ _ _ hi]; exact hc) ?_ ?_ ?_
      · intro p hp hpi g' hg' d' hd'
        simp only [] at hp hd' ⊢
        rw [getD_push_lt _ _ _ (by omega)] at hd'
        exact Array.mem_push.mpr (Or.inl (hcl p (by simp only []; omega) hpi g' hg' d' hd'))
      · intro g' hg' d' hd'
        rcases List.mem_append.mp hg' with h1 | h1
        · exact Array.mem_push.mpr (Or.inl (hdone g' h1 d' hd'))
        · simp only [List.mem_singleton] at h1
          subst h1
          rw [he] at hd'
          injection hd' with hd'
          exact Array.mem_push.mpr (Or.inr hd'.symm)
      · apply hstd.push
        intro _
        refine ⟨i, g, done, gs, hi, hsplit, by rw [hc]; exact he, ?_⟩
        intro k' g' hg' hbef
        rcases hbef with hlt | ⟨rfl, hin⟩
        · have hk' : k' < ord.size := by omega
          have hlt' : ord.getD k' 0 < t.size := by rw [getD_of_lt ord hk']; exact hm.lt _ (by simp)
          obtain ⟨d', hd'⟩ := htot _ hlt' g' hg'
          obtain ⟨p, hp, hpe⟩ := mem_getD (hcl k' hk' hlt g' hg' d' hd')
          exact ⟨p, hp, by rw [hpe]; exact hd'⟩
        · obtain ⟨d', hd'⟩ := htot c hcsz g' hg'
          obtain ⟨p, hp, hpe⟩ := mem_getD (hdone g' hin d' hd')
          exact ⟨p, hp, by rw [hc, hpe]; exact hd'⟩
    · rw [bfsLetters_cons_old he hv]
      refine bfsLetters_std htot i c wc gs (done ++ [g]) ord ws hsplit' hm hi hc hcl ?_ hstd
      intro g' hg' d' hd'
      rcases List.mem_append.mp hg' with h1 | h1
      · exact hdone g' h1 d' hd'
      · simp only [List.mem_singleton] at h1
        subst h1
        rw [he] at hd'
        injection hd' with hd'
        subst hd'
        have hs : (ws.getD d none).isSome = true := by
          cases h : ws.getD d none with
          | none => rw [h] at hv; exact absurd rfl hv
          | some _ => rfl
        exact (hm.mark d (entry_some he).1).mp hs

theorem bfsLoop_std {t : Tab} {n : Nat} (htot : ∀ c, c < t.size → ∀ g ∈ letters n, ∃ d, entry t n c g = some d)
    (start : Nat) : ∀ (fuel i : Nat) (s : St),
    Marks t.size s → WordsOK t n start s → ClosedUpTo t n s i → i ≤ s.1.size → StdOrd t n s.1 →
    StdOrd t n (bfsLoop t n fuel i s).1
  | 0, i, s, _, _, _, _, hstd => by simpa [bfsLoop] using hstd
  | f + 1, i, (ord, ws), hm, hw, hc, hi, hstd => by
    simp only [bfsLoop]
    by_cases hlt : i < ord.size
    · simp only [hlt, dif_pos]
      have hci : ord[i] < t.size := hm.lt _ (by simp)
      have hmark : (ws.getD ord[i] none).isSome = true := (hm.mark _ hci).mpr (by simp)
      obtain ⟨wr, hwr⟩ := Option.isSome_iff_exists.mp hmark
      have hwc : traceWord t n start ((ws.getD ord[i] none).getD []).reverse = some ord[i] := by
        rw [hwr]; exact hw _ _ hwr
      obtain ⟨a1, a2, a3, a4, a5, a6⟩ := bfsLetters_inv t n start ord[i] _ hwc (letters n) (ord, ws) hm hw
      have hgi : ord.getD i 0 = ord[i] := getD_of_lt ord hlt
      have hcl : ClosedUpTo t n (bfsLetters t n ord[i] ((ws.getD ord[i] none).getD []) (letters n) (ord, ws)) (i + 1) := by
        intro p hp hpi g hg d hd
        by_cases e : p = i
        · subst e
          rw [a6 p hlt, hgi] at hd
          exact a4 g hg d hd
        · have hpo : p < ord.size := by omega
          rw [a6 p hpo] at hd
          exact a3 d (hc p hpo (by omega) g hg d hd)
      have hstd' := bfsLetters_std htot i ord[i] ((ws.getD ord[i] none).getD []) (letters n) [] ord ws
        (by simp) hm hlt hgi hc (fun g' hg' => by cases hg') hstd
      exact bfsLoop_std htot start f (i + 1) _ a1 a2 hcl (by
        have : (bfsLetters t n ord[i] ((ws.getD ord[i] none).getD []) (letters n) (ord, ws)).1.size ≥ ord.size := a5
        omega) hstd'
    · simp only [hlt, dif_neg, not_false_eq_true]
      exact hstd

end DSymVerif.CanonP
