/-
Property C15, phase 2 (towards `flattens_branchfree`): the 2-orbits of a cover built by
`derived::cover` from a compatible sheet map.  Walking `t` times round `op_j ∘ op_i` from the
chamber `(k, b)` (sheet `k`, base chamber `b`) leads to `(hol t k b, (op_j ∘ op_i)^t b)`, where the
holonomy `hol` is obtained by applying the sheet map along the base walk.  Hence `t` is a period
of `(k, b)` iff it is a period of `b` and the holonomy returns to `k`; and the branching number of
the cover at `(k, b)` is 1 iff the least such `t` is the degree `m = r·v` of the base at `b`.
-/
import DSymVerif.Proofs.Covers
import DSymVerif.Proofs.CoversTable

namespace DSymVerif.D3
open DSymVerif DSymVerif.DS

/-- sheet reached after `t` rounds of `op_j ∘ op_i` from sheet `k` over base chamber `b` -/
def hol (s : DSetData) (σ : Nat → Nat → Nat → Nat) (i j : Nat) : Nat → Nat → Nat → Nat
  | 0, k, _ => k
  | t + 1, k, b =>
    let k' := hol s σ i j t k b
    let b' := (s.comp i j)^[t] b
    σ (σ k' i b') j (s.opU i b')

section
variable {s : DSetData} (hs : ValidSet s) (hsz : 1 ≤ s.size) {n : Nat} {σ : Nat → Nat → Nat → Nat}
  (hσ : SheetCompat s n σ) {c : DSetData} (hcsize : c.size = n * s.size)
  (hop : ∀ i d, i ≤ s.dim → 1 ≤ d → d ≤ n * s.size → c.opU i d = coverF s σ i d)
include hs hsz hσ hcsize hop

omit hσ hcsize hop in
theorem base_iter_range {i j b : Nat} (hi : i ≤ s.dim) (hj : j ≤ s.dim) (hb1 : 1 ≤ b) (hb2 : b ≤ s.size) :
    ∀ t, 1 ≤ (s.comp i j)^[t] b ∧ (s.comp i j)^[t] b ≤ s.size
  | 0 => ⟨hb1, hb2⟩
  | t + 1 => by
    obtain ⟨h1, h2⟩ := base_iter_range hi hj hb1 hb2 t
    rw [Function.iterate_succ_apply']
    have hr := hs.range i _ hi h1 h2
    exact hs.range j _ hj hr.1 hr.2

/-- the walk in the cover: sheet = holonomy, projection = walk in the base -/
theorem cover_iter {i j k b : Nat} (hi : i ≤ s.dim) (hj : j ≤ s.dim) (hk : k < n)
    (hb1 : 1 ≤ b) (hb2 : b ≤ s.size) :
    ∀ t, hol s σ i j t k b < n ∧
      (c.comp i j)^[t] (s.size * k + b) = s.size * hol s σ i j t k b + (s.comp i j)^[t] b
  | 0 => ⟨hk, rfl⟩
  | t + 1 => by
    obtain ⟨hlt, heq⟩ := cover_iter hi hj hk hb1 hb2 t
    obtain ⟨hb1', hb2'⟩ := base_iter_range hs hsz hi hj hb1 hb2 t
    have hstep : hol s σ i j (t + 1) k b =
        σ (σ (hol s σ i j t k b) i ((s.comp i j)^[t] b)) j (s.opU i ((s.comp i j)^[t] b)) := rfl
    rw [Function.iterate_succ_apply', Function.iterate_succ_apply', heq, hstep]
    generalize (s.comp i j)^[t] b = b' at hb1' hb2' ⊢
    generalize hol s σ i j t k b = k' at hlt ⊢
    have hd := cmk_range (sz := s.size) hlt hb1' hb2'
    have hri := hs.range i b' hi hb1' hb2'
    have hσ1 := hσ.range k' i b' hlt hi hb1' hb2'
    have hd' := cmk_range (sz := s.size) hσ1 hri.1 hri.2
    have e1 : c.opU i (s.size * k' + b') = s.size * σ k' i b' + s.opU i b' := by
      rw [hop i _ hi hd.1 hd.2, coverF_mk hb1' hb2']
    have e2 : c.opU j (s.size * σ k' i b' + s.opU i b') =
        s.size * σ (σ k' i b') j (s.opU i b') + s.opU j (s.opU i b') := by
      rw [hop j _ hj hd'.1 hd'.2, coverF_mk hri.1 hri.2]
    refine ⟨hσ.range _ j _ hσ1 hj hri.1 hri.2, ?_⟩
    show c.opU j (c.opU i (s.size * k' + b')) = _
    rw [e1, e2]
    rfl

omit hs hσ hcsize hop in
theorem cmk_inj {k k' b b' : Nat} (hb1 : 1 ≤ b) (hb2 : b ≤ s.size) (hb1' : 1 ≤ b') (hb2' : b' ≤ s.size)
    (h : s.size * k + b = s.size * k' + b') : k = k' ∧ b = b' := by
  have h1 := cproj_mk (sz := s.size) (k := k) hb1 hb2
  have h2 := cproj_mk (sz := s.size) (k := k') hb1' hb2'
  have h3 := csheet_mk (sz := s.size) (k := k) hb1 hb2
  have h4 := csheet_mk (sz := s.size) (k := k') hb1' hb2'
  rw [h] at h1 h3
  exact ⟨by rw [← h3, h4], by rw [← h1, h2]⟩

/-- periods in the cover -/
theorem cover_period_iff {i j k b t : Nat} (hi : i ≤ s.dim) (hj : j ≤ s.dim) (hk : k < n)
    (hb1 : 1 ≤ b) (hb2 : b ≤ s.size) :
    IsPeriod c i j t (s.size * k + b) ↔ IsPeriod s i j t b ∧ hol s σ i j t k b = k := by
  obtain ⟨_, heq⟩ := cover_iter hs hsz hσ hcsize hop hi hj hk hb1 hb2 t
  obtain ⟨h1, h2⟩ := base_iter_range hs hsz hi hj hb1 hb2 t
  unfold IsPeriod
  rw [heq]
  constructor
  · intro h
    obtain ⟨a, b'⟩ := cmk_inj hsz h1 h2 hb1 hb2 h
    exact ⟨b', a⟩
  · rintro ⟨a, b'⟩
    rw [a, b']

/-- if the least return time of sheet and base chamber together is `m`, the orbit of `(k, b)` in
    the cover has length `m` -/
theorem cover_leastPeriod {i j k b m : Nat} (hi : i ≤ s.dim) (hj : j ≤ s.dim) (hk : k < n)
    (hb1 : 1 ≤ b) (hb2 : b ≤ s.size) (hm : 1 ≤ m)
    (hret : IsPeriod s i j m b ∧ hol s σ i j m k b = k)
    (hmin : ∀ t, 1 ≤ t → t < m → ¬ (IsPeriod s i j t b ∧ hol s σ i j t k b = k)) :
    IsLeastPeriod c i j (s.size * k + b) m :=
  ⟨hm, (cover_period_iff hs hsz hσ hcsize hop hi hj hk hb1 hb2).mpr hret,
    fun t h1 h2 hp => hmin t h1 h2 ((cover_period_iff hs hsz hσ hcsize hop hi hj hk hb1 hb2).mp hp)⟩

end

/-- **branching numbers of a cover.**  Let `c = cover s n σ` for a base with valid tables and a
    compatible sheet map.  If at the chamber `d = (k, b)` and the adjacent pair `(i, i+1)` the
    least `t ≥ 1` at which both the base walk returns to `b` and the holonomy returns to `k` is the
    degree `m = r·v` of the base at `b`, then the cover has branching number `v = 1` there. -/
theorem cover_branch_one (s : DSymData) (hs : ValidTables s) (hsz : 1 ≤ s.size) (hdim : 1 ≤ s.dim)
    {n : Nat} (hn : 1 ≤ n) {σ : Nat → Nat → Nat → Nat} (hσ : SheetCompat s.dset n σ)
    (c : DSymData) (hc : cover s n σ = .ok c) {i d : Nat} (hi : i < s.dim) (hd1 : 1 ≤ d) (hd2 : d ≤ n * s.size)
    (hm : 1 ≤ s.mVal i (cproj s.size d))
    (hret : IsPeriod s.dset i (i + 1) (s.mVal i (cproj s.size d)) (cproj s.size d) ∧
      hol s.dset σ i (i + 1) (s.mVal i (cproj s.size d)) (csheet s.size d) (cproj s.size d) = csheet s.size d)
    (hmin : ∀ t, 1 ≤ t → t < s.mVal i (cproj s.size d) →
      ¬ (IsPeriod s.dset i (i + 1) t (cproj s.size d) ∧
        hol s.dset σ i (i + 1) t (csheet s.size d) (cproj s.size d) = csheet s.size d)) :
    c.vPartial i (i + 1) d = .ok (some 1) := by
  obtain ⟨c', hc', hsize, hdim', hct, hop, hdeg⟩ := cover_ok s hs hsz hdim hn hσ
  rw [hc] at hc'
  cases hc'
  obtain ⟨r, hr, _, hv, _⟩ := hdeg i d hi hd1 hd2
  have hp := cproj_range (d := d) hsz
  have hk := csheet_lt hsz hd1 hd2
  have hdec := cdecomp hsz hd1
  have hsize' : c.dset.size = n * s.dset.size := hsize
  have hleast := cover_leastPeriod (c := c.dset) hs.set hsz hσ hsize' hop (Nat.le_of_lt hi) hi hk hp.1 hp.2 hm hret hmin
  have hsd : s.size = s.dset.size := rfl
  rw [← hsd, hdec] at hleast
  have : r = s.mVal i (cproj s.size d) := hr.unique hleast
  rw [hv, this, Nat.div_self hm]

end DSymVerif.D3
