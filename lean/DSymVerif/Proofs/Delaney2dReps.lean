/-
Helper lemmas for property C08, part 5 (towards `curvature_chamber_sum`): `orbit_reps_2d(i, j)`
on a valid D-set lists exactly one chamber of every (i,j)-orbit, for every pair of indices.
-/
import DSymVerif.Proofs.Delaney2dOrbits

namespace DSymVerif.D2
open DSymVerif.DS

theorem getD_setTrue (a : Array Bool) (p x : Nat) :
    (a.setIfInBounds p true).getD x false = true ↔ a.getD x false = true ∨ (x = p ∧ p < a.size) := by
  simp only [Array.getD_eq_getD_getElem?, Array.getElem?_setIfInBounds]
  by_cases hpx : p = x
  · subst hpx
    by_cases hp : p < a.size
    · simp [hp]
    · simp [hp]
  · simp only [hpx, if_false]
    constructor
    · exact Or.inl
    · rintro (h | ⟨h, _⟩)
      · exact h
      · exact absurd h.symm hpx

theorem reps2dLoop_size' (v : View) (i j d : Nat) : ∀ (fuel e : Nat) (seen : Array Bool),
    (v.reps2dLoop i j d fuel e seen).size = seen.size := by
  intro fuel
  induction fuel with
  | zero => intro e seen; rfl
  | succ fuel ih =>
    intro e seen
    simp only [View.reps2dLoop]
    split
    · rw [Array.size_setIfInBounds, Array.size_setIfInBounds]
    · rw [ih, Array.size_setIfInBounds, Array.size_setIfInBounds]

section
variable {y : DSymData} (h : ValidSet y.dset) {i j : Nat} (hi : i ≤ y.dim) (hj : j ≤ y.dim)
include h hi hj

theorem reps2dLoop_unfold (d fuel e : Nat) (seen : Array Bool) (he : 1 ≤ e ∧ e ≤ y.size) :
    y.view.reps2dLoop i j d (fuel + 1) e seen =
      if y.dset.comp i j e = d then (seen.setIfInBounds (y.dset.opU i e) true).setIfInBounds (y.dset.comp i j e) true
      else y.view.reps2dLoop i j d fuel (y.dset.comp i j e)
        ((seen.setIfInBounds (y.dset.opU i e) true).setIfInBounds (y.dset.comp i j e) true) := by
  have ha := h.range i e hi he.1 he.2
  have e1 : (y.view.op i e).getD e = y.dset.opU i e := by
    have : y.view.op i e = some (y.dset.opU i e) := opSimple_eq_some.2 ⟨hi, he.1, he.2, rfl⟩
    rw [this]; rfl
  have e2 : (y.view.op j (y.dset.opU i e)).getD (y.dset.opU i e) = y.dset.comp i j e := by
    have : y.view.op j (y.dset.opU i e) = some (y.dset.opU j (y.dset.opU i e)) :=
      opSimple_eq_some.2 ⟨hj, ha.1, ha.2, rfl⟩
    rw [this]; rfl
  simp only [View.reps2dLoop, e1, e2]

/-- marks are only added, and only on chambers of the orbit of the current chamber -/
theorem reps2dLoop_sound (d : Nat) : ∀ (fuel e : Nat) (seen : Array Bool) (x : Nat), 1 ≤ e ∧ e ≤ y.size →
    ((y.view.reps2dLoop i j d fuel e seen).getD x false = true →
      seen.getD x false = true ∨ Orb2 y.dset i j e x) ∧
    (seen.getD x false = true → (y.view.reps2dLoop i j d fuel e seen).getD x false = true) := by
  intro fuel
  induction fuel with
  | zero => intro e seen x _; exact ⟨fun hx => Or.inl hx, fun hx => hx⟩
  | succ fuel ih =>
    intro e seen x he
    have ha := h.range i e hi he.1 he.2
    have hc : 1 ≤ y.dset.comp i j e ∧ y.dset.comp i j e ≤ y.size := h.range j _ hj ha.1 ha.2
    have oA : Orb2 y.dset i j e (y.dset.opU i e) := Orb2.stepI (Orb2.refl e)
    have oC : Orb2 y.dset i j e (y.dset.comp i j e) := Orb2.stepJ oA
    rw [reps2dLoop_unfold h hi hj d fuel e seen he]
    have hset : ((seen.setIfInBounds (y.dset.opU i e) true).setIfInBounds (y.dset.comp i j e) true).getD x false = true →
        seen.getD x false = true ∨ Orb2 y.dset i j e x := by
      rw [getD_setTrue, getD_setTrue]
      rintro ((hx | ⟨rfl, _⟩) | ⟨rfl, _⟩)
      · exact Or.inl hx
      · exact Or.inr oA
      · exact Or.inr oC
    have hmono : seen.getD x false = true →
        ((seen.setIfInBounds (y.dset.opU i e) true).setIfInBounds (y.dset.comp i j e) true).getD x false = true := by
      intro hx
      rw [getD_setTrue, getD_setTrue]
      exact Or.inl (Or.inl hx)
    split
    · exact ⟨hset, hmono⟩
    · obtain ⟨a, b⟩ := ih (y.dset.comp i j e) _ x hc
      constructor
      · intro hx
        rcases a hx with hx' | hx'
        · exact hset hx'
        · exact Or.inr (oC.trans hx')
      · intro hx; exact b (hmono hx)

/-- a walk that first returns to `d` after `k ≤ fuel` rounds marks `op_i c^m e` and `c^(m+1) e`
    for all `m < k` -/
theorem reps2dLoop_complete (d : Nat) : ∀ (fuel e k : Nat) (seen : Array Bool), 1 ≤ e ∧ e ≤ y.size →
    seen.size = y.size + 1 → 1 ≤ k → k ≤ fuel → (y.dset.comp i j)^[k] e = d →
    (∀ t, 1 ≤ t → t < k → (y.dset.comp i j)^[t] e ≠ d) →
    ∀ m, m < k →
      (y.view.reps2dLoop i j d fuel e seen).getD (y.dset.opU i ((y.dset.comp i j)^[m] e)) false = true ∧
      (y.view.reps2dLoop i j d fuel e seen).getD ((y.dset.comp i j)^[m + 1] e) false = true := by
  intro fuel
  induction fuel with
  | zero => intro e k seen _ _ h1 h2; omega
  | succ fuel ih =>
    intro e k seen he hsz hk1 hk2 hk hleast m hm
    have ha := h.range i e hi he.1 he.2
    have hc : 1 ≤ y.dset.comp i j e ∧ y.dset.comp i j e ≤ y.size := h.range j _ hj ha.1 ha.2
    rw [reps2dLoop_unfold h hi hj d fuel e seen he]
    have hm0 : ((seen.setIfInBounds (y.dset.opU i e) true).setIfInBounds (y.dset.comp i j e) true).getD
          (y.dset.opU i e) false = true ∧
        ((seen.setIfInBounds (y.dset.opU i e) true).setIfInBounds (y.dset.comp i j e) true).getD
          (y.dset.comp i j e) false = true := by
      have hsize : y.size = y.dset.size := rfl
      constructor
      · rw [getD_setTrue, getD_setTrue]
        exact Or.inl (Or.inr ⟨rfl, by have := ha.2; omega⟩)
      · rw [getD_setTrue]
        exact Or.inr ⟨rfl, by rw [Array.size_setIfInBounds]; have := hc.2; omega⟩
    by_cases hret : y.dset.comp i j e = d
    · rw [if_pos hret]
      have hk' : k = 1 := by
        by_contra hne
        exact hleast 1 (Nat.le_refl 1) (by omega) hret
      have hm' : m = 0 := by omega
      subst hm'
      exact hm0
    · rw [if_neg hret]
      obtain ⟨k', rfl⟩ : ∃ k', k = k' + 1 := ⟨k - 1, by omega⟩
      have hk1' : 1 ≤ k' := by
        rcases Nat.eq_zero_or_pos k' with h0 | h0
        · subst h0; exact absurd hk hret
        · exact h0
      rw [Function.iterate_succ_apply] at hk
      have hleast' : ∀ t, 1 ≤ t → t < k' → (y.dset.comp i j)^[t] (y.dset.comp i j e) ≠ d := by
        intro t ht1 ht2
        rw [← Function.iterate_succ_apply]
        exact hleast (t + 1) (by omega) (by omega)
      have hsz' : ((seen.setIfInBounds (y.dset.opU i e) true).setIfInBounds (y.dset.comp i j e) true).size
          = y.size + 1 := by
        rw [Array.size_setIfInBounds, Array.size_setIfInBounds]; exact hsz
      cases m with
      | zero =>
        have mono := fun x => (reps2dLoop_sound h hi hj d fuel (y.dset.comp i j e)
          ((seen.setIfInBounds (y.dset.opU i e) true).setIfInBounds (y.dset.comp i j e) true) x hc).2
        exact ⟨mono _ hm0.1, mono _ hm0.2⟩
      | succ m =>
        have := ih (y.dset.comp i j e) k' _ hc hsz' hk1' (by omega) hk hleast' m (by omega)
        rw [← Function.iterate_succ_apply, ← Function.iterate_succ_apply] at this
        exact this

/-- the loop started at `d` marks exactly the orbit of `d` -/
theorem reps2dLoop_orbit {d : Nat} (hd : 1 ≤ d ∧ d ≤ y.size) (seen : Array Bool)
    (hsz : seen.size = y.size + 1) (x : Nat) (hx : 1 ≤ x ∧ x ≤ y.size) :
    (y.view.reps2dLoop i j d (y.size + 1) d seen).getD x false = true ↔
      seen.getD x false = true ∨ Orb2 y.dset i j d x := by
  constructor
  · exact (reps2dLoop_sound h hi hj d (y.size + 1) d seen x hd).1
  · rintro (hs | ho)
    · exact (reps2dLoop_sound h hi hj d (y.size + 1) d seen x hd).2 hs
    · obtain ⟨r, hr1, hr2, _, _, hper, hmin⟩ := h.r_generic hi hj hd.1 hd.2
      have hcomp := reps2dLoop_complete h hi hj d (y.size + 1) d r seen hd hsz hr1
        (by have : r ≤ y.size := hr2
            omega) hper hmin
      have hA := opT_invol h hi
      have hB := opT_invol h hj
      have hper' : (Dihedral.cc (opT y.dset i) (opT y.dset j))^[r] d = d := by
        rw [cc_iter_eq h hi hj hd]; exact hper
      have ho' := orbit_of_orb2 h hi hj hd ho
      rcases (Dihedral.orbit_iff hA hB hr1 hper' x).1 ho' with hc | ⟨w, hw, rfl⟩
      · obtain ⟨k, hk, hkx⟩ := Finset.mem_image.1 ((Dihedral.mem_cyc hr1 hper' x).2 hc)
        simp only [Finset.mem_range] at hk
        rw [cc_iter_eq h hi hj hd] at hkx
        subst hkx
        cases k with
        | zero =>
          have := (hcomp (r - 1) (by omega)).2
          have e : r - 1 + 1 = r := by omega
          rw [e, hper] at this
          exact this
        | succ k => exact (hcomp k (by omega)).2
      · obtain ⟨k, hk, hkw⟩ := Finset.mem_image.1 ((Dihedral.mem_cyc hr1 hper' w).2 hw)
        simp only [Finset.mem_range] at hk
        rw [cc_iter_eq h hi hj hd] at hkw
        subst hkw
        have hrange := h.comp_range hi hj hd.1 hd.2 k
        rw [opT_in hrange.1 hrange.2]
        exact (hcomp k hk).1

end

/-! ### the outer loop -/

theorem foldl_elements_inv {σ : Type} (f : σ → Nat → σ) (P : Nat → σ → Prop) (n : Nat) (init : σ)
    (h0 : P 0 init) (hstep : ∀ k st, k < n → P k st → P (k + 1) (f st (k + 1))) :
    P n (((List.range n).map (· + 1)).foldl f init) := by
  induction n with
  | zero => exact h0
  | succ n ih =>
    rw [List.range_succ, List.map_append, List.foldl_append]
    simp only [List.map_cons, List.map_nil, List.foldl_cons, List.foldl_nil]
    exact hstep n _ (Nat.lt_succ_self n) (ih (fun k st hk => hstep k st (Nat.lt_succ_of_lt hk)))

/-- what `orbit_reps_2d(i, j)` returns on a valid D-set -/
structure RepsOK (y : DSymData) (i j : Nat) (reps : List Nat) : Prop where
  range : ∀ d ∈ reps, 1 ≤ d ∧ d ≤ y.size
  distinct : reps.Pairwise (fun a b => ¬ Orb2 y.dset i j a b)
  cover : ∀ x, 1 ≤ x → x ≤ y.size → ∃ d ∈ reps, Orb2 y.dset i j d x

structure RepsInv (y : DSymData) (i j n : Nat) (st : List Nat × Array Bool) : Prop where
  size : st.2.size = y.size + 1
  seen : ∀ x, 1 ≤ x → x ≤ y.size → (st.2.getD x false = true ↔ ∃ d ∈ st.1, Orb2 y.dset i j d x)
  done : ∀ x, 1 ≤ x → x ≤ n → st.2.getD x false = true
  range : ∀ d ∈ st.1, 1 ≤ d ∧ d ≤ y.size
  distinct : st.1.Pairwise (fun a b => ¬ Orb2 y.dset i j a b)

theorem orbitReps2d_ok {y : DSymData} (h : ValidSet y.dset) {i j : Nat} (hi : i ≤ y.dim) (hj : j ≤ y.dim) :
    RepsOK y i j (y.view.orbitReps2d i j) := by
  have hsizeeq : y.view.size = y.size := rfl
  have key : RepsInv y i j y.size
      (y.view.elements.foldl (fun (acc : List Nat × Array Bool) d =>
        if acc.2.getD d false then acc
        else (d :: acc.1, y.view.reps2dLoop i j d (y.view.size + 1) d (acc.2.setIfInBounds d true)))
        ([], Array.replicate (y.view.size + 1) false)) := by
    unfold View.elements
    rw [hsizeeq]
    apply foldl_elements_inv _ (RepsInv y i j) y.size
    · refine ⟨by simp, ?_, ?_, ?_, List.Pairwise.nil⟩
      · intro x _ _
        simp only [List.not_mem_nil, false_and, exists_false, iff_false]
        simp only [Array.getD_eq_getD_getElem?, Array.getElem?_replicate]
        split <;> simp
      · intro x h1 h2; omega
      · intro d hd; simp at hd
    · intro k st hk J
      have hd : 1 ≤ k + 1 ∧ k + 1 ≤ y.size := ⟨by omega, by omega⟩
      by_cases hs : st.2.getD (k + 1) false = true
      · rw [if_pos hs]
        refine ⟨J.size, J.seen, ?_, J.range, J.distinct⟩
        intro x h1 h2
        rcases Nat.lt_or_ge x (k + 1) with hlt | hge
        · exact J.done x h1 (by omega)
        · have : x = k + 1 := by omega
          rw [this]; exact hs
      · rw [if_neg hs]
        have hsz : (st.2.setIfInBounds (k + 1) true).size = y.size + 1 := by
          rw [Array.size_setIfInBounds]; exact J.size
        have hiff := fun x hx => reps2dLoop_orbit h hi hj hd (st.2.setIfInBounds (k + 1) true) hsz x hx
        refine ⟨?_, ?_, ?_, ?_, ?_⟩
        · show (y.view.reps2dLoop i j (k + 1) (y.size + 1) (k + 1) _).size = _
          rw [reps2dLoop_size', hsz]
        · intro x h1 h2
          show (y.view.reps2dLoop i j (k + 1) (y.size + 1) (k + 1) _).getD x false = true ↔ _
          rw [hiff x ⟨h1, h2⟩, getD_setTrue, J.seen x h1 h2]
          simp only [List.mem_cons, exists_eq_or_imp]
          constructor
          · rintro ((hx | ⟨rfl, _⟩) | ho)
            · exact Or.inr hx
            · exact Or.inl (Orb2.refl _)
            · exact Or.inl ho
          · rintro (ho | hx)
            · exact Or.inr ho
            · exact Or.inl (Or.inl hx)
        · intro x h1 h2
          show (y.view.reps2dLoop i j (k + 1) (y.size + 1) (k + 1) _).getD x false = true
          have hx2 : x ≤ y.size := by omega
          rw [hiff x ⟨h1, hx2⟩, getD_setTrue]
          rcases Nat.lt_or_ge x (k + 1) with hlt | hge
          · exact Or.inl (Or.inl (J.done x h1 (by omega)))
          · have : x = k + 1 := by omega
            exact Or.inr (this ▸ Orb2.refl _)
        · intro d hdm
          simp only [List.mem_cons] at hdm
          rcases hdm with rfl | hdm
          · exact hd
          · exact J.range d hdm
        · refine List.Pairwise.cons ?_ J.distinct
          intro b hb ho
          apply hs
          have hbr := J.range b hb
          rw [J.seen (k + 1) hd.1 hd.2]
          exact ⟨b, hb, Orb2.symm h hi hj hd ho⟩
  refine ⟨?_, ?_, ?_⟩
  · intro d hdm
    unfold View.orbitReps2d at hdm
    rw [List.mem_reverse] at hdm
    exact key.range d hdm
  · unfold View.orbitReps2d
    rw [List.pairwise_reverse]
    refine key.distinct.imp_of_mem ?_
    intro a b ha hb hab hba
    exact hab (Orb2.symm h hi hj (key.range b hb) hba)
  · intro x h1 h2
    obtain ⟨d, hdm, ho⟩ := (key.seen x h1 h2).1 (key.done x h1 h2)
    refine ⟨d, ?_, ho⟩
    unfold View.orbitReps2d
    rw [List.mem_reverse]
    exact hdm

end DSymVerif.D2
