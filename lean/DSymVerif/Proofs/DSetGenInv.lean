/-
Lemmas about the model of the D-set generator, part 3: `set`, `grow` and
`check_and_apply_implications` keep a partial D-set well formed
(`ValidPartialSet`), the implication loop never runs out of fuel and never panics.
Core Lean only.
-/
import DSymVerif.Proofs.DSetGenScan

namespace DSymVerif.DSG
open DSymVerif.DS

/-! ### the flat index is injective on in-range arguments -/

theorem idx_inj {s : DSetData} {i d i' d' : Nat} (hi : i ≤ s.dim) (hi' : i' ≤ s.dim)
    (hd : 1 ≤ d) (hd' : 1 ≤ d') (h : s.idx i d = s.idx i' d') : i = i' ∧ d = d' := by
  unfold DSetData.idx at h
  have hm : ((d - 1) * (s.dim + 1) + i) % (s.dim + 1) = i := by
    rw [Nat.add_comm, Nat.add_mul_mod_self_right]; exact Nat.mod_eq_of_lt (by omega)
  have hm' : ((d' - 1) * (s.dim + 1) + i') % (s.dim + 1) = i' := by
    rw [Nat.add_comm, Nat.add_mul_mod_self_right]; exact Nat.mod_eq_of_lt (by omega)
  have hq : ((d - 1) * (s.dim + 1) + i) / (s.dim + 1) = d - 1 := by
    rw [Nat.add_comm, Nat.add_mul_div_right _ _ (by omega), Nat.div_eq_of_lt (by omega)]; omega
  have hq' : ((d' - 1) * (s.dim + 1) + i') / (s.dim + 1) = d' - 1 := by
    rw [Nat.add_comm, Nat.add_mul_div_right _ _ (by omega), Nat.div_eq_of_lt (by omega)]; omega
  rw [h] at hm hq
  constructor
  · omega
  · omega

/-! ### `set` -/

/-- the table after a successful `set(i, d, e)` -/
theorem setC_opU {s s' : DSetData} {i d e : Nat} (h : setC s i d e = .ok s')
    {i' d' : Nat} (hi' : i' ≤ s.dim) (hd' : 1 ≤ d') :
    s'.opU i' d' =
      if i' = i ∧ d' = e then d else if i' = i ∧ d' = d then e else s.opU i' d' := by
  obtain ⟨hi, hd1, _, he1, _, hkd, hke, _, _, rfl⟩ := setC_ok h
  show ((s.op.setIfInBounds (s.idx i d) e).setIfInBounds (s.idx i e) d).getD (s.idx i' d') 0 =
    if i' = i ∧ d' = e then d else if i' = i ∧ d' = d then e else s.op.getD (s.idx i' d') 0
  simp only [getD_setIfInBounds, Array.size_setIfInBounds]
  by_cases c1 : i' = i ∧ d' = e
  · obtain ⟨rfl, rfl⟩ := c1
    simp [hke]
  · have n1 : ¬ (s.idx i e = s.idx i' d' ∧ s.idx i e < s.op.size) := by
      intro hh
      obtain ⟨a, b⟩ := idx_inj hi hi' he1 hd' hh.1
      exact c1 ⟨a.symm, b.symm⟩
    rw [if_neg n1, if_neg c1]
    by_cases c2 : i' = i ∧ d' = d
    · obtain ⟨rfl, rfl⟩ := c2
      simp [hkd]
    · have n2 : ¬ (s.idx i d = s.idx i' d' ∧ s.idx i d < s.op.size) := by
        intro hh
        obtain ⟨a, b⟩ := idx_inj hi hi' hd1 hd' hh.1
        exact c2 ⟨a.symm, b.symm⟩
      rw [if_neg n2, if_neg c2]

theorem setC_valid {s s' : DSetData} (hv : ValidPartialSet s) {i d e : Nat}
    (h : setC s i d e = .ok s') : ValidPartialSet s' := by
  have hx := setC_ext h
  obtain ⟨hi, hd1, hd2, he1, he2, hkd, hke, hdi, hei, _⟩ := setC_ok h
  have hsz : s'.size = s.size := hx.size_eq
  have hdm : s'.dim = s.dim := hx.dim_eq
  refine ⟨by rw [hx.len_eq, hsz, hdm]; exact hv.size_eq, ?_, ?_⟩
  · intro i' d' hi' h1 h2
    rw [hdm] at hi'; rw [hsz] at h2 ⊢
    rw [setC_opU h hi' h1]
    split
    · exact hd2
    · split
      · exact he2
      · exact hv.range i' d' hi' h1 h2
  · intro i' d' hi' h1 h2 hne
    rw [hdm] at hi'; rw [hsz] at h2
    rw [setC_opU h hi' h1] at hne ⊢
    by_cases c1 : i' = i ∧ d' = e
    · obtain ⟨rfl, rfl⟩ := c1
      simp only [and_self, if_true]
      rw [setC_opU h hi' hd1]
      by_cases hde : d = d'
      · subst hde; simp
      · simp [hde]
    · rw [if_neg c1] at hne ⊢
      by_cases c2 : i' = i ∧ d' = d
      · obtain ⟨rfl, rfl⟩ := c2
        simp only [and_self, if_true]
        rw [setC_opU h hi' he1]
        simp
      · rw [if_neg c2] at hne ⊢
        have hr := hv.range i' d' hi' h1 h2
        have hinv := hv.invol i' d' hi' h1 h2 hne
        rw [setC_opU h hi' (Nat.pos_of_ne_zero hne)]
        by_cases c3 : i' = i ∧ s.opU i' d' = e
        · exfalso
          obtain ⟨rfl, hxe⟩ := c3
          rw [hxe] at hinv
          rcases hei with h0 | h0
          · rw [h0] at hinv; omega
          · rw [h0] at hinv; exact c2 ⟨rfl, hinv.symm⟩
        · rw [if_neg c3]
          by_cases c4 : i' = i ∧ s.opU i' d' = d
          · exfalso
            obtain ⟨rfl, hxd⟩ := c4
            rw [hxd] at hinv
            rcases hdi with h0 | h0
            · rw [h0] at hinv; omega
            · rw [h0] at hinv; exact c1 ⟨rfl, hinv.symm⟩
          · rw [if_neg c4]
            exact hinv

/-! ### `grow(1)` -/

theorem grow_opU {s : DSetData} (hv : ValidPartialSet s) {i d : Nat} (hi : i ≤ s.dim)
    (hd : 1 ≤ d) : (s.grow 1).opU i d = if d ≤ s.size then s.opU i d else 0 := by
  show (s.op ++ Array.replicate (1 * (s.dim + 1)) 0).getD (s.idx i d) 0 =
    if d ≤ s.size then s.op.getD (s.idx i d) 0 else 0
  split
  · rename_i hle
    have hlt := idx_lt hv.size_eq hi hd hle
    simp only [Array.getD_eq_getD_getElem?]
    rw [Array.getElem?_append_left hlt]
  · rename_i hle
    apply getD_append_replicate_zero
    rw [hv.size_eq]
    unfold DSetData.idx
    have : s.size * (s.dim + 1) ≤ (d - 1) * (s.dim + 1) := Nat.mul_le_mul_right _ (by omega)
    omega

theorem grow_valid {s : DSetData} (hv : ValidPartialSet s) : ValidPartialSet (s.grow 1) := by
  have hsz : (s.grow 1).size = s.size + 1 := rfl
  have hdm : (s.grow 1).dim = s.dim := rfl
  refine ⟨?_, ?_, ?_⟩
  · show (s.op ++ Array.replicate (1 * (s.dim + 1)) 0).size = (s.size + 1) * (s.dim + 1)
    rw [Array.size_append, Array.size_replicate, hv.size_eq, Nat.add_mul]
  · intro i d hi h1 h2
    rw [hdm] at hi; rw [hsz] at h2 ⊢
    rw [grow_opU hv hi h1]
    split
    · have := hv.range i d hi h1 ‹_›; omega
    · omega
  · intro i d hi h1 h2 hne
    rw [hdm] at hi; rw [hsz] at h2
    rw [grow_opU hv hi h1] at hne ⊢
    split at hne
    · rename_i hle
      rw [if_pos hle]
      have hr := hv.range i d hi h1 hle
      rw [grow_opU hv hi (Nat.pos_of_ne_zero hne), if_pos hr]
      exact hv.invol i d hi h1 hle hne
    · exact absurd rfl hne

/-! ### check_and_apply_implications keeps the set well formed and cannot panic -/

/-- queue entries are (index, chamber) pairs in range -/
def QOk (ds : DSetData) (q : List (Nat × Nat)) : Prop :=
  ∀ p, p ∈ q → p.1 ≤ ds.dim ∧ 1 ≤ p.2 ∧ p.2 ≤ ds.size

theorem implRow_spec (i d : Nat) : ∀ (js : List Nat) (ds : DSetData) (q : List (Nat × Nat)),
    ValidPartialSet ds → i ≤ ds.dim → 1 ≤ d → d ≤ ds.size → (∀ j, j ∈ js → j ≤ ds.dim) →
    ∃ r, implRow i d js ds q = .ok r ∧
      ∀ ds' q', r = some (ds', q') →
        ValidPartialSet ds' ∧ Ext ds ds' ∧
        ∃ nw, q' = q ++ nw ∧ QOk ds nw ∧ zeros ds'.op + nw.length ≤ zeros ds.op := by
  intro js
  induction js with
  | nil =>
    intro ds q hv _ _ _ _
    refine ⟨some (ds, q), rfl, ?_⟩
    intro ds' q' h
    cases h
    exact ⟨hv, Ext.refl _, [], by simp, (by intro p hp; cases hp), by simp⟩
  | cons j js ih =>
    intro ds q hv hi h1 h2 hjs
    have hj : j ≤ ds.dim := hjs j (by simp)
    have hjs' : ∀ j, j ∈ js → j ≤ ds.dim := fun x hx => hjs x (by simp [hx])
    simp only [implRow]
    split
    · obtain ⟨head, tail, gap, k, hs, hk, hh1, hh2, ht1, ht2, hgap⟩ := scanOrbit_gap1 hv hi hj h1 h2
      rw [hs]
      simp only
      split
      · exact ⟨none, rfl, by intro _ _ h; cases h⟩
      · split
        · rename_i hg1
          obtain ⟨hz1, hz2, ds1, hset⟩ := hgap hg1
          rw [hset]
          simp only
          have hv1 := setC_valid hv hset
          have hx1 := setC_ext hset
          have hzl := setC_zeros_lt hset hz2
          have hkd : k ≤ ds.dim := by rcases hk with rfl | rfl <;> assumption
          obtain ⟨r, hr, hspec⟩ := ih ds1 (q ++ [(k, head)]) hv1 (by rw [hx1.dim_eq]; exact hi) h1
            (by rw [hx1.size_eq]; exact h2) (by rw [hx1.dim_eq]; exact hjs')
          refine ⟨r, hr, ?_⟩
          intro ds' q' hrq
          obtain ⟨hv', hx', nw, hq', hnw, hz'⟩ := hspec ds' q' hrq
          refine ⟨hv', hx1.trans hx', (k, head) :: nw, by rw [hq']; simp, ?_, ?_⟩
          · intro p hp
            rcases List.mem_cons.1 hp with rfl | hp
            · exact ⟨hkd, hh1, hh2⟩
            · have := hnw p hp
              rw [hx1.dim_eq, hx1.size_eq] at this
              exact this
          · simp only [List.length_cons]; omega
        · exact ih ds q hv hi h1 h2 hjs'
    · exact ih ds q hv hi h1 h2 hjs'

theorem implLoop_spec : ∀ (fuel : Nat) (ds : DSetData) (q : List (Nat × Nat)),
    ValidPartialSet ds → QOk ds q → zeros ds.op + q.length ≤ fuel →
    ∃ r, implLoop fuel ds q = .ok r ∧
      ∀ ds', r = some ds' → ValidPartialSet ds' ∧ Ext ds ds' := by
  intro fuel
  induction fuel with
  | zero =>
    intro ds q hv _ hf
    have : q = [] := List.eq_nil_of_length_eq_zero (by omega)
    subst this
    exact ⟨some ds, by simp [implLoop], by intro ds' h; cases h; exact ⟨hv, Ext.refl _⟩⟩
  | succ fuel ih =>
    intro ds q hv hq hf
    cases q with
    | nil => exact ⟨some ds, by simp [implLoop], by intro ds' h; cases h; exact ⟨hv, Ext.refl _⟩⟩
    | cons a q =>
      obtain ⟨i, d⟩ := a
      have ha := hq (i, d) (by simp)
      obtain ⟨r, hr, hspec⟩ := implRow_spec i d (List.range (ds.dim + 1)) ds q hv ha.1 ha.2.1 ha.2.2
        (by intro j hj; have := List.mem_range.1 hj; omega)
      simp only [implLoop, hr]
      cases r with
      | none => exact ⟨none, rfl, by intro _ h; cases h⟩
      | some pr =>
        obtain ⟨ds1, q1⟩ := pr
        obtain ⟨hv1, hx1, nw, hq1, hnw, hz1⟩ := hspec ds1 q1 rfl
        simp only
        have hq1ok : QOk ds1 q1 := by
          intro p hp
          rw [hq1] at hp
          rw [hx1.dim_eq, hx1.size_eq]
          rcases List.mem_append.1 hp with hp | hp
          · exact hq p (by simp [hp])
          · exact hnw p hp
        obtain ⟨r2, hr2, hspec2⟩ := ih ds1 q1 hv1 hq1ok (by
          rw [hq1, List.length_append]
          simp only [List.length_cons] at hf
          omega)
        refine ⟨r2, hr2, ?_⟩
        intro ds' h'
        obtain ⟨hv', hx'⟩ := hspec2 ds' h'
        exact ⟨hv', hx1.trans hx'⟩

/-- `check_and_apply_implications` on a well-formed partial D-set with an in-range
    start: no assert fires, no index is out of range, the queue loop terminates within
    the fuel; on `true` the result is a well-formed extension -/
theorem checkImpl_spec {ds : DSetData} (hv : ValidPartialSet ds) {i d : Nat}
    (hi : i ≤ ds.dim) (h1 : 1 ≤ d) (h2 : d ≤ ds.size) :
    ∃ r, checkImpl ds i d = .ok r ∧ ∀ ds', r = some ds' → ValidPartialSet ds' ∧ Ext ds ds' :=
  implLoop_spec _ ds [(i, d)] hv (by intro p hp; simp at hp; subst hp; exact ⟨hi, h1, h2⟩)
    (by simp)

end DSymVerif.DSG
