/-
Helper lemmas for property C09, part 2: invariants of `find_generators`.

* `PairInv` : the words on the two sides of a non-mirror facet are mutually inverse
  (needs the symbol's operations to be involutions — `Invol`);
* `gen_to_edge` has the keys 1..n in order and pairwise different facets.
-/
import Mathlib.Data.List.Nodup
import Mathlib.Data.List.Range
import DSymVerif.Proofs.FundGroup

namespace DSymVerif.FGP
open DSymVerif DSymVerif.DS DSymVerif.FG DSymVerif.FWP DSymVerif.SpecC10

/-! ### mutually inverse words -/

/-- every operation of the symbol is an involution on the chambers where it is defined -/
def Invol (ds : DSymData) : Prop := ∀ i d e, ds.op i d = some e → ds.op i e = some d

/-- the Boolean form over the finitely many facets -/
def involB (ds : DSymData) : Bool :=
  (List.range (ds.dim + 1)).all fun i => (List.range ds.size).all fun d0 =>
    match ds.op i (d0 + 1) with
    | some e => ds.op i e == some (d0 + 1)
    | none => true

theorem op_some_range {ds : DSymData} {i d e : Nat} (h : ds.op i d = some e) :
    i ≤ ds.dim ∧ 1 ≤ d ∧ d ≤ ds.size := by
  unfold DSymData.op DSetData.opSimple at h
  split at h
  · cases h
  · rename_i hc
    simp only [Bool.or_eq_true, decide_eq_true_eq, not_or, not_lt] at hc
    have h1 := hc.1.1
    have h2 := hc.1.2
    have h3 := hc.2
    have hd : ds.dim = ds.dset.dim := rfl
    have hs : ds.size = ds.dset.size := rfl
    omega

theorem invol_of_involB {ds : DSymData} (h : involB ds = true) : Invol ds := by
  intro i d e hop
  obtain ⟨hi, hd1, hd2⟩ := op_some_range hop
  unfold involB at h
  rw [List.all_eq_true] at h
  have h1 := h i (List.mem_range.2 (by omega))
  rw [List.all_eq_true] at h1
  have h2 := h1 (d - 1) (List.mem_range.2 (by omega))
  have hd : d - 1 + 1 = d := by omega
  rw [hd, hop] at h2
  simpa using h2

/-- words on the two sides of every non-mirror facet are mutually inverse -/
def PairInv (ds : DSymData) (m : E2W) : Prop :=
  ∀ i d di, ds.op i d = some di → di ≠ d → e2wGet m (d, i) = FW.inverse (e2wGet m (di, i))

theorem inverse_inverse {w : List Int} (h : isReduced w = true) : FW.inverse (FW.inverse w) = w :=
  eq_of_den_eq (inverse_isReduced _) h (by rw [den_inverse, den_inverse, inv_inv])

theorem pairInv_nil (ds : DSymData) : PairInv ds [] := by
  intro i d di _ _
  simp [e2wGet, e2wGet?, FW.empty, FW.inverse, FW.new, FW.normalized]

theorem pairInv_insert {ds : DSymData} (hI : Invol ds) {m : E2W} (hm : PairInv ds m)
    {e ei i : Nat} {w : List Int} (hop : ds.op i e = some ei) (hw : isReduced w = true) :
    PairInv ds (e2wInsert (e2wInsert m (e, i) (FW.inverse w)) (ei, i) w) := by
  intro i' d di hd hne
  have hop' := hI _ _ _ hop
  have hd' := hI _ _ _ hd
  rw [e2wGet_insert, e2wGet_insert, e2wGet_insert, e2wGet_insert]
  by_cases h1 : (d, i') = (ei, i)
  · -- the facet is the far side: the near side carries `inverse w`
    have hdi : d = ei := congrArg Prod.fst h1
    have hii : i' = i := congrArg Prod.snd h1
    subst hdi; subst hii
    have hde : di = e := by rw [hop'] at hd; exact (Option.some.inj hd).symm
    subst hde
    have h2 : ¬ (di, i') = (d, i') := fun h => hne (congrArg Prod.fst h)
    rw [if_pos rfl, if_neg h2, if_pos rfl]
    exact (inverse_inverse hw).symm
  · rw [if_neg h1]
    by_cases h2 : (d, i') = (e, i)
    · have hdi : d = e := congrArg Prod.fst h2
      have hii : i' = i := congrArg Prod.snd h2
      subst hdi; subst hii
      have hde : di = ei := by rw [hop] at hd; exact (Option.some.inj hd).symm
      subst hde
      rw [if_pos rfl, if_pos rfl]
    · rw [if_neg h2]
      have h3 : ¬ (di, i') = (ei, i) := by
        intro h
        have hdi : di = ei := congrArg Prod.fst h
        have hii : i' = i := congrArg Prod.snd h
        subst hdi; subst hii
        rw [hop'] at hd'
        exact h2 (by rw [Option.some.inj hd'])
      have h4 : ¬ (di, i') = (e, i) := by
        intro h
        have hdi : di = e := congrArg Prod.fst h
        have hii : i' = i := congrArg Prod.snd h
        subst hdi; subst hii
        rw [hop] at hd'
        exact h1 (by rw [Option.some.inj hd'])
      rw [if_neg h3, if_neg h4]
      exact hm i' d di hd hne

theorem applyGlued_pairInv {ds : DSymData} (hI : Invol ds) : ∀ (items : List Item) (e2w e2w' : E2W),
    PairInv ds e2w → applyGlued ds e2w items = .ok e2w' → PairInv ds e2w'
  | [], e2w, e2w', hm, h => by
    simp [applyGlued] at h; rw [← h]; exact hm
  | (e, i, j) :: rest, e2w, e2w', hm, h => by
    unfold applyGlued at h
    split at h
    · cases h
    · rename_i ei hop
      split at h
      · rename_i w hw
        have hwr := traceWord_isReduced _ _ _ _ _ _ hw
        split at h
        · exact applyGlued_pairInv hI rest _ _ (pairInv_insert hI hm hop hwr) h
        · exact applyGlued_pairInv hI rest _ _ hm h
      · cases h
      · cases h

theorem new_gen_eq (n : Nat) :
    FW.new [((n + 1 : Nat) : Int)] = FW.inverse (FW.new [-((n + 1 : Nat) : Int)]) := by
  have h1 : FW.new [-((n + 1 : Nat) : Int)] = [-((n + 1 : Nat) : Int)] :=
    new_of_isReduced (by simp [isReduced]; omega)
  rw [h1]
  simp [FW.inverse]

theorem genStep_pairInv {ds : DSymData} (hI : Invol ds) (st st' : GenState) (d i : Nat)
    (hm : PairInv ds st.e2w) (h : genStep ds st d i = .ok st') : PairInv ds st'.e2w := by
  unfold genStep at h
  split at h
  · split at h
    · cases h
    · rename_i di hop
      simp only at h
      split at h
      · split at h
        · rename_i e2w' hg
          injection h with h
          rw [← h]
          refine applyGlued_pairInv hI _ _ _ ?_ hg
          rw [new_gen_eq]
          exact pairInv_insert hI hm hop (new_singleton_isReduced _)
        · cases h
        · cases h
      · cases h
      · cases h
  · injection h with h; rw [← h]; exact hm

theorem genLoop_pairInv {ds : DSymData} (hI : Invol ds) : ∀ (fs : List Edge) (st st' : GenState),
    PairInv ds st.e2w → genLoop ds st fs = .ok st' → PairInv ds st'.e2w
  | [], st, st', hm, h => by simp [genLoop] at h; rw [← h]; exact hm
  | (d, i) :: rest, st, st', hm, h => by
    unfold genLoop at h
    split at h
    · rename_i st1 h1
      exact genLoop_pairInv hI rest st1 st' (genStep_pairInv hI st st1 d i hm h1) h
    · cases h
    · cases h

theorem findGenerators_pairInv {ds : DSymData} (hI : Invol ds) (e2w : E2W) (g2e : G2E)
    (h : findGenerators ds = .ok (e2w, g2e)) : PairInv ds e2w := by
  unfold findGenerators at h
  split at h
  · split at h
    · rename_i st hs
      injection h with h
      have := genLoop_pairInv hI _ _ st (pairInv_nil ds) hs
      have he : st.e2w = e2w := congrArg Prod.fst h
      rw [← he]; exact this
    · cases h
    · cases h
  · cases h
  · cases h

theorem fundamentalGroup_e2w {ds : DSymData} {f : FundGroup} (h : fundamentalGroup ds = .ok f) :
    findGenerators ds = .ok (f.edgeToWord, f.genToEdge) := by
  unfold fundamentalGroup at h
  split at h
  · rename_i e2w g2e hg
    split at h
    · injection h with h
      rw [← h]; exact hg
    · cases h
    · cases h
  · cases h
  · cases h

/-! ### gen_to_edge -/

/-- keys 1..n in order, facets pairwise different and none of them still to be visited -/
def GenInv (g2e : G2E) (todo : List Edge) : Prop :=
  g2e.map Prod.fst = List.range' 1 g2e.length ∧ (g2e.map Prod.snd).Nodup ∧
  ∀ p ∈ g2e, p.2 ∉ todo

theorem g2eInsert_append : ∀ (m : G2E) (k : Nat) (e : Edge), (∀ p ∈ m, p.1 < k) →
    g2eInsert m k e = m ++ [(k, e)]
  | [], k, e, _ => rfl
  | (k', e') :: rest, k, e, h => by
    have hk : k' < k := h (k', e') List.mem_cons_self
    unfold g2eInsert
    rw [if_neg (by omega), if_neg (by omega),
      g2eInsert_append rest k e (fun p hp => h p (List.mem_cons_of_mem _ hp))]
    rfl

theorem genInv_step {g2e : G2E} {d i : Nat} {rest : List Edge}
    (hn : ((d, i) :: rest).Nodup) (h : GenInv g2e ((d, i) :: rest)) :
    GenInv (g2eInsert g2e (g2e.length + 1) (d, i)) rest := by
  obtain ⟨hk, hnd, hnot⟩ := h
  have hlt : ∀ p ∈ g2e, p.1 < g2e.length + 1 := by
    intro p hp
    have : p.1 ∈ g2e.map Prod.fst := List.mem_map_of_mem hp
    rw [hk, List.mem_range'_1] at this
    omega
  rw [g2eInsert_append _ _ _ hlt]
  refine ⟨?_, ?_, ?_⟩
  · rw [List.map_append, hk, List.length_append]
    simp [List.range'_concat]
    omega
  · rw [List.map_append, List.nodup_append]
    refine ⟨hnd, by simp, ?_⟩
    intro a ha b hb
    simp only [List.map_cons, List.map_nil, List.mem_singleton] at hb
    subst hb
    obtain ⟨p, hp, rfl⟩ := List.mem_map.1 ha
    intro he
    exact hnot p hp (he ▸ List.mem_cons_self)
  · intro p hp
    rcases List.mem_append.1 hp with hp | hp
    · exact fun hr => hnot p hp (List.mem_cons_of_mem _ hr)
    · simp only [List.mem_singleton] at hp
      subst hp
      exact (List.nodup_cons.1 hn).1

theorem genInv_skip {g2e : G2E} {e : Edge} {rest : List Edge} (h : GenInv g2e (e :: rest)) :
    GenInv g2e rest :=
  ⟨h.1, h.2.1, fun p hp hr => h.2.2 p hp (List.mem_cons_of_mem _ hr)⟩

theorem genStep_g2e (ds : DSymData) (st st' : GenState) (d i : Nat)
    (h : genStep ds st d i = .ok st') :
    st'.g2e = st.g2e ∨ st'.g2e = g2eInsert st.g2e (st.g2e.length + 1) (d, i) := by
  unfold genStep at h
  split at h
  · split at h
    · cases h
    · simp only at h
      split at h
      · split at h
        · injection h with h
          rw [← h]; exact Or.inr rfl
        · cases h
        · cases h
      · cases h
      · cases h
  · injection h with h; rw [← h]; exact Or.inl rfl

theorem genLoop_genInv (ds : DSymData) : ∀ (fs : List Edge) (st st' : GenState),
    fs.Nodup → GenInv st.g2e fs → genLoop ds st fs = .ok st' → GenInv st'.g2e []
  | [], st, st', _, hm, h => by simp [genLoop] at h; rw [← h]; exact hm
  | (d, i) :: rest, st, st', hn, hm, h => by
    unfold genLoop at h
    split at h
    · rename_i st1 h1
      refine genLoop_genInv ds rest st1 st' (List.nodup_cons.1 hn).2 ?_ h
      rcases genStep_g2e ds st st1 d i h1 with he | he
      · rw [he]; exact genInv_skip hm
      · rw [he]; exact genInv_step hn hm
    · cases h
    · cases h

theorem facets_nodup (ds : DSymData) : (facets ds).Nodup := by
  unfold facets
  rw [List.nodup_flatMap]
  refine ⟨?_, ?_⟩
  · intro d0 _
    exact List.Nodup.map (fun a b h => congrArg Prod.snd h) List.nodup_range
  · refine List.Pairwise.imp_of_mem ?_ (List.nodup_range (n := ds.size))
    intro a b _ _ hab
    intro x hx1 hx2
    obtain ⟨i1, _, rfl⟩ := List.mem_map.1 hx1
    obtain ⟨i2, _, h2⟩ := List.mem_map.1 hx2
    have : b + 1 = a + 1 := congrArg Prod.fst h2
    omega

theorem findGenerators_genInv (ds : DSymData) (e2w : E2W) (g2e : G2E)
    (h : findGenerators ds = .ok (e2w, g2e)) : GenInv g2e [] := by
  unfold findGenerators at h
  split at h
  · split at h
    · rename_i st hs
      injection h with h
      have h0 : GenInv ([] : G2E) (facets ds) :=
        ⟨rfl, List.nodup_nil, fun p hp => (by cases hp)⟩
      have := genLoop_genInv ds _ _ st (facets_nodup ds) h0 hs
      have he : st.g2e = g2e := congrArg Prod.snd h
      rw [← he]; exact this
    · cases h
    · cases h
  · cases h
  · cases h

/-! ### `relators` is a `BTreeSet` collected in order: strictly ascending in `FreeWord`'s order -/

theorem relStep_sorted (ds : DSymData) (e2w : E2W) (i j d : Nat) (st st' : RelState)
    (hs : Sorted st.relators) (h : relStep ds e2w i j st d = .ok st') : Sorted st'.relators := by
  unfold relStep at h
  split at h
  · cases h
  · split at h
    · split at h
      · injection h with h
        rw [← h]
        simp only
        split
        · exact sorted_insertSorted _ _ hs
        · exact hs
      · cases h
      · cases h
      · cases h
    · cases h
    · cases h

theorem relLoop_sorted (ds : DSymData) (e2w : E2W) (i j : Nat) : ∀ (reps : List Nat)
    (st st' : RelState), Sorted st.relators → relLoop ds e2w i j st reps = .ok st' →
      Sorted st'.relators
  | [], st, st', hs, h => by simp [relLoop] at h; rw [← h]; exact hs
  | d :: rest, st, st', hs, h => by
    unfold relLoop at h
    split at h
    · rename_i st1 h1
      exact relLoop_sorted ds e2w i j rest st1 st' (relStep_sorted ds e2w i j d st st1 hs h1) h
    · cases h
    · cases h

theorem pairLoop_sorted (ds : DSymData) (e2w : E2W) : ∀ (ps : List (Nat × Nat))
    (st st' : RelState), Sorted st.relators → pairLoop ds e2w st ps = .ok st' →
      Sorted st'.relators
  | [], st, st', hs, h => by simp [pairLoop] at h; rw [← h]; exact hs
  | (i, j) :: rest, st, st', hs, h => by
    unfold pairLoop at h
    split at h
    · rename_i st1 h1
      exact pairLoop_sorted ds e2w rest st1 st' (relLoop_sorted ds e2w i j _ st st1 hs h1) h
    · cases h
    · cases h

theorem fundamentalGroup_sorted (ds : DSymData) (f : FundGroup)
    (h : fundamentalGroup ds = .ok f) : Sorted f.relators := by
  unfold fundamentalGroup at h
  split at h
  · split at h
    · rename_i st hp
      injection h with h
      rw [← h]
      exact pairLoop_sorted ds _ _ _ st (by simp [Sorted]) hp
    · cases h
    · cases h
  · cases h
  · cases h

end DSymVerif.FGP
