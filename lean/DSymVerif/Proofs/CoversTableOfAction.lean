/-
Property C05, part 17: a transitive permutation representation of the presented group
`⟨1..n | rels⟩` on `Fin j` is a valid coset table with the rows numbered as the points:
row `c`, letter `g` ↦ `A(g)⁻¹ c`  (the same construction as C12 `table_of_subgroup`, without the
renumbering).
-/
import DSymVerif.Proofs.LowIndexSubgroup

namespace DSymVerif.CoversP
open DSymVerif DSymVerif.Cosets DSymVerif.SpecC11 DSymVerif.CosetP DSymVerif.RebaseP
open DSymVerif.CosetSoundP DSymVerif.CosetInvP DSymVerif.LowIndexP

theorem table_of_action {n : Nat} {rels : List (List Int)}
    (hlet : ∀ w ∈ rels, ∀ x ∈ w, x ∈ allGensOf n) {j : Nat} (hj : 0 < j)
    (A : G n rels →* Equiv.Perm (Fin j)) (htrans : ∀ k : Fin j, ∃ y, A y ⟨0, hj⟩ = k) :
    ∃ T : Tab, Valid T n rels [] ∧ T.size = j ∧
      ∀ (w : List Int), (∀ g ∈ w, g ∈ allGensOf n) → ∀ c (hc : c < j),
        SpecC11.traceWord T n c w = some ((A (wbar n rels w))⁻¹ ⟨c, hc⟩).val := by
  let E : Nat → Int → Nat := fun c g =>
    if hc : c < j then ((A (γ n rels g))⁻¹ ⟨c, hc⟩).val else 0
  have hEv : ∀ c (hc : c < j) g, E c g = ((A (γ n rels g))⁻¹ ⟨c, hc⟩).val :=
    fun c hc g => by simp only [E, dif_pos hc]
  have hE : ∀ c, c < j → ∀ g ∈ allGensOf n, E c g < j := by
    intro c hc g _
    rw [hEv c hc]
    exact Fin.isLt _
  let T : Tab := viewTab ((List.range j).map fun c => (allGensOf n).map fun g => ((E c g : Nat) : Int))
  have hsz : T.size = j := by simp [T, viewTab]
  have hent : ∀ c, c < j → ∀ g ∈ allGensOf n, entry T n c g = some (E c g) :=
    fun c hc g hg => entry_viewTab E hE hc hg
  have hgl : ∀ g, g ∈ letters n ↔ g ∈ allGensOf n := fun g => by rw [allGensOf_eq_letters]
  have htrace : ∀ (w : List Int), (∀ g ∈ w, g ∈ allGensOf n) → ∀ c (hc : c < j),
      SpecC11.traceWord T n c w = some ((A (wbar n rels w))⁻¹ ⟨c, hc⟩).val := by
    intro w
    induction w with
    | nil =>
      intro _ c hc
      simp [SpecC11.traceWord, wbar_nil]
    | cons g w ih =>
      intro hw c hc
      have hg : g ∈ allGensOf n := hw g (by simp)
      simp only [SpecC11.traceWord, hent c hc g hg]
      have hd : E c g < j := hE c hc g hg
      rw [ih (fun x hx => hw x (by simp [hx])) (E c g) hd]
      congr 2
      have : (⟨E c g, hd⟩ : Fin j) = (A (γ n rels g))⁻¹ ⟨c, hc⟩ := Fin.ext (hEv c hc g)
      rw [this, wbar_cons, map_mul, mul_inv_rev, Equiv.Perm.mul_apply]
  have hv : Valid T n rels [] := by
    refine ⟨by rw [hsz]; exact hj, ?_, ?_, ?_, (fun _ h => by cases h), ?_⟩
    · intro c hc g hg
      rw [hsz] at hc
      exact ⟨_, hent c hc g ((hgl g).mp hg)⟩
    · intro c g d he
      obtain ⟨hd, hc, hg⟩ := entry_some he
      rw [hsz] at hc hd
      have hg' := (hgl g).mp hg
      rw [hent c hc g hg'] at he
      injection he with he
      subst he
      rw [hent _ hd (-g) (neg_mem_allGensOf hg')]
      congr 1
      rw [hEv _ hd]
      have : (⟨E c g, hd⟩ : Fin j) = (A (γ n rels g))⁻¹ ⟨c, hc⟩ := Fin.ext (hEv c hc g)
      rw [this, γ_neg hg', map_inv, inv_inv]
      simp
    · intro r hr c hc
      rw [hsz] at hc
      rw [htrace r (hlet r hr) c hc, wbar_rel hr, map_one, inv_one]
      rfl
    · intro c hc
      rw [hsz] at hc
      obtain ⟨y, hy⟩ := htrans ⟨c, hc⟩
      obtain ⟨w, hw, hwy⟩ := exists_wbar (n := n) (rels := rels) y⁻¹
      refine ⟨w, ?_⟩
      rw [htrace w hw 0 hj, hwy, map_inv, inv_inv, hy]
  exact ⟨T, hv, hsz, htrace⟩

end DSymVerif.CoversP
