/-
C11 totality, part 4: `compact()` never fails; the modelled `coset_table` returns a table or fails
through the row-limit assertion only.
-/
import DSymVerif.Proofs.CosetTotal3
import DSymVerif.Proofs.LowIndexPath3
import DSymVerif.Proofs.CosetValid

namespace DSymVerif.CosetInvP
open DSymVerif DSymVerif.Cosets DSymVerif.LowIndexP DSymVerif.CosetPartP DSymVerif.CanonP

/-! ### `compact()` never fails -/

theorem oldToNewGo_total' {t : Table} (s : Shape t) : ∀ (ks : List Nat) (o2n : Array (Option Nat)) (n : Nat),
    o2n.size = t.len → (∀ k ∈ ks, k < t.len) → ∃ res, t.oldToNewGo ks (o2n, n) = .ok res
  | [], o2n, n, _, _ => ⟨o2n, rfl⟩
  | k :: ks, o2n, n, hs, hks => by
    simp only [Table.oldToNewGo]
    have hc : t.canon k < o2n.size := by rw [hs]; exact canon_lt s (hks k (by simp))
    rw [Array.getElem?_eq_getElem hc]
    cases o2n[t.canon k] with
    | none =>
      exact oldToNewGo_total' s ks _ _ (by simpa using hs) (fun k' h' => hks k' (by simp [h']))
    | some j =>
      exact oldToNewGo_total' s ks _ _ hs (fun k' h' => hks k' (by simp [h']))

theorem oldToNew_total' {t : Table} (s : Shape t) : ∃ o2n, t.oldToNew = .ok o2n := by
  unfold Table.oldToNew
  exact oldToNewGo_total' s _ _ _ (by simp) (fun k hk => List.mem_range.mp hk)

theorem compactRow_total' {t : Table} (s : Shape t) {o2n : Array (Option Nat)}
    (hnum : ∀ k, t.canon k = k → k < t.len → ∃ j, o2n[k]? = some (some j)) {k : Nat}
    (hkc : t.canon k = k) (hk : k < t.len) :
    ∀ (gs : List Int) (res : Table), (∀ g ∈ gs, g ∈ t.allGens) → WRes res t.nrGens →
    ∃ res', t.compactRow o2n k gs res = .ok res' ∧ WRes res' t.nrGens
  | [], res, _, hw => ⟨res, rfl, hw⟩
  | g :: gs, res, hgs, hw => by
    simp only [Table.compactRow]
    have hg : g ∈ t.allGens := hgs g (by simp)
    rcases get_total s hk hg with h | ⟨c, h⟩
    · rw [h]
      exact compactRow_total' s hnum hkc hk gs res (fun g' hg' => hgs g' (by simp [hg'])) hw
    · rw [h]
      simp only []
      obtain ⟨j, hj⟩ := hnum k hkc hk
      obtain ⟨jc, hjc⟩ := hnum c (get_canon s h) (s.range k g c hg h)
      rw [hj, hjc]
      simp only []
      have hgr : g ∈ res.allGens := by unfold Table.allGens at hg ⊢; rw [hw.1]; exact hg
      obtain ⟨res1, h1⟩ := set_succeeds hw.2 j hgr jc
      rw [h1]
      simp only []
      exact compactRow_total' s hnum hkc hk gs res1 (fun g' hg' => hgs g' (by simp [hg']))
        ⟨by rw [(set_ok h1).1]; exact hw.1, set_width h1 hw.2⟩

theorem compactRows_total' {t : Table} (s : Shape t) {o2n : Array (Option Nat)}
    (hnum : ∀ k, t.canon k = k → k < t.len → ∃ j, o2n[k]? = some (some j)) :
    ∀ (ks : List Nat) (res : Table), (∀ k ∈ ks, k < t.len) → WRes res t.nrGens →
    ∃ res', t.compactRows o2n ks res = .ok res'
  | [], res, _, _ => ⟨res, rfl⟩
  | k :: ks, res, hks, hw => by
    simp only [Table.compactRows]
    by_cases hkc : t.canon k = k
    · simp only [hkc, if_true]
      obtain ⟨res1, h1, hw1⟩ := compactRow_total' s hnum hkc (hks k (by simp)) t.allGens res (fun _ h => h) hw
      rw [h1]
      simp only []
      exact compactRows_total' s hnum ks res1 (fun k' hk' => hks k' (by simp [hk'])) hw1
    · simp only [hkc, if_false]
      exact compactRows_total' s hnum ks res (fun k' hk' => hks k' (by simp [hk'])) hw

theorem compact_total' {t : Table} (s : Shape t) : ∃ t', t.compact = .ok t' := by
  unfold Table.compact
  obtain ⟨o2n, ho⟩ := oldToNew_total' s
  rw [ho]
  simp only []
  obtain ⟨m, num, _⟩ := oldToNew_spec s ho
  refine compactRows_total' s (fun k hkc hk => by
    obtain ⟨j, hj⟩ := num.total k hk
    rw [hkc] at hj
    exact ⟨j, hj⟩) _ _ (fun k hk => List.mem_range.mp hk) ⟨rfl, ?_⟩
  intro x row hx
  have hx0 : x = 0 := by
    by_contra hne
    have hlt : x < (Table.new t.nrGens).rows.size := by
      by_contra hge
      rw [Array.getElem?_eq_none (by omega)] at hx
      cases hx
    have : (Table.new t.nrGens).rows.size = 1 := by simp [Table.new]
    omega
  subst hx0
  simp [Table.new, blankRow] at hx
  subst hx
  simp [Table.new]

/-! ### `coset_table`: a table, or the row-limit assertion -/

/-- the run of the modelled `coset_table n rels subs` reaches — every earlier step of the main loop
    having returned `.ok` — a free slot of a live row while the table has `rowLimit` rows or
    more, i.e. the code's `assert!(n < 100_000)` fires -/
def LimitHit (n : Nat) (rels subs : List (List Int)) : Prop :=
  mainLoopHits (expandedRelatorSet rels) subs (rowLimit + 1) 0 (Table.new n)

/-- **totality up to the row limit**: for words over the letters `±1..±n` the modelled
    `coset_table` returns a table, or it returns `.panic` and its own run hits the row-limit
    assertion (`LimitHit`, defined along the control flow of the main loop).  `.err` (model fuel
    exhausted) and every other panic branch of the model (index panics of `get`/`set`, a missing
    number in `compact`, the `scanGo` index check) are unreachable. -/
theorem cosetTable_total {n : Nat} {rels subs : List (List Int)}
    (hr : ∀ w ∈ rels, ∀ x ∈ w, x ∈ allGensOf n) (hs : ∀ w ∈ subs, ∀ x ∈ w, x ∈ allGensOf n) :
    (∃ t, cosetTable n rels subs = .ok t) ∨ (cosetTable n rels subs = .panic ∧ LimitHit n rels subs) := by
  have hR : ∀ w ∈ expandedRelatorSet rels, ∀ x ∈ w, x ∈ allGensOf n :=
    expandedRelatorSet_letters (S := fun x => x ∈ allGensOf n) (fun x hx => neg_mem_allGensOf hx) hr
  have hnew : (Table.new n).allGens = allGensOf n := rfl
  unfold cosetTable cosetTableRaw
  rcases mainLoop_total (rels := expandedRelatorSet rels) (subs := subs) (rowLimit + 1) 0 (Table.new n)
    (tcq_new n) (fun w hw x hx => by rw [hnew]; exact hR w hw x hx)
    (fun w hw x hx => by rw [hnew]; exact hs w hw x hx)
    (by simp [Table.len, Table.new, rowLimit]) (by omega) (by omega) with ⟨t1, h1, _⟩ | ⟨h1, hlim⟩
  · rw [h1]
    simp only []
    obtain ⟨a1, a2, a3⟩ := mainLoop_spec (rowLimit + 1) 0 (Table.new n) t1 (tcq_new n)
      (fun w hw x hx => by rw [hnew]; exact hR w hw x hx)
      (fun w hw x hx => by rw [hnew]; exact hs w hw x hx) (fun c hc => by omega) h1
    have hg1 : t1.allGens = allGensOf n := by rw [a2.allGens, hnew]
    have hwr : ∀ w ∈ rels, WordOK t1 w := fun w hw x hx => by rw [hg1]; exact hr w hw x hx
    have hws : ∀ w ∈ subs, WordOK t1 w := fun w hw x hx => by rw [hg1]; exact hs w hw x hx
    obtain ⟨t2, h2⟩ := closeLoop_total (rels := rels) (subs := subs) (t1.len + 1) t1 a1 hwr hws
      (by have := live_le t1; omega)
    rw [h2]
    simp only []
    obtain ⟨b1, _, _, _⟩ := closeLoop_spec (t1.len + 1) t1 t2 a1 hwr hws a3 h2
    obtain ⟨t3, h3⟩ := compact_total' b1.shape
    exact Or.inl ⟨t3, h3⟩
  · rw [h1]
    exact Or.inr ⟨rfl, hlim⟩

/-- and conversely: the run hits the row-limit assertion exactly when the result is `.panic` -/
theorem cosetTable_panic_iff {n : Nat} {rels subs : List (List Int)}
    (hr : ∀ w ∈ rels, ∀ x ∈ w, x ∈ allGensOf n) (hs : ∀ w ∈ subs, ∀ x ∈ w, x ∈ allGensOf n) :
    cosetTable n rels subs = .panic ↔ LimitHit n rels subs := by
  constructor
  · intro h
    rcases cosetTable_total hr hs with ⟨t, ht⟩ | ⟨_, hl⟩
    · rw [ht] at h; cases h
    · exact hl
  · intro h
    unfold cosetTable cosetTableRaw
    rw [mainLoop_panic_of_hits _ _ _ h]

end DSymVerif.CosetInvP
