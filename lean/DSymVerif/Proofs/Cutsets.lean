/-
Helper lemmas for property C19, part 1: graph theory about the import-free Spec
`DSymVerif.SpecC19` — walks, the closed-set lemma, soundness and completeness of the
Spec's reachability oracle, the hitting-set counting lemma (weak duality) and the three
certificate theorems whose hypotheses are literally the Booleans the driver evaluates.
(No Mathlib needed.)
-/
import DSymVerif.Spec.C19

namespace DSymVerif.CutP
open DSymVerif.SpecC19

/-- `p` is a walk from `s` to `t` along edges of `G` (Prop form of `SpecC19.isWalk`) -/
def IsWalk (G : List Edge) (s t : Nat) (p : List Nat) : Prop :=
  p.head? = some s ∧ p.getLast? = some t ∧ ∀ e ∈ walkEdges p, e ∈ G

theorem isWalk_iff (G : List Edge) (s t : Nat) (p : List Nat) :
    isWalk G s t p = true ↔ IsWalk G s t p := by
  simp [isWalk, IsWalk, and_assoc]

theorem IsWalk.mono {G H : List Edge} {s t : Nat} {p : List Nat}
    (h : IsWalk G s t p) (hGH : ∀ e ∈ walkEdges p, e ∈ G → e ∈ H) : IsWalk H s t p :=
  ⟨h.1, h.2.1, fun e he => hGH e he (h.2.2 e he)⟩

/-! ### walks -/

theorem walkEdges_cons_cons (a b : Nat) (r : List Nat) :
    walkEdges (a :: b :: r) = (a, b) :: walkEdges (b :: r) := rfl

@[simp] theorem walkEdges_nil : walkEdges [] = [] := rfl
@[simp] theorem walkEdges_single (a : Nat) : walkEdges [a] = [] := rfl

theorem mem_of_mem_walkEdges : ∀ (p : List Nat) (e : Edge), e ∈ walkEdges p → e.1 ∈ p ∧ e.2 ∈ p
  | [], e, h => by simp at h
  | [_], e, h => by simp at h
  | a :: b :: r, e, h => by
    rw [walkEdges_cons_cons, List.mem_cons] at h
    rcases h with h | h
    · subst h; simp
    · have := mem_of_mem_walkEdges (b :: r) e h
      exact ⟨List.mem_cons_of_mem _ this.1, List.mem_cons_of_mem _ this.2⟩

/-- second components of walk edges lie in the tail -/
theorem snd_mem_tail_of_mem_walkEdges : ∀ (p : List Nat) (e : Edge), e ∈ walkEdges p → e.2 ∈ p.tail
  | [], e, h => by simp at h
  | [_], e, h => by simp at h
  | a :: b :: r, e, h => by
    rw [walkEdges_cons_cons, List.mem_cons] at h
    rcases h with h | h
    · subst h; simp
    · have := snd_mem_tail_of_mem_walkEdges (b :: r) e h
      simp only [List.tail_cons] at this ⊢
      exact List.mem_cons_of_mem _ this

/-- first components of walk edges lie in `dropLast` -/
theorem fst_mem_dropLast_of_mem_walkEdges :
    ∀ (p : List Nat) (e : Edge), e ∈ walkEdges p → e.1 ∈ p.dropLast
  | [], e, h => by simp at h
  | [_], e, h => by simp at h
  | a :: b :: r, e, h => by
    rw [walkEdges_cons_cons, List.mem_cons] at h
    rcases h with h | h
    · subst h; simp [List.dropLast]
    · have := fst_mem_dropLast_of_mem_walkEdges (b :: r) e h
      simp only [List.dropLast_cons_cons] at this ⊢
      exact List.mem_cons_of_mem _ this

/-- **The crossing lemma.**  A walk that starts inside `S` and ends outside of it uses an
    edge that leaves `S`. -/
theorem exists_leaving (S : Nat → Prop) :
    ∀ (p : List Nat) (a b : Nat), p.head? = some a → p.getLast? = some b → S a → ¬ S b →
      ∃ e ∈ walkEdges p, S e.1 ∧ ¬ S e.2
  | [], a, b, h, _, _, _ => by simp at h
  | [x], a, b, h1, h2, ha, hb => by
    simp at h1 h2; subst h1; subst h2; exact absurd ha hb
  | x :: y :: r, a, b, h1, h2, ha, hb => by
    simp only [List.head?_cons, Option.some.injEq] at h1
    subst h1
    by_cases hy : S y
    · have h2' : (y :: r).getLast? = some b := by
        rw [List.getLast?_cons_cons] at h2; exact h2
      obtain ⟨e, he, hS⟩ := exists_leaving S (y :: r) y b rfl h2' hy hb
      exact ⟨e, by rw [walkEdges_cons_cons]; exact List.mem_cons_of_mem _ he, hS⟩
    · exact ⟨(x, y), by rw [walkEdges_cons_cons]; exact List.mem_cons_self, ha, hy⟩

/-- a walk can be extended by an edge at its end -/
theorem IsWalk.snoc {G : List Edge} {s a b : Nat} {p : List Nat}
    (h : IsWalk G s a p) (hab : (a, b) ∈ G) : IsWalk G s b (p ++ [b]) := by
  obtain ⟨h1, h2, h3⟩ := h
  have key : ∀ (p : List Nat) (a : Nat), p.getLast? = some a →
      ∀ e ∈ walkEdges (p ++ [b]), e ∈ walkEdges p ∨ e = (a, b) := by
    intro p
    induction p with
    | nil => intro a h; simp at h
    | cons x r ih =>
      intro a hl e he
      cases r with
      | nil =>
        simp at hl; subst hl
        simp [walkEdges] at he
        exact Or.inr he
      | cons y r' =>
        rw [List.getLast?_cons_cons] at hl
        simp only [List.cons_append] at he
        rw [walkEdges_cons_cons, List.mem_cons] at he
        rcases he with he | he
        · left; rw [walkEdges_cons_cons]; rw [he]; exact List.mem_cons_self
        · have := ih a hl e (by simpa using he)
          rcases this with h | h
          · left; rw [walkEdges_cons_cons]; exact List.mem_cons_of_mem _ h
          · right; exact h
  refine ⟨?_, by simp, ?_⟩
  · cases p with
    | nil => simp at h1
    | cons x r => simpa using h1
  · intro e he
    rcases key p a h2 e he with h | h
    · exact h3 e h
    · rw [h]; exact hab

/-! ### the closed-set lemma -/

/-- **closed_set_separates.**  If `S` contains `s` but not `t` and `C` contains every edge
    of `G` that leaves `S`, then every walk from `s` to `t` in `G` uses an edge of `C`. -/
theorem closed_set_separates (G C : List Edge) (S : Nat → Prop) (s t : Nat)
    (hs : S s) (ht : ¬ S t)
    (hC : ∀ e ∈ G, S e.1 → ¬ S e.2 → e ∈ C)
    (p : List Nat) (hp : IsWalk G s t p) : ∃ e ∈ walkEdges p, e ∈ C := by
  obtain ⟨e, he, h1, h2⟩ := exists_leaving S p s t hp.1 hp.2.1 hs ht
  exact ⟨e, he, hC e (hp.2.2 e he) h1 h2⟩

/-! ### the Spec's reachability oracle -/

theorem closed_iff (G : List Edge) (R : List Nat) :
    closed G R = true ↔ ∀ e ∈ G, e.1 ∈ R → e.2 ∈ R := by
  simp only [closed, List.all_eq_true, Bool.or_eq_true, Bool.not_eq_true', List.contains_iff_mem]
  constructor
  · intro h e he h1
    rcases h e he with h | h
    · simp [h1] at h
    · simpa using h
  · intro h e he
    by_cases h1 : e.1 ∈ R
    · right; simpa using h e he h1
    · left; simpa using h1

/-- what one sweep does: keeps everything, adds only heads of edges whose tail is present -/
theorem sweep_spec (G0 : List Edge) (s : Nat) :
    ∀ (G : List Edge) (R : List Nat), (∀ e ∈ G, e ∈ G0) →
      (∀ v ∈ R, ∃ p, IsWalk G0 s v p) →
      (∀ v ∈ R, v ∈ sweep G R) ∧ (∀ v ∈ sweep G R, ∃ p, IsWalk G0 s v p)
  | [], R, _, hR => by simpa [sweep] using hR
  | e :: G, R, hG, hR => by
    have hG' : ∀ e ∈ G, e ∈ G0 := fun x hx => hG x (List.mem_cons_of_mem _ hx)
    simp only [sweep, List.foldl_cons]
    by_cases hc : (R.contains e.1 && !R.contains e.2) = true
    · rw [if_pos hc]
      have h1 : e.1 ∈ R := by
        simp only [Bool.and_eq_true, List.contains_iff_mem] at hc; simpa using hc.1
      have hR' : ∀ v ∈ e.2 :: R, ∃ p, IsWalk G0 s v p := by
        intro v hv
        rcases List.mem_cons.1 hv with hv | hv
        · obtain ⟨p, hp⟩ := hR e.1 h1
          exact ⟨p ++ [e.2], by rw [hv]; exact hp.snoc (hG e List.mem_cons_self)⟩
        · exact hR v hv
      have := sweep_spec G0 s G (e.2 :: R) hG' hR'
      exact ⟨fun v hv => this.1 v (List.mem_cons_of_mem _ hv), this.2⟩
    · rw [if_neg hc]
      exact sweep_spec G0 s G R hG' hR

theorem reachFuel_spec (G : List Edge) (s : Nat) :
    ∀ (n : Nat) (R : List Nat), (∀ v ∈ R, ∃ p, IsWalk G s v p) →
      (∀ v ∈ R, v ∈ reachFuel G n R) ∧ (∀ v ∈ reachFuel G n R, ∃ p, IsWalk G s v p)
  | 0, R, hR => by simpa [reachFuel] using hR
  | n + 1, R, hR => by
    have hs := sweep_spec G s G R (fun _ h => h) hR
    simp only [reachFuel]
    split
    · exact ⟨fun _ h => h, hR⟩
    · have := reachFuel_spec G s n (sweep G R) hs.2
      exact ⟨fun v hv => this.1 v (hs.1 v hv), this.2⟩

theorem self_walk (G : List Edge) (s : Nat) : IsWalk G s s [s] := by simp [IsWalk]

theorem mem_reach_self (G : List Edge) (s : Nat) : s ∈ reach G s :=
  (reachFuel_spec G s _ [s] (by intro v hv; simp at hv; subst hv; exact ⟨[v], self_walk G v⟩)).1 s
    (by simp)

/-- soundness of the oracle: whatever it lists is reachable -/
theorem reach_sound (G : List Edge) (s v : Nat) (h : v ∈ reach G s) : ∃ p, IsWalk G s v p :=
  (reachFuel_spec G s _ [s] (by intro v hv; simp at hv; subst hv; exact ⟨[v], self_walk G v⟩)).2 v h

/-- completeness of the oracle *given the closedness check that every Spec clause makes* -/
theorem reach_complete (G : List Edge) (s v : Nat) (hc : closed G (reach G s) = true)
    (p : List Nat) (hp : IsWalk G s v p) : v ∈ reach G s := by
  by_cases hv : v ∈ reach G s
  · exact hv
  · obtain ⟨e, he, h1, h2⟩ :=
      exists_leaving (· ∈ reach G s) p s v hp.1 hp.2.1 (mem_reach_self G s) hv
    exact absurd ((closed_iff G _).1 hc e (hp.2.2 e he) h1) h2

theorem sameSet_iff (xs ys : List Nat) : sameSet xs ys = true ↔ ∀ v, v ∈ xs ↔ v ∈ ys := by
  simp only [sameSet, Bool.and_eq_true, List.all_eq_true, List.contains_iff_mem]
  constructor
  · intro h v; exact ⟨fun hv => by simpa using h.1 v hv, fun hv => by simpa using h.2 v hv⟩
  · intro h; exact ⟨fun v hv => by simpa using (h v).1 hv, fun v hv => by simpa using (h v).2 hv⟩

/-- **reach_exact.**  When the Boolean `isReachSet G s R` holds, `R` is exactly the set of
    vertices that can be reached from `s` by a walk in `G`. -/
theorem isReachSet_exact (G : List Edge) (s : Nat) (R : List Nat) (h : isReachSet G s R = true)
    (v : Nat) : v ∈ R ↔ ∃ p, IsWalk G s v p := by
  simp only [isReachSet, Bool.and_eq_true] at h
  rw [(sameSet_iff _ _).1 h.2 v]
  exact ⟨reach_sound G s v, fun ⟨p, hp⟩ => reach_complete G s v h.1 p hp⟩

/-- `unreachable G s t = true` means: there is no walk from `s` to `t` in `G` -/
theorem unreachable_sound (G : List Edge) (s t : Nat) (h : unreachable G s t = true)
    (p : List Nat) : ¬ IsWalk G s t p := by
  simp only [unreachable, Bool.and_eq_true, Bool.not_eq_true', List.contains_iff_mem] at h
  intro hp
  have := reach_complete G s t h.1.1 p hp
  have h2 := h.2
  simp [this] at h2

/-! ### what the three `separates…` Booleans mean -/

theorem mem_removeEdges (G cut : List Edge) (e : Edge) :
    e ∈ removeEdges G cut ↔ e ∈ G ∧ e ∉ cut := by
  simp [removeEdges]

theorem mem_removeEdgesU (G cut : List Edge) (e : Edge) :
    e ∈ removeEdgesU G cut ↔ e ∈ G ∧ e ∉ cut ∧ swap e ∉ cut := by
  simp [removeEdgesU]

theorem mem_removeVertices (G : List Edge) (C : List Nat) (e : Edge) :
    e ∈ removeVertices G C ↔ e ∈ G ∧ e.1 ∉ C ∧ e.2 ∉ C := by
  simp [removeVertices]

/-- every walk from `s` to `t` uses a cut edge -/
theorem separatesE_sound (G cut : List Edge) (s t : Nat) (h : separatesE G cut s t = true)
    (p : List Nat) (hp : IsWalk G s t p) : ∃ e ∈ walkEdges p, e ∈ cut := by
  by_cases hex : ∃ e ∈ walkEdges p, e ∈ cut
  · exact hex
  · exfalso
    refine unreachable_sound _ s t h p (hp.mono ?_)
    intro e he heG
    exact (mem_removeEdges G cut e).2 ⟨heG, fun hc => hex ⟨e, he, hc⟩⟩

/-- every walk from `s` to `t` in the undirected graph uses a cut edge in one direction -/
theorem separatesU_sound (G cut : List Edge) (s t : Nat) (h : separatesU G cut s t = true)
    (p : List Nat) (hp : IsWalk (sym G) s t p) :
    ∃ e ∈ walkEdges p, e ∈ cut ∨ swap e ∈ cut := by
  by_cases hex : ∃ e ∈ walkEdges p, e ∈ cut ∨ swap e ∈ cut
  · exact hex
  · exfalso
    refine unreachable_sound _ s t h p (hp.mono ?_)
    intro e he heG
    exact (mem_removeEdgesU (sym G) cut e).2
      ⟨heG, fun hc => hex ⟨e, he, Or.inl hc⟩, fun hc => hex ⟨e, he, Or.inr hc⟩⟩

/-- every walk from `s` to `t` passes through a cut vertex -/
theorem separatesV_sound (G : List Edge) (C : List Nat) (s t : Nat)
    (h : separatesV G C s t = true) (p : List Nat) (hp : IsWalk G s t p) :
    ∃ e ∈ walkEdges p, e.1 ∈ C ∨ e.2 ∈ C := by
  by_cases hex : ∃ e ∈ walkEdges p, e.1 ∈ C ∨ e.2 ∈ C
  · exact hex
  · exfalso
    refine unreachable_sound _ s t h p (hp.mono ?_)
    intro e he heG
    exact (mem_removeVertices G C e).2
      ⟨heG, fun hc => hex ⟨e, he, Or.inl hc⟩, fun hc => hex ⟨e, he, Or.inr hc⟩⟩

/-! ### counting: pairwise disjoint sets that all meet `C` -/

/-- **Hitting-set bound.**  If the lists `Ps` are pairwise disjoint and each of them contains
    an element of `C`, then `C` has at least as many entries as there are lists. -/
theorem hitting_bound {α} [DecidableEq α] :
    ∀ (Ps : List (List α)) (C : List α),
      Ps.Pairwise (fun a b => ∀ x ∈ a, x ∉ b) → (∀ P ∈ Ps, ∃ x ∈ P, x ∈ C) →
      Ps.length ≤ C.length
  | [], _, _, _ => by simp
  | P :: Ps, C, hd, hh => by
    obtain ⟨x, hxP, hxC⟩ := hh P List.mem_cons_self
    rw [List.pairwise_cons] at hd
    have ih := hitting_bound Ps (C.erase x) hd.2 (by
      intro Q hQ
      obtain ⟨y, hyQ, hyC⟩ := hh Q (List.mem_cons_of_mem _ hQ)
      have hne : y ≠ x := fun h => hd.1 Q hQ x hxP (h ▸ hyQ)
      exact ⟨y, hyQ, (List.mem_erase_of_ne hne).2 hyC⟩)
    have hl := List.length_erase_of_mem hxC
    have hpos : 0 < C.length := List.length_pos_of_mem hxC
    simp only [List.length_cons]
    omega

theorem disjoint_iff {α} [BEq α] [LawfulBEq α] (a b : List α) :
    disjoint a b = true ↔ ∀ x ∈ a, x ∉ b := by
  simp [disjoint]

theorem pairwiseDisjoint_iff {α} [BEq α] [LawfulBEq α] :
    ∀ (L : List (List α)), pairwiseDisjoint L = true ↔ L.Pairwise (fun a b => ∀ x ∈ a, x ∉ b)
  | [] => by simp [pairwiseDisjoint]
  | x :: r => by
    simp only [pairwiseDisjoint, Bool.and_eq_true, List.all_eq_true, List.pairwise_cons,
      pairwiseDisjoint_iff r, disjoint_iff]

/-! ### unordered edges -/

theorem norm_swap (e : Edge) : norm (swap e) = norm e := by
  obtain ⟨a, b⟩ := e
  simp only [norm, swap]
  by_cases h1 : a ≤ b <;> by_cases h2 : b ≤ a <;> simp [h1, h2]
  · have : a = b := Nat.le_antisymm h1 h2
    subst this; exact ⟨rfl, rfl⟩
  · omega

/-! ### internal vertices -/

theorem mem_internal {p : List Nat} {s t x : Nat} (h1 : p.head? = some s)
    (h2 : p.getLast? = some t) (hx : x ∈ p) (hs : x ≠ s) (ht : x ≠ t) : x ∈ internal p := by
  cases p with
  | nil => simp at hx
  | cons a r =>
    simp only [List.head?_cons, Option.some.injEq] at h1
    subst h1
    have hxr : x ∈ r := by
      rcases List.mem_cons.1 hx with h | h
      · exact absurd h hs
      · exact h
    have hne : r ≠ [] := List.ne_nil_of_mem hxr
    have hl : r.getLast? = some t := by
      rw [List.getLast?_cons] at h2
      cases hr : r.getLast? with
      | none => simp [List.getLast?_eq_none_iff] at hr; exact absurd hr hne
      | some z => rw [hr] at h2; simpa using h2
    have hdec := List.dropLast_concat_getLast hne
    have hlast : r.getLast hne = t := by
      rw [List.getLast?_eq_some_getLast hne] at hl
      exact Option.some.inj hl
    simp only [internal, List.tail_cons]
    rw [← hdec, List.mem_append] at hxr
    rcases hxr with h | h
    · exact h
    · simp only [List.mem_singleton] at h
      exact absurd (h.trans hlast) ht

/-! ### the certificate theorems (hypotheses = the driver's Booleans) -/

/-- **Weak duality, directed edges.** -/
theorem certificate_edge (G : List Edge) (s t : Nat) (ps : List (List Nat)) (cut : List Edge)
    (hp : validPathsE G s t ps = true) (hc : separatesE G cut s t = true) :
    ps.length ≤ cut.length := by
  simp only [validPathsE, Bool.and_eq_true, List.all_eq_true] at hp
  obtain ⟨⟨_, hw⟩, hd⟩ := hp
  have := hitting_bound (ps.map walkEdges) cut ((pairwiseDisjoint_iff _).1 hd) (by
    intro P hP
    obtain ⟨p, hp, rfl⟩ := List.mem_map.1 hP
    exact separatesE_sound G cut s t hc p ((isWalk_iff G s t p).1 (hw p hp)))
  simpa using this

/-- **Weak duality, undirected graph, unordered edges.** -/
theorem certificate_undirected (G : List Edge) (s t : Nat) (ps : List (List Nat))
    (cut : List Edge)
    (hp : validPathsU G s t ps = true) (hc : separatesU G cut s t = true) :
    ps.length ≤ cut.length := by
  simp only [validPathsU, Bool.and_eq_true, List.all_eq_true] at hp
  obtain ⟨⟨_, hw⟩, hd⟩ := hp
  have := hitting_bound (ps.map (fun p => (walkEdges p).map norm)) (cut.map norm)
    ((pairwiseDisjoint_iff _).1 hd) (by
    intro P hP
    obtain ⟨p, hp, rfl⟩ := List.mem_map.1 hP
    obtain ⟨e, he, hcut⟩ := separatesU_sound G cut s t hc p ((isWalk_iff _ s t p).1 (hw p hp))
    refine ⟨norm e, List.mem_map_of_mem he, ?_⟩
    rcases hcut with h | h
    · exact List.mem_map_of_mem h
    · rw [← norm_swap e]; exact List.mem_map_of_mem h)
  simpa using this

/-- **Weak duality, vertices.** -/
theorem certificate_vertex (G : List Edge) (s t : Nat) (ps : List (List Nat)) (C : List Nat)
    (hp : validPathsV G s t ps = true) (hc : separatesV G C s t = true)
    (hs : C.contains s = false) (ht : C.contains t = false) :
    ps.length ≤ C.length := by
  simp only [validPathsV, Bool.and_eq_true, List.all_eq_true] at hp
  obtain ⟨⟨_, hw⟩, hd⟩ := hp
  have hs' : s ∉ C := by simpa using hs
  have ht' : t ∉ C := by simpa using ht
  have := hitting_bound (ps.map internal) C ((pairwiseDisjoint_iff _).1 hd) (by
    intro P hP
    obtain ⟨p, hp, rfl⟩ := List.mem_map.1 hP
    have hwalk := (isWalk_iff G s t p).1 (hw p hp)
    obtain ⟨e, he, hcut⟩ := separatesV_sound G C s t hc p hwalk
    have hmem := mem_of_mem_walkEdges p e he
    rcases hcut with h | h
    · exact ⟨e.1, mem_internal hwalk.1 hwalk.2.1 hmem.1 (fun x => hs' (x ▸ h))
        (fun x => ht' (x ▸ h)), h⟩
    · exact ⟨e.2, mem_internal hwalk.1 hwalk.2.1 hmem.2 (fun x => hs' (x ▸ h))
        (fun x => ht' (x ▸ h)), h⟩)
  simpa using this

end DSymVerif.CutP
