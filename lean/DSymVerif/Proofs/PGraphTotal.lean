/-
`PG.assemble` (the system `barycentric_placement` builds) never panics on a graph built as
`PeriodicGraph::from` builds it (`Graph.ofEdges raw = .ok g`): the vertex list is non-empty,
every `vidcs[&ngb.tail]` lookup succeeds with an in-range index (every end point of every edge
is in the vertex list), every `s[k][0]` with `k < dim` exists (all shifts have the dimension of
the first edge), and all matrix accesses are in range.
-/
import DSymVerif.Model.PGraph
import DSymVerif.Proofs.Echelon

namespace DSymVerif.PG

open DSymVerif DSymVerif.LA

theorem mem_insertNat {v x : Nat} {l : List Nat} : x ∈ insertNat v l ↔ x = v ∨ x ∈ l := by
  induction l with
  | nil => simp [insertNat]
  | cons y ys ih =>
    unfold insertNat
    split_ifs with h1 h2
    · simp
    · subst h2; simp
    · simp only [List.mem_cons, ih]
      constructor
      · rintro (h | h | h)
        · exact Or.inr (Or.inl h)
        · exact Or.inl h
        · exact Or.inr (Or.inr h)
      · rintro (h | h | h)
        · exact Or.inr (Or.inl h)
        · exact Or.inl h
        · exact Or.inr (Or.inr h)

theorem mem_insertEdge {e x : Edge} {l : List Edge} (h : x ∈ insertEdge e l) : x = e ∨ x ∈ l := by
  induction l with
  | nil => simpa [insertEdge] using h
  | cons y ys ih =>
    unfold insertEdge at h
    split at h
    · simpa using h
    · exact Or.inr h
    · rcases List.mem_cons.1 h with h | h
      · exact Or.inr (List.mem_cons.2 (Or.inl h))
      · rcases ih h with h | h
        · exact Or.inl h
        · exact Or.inr (List.mem_cons.2 (Or.inr h))

theorem mem_foldl_insertEdge {x : Edge} : ∀ (cs acc : List Edge),
    x ∈ cs.foldl (fun acc e => insertEdge e acc) acc → x ∈ cs ∨ x ∈ acc := by
  intro cs
  induction cs with
  | nil => intro acc h; exact Or.inr h
  | cons c cs ih =>
    intro acc h
    rcases ih _ h with h | h
    · exact Or.inl (List.mem_cons.2 (Or.inr h))
    · rcases mem_insertEdge h with h | h
      · exact Or.inl (List.mem_cons.2 (Or.inl h))
      · exact Or.inr h

theorem mem_foldl_insertNat {x : Nat} : ∀ (es : List Edge) (acc : List Nat),
    (x ∈ acc ∨ ∃ e ∈ es, x = e.head ∨ x = e.tail) →
    x ∈ es.foldl (fun acc e => insertNat e.tail (insertNat e.head acc)) acc := by
  intro es
  induction es with
  | nil =>
    intro acc h
    rcases h with h | ⟨e, he, _⟩
    · exact h
    · cases he
  | cons c cs ih =>
    intro acc h
    apply ih
    rcases h with h | ⟨e, he, hx⟩
    · exact Or.inl (mem_insertNat.2 (Or.inr (mem_insertNat.2 (Or.inr h))))
    · rcases List.mem_cons.1 he with rfl | he
      · rcases hx with hx | hx
        · exact Or.inl (mem_insertNat.2 (Or.inr (mem_insertNat.2 (Or.inl hx))))
        · exact Or.inl (mem_insertNat.2 (Or.inl hx))
      · exact Or.inr ⟨e, he, hx⟩

theorem neg_shift_length (e : Edge) : e.neg.shift.length = e.shift.length := by
  simp [Edge.neg]

theorem canonical_shift_length (e : Edge) : e.canonical.shift.length = e.shift.length := by
  unfold Edge.canonical
  split_ifs <;> simp [Edge.neg]

/-- what `PeriodicGraph::from` guarantees and `barycentric_placement` relies on -/
structure Graph.WF (g : Graph) : Prop where
  nonempty : g.edges ≠ []
  dim : ∀ e ∈ g.edges, e.shift.length = g.dim
  ends : ∀ e ∈ g.edges, e.head ∈ g.vertices ∧ e.tail ∈ g.vertices

theorem ofEdges_wf {raw : List Edge} {g : Graph} (h : Graph.ofEdges raw = .ok g) : g.WF := by
  unfold Graph.ofEdges at h
  generalize hes : (raw.map Edge.canonical).foldl (fun acc e => insertEdge e acc) [] = es at h
  cases es with
  | nil => cases h
  | cons e0 rest =>
    simp only at h
    split at h
    · rename_i hall
      have hg := Outcome.ok.inj h
      subst hg
      simp only [List.all_eq_true, beq_iff_eq] at hall
      refine ⟨?_, ?_, ?_⟩
      · simp
      · intro e he
        show e.shift.length = e0.shift.length
        have he' : e ∈ (raw.map Edge.canonical).foldl (fun acc e => insertEdge e acc) [] := by
          rw [hes]; exact he
        rcases mem_foldl_insertEdge _ _ he' with h1 | h1
        · obtain ⟨r, hr, rfl⟩ := List.mem_map.1 h1
          rw [canonical_shift_length]; exact hall r hr
        · cases h1
      · intro e he
        exact ⟨mem_foldl_insertNat _ _ (Or.inr ⟨e, he, Or.inl rfl⟩),
          mem_foldl_insertNat _ _ (Or.inr ⟨e, he, Or.inr rfl⟩)⟩
    · cases h

theorem foldO_ok {σ α : Type} (f : σ → α → Outcome σ) :
    ∀ (l : List α) (s : σ), (∀ x ∈ l, ∀ s, ∃ s', f s x = .ok s') → ∃ s', foldO f s l = .ok s' := by
  intro l
  induction l with
  | nil => intro s _; exact ⟨s, rfl⟩
  | cons x xs ih =>
    intro s h
    obtain ⟨s1, h1⟩ := h x (List.mem_cons.2 (Or.inl rfl)) s
    unfold foldO
    rw [h1]
    exact ih s1 (fun y hy => h y (List.mem_cons.2 (Or.inr hy)))

theorem indexOf_mem {vs : List Nat} {v : Nat} (h : v ∈ vs) :
    ∃ j, indexOf vs v = .ok j ∧ j < vs.length := by
  unfold indexOf
  cases hi : vs.idxOf? v with
  | none => exact absurd h (List.idxOf?_eq_none_iff.1 hi)
  | some j => exact ⟨j, rfl, (List.idxOf?_eq_some_iff.1 hi).1⟩

theorem addAt_ok {nr nc : Nat} (m : Mat Int nr nc) {i j : Nat} (hi : i < nr) (hj : j < nc)
    (x : Int) : ∃ m', addAt m i j x = .ok m' := by
  unfold addAt
  rw [Mat.get_ok m hi hj]
  simp only [bind_ok]
  rw [Mat.set_ok m hi hj]
  exact ⟨_, rfl⟩

theorem mem_incidences {g : Graph} {v : Nat} {ngb : Edge} (h : ngb ∈ g.incidences v) :
    ∃ e ∈ g.edges, ngb = e ∨ ngb = e.neg := by
  unfold Graph.incidences at h
  obtain ⟨e, he, hx⟩ := List.mem_flatMap.1 h
  refine ⟨e, he, ?_⟩
  rcases List.mem_append.1 hx with hx | hx
  · split at hx
    · exact Or.inl (List.mem_singleton.1 hx)
    · cases hx
  · split at hx
    · exact Or.inr (List.mem_singleton.1 hx)
    · cases hx

theorem placeStep_ok {g : Graph} (hg : g.WF) {i : Nat} (hi : i < g.vertices.length) {v : Nat}
    {ngb : Edge} (hn : ngb ∈ g.incidences v)
    (st : Mat Int g.vertices.length g.vertices.length × Mat Int g.vertices.length g.dim) :
    ∃ st', placeStep g.vertices i st ngb = .ok st' := by
  obtain ⟨e, he, hne⟩ := mem_incidences hn
  have htail : ngb.tail ∈ g.vertices := by
    rcases hne with h | h
    · rw [h]; exact (hg.ends e he).2
    · rw [h]; exact (hg.ends e he).1
  have hlen : ngb.shift.length = g.dim := by
    rcases hne with h | h
    · rw [h]; exact hg.dim e he
    · rw [h, neg_shift_length]; exact hg.dim e he
  unfold placeStep
  obtain ⟨j, hj, hjl⟩ := indexOf_mem htail
  rw [hj]; simp only [bind_ok]
  obtain ⟨a1, h1⟩ := addAt_ok st.1 hi hjl (-1)
  rw [h1]; simp only [bind_ok]
  obtain ⟨a2, h2⟩ := addAt_ok a1 hi hi 1
  rw [h2]; simp only [bind_ok]
  obtain ⟨t', ht, _⟩ := forRange_ok 0 g.dim st.2 (shiftStep ngb i) (fun _ => True) trivial
    (by
      intro k t _ hk _
      unfold shiftStep
      have hk' : k < ngb.shift.length := by rw [hlen]; exact hk
      rw [List.getElem?_eq_getElem hk']
      obtain ⟨t', ht'⟩ := addAt_ok t hi hk (ngb.shift[k])
      exact ⟨t', ht', trivial⟩)
  rw [ht]
  exact ⟨_, rfl⟩

/-- open obligation (iii) of `placement_barycentric`, discharged: on a graph built by
    `PeriodicGraph::from`, `barycentric_placement` assembles its system without any panic -/
theorem assemble_ok {g : Graph} (hg : g.WF) :
    ∃ at_, assemble g g.vertices.length g.dim = .ok at_ := by
  have hpos : 0 < g.vertices.length := by
    cases hes : g.edges with
    | nil => exact absurd hes hg.nonempty
    | cons e _ =>
      exact List.length_pos_of_mem (hg.ends e (by rw [hes]; exact List.mem_cons.2 (Or.inl rfl))).1
  unfold assemble
  rw [Mat.set_ok _ hpos hpos]
  simp only [bind_ok]
  obtain ⟨st, hst, _⟩ := forRange_ok 1 g.vertices.length _ (rowStep g) (fun _ => True) trivial
    (by
      intro i st _ hi _
      unfold rowStep
      rw [List.getElem?_eq_getElem hi]
      obtain ⟨st', h'⟩ := foldO_ok (placeStep g.vertices i) (g.incidences g.vertices[i]) st
        (fun ngb hn s => placeStep_ok hg hi hn s)
      exact ⟨st', h', trivial⟩)
  exact ⟨st, hst⟩

theorem assemble_ok_of_ofEdges {raw : List Edge} {g : Graph} (h : Graph.ofEdges raw = .ok g) :
    ∃ at_, assemble g g.vertices.length g.dim = .ok at_ :=
  assemble_ok (ofEdges_wf h)

end DSymVerif.PG
