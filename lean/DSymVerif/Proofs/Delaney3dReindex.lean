/-
Property C15, phase 2: the two presentations of the group `fundamental_group` returns are the
same group.  C11/C13 state their theorems about `PresentedGroup (relSet n rels)` (generators
`Fin n`), C09 about `MGroup = PresentedGroup (MRel n rels)` (generators ℕ, the numbers `0` and
`> n` killed).  For relators over the letters `±1..±n` the maps `i ↦ i+1` and `k ↦ k−1` induce
mutually inverse isomorphisms, compatible with the actions on the rows of a valid table.
-/
import DSymVerif.Proofs.Delaney3dRegular
import DSymVerif.Proofs.CosetSound

namespace DSymVerif.D3
open DSymVerif DSymVerif.Cosets DSymVerif.SpecC11 DSymVerif.CosetP DSymVerif.FWP DSymVerif.CoversP
  DSymVerif.FGP DSymVerif.LowIndexP

section
variable {n : Nat}

/-- generator `i` of C11's group as generator `i+1` of C09's -/
def upGen (n : Nat) (i : Fin n) : FreeGroup ℕ := FreeGroup.of (i.val + 1)

/-- generator `k ∈ 1..n` of C09's group as generator `k−1` of C11's, all others trivial -/
def downGen (n : Nat) (k : ℕ) : FreeGroup (Fin n) :=
  if h : 1 ≤ k ∧ k ≤ n then FreeGroup.of ⟨k - 1, by omega⟩ else 1

theorem lift_down_letter (g : Int) :
    FreeGroup.lift (downGen n) (den [g]) = letterElt n g := by
  rcases Int.lt_trichotomy g 0 with hneg | hzero | hpos
  · obtain ⟨m, hm⟩ : ∃ m : ℕ, g = -(m : Int) := ⟨g.natAbs, by omega⟩
    have hm0 : 0 < m := by omega
    subst hm
    rw [den_neg m hm0, map_inv, FreeGroup.lift_apply_of]
    unfold letterElt downGen
    have h1 : ¬ (1 ≤ -(m : Int) ∧ -(m : Int) ≤ n) := by omega
    rw [dif_neg h1]
    by_cases h2 : 1 ≤ m ∧ m ≤ n
    · have h2' : 1 ≤ - -(m : Int) ∧ - -(m : Int) ≤ n := by omega
      rw [dif_pos h2, dif_pos h2']
      congr 2
      apply Fin.ext
      show m - 1 = (- -(m : Int)).toNat - 1
      omega
    · have h2' : ¬ (1 ≤ - -(m : Int) ∧ - -(m : Int) ≤ n) := by omega
      rw [dif_neg h2, dif_neg h2', inv_one]
  · subst hzero
    rw [den_zero, map_one]
    unfold letterElt
    rw [dif_neg (by omega), dif_neg (by omega)]
  · obtain ⟨m, hm⟩ : ∃ m : ℕ, g = (m : Int) := ⟨g.toNat, by omega⟩
    have hm0 : 0 < m := by omega
    subst hm
    rw [den_pos m hm0, FreeGroup.lift_apply_of]
    unfold letterElt downGen
    by_cases h2 : 1 ≤ m ∧ m ≤ n
    · have h2' : 1 ≤ (m : Int) ∧ (m : Int) ≤ n := by omega
      rw [dif_pos h2, dif_pos h2']
      congr 1
    · have h2' : ¬ (1 ≤ (m : Int) ∧ (m : Int) ≤ n) := by omega
      have h3 : ¬ (1 ≤ -(m : Int) ∧ -(m : Int) ≤ n) := by omega
      rw [dif_neg h2, dif_neg h2', dif_neg h3]

theorem lift_down_den : ∀ w : List Int, FreeGroup.lift (downGen n) (den w) = wordElt n w
  | [] => by rw [den_nil, map_one, wordElt_nil]
  | g :: w => by
    have : g :: w = [g] ++ w := rfl
    rw [this, den_append, map_mul, lift_down_letter, lift_down_den w, wordElt_append]
    congr 1
    rw [wordElt_cons, wordElt_nil, mul_one]

theorem lift_up_letter {g : Int} (hg : g ∈ allGensOf n) :
    FreeGroup.lift (upGen n) (letterElt n g) = den [g] := by
  rw [LowIndexP.mem_allGensOf] at hg
  unfold letterElt
  by_cases h1 : 1 ≤ g ∧ g ≤ n
  · rw [dif_pos h1, FreeGroup.lift_apply_of]
    unfold upGen
    obtain ⟨m, hm⟩ : ∃ m : ℕ, g = (m : Int) := ⟨g.toNat, by omega⟩
    subst hm
    rw [den_pos m (by omega)]
    congr 1
    show (m : Int).toNat - 1 + 1 = m
    omega
  · have h2 : 1 ≤ -g ∧ -g ≤ n := by omega
    rw [dif_neg h1, dif_pos h2, map_inv, FreeGroup.lift_apply_of]
    unfold upGen
    obtain ⟨m, hm⟩ : ∃ m : ℕ, g = -(m : Int) := ⟨g.natAbs, by omega⟩
    subst hm
    rw [den_neg m (by omega)]
    congr 2
    show (- -(m : Int)).toNat - 1 + 1 = m
    omega

theorem lift_up_word : ∀ w : List Int, (∀ x ∈ w, x ∈ allGensOf n) →
    FreeGroup.lift (upGen n) (wordElt n w) = den w
  | [], _ => by rw [wordElt_nil, map_one, den_nil]
  | g :: w, hw => by
    have : g :: w = [g] ++ w := rfl
    rw [wordElt_cons, map_mul, lift_up_letter (hw g (List.mem_cons_self ..)),
      lift_up_word w (fun x hx => hw x (List.mem_cons_of_mem _ hx)), this, den_append]

variable {rels : List (List Int)}

theorem up_rel (hlet : ∀ w ∈ rels, ∀ x ∈ w, x ∈ allGensOf n) : ∀ r ∈ relSet n rels,
    FreeGroup.lift (fun i => (PresentedGroup.mk (MRel n rels) (upGen n i))) r = 1 := by
  rintro r ⟨w, hw, rfl⟩
  have : FreeGroup.lift (fun i => (PresentedGroup.mk (MRel n rels) (upGen n i))) =
      (PresentedGroup.mk (MRel n rels)).comp (FreeGroup.lift (upGen n)) := by
    ext i; simp
  rw [this, MonoidHom.comp_apply, lift_up_word w (hlet w hw)]
  exact PresentedGroup.one_of_mem (Or.inl ⟨w, hw, rfl⟩)

theorem down_rel : ∀ r ∈ MRel n rels,
    FreeGroup.lift (fun k => (PresentedGroup.mk (relSet n rels) (downGen n k))) r = 1 := by
  have hc : FreeGroup.lift (fun k => (PresentedGroup.mk (relSet n rels) (downGen n k))) =
      (PresentedGroup.mk (relSet n rels)).comp (FreeGroup.lift (downGen n)) := by
    ext k; simp
  rintro r (⟨w, hw, rfl⟩ | ⟨k, hk, rfl⟩)
  · rw [hc, MonoidHom.comp_apply, lift_down_den]
    exact PresentedGroup.one_of_mem ⟨w, hw, rfl⟩
  · rw [FreeGroup.lift_apply_of]
    unfold downGen
    rw [dif_neg (by omega), map_one]

/-- C11's presentation → C09's presentation -/
noncomputable def upHom (hlet : ∀ w ∈ rels, ∀ x ∈ w, x ∈ allGensOf n) :
    PresentedGroup (relSet n rels) →* PresentedGroup (MRel n rels) :=
  PresentedGroup.toGroup (up_rel hlet)

/-- C09's presentation → C11's presentation -/
noncomputable def downHom (n : Nat) (rels : List (List Int)) :
    PresentedGroup (MRel n rels) →* PresentedGroup (relSet n rels) :=
  PresentedGroup.toGroup (down_rel (n := n) (rels := rels))

theorem down_up (hlet : ∀ w ∈ rels, ∀ x ∈ w, x ∈ allGensOf n) : (downHom n rels).comp (upHom hlet) = MonoidHom.id _ := by
  apply PresentedGroup.ext
  intro i
  rw [MonoidHom.comp_apply]
  unfold upHom downHom
  rw [PresentedGroup.toGroup.of]
  show PresentedGroup.toGroup _ (PresentedGroup.mk _ (FreeGroup.of (i.val + 1))) = _
  have : PresentedGroup.mk (MRel n rels) (FreeGroup.of (i.val + 1)) = PresentedGroup.of (i.val + 1) := rfl
  rw [this, PresentedGroup.toGroup.of]
  unfold downGen
  rw [dif_pos (by have := i.isLt; omega)]
  rfl

theorem up_down (hlet : ∀ w ∈ rels, ∀ x ∈ w, x ∈ allGensOf n) : (upHom hlet).comp (downHom n rels) = MonoidHom.id _ := by
  apply PresentedGroup.ext
  intro k
  rw [MonoidHom.comp_apply]
  unfold upHom downHom
  rw [PresentedGroup.toGroup.of]
  by_cases hk : 1 ≤ k ∧ k ≤ n
  · unfold downGen
    rw [dif_pos hk]
    have : PresentedGroup.mk (relSet n rels) (FreeGroup.of (⟨k - 1, by omega⟩ : Fin n)) =
        PresentedGroup.of (⟨k - 1, by omega⟩ : Fin n) := rfl
    rw [this, PresentedGroup.toGroup.of]
    show PresentedGroup.mk _ (FreeGroup.of (k - 1 + 1)) = PresentedGroup.of k
    have : k - 1 + 1 = k := by omega
    rw [this]
    rfl
  · unfold downGen
    rw [dif_neg hk, map_one, map_one]
    symm
    exact PresentedGroup.one_of_mem (Or.inr ⟨k, by omega, rfl⟩)

theorem up_down_apply (hlet : ∀ w ∈ rels, ∀ x ∈ w, x ∈ allGensOf n) (x : PresentedGroup (MRel n rels)) : upHom hlet (downHom n rels x) = x := by
  have := congrArg (fun f => f x) (up_down hlet)
  simpa using this

theorem down_up_apply (hlet : ∀ w ∈ rels, ∀ x ∈ w, x ∈ allGensOf n) (x : PresentedGroup (relSet n rels)) : downHom n rels (upHom hlet x) = x := by
  have := congrArg (fun f => f x) (down_up hlet)
  simpa using this

/-- the action of C09's presentation on the rows, pulled back to C11's, is C11's action -/
theorem rhoM_up (hlet : ∀ w ∈ rels, ∀ x ∈ w, x ∈ allGensOf n) {tab : Tab} {subs : List (List Int)} (hv : Valid tab n rels subs) :
    (rhoM hv).comp (upHom hlet) = actionHom hv := by
  apply PresentedGroup.ext
  intro i
  rw [MonoidHom.comp_apply]
  unfold upHom
  rw [PresentedGroup.toGroup.of, rhoM_mk]
  unfold upGen
  rw [FreeGroup.lift_apply_of]
  have h2 : actionHom hv (PresentedGroup.of i) = genImg hv i := by
    have : (PresentedGroup.of i : PresentedGroup (relSet n rels)) = PresentedGroup.mk _ (FreeGroup.of i) := rfl
    rw [this, actionHom_mk, FreeGroup.lift_apply_of]
  rw [h2]
  unfold rho0
  rw [dif_pos (by have := i.isLt; omega)]
  congr 1

theorem rhoM_up_apply (hlet : ∀ w ∈ rels, ∀ x ∈ w, x ∈ allGensOf n) {tab : Tab} {subs : List (List Int)} (hv : Valid tab n rels subs)
    (x : PresentedGroup (relSet n rels)) : rhoM hv (upHom hlet x) = actionHom hv x := by
  have := congrArg (fun f => f x) (rhoM_up hlet hv)
  simpa using this

end

/-- transfer of C13's statement about the stabiliser of row 0 from C11's presentation to any
    group `A` isomorphic to C09's presentation (in the application: the textbook orbifold group,
    via C09 `presIso`), acting on the rows through `rhoM` -/
theorem transfer_stabiliser {n : Nat} {rels : List (List Int)}
    (hlet : ∀ w ∈ rels, ∀ x ∈ w, x ∈ allGensOf n) {tab : Tab} (hv : Valid tab n rels [])
    {A : Type} [Group A] (iso : A ≃* PresentedGroup (MRel n rels))
    {P : Type} [Group P] (f : P →* PresentedGroup (relSet n rels)) (hinj : Function.Injective f)
    (hrange : f.range = (MulAction.stabilizer (Equiv.Perm (Fin tab.size)) (⟨0, hv.pos⟩ : Fin tab.size)).comap
      (actionHom hv))
    (hidx : ((MulAction.stabilizer (Equiv.Perm (Fin tab.size)) (⟨0, hv.pos⟩ : Fin tab.size)).comap
      (actionHom hv)).index = tab.size) :
    ((MulAction.stabilizer (Equiv.Perm (Fin tab.size)) (⟨0, hv.pos⟩ : Fin tab.size)).comap
      ((rhoM hv).comp iso.toMonoidHom)).index = tab.size ∧
    ∃ fT : P →* A, Function.Injective fT ∧
      fT.range = (MulAction.stabilizer (Equiv.Perm (Fin tab.size)) (⟨0, hv.pos⟩ : Fin tab.size)).comap
        ((rhoM hv).comp iso.toMonoidHom) := by
  have hK : (MulAction.stabilizer (Equiv.Perm (Fin tab.size)) (⟨0, hv.pos⟩ : Fin tab.size)).comap
        ((rhoM hv).comp iso.toMonoidHom) =
      ((MulAction.stabilizer (Equiv.Perm (Fin tab.size)) (⟨0, hv.pos⟩ : Fin tab.size)).comap
        (actionHom hv)).comap ((downHom n rels).comp iso.toMonoidHom) := by
    ext x
    simp only [Subgroup.mem_comap, MonoidHom.comp_apply]
    rw [← rhoM_up_apply hlet hv (downHom n rels (iso.toMonoidHom x)), up_down_apply hlet]
  constructor
  · rw [hK, Subgroup.index_comap_of_surjective]
    · exact hidx
    · intro y
      refine ⟨iso.symm (upHom hlet y), ?_⟩
      show downHom n rels (iso (iso.symm (upHom hlet y))) = y
      rw [MulEquiv.apply_symm_apply, down_up_apply hlet]
  · refine ⟨iso.symm.toMonoidHom.comp ((upHom hlet).comp f), ?_, ?_⟩
    · intro a b hab
      apply hinj
      have h1 : upHom hlet (f a) = upHom hlet (f b) := iso.symm.injective hab
      have := congrArg (downHom n rels) h1
      rwa [down_up_apply hlet, down_up_apply hlet] at this
    · ext x
      rw [hK]
      simp only [MonoidHom.mem_range, Subgroup.mem_comap, MonoidHom.comp_apply]
      constructor
      · rintro ⟨y, rfl⟩
        show actionHom hv (downHom n rels (iso (iso.symm (upHom hlet (f y))))) ∈ _
        rw [MulEquiv.apply_symm_apply, down_up_apply hlet]
        have : f y ∈ f.range := ⟨y, rfl⟩
        rw [hrange] at this
        exact this
      · intro hx
        have : downHom n rels (iso x) ∈ f.range := by rw [hrange]; exact hx
        obtain ⟨y, hy⟩ := this
        refine ⟨y, ?_⟩
        show iso.symm (upHom hlet (f y)) = x
        rw [hy, up_down_apply hlet, MulEquiv.symm_apply_apply]

end DSymVerif.D3
