/-
Property C05, π1 of a cover, part 6b: the two presentations of the group `fundamental_group`
returns — C09's `MGroup = PresentedGroup (MRel n rels)` (generators ℕ) and C11's
`PresentedGroup (relSet n rels)` (generators `Fin n`) — are identified by `i ↦ i+1` / `k ↦ k−1`,
compatibly with the actions on the rows of a valid table.

(The same maps as `D3.upHom` / `D3.downHom` of Proofs/Delaney3dReindex.lean (C15), restated here
under other names because that file imports Props/C05 transitively.)
-/
import DSymVerif.Proofs.CoversAction
import DSymVerif.Proofs.CosetSound
import DSymVerif.Proofs.LowIndexGeneral

namespace DSymVerif.CoversP
open DSymVerif DSymVerif.Cosets DSymVerif.SpecC11 DSymVerif.CosetP DSymVerif.FWP
  DSymVerif.FGP DSymVerif.LowIndexP

section
variable {n : Nat}

/-- generator `i` of C11's group as generator `i+1` of C09's -/
def genUp (n : Nat) (i : Fin n) : FreeGroup ℕ := FreeGroup.of (i.val + 1)

/-- generator `k ∈ 1..n` of C09's group as generator `k−1` of C11's, all others trivial -/
def genDown (n : Nat) (k : ℕ) : FreeGroup (Fin n) :=
  if h : 1 ≤ k ∧ k ≤ n then FreeGroup.of ⟨k - 1, by omega⟩ else 1

theorem lift_genDown_letter (g : Int) :
    FreeGroup.lift (genDown n) (den [g]) = letterElt n g := by
  rcases Int.lt_trichotomy g 0 with hneg | hzero | hpos
  · obtain ⟨m, hm⟩ : ∃ m : ℕ, g = -(m : Int) := ⟨g.natAbs, by omega⟩
    have hm0 : 0 < m := by omega
    subst hm
    rw [den_neg m hm0, map_inv, FreeGroup.lift_apply_of]
    unfold letterElt genDown
    have h1 : ¬ (1 ≤ -(m : Int) ∧ -(m : Int) ≤ n) := by omega
    rw [dif_neg h1]
    by_cases h2 : 1 ≤ m ∧ m ≤ n
    · have h2' : 1 ≤ - -(m : Int) ∧ - -(m : Int) ≤ n := by omega
      rw [dif_pos h2, dif_pos h2']
      congr 2
      apply Fin.ext
      show m - 1 = (- -(m : Int)).toNat - 1
      omega
    · have h2' : ¬ (1 ≤ - -(m : Int) ∧ - -(m : Int) ≤ n) := by omega
      rw [dif_neg h2, dif_neg h2', inv_one]
  · subst hzero
    rw [den_zero, map_one]
    unfold letterElt
    rw [dif_neg (by omega), dif_neg (by omega)]
  · obtain ⟨m, hm⟩ : ∃ m : ℕ, g = (m : Int) := ⟨g.toNat, by omega⟩
    have hm0 : 0 < m := by omega
    subst hm
    rw [den_pos m hm0, FreeGroup.lift_apply_of]
    unfold letterElt genDown
    by_cases h2 : 1 ≤ m ∧ m ≤ n
    · have h2' : 1 ≤ (m : Int) ∧ (m : Int) ≤ n := by omega
      rw [dif_pos h2, dif_pos h2']
      congr 1
    · have h2' : ¬ (1 ≤ (m : Int) ∧ (m : Int) ≤ n) := by omega
      have h3 : ¬ (1 ≤ -(m : Int) ∧ -(m : Int) ≤ n) := by omega
      rw [dif_neg h2, dif_neg h2', dif_neg h3]

theorem lift_genDown_den : ∀ w : List Int, FreeGroup.lift (genDown n) (den w) = wordElt n w
  | [] => by rw [den_nil, map_one, wordElt_nil]
  | g :: w => by
    have : g :: w = [g] ++ w := rfl
    rw [this, den_append, map_mul, lift_genDown_letter, lift_genDown_den w, wordElt_append]
    congr 1
    rw [wordElt_cons, wordElt_nil, mul_one]

theorem lift_genUp_letter {g : Int} (hg : g ∈ allGensOf n) :
    FreeGroup.lift (genUp n) (letterElt n g) = den [g] := by
  rw [LowIndexP.mem_allGensOf] at hg
  unfold letterElt
  by_cases h1 : 1 ≤ g ∧ g ≤ n
  · rw [dif_pos h1, FreeGroup.lift_apply_of]
    unfold genUp
    obtain ⟨m, hm⟩ : ∃ m : ℕ, g = (m : Int) := ⟨g.toNat, by omega⟩
    subst hm
    rw [den_pos m (by omega)]
    congr 1
    show (m : Int).toNat - 1 + 1 = m
    omega
  · have h2 : 1 ≤ -g ∧ -g ≤ n := by omega
    rw [dif_neg h1, dif_pos h2, map_inv, FreeGroup.lift_apply_of]
    unfold genUp
    obtain ⟨m, hm⟩ : ∃ m : ℕ, g = -(m : Int) := ⟨g.natAbs, by omega⟩
    subst hm
    rw [den_neg m (by omega)]
    congr 2
    show (- -(m : Int)).toNat - 1 + 1 = m
    omega

theorem lift_genUp_word : ∀ w : List Int, (∀ x ∈ w, x ∈ allGensOf n) →
    FreeGroup.lift (genUp n) (wordElt n w) = den w
  | [], _ => by rw [wordElt_nil, map_one, den_nil]
  | g :: w, hw => by
    have : g :: w = [g] ++ w := rfl
    rw [wordElt_cons, map_mul, lift_genUp_letter (hw g (List.mem_cons_self ..)),
      lift_genUp_word w (fun x hx => hw x (List.mem_cons_of_mem _ hx)), this, den_append]

variable {rels : List (List Int)}

theorem genUp_rel (hlet : ∀ w ∈ rels, ∀ x ∈ w, x ∈ allGensOf n) : ∀ r ∈ relSet n rels,
    FreeGroup.lift (fun i => (PresentedGroup.mk (MRel n rels) (genUp n i))) r = 1 := by
  rintro r ⟨w, hw, rfl⟩
  have : FreeGroup.lift (fun i => (PresentedGroup.mk (MRel n rels) (genUp n i))) =
      (PresentedGroup.mk (MRel n rels)).comp (FreeGroup.lift (genUp n)) := by
    ext i; simp
  rw [this, MonoidHom.comp_apply, lift_genUp_word w (hlet w hw)]
  exact PresentedGroup.one_of_mem (Or.inl ⟨w, hw, rfl⟩)

theorem genDown_rel : ∀ r ∈ MRel n rels,
    FreeGroup.lift (fun k => (PresentedGroup.mk (relSet n rels) (genDown n k))) r = 1 := by
  have hc : FreeGroup.lift (fun k => (PresentedGroup.mk (relSet n rels) (genDown n k))) =
      (PresentedGroup.mk (relSet n rels)).comp (FreeGroup.lift (genDown n)) := by
    ext k; simp
  rintro r (⟨w, hw, rfl⟩ | ⟨k, hk, rfl⟩)
  · rw [hc, MonoidHom.comp_apply, lift_genDown_den]
    exact PresentedGroup.one_of_mem ⟨w, hw, rfl⟩
  · rw [FreeGroup.lift_apply_of]
    unfold genDown
    rw [dif_neg (by omega), map_one]

/-- C11's presentation → C09's presentation -/
noncomputable def homUp (hlet : ∀ w ∈ rels, ∀ x ∈ w, x ∈ allGensOf n) :
    PresentedGroup (relSet n rels) →* PresentedGroup (MRel n rels) :=
  PresentedGroup.toGroup (genUp_rel hlet)

/-- C09's presentation → C11's presentation -/
noncomputable def homDown (n : Nat) (rels : List (List Int)) :
    PresentedGroup (MRel n rels) →* PresentedGroup (relSet n rels) :=
  PresentedGroup.toGroup (genDown_rel (n := n) (rels := rels))

theorem homUp_homDown (hlet : ∀ w ∈ rels, ∀ x ∈ w, x ∈ allGensOf n) : (homUp hlet).comp (homDown n rels) = MonoidHom.id _ := by
  apply PresentedGroup.ext
  intro k
  rw [MonoidHom.comp_apply]
  unfold homUp homDown
  rw [PresentedGroup.toGroup.of]
  by_cases hk : 1 ≤ k ∧ k ≤ n
  · unfold genDown
    rw [dif_pos hk]
    have : PresentedGroup.mk (relSet n rels) (FreeGroup.of (⟨k - 1, by omega⟩ : Fin n)) =
        PresentedGroup.of (⟨k - 1, by omega⟩ : Fin n) := rfl
    rw [this, PresentedGroup.toGroup.of]
    show PresentedGroup.mk _ (FreeGroup.of (k - 1 + 1)) = PresentedGroup.of k
    have : k - 1 + 1 = k := by omega
    rw [this]
    rfl
  · unfold genDown
    rw [dif_neg hk, map_one, map_one]
    symm
    exact PresentedGroup.one_of_mem (Or.inr ⟨k, by omega, rfl⟩)

theorem homUp_homDown_apply (hlet : ∀ w ∈ rels, ∀ x ∈ w, x ∈ allGensOf n) (x : PresentedGroup (MRel n rels)) : homUp hlet (homDown n rels x) = x := by
  have := congrArg (fun f => f x) (homUp_homDown hlet)
  simpa using this

/-- the action of C09's presentation on the rows, pulled back to C11's, is C11's action -/
theorem rhoM_homUp (hlet : ∀ w ∈ rels, ∀ x ∈ w, x ∈ allGensOf n) {tab : Tab} {subs : List (List Int)} (hv : Valid tab n rels subs) :
    (rhoM hv).comp (homUp hlet) = actionHom hv := by
  apply PresentedGroup.ext
  intro i
  rw [MonoidHom.comp_apply]
  unfold homUp
  rw [PresentedGroup.toGroup.of, rhoM_mk]
  unfold genUp
  rw [FreeGroup.lift_apply_of]
  have h2 : actionHom hv (PresentedGroup.of i) = genImg hv i := by
    have : (PresentedGroup.of i : PresentedGroup (relSet n rels)) = PresentedGroup.mk _ (FreeGroup.of i) := rfl
    rw [this, actionHom_mk, FreeGroup.lift_apply_of]
  rw [h2]
  unfold rho0
  rw [dif_pos (by have := i.isLt; omega)]
  congr 1

theorem rhoM_homUp_apply (hlet : ∀ w ∈ rels, ∀ x ∈ w, x ∈ allGensOf n) {tab : Tab} {subs : List (List Int)} (hv : Valid tab n rels subs)
    (x : PresentedGroup (relSet n rels)) : rhoM hv (homUp hlet x) = actionHom hv x := by
  have := congrArg (fun f => f x) (rhoM_homUp hlet hv)
  simpa using this

end

end DSymVerif.CoversP
