/-
C13, group level: evaluation of letter lists in a group (`liftDen`, through C10's `den`), words
in `⟨1..n | rels⟩` (`mkG`), voltages of paths in a coset table (`vol`: invariant under free
reduction, anti-multiplicative under reversal), and the Schreier cochain `sch`
(`u_c · g · u_d⁻¹`), whose voltage telescopes.
-/
import DSymVerif.Proofs.FreeWordCyclic
import DSymVerif.Proofs.CosetAction
import DSymVerif.Proofs.CosetTrace
import DSymVerif.Proofs.StabilizerGens

namespace DSymVerif.StabP
open DSymVerif DSymVerif.SpecC11 DSymVerif.CosetP DSymVerif.FWP

/-! ### evaluating letter lists in a group -/

section Lift
variable {H : Type} [Group H]

/-- evaluate a letter list (letter `±k` ↦ `f k ^ ±1`, zeros ignored) -/
noncomputable def liftDen (f : ℕ → H) (w : List Int) : H := FreeGroup.lift f (den w)

theorem liftDen_nil (f : ℕ → H) : liftDen f [] = 1 := by simp [liftDen, den_nil]

theorem liftDen_append (f : ℕ → H) (a b : List Int) : liftDen f (a ++ b) = liftDen f a * liftDen f b := by
  simp [liftDen, den_append]

theorem liftDen_cons (f : ℕ → H) (x : Int) (w : List Int) :
    liftDen f (x :: w) = liftDen f [x] * liftDen f w := by
  rw [← liftDen_append]; rfl

theorem liftDen_normalized (f : ℕ → H) (w : List Int) : liftDen f (FW.normalized w) = liftDen f w := by
  simp [liftDen, den_normalized]

theorem liftDen_new (f : ℕ → H) (w : List Int) : liftDen f (FW.new w) = liftDen f w :=
  liftDen_normalized f w

theorem liftDen_invRaw (f : ℕ → H) (w : List Int) :
    liftDen f (w.reverse.map (fun x => -x)) = (liftDen f w)⁻¹ := by
  unfold liftDen
  rw [den_invRaw, map_inv]

theorem liftDen_inverse (f : ℕ → H) (w : List Int) : liftDen f (FW.inverse w) = (liftDen f w)⁻¹ := by
  simp [liftDen, den_inverse]

theorem liftDen_mul (f : ℕ → H) (a b : List Int) : liftDen f (FW.mul a b) = liftDen f a * liftDen f b := by
  simp [liftDen, den_mul]

theorem liftDen_mulAssign (f : ℕ → H) (a b : List Int) :
    liftDen f (FW.mulAssign a b) = liftDen f a * liftDen f b := by
  simp [liftDen, den_mulAssign]

theorem liftDen_mulLetter (f : ℕ → H) (a : List Int) (x : Int) :
    liftDen f (FW.mulLetter a x) = liftDen f a * liftDen f [x] := by
  simp [liftDen, den_mulLetter]

theorem liftDen_neg (f : ℕ → H) (x : Int) : liftDen f [-x] = (liftDen f [x])⁻¹ := by
  have := liftDen_invRaw f [x]
  simpa using this

theorem liftDen_pos (f : ℕ → H) (k : ℕ) (h : 0 < k) : liftDen f [(k : Int)] = f k := by
  simp [liftDen, den_pos k h]

theorem liftDen_zero (f : ℕ → H) : liftDen f [0] = 1 := by
  simp [liftDen, den_zero]

end Lift

/-! ### words in the presented group -/

section Presented
variable (n : Nat) (rels : List (List Int))

/-- the group `⟨1..n | rels⟩` -/
abbrev GP := PresentedGroup (relSet n rels)

/-- image of the generator number `k` (1 outside `1..n`) -/
noncomputable def genFree (k : ℕ) : FreeGroup (Fin n) :=
  if h : 1 ≤ k ∧ k ≤ n then FreeGroup.of ⟨k - 1, by omega⟩ else 1

theorem letterElt_eq (g : Int) : letterElt n g = liftDen (genFree n) [g] := by
  unfold letterElt
  by_cases h1 : 1 ≤ g ∧ g ≤ n
  · rw [dif_pos h1]
    obtain ⟨k, rfl⟩ : ∃ k : ℕ, g = k := ⟨g.toNat, by omega⟩
    rw [liftDen_pos _ k (by omega)]
    unfold genFree
    rw [dif_pos (by omega)]
    congr 2
  · rw [dif_neg h1]
    by_cases h2 : 1 ≤ -g ∧ -g ≤ n
    · rw [dif_pos h2]
      obtain ⟨k, hk⟩ : ∃ k : ℕ, -g = k := ⟨(-g).toNat, by omega⟩
      have hg : g = -(k : Int) := by omega
      subst hg
      rw [liftDen_neg, liftDen_pos _ k (by omega)]
      unfold genFree
      rw [dif_pos (by omega)]
      congr 3
      omega
    · rw [dif_neg h2]
      by_cases h0 : g = 0
      · subst h0; rw [liftDen_zero]
      · by_cases hp : 0 < g
        · obtain ⟨k, rfl⟩ : ∃ k : ℕ, g = k := ⟨g.toNat, by omega⟩
          rw [liftDen_pos _ k (by omega)]
          unfold genFree
          rw [dif_neg (by omega)]
        · obtain ⟨k, hk⟩ : ∃ k : ℕ, -g = k := ⟨(-g).toNat, by omega⟩
          have hg : g = -(k : Int) := by omega
          subst hg
          rw [liftDen_neg, liftDen_pos _ k (by omega)]
          unfold genFree
          rw [dif_neg (by omega)]
          simp

theorem wordElt_eq_liftDen : ∀ (w : List Int), wordElt n w = liftDen (genFree n) w
  | [] => by simp [liftDen_nil]
  | g :: w => by
    rw [wordElt_cons, liftDen_cons, wordElt_eq_liftDen w, letterElt_eq]

/-- the element of `⟨1..n | rels⟩` a word spells -/
noncomputable def mkG (w : List Int) : GP n rels := PresentedGroup.mk _ (wordElt n w)

theorem mkG_eq (w : List Int) :
    mkG n rels w = liftDen (fun k => (PresentedGroup.mk (relSet n rels) (genFree n k))) w := by
  unfold mkG
  rw [wordElt_eq_liftDen]
  unfold liftDen
  have : (FreeGroup.lift fun k => (PresentedGroup.mk (relSet n rels)) (genFree n k)) =
      (PresentedGroup.mk (relSet n rels)).comp (FreeGroup.lift (genFree n)) := by
    ext k; simp
  rw [this]; rfl

theorem mkG_nil : mkG n rels [] = 1 := by simp [mkG]
theorem mkG_append (a b : List Int) : mkG n rels (a ++ b) = mkG n rels a * mkG n rels b := by
  simp [mkG, wordElt_append]
theorem mkG_normalized (w : List Int) : mkG n rels (FW.normalized w) = mkG n rels w := by
  rw [mkG_eq, mkG_eq, liftDen_normalized]
theorem mkG_new (w : List Int) : mkG n rels (FW.new w) = mkG n rels w := mkG_normalized n rels w
theorem mkG_inverse (w : List Int) : mkG n rels (FW.inverse w) = (mkG n rels w)⁻¹ := by
  rw [mkG_eq, mkG_eq, liftDen_inverse]
theorem mkG_invRaw (w : List Int) : mkG n rels (w.reverse.map (fun x => -x)) = (mkG n rels w)⁻¹ := by
  rw [mkG_eq, mkG_eq, liftDen_invRaw]
theorem mkG_mul (a b : List Int) : mkG n rels (FW.mul a b) = mkG n rels a * mkG n rels b := by
  rw [mkG_eq, mkG_eq, mkG_eq, liftDen_mul]
theorem mkG_mulLetter (a : List Int) (x : Int) :
    mkG n rels (FW.mulLetter a x) = mkG n rels a * mkG n rels [x] := by
  rw [mkG_eq, mkG_eq, mkG_eq, liftDen_mulLetter]
theorem mkG_neg (x : Int) : mkG n rels [-x] = (mkG n rels [x])⁻¹ := by
  rw [mkG_eq, mkG_eq, liftDen_neg]

theorem mkG_rel {r : List Int} (hr : r ∈ rels) : mkG n rels r = 1 := by
  unfold mkG
  rw [PresentedGroup.mk_eq_one_iff]
  exact Subgroup.subset_normalClosure ⟨r, hr, rfl⟩

end Presented

/-! ### voltages: products of edge labels along paths -/

section Voltage
variable {t : Tab} {n : Nat} {H : Type} [Group H]

/-- the labelling is compatible with edge reversal -/
def AntiSym (t : Tab) (n : Nat) (σ : Nat → Int → H) : Prop :=
  ∀ c g d, entry t n c g = some d → σ d (-g) = (σ c g)⁻¹

/-- product of the labels along the path of `w` from row `c` -/
def vol (t : Tab) (n : Nat) (σ : Nat → Int → H) : Nat → List Int → H
  | _, [] => 1
  | c, g :: w =>
    match entry t n c g with
    | some d => σ c g * vol t n σ d w
    | none => 1

theorem vol_append (σ : Nat → Int → H) : ∀ (a b : List Int) (c d : Nat),
    traceWord t n c a = some d → vol t n σ c (a ++ b) = vol t n σ c a * vol t n σ d b
  | [], b, c, d, h => by
    simp only [traceWord, Option.some.injEq] at h
    subst h; simp [vol]
  | g :: a, b, c, d, h => by
    simp only [traceWord] at h
    cases he : entry t n c g with
    | none => simp [he] at h
    | some e =>
      simp only [he] at h
      simp only [List.cons_append, vol, he, vol_append σ a b e d h, mul_assoc]

theorem vol_single (σ : Nat → Int → H) {c d : Nat} {g : Int} (h : entry t n c g = some d) :
    vol t n σ c [g] = σ c g := by simp [vol, h]

theorem vol_foldl_step (hinv : InvConsistent t n) {σ : Nat → Int → H} (hanti : AntiSym t n σ) :
    ∀ (w acc : List Int) (c0 c1 d : Nat),
      traceWord t n c0 acc.reverse = some c1 → traceWord t n c1 w = some d →
      vol t n σ c0 ((w.foldl FW.step acc).reverse) = vol t n σ c0 acc.reverse * vol t n σ c1 w
  | [], acc, c0, c1, d, _, _ => by simp [vol]
  | x :: w, acc, c0, c1, d, h1, h2 => by
    simp only [traceWord] at h2
    cases he : entry t n c1 x with
    | none => simp [he] at h2
    | some e =>
      simp only [he] at h2
      have hx : x ≠ 0 := by
        rintro rfl
        rw [entry_zero] at he
        cases he
      rw [List.foldl_cons]
      have key : traceWord t n c0 (FW.step acc x).reverse = some e ∧
          vol t n σ c0 (FW.step acc x).reverse = vol t n σ c0 acc.reverse * σ c1 x := by
        cases acc with
        | nil =>
          simp only [List.reverse_nil, traceWord, Option.some.injEq] at h1
          subst h1
          simp [FW.step, hx, traceWord, he, vol]
        | cons y ys =>
          rw [List.reverse_cons] at h1
          obtain ⟨c', h3, h4⟩ := traceWord_snoc h1
          by_cases hxy : x = -y
          · subst hxy
            have h5 := hinv _ _ _ h4
            rw [h5] at he
            injection he with he
            subst he
            refine ⟨by simpa [FW.step] using h3, ?_⟩
            simp only [FW.step, if_true, List.reverse_cons]
            rw [vol_append σ _ _ _ _ h3, vol_single σ h4, hanti _ _ _ h4]
            simp
          · simp only [FW.step, hxy, if_false, hx, ne_eq, not_false_eq_true, if_true]
            have h6 : traceWord t n c0 (y :: ys).reverse = some c1 := by
              rw [List.reverse_cons]; exact traceWord_snoc_intro h3 h4
            refine ⟨?_, ?_⟩
            · rw [List.reverse_cons]; exact traceWord_snoc_intro h6 he
            · rw [List.reverse_cons, vol_append σ _ _ _ _ h6, vol_single σ he]
      rw [vol_foldl_step hinv hanti w (FW.step acc x) c0 e d key.1 h2, key.2]
      simp only [vol, he, mul_assoc]

/-- the voltage of a path is invariant under free reduction of its word -/
theorem vol_normalized (hinv : InvConsistent t n) {σ : Nat → Int → H} (hanti : AntiSym t n σ)
    {w : List Int} {c d : Nat} (h : traceWord t n c w = some d) :
    vol t n σ c (FW.normalized w) = vol t n σ c w := by
  unfold FW.normalized
  rw [vol_foldl_step hinv hanti w [] c c d (by simp [traceWord]) h]
  simp [vol]

theorem vol_invRaw (hinv : InvConsistent t n) {σ : Nat → Int → H} (hanti : AntiSym t n σ) :
    ∀ (w : List Int) (c d : Nat), traceWord t n c w = some d →
      vol t n σ d (w.reverse.map (fun x => -x)) = (vol t n σ c w)⁻¹
  | [], c, d, h => by
    simp only [traceWord, Option.some.injEq] at h
    subst h; simp [vol]
  | g :: w, c, d, h => by
    simp only [traceWord] at h
    cases he : entry t n c g with
    | none => simp [he] at h
    | some e =>
      simp only [he] at h
      have ih := vol_invRaw hinv hanti w e d h
      have htr := trace_inverse hinv w e d h
      simp only [List.reverse_cons, List.map_append, List.map_cons, List.map_nil]
      rw [vol_append σ _ _ _ _ htr, ih, vol_single σ (hinv _ _ _ he), hanti _ _ _ he]
      simp only [vol, he, mul_inv_rev]

/-- a property holds for every edge on the path of `w` from `c` -/
def OnPath (t : Tab) (n : Nat) (P : Nat → Int → Prop) : Nat → List Int → Prop
  | _, [] => True
  | c, g :: w =>
    match entry t n c g with
    | some d => P c g ∧ OnPath t n P d w
    | none => True

theorem vol_congr {σ σ' : Nat → Int → H} : ∀ (w : List Int) (c : Nat),
    OnPath t n (fun c g => σ c g = σ' c g) c w → vol t n σ c w = vol t n σ' c w
  | [], _, _ => rfl
  | g :: w, c, h => by
    simp only [OnPath, vol] at h ⊢
    cases he : entry t n c g with
    | none => rfl
    | some d =>
      simp only [he] at h ⊢
      rw [h.1, vol_congr w d h.2]

theorem onPath_append {P : Nat → Int → Prop} : ∀ (a b : List Int) (c d : Nat),
    traceWord t n c a = some d → (OnPath t n P c (a ++ b) ↔ OnPath t n P c a ∧ OnPath t n P d b)
  | [], b, c, d, h => by
    simp only [traceWord, Option.some.injEq] at h
    subst h; simp [OnPath]
  | g :: a, b, c, d, h => by
    simp only [traceWord] at h
    cases he : entry t n c g with
    | none => simp [he] at h
    | some e =>
      simp only [he] at h
      simp only [List.cons_append, OnPath, he, onPath_append a b e d h, and_assoc]

end Voltage

/-! ### the Schreier cochain -/

section Schreier
variable {t : Tab} (n : Nat) (rels : List (List Int)) (u : Nat → List Int)

/-- Schreier element of the edge `c —g→ d`: `u_c · g · u_d⁻¹` -/
noncomputable def sch (t : Tab) (c : Nat) (g : Int) : GP n rels :=
  match entry t n c g with
  | some d => mkG n rels (u c) * mkG n rels [g] * (mkG n rels (u d))⁻¹
  | none => 1

theorem sch_antisym (hinv : InvConsistent t n) : AntiSym t n (sch n rels u t) := by
  intro c g d he
  have he' := hinv _ _ _ he
  simp only [sch, he, he', mkG_neg, mul_inv_rev, inv_inv, mul_assoc]

theorem vol_sch : ∀ (w : List Int) (c d : Nat), traceWord t n c w = some d →
    vol t n (sch n rels u t) c w = mkG n rels (u c) * mkG n rels w * (mkG n rels (u d))⁻¹
  | [], c, d, h => by
    simp only [traceWord, Option.some.injEq] at h
    subst h; simp [vol, mkG_nil]
  | g :: w, c, d, h => by
    simp only [traceWord] at h
    cases he : entry t n c g with
    | none => simp [he] at h
    | some e =>
      simp only [he] at h
      have : mkG n rels (g :: w) = mkG n rels [g] * mkG n rels w := by
        rw [← mkG_append]; rfl
      simp only [vol, he, vol_sch w e d h, sch, this, mul_assoc, inv_mul_cancel_left]

end Schreier

end DSymVerif.StabP
