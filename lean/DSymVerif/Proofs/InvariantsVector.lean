/-
`relator_as_vector` is the exponent-sum homomorphism.
`SpecC14.expSum k w` = (#letters k+1) − (#letters −(k+1)) is the mathematical definition; the
model's row is `expVec n w`, and `expSum` is additive on concatenation, negates on inverses,
does not see free reduction, rotation or conjugation — for all words.
-/
import DSymVerif.Model.Invariants
import DSymVerif.Model.FreeWord
import DSymVerif.Spec.C14
import Mathlib.Tactic.Ring
import Mathlib.Tactic.Linarith

namespace DSymVerif.Inv
open DSymVerif.SpecC14

/-- contribution of one letter to the exponent sum of generator `k+1` -/
def lv (k : Nat) (x : Int) : Int :=
  (if x = (k : Int) + 1 then 1 else 0) - (if x = -((k : Int) + 1) then 1 else 0)

theorem expSum_nil (k : Nat) : expSum k [] = 0 := by simp [expSum]

theorem expSum_cons (k : Nat) (x : Int) (w : List Int) :
    expSum k (x :: w) = lv k x + expSum k w := by
  unfold expSum lv
  rw [List.count_cons, List.count_cons]
  by_cases h1 : x = (k : Int) + 1 <;> by_cases h2 : x = -((k : Int) + 1) <;>
    simp [h1, h2] <;> omega

theorem expSum_append (k : Nat) (u v : List Int) :
    expSum k (u ++ v) = expSum k u + expSum k v := by
  induction u with
  | nil => simp [expSum_nil]
  | cons x u ih => rw [List.cons_append, expSum_cons, expSum_cons, ih]; ring

theorem lv_neg (k : Nat) (x : Int) : lv k (-x) = - lv k x := by
  unfold lv
  by_cases h1 : x = (k : Int) + 1 <;> by_cases h2 : x = -((k : Int) + 1) <;>
    simp [h1, h2] <;> omega

theorem lv_zero (k : Nat) : lv k 0 = 0 := by
  unfold lv
  have h1 : ¬ ((0 : Int) = (k : Int) + 1) := by omega
  have h2 : ¬ ((0 : Int) = -((k : Int) + 1)) := by omega
  rw [if_neg h1, if_neg h2]; rfl

theorem expSum_reverse (k : Nat) (w : List Int) : expSum k w.reverse = expSum k w := by
  simp [expSum, List.count_reverse]

theorem expSum_map_neg (k : Nat) (w : List Int) :
    expSum k (w.map (fun x => -x)) = - expSum k w := by
  induction w with
  | nil => simp [expSum_nil]
  | cons x w ih => rw [List.map_cons, expSum_cons, expSum_cons, ih, lv_neg]; ring

/-- exponent sums of the formal inverse -/
theorem expSum_inv (k : Nat) (w : List Int) :
    expSum k (w.reverse.map (fun x => -x)) = - expSum k w := by
  rw [expSum_map_neg, expSum_reverse]

/-- rotation of the raw word -/
theorem expSum_rot (k : Nat) (w : List Int) (j : Nat) :
    expSum k (w.drop j ++ w.take j) = expSum k w := by
  rw [expSum_append]
  conv_rhs => rw [← List.take_append_drop j w, expSum_append]
  ring

/-! ### free reduction (`FW.normalized`) is invisible -/

theorem expSum_step (k : Nat) (acc : List Int) (x : Int) :
    expSum k (FW.step acc x) = expSum k acc + lv k x := by
  unfold FW.step
  cases acc with
  | nil =>
    by_cases h : x = 0
    · subst h; simp [expSum_nil, lv_zero]
    · simp [h, expSum_cons, expSum_nil]
  | cons y ys =>
    by_cases h : x = -y
    · subst h; simp only [if_true]; rw [expSum_cons, lv_neg]; ring
    · simp only [h, if_false]
      by_cases h0 : x = 0
      · subst h0; simp [lv_zero]
      · simp only [ne_eq, h0, not_false_eq_true, if_true]; rw [expSum_cons]; ring

theorem expSum_foldl_step (k : Nat) (w acc : List Int) :
    expSum k (w.foldl FW.step acc) = expSum k acc + expSum k w := by
  induction w generalizing acc with
  | nil => simp [expSum_nil]
  | cons x w ih => rw [List.foldl_cons, ih, expSum_step, expSum_cons]; ring

/-- free reduction does not change exponent sums -/
theorem expSum_normalized (k : Nat) (w : List Int) : expSum k (FW.normalized w) = expSum k w := by
  unfold FW.normalized
  rw [expSum_reverse, expSum_foldl_step, expSum_nil]; ring

theorem expSum_mul (k : Nat) (a b : List Int) :
    expSum k (FW.mul a b) = expSum k a + expSum k b := by
  unfold FW.mul FW.new FW.rawMul
  rw [expSum_normalized, expSum_append]

theorem expSum_inverse (k : Nat) (a : List Int) : expSum k (FW.inverse a) = - expSum k a := by
  unfold FW.inverse FW.new
  rw [expSum_normalized, expSum_inv]

theorem expSum_rotated (k : Nat) (a : List Int) (i : Int) :
    expSum k (FW.rotated a i) = expSum k a := by
  unfold FW.rotated
  by_cases h : (a.length : Int) = 0
  · simp [h]
  · simp only [h, if_false]
    unfold FW.new
    rw [expSum_normalized, expSum_rot]

/-- conjugation `u · w · u⁻¹` -/
theorem expSum_conj (k : Nat) (u w : List Int) :
    expSum k (FW.mul (FW.mul u w) (FW.inverse u)) = expSum k w := by
  rw [expSum_mul, expSum_mul, expSum_inverse]; ring

theorem expSum_powNat (k : Nat) (a : List Int) (m : Nat) :
    expSum k (FW.powNat a m) = m * expSum k a := by
  induction m with
  | zero => simp [FW.powNat, FW.empty, FW.new, FW.normalized, expSum_nil]
  | succ m ih => rw [FW.powNat, expSum_mul, ih]; push_cast; ring

/-! ### letters of the reduced word are letters of the raw word -/

theorem mem_step {acc : List Int} {x g : Int} (h : g ∈ FW.step acc x) : g ∈ acc ∨ g = x := by
  unfold FW.step at h
  cases acc with
  | nil =>
    by_cases h0 : x = 0
    · simp [h0] at h
    · simp [h0] at h; exact Or.inr h
  | cons y ys =>
    by_cases h1 : x = -y
    · simp only [h1, if_true] at h; exact Or.inl (List.mem_cons_of_mem _ h)
    · simp only [h1, if_false] at h
      by_cases h0 : x = 0
      · simp [h0] at h; exact Or.inl (by simpa using h)
      · simp only [ne_eq, h0, not_false_eq_true, if_true] at h
        rcases List.mem_cons.mp h with h | h
        · exact Or.inr h
        · exact Or.inl h

theorem mem_foldl_step {w acc : List Int} {g : Int} (h : g ∈ w.foldl FW.step acc) :
    g ∈ acc ∨ g ∈ w := by
  induction w generalizing acc with
  | nil => exact Or.inl h
  | cons x w ih =>
    rw [List.foldl_cons] at h
    rcases ih h with h | h
    · rcases mem_step h with h | h
      · exact Or.inl h
      · exact Or.inr (h ▸ List.mem_cons_self)
    · exact Or.inr (List.mem_cons_of_mem _ h)

theorem mem_normalized {w : List Int} {g : Int} (h : g ∈ FW.normalized w) : g ∈ w := by
  unfold FW.normalized at h
  rcases mem_foldl_step (List.mem_reverse.mp h) with h | h
  · simp at h
  · exact h

/-! ### the model computes exponent sums -/

/-- letter of a presentation on `n` generators -/
def InRange (n : Nat) (g : Int) : Prop := g ≠ 0 ∧ g.natAbs ≤ n

instance (n : Nat) (g : Int) : Decidable (InRange n g) := by unfold InRange; infer_instance

/-- `row + exponent sums of w` -/
def addVec (row : List Int) (w : List Int) : List Int := row.mapIdx (fun k v => v + expSum k w)

theorem addVec_nil (row : List Int) : addVec row [] = row := by
  unfold addVec
  apply List.ext_getElem?
  intro i
  simp [expSum_nil]

theorem bump_ok (row : List Int) (g : Int) (w : List Int) (hg : InRange row.length g) :
    ∃ row', bump row g = .ok row' ∧ row'.length = row.length ∧ addVec row' w = addVec row (g :: w) := by
  obtain ⟨h0, hn⟩ := hg
  unfold bump
  by_cases hneg : g < 0
  · have hk : (-g - 1).toNat < row.length := by omega
    simp only [hneg, if_true, hk]
    refine ⟨_, rfl, by simp, ?_⟩
    unfold addVec
    apply List.ext_getElem?
    intro i
    simp only [List.getElem?_mapIdx, List.getElem?_set]
    by_cases hi : (-g - 1).toNat = i
    · subst hi
      simp only [if_true, hk]
      rw [List.getD_eq_getElem?_getD, List.getElem?_eq_getElem hk]
      simp only [Option.getD_some, Option.map_some]
      rw [expSum_cons]
      have : lv (-g - 1).toNat g = -1 := by
        unfold lv
        have h1 : ¬ (g = (((-g - 1).toNat : Nat) : Int) + 1) := by omega
        have h2 : g = -((((-g - 1).toNat : Nat) : Int) + 1) := by omega
        rw [if_neg h1, if_pos h2]; rfl
      rw [this]; congr 1; ring
    · simp only [hi, if_false]
      rw [expSum_cons]
      have : lv i g = 0 := by
        unfold lv
        have h1 : ¬ (g = (i : Int) + 1) := by omega
        have h2 : ¬ (g = -((i : Int) + 1)) := by omega
        rw [if_neg h1, if_neg h2]; rfl
      rw [this]; simp
  · have hk : (g - 1).toNat < row.length := by omega
    simp only [hneg, if_false, h0, hk, if_true]
    refine ⟨_, rfl, by simp, ?_⟩
    unfold addVec
    apply List.ext_getElem?
    intro i
    simp only [List.getElem?_mapIdx, List.getElem?_set]
    by_cases hi : (g - 1).toNat = i
    · subst hi
      simp only [if_true, hk]
      rw [List.getD_eq_getElem?_getD, List.getElem?_eq_getElem hk]
      simp only [Option.getD_some, Option.map_some]
      rw [expSum_cons]
      have : lv (g - 1).toNat g = 1 := by
        unfold lv
        have h1 : g = (((g - 1).toNat : Nat) : Int) + 1 := by omega
        have h2 : ¬ (g = -((((g - 1).toNat : Nat) : Int) + 1)) := by omega
        rw [if_pos h1, if_neg h2]; rfl
      rw [this]; congr 1; ring
    · simp only [hi, if_false]
      rw [expSum_cons]
      have : lv i g = 0 := by
        unfold lv
        have h1 : ¬ (g = (i : Int) + 1) := by omega
        have h2 : ¬ (g = -((i : Int) + 1)) := by omega
        rw [if_neg h1, if_neg h2]; rfl
      rw [this]; simp

theorem bump_panic (row : List Int) (g : Int) (hg : ¬ InRange row.length g) :
    bump row g = .panic := by
  unfold InRange at hg
  unfold bump
  by_cases hneg : g < 0
  · have hk : ¬ (-g - 1).toNat < row.length := by omega
    simp only [hneg, if_true, hk, if_false]
  · by_cases h0 : g = 0
    · simp [h0]
    · have hk : ¬ (g - 1).toNat < row.length := by
        intro hk; apply hg; exact ⟨h0, by omega⟩
      simp only [hneg, h0, hk, if_false]

theorem bumpAll_ok (w : List Int) (row : List Int) (hw : ∀ g ∈ w, InRange row.length g) :
    bumpAll row w = .ok (addVec row w) := by
  induction w generalizing row with
  | nil => simp [bumpAll, addVec_nil]
  | cons g w ih =>
    obtain ⟨row', hb, hl, ha⟩ := bump_ok row g w (hw g List.mem_cons_self)
    rw [bumpAll, hb]
    simp only
    rw [ih row' (by intro x hx; rw [hl]; exact hw x (List.mem_cons_of_mem _ hx)), ha]

theorem bumpAll_panic (w : List Int) (row : List Int) (hw : ∃ g ∈ w, ¬ InRange row.length g) :
    bumpAll row w = .panic := by
  induction w generalizing row with
  | nil => simp at hw
  | cons g w ih =>
    by_cases hg : InRange row.length g
    · obtain ⟨row', hb, hl, _⟩ := bump_ok row g w hg
      rw [bumpAll, hb]
      simp only
      apply ih
      obtain ⟨x, hx, hnx⟩ := hw
      rcases List.mem_cons.mp hx with rfl | hx
      · exact absurd hg hnx
      · exact ⟨x, hx, by rw [hl]; exact hnx⟩
    · rw [bumpAll, bump_panic row g hg]

theorem addVec_replicate (n : Nat) (w : List Int) : addVec (List.replicate n 0) w = expVec n w := by
  unfold addVec expVec
  apply List.ext_getElem?
  intro i
  simp only [List.getElem?_mapIdx, List.getElem?_map, List.getElem?_replicate]
  by_cases h : i < n
  · simp [h]
  · simp [h]

/-- on a word over `±1 … ±n` the model returns the exponent-sum vector -/
theorem relatorAsVector_ok (n : Nat) (w : List Int) (hw : ∀ g ∈ w, InRange n g) :
    relatorAsVector n w = .ok (expVec n w) := by
  unfold relatorAsVector
  rw [bumpAll_ok w _ (by simpa using hw), addVec_replicate]

/-- any other letter is an index panic -/
theorem relatorAsVector_panic (n : Nat) (w : List Int) (hw : ∃ g ∈ w, ¬ InRange n g) :
    relatorAsVector n w = .panic := by
  unfold relatorAsVector
  exact bumpAll_panic w _ (by simpa using hw)

end DSymVerif.Inv

namespace DSymVerif.Inv
open DSymVerif.SpecC14

/-! ### the same facts at row level -/

theorem expVec_length (n : Nat) (w : List Int) : (expVec n w).length = n := by simp [expVec]

theorem expVec_mul (n : Nat) (a b : List Int) :
    expVec n (FW.mul a b) = List.zipWith (· + ·) (expVec n a) (expVec n b) := by
  apply List.ext_getElem
  · simp [expVec]
  · intro i h1 h2
    simp [expVec, expSum_mul]

theorem expVec_inverse (n : Nat) (a : List Int) :
    expVec n (FW.inverse a) = (expVec n a).map (fun x => -x) := by
  apply List.ext_getElem
  · simp [expVec]
  · intro i h1 h2
    simp [expVec, expSum_inverse]

end DSymVerif.Inv
