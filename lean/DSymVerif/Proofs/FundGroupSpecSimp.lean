/-
Helper lemmas for property C09, part 23: `SpecC09.simplify` (Tietze elimination + cyclic reduction
+ renumbering) does not change the presented group.

Presentations are taken over `FreeGroup ℕ` with a set `K` of killed letters:
`PRel K rels = {den w | w ∈ rels} ∪ {of k | k ∈ K}`.
-/
import DSymVerif.Proofs.FundGroupSpecA
import DSymVerif.Spec.C09

namespace DSymVerif.FGP
open DSymVerif DSymVerif.FWP

/-- relators `rels` and killed letters `K` -/
def PRel (K : Set ℕ) (rels : List (List Int)) : Set (FreeGroup ℕ) :=
  {r | ∃ w ∈ rels, r = den w} ∪ {r | ∃ k ∈ K, r = FreeGroup.of k}

theorem MRel_eq_PRel (n : Nat) (rels : List (List Int)) :
    MRel n rels = PRel {k | k = 0 ∨ n < k} rels := by
  unfold MRel PRel
  ext r
  simp only [Set.mem_union, Set.mem_setOf_eq]

/-! ### words -/

theorem den_cons (y : Int) (w : List Int) : den (y :: w) = den [y] * den w := by
  have : y :: w = [y] ++ w := rfl
  rw [this, den_append]

theorem den_neg_letter (y : Int) : den [-y] = (den [y])⁻¹ := by
  have := den_invRaw [y]
  simpa using this

theorem den_specInv09 (a : List Int) : den (SpecC09.inv a) = (den a)⁻¹ := den_invRaw a

theorem den_letter (y : Int) : den [y] =
    if y = 0 then 1 else if 0 < y then FreeGroup.of y.natAbs else (FreeGroup.of y.natAbs)⁻¹ := by
  by_cases h0 : y = 0
  · rw [if_pos h0, h0]; exact den_zero
  · rw [if_neg h0]
    by_cases hp : 0 < y
    · rw [if_pos hp]
      have e : [y] = [((y.natAbs : Nat) : Int)] := by
        have : y = ((y.natAbs : Nat) : Int) := by omega
        rw [← this]
      rw [e, den_pos _ (by omega)]
    · rw [if_neg hp]
      have e : [y] = [-((y.natAbs : Nat) : Int)] := by
        have : y = -((y.natAbs : Nat) : Int) := by omega
        rw [← this]
      rw [e, den_neg _ (by omega)]

theorem den_foldl_rev (f : List Int → Int → List Int)
    (hf : ∀ st x, den (f st x).reverse = den st.reverse * den [x]) :
    ∀ (w st : List Int), den ((w.foldl f st).reverse) = den st.reverse * den w
  | [], st => by simp [den_nil]
  | x :: w, st => by
    rw [List.foldl_cons, den_foldl_rev f hf w, hf, den_cons x w, mul_assoc]

/-- free reduction does not change the element -/
theorem den_freeReduce (w : List Int) : den (SpecC09.freeReduce w) = den w := by
  unfold SpecC09.freeReduce
  rw [den_foldl_rev _ ?_ w []]
  · simp [den_nil]
  · intro st x
    by_cases hx : (x == 0) = true
    · rw [if_pos hx]
      have : x = 0 := by simpa using hx
      rw [this, den_zero, mul_one]
    · rw [if_neg hx]
      split
      · rename_i y r
        by_cases hxy : (x == -y) = true
        · rw [if_pos hxy]
          have : x = -y := by simpa using hxy
          rw [this, List.reverse_cons, den_append, den_neg_letter]
          group
        · rw [if_neg hxy]
          simp only [List.reverse_cons]
          rw [den_append]
      · simp [den_nil]

theorem list_ends {α} : ∀ (w : List α) (a b : α), w.head? = some a → w.getLast? = some b →
    2 ≤ w.length → w = a :: (w.drop 1).dropLast ++ [b]
  | [], _, _, h, _, _ => by simp at h
  | [x], _, _, _, _, hl => by simp at hl
  | x :: y :: rest, a, b, ha, hb, _ => by
    simp only [List.head?_cons, Option.some.injEq] at ha
    subst ha
    simp only [List.drop_one, List.tail_cons]
    have h1 : (x :: y :: rest).getLast? = (y :: rest).getLast? := by simp [List.getLast?_cons_cons]
    rw [h1] at hb
    have hne : y :: rest ≠ [] := by simp
    have h2 := List.dropLast_append_getLast hne
    have h3 : (y :: rest).getLast hne = b := by
      rw [List.getLast?_eq_some_getLast hne] at hb
      exact Option.some.inj hb
    rw [h3] at h2
    rw [List.cons_append, h2]

/-- cyclic reduction conjugates the element -/
theorem den_cycStrip : ∀ (n : Nat) (w : List Int), ∃ g, den (SpecC09.cycStrip n w) = g * den w * g⁻¹
  | 0, w => ⟨1, by simp [SpecC09.cycStrip]⟩
  | n + 1, w => by
    unfold SpecC09.cycStrip
    split
    · rename_i a b ha hb
      by_cases hc : (decide (w.length ≥ 2) && a == -b) = true
      · rw [if_pos hc]
        simp only [Bool.and_eq_true, decide_eq_true_eq, beq_iff_eq] at hc
        obtain ⟨g, hg⟩ := den_cycStrip n ((w.drop 1).dropLast)
        have hw := list_ends w a b ha hb hc.1
        refine ⟨g * (den [a])⁻¹, ?_⟩
        have e : den w = den [a] * den (w.drop 1).dropLast * (den [a])⁻¹ := by
          have h1 : den w = den (a :: (w.drop 1).dropLast ++ [b]) := congrArg den hw
          rw [h1, List.cons_append, den_cons, den_append]
          have hb' : b = -a := by rw [hc.2]; simp
          rw [hb', den_neg_letter, mul_assoc]
        rw [hg, e]
        group
      · rw [if_neg hc]; exact ⟨1, by simp⟩
    · exact ⟨1, by simp⟩

theorem den_cycReduce (w : List Int) : ∃ g, den (SpecC09.cycReduce w) = g * den w * g⁻¹ := by
  unfold SpecC09.cycReduce
  simp only
  obtain ⟨g, hg⟩ := den_cycStrip (SpecC09.freeReduce w).length (SpecC09.freeReduce w)
  exact ⟨g, by rw [hg, den_freeReduce]⟩

theorem mem_dedup {α} [BEq α] [LawfulBEq α] (l : List α) (x : α) : x ∈ SpecC09.dedup l ↔ x ∈ l := by
  unfold SpecC09.dedup
  have : ∀ (l acc : List α), x ∈ l.foldl (fun acc x => if acc.contains x then acc else acc ++ [x]) acc ↔
      x ∈ acc ∨ x ∈ l := by
    intro l
    induction l with
    | nil => intro acc; simp
    | cons y l ih =>
      intro acc
      rw [List.foldl_cons, ih]
      by_cases hc : acc.contains y = true
      · rw [if_pos hc]
        have : y ∈ acc := by simpa using hc
        constructor
        · rintro (h | h)
          · exact Or.inl h
          · exact Or.inr (List.mem_cons_of_mem _ h)
        · rintro (h | h)
          · exact Or.inl h
          · rcases List.mem_cons.1 h with h | h
            · exact Or.inl (h ▸ this)
            · exact Or.inr h
      · rw [if_neg hc]
        simp only [List.mem_append, List.mem_cons, List.not_mem_nil, or_false]
        tauto
  rw [this l []]
  simp

theorem mem_normRels (rels : List (List Int)) (v : List Int) :
    v ∈ SpecC09.normRels rels ↔ ∃ w ∈ rels, v = SpecC09.cycReduce w ∧ v ≠ [] := by
  unfold SpecC09.normRels
  rw [mem_dedup, List.mem_filter, List.mem_map]
  constructor
  · rintro ⟨⟨w, hw, rfl⟩, hne⟩
    refine ⟨w, hw, rfl, ?_⟩
    intro h
    rw [h] at hne
    simp at hne
  · rintro ⟨w, hw, rfl, hne⟩
    refine ⟨⟨w, hw, rfl⟩, ?_⟩
    cases h : SpecC09.cycReduce w with
    | nil => exact absurd h hne
    | cons a b => rfl

/-- cyclic reduction of all relators does not change the normal closure -/
theorem normRels_ncl (K : Set ℕ) (rels : List (List Int)) :
    Subgroup.normalClosure (PRel K (SpecC09.normRels rels)) = Subgroup.normalClosure (PRel K rels) := by
  apply _root_.le_antisymm
  · apply Subgroup.normalClosure_le_normal
    rintro r (⟨v, hv, rfl⟩ | ⟨k, hk, rfl⟩)
    · obtain ⟨w, hw, rfl, _⟩ := (mem_normRels rels v).1 hv
      obtain ⟨g, hg⟩ := den_cycReduce w
      rw [SetLike.mem_coe, hg]
      exact (Subgroup.normalClosure_normal (s := PRel K rels)).conj_mem _
        (Subgroup.subset_normalClosure (Or.inl ⟨w, hw, rfl⟩)) g
    · exact Subgroup.subset_normalClosure (Or.inr ⟨k, hk, rfl⟩)
  · apply Subgroup.normalClosure_le_normal
    rintro r (⟨w, hw, rfl⟩ | ⟨k, hk, rfl⟩)
    · obtain ⟨g, hg⟩ := den_cycReduce w
      have e : den w = g⁻¹ * den (SpecC09.cycReduce w) * g⁻¹⁻¹ := by rw [hg]; group
      rw [SetLike.mem_coe, e]
      apply (Subgroup.normalClosure_normal (s := PRel K (SpecC09.normRels rels))).conj_mem
      by_cases hne : SpecC09.cycReduce w = []
      · rw [hne, den_nil]; exact one_mem _
      · exact Subgroup.subset_normalClosure
          (Or.inl ⟨_, (mem_normRels rels _).2 ⟨w, hw, rfl, hne⟩, rfl⟩)
    · exact Subgroup.subset_normalClosure (Or.inr ⟨k, hk, rfl⟩)

/-! ### substitution of a generator -/

/-- the endomorphism `x ↦ U` of the free group -/
noncomputable def sigma (x : ℕ) (U : FreeGroup ℕ) : FreeGroup ℕ →* FreeGroup ℕ :=
  FreeGroup.lift fun k => if k = x then U else FreeGroup.of k

theorem sigma_letter {x : ℕ} (U : FreeGroup ℕ) {y : Int} (h : y.natAbs ≠ x) :
    sigma x U (den [y]) = den [y] := by
  rw [den_letter]
  split
  · exact map_one _
  · split
    · unfold sigma; rw [FreeGroup.lift_apply_of, if_neg h]
    · unfold sigma; rw [map_inv, FreeGroup.lift_apply_of, if_neg h]

theorem sigma_fix {x : ℕ} (U : FreeGroup ℕ) : ∀ (w : List Int), (∀ z ∈ w, z.natAbs ≠ x) →
    sigma x U (den w) = den w
  | [], _ => by rw [den_nil, map_one]
  | y :: w, h => by
    rw [den_cons, map_mul, sigma_letter U (h y List.mem_cons_self),
      sigma_fix U w (fun z hz => h z (List.mem_cons_of_mem _ hz))]

theorem den_subst {x : ℕ} (hx : 1 ≤ x) (u : List Int) : ∀ (w : List Int),
    den (SpecC09.subst x u w) = sigma x (den u) (den w)
  | [] => by simp [SpecC09.subst, den_nil]
  | y :: w => by
    have ih := den_subst hx u w
    unfold SpecC09.subst at ih ⊢
    rw [List.flatMap_cons, den_append, ih, den_cons y w, map_mul]
    congr 1
    by_cases h1 : (y == (x : Int)) = true
    · rw [if_pos h1]
      have : y = (x : Int) := by simpa using h1
      rw [this, den_pos x hx]
      unfold sigma; rw [FreeGroup.lift_apply_of, if_pos rfl]
    · rw [if_neg h1]
      by_cases h2 : (y == -(x : Int)) = true
      · rw [if_pos h2]
        have : y = -(x : Int) := by simpa using h2
        rw [this, den_neg x hx, den_specInv09]
        unfold sigma; rw [map_inv, FreeGroup.lift_apply_of, if_pos rfl]
      · rw [if_neg h2]
        have h1' : y ≠ (x : Int) := by simpa using h1
        have h2' : y ≠ -(x : Int) := by simpa using h2
        rw [sigma_letter]
        omega

theorem subst_letters {x : ℕ} {u w : List Int} {z : Int} (hz : z ∈ SpecC09.subst x u w) :
    (z ∈ u ∨ -z ∈ u) ∨ (z ∈ w ∧ z.natAbs ≠ x) := by
  unfold SpecC09.subst at hz
  rw [List.mem_flatMap] at hz
  obtain ⟨y, hy, hz⟩ := hz
  by_cases h1 : (y == (x : Int)) = true
  · rw [if_pos h1] at hz; exact Or.inl (Or.inl hz)
  · rw [if_neg h1] at hz
    by_cases h2 : (y == -(x : Int)) = true
    · rw [if_pos h2] at hz
      unfold SpecC09.inv at hz
      simp only [List.mem_map, List.mem_reverse] at hz
      obtain ⟨t, ht, rfl⟩ := hz
      exact Or.inl (Or.inr (by simpa using ht))
    · rw [if_neg h2] at hz
      simp only [List.mem_singleton] at hz
      subst hz
      have h1' : z ≠ (x : Int) := by simpa using h1
      have h2' : z ≠ -(x : Int) := by simpa using h2
      exact Or.inr ⟨hy, by omega⟩

/-! ### one Tietze elimination -/

/-- two homomorphisms that agree on all generators other than `x` agree on words without `x` -/
theorem hom_agree_xfree {H : Type} [Group H] (h1 h2 : FreeGroup ℕ →* H) {x : ℕ}
    (hg : ∀ k, k ≠ x → h1 (FreeGroup.of k) = h2 (FreeGroup.of k)) : ∀ (w : List Int),
    (∀ z ∈ w, z.natAbs ≠ x) → h1 (den w) = h2 (den w)
  | [], _ => by rw [den_nil, map_one, map_one]
  | y :: w, h => by
    rw [den_cons, map_mul, map_mul,
      hom_agree_xfree h1 h2 hg w (fun z hz => h z (List.mem_cons_of_mem _ hz))]
    congr 1
    have hy := h y List.mem_cons_self
    rw [den_letter]
    split
    · rw [map_one, map_one]
    · split
      · exact hg _ hy
      · rw [map_inv, map_inv, hg _ hy]

theorem subst_xfree {x : ℕ} {u : List Int} (hu : ∀ z ∈ u, z.natAbs ≠ x) (w : List Int) :
    ∀ z ∈ SpecC09.subst x u w, z.natAbs ≠ x := by
  intro z hz
  rcases subst_letters hz with (h | h) | h
  · exact hu z h
  · have := hu (-z) h
    rwa [Int.natAbs_neg] at this
  · exact h.2

/-- **Tietze elimination**: if `x = u` holds in the group and `u` does not contain `x`, replacing
    `x` by `u` in all relators and killing `x` gives an isomorphic group -/
theorem elim_iso (K : Set ℕ) (rels : List (List Int)) (x : ℕ) (u : List Int) (hx : 1 ≤ x)
    (hxK : x ∉ K) (hu : ∀ z ∈ u, z.natAbs ≠ x)
    (hxu : PresentedGroup.mk (PRel K rels) (FreeGroup.of x) = PresentedGroup.mk (PRel K rels) (den u)) :
    Nonempty (PresentedGroup (PRel K rels) ≃*
      PresentedGroup (PRel (K ∪ {x}) (rels.map (SpecC09.subst x u)))) := by
  classical
  let R := PRel K rels
  let R' := PRel (K ∪ {x}) (rels.map (SpecC09.subst x u))
  -- φ
  let fφ : ℕ → PresentedGroup R' := fun k =>
    PresentedGroup.mk R' (if k = x then den u else FreeGroup.of k)
  have hliftφ : FreeGroup.lift fφ = (PresentedGroup.mk R').comp (sigma x (den u)) := by
    apply FreeGroup.ext_hom
    intro k
    rw [FreeGroup.lift_apply_of, MonoidHom.comp_apply]
    unfold sigma
    rw [FreeGroup.lift_apply_of]
  have hφ : ∀ r ∈ R, FreeGroup.lift fφ r = 1 := by
    rintro r (⟨w, hw, rfl⟩ | ⟨k, hk, rfl⟩)
    · rw [hliftφ, MonoidHom.comp_apply, ← den_subst hx]
      exact PresentedGroup.one_of_mem (Or.inl ⟨_, List.mem_map_of_mem hw, rfl⟩)
    · rw [FreeGroup.lift_apply_of]
      have : k ≠ x := fun e => hxK (e ▸ hk)
      show PresentedGroup.mk R' (if k = x then den u else FreeGroup.of k) = 1
      rw [if_neg this]
      exact PresentedGroup.one_of_mem (Or.inr ⟨k, Or.inl hk, rfl⟩)
  let φ : PresentedGroup R →* PresentedGroup R' := PresentedGroup.toGroup hφ
  -- ψ
  let fψ : ℕ → PresentedGroup R := fun k => if k = x then 1 else PresentedGroup.mk R (FreeGroup.of k)
  have hmkσ : (PresentedGroup.mk R).comp (sigma x (den u)) = PresentedGroup.mk R := by
    apply FreeGroup.ext_hom
    intro k
    rw [MonoidHom.comp_apply]
    unfold sigma
    rw [FreeGroup.lift_apply_of]
    by_cases hk : k = x
    · rw [if_pos hk, hk]; exact hxu.symm
    · rw [if_neg hk]
  have hψfix : ∀ v : List Int, (∀ z ∈ v, z.natAbs ≠ x) →
      FreeGroup.lift fψ (den v) = PresentedGroup.mk R (den v) := by
    intro v hv
    apply hom_agree_xfree _ _ _ v hv
    intro k hk
    rw [FreeGroup.lift_apply_of]
    show (if k = x then 1 else PresentedGroup.mk R (FreeGroup.of k)) = _
    rw [if_neg hk]
  have hψ : ∀ r ∈ R', FreeGroup.lift fψ r = 1 := by
    rintro r (⟨v, hv, rfl⟩ | ⟨k, hk, rfl⟩)
    · obtain ⟨w, hw, rfl⟩ := List.mem_map.1 hv
      rw [hψfix _ (subst_xfree hu w), den_subst hx, ← MonoidHom.comp_apply, hmkσ]
      exact PresentedGroup.one_of_mem (Or.inl ⟨w, hw, rfl⟩)
    · rw [FreeGroup.lift_apply_of]
      show (if k = x then 1 else PresentedGroup.mk R (FreeGroup.of k)) = 1
      by_cases hkx : k = x
      · rw [if_pos hkx]
      · rw [if_neg hkx]
        rcases hk with hk | hk
        · exact PresentedGroup.one_of_mem (Or.inr ⟨k, hk, rfl⟩)
        · exact absurd hk hkx
  let ψ : PresentedGroup R' →* PresentedGroup R := PresentedGroup.toGroup hψ
  have hφmk : ∀ g, φ (PresentedGroup.mk R g) = PresentedGroup.mk R' (sigma x (den u) g) := by
    intro g
    show FreeGroup.lift fφ g = _
    rw [hliftφ, MonoidHom.comp_apply]
  have hψmk : ∀ g, ψ (PresentedGroup.mk R' g) = FreeGroup.lift fψ g := fun g => rfl
  have h1 : ψ.comp φ = MonoidHom.id _ := by
    apply PresentedGroup.ext
    intro k
    rw [MonoidHom.comp_apply, MonoidHom.id_apply]
    show ψ (φ (PresentedGroup.mk R (FreeGroup.of k))) = PresentedGroup.mk R (FreeGroup.of k)
    rw [hφmk, hψmk]
    unfold sigma
    rw [FreeGroup.lift_apply_of]
    by_cases hk : k = x
    · rw [if_pos hk, hψfix u hu, hk]; exact hxu.symm
    · rw [if_neg hk, FreeGroup.lift_apply_of]
      show (if k = x then 1 else PresentedGroup.mk R (FreeGroup.of k)) = _
      rw [if_neg hk]
  have h2 : φ.comp ψ = MonoidHom.id _ := by
    apply PresentedGroup.ext
    intro k
    rw [MonoidHom.comp_apply, MonoidHom.id_apply]
    show φ (ψ (PresentedGroup.mk R' (FreeGroup.of k))) = PresentedGroup.mk R' (FreeGroup.of k)
    rw [hψmk, FreeGroup.lift_apply_of]
    show φ (if k = x then 1 else PresentedGroup.mk R (FreeGroup.of k)) = _
    by_cases hk : k = x
    · rw [if_pos hk, map_one, hk]
      exact (PresentedGroup.one_of_mem (Or.inr ⟨x, Or.inr rfl, rfl⟩)).symm
    · rw [if_neg hk, hφmk]
      unfold sigma
      rw [FreeGroup.lift_apply_of, if_neg hk]
  exact ⟨MonoidHom.toMulEquiv φ ψ h1 h2⟩

/-! ### the elimination loop -/

theorem singleLetter_spec {w : List Int} {y : Int} (h : SpecC09.singleLetter w = some y) :
    y ∈ w ∧ w.countP (fun z => z.natAbs == y.natAbs) = 1 := by
  unfold SpecC09.singleLetter at h
  refine ⟨List.mem_of_find?_eq_some h, ?_⟩
  have := List.find?_some h
  simpa using this

theorem split_single {w : List Int} {y : Int} (hy : y ∈ w)
    (hc : w.countP (fun z => z.natAbs == y.natAbs) = 1) :
    w = w.take (w.idxOf y) ++ y :: w.drop (w.idxOf y + 1) ∧
    (∀ z ∈ w.take (w.idxOf y), z.natAbs ≠ y.natAbs) ∧
    (∀ z ∈ w.drop (w.idxOf y + 1), z.natAbs ≠ y.natAbs) := by
  have hk : w.idxOf y < w.length := List.idxOf_lt_length_of_mem hy
  have hsplit : w = w.take (w.idxOf y) ++ y :: w.drop (w.idxOf y + 1) := by
    have h1 := (List.take_append_drop (w.idxOf y) w).symm
    have h2 : w.drop (w.idxOf y) = w[w.idxOf y] :: w.drop (w.idxOf y + 1) := List.drop_eq_getElem_cons hk
    rw [List.getElem_idxOf hk] at h2
    rw [h2] at h1
    exact h1
  refine ⟨hsplit, ?_⟩
  rw [hsplit, List.countP_append, List.countP_cons] at hc
  have hyy : ((fun z : Int => z.natAbs == y.natAbs) y) = true := by simp
  rw [if_pos hyy] at hc
  have ha : List.countP (fun z => z.natAbs == y.natAbs) (w.take (w.idxOf y)) = 0 := by omega
  have hb : List.countP (fun z => z.natAbs == y.natAbs) (w.drop (w.idxOf y + 1)) = 0 := by omega
  rw [List.countP_eq_zero] at ha hb
  exact ⟨fun z hz => by simpa using ha z hz, fun z hz => by simpa using hb z hz⟩

theorem findElim_spec {rels : List (List Int)} {w : List Int} {y : Int}
    (h : SpecC09.findElim rels = some (w, y)) : w ∈ rels ∧ SpecC09.singleLetter w = some y := by
  unfold SpecC09.findElim at h
  have : ∀ (l : List (List Int)) (best : Option (List Int × Int)),
      (∀ p, best = some p → p.1 ∈ rels ∧ SpecC09.singleLetter p.1 = some p.2) →
      (∀ v ∈ l, v ∈ rels) →
      ∀ p, l.foldl (fun (best : Option (List Int × Int)) w =>
        match SpecC09.singleLetter w with
        | none => best
        | some y =>
          match best with
          | some (b, _) => if w.length < b.length then some (w, y) else best
          | none => some (w, y)) best = some p → p.1 ∈ rels ∧ SpecC09.singleLetter p.1 = some p.2 := by
    intro l
    induction l with
    | nil => intro best hb _ p hp; exact hb p hp
    | cons v l ih =>
      intro best hb hl p hp
      rw [List.foldl_cons] at hp
      refine ih _ ?_ (fun v' hv' => hl v' (List.mem_cons_of_mem _ hv')) p hp
      intro q hq
      split at hq
      · exact hb q hq
      · rename_i y' hy'
        split at hq
        · split at hq
          · injection hq with hq; rw [← hq]; exact ⟨hl v List.mem_cons_self, hy'⟩
          · exact hb q hq
        · injection hq with hq; rw [← hq]; exact ⟨hl v List.mem_cons_self, hy'⟩
  exact this rels none (fun p hp => by cases hp) (fun v hv => hv) (w, y) h

/-- every letter is a live generator: non-zero and not killed -/
def Live (K : Set ℕ) (rels : List (List Int)) : Prop := ∀ w ∈ rels, ∀ z ∈ w, z ≠ 0 ∧ z.natAbs ∉ K

theorem mem_foldl_sub (f : List Int → Int → List Int)
    (hf : ∀ st x z, z ∈ f st x → z ∈ st ∨ z = x) : ∀ (w st : List Int) (z : Int),
    z ∈ w.foldl f st → z ∈ st ∨ z ∈ w
  | [], st, z, h => Or.inl h
  | x :: w, st, z, h => by
    rw [List.foldl_cons] at h
    rcases mem_foldl_sub f hf w _ z h with h | h
    · rcases hf st x z h with h | h
      · exact Or.inl h
      · exact Or.inr (h ▸ List.mem_cons_self)
    · exact Or.inr (List.mem_cons_of_mem _ h)

theorem mem_freeReduce {w : List Int} {z : Int} (h : z ∈ SpecC09.freeReduce w) : z ∈ w := by
  unfold SpecC09.freeReduce at h
  have hf : ∀ (st : List Int) (x z : Int), z ∈ (if (x == 0) = true then st else
      match st with
      | y :: r => if (x == -y) = true then r else x :: st
      | [] => [x]) → z ∈ st ∨ z = x := by
    intro st x z hz
    by_cases hx : (x == 0) = true
    · rw [if_pos hx] at hz; exact Or.inl hz
    · rw [if_neg hx] at hz
      split at hz
      · rename_i y r
        by_cases hxy : (x == -y) = true
        · rw [if_pos hxy] at hz; exact Or.inl (List.mem_cons_of_mem _ hz)
        · rw [if_neg hxy] at hz
          rcases List.mem_cons.1 hz with h | h
          · exact Or.inr h
          · exact Or.inl h
      · simp only [List.mem_singleton] at hz; exact Or.inr hz
  rcases mem_foldl_sub _ hf w [] z (List.mem_reverse.1 h) with h | h
  · cases h
  · exact h

theorem mem_cycStrip : ∀ (n : Nat) (w : List Int) (z : Int), z ∈ SpecC09.cycStrip n w → z ∈ w
  | 0, _, _, h => h
  | n + 1, w, z, h => by
    unfold SpecC09.cycStrip at h
    split at h
    · split at h
      · have := mem_cycStrip n _ z h
        exact List.mem_of_mem_drop (List.mem_of_mem_dropLast this)
      · exact h
    · exact h

theorem mem_cycReduce {w : List Int} {z : Int} (h : z ∈ SpecC09.cycReduce w) : z ∈ w :=
  mem_freeReduce (mem_cycStrip _ _ z h)

theorem live_normRels {K : Set ℕ} {rels : List (List Int)} (h : Live K rels) :
    Live K (SpecC09.normRels rels) := by
  intro v hv z hz
  obtain ⟨w, hw, rfl, _⟩ := (mem_normRels rels v).1 hv
  exact h w hw z (mem_cycReduce hz)

/-- the killed letters after eliminating the generators `gone` -/
def goneSet (K0 : Set ℕ) (gone : List Nat) : Set ℕ := K0 ∪ {k | k ∈ gone}

theorem elimLoop_none {fuel : Nat} {rels : List (List Int)} {gone : List Nat}
    (h : SpecC09.findElim rels = none) : SpecC09.elimLoop (fuel + 1) rels gone = (rels, gone) := by
  unfold SpecC09.elimLoop
  rw [h]

theorem elimLoop_some {fuel : Nat} {rels : List (List Int)} {gone : List Nat} {w : List Int} {y : Int}
    (h : SpecC09.findElim rels = some (w, y)) :
    SpecC09.elimLoop (fuel + 1) rels gone =
      SpecC09.elimLoop fuel (SpecC09.normRels (rels.map (SpecC09.subst y.natAbs
        (if y > 0 then SpecC09.inv (w.drop (w.idxOf y + 1) ++ w.take (w.idxOf y))
          else w.drop (w.idxOf y + 1) ++ w.take (w.idxOf y))))) (y.natAbs :: gone) := by
  rw [SpecC09.elimLoop, h]

theorem elimLoop_iso (K0 : Set ℕ) : ∀ (fuel : Nat) (rels : List (List Int)) (gone : List Nat),
    Live (goneSet K0 gone) rels →
    Nonempty (PresentedGroup (PRel (goneSet K0 gone) rels) ≃*
      PresentedGroup (PRel (goneSet K0 (SpecC09.elimLoop fuel rels gone).2)
        (SpecC09.elimLoop fuel rels gone).1)) ∧
    Live (goneSet K0 (SpecC09.elimLoop fuel rels gone).2) (SpecC09.elimLoop fuel rels gone).1
  | 0, rels, gone, h => ⟨⟨MulEquiv.refl _⟩, h⟩
  | fuel + 1, rels, gone, h => by
    cases hfe : SpecC09.findElim rels with
    | none => rw [elimLoop_none hfe]; exact ⟨⟨MulEquiv.refl _⟩, h⟩
    | some p =>
      obtain ⟨w, y⟩ := p
      rw [elimLoop_some hfe]
      obtain ⟨hw, hsl⟩ := findElim_spec hfe
      obtain ⟨hy, hc⟩ := singleLetter_spec hsl
      obtain ⟨hsplit, ha, hb⟩ := split_single hy hc
      have hylive := h w hw y hy
      have hx1 : 1 ≤ y.natAbs := by have := hylive.1; omega
      set a := w.take (w.idxOf y) with ha_def
      set b := w.drop (w.idxOf y + 1) with hb_def
      set K := goneSet K0 gone with hK
      -- the word for x
      have hu : ∀ z ∈ (if y > 0 then SpecC09.inv (b ++ a) else b ++ a), z.natAbs ≠ y.natAbs := by
        intro z hz
        split at hz
        · unfold SpecC09.inv at hz
          simp only [List.mem_map, List.mem_reverse] at hz
          obtain ⟨t, ht, rfl⟩ := hz
          rw [Int.natAbs_neg]
          rcases List.mem_append.1 ht with h' | h'
          · exact hb t h'
          · exact ha t h'
        · rcases List.mem_append.1 hz with h' | h'
          · exact hb z h'
          · exact ha z h'
      have hulive : ∀ z ∈ (if y > 0 then SpecC09.inv (b ++ a) else b ++ a), z ≠ 0 ∧ z.natAbs ∉ K := by
        have hab : ∀ t ∈ b ++ a, t ≠ 0 ∧ t.natAbs ∉ K := by
          intro t ht
          apply h w hw t
          rw [hsplit]
          rcases List.mem_append.1 ht with h' | h'
          · exact List.mem_append_right _ (List.mem_cons_of_mem _ h')
          · exact List.mem_append_left _ h'
        intro z hz
        split at hz
        · unfold SpecC09.inv at hz
          simp only [List.mem_map, List.mem_reverse] at hz
          obtain ⟨t, ht, rfl⟩ := hz
          have := hab t ht
          rw [Int.natAbs_neg]
          exact ⟨by omega, this.2⟩
        · exact hab z hz
      have hrel : PresentedGroup.mk (PRel K rels) (den a * den [y] * den b) = 1 := by
        have : den w = den a * den [y] * den b := by
          conv_lhs => rw [hsplit]
          rw [den_append, den_cons, mul_assoc]
        rw [← this]
        exact PresentedGroup.one_of_mem (Or.inl ⟨w, hw, rfl⟩)
      have hxu : PresentedGroup.mk (PRel K rels) (FreeGroup.of y.natAbs) =
          PresentedGroup.mk (PRel K rels) (den (if y > 0 then SpecC09.inv (b ++ a) else b ++ a)) := by
        rw [map_mul, map_mul] at hrel
        by_cases hp : y > 0
        · rw [if_pos hp, den_specInv09, den_append, map_inv, map_mul]
          have hyv : den [y] = FreeGroup.of y.natAbs := by
            rw [den_letter, if_neg hylive.1, if_pos hp]
          rw [hyv] at hrel
          have e : PresentedGroup.mk (PRel K rels) (FreeGroup.of y.natAbs) =
              (PresentedGroup.mk (PRel K rels) (den a))⁻¹ * 1 *
                (PresentedGroup.mk (PRel K rels) (den b))⁻¹ := by
            rw [← hrel]; group
          rw [e]; group
        · rw [if_neg hp, den_append, map_mul]
          have hyv : den [y] = (FreeGroup.of y.natAbs)⁻¹ := by
            rw [den_letter, if_neg hylive.1, if_neg hp]
          rw [hyv, map_inv] at hrel
          have e : (PresentedGroup.mk (PRel K rels) (FreeGroup.of y.natAbs))⁻¹ =
              (PresentedGroup.mk (PRel K rels) (den a))⁻¹ * 1 *
                (PresentedGroup.mk (PRel K rels) (den b))⁻¹ := by
            rw [← hrel]; group
          rw [← inv_inv (PresentedGroup.mk (PRel K rels) (FreeGroup.of y.natAbs)), e]; group
      obtain ⟨e1⟩ := elim_iso K rels y.natAbs _ hx1 hylive.2 hu hxu
      have hKeq : K ∪ {y.natAbs} = goneSet K0 (y.natAbs :: gone) := by
        rw [hK]
        unfold goneSet
        ext k
        simp only [Set.mem_union, Set.mem_setOf_eq, Set.mem_singleton_iff, List.mem_cons]
        tauto
      have hlive1 : Live (goneSet K0 (y.natAbs :: gone))
          (rels.map (SpecC09.subst y.natAbs (if y > 0 then SpecC09.inv (b ++ a) else b ++ a))) := by
        rw [← hKeq]
        intro v hv z hz
        obtain ⟨w', hw', rfl⟩ := List.mem_map.1 hv
        have hne := subst_xfree hu w' z hz
        rcases subst_letters hz with (h' | h') | h'
        · have := hulive z h'
          exact ⟨this.1, fun hk => by
            rcases hk with hk | hk
            · exact this.2 hk
            · exact hne hk⟩
        · have := hulive (-z) h'
          rw [Int.natAbs_neg] at this
          exact ⟨by omega, fun hk => by
            rcases hk with hk | hk
            · exact this.2 hk
            · exact hne hk⟩
        · have := h w' hw' z h'.1
          exact ⟨this.1, fun hk => by
            rcases hk with hk | hk
            · exact this.2 hk
            · exact hne hk⟩
      have hlive2 := live_normRels hlive1
      obtain ⟨⟨e3⟩, hl3⟩ := elimLoop_iso K0 fuel _ _ hlive2
      refine ⟨⟨?_⟩, hl3⟩
      have e2 : PresentedGroup (PRel (K ∪ {y.natAbs})
          (rels.map (SpecC09.subst y.natAbs (if y > 0 then SpecC09.inv (b ++ a) else b ++ a)))) ≃*
          PresentedGroup (PRel (goneSet K0 (y.natAbs :: gone)) (SpecC09.normRels
            (rels.map (SpecC09.subst y.natAbs (if y > 0 then SpecC09.inv (b ++ a) else b ++ a))))) :=
        presentedEquivOfEq (by rw [hKeq, normRels_ncl])
      exact (e1.trans e2).trans e3

/-! ### renumbering the remaining generators -/

theorem getD_eq_getElem' (l : List Nat) (n : Nat) (h : n < l.length) : l.getD n 0 = l[n] :=
  (List.getElem_eq_getD 0).symm

theorem zipIdx_fold_other (f : Array Nat → Nat × Nat → Array Nat)
    (hf : ∀ a x, f a x = a.setIfInBounds x.1 (x.2 + 1)) : ∀ (l : List Nat) (a : Array Nat) (off k : Nat),
    k ∉ l → ((l.zipIdx off).foldl f a).getD k 0 = a.getD k 0 ∧
      ((l.zipIdx off).foldl f a).size = a.size
  | [], a, _, _, _ => ⟨rfl, rfl⟩
  | x :: l, a, off, k, hk => by
    rw [List.zipIdx_cons, List.foldl_cons, hf]
    have hkx : k ≠ x := fun e => hk (e ▸ List.mem_cons_self)
    obtain ⟨h1, h2⟩ := zipIdx_fold_other f hf l (a.setIfInBounds x (off + 1)) (off + 1) k
      (fun h => hk (List.mem_cons_of_mem _ h))
    refine ⟨?_, by rw [h2, Array.size_setIfInBounds]⟩
    rw [h1]
    simp only [Array.getD_eq_getD_getElem?, Array.getElem?_setIfInBounds]
    have : ¬ x = k := fun e => hkx e.symm
    simp [this]

theorem zipIdx_fold_get (f : Array Nat → Nat × Nat → Array Nat)
    (hf : ∀ a x, f a x = a.setIfInBounds x.1 (x.2 + 1)) : ∀ (l : List Nat) (a : Array Nat) (off : Nat),
    l.Nodup → (∀ x ∈ l, x < a.size) → ∀ m (hm : m < l.length),
    ((l.zipIdx off).foldl f a).getD l[m] 0 = off + m + 1
  | [], _, _, _, _, m, hm => by simp at hm
  | x :: l, a, off, hnd, hsz, m, hm => by
    rw [List.zipIdx_cons, List.foldl_cons, hf]
    rw [List.nodup_cons] at hnd
    cases m with
    | zero =>
      simp only [List.getElem_cons_zero]
      rw [(zipIdx_fold_other f hf l _ (off + 1) x hnd.1).1]
      have hx := hsz x List.mem_cons_self
      simp only [Array.getD_eq_getD_getElem?, Array.getElem?_setIfInBounds]
      simp [hx]
    | succ m =>
      simp only [List.getElem_cons_succ]
      have := zipIdx_fold_get f hf l (a.setIfInBounds x (off + 1)) (off + 1) hnd.2
        (fun y hy => by rw [Array.size_setIfInBounds]; exact hsz y (List.mem_cons_of_mem _ hy))
        m (by simpa using hm)
      rw [this]
      omega

/-- **renumbering**: if `keep` lists the live generators and `idx (keep[m]) = m + 1`, renaming every
    letter `±k` to `±idx k` gives an isomorphic group on the generators `1 … keep.length` -/
theorem renumber_iso (K : Set ℕ) (rels : List (List Int)) (keep : List Nat) (idx : ℕ → ℕ)
    (hlive : Live K rels) (hkeep : ∀ k, k ∈ keep ↔ k ∉ K)
    (hidx : ∀ m (hm : m < keep.length), idx keep[m] = m + 1) :
    Nonempty (PresentedGroup (PRel K rels) ≃* PresentedGroup (MRel keep.length
      (rels.map (·.map fun y => if y > 0 then ((idx y.natAbs : Nat) : Int) else -((idx y.natAbs : Nat) : Int))))) := by
  classical
  let ren : Int → Int := fun y => if y > 0 then ((idx y.natAbs : Nat) : Int) else -((idx y.natAbs : Nat) : Int)
  let R := PRel K rels
  let R' := MRel keep.length (rels.map (·.map ren))
  have hpos : ∀ k ∈ keep, ∃ m, ∃ hm : m < keep.length, keep[m] = k ∧ idx k = m + 1 := by
    intro k hk
    obtain ⟨m, hm, he⟩ := List.getElem_of_mem hk
    exact ⟨m, hm, he, by rw [← he]; exact hidx m hm⟩
  -- α
  let fα : ℕ → PresentedGroup R' := fun k => if k ∈ keep then PresentedGroup.mk R' (FreeGroup.of (idx k)) else 1
  have hαlet : ∀ y : Int, y ≠ 0 → y.natAbs ∉ K →
      FreeGroup.lift fα (den [y]) = PresentedGroup.mk R' (den [ren y]) := by
    intro y hy0 hyK
    have hk : y.natAbs ∈ keep := (hkeep _).2 hyK
    obtain ⟨m, _, _, hm⟩ := hpos _ hk
    rw [den_letter, if_neg hy0]
    by_cases hp : 0 < y
    · rw [if_pos hp, FreeGroup.lift_apply_of]
      show (if y.natAbs ∈ keep then _ else _) = _
      rw [if_pos hk]
      show _ = PresentedGroup.mk R' (den [if y > 0 then _ else _])
      rw [if_pos hp, den_pos _ (by omega)]
    · rw [if_neg hp, map_inv, FreeGroup.lift_apply_of]
      show (if y.natAbs ∈ keep then _ else _)⁻¹ = _
      rw [if_pos hk]
      show _ = PresentedGroup.mk R' (den [if y > 0 then _ else _])
      rw [if_neg hp, den_neg _ (by omega), map_inv]
  have hαword : ∀ w : List Int, (∀ z ∈ w, z ≠ 0 ∧ z.natAbs ∉ K) →
      FreeGroup.lift fα (den w) = PresentedGroup.mk R' (den (w.map ren)) := by
    intro w
    induction w with
    | nil => intro _; simp [den_nil]
    | cons y w ih =>
      intro h
      rw [List.map_cons, den_cons, den_cons (ren y), map_mul, map_mul,
        ih (fun z hz => h z (List.mem_cons_of_mem _ hz)),
        hαlet y (h y List.mem_cons_self).1 (h y List.mem_cons_self).2]
  have hα : ∀ r ∈ R, FreeGroup.lift fα r = 1 := by
    rintro r (⟨w, hw, rfl⟩ | ⟨k, hk, rfl⟩)
    · rw [hαword w (hlive w hw)]
      exact PresentedGroup.one_of_mem (Or.inl ⟨_, List.mem_map_of_mem hw, rfl⟩)
    · rw [FreeGroup.lift_apply_of]
      show (if k ∈ keep then _ else _) = _
      rw [if_neg (fun h => (hkeep k).1 h hk)]
  let α : PresentedGroup R →* PresentedGroup R' := PresentedGroup.toGroup hα
  -- β
  let fβ : ℕ → PresentedGroup R := fun m =>
    if 1 ≤ m ∧ m ≤ keep.length then PresentedGroup.mk R (FreeGroup.of (keep.getD (m - 1) 0)) else 1
  have hβidx : ∀ k ∈ keep, fβ (idx k) = PresentedGroup.mk R (FreeGroup.of k) := by
    intro k hk
    obtain ⟨m, hm, he, hi⟩ := hpos k hk
    show (if 1 ≤ idx k ∧ idx k ≤ keep.length then _ else _) = _
    rw [hi, if_pos ⟨by omega, by omega⟩]
    have : keep.getD (m + 1 - 1) 0 = k := by
      rw [Nat.add_sub_cancel, getD_eq_getElem' _ _ hm, he]
    rw [this]
  have hβlet : ∀ y : Int, y ≠ 0 → y.natAbs ∉ K →
      FreeGroup.lift fβ (den [ren y]) = PresentedGroup.mk R (den [y]) := by
    intro y hy0 hyK
    have hk : y.natAbs ∈ keep := (hkeep _).2 hyK
    obtain ⟨m, _, _, hm⟩ := hpos _ hk
    rw [den_letter y, if_neg hy0]
    by_cases hp : 0 < y
    · show FreeGroup.lift fβ (den [if y > 0 then _ else _]) = _
      rw [if_pos hp, if_pos hp, den_pos _ (by omega), FreeGroup.lift_apply_of, hβidx _ hk]
    · show FreeGroup.lift fβ (den [if y > 0 then _ else _]) = _
      rw [if_neg hp, if_neg hp, den_neg _ (by omega), map_inv, FreeGroup.lift_apply_of, hβidx _ hk, map_inv]
  have hβword : ∀ w : List Int, (∀ z ∈ w, z ≠ 0 ∧ z.natAbs ∉ K) →
      FreeGroup.lift fβ (den (w.map ren)) = PresentedGroup.mk R (den w) := by
    intro w
    induction w with
    | nil => intro _; simp [den_nil]
    | cons y w ih =>
      intro h
      rw [List.map_cons, den_cons, den_cons y, map_mul, map_mul,
        ih (fun z hz => h z (List.mem_cons_of_mem _ hz)),
        hβlet y (h y List.mem_cons_self).1 (h y List.mem_cons_self).2]
  have hβ : ∀ r ∈ R', FreeGroup.lift fβ r = 1 := by
    rintro r (⟨v, hv, rfl⟩ | ⟨m, hm, rfl⟩)
    · obtain ⟨w, hw, rfl⟩ := List.mem_map.1 hv
      rw [hβword w (hlive w hw)]
      exact PresentedGroup.one_of_mem (Or.inl ⟨w, hw, rfl⟩)
    · rw [FreeGroup.lift_apply_of]
      show (if 1 ≤ m ∧ m ≤ keep.length then _ else _) = _
      rw [if_neg (by omega)]
  let β : PresentedGroup R' →* PresentedGroup R := PresentedGroup.toGroup hβ
  have h1 : β.comp α = MonoidHom.id _ := by
    apply PresentedGroup.ext
    intro k
    rw [MonoidHom.comp_apply, MonoidHom.id_apply]
    have : α (PresentedGroup.of k) = fα k := PresentedGroup.toGroup.of hα
    rw [this]
    show β (if k ∈ keep then _ else _) = _
    by_cases hk : k ∈ keep
    · rw [if_pos hk]
      show FreeGroup.lift fβ (FreeGroup.of (idx k)) = _
      rw [FreeGroup.lift_apply_of, hβidx k hk]
      rfl
    · rw [if_neg hk, map_one]
      have hkK : k ∈ K := by
        by_contra hc
        exact hk ((hkeep k).2 hc)
      exact (PresentedGroup.one_of_mem (Or.inr ⟨k, hkK, rfl⟩)).symm
  have h2 : α.comp β = MonoidHom.id _ := by
    apply PresentedGroup.ext
    intro m
    rw [MonoidHom.comp_apply, MonoidHom.id_apply]
    have : β (PresentedGroup.of m) = fβ m := PresentedGroup.toGroup.of hβ
    rw [this]
    show α (if 1 ≤ m ∧ m ≤ keep.length then _ else _) = _
    by_cases hm : 1 ≤ m ∧ m ≤ keep.length
    · rw [if_pos hm]
      have hlt : m - 1 < keep.length := by omega
      have hmem : keep.getD (m - 1) 0 ∈ keep := by
        rw [getD_eq_getElem' _ _ hlt]; exact List.getElem_mem hlt
      show FreeGroup.lift fα (FreeGroup.of _) = _
      rw [FreeGroup.lift_apply_of]
      show (if keep.getD (m - 1) 0 ∈ keep then _ else _) = _
      rw [if_pos hmem, getD_eq_getElem' _ _ hlt, hidx (m - 1) hlt]
      have : m - 1 + 1 = m := by omega
      rw [this]
      rfl
    · rw [if_neg hm, map_one]
      exact (PresentedGroup.one_of_mem (Or.inr ⟨m, by omega, rfl⟩)).symm
  exact ⟨MonoidHom.toMulEquiv α β h1 h2⟩

/-! ### `simplify` preserves the presented group -/

/-- **`SpecC09.simplify` is a sequence of Tietze moves**: for a presentation whose letters are
    generators `±1 … ±n`, the simplified presentation presents an isomorphic group -/
theorem simplify_iso (p : SpecC09.Pres)
    (hlive : ∀ w ∈ p.rels, ∀ z ∈ w, z ≠ 0 ∧ z.natAbs ≤ p.ngens) :
    Nonempty (PresentedGroup (MRel p.ngens p.rels) ≃*
      PresentedGroup (MRel (SpecC09.simplify p).ngens (SpecC09.simplify p).rels)) := by
  let K0 : Set ℕ := {k | k = 0 ∨ p.ngens < k}
  have hK0 : goneSet K0 [] = K0 := by
    unfold goneSet; ext k; simp
  have hlive0 : Live K0 p.rels := by
    intro w hw z hz
    have := hlive w hw z hz
    refine ⟨this.1, ?_⟩
    show ¬ (z.natAbs = 0 ∨ p.ngens < z.natAbs)
    omega
  have hlive1 : Live (goneSet K0 []) (SpecC09.normRels p.rels) := by
    rw [hK0]; exact live_normRels hlive0
  obtain ⟨⟨e2⟩, hlive2⟩ := elimLoop_iso K0 p.ngens (SpecC09.normRels p.rels) [] hlive1
  set E := SpecC09.elimLoop p.ngens (SpecC09.normRels p.rels) [] with hE
  let keep := ((List.range p.ngens).map (· + 1)).filter (!E.2.contains ·)
  let newIdx : Array Nat := keep.zipIdx.foldl
    (fun (a : Array Nat) (x : Nat × Nat) => a.setIfInBounds x.1 (x.2 + 1)) (Array.replicate (p.ngens + 1) 0)
  have hmemkeep : ∀ k, k ∈ keep ↔ (1 ≤ k ∧ k ≤ p.ngens) ∧ k ∉ E.2 := by
    intro k
    show k ∈ List.filter _ _ ↔ _
    rw [List.mem_filter, List.mem_map]
    simp only [List.mem_range, Bool.not_eq_true', List.contains_eq_mem, decide_eq_false_iff_not]
    constructor
    · rintro ⟨⟨a, ha, rfl⟩, h2⟩; exact ⟨⟨by omega, by omega⟩, h2⟩
    · rintro ⟨⟨h1, h2⟩, h3⟩; exact ⟨⟨k - 1, by omega, by omega⟩, h3⟩
  have hkeep : ∀ k, k ∈ keep ↔ k ∉ goneSet K0 E.2 := by
    intro k
    rw [hmemkeep]
    unfold goneSet
    show _ ↔ ¬ ((k = 0 ∨ p.ngens < k) ∨ k ∈ E.2)
    constructor
    · rintro ⟨⟨h1, h2⟩, h3⟩ (h | h)
      · omega
      · exact h3 h
    · intro h
      refine ⟨⟨?_, ?_⟩, fun h' => h (Or.inr h')⟩
      · by_contra hc; exact h (Or.inl (Or.inl (by omega)))
      · by_contra hc; exact h (Or.inl (Or.inr (by omega)))
  have hnd : keep.Nodup := by
    apply List.Nodup.filter
    exact List.Nodup.map (fun a b h => by simpa using h) List.nodup_range
  have hidx : ∀ m (hm : m < keep.length), newIdx.getD keep[m] 0 = m + 1 := by
    intro m hm
    have := zipIdx_fold_get (fun (a : Array Nat) (x : Nat × Nat) => a.setIfInBounds x.1 (x.2 + 1))
      (fun _ _ => rfl) keep (Array.replicate (p.ngens + 1) 0) 0 hnd (by
        intro x hx
        have := ((hmemkeep x).1 hx).1
        rw [Array.size_replicate]; omega) m hm
    simpa using this
  obtain ⟨e3⟩ := renumber_iso (goneSet K0 E.2) E.1 keep (fun k => newIdx.getD k 0) hlive2 hkeep hidx
  have hs : SpecC09.simplify p = ⟨keep.length, E.1.map (·.map fun y =>
      if y > 0 then ((newIdx.getD y.natAbs 0 : Nat) : Int) else -((newIdx.getD y.natAbs 0 : Nat) : Int))⟩ := rfl
  rw [hs]
  have e0 : PresentedGroup (MRel p.ngens p.rels) ≃* PresentedGroup (PRel (goneSet K0 []) (SpecC09.normRels p.rels)) :=
    presentedEquivOfEq (by rw [MRel_eq_PRel, hK0, normRels_ncl])
  exact ⟨(e0.trans e2).trans e3⟩

end DSymVerif.FGP
