/-
Property C05, part 5: `cover_for_table` — the sheet map "trace the edge word through the coset
table" is compatible whenever the table is inverse-consistent (`row·g = row' ⇒ row'·g⁻¹ = row`,
images in range) and the words on the two sides of every edge are mutually inverse.
-/
import DSymVerif.Model.Covers
import DSymVerif.Proofs.Covers

namespace DSymVerif.Covers
open DSymVerif DSymVerif.DS

theorem invWord_cons (g : Int) (w : List Int) : invWord (g :: w) = invWord w ++ [-g] := by
  unfold invWord
  rw [List.map_cons, List.reverse_cons]

/-- the table is inverse-consistent with images in range -/
def Table.InvConsistent (t : Table) : Prop :=
  ∀ c g r, c < t.len → t.get c g = .ok (some r) → r < t.len ∧ t.get r (-g) = .ok (some c)

/-- the words on the two sides of each edge are formal inverses of each other (missing entry =
    empty word), or the edge is a mirror (`op_i d = d`, one word for both sides) and tracing its
    word twice returns to every row (the table satisfies the relator `w²`) -/
def EdgeWordsOk (s : DSymData) (t : Table) (e2w : EdgeWords) : Prop :=
  ∀ i d, i ≤ s.dim → 1 ≤ d → d ≤ s.size →
    wordOf e2w (s.dset.opU i d) i = invWord (wordOf e2w d i) ∨
    (s.dset.opU i d = d ∧ ∀ k, k < t.len → t.traceWord k (wordOf e2w d i ++ wordOf e2w d i) = .ok k)

namespace Table

/-- one letter of `trace_word` -/
def traceStep (t : Table) (acc : Outcome Nat) (g : Int) : Outcome Nat :=
  match acc with
  | .ok row =>
    (match t.get row g with
     | .ok (some r) => .ok r
     | _ => .panic)
  | o => o

theorem traceWord_eq (t : Table) (k : Nat) (w : List Int) :
    t.traceWord k w = w.foldl t.traceStep (.ok k) := rfl

theorem fold_not_ok (t : Table) (w : List Int) (o : Outcome Nat) (h : ∀ r, o ≠ .ok r) :
    w.foldl t.traceStep o = o := by
  induction w with
  | nil => rfl
  | cons g w ih =>
    rw [List.foldl_cons]
    have : t.traceStep o g = o := by
      cases o with
      | ok r => exact absurd rfl (h r)
      | err => rfl
      | panic => rfl
    rw [this]; exact ih

theorem traceWord_cons_ok {t : Table} {k r : Nat} {g : Int} {w : List Int}
    (h : t.traceWord k (g :: w) = .ok r) :
    ∃ k1, t.get k g = .ok (some k1) ∧ t.traceWord k1 w = .ok r := by
  rw [traceWord_eq, List.foldl_cons] at h
  have hstep : t.traceStep (.ok k) g = match t.get k g with
      | .ok (some r) => .ok r
      | _ => .panic := rfl
  cases hg : t.get k g with
  | ok o =>
    cases o with
    | some k1 =>
      rw [hstep, hg] at h
      exact ⟨k1, rfl, h⟩
    | none =>
      rw [hstep, hg, fold_not_ok t w .panic (by intro r; simp)] at h; cases h
  | err =>
    rw [hstep, hg, fold_not_ok t w .panic (by intro r; simp)] at h; cases h
  | panic =>
    rw [hstep, hg, fold_not_ok t w .panic (by intro r; simp)] at h; cases h

theorem traceWord_append_ok {t : Table} {k k1 : Nat} {w1 w2 : List Int}
    (h : t.traceWord k w1 = .ok k1) : t.traceWord k (w1 ++ w2) = t.traceWord k1 w2 := by
  rw [traceWord_eq, List.foldl_append, ← traceWord_eq, h]
  rfl

theorem traceWord_single {t : Table} {k r : Nat} {g : Int} (h : t.get k g = .ok (some r)) :
    t.traceWord k [g] = .ok r := by
  rw [traceWord_eq]
  show t.traceStep (.ok k) g = _
  unfold traceStep
  simp only
  rw [h]

/-- tracing a word stays inside the table and is undone by tracing the inverse word -/
theorem traceWord_inv {t : Table} (ht : t.InvConsistent) :
    ∀ (w : List Int) (k r : Nat), k < t.len → t.traceWord k w = .ok r →
      r < t.len ∧ t.traceWord r (invWord w) = .ok k
  | [], k, r, hk, h => by
    have : r = k := by
      have h' : (Outcome.ok k : Outcome Nat) = .ok r := h
      cases h'; rfl
    subst this
    exact ⟨hk, rfl⟩
  | g :: w, k, r, hk, h => by
    obtain ⟨k1, hg, hw⟩ := traceWord_cons_ok h
    obtain ⟨hk1, hback⟩ := ht k g k1 hk hg
    obtain ⟨hr, hinv⟩ := traceWord_inv ht w k1 r hk1 hw
    refine ⟨hr, ?_⟩
    rw [invWord_cons, traceWord_append_ok hinv]
    exact traceWord_single hback

end Table

/-- what `allTracesDefined` says -/
theorem allTracesDefined_spec {s : DSymData} {t : Table} {e2w : EdgeWords}
    (h : allTracesDefined s t e2w = true) {k i d : Nat} (hk : k < t.len) (hi : i ≤ s.dim)
    (h1 : 1 ≤ d) (h2 : d ≤ s.size) : ∃ r, sheetTrace t e2w k i d = .ok r := by
  unfold allTracesDefined at h
  simp only [List.all_eq_true, List.mem_range, Bool.or_eq_true] at h
  have := h k hk i (by omega) (d - 1) (by omega)
  have hd : d - 1 + 1 = d := by omega
  rw [hd] at this
  rcases this with hn | ho
  · have : s.op i d = some (s.dset.opU i d) := opSimple_eq_some.2 ⟨hi, h1, h2, rfl⟩
    rw [this] at hn; cases hn
  · cases hr : sheetTrace t e2w k i d with
    | ok r => exact ⟨r, rfl⟩
    | err => rw [hr] at ho; cases ho
    | panic => rw [hr] at ho; cases ho

/-- **the sheet map of `cover_for_table` is compatible** -/
theorem sheetMap_compat (s : DSymData) (hs : ValidSet s.dset) (t : Table) (e2w : EdgeWords)
    (ht : t.InvConsistent) (he : EdgeWordsOk s t e2w) (hd : allTracesDefined s t e2w = true) :
    SheetCompat s.dset t.len (sheetMap t e2w) := by
  have key : ∀ k i d, k < t.len → i ≤ s.dim → 1 ≤ d → d ≤ s.size →
      ∃ r, t.traceWord k (wordOf e2w d i) = .ok r ∧ sheetMap t e2w k i d = r := by
    intro k i d hk hi h1 h2
    obtain ⟨r, hr⟩ := allTracesDefined_spec hd hk hi h1 h2
    refine ⟨r, hr, ?_⟩
    unfold sheetMap
    rw [hr]
  constructor
  · intro k i d hk hi h1 h2
    obtain ⟨r, hr, hm⟩ := key k i d hk hi h1 h2
    rw [hm]
    exact (Table.traceWord_inv ht _ k r hk hr).1
  · intro k i d hk hi h1 h2
    obtain ⟨r, hr, hm⟩ := key k i d hk hi h1 h2
    obtain ⟨hrl, hinv⟩ := Table.traceWord_inv ht _ k r hk hr
    have ho := hs.range i d hi h1 h2
    obtain ⟨r', hr', hm'⟩ := key r i (s.dset.opU i d) hrl hi ho.1 ho.2
    rw [hm, hm']
    rcases he i d hi h1 h2 with hw | ⟨hloop, htw⟩
    · rw [hw, hinv] at hr'
      cases hr'; rfl
    · rw [hloop] at hr'
      have := htw k hk
      rw [Table.traceWord_append_ok hr, hr'] at this
      cases this; rfl

theorem coverForTable_eq_cover {s : DSymData} {t : Table} {e2w : EdgeWords}
    (hd : allTracesDefined s t e2w = true) :
    coverForTable s t e2w = cover s t.len (sheetMap t e2w) := by
  unfold coverForTable
  rw [if_pos hd]

end DSymVerif.Covers
