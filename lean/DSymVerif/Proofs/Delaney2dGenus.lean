/-
Helper lemmas for property C08, part 27: the genus of the capped surface is not negative.
The oriented map of a connected weakly oriented symbol is connected, so Ree's inequality
(`Proofs/PermRee.lean`) gives `χ_top + #boundary components ≤ 2`; a connected symbol that is not
oriented has `χ_top ≤ 1` (its oriented cover is connected, closed, oriented, with twice the Euler
characteristic); hence the genus monitor is a theorem for connected symbols.
-/
import DSymVerif.Proofs.Delaney2dMapVertices
import DSymVerif.Proofs.PermRee
import DSymVerif.Proofs.CoversOriented
import DSymVerif.Proofs.CoversOrientedConn

namespace DSymVerif.D2
open DSymVerif.DS

theorem stepI_cover (y : DSymData) (d : Nat) {i j : Nat} (hi : i ≤ 2) (hj : j ≤ 2) :
    j = i ∨ j = stepI y d i ∨ j = stepI y d (stepI y d i) := by
  unfold stepI kplus
  have hi3 : i = 0 ∨ i = 1 ∨ i = 2 := by omega
  have hj3 : j = 0 ∨ j = 1 ∨ j = 2 := by omega
  cases hb : posB y d <;> rcases hi3 with rfl | rfl | rfl <;> rcases hj3 with rfl | rfl | rfl <;> simp

section
variable {y : DSymData} (h : ValidSym y) (hdim : y.dim = 2) (hw : y.view.isWeaklyOriented = true)

/-- the triangle dart `(d, i)` -/
def tI (y : DSymData) (d i : Nat) (hd : 1 ≤ d ∧ d ≤ y.size) (hi : i ≤ 2) : MapDart y :=
  .inl ⟨(d, i), mem_TS.2 ⟨hd, hi⟩⟩

include h hdim hw in
/-- **the map of a connected symbol is connected** -/
theorem map_connected (hc : y.view.isConnected = true) (t : Setoid (MapDart y))
    (hφ : ∀ x, t x (phiM h hdim hw x)) (hα : ∀ x, t x (alphaP h hdim x)) (x x' : MapDart y) : t x x' := by
  have S := @t.iseqv.symm
  have T := @t.iseqv.trans
  -- the darts of one triangle
  have htri : ∀ d (hd : 1 ≤ d ∧ d ≤ y.size) i j (hi : i ≤ 2) (hj : j ≤ 2), t (tI y d i hd hi) (tI y d j hd hj) := by
    intro d hd i j hi hj
    have hf := stepI_facts y d hi
    have hf2 := stepI_facts y d hf.1
    have s1 : t (tI y d i hd hi) (tI y d (stepI y d i) hd hf.1) := hφ (tI y d i hd hi)
    have s2 : t (tI y d (stepI y d i) hd hf.1) (tI y d (stepI y d (stepI y d i)) hd hf2.1) :=
      hφ (tI y d (stepI y d i) hd hf.1)
    rcases stepI_cover y d hi hj with e | e | e
    · subst e; exact t.iseqv.refl _
    · subst e; exact s1
    · subst e; exact T s1 s2
  -- neighbouring triangles
  have hnb : ∀ d (hd : 1 ≤ d ∧ d ≤ y.size) i (hi : i ≤ 2),
      t (tI y d 0 hd (by omega)) (tI y (y.dset.opU i d) 0
        (h.set.range i d (by show i ≤ y.dim; omega) hd.1 hd.2) (by omega)) := by
    intro d hd i hi
    have hr := h.set.range i d (by show i ≤ y.dim; omega) hd.1 hd.2
    by_cases hl : y.dset.opU i d = d
    · have : ∀ d' (hd' : 1 ≤ d' ∧ d' ≤ y.size), d' = d →
          tI y d' 0 hd' (by omega) = tI y d 0 hd (by omega) := by
        intro d' hd' e; subst e; rfl
      rw [this _ hr hl]
    · have a1 := htri d hd 0 i (by omega) hi
      have a2 : t (tI y d i hd hi) (tI y (y.dset.opU i d) i hr hi) := by
        have := hα (tI y d i hd hi)
        have e : alphaP h hdim (tI y d i hd hi) = tI y (y.dset.opU i d) i hr hi := by
          show alphaF h hdim (tI y d i hd hi) = _
          unfold tI
          simp only [alphaF, dif_neg hl]
        rwa [e] at this
      exact T a1 (T a2 (htri _ hr i 0 hi (by omega)))
  -- all triangles
  have hpin : y.view.PInvol := by rw [y.view_eq]; exact h.set.pinvol
  have hreach : ∀ d, y.view.Reach y.view.indices 1 d → ∀ (h1 : 1 ≤ 1 ∧ 1 ≤ y.size) (hd : 1 ≤ d ∧ d ≤ y.size),
      t (tI y 1 0 h1 (by omega)) (tI y d 0 hd (by omega)) := by
    intro d hr
    induction hr with
    | refl => intro h1 hd; exact t.iseqv.refl _
    | @step e c i _ hi hop ih =>
      intro h1 hc'
      obtain ⟨hi', he1, he2, hce⟩ := opSimple_eq_some.1 hop
      have hi2 : i ≤ 2 := by have : i ≤ y.dim := hi'; omega
      have := hnb e ⟨he1, he2⟩ i hi2
      have hcc : c = y.dset.opU i e := hce.symm
      subst hcc
      exact T (ih h1 ⟨he1, he2⟩) this
  have hall : ∀ d (hd : 1 ≤ d ∧ d ≤ y.size) (h1 : 1 ≤ 1 ∧ 1 ≤ y.size),
      t (tI y 1 0 h1 (by omega)) (tI y d 0 hd (by omega)) := fun d hd h1 =>
    hreach d ((isConnected_iff hpin).1 hc d hd.1 hd.2) h1 hd
  -- every dart is related to the first triangle
  have hany : ∀ x : MapDart y, ∃ (h1 : 1 ≤ 1 ∧ 1 ≤ y.size), t (tI y 1 0 h1 (by omega)) x := by
    intro x
    cases x with
    | inl x =>
      obtain ⟨hd, hi⟩ := mem_TS.1 x.2
      have h1 : 1 ≤ 1 ∧ 1 ≤ y.size := ⟨Nat.le_refl 1, by omega⟩
      exact ⟨h1, T (hall x.1.1 hd h1) (htri x.1.1 hd 0 x.1.2 (by omega) hi)⟩
    | inr δ =>
      obtain ⟨⟨hj, _, _, h4, h5, _⟩, _⟩ := mem_PS.1 δ.2
      have h1 : 1 ≤ 1 ∧ 1 ≤ y.size := ⟨Nat.le_refl 1, by omega⟩
      have a := hα (.inr δ)
      have e : alphaP h hdim (.inr δ) = tI y δ.1.2.2 δ.1.1 ⟨h4, h5⟩ hj := rfl
      rw [e] at a
      exact ⟨h1, T (hall _ ⟨h4, h5⟩ h1) (T (htri _ ⟨h4, h5⟩ 0 _ (by omega) hj) (S a))⟩
  obtain ⟨h1, a⟩ := hany x
  obtain ⟨_, b⟩ := hany x'
  exact T (S a) b

include h hdim hw in
/-- **the capped surface of a connected weakly oriented symbol has χ ≤ 2** (its genus is not
    negative): `χ_top + #boundary components ≤ 2` -/
theorem chi_plus_boundaries_le_two (hc : y.view.isConnected = true) (rep : Rep)
    {bnds : List (List Nat)} (hb : traceBoundary ⟨y, rep⟩ = .ok bnds) :
    eulerCharacteristic ⟨y, rep⟩ + (bnds.length : Int) ≤ 2 := by
  obtain ⟨bnds', starts, hb', T⟩ := traceRecord_exists h hdim rep
  rw [hb] at hb'
  cases hb'
  have hcard : Fintype.card (MapDart y) = 3 * y.size + chainCount (typesOf y) := by
    rw [card_mapDart, card_PS, loops_eq_chains h hdim]
  have hedge := edge_count h hdim
  rw [Nat.add_assoc, Nat.add_assoc, ← Nat.add_assoc (loopsN y 0), loops_eq_chains h hdim] at hedge
  set E := (3 * y.size + chainCount (typesOf y)) / 2 with hE
  have hzφ : PermRee.z (phiM h hdim hw) = y.size + bnds.length := by
    have : (PermRee.z (phiM h hdim hw) : ℚ) = ((y.size + bnds.length : Nat) : ℚ) := by
      rw [← PermRee.zQ_eq_z, zQ_phiM h hdim hw T]; push_cast; ring
    exact_mod_cast this
  have hzα : PermRee.z (alphaP h hdim) = E := by
    have : (PermRee.z (alphaP h hdim) : ℚ) = (E : ℚ) := by
      rw [← PermRee.zQ_eq_z, zQ_alpha, hcard]
      have : ((3 * y.size + chainCount (typesOf y) : Nat) : ℚ) = 2 * (E : ℚ) := by
        rw [← hedge]; push_cast; ring
      rw [this]; ring
    exact_mod_cast this
  have hzσ : PermRee.z (phiM h hdim hw * alphaP h hdim) = (typesOf y).length := by
    have : (PermRee.z (phiM h hdim hw * alphaP h hdim) : ℚ) = ((typesOf y).length : ℚ) := by
      rw [← PermRee.zQ_eq_z]; exact zQ_sigma h hdim hw
    exact_mod_cast this
  have hree := PermRee.ree (phiM h hdim hw) (alphaP h hdim) (map_connected h hdim hw hc)
  rw [hzφ, hzα, hzσ, hcard] at hree
  have hlen : looplessCount (typesOf y) + chainCount (typesOf y) = (typesOf y).length := by
    generalize typesOf y = ts
    induction ts with
    | nil => rfl
    | cons t ts ih =>
      unfold looplessCount chainCount at ih ⊢
      cases ht : t.2 <;> simp [ht] <;> omega
  have hχ := euler_value rep h hdim
  omega

end

open DSymVerif.SpecC08 (dq) in
/-- **a connected symbol that is not oriented has χ_top ≤ 1**: its oriented cover is a connected
    closed oriented double cover with twice the Euler characteristic -/
theorem chi_le_one_of_not_oriented {y : DSymData} {rep : Rep} (g : Good2d ⟨y, rep⟩) (hsz : 1 ≤ y.size)
    (hc : y.view.isConnected = true) (hno : y.view.isOriented = false) :
    eulerCharacteristic ⟨y, rep⟩ ≤ 1 := by
  have hval : ValidSym y := g.valid
  have hdim : y.dim = 2 := g.dim
  obtain ⟨c, hoc, dc⟩ := doubleCover_of_pkg hval hdim hsz g.complete hno
  have gc : Good2d ⟨c, .partialSym⟩ := ⟨dc.vc, dc.cdim, dc.ccomplete⟩
  obtain ⟨c', hoc', hori, _, _⟩ := DS.orientedCover_oriented y hval.toValidTables hsz (by omega)
  rw [hoc] at hoc'
  cases hoc'
  have hcc := DS.orientedCover_connected y hval.toValidTables hsz (by omega) hc hoc
  have hwc : c.view.isWeaklyOriented = true := by
    unfold View.isOriented at hori
    simp only [Bool.and_eq_true] at hori
    exact hori.2
  have htb := traceBoundary_nil_of_loopless dc.vc dc.cdim .partialSym dc.noloop
  have hle := chi_plus_boundaries_le_two dc.vc dc.cdim hwc hcc .partialSym htb
  simp only [List.length_nil, Nat.cast_zero, add_zero] at hle
  -- χ(c) = 2 χ(y) from the curvature
  obtain ⟨K, hK, hKv⟩ := curvature_euler g
  obtain ⟨K', hK', hKv'⟩ := curvature_euler gc
  obtain ⟨c2, hoc2, _, K1, K2, hK1, hK2, hrel⟩ := curvature_of_orientedCover rep g hsz
  rw [hoc] at hoc2
  cases hoc2
  rw [hK] at hK1; cases hK1
  rw [hK'] at hK2; cases hK2
  have hif : (if y.view.isOriented = true then (1 : ℚ) else 2) = 2 := by rw [hno]; simp
  rw [hif] at hrel
  have hall := types_loopless_of_oriented dc.vc dc.cdim hori
  have hcones : conesOf (typesOf c) = ((typesOf c).map (·.1)).filter (· > 1) :=
    (filter_fst_of_all_loopless _ hall).symm
  have hcorn : cornersOf (typesOf c) = [] := by
    unfold cornersOf
    rw [List.map_eq_nil_iff, List.filter_eq_nil_iff]
    intro t ht
    rw [hall t ht]; simp
  have hperm := cover_census dc
  rw [← hcones] at hperm
  have hsum : ((conesOf (typesOf c)).map dq).sum =
      ((conesOf (typesOf y)).map dq).sum + ((conesOf (typesOf y)).map dq).sum +
        ((cornersOf (typesOf y)).map dq).sum := by
    rw [(hperm.map dq).sum_eq, List.map_append, List.map_append, List.sum_append, List.sum_append]
  rw [hcorn, hsum] at hKv'
  simp only [List.map_nil, List.sum_nil, sub_zero] at hKv'
  have hq : ((eulerCharacteristic ⟨c, .partialSym⟩ : Int) : ℚ) = 2 * ((eulerCharacteristic ⟨y, rep⟩ : Int) : ℚ) := by
    have hKv2 : K.toRat = 2 * ((eulerCharacteristic ⟨y, rep⟩ : Int) : ℚ)
        - 2 * ((conesOf (typesOf y)).map dq).sum - ((cornersOf (typesOf y)).map dq).sum := hKv
    linarith
  have hz : eulerCharacteristic ⟨c, .partialSym⟩ = 2 * eulerCharacteristic ⟨y, rep⟩ := by
    exact_mod_cast hq
  omega

/-- a symbol with a mirror has a boundary component -/
theorem traceBoundary_ne_nil_of_loop {y : DSymData} (h : ValidSym y) (hdim : y.dim = 2) (rep : Rep)
    {i d : Nat} (hi : i ≤ 2) (hd : 1 ≤ d ∧ d ≤ y.size) (hl : y.dset.opU i d = d)
    {bnds : List (List Nat)} (hb : traceBoundary ⟨y, rep⟩ = .ok bnds) : bnds ≠ [] := by
  obtain ⟨bnds', starts, hb', T⟩ := traceRecord_exists h hdim rep
  rw [hb] at hb'
  cases hb'
  intro hnil
  have hlen := T.bnds_perm.length_eq
  rw [hnil, List.length_map] at hlen
  have hs : starts = [] := List.eq_nil_of_length_eq_zero hlen.symm
  have hmem := T.all i d hi hd.1 hd.2 hl
  rw [hs] at hmem
  simp [recM] at hmem

/-- **the genus monitor is a theorem for connected symbols**: on every connected good 2D symbol
    on which `orbifold_symbol` answers, `2 − χ_top − #boundaries` is even for orientable symbols
    and the symbol is closed without cross-cap exactly when the D-symbol is oriented -/
theorem genusMonitor_holds {s : Sym} (g : Good2d s) (hsz : 1 ≤ s.size)
    (hc : s.view.isConnected = true) {o : OrbSym} (hos : orbifoldSymbol s = .ok o) :
    genusMonitor s = true := by
  have hpar := parityMonitor_holds g hos
  obtain ⟨y, rep⟩ := s
  have hval : ValidSym y := g.valid
  have hdim : y.dim = 2 := g.dim
  have hc' : y.view.isConnected = true := hc
  obtain ⟨bnds, htb, _⟩ := traceBoundary_corners hval hdim rep
  have hos' := hos
  rw [orbifoldSymbol_unfold' g htb] at hos'
  split at hos'
  · cases hos'
  · rename_i hx
    have ho := (Outcome.ok.inj hos').symm
    unfold parityMonitor at hpar
    rw [htb, hos] at hpar
    unfold genusMonitor
    rw [htb, hos]
    simp only [Bool.and_eq_true]
    refine ⟨hpar, ?_⟩
    have hview : (⟨y, rep⟩ : Sym).view = y.view := rfl
    rw [hview]
    have hor : o.orientable = y.view.isWeaklyOriented := by rw [ho]; rfl
    have hcount : o.count = if y.view.isWeaklyOriented = true
        then (2 - (eulerCharacteristic ⟨y, rep⟩ + (bnds.length : Int))).toNat / 2
        else (2 - (eulerCharacteristic ⟨y, rep⟩ + (bnds.length : Int))).toNat := by rw [ho]; rfl
    have hpin : y.view.PInvol := by rw [y.view_eq]; exact hval.set.pinvol
    cases hori : y.view.isOriented with
    | true =>
      have hl := (((C02.isWeaklyOriented_iff_bipartite y.view hpin).2).1 hori).1
      have hlp : ∀ i d, i ≤ 2 → 1 ≤ d → d ≤ y.size → y.dset.opU i d ≠ d := by
        intro i d hi h1 h2 e
        have hop : y.view.op i d = some (y.dset.opU i d) :=
          opSimple_eq_some.2 ⟨by show i ≤ y.dim; omega, h1, h2, rfl⟩
        exact hl i d (by show i ≤ y.dim; omega) h1 h2 (by rw [hop, e])
      have hnil := traceBoundary_nil_of_loopless hval hdim rep hlp
      rw [htb] at hnil
      cases hnil
      have hw : y.view.isWeaklyOriented = true := by
        unfold View.isOriented at hori
        simp only [Bool.and_eq_true] at hori
        exact hori.2
      rw [hor, hw]; rfl
    | false =>
      rw [beq_iff_eq, Bool.and_eq_false_iff]
      cases hw : y.view.isWeaklyOriented with
      | true =>
        -- a mirror, hence a boundary component
        left
        have hnl : ¬ y.view.isLoopless = true := by
          intro hl
          unfold View.isOriented at hori
          rw [hl, hw] at hori
          cases hori
        rw [(C02.isComplete_isLoopless_iff y.view y.dset).2.1] at hnl
        push Not at hnl
        obtain ⟨i, d, hi, h1, h2, hop⟩ := hnl
        have hi2 : i ≤ 2 := by have : i ≤ y.dim := hi; omega
        have hl : y.dset.opU i d = d := (opSimple_eq_some.1 hop).2.2.2
        have hne := traceBoundary_ne_nil_of_loop hval hdim rep hi2 ⟨h1, h2⟩ hl htb
        cases bnds with
        | nil => exact absurd rfl hne
        | cons b bs => rfl
      | false =>
        have hχ := chi_le_one_of_not_oriented g hsz hc' hori
        cases bnds with
        | nil =>
          right
          rw [hor, hw, Bool.false_or, beq_eq_false_iff_ne, hcount, hw]
          simp only [Bool.false_eq_true, if_false, List.length_nil, Nat.cast_zero, add_zero]
          omega
        | cons b bs => left; rfl

/-- **`orbifold_symbol` answers** (its `2 − χ_top − #boundaries < 0` branch is not taken) on every
    connected good 2D symbol that is weakly oriented or has no mirror -/
theorem orbifoldSymbol_answers {s : Sym} (g : Good2d s) (hsz : 1 ≤ s.size)
    (hc : s.view.isConnected = true)
    (hcase : s.view.isWeaklyOriented = true ∨ s.view.isLoopless = true) :
    ∃ o, orbifoldSymbol s = .ok o := by
  obtain ⟨y, rep⟩ := s
  have hval : ValidSym y := g.valid
  have hdim : y.dim = 2 := g.dim
  have hc' : y.view.isConnected = true := hc
  obtain ⟨bnds, htb, _⟩ := traceBoundary_corners hval hdim rep
  rw [orbifoldSymbol_unfold' g htb]
  have hview : (⟨y, rep⟩ : Sym).view = y.view := rfl
  rw [hview] at hcase
  have hge : ¬ 2 - (eulerCharacteristic ⟨y, rep⟩ + (bnds.length : Int)) < 0 := by
    by_cases hw : y.view.isWeaklyOriented = true
    · have := chi_plus_boundaries_le_two hval hdim hw hc' rep htb
      omega
    · have hl : y.view.isLoopless = true := by
        rcases hcase with h1 | h1
        · exact absurd h1 hw
        · exact h1
      have hno : y.view.isOriented = false := by
        unfold View.isOriented
        rw [hl]; simpa using hw
      have hχ := chi_le_one_of_not_oriented g hsz hc' hno
      have hl' := ((C02.isComplete_isLoopless_iff y.view y.dset).2.1).1 hl
      have hlp : ∀ i d, i ≤ 2 → 1 ≤ d → d ≤ y.size → y.dset.opU i d ≠ d := by
        intro i d hi h1 h2 e
        have hop : y.view.op i d = some (y.dset.opU i d) :=
          opSimple_eq_some.2 ⟨by show i ≤ y.dim; omega, h1, h2, rfl⟩
        exact hl' i d (by show i ≤ y.dim; omega) h1 h2 (by rw [hop, e])
      have hnil := traceBoundary_nil_of_loopless hval hdim rep hlp
      rw [htb] at hnil
      cases hnil
      simp only [List.length_nil, Nat.cast_zero, add_zero]
      omega
  rw [if_neg hge]
  exact ⟨_, rfl⟩

end DSymVerif.D2
