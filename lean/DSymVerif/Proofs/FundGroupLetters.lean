/-
Helper lemmas for property C09, part 17 (for C05/C11/C12): every letter of every word returned by
`fundamental_group` is a generator `±1 … ±n`, `n = nr_generators` — i.e. lies in
`Cosets.allGensOf n`.  No validity hypothesis is needed.
-/
import DSymVerif.Proofs.FundGroupRel
import DSymVerif.Model.Cosets

namespace DSymVerif.FGP
open DSymVerif DSymVerif.DS DSymVerif.FG DSymVerif.FWP DSymVerif.SpecC10

/-- every letter is one of `±1 … ±n` -/
def LetIn (n : Nat) (w : List Int) : Prop := ∀ x ∈ w, 1 ≤ x.natAbs ∧ x.natAbs ≤ n

theorem letIn_mono {n n' : Nat} (h : n ≤ n') {w : List Int} (hw : LetIn n w) : LetIn n' w :=
  fun x hx => ⟨(hw x hx).1, (hw x hx).2.trans h⟩

theorem letIn_nil (n : Nat) : LetIn n [] := fun x hx => by cases hx

theorem letIn_append {n : Nat} {a b : List Int} (ha : LetIn n a) (hb : LetIn n b) : LetIn n (a ++ b) := by
  intro x hx
  rcases List.mem_append.1 hx with h | h
  · exact ha x h
  · exact hb x h

theorem mem_step {acc : List Int} {x y : Int} (h : y ∈ FW.step acc x) : y ∈ acc ∨ y = x := by
  unfold FW.step at h
  split at h
  · split at h
    · exact Or.inl (List.mem_cons_of_mem _ h)
    · split at h
      · rcases List.mem_cons.1 h with h | h
        · exact Or.inr h
        · exact Or.inl h
      · exact Or.inl h
  · split at h
    · simp only [List.mem_singleton] at h; exact Or.inr h
    · cases h

theorem mem_foldl_step : ∀ (w acc : List Int) (y : Int), y ∈ w.foldl FW.step acc → y ∈ acc ∨ y ∈ w
  | [], acc, y, h => Or.inl h
  | x :: w, acc, y, h => by
    rw [List.foldl_cons] at h
    rcases mem_foldl_step w _ y h with h | h
    · rcases mem_step h with h | h
      · exact Or.inl h
      · exact Or.inr (h ▸ List.mem_cons_self)
    · exact Or.inr (List.mem_cons_of_mem _ h)

theorem mem_normalized {w : List Int} {y : Int} (h : y ∈ FW.normalized w) : y ∈ w := by
  unfold FW.normalized at h
  rcases mem_foldl_step w [] y (List.mem_reverse.1 h) with h | h
  · cases h
  · exact h

theorem letIn_new {n : Nat} {w : List Int} (h : LetIn n w) : LetIn n (FW.new w) :=
  fun x hx => h x (mem_normalized hx)

theorem letIn_mulAssign {n : Nat} {a b : List Int} (ha : LetIn n a) (hb : LetIn n b) :
    LetIn n (FW.mulAssign a b) := letIn_new (letIn_append ha hb)

theorem letIn_mul {n : Nat} {a b : List Int} (ha : LetIn n a) (hb : LetIn n b) :
    LetIn n (FW.mul a b) := letIn_new (letIn_append ha hb)

theorem letIn_inverse {n : Nat} {a : List Int} (ha : LetIn n a) : LetIn n (FW.inverse a) := by
  apply letIn_new
  intro x hx
  simp only [List.mem_map, List.mem_reverse] at hx
  obtain ⟨y, hy, rfl⟩ := hx
  have := ha y hy
  rw [Int.natAbs_neg]
  exact this

theorem letIn_powNat {n : Nat} {a : List Int} (ha : LetIn n a) : ∀ k, LetIn n (FW.powNat a k)
  | 0 => letIn_nil n
  | k + 1 => letIn_mul (letIn_powNat ha k) ha

theorem letIn_raisedTo {n : Nat} {a : List Int} (ha : LetIn n a) (m : Int) :
    LetIn n (FW.raisedTo a m) := by
  unfold FW.raisedTo
  split
  · exact letIn_powNat (letIn_inverse ha) _
  · exact letIn_powNat ha _

theorem letIn_rotated {n : Nat} {a : List Int} (ha : LetIn n a) (i : Int) :
    LetIn n (FW.rotated a i) := by
  unfold FW.rotated
  simp only
  split
  · exact ha
  · apply letIn_new
    intro x hx
    rcases List.mem_append.1 hx with h | h
    · exact ha x (List.mem_of_mem_drop h)
    · exact ha x (List.mem_of_mem_take h)

theorem letIn_relRep {n : Nat} {a : List Int} (ha : LetIn n a) :
    LetIn n (FW.relatorRepresentative a) := by
  unfold FW.relatorRepresentative
  split
  · exact ha
  · have : ∀ (l : List Nat) (best : List Int), LetIn n best →
        LetIn n (l.foldl (fun best (i : Nat) =>
          let w := FW.rotated a (i : Int)
          let winv := FW.inverse w
          let best := if FW.lt winv best then winv else best
          if FW.lt w best then w else best) best) := by
      intro l
      induction l with
      | nil => intro best hb; exact hb
      | cons i l ih =>
        intro best hb
        rw [List.foldl_cons]
        apply ih
        simp only
        have hw := letIn_rotated ha (i : Int)
        by_cases h1 : FW.lt (FW.inverse (FW.rotated a (i : Int))) best = true
        · rw [if_pos h1]
          by_cases h2 : FW.lt (FW.rotated a (i : Int)) (FW.inverse (FW.rotated a (i : Int))) = true
          · rw [if_pos h2]; exact hw
          · rw [if_neg h2]; exact letIn_inverse hw
        · rw [if_neg h1]
          by_cases h2 : FW.lt (FW.rotated a (i : Int)) best = true
          · rw [if_pos h2]; exact hw
          · rw [if_neg h2]; exact hb
    exact this _ a ha

/-! ### the words stored by `find_generators` -/

theorem letIn_e2wGet {n : Nat} {m : E2W} (hm : ∀ p ∈ m, LetIn n p.2) (k : Edge) :
    LetIn n (e2wGet m k) := by
  unfold e2wGet
  cases hk : e2wGet? m k with
  | none => exact letIn_nil n
  | some w =>
    have : ∀ (m : E2W), (∀ p ∈ m, LetIn n p.2) → e2wGet? m k = some w → LetIn n w := by
      intro m
      induction m with
      | nil => intro _ h; simp [e2wGet?] at h
      | cons p rest ih =>
        intro hm h
        unfold e2wGet? at h
        split at h
        · injection h with h; rw [← h]; exact hm p List.mem_cons_self
        · exact ih (fun e he => hm e (List.mem_cons_of_mem _ he)) h
    exact this m hm hk

theorem letIn_insert {n : Nat} {m : E2W} (hm : ∀ p ∈ m, LetIn n p.2) {k : Edge} {w : List Int}
    (hw : LetIn n w) : ∀ p ∈ e2wInsert m k w, LetIn n p.2 := by
  intro p hp
  rcases mem_e2wInsert hp with rfl | hp
  · exact hw
  · exact hm p hp

theorem traceLoop_letIn {n : Nat} (ds : DSymData) {e2w : E2W} (hm : ∀ p ∈ e2w, LetIn n p.2)
    (d i j : Nat) : ∀ (fuel e : Nat) (res w : List Int), LetIn n res →
    traceLoop ds e2w d i j fuel e res = .ok w → LetIn n w
  | 0, _, _, _, _, h => by simp [traceLoop] at h
  | fuel + 1, e, res, w, hres, h => by
    unfold traceLoop at h
    simp only at h
    have h1 := letIn_mulAssign (letIn_mulAssign hres (letIn_e2wGet hm (e, i)))
      (letIn_e2wGet hm ((ds.op i e).getD e, j))
    split at h
    · injection h with h; rw [← h]; exact h1
    · exact traceLoop_letIn ds hm d i j fuel _ _ w h1 h

theorem traceWord_letIn {n : Nat} (ds : DSymData) {e2w : E2W} (hm : ∀ p ∈ e2w, LetIn n p.2)
    (d : Nat) (i j : Option Nat) (w : List Int) (h : traceWord ds e2w d i j = .ok w) : LetIn n w := by
  unfold traceWord at h
  split at h
  · exact traceLoop_letIn ds hm _ _ _ _ _ _ _ (letIn_nil n) h
  · injection h with h; rw [← h]; exact letIn_mulAssign (letIn_nil n) (letIn_e2wGet hm _)
  · injection h with h; rw [← h]; exact letIn_mulAssign (letIn_nil n) (letIn_e2wGet hm _)
  · injection h with h; rw [← h]; exact letIn_nil n

theorem applyGlued_letIn {n : Nat} (ds : DSymData) : ∀ (items : List Item) (e2w e2w' : E2W),
    (∀ p ∈ e2w, LetIn n p.2) → applyGlued ds e2w items = .ok e2w' → ∀ p ∈ e2w', LetIn n p.2
  | [], e2w, e2w', hm, h => by simp [applyGlued] at h; rw [← h]; exact hm
  | (e, i, j) :: rest, e2w, e2w', hm, h => by
    unfold applyGlued at h
    split at h
    · cases h
    · split at h
      · rename_i w hw
        have hwl := traceWord_letIn ds hm _ _ _ _ hw
        split at h
        · exact applyGlued_letIn ds rest _ _
            (letIn_insert (letIn_insert hm (letIn_inverse hwl)) hwl) h
        · exact applyGlued_letIn ds rest _ _ hm h
      · cases h
      · cases h

/-- keys `1..len` and all stored letters among `±1..±len` -/
structure LInv (st : GenState) : Prop where
  keys : st.g2e.map Prod.fst = List.range' 1 st.g2e.length
  words : ∀ p ∈ st.e2w, LetIn st.g2e.length p.2

theorem genStep_linv (ds : DSymData) (st st' : GenState) (d i : Nat) (hst : LInv st)
    (h : genStep ds st d i = .ok st') : LInv st' := by
  unfold genStep at h
  split at h
  · split at h
    · cases h
    · simp only at h
      split at h
      · split at h
        · rename_i e2w' hg
          injection h with h
          have hlt : ∀ p ∈ st.g2e, p.1 < st.g2e.length + 1 := by
            intro p hp
            have : p.1 ∈ st.g2e.map Prod.fst := List.mem_map_of_mem hp
            rw [hst.keys, List.mem_range'_1] at this
            omega
          have happ := g2eInsert_append st.g2e (st.g2e.length + 1) (d, i) hlt
          have hlen : (g2eInsert st.g2e (st.g2e.length + 1) (d, i)).length = st.g2e.length + 1 := by
            rw [happ]; simp
          have hletter : ∀ (x : Int), x.natAbs = st.g2e.length + 1 → LetIn (st.g2e.length + 1) [x] := by
            intro x hx y hy
            simp only [List.mem_singleton] at hy
            subst hy
            omega
          rw [← h]
          refine ⟨?_, ?_⟩
          · simp only
            rw [hlen, happ, List.map_append, hst.keys]
            simp [List.range'_concat]
            omega
          · simp only
            rw [hlen]
            refine applyGlued_letIn ds _ _ _ ?_ hg
            refine letIn_insert (letIn_insert (fun p hp => letIn_mono (Nat.le_succ _) (hst.words p hp))
              (letIn_new (hletter _ ?_))) (letIn_new (hletter _ ?_))
            · simp; omega
            · simp; omega
        · cases h
        · cases h
      · cases h
      · cases h
  · injection h with h; rw [← h]; exact hst

theorem genLoop_linv (ds : DSymData) : ∀ (fs : List Edge) (st st' : GenState), LInv st →
    genLoop ds st fs = .ok st' → LInv st'
  | [], st, st', hst, h => by simp [genLoop] at h; rw [← h]; exact hst
  | (d, i) :: rest, st, st', hst, h => by
    unfold genLoop at h
    split at h
    · rename_i st1 h1
      exact genLoop_linv ds rest st1 st' (genStep_linv ds st st1 d i hst h1) h
    · cases h
    · cases h

theorem findGenerators_letIn (ds : DSymData) (e2w : E2W) (g2e : G2E)
    (h : findGenerators ds = .ok (e2w, g2e)) : ∀ p ∈ e2w, LetIn g2e.length p.2 := by
  unfold findGenerators at h
  split at h
  · split at h
    · rename_i st hs
      injection h with h
      have := genLoop_linv ds _ _ st ⟨rfl, fun p hp => by cases hp⟩ hs
      have h1 : st.e2w = e2w := congrArg Prod.fst h
      have h2 : st.g2e = g2e := congrArg Prod.snd h
      rw [← h1, ← h2]; exact this.words
    · cases h
    · cases h
  · cases h
  · cases h

/-! ### relators and cones -/

theorem mem_allGensOf {n : Nat} {x : Int} (h : 1 ≤ x.natAbs ∧ x.natAbs ≤ n) :
    x ∈ Cosets.allGensOf n := by
  unfold Cosets.allGensOf
  rw [List.mem_append]
  rcases Int.natAbs_eq x with hx | hx
  · left
    exact List.mem_map.2 ⟨x.natAbs, List.mem_range'_1.2 (by omega), hx.symm⟩
  · right
    exact List.mem_map.2 ⟨x.natAbs, List.mem_range'_1.2 (by omega), hx.symm⟩

/-- **letters in range**: every letter of every relator, cone word and edge word of the returned
    value is in `Cosets.allGensOf f.nrGenerators` -/
theorem fundamentalGroup_letters (ds : DSymData) (f : FundGroup) (h : fundamentalGroup ds = .ok f) :
    (∀ w ∈ f.relators, ∀ x ∈ w, x ∈ Cosets.allGensOf f.nrGenerators) ∧
    (∀ c ∈ f.cones, ∀ x ∈ c.1, x ∈ Cosets.allGensOf f.nrGenerators) ∧
    (∀ k, ∀ x ∈ e2wGet f.edgeToWord k, x ∈ Cosets.allGensOf f.nrGenerators) ∧
    (∀ e ∈ f.edgeToWord, ∀ x ∈ e.2, x ∈ Cosets.allGensOf f.nrGenerators) := by
  have hw := findGenerators_letIn ds _ _ (fundamentalGroup_e2w h)
  have hh := fundamentalGroup_holds ds f h
  refine ⟨?_, ?_, ?_, ?_⟩
  · intro w hwm x hx
    obtain ⟨o, _, word, v, ⟨di, _, htr, _⟩, _, rfl⟩ := (hh.1 w).1 hwm
    exact mem_allGensOf (letIn_relRep (letIn_raisedTo (traceWord_letIn ds hw _ _ _ _ htr) _) x hx)
  · intro c hc x hx
    obtain ⟨o, _, word, v, ⟨di, _, htr, _⟩, _, rfl⟩ := (hh.2 c).1 hc
    exact mem_allGensOf (letIn_relRep (traceWord_letIn ds hw _ _ _ _ htr) x hx)
  · intro k x hx
    exact mem_allGensOf (letIn_e2wGet hw k x hx)
  · intro e he x hx
    exact mem_allGensOf (hw e he x hx)

end DSymVerif.FGP
