/-
C12 completeness, part 4: `compact()` of a clean table succeeds; the complete state at the end
of the path equals the target entry for entry, so the target is among the yielded tables.
-/
import DSymVerif.Proofs.LowIndexPath2

namespace DSymVerif.CanonP
open DSymVerif DSymVerif.Cosets DSymVerif.LowIndexP DSymVerif.CosetInvP DSymVerif.CosetPartP

/-! ### `compact()` of a clean table succeeds -/

theorem oldToNewGo_total {t : Table} (hcan : ∀ x, t.canon x = x) : ∀ (m a : Nat) (o2n : Array (Option Nat)),
    o2n.size = t.len → a + m ≤ t.len → (∀ i, a ≤ i → i < t.len → o2n[i]? = some none) →
    ∃ res, t.oldToNewGo (List.range' a m) (o2n, a) = .ok res
  | 0, a, o2n, _, _, _ => ⟨o2n, by simp [Table.oldToNewGo]⟩
  | m + 1, a, o2n, hs, hle, h2 => by
    simp only [List.range'_succ, Table.oldToNewGo, hcan]
    have ha : a < t.len := by omega
    rw [h2 a (Nat.le_refl _) ha]
    simp only []
    refine oldToNewGo_total hcan m (a + 1) _ (by simpa using hs) (by omega) ?_
    intro i hi hil
    rw [Array.getElem?_setIfInBounds]
    have e : ¬ a = i := by omega
    simp only [e, if_false]
    exact h2 i (by omega) hil

def WRes (res : Table) (n : Nat) : Prop :=
  res.nrGens = n ∧ ∀ (x : Nat) (row : Array Int), res.rows[x]? = some row → row.size = res.nrGens * 2 + 1

theorem compactRow_total {t : Table} (s : Shape t) {o2n : Array (Option Nat)}
    (hid : ∀ i, i < t.len → o2n[i]? = some (some i)) {k : Nat} (hk : k < t.len) :
    ∀ (gs : List Int) (res : Table), (∀ g ∈ gs, g ∈ t.allGens) → WRes res t.nrGens →
    ∃ res', t.compactRow o2n k gs res = .ok res' ∧ WRes res' t.nrGens
  | [], res, _, hw => ⟨res, rfl, hw⟩
  | g :: gs, res, hgs, hw => by
    simp only [Table.compactRow]
    have hg : g ∈ t.allGens := hgs g (by simp)
    rcases get_total s hk hg with h | ⟨c, h⟩
    · rw [h]
      exact compactRow_total s hid hk gs res (fun g' hg' => hgs g' (by simp [hg'])) hw
    · rw [h]
      simp only []
      rw [hid k hk, hid c (s.range k g c hg h)]
      simp only []
      have hgr : g ∈ res.allGens := by unfold Table.allGens at hg ⊢; rw [hw.1]; exact hg
      obtain ⟨res1, h1⟩ := set_succeeds hw.2 k hgr c
      rw [h1]
      simp only []
      exact compactRow_total s hid hk gs res1 (fun g' hg' => hgs g' (by simp [hg']))
        ⟨by rw [(set_ok h1).1]; exact hw.1, set_width h1 hw.2⟩

theorem compactRows_total {t : Table} (s : Shape t) (hcan : ∀ x, t.canon x = x) {o2n : Array (Option Nat)}
    (hid : ∀ i, i < t.len → o2n[i]? = some (some i)) :
    ∀ (ks : List Nat) (res : Table), (∀ k ∈ ks, k < t.len) → WRes res t.nrGens →
    ∃ res', t.compactRows o2n ks res = .ok res'
  | [], res, _, _ => ⟨res, rfl⟩
  | k :: ks, res, hks, hw => by
    simp only [Table.compactRows, hcan, if_true]
    obtain ⟨res1, h1, hw1⟩ := compactRow_total s hid (hks k (by simp)) t.allGens res (fun _ h => h) hw
    rw [h1]
    simp only []
    exact compactRows_total s hcan hid ks res1 (fun k' hk' => hks k' (by simp [hk'])) hw1

theorem compact_total {t : Table} (s : Shape t) (hcl : Clean t) : ∃ t', t.compact = .ok t' := by
  have hcan : ∀ x, t.canon x = x := canon_clean hcl
  unfold Table.compact
  have ho : ∃ o2n, t.oldToNew = .ok o2n := by
    unfold Table.oldToNew
    rw [List.range_eq_range']
    exact oldToNewGo_total hcan t.len 0 _ (by simp) (by omega) (fun i _ hi => by simp [hi])
  obtain ⟨o2n, ho⟩ := ho
  rw [ho]
  simp only []
  refine compactRows_total s hcan (oldToNew_clean hcan ho) _ _ (fun k hk => List.mem_range.mp hk) ⟨rfl, ?_⟩
  intro x row hx
  have hx0 : x = 0 := by
    by_contra hne
    have : (Table.new t.nrGens).rows.size = 1 := by simp [Table.new]
    have hlt : x < (Table.new t.nrGens).rows.size := by
      by_contra hge
      rw [Array.getElem?_eq_none (by omega)] at hx
      cases hx
    omega
  subst hx0
  simp [Table.new, blankRow] at hx
  subst hx
  simp [Table.new]

/-! ### the end of the path is the target -/

theorem mtrace_complete_sub {Q T : Table} (hs : Sub Q T) (sq : Shape Q)
    (hcomp : ∀ k, k < Q.len → ∀ g ∈ Q.allGens, ∃ d, Q.get k g = .ok (some d)) :
    ∀ (w : List Int) (r z : Nat), WordOK Q w → r < Q.len → mtrace T r w = some z → z < Q.len
  | [], r, z, _, hr, h => by simp only [mtrace, Option.some.injEq] at h; exact h ▸ hr
  | g :: w, r, z, hw, hr, h => by
    simp only [mtrace] at h
    have hg : g ∈ Q.allGens := hw g (by simp)
    obtain ⟨d, hd⟩ := hcomp r hr g hg
    rw [hs.2.2 r g d hg hd] at h
    simp only [] at h
    exact mtrace_complete_sub hs sq hcomp w d z (fun x hx => hw x (by simp [hx])) (sq.range r g d hg hd) h

section
variable {maxRows n : Nat} {rels R : List (List Int)}

/-- **the target is found**: every canonical complete standard table closed under the expanded
    relators is (entry for entry) one of the tables the model search yields -/
theorem target_found (hrot : RotClosed rels R)
    (hwr : ∀ w ∈ rels, ∀ x ∈ w, x ∈ allGensOf n) (hwR : ∀ u ∈ R, ∀ x ∈ u, x ∈ allGensOf n)
    {T : Table} (tg : Target maxRows n R T) :
    ∃ Q t', BT.Reach (btProblem n R maxRows) (.ok (Table.new n)) (.ok Q) ∧
      btExtract (.ok Q) = some (.ok t') ∧ t'.len = T.len ∧ t'.nrGens = n ∧
      ∀ k g d, k < T.len → g ∈ allGensOf n → T.get k g = .ok (some d) → t'.get k g = .ok (some d) := by
  have hcanT : ∀ x, T.canon x = x := canon_clean tg.clean
  have hroot : Sub (Table.new n) T := by
    refine ⟨tg.gens, ?_, ?_⟩
    · have := tg.tcq.shape.pos
      simp [Table.len, Table.new] at this ⊢
      exact this
    · intro c g d hg h
      rw [new_get n c (by simpa [Table.allGens, Table.new] using hg)] at h
      cases h
  obtain ⟨Q, hreach, sq, hsq, hfq⟩ := target_path hrot hwr hwR tg _ (Table.new n) (Nat.le_refl _)
    ⟨sinv_new maxRows n rels, cs_new n⟩ hroot
  have hcanQ : ∀ x, Q.canon x = x := canon_clean sq.1.clean
  have hcomp : ∀ k, k < Q.len → ∀ g ∈ Q.allGens, ∃ d, Q.get k g = .ok (some d) := by
    intro k hk g hg
    unfold firstFreeInTable at hfq
    exact firstFreeRows_none Q _ hfq k (List.mem_range.mpr hk) g hg
  have hlen : Q.len = T.len := by
    have h1 := hsq.2.1
    have h2 : T.len ≤ Q.len := by
      by_contra hlt
      have hc : Q.len < T.len := by omega
      obtain ⟨w, hw, htr⟩ := reach_of_tcq tg.tcq (hcanT Q.len) hc
      rw [hcanT 0] at htr
      have := mtrace_complete_sub hsq sq.1.tcq.shape hcomp w 0 Q.len
        (fun x hx => by rw [← hsq.allGens]; exact hw x hx) sq.1.tcq.shape.pos htr
      omega
    omega
  have hallc : AllComplete Q := fun c hc _ g hg => (get_some_iff Q c g).mp (hcomp c hc g hg)
  obtain ⟨t', hcmp⟩ := compact_total sq.1.tcq.shape sq.1.clean
  obtain ⟨c1, c2, _, _, c5⟩ := compact_clean sq.1.tcq sq.1.clean hallc hcmp
  refine ⟨Q, t', hreach, ?_, by rw [c1, hlen], by rw [c2, sq.1.gens], ?_⟩
  · simp only [btExtract, hfq, hcmp]
  · intro k g d hk hg hT
    have hgQ : g ∈ Q.allGens := by rw [sq.1.allGens]; exact hg
    obtain ⟨d', hd'⟩ := hcomp k (by omega) g hgQ
    have := hsq.2.2 k g d' hgQ hd'
    rw [hT] at this
    simp only [Outcome.ok.injEq, Option.some.injEq] at this
    subst this
    exact c5 k g d hgQ (by omega) hd'

end

end DSymVerif.CanonP
