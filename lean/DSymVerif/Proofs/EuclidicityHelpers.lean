/-
Property C17: what the helper functions of the euclidicity cascade compute.

`bad_subgroup_count`, `bad_subgroup_invariants` (Model/Euclidicity.lean: `Euc.badSubgroupCount`,
`Euc.badSubgroupInvariants`) in terms of the subgroups of the presented group `⟨1..n | rels⟩`:
the model of `coset_tables` lists a system of representatives of the conjugacy classes of
subgroups of index ≤ k (C12), the model of `stabilizer` presents the stabiliser of row 0 (C13),
the model of `abelian_invariants` returns its abelianisation (C14).
-/
import DSymVerif.Model.Euclidicity
import DSymVerif.Props.C12
import DSymVerif.Props.C13
import DSymVerif.Props.C14

namespace DSymVerif.EucP
open DSymVerif DSymVerif.Euc DSymVerif.Cosets DSymVerif.SpecC11 DSymVerif.CosetP DSymVerif.CosetSoundP
  DSymVerif.CosetInvP DSymVerif.CanonP DSymVerif.LowIndexP

/-- the relators are words over the letters `±1 … ±n` -/
def LettersOK (n : Nat) (rels : List (List Int)) : Prop := ∀ w ∈ rels, ∀ x ∈ w, x ∈ allGensOf n

theorem LettersOK.inRange {n : Nat} {rels : List (List Int)} (h : LettersOK n rels) :
    ∀ w ∈ rels, ∀ g ∈ w, Inv.InRange n g := by
  intro w hw g hg
  have := mem_allGensOf.mp (h w hw g hg)
  unfold Inv.InRange
  omega

/-! ### conjugacy of subgroups is an equivalence -/

theorem SubConj.refl {G : Type} [Group G] (H : Subgroup G) : SubConj H H :=
  ⟨1, fun x => by simp⟩

theorem SubConj.trans {G : Type} [Group G] {H K L : Subgroup G} (h1 : SubConj H K) (h2 : SubConj K L) :
    SubConj H L := by
  obtain ⟨y, hy⟩ := h1
  obtain ⟨z, hz⟩ := h2
  refine ⟨z * y, fun x => ?_⟩
  rw [hz, hy]
  have : y⁻¹ * (z⁻¹ * x * z) * y = (z * y)⁻¹ * x * (z * y) := by group
  rw [this]

/-- conjugate subgroups are isomorphic -/
noncomputable def SubConj.equiv {G : Type} [Group G] {H K : Subgroup G} (y : G)
    (hy : ∀ x, x ∈ K ↔ y⁻¹ * x * y ∈ H) : K ≃* H where
  toFun x := ⟨y⁻¹ * x.1 * y, (hy x.1).mp x.2⟩
  invFun x := ⟨y * x.1 * y⁻¹, (hy _).mpr (by
    have : y⁻¹ * (y * x.1 * y⁻¹) * y = x.1 := by group
    rw [this]; exact x.2)⟩
  left_inv x := by
    apply Subtype.ext
    show y * (y⁻¹ * x.1 * y) * y⁻¹ = x.1
    group
  right_inv x := by
    apply Subtype.ext
    show y⁻¹ * (y * x.1 * y⁻¹) * y = x.1
    group
  map_mul' a b := by
    apply Subtype.ext
    show y⁻¹ * (a.1 * b.1) * y = (y⁻¹ * a.1 * y) * (y⁻¹ * b.1 * y)
    group

theorem SubConj.nonempty_equiv {G : Type} [Group G] {H K : Subgroup G} (h : SubConj H K) :
    Nonempty (K ≃* H) := by
  obtain ⟨y, hy⟩ := h
  exact ⟨SubConj.equiv y hy⟩

theorem SubConj.index_eq {G : Type} [Group G] {H K : Subgroup G} (h : SubConj H K) :
    K.index = H.index := by
  obtain ⟨y, hy⟩ := h
  have : K = H.map (MulAut.conj y).toMonoidHom := by
    ext x
    rw [hy, Subgroup.mem_map]
    constructor
    · intro hx
      exact ⟨_, hx, by simp [MulAut.conj_apply]; group⟩
    · rintro ⟨z, hz, rfl⟩
      have : y⁻¹ * ((MulAut.conj y).toMonoidHom z) * y = z := by
        simp [MulAut.conj_apply]; group
      rw [this]; exact hz
  rw [this]
  exact Subgroup.index_map_equiv H (MulAut.conj y)

/-! ### systems of representatives of the classes of subgroups of index ≤ k -/

/-- `Hs` lists every conjugacy class of subgroups of index `1 … k` of `⟨1..n | rels⟩` exactly
    once -/
structure ClassReps (n : Nat) (rels : List (List Int)) (k : Nat) (Hs : List (Subgroup (G n rels))) : Prop where
  index : ∀ H ∈ Hs, H.index ≠ 0 ∧ H.index ≤ k
  irredundant : Hs.Pairwise (fun A B => ¬ SubConj A B)
  complete : ∀ H : Subgroup (G n rels), H.index ≠ 0 → H.index ≤ k → ∃ H' ∈ Hs, SubConj H H'

/-- two systems of representatives have the same length: the number of classes -/
theorem ClassReps.length_le {n : Nat} {rels : List (List Int)} {k : Nat}
    {Hs Ks : List (Subgroup (G n rels))} (hH : ClassReps n rels k Hs) (hK : ClassReps n rels k Ks) :
    Hs.length ≤ Ks.length := by
  classical
  -- every position of `Hs` is sent to a position of `Ks` holding a conjugate subgroup
  have hex : ∀ i : Fin Hs.length, ∃ j : Fin Ks.length, SubConj Hs[i] Ks[j] := by
    intro i
    obtain ⟨hi0, hik⟩ := hH.index Hs[i] (List.getElem_mem _)
    obtain ⟨K, hKm, hc⟩ := hK.complete Hs[i] hi0 hik
    obtain ⟨j, hj, rfl⟩ := List.getElem_of_mem hKm
    exact ⟨⟨j, hj⟩, hc⟩
  choose f hf using hex
  have hinj : Function.Injective f := by
    intro a b hab
    by_contra hne
    have hconj : SubConj Hs[a] Hs[b] := by
      have h1 := hf a
      have h2 := hf b
      rw [hab] at h1
      exact SubConj.trans h1 h2.symm
    rcases Nat.lt_or_gt_of_ne (fun h => hne (Fin.ext h)) with hlt | hgt
    · exact (List.pairwise_iff_getElem.mp hH.irredundant a.val b.val a.isLt b.isLt hlt) hconj
    · exact (List.pairwise_iff_getElem.mp hH.irredundant b.val a.val b.isLt a.isLt hgt) hconj.symm
  simpa using Fintype.card_le_of_injective f hinj

theorem ClassReps.length_eq {n : Nat} {rels : List (List Int)} {k : Nat}
    {Hs Ks : List (Subgroup (G n rels))} (hH : ClassReps n rels k Hs) (hK : ClassReps n rels k Ks) :
    Hs.length = Ks.length :=
  Nat.le_antisymm (hH.length_le hK) (hK.length_le hH)

/-! ### the subgroup of an item of `coset_tables` -/

/-- the stabiliser of row 0 of a view (⊥ when the view is not a valid table: never for an item) -/
noncomputable def subOfView (n : Nat) (rels : List (List Int)) (v : List (List Int)) : Subgroup (G n rels) :=
  open Classical in
  if hv : Valid (viewTab v) n rels [] then stab0 hv else ⊥

theorem subOfView_eq {n : Nat} {rels : List (List Int)} {v : List (List Int)}
    (hv : Valid (viewTab v) n rels []) : subOfView n rels v = stab0 hv := by
  unfold subOfView
  rw [dif_pos hv]

/-- the subgroup of an item yielded by the model of `coset_tables` -/
noncomputable def subOf (n : Nat) (rels : List (List Int)) : Outcome Table → Subgroup (G n rels)
  | .ok t =>
    (match t.view with
     | .ok v => subOfView n rels v
     | _ => ⊥)
  | _ => ⊥

theorem subOf_eq {n : Nat} {rels : List (List Int)} {t : Table} {v : List (List Int)}
    (hview : t.view = .ok v) (hv : Valid (viewTab v) n rels []) :
    subOf n rels (.ok t) = stab0 hv := by
  unfold subOf
  simp only [hview]
  exact subOfView_eq hv

/-- the tables the model of `coset_tables(n, rels, k)` yields (C12's fuel, which exhausts the
    search tree) -/
def tables (n : Nat) (rels : List (List Int)) (k : Nat) : List (Outcome Table) :=
  cosetTables n rels k (D3.nodeFuel n k)

/-- every item is a table with a valid view -/
theorem tables_ok {n : Nat} {rels : List (List Int)} (k : Nat) (hlet : LettersOK n rels) :
    ∀ x ∈ tables n rels k, ∃ (t : Table) (v : List (List Int)), x = .ok t ∧ t.view = .ok v ∧
      validTable (viewTab v) n rels [] = true ∧ (viewTab v).size ≤ max k 1 :=
  (C12.coset_tables_complete_irredundant_nofuel n rels k hlet).1

/-- **the subgroups of the items are a system of representatives** of the conjugacy classes of
    subgroups of index `1 … k` (C12 `coset_tables_subgroup_classes_nofuel`, as a list of
    subgroups) -/
theorem classReps_tables {n : Nat} {rels : List (List Int)} {k : Nat} (hk : 1 ≤ k) (hlet : LettersOK n rels) :
    ClassReps n rels k ((tables n rels k).map (subOf n rels)) := by
  obtain ⟨h1, h2, h3⟩ := C12.coset_tables_subgroup_classes_nofuel n rels k hlet
  have hmax : max k 1 = k := Nat.max_eq_left hk
  refine ⟨?_, ?_, ?_⟩
  · intro H hH
    obtain ⟨x, hx, rfl⟩ := List.mem_map.mp hH
    obtain ⟨t, v, hv, rfl, hview, hidx, hsz⟩ := h1 x hx
    rw [subOf_eq hview hv, hidx]
    exact ⟨Nat.pos_iff_ne_zero.mp hv.pos, by rw [hmax] at hsz; exact hsz⟩
  · rw [List.pairwise_map]
    refine List.Pairwise.imp_of_mem ?_ h2
    intro x y hx hy hxy
    obtain ⟨t1, v1, hv1, rfl, hview1, _, _⟩ := h1 x hx
    obtain ⟨t2, v2, hv2, rfl, hview2, _, _⟩ := h1 y hy
    rw [subOf_eq hview1 hv1, subOf_eq hview2 hv2]
    exact hxy t1 t2 v1 v2 hv1 hv2 rfl rfl hview1 hview2
  · intro H h0 hle
    obtain ⟨t, v, hv, hmem, hview, hc⟩ := h3 H h0 hle
    exact ⟨subOf n rels (.ok t), List.mem_map.mpr ⟨_, hmem, rfl⟩, by rw [subOf_eq hview hv]; exact hc⟩

/-! ### `bad_subgroup_count` -/

/-- the model of `bad_subgroup_count` returns, and reports whether the number of tables yielded by
    `coset_tables` differs from `expected` (the cap `take(expected + 1)` does not change that) -/
theorem badSubgroupCount_eq (fg : FG.FundGroup) (k e : Nat)
    (hlet : LettersOK fg.genToEdge.length fg.relators) :
    badSubgroupCount fg k e = .ok ((tables fg.genToEdge.length fg.relators k).length != e) := by
  have hok := tables_ok k hlet
  unfold badSubgroupCount
  simp only
  rw [show cosetTables fg.genToEdge.length fg.relators k (D3.nodeFuel fg.genToEdge.length k) =
    tables fg.genToEdge.length fg.relators k from rfl]
  have hmem : ∀ o ∈ (tables fg.genToEdge.length fg.relators k).take (e + 1), ∃ t, o = .ok t := by
    intro o ho
    obtain ⟨t, _, rfl, _⟩ := hok o (List.mem_of_mem_take ho)
    exact ⟨t, rfl⟩
  rw [if_neg, if_neg]
  rotate_left
  · intro h
    obtain ⟨o, ho, hm⟩ := List.any_eq_true.mp h
    obtain ⟨t, rfl⟩ := hmem o ho
    simp at hm
  · intro h
    obtain ⟨o, ho, hm⟩ := List.any_eq_true.mp h
    obtain ⟨t, rfl⟩ := hmem o ho
    simp at hm
  congr 1
  rw [List.length_take]
  by_cases h : (tables fg.genToEdge.length fg.relators k).length = e
  · simp [h]
  · have h0 : min (e + 1) (tables fg.genToEdge.length fg.relators k).length ≠ e := by omega
    have h1 : (min (e + 1) (tables fg.genToEdge.length fg.relators k).length != e) = true := by
      simpa using h0
    have h2 : ((tables fg.genToEdge.length fg.relators k).length != e) = true := by simpa using h
    rw [h1, h2]

/-- **badSubgroupCount_iff**: `bad_subgroup_count(fg, k, expected)` is `true` exactly when the
    number of conjugacy classes of subgroups of index `1 … k` of `⟨1..n | rels⟩` — the length of
    ANY system of representatives — differs from `expected` -/
theorem badSubgroupCount_iff (fg : FG.FundGroup) (k e : Nat) (hk : 1 ≤ k)
    (hlet : LettersOK fg.genToEdge.length fg.relators) :
    ∃ b, badSubgroupCount fg k e = .ok b ∧
      (∃ Hs, ClassReps fg.genToEdge.length fg.relators k Hs) ∧
      ∀ Hs, ClassReps fg.genToEdge.length fg.relators k Hs → (b = true ↔ Hs.length ≠ e) := by
  refine ⟨_, badSubgroupCount_eq fg k e hlet, ⟨_, classReps_tables hk hlet⟩, fun Hs hHs => ?_⟩
  have := hHs.length_eq (classReps_tables hk hlet)
  rw [List.length_map] at this
  rw [this]
  simp

/-! ### `bad_subgroup_invariants` -/

/-- `stabilizer` + `abelian_invariants` return on a valid table (C13 `stabilizer_total`, C14) -/
theorem stabilizerInvariants_ok {n : Nat} {rels : List (List Int)} {t : Tab}
    (hv : validTable t n rels [] = true) :
    ∃ gens srels inv, Stab.stabilizer 0 rels (Table.ofView n t) = .ok (gens, srels) ∧
      (∀ w ∈ srels, ∀ g ∈ w, Inv.InRange gens.length g) ∧
      Inv.abelianInvariants gens.length srels = .ok inv ∧ inv = SpecC14.expected gens.length srels ∧
      D3.stabilizerInvariants n rels t = .ok inv := by
  have hV := valid_of_validTable hv
  obtain ⟨gens, srels, hst⟩ := C13.stabilizer_total t n rels hv 0 hV.pos
  have hin : ∀ w ∈ srels, ∀ g ∈ w, Inv.InRange gens.length g :=
    fun w hw g hg => C13.stabilizer_relators_letters t n rels hv 0 hV.pos gens srels hst w hw g hg
  have hinv := C14.abelian_invariants_correct gens.length srels hin
  refine ⟨gens, srels, _, hst, hin, hinv, rfl, ?_⟩
  unfold D3.stabilizerInvariants
  have : Stab.stabilizer 0 rels (D3.tbl n t) = .ok (gens, srels) := hst
  rw [this]
  exact hinv

/-- what the invariants of an item say about its subgroup: the stabiliser of row 0 is presented by
    `⟨gens | srels⟩` (C13 `stabilizer_presentation_iso`) and its abelianisation is `Π ZMod d` over
    the returned list (C14 `abelianization_is_returned_list`) -/
theorem item_invariants {n : Nat} {rels : List (List Int)} {t : Tab}
    (hv : validTable t n rels [] = true) {inv : List Nat}
    (hinv : D3.stabilizerInvariants n rels t = .ok inv) :
    ∃ gens srels : List (List Int), SpecC14.expected gens.length srels = inv ∧
      Nonempty (PresentedGroup (relSet gens.length srels) ≃* stab0 (valid_of_validTable hv)) ∧
      Nonempty (Abelianization (stab0 (valid_of_validTable hv)) ≃* Multiplicative (Inv.ZL inv)) := by
  obtain ⟨gens, srels, inv', hst, hin, hai, hexp, hinv'⟩ := stabilizerInvariants_ok hv
  have hV := valid_of_validTable hv
  rw [hinv] at hinv'
  have e : inv = inv' := Outcome.ok.inj hinv'
  subst e
  obtain ⟨f, _, hrange, hinj⟩ := C13.stabilizer_presentation_iso t n rels hv 0 hV.pos gens srels hst
  have hr : f.range = stab0 hV := hrange
  have e1 : PresentedGroup (relSet gens.length srels) ≃* stab0 hV :=
    (MonoidHom.ofInjective hinj).trans (MulEquiv.subgroupCongr hr)
  obtain ⟨z⟩ := C14.abelianization_is_returned_list gens.length srels inv hin hai
  exact ⟨gens, srels, hexp.symm, ⟨e1⟩, ⟨(MulEquiv.abelianizationCongr e1).symm.trans z⟩⟩

/-- an item: a table whose view is a valid table -/
def ItemOK (n : Nat) (rels : List (List Int)) (x : Outcome Table) : Prop :=
  ∃ (t : Table) (v : List (List Int)), x = .ok t ∧ t.view = .ok v ∧ validTable (viewTab v) n rels [] = true

/-- the loop of `bad_subgroup_invariants` over a list of items -/
theorem go_spec (fg : FG.FundGroup) (ex : List Nat) :
    ∀ l : List (Outcome Table), (∀ x ∈ l, ItemOK fg.genToEdge.length fg.relators x) →
      ∃ b, badSubgroupInvariants.go fg ex l = .ok b ∧
        (b = true ↔ ∃ x ∈ l, ∃ t v inv, x = .ok t ∧ t.view = .ok v ∧
          D3.stabilizerInvariants fg.genToEdge.length fg.relators (viewTab v) = .ok inv ∧ inv ≠ ex)
  | [], _ => ⟨false, rfl, by simp⟩
  | x :: rest, h => by
    obtain ⟨t, v, rfl, hview, hvalid⟩ := h x (List.mem_cons_self ..)
    obtain ⟨_, _, inv, _, _, _, _, hinv⟩ := stabilizerInvariants_ok hvalid
    obtain ⟨b, hb, hiff⟩ := go_spec fg ex rest (fun y hy => h y (List.mem_cons_of_mem _ hy))
    have htab : D3.tabOf t = .ok (viewTab v) := by
      unfold D3.tabOf
      rw [hview]
      rfl
    by_cases hne : inv ≠ ex
    · refine ⟨true, ?_, ?_⟩
      · unfold badSubgroupInvariants.go
        simp only [htab, hinv]
        rw [if_pos hne]
      · simp only [true_iff]
        exact ⟨_, List.mem_cons_self .., t, v, inv, rfl, hview, hinv, hne⟩
    · refine ⟨b, ?_, ?_⟩
      · unfold badSubgroupInvariants.go
        simp only [htab, hinv]
        rw [if_neg hne]
        exact hb
      · rw [hiff]
        constructor
        · rintro ⟨y, hy, r⟩
          exact ⟨y, List.mem_cons_of_mem _ hy, r⟩
        · rintro ⟨y, hy, t', v', inv', hyt, hview', hinv', hne'⟩
          rcases List.mem_cons.mp hy with rfl | hy'
          · exfalso
            cases hyt
            rw [hview] at hview'
            cases hview'
            rw [hinv] at hinv'
            cases hinv'
            exact hne hne'
          · exact ⟨y, hy', t', v', inv', hyt, hview', hinv', hne'⟩

/-- **badSubgroupInvariants_iff**: `bad_subgroup_invariants(fg, k, expected)` returns; it is `true`
    exactly when some table yielded by `coset_tables(n, rels, k)` has a stabiliser whose
    `abelian_invariants` differ from `expected` -/
theorem badSubgroupInvariants_iff (fg : FG.FundGroup) (k : Nat) (ex : List Nat)
    (hlet : LettersOK fg.genToEdge.length fg.relators) :
    ∃ b, badSubgroupInvariants fg k ex = .ok b ∧
      (b = true ↔ ∃ x ∈ tables fg.genToEdge.length fg.relators k, ∃ t v inv, x = .ok t ∧ t.view = .ok v ∧
        D3.stabilizerInvariants fg.genToEdge.length fg.relators (viewTab v) = .ok inv ∧ inv ≠ ex) := by
  unfold badSubgroupInvariants
  refine go_spec fg ex _ (fun x hx => ?_)
  obtain ⟨t, v, rfl, hview, hvalid, _⟩ := tables_ok k hlet x hx
  exact ⟨t, v, rfl, hview, hvalid⟩

/-- **badSubgroupInvariants_subgroups** — in terms of the subgroups of `⟨1..n | rels⟩`:
    * `false`: EVERY subgroup of index `1 … k` has abelianisation `Π ZMod d` over `expected`
      (`ZMod 0 = ℤ`): each is conjugate, hence isomorphic, to the stabiliser of an item;
    * `true`: SOME subgroup `H` of index `1 … k` has a presentation `⟨gens | srels⟩ ≅ H` whose
      invariant factors by the determinantal-divisor definition (`SpecC14.expected`, the canonical
      list `abelian_invariants` returns) are a list other than `expected`, and
      `H^ab ≅ Π ZMod d` over that list. -/
theorem badSubgroupInvariants_subgroups (fg : FG.FundGroup) (k : Nat) (ex : List Nat) (hk : 1 ≤ k)
    (hlet : LettersOK fg.genToEdge.length fg.relators) :
    ∃ b, badSubgroupInvariants fg k ex = .ok b ∧
      (b = false → ∀ H : Subgroup (G fg.genToEdge.length fg.relators), H.index ≠ 0 → H.index ≤ k →
        Nonempty (Abelianization H ≃* Multiplicative (Inv.ZL ex))) ∧
      (b = true → ∃ (H : Subgroup (G fg.genToEdge.length fg.relators)) (inv : List Nat)
          (gens srels : List (List Int)),
        H.index ≠ 0 ∧ H.index ≤ k ∧ inv ≠ ex ∧ SpecC14.expected gens.length srels = inv ∧
        Nonempty (PresentedGroup (relSet gens.length srels) ≃* H) ∧
        Nonempty (Abelianization H ≃* Multiplicative (Inv.ZL inv))) := by
  obtain ⟨b, hb, hiff⟩ := badSubgroupInvariants_iff fg k ex hlet
  have hmax : max k 1 = k := Nat.max_eq_left hk
  refine ⟨b, hb, ?_, ?_⟩
  · intro hfalse H h0 hle
    obtain ⟨_, _, h3⟩ := C12.coset_tables_subgroup_classes_nofuel fg.genToEdge.length fg.relators k hlet
    obtain ⟨t, v, hv, hmem, hview, hc⟩ := h3 H h0 hle
    obtain ⟨t', v', ht', hview', hvalid, _⟩ := tables_ok k hlet _ hmem
    cases ht'
    rw [hview] at hview'
    cases hview'
    obtain ⟨_, _, inv, _, _, _, _, hinv⟩ := stabilizerInvariants_ok hvalid
    have hinvex : inv = ex := by
      by_contra hne
      have : b = true := hiff.mpr ⟨_, hmem, t, v, inv, rfl, hview, hinv, hne⟩
      rw [hfalse] at this
      cases this
    subst hinvex
    obtain ⟨_, _, _, _, ⟨z⟩⟩ := item_invariants hvalid hinv
    -- `H` is conjugate to the stabiliser of the item
    obtain ⟨e⟩ := SubConj.nonempty_equiv hc
    exact ⟨(MulEquiv.abelianizationCongr e.symm).trans z⟩
  · intro htrue
    obtain ⟨x, hx, t, v, inv, rfl, hview, hinv, hne⟩ := hiff.mp htrue
    obtain ⟨t', v', ht', hview', hvalid, hsz⟩ := tables_ok k hlet _ hx
    cases ht'
    rw [hview] at hview'
    cases hview'
    obtain ⟨gens, srels, hexp, he, hz⟩ := item_invariants hvalid hinv
    have hV := valid_of_validTable hvalid
    refine ⟨stab0 hV, inv, gens, srels, ?_, ?_, hne, hexp, he, hz⟩
    · rw [index_stab0]; exact Nat.pos_iff_ne_zero.mp hV.pos
    · rw [index_stab0]; rw [hmax] at hsz; exact hsz

/-! ### `bad_connected_components` -/

/-- what `bad_connected_components` can look at on one component -/
structure CompFacts where
  /-- `abelian_invariants` of the fundamental group of the component -/
  invars : List Nat
  /-- `bad_subgroup_invariants(&fg, 2, [0,0,0])` (consulted when `invars = [0,0,0]`) -/
  bad2 : Bool
  /-- `bad_subgroup_invariants(&fg, 5, [])` (consulted when `invars = []`) -/
  bad5 : Bool
  deriving DecidableEq, Repr

/-- the facts of the component of `d`: `subsymbol(ds, 0..ds.dim(), d)` (range as written in the
    code: exclusive), its fundamental group, its invariants, the two subgroup tests -/
def compFacts (s : DS.DSymData) (d : Nat) : Outcome CompFacts :=
  match subsymbol s (List.range s.dim) d with
  | .ok comp =>
    (match FG.fundamentalGroup comp with
     | .ok fg =>
       (match Inv.abelianInvariants fg.genToEdge.length fg.relators with
        | .ok invars =>
          (match badSubgroupInvariants fg 2 [0, 0, 0], badSubgroupInvariants fg 5 [] with
           | .ok b2, .ok b5 => .ok ⟨invars, b2, b5⟩
           | .panic, _ => .panic
           | _, .panic => .panic
           | _, _ => .err)
        | .err => .err
        | .panic => .panic)
     | .err => .err
     | .panic => .panic)
  | .err => .err
  | .panic => .panic

theorem compFacts_ok {s : DS.DSymData} {d : Nat} {c : CompFacts} (h : compFacts s d = .ok c) :
    ∃ comp fg, subsymbol s (List.range s.dim) d = .ok comp ∧ FG.fundamentalGroup comp = .ok fg ∧
      Inv.abelianInvariants fg.genToEdge.length fg.relators = .ok c.invars ∧
      badSubgroupInvariants fg 2 [0, 0, 0] = .ok c.bad2 ∧ badSubgroupInvariants fg 5 [] = .ok c.bad5 := by
  unfold compFacts at h
  split at h
  · rename_i comp hcomp
    split at h
    · rename_i fg hfg
      split at h
      · rename_i invars hinv
        split at h
        · rename_i b2 b5 h2 h5
          cases h
          exact ⟨comp, fg, hcomp, hfg, hinv, h2, h5⟩
        all_goals cases h
      all_goals cases h
    all_goals cases h
  all_goals cases h

/-- the loop of `bad_connected_components` on the facts of the components, `seen` = `seen_z3` -/
def ccBad : List CompFacts → Bool → Bool
  | [], _ => false
  | c :: cs, seen =>
    if c.invars = [0, 0, 0] then seen || c.bad2 || ccBad cs true
    else if c.invars = [] then c.bad5 || ccBad cs seen
    else true

theorem cc_go_eq (s : DS.DSymData) (c : Nat → CompFacts) :
    ∀ (l : List Nat) (seen : Bool), (∀ d ∈ l, compFacts s d = .ok (c d)) →
      badConnectedComponents.go s l seen = .ok (ccBad (l.map c) seen)
  | [], _, _ => rfl
  | d :: rest, seen, h => by
    obtain ⟨comp, fg, hcomp, hfg, hinv, h2, h5⟩ := compFacts_ok (h d (List.mem_cons_self ..))
    have ih := fun sn => cc_go_eq s c rest sn (fun e he => h e (List.mem_cons_of_mem _ he))
    unfold badConnectedComponents.go
    simp only [hcomp, hfg, hinv, List.map_cons, ccBad]
    by_cases hz : (c d).invars = [0, 0, 0]
    · rw [if_pos hz, if_pos hz]
      cases seen with
      | true => simp
      | false =>
        simp only [Bool.false_eq_true, if_false, h2, Bool.false_or]
        cases (c d).bad2 with
        | true => simp
        | false => simp [ih true]
    · rw [if_neg hz, if_neg hz]
      by_cases he : (c d).invars = []
      · rw [if_pos he, if_pos he]
        simp only [h5]
        cases (c d).bad5 with
        | true => simp
        | false => simp [ih seen]
      · rw [if_neg he, if_neg he]

/-- the components make the symbol "bad": one has an H₁ other than Z³ and the trivial one, or a
    homology-trivial one has a subgroup of index ≤ 5 with non-trivial homology, or an H₁ = Z³ one
    has a subgroup of index ≤ 2 with another homology, or two of them have H₁ = Z³ -/
def ComponentsBad (cs : List CompFacts) : Prop :=
  (∃ c ∈ cs, c.invars ≠ [0, 0, 0] ∧ c.invars ≠ []) ∨
  (∃ c ∈ cs, c.invars = [] ∧ c.bad5 = true) ∨
  (∃ c ∈ cs, c.invars = [0, 0, 0] ∧ c.bad2 = true) ∨
  2 ≤ (cs.filter (fun c => decide (c.invars = [0, 0, 0]))).length

theorem ccBad_iff : ∀ (cs : List CompFacts) (seen : Bool),
    ccBad cs seen = true ↔ ComponentsBad cs ∨
      (seen = true ∧ 1 ≤ (cs.filter (fun c => decide (c.invars = [0, 0, 0]))).length)
  | [], seen => by simp [ccBad, ComponentsBad]
  | c :: cs, seen => by
    unfold ccBad ComponentsBad
    by_cases hz : c.invars = [0, 0, 0]
    · have hne : c.invars ≠ [] := by rw [hz]; simp
      rw [if_pos hz]
      simp only [Bool.or_eq_true, ccBad_iff cs true, ComponentsBad, List.mem_cons, exists_eq_or_imp, hz,
        List.filter_cons, decide_true, if_true, List.length_cons]
      cases seen
      · simp
        grind
      · simp
    · rw [if_neg hz]
      by_cases he : c.invars = []
      · rw [if_pos he]
        simp only [Bool.or_eq_true, ccBad_iff cs seen, ComponentsBad, List.mem_cons, exists_eq_or_imp, he,
          List.filter_cons]
        simp
        grind
      · rw [if_neg he]
        simp only [List.mem_cons, exists_eq_or_imp]
        simp [hz, he]

/-- **badConnectedComponents_iff**: if the facts of every component are computed (`compFacts`
    returns on the representative of every component, `c d` being its value), then
    `bad_connected_components` returns, and returns `true` exactly when the components are bad
    (`ComponentsBad`).  NB: the "components" are the orbits of `0..ds.dim()` — EXCLUSIVE — of the
    component representatives, as in the code. -/
theorem badConnectedComponents_iff (s : DS.DSymData) (c : Nat → CompFacts)
    (h : ∀ d ∈ s.view.orbitReps s.view.indices s.view.elements, compFacts s d = .ok (c d)) :
    ∃ b, badConnectedComponents s = .ok b ∧
      (b = true ↔ ComponentsBad ((s.view.orbitReps s.view.indices s.view.elements).map c)) := by
  refine ⟨_, cc_go_eq s c _ false h, ?_⟩
  rw [ccBad_iff]
  simp

/-! ### no relators: the free group -/

theorem relSet_nil (n : Nat) : relSet n [] = ∅ := by
  ext x
  simp [relSet]

/-- `⟨1..n | ⟩` is the free group of rank `n` -/
noncomputable def presentedNilEquiv (n : Nat) : PresentedGroup (relSet n []) ≃* FreeGroup (Fin n) :=
  (QuotientGroup.quotientMulEquivOfEq (by rw [relSet_nil, Subgroup.normalClosure_empty])).trans
    QuotientGroup.quotientBot

end DSymVerif.EucP
