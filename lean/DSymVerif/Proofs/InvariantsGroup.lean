/-
The group meaning of the relation matrix:
`Abelianization (PresentedGroup (relSet n rels))` is `ℤⁿ` modulo the row lattice of the exponent-sum
matrix of the relators.
-/
import DSymVerif.Proofs.InvariantsMeta
import DSymVerif.Proofs.CosetAction
import Mathlib.GroupTheory.Abelianization.Defs
import Mathlib.LinearAlgebra.StdBasis
import Mathlib.LinearAlgebra.Matrix.ToLin

namespace DSymVerif.Inv
open DSymVerif.SpecC14 DSymVerif.CosetP Matrix

noncomputable section

/-! ### exponent sums as vectors -/

/-- exponent-sum vector of a word as a function on `Fin n` -/
def evec (n : ℕ) (w : List ℤ) : Fin n → ℤ := fun i => expSum i.val w

/-- contribution of one letter -/
def lvec (n : ℕ) (g : ℤ) : Fin n → ℤ := fun i => lv i.val g

theorem evec_nil (n : ℕ) : evec n [] = 0 := by
  funext i; simp [evec, expSum_nil]

theorem evec_cons (n : ℕ) (g : ℤ) (w : List ℤ) : evec n (g :: w) = lvec n g + evec n w := by
  funext i; simp [evec, lvec, expSum_cons]

theorem lvec_pos (n : ℕ) (g : ℤ) (h : 1 ≤ g ∧ g ≤ n) :
    lvec n g = Pi.single (⟨g.toNat - 1, by omega⟩ : Fin n) 1 := by
  funext i
  simp only [lvec, lv, Pi.single_apply, Fin.ext_iff]
  split_ifs <;> omega

theorem lvec_neg (n : ℕ) (g : ℤ) (h : ¬ (1 ≤ g ∧ g ≤ n)) (h' : 1 ≤ -g ∧ -g ≤ n) :
    lvec n g = - Pi.single (⟨(-g).toNat - 1, by omega⟩ : Fin n) 1 := by
  funext i
  simp only [lvec, lv, Pi.neg_apply, Pi.single_apply, Fin.ext_iff]
  split_ifs <;> omega

theorem lvec_out (n : ℕ) (g : ℤ) (h : ¬ (1 ≤ g ∧ g ≤ n)) (h' : ¬ (1 ≤ -g ∧ -g ≤ n)) :
    lvec n g = 0 := by
  funext i
  have := i.isLt
  simp only [lvec, lv, Pi.zero_apply]
  split_ifs <;> omega

/-! ### the row lattice -/

/-- `c ↦ c ᵥ* A` -/
def rowHom {r n : ℕ} (A : Matrix (Fin r) (Fin n) ℤ) : (Fin r → ℤ) →+ (Fin n → ℤ) where
  toFun c := c ᵥ* A
  map_zero' := Matrix.zero_vecMul A
  map_add' x y := Matrix.add_vecMul A x y

/-- the lattice spanned by the rows of `A` -/
def rowSpan {r n : ℕ} (A : Matrix (Fin r) (Fin n) ℤ) : AddSubgroup (Fin n → ℤ) := (rowHom A).range

theorem row_mem_rowSpan {r n : ℕ} (A : Matrix (Fin r) (Fin n) ℤ) (i : Fin r) : A i ∈ rowSpan A := by
  refine ⟨Pi.single i 1, ?_⟩
  show Pi.single i 1 ᵥ* A = A i
  rw [Matrix.single_vecMul, one_smul]; rfl

/-- the relation matrix of a presentation -/
def relMat (n : ℕ) (rels : List (List ℤ)) : Matrix (Fin rels.length) (Fin n) ℤ :=
  toMatrix (relMatrix n rels) rels.length n

theorem relMat_row (n : ℕ) (rels : List (List ℤ)) (i : Fin rels.length) :
    relMat n rels i = evec n rels[i] := by
  funext c
  simp only [relMat, toMatrix, evec]
  exact get_relMatrix n rels i.val c.val i.isLt c.isLt

/-! ### `Abelianization (PresentedGroup R) ≃ ℤⁿ / rows` -/

section
variable (n : ℕ) (rels : List (List ℤ))

/-- image of generator `i` in the quotient of `ℤⁿ` -/
def genQ (i : Fin n) : Multiplicative ((Fin n → ℤ) ⧸ rowSpan (relMat n rels)) :=
  Multiplicative.ofAdd (QuotientAddGroup.mk (Pi.single i 1))

theorem lift_genQ_letter (g : ℤ) :
    FreeGroup.lift (genQ n rels) (letterElt n g) =
      Multiplicative.ofAdd (QuotientAddGroup.mk (lvec n g)) := by
  unfold letterElt
  by_cases h : 1 ≤ g ∧ g ≤ n
  · rw [dif_pos h, FreeGroup.lift_apply_of, lvec_pos n g h]; rfl
  · rw [dif_neg h]
    by_cases h' : 1 ≤ -g ∧ -g ≤ n
    · rw [dif_pos h', map_inv, FreeGroup.lift_apply_of, lvec_neg n g h h']; rfl
    · rw [dif_neg h', map_one, lvec_out n g h h']; rfl

theorem lift_genQ_word (w : List ℤ) :
    FreeGroup.lift (genQ n rels) (wordElt n w) =
      Multiplicative.ofAdd (QuotientAddGroup.mk (evec n w)) := by
  induction w with
  | nil => rw [wordElt_nil, map_one, evec_nil]; rfl
  | cons g w ih =>
    rw [wordElt_cons, map_mul, ih, lift_genQ_letter, evec_cons]; rfl

theorem evec_mem_rowSpan (w : List ℤ) (hw : w ∈ rels) : evec n w ∈ rowSpan (relMat n rels) := by
  obtain ⟨i, hi, rfl⟩ := List.mem_iff_getElem.mp hw
  have := row_mem_rowSpan (relMat n rels) ⟨i, hi⟩
  rwa [relMat_row] at this

/-- `PresentedGroup → ℤⁿ / rows` -/
def toQuot : PresentedGroup (relSet n rels) →* Multiplicative ((Fin n → ℤ) ⧸ rowSpan (relMat n rels)) :=
  PresentedGroup.toGroup (f := genQ n rels) (by
    rintro x ⟨w, hw, rfl⟩
    rw [lift_genQ_word]
    have : (QuotientAddGroup.mk (evec n w) : (Fin n → ℤ) ⧸ rowSpan (relMat n rels)) = 0 :=
      (QuotientAddGroup.eq_zero_iff _).mpr (evec_mem_rowSpan n rels w hw)
    rw [this]; rfl)

/-- image of generator `i` in the abelianisation, additively -/
def genA (i : Fin n) : Additive (Abelianization (PresentedGroup (relSet n rels))) :=
  Additive.ofMul (Abelianization.of (PresentedGroup.of i))

/-- `ℤⁿ → Abelianization`, additively -/
def fromVec : (Fin n → ℤ) →+ Additive (Abelianization (PresentedGroup (relSet n rels))) :=
  ((Pi.basisFun ℤ (Fin n)).constr ℤ (genA n rels)).toAddMonoidHom

theorem fromVec_single (i : Fin n) : fromVec n rels (Pi.single i 1) = genA n rels i := by
  unfold fromVec
  have := (Pi.basisFun ℤ (Fin n)).constr_basis ℤ (genA n rels) i
  rw [Pi.basisFun_apply] at this
  exact this

/-- the class of a free-group element in the abelianisation, additively -/
def clsA : FreeGroup (Fin n) →* Multiplicative (Additive (Abelianization (PresentedGroup (relSet n rels)))) :=
  (MulEquiv.multiplicativeAdditive (H := Abelianization (PresentedGroup (relSet n rels)))).symm.toMonoidHom.comp
    (Abelianization.of.comp (PresentedGroup.mk (relSet n rels)))

theorem fromVec_letter (g : ℤ) :
    fromVec n rels (lvec n g) =
      Additive.ofMul (Abelianization.of (PresentedGroup.mk (relSet n rels) (letterElt n g))) := by
  unfold letterElt
  by_cases h : 1 ≤ g ∧ g ≤ n
  · rw [dif_pos h, lvec_pos n g h, fromVec_single]; rfl
  · rw [dif_neg h]
    by_cases h' : 1 ≤ -g ∧ -g ≤ n
    · rw [dif_pos h', lvec_neg n g h h', map_neg, fromVec_single, map_inv, map_inv]; rfl
    · rw [dif_neg h', lvec_out n g h h', map_zero, map_one, map_one]; rfl

theorem fromVec_word (w : List ℤ) :
    fromVec n rels (evec n w) =
      Additive.ofMul (Abelianization.of (PresentedGroup.mk (relSet n rels) (wordElt n w))) := by
  induction w with
  | nil => rw [evec_nil, map_zero, wordElt_nil, map_one, map_one]; rfl
  | cons g w ih =>
    rw [evec_cons, map_add, ih, fromVec_letter, wordElt_cons, map_mul, map_mul]; rfl

theorem fromVec_rows (v : Fin n → ℤ) (hv : v ∈ rowSpan (relMat n rels)) : fromVec n rels v = 0 := by
  obtain ⟨c, rfl⟩ := hv
  show fromVec n rels (c ᵥ* relMat n rels) = 0
  rw [Matrix.vecMul_eq_sum, map_sum]
  apply Finset.sum_eq_zero
  intro i _
  rw [map_zsmul, relMat_row, fromVec_word]
  have : PresentedGroup.mk (relSet n rels) (wordElt n rels[i]) = 1 := by
    apply (QuotientGroup.eq_one_iff _).mpr
    exact Subgroup.subset_normalClosure ⟨rels[i], List.getElem_mem i.isLt, rfl⟩
  rw [this, map_one]
  exact smul_zero _

/-- `ℤⁿ / rows → Abelianization`, additively -/
def fromQuot : (Fin n → ℤ) ⧸ rowSpan (relMat n rels) →+
    Additive (Abelianization (PresentedGroup (relSet n rels))) :=
  QuotientAddGroup.lift _ (fromVec n rels) (fun v hv => fromVec_rows n rels v hv)

/-- `Abelianization → ℤⁿ / rows`, additively -/
def toQuotA : Additive (Abelianization (PresentedGroup (relSet n rels))) →+
    (Fin n → ℤ) ⧸ rowSpan (relMat n rels) :=
  MonoidHom.toAdditiveLeft (Abelianization.lift (toQuot n rels))

theorem toQuotA_gen (i : Fin n) :
    toQuotA n rels (genA n rels i) = QuotientAddGroup.mk (Pi.single i 1) := by
  unfold toQuotA genA
  show Multiplicative.toAdd (Abelianization.lift (toQuot n rels) (Abelianization.of (PresentedGroup.of i))) = _
  rw [Abelianization.lift_apply_of]
  unfold toQuot
  rw [PresentedGroup.toGroup.of]
  rfl

/-- the abelianisation of the presented group is `ℤⁿ` modulo the row lattice -/
def abelianizationEquivQuot : Additive (Abelianization (PresentedGroup (relSet n rels))) ≃+
    (Fin n → ℤ) ⧸ rowSpan (relMat n rels) :=
  AddMonoidHom.toAddEquiv (toQuotA n rels) (fromQuot n rels)
    (by
      -- fromQuot ∘ toQuotA = id
      apply MonoidHom.toAdditive.symm.injective
      apply Abelianization.hom_ext
      apply PresentedGroup.ext
      intro i
      show Additive.toMul (fromQuot n rels (toQuotA n rels (genA n rels i))) = _
      rw [toQuotA_gen]
      show Additive.toMul (fromVec n rels (Pi.single i 1)) = _
      rw [fromVec_single]; rfl)
    (by
      -- toQuotA ∘ fromQuot = id
      apply QuotientAddGroup.addMonoidHom_ext
      apply AddMonoidHom.functions_ext
      intro i x
      show toQuotA n rels (fromVec n rels (Pi.single i x)) = QuotientAddGroup.mk (Pi.single i x)
      have hx : (Pi.single i x : Fin n → ℤ) = x • Pi.single i 1 := by
        rw [← Pi.single_smul]; simp
      rw [hx, map_zsmul, map_zsmul, fromVec_single, toQuotA_gen]; rfl)

end

end

end DSymVerif.Inv
