/-
C01, part 3: the degree loops of the repaired `FromStr` never panic, and the assembled
`fromSpec` is total (never `panic`) and returns well-formed symbols only.
-/
import DSymVerif.Proofs.TextSet
import DSymVerif.Proofs.TextOrbits

namespace DSymVerif.Text
open DSymVerif DSymVerif.DS

/-! ### symbols as `FromStr` builds them -/

/-- a complete D-set with involutive operations, the orbit tables `collect_orbits` computes for
    it, one branching entry per orbit.  (Unlike `ValidSym` of C02 this does not ask far
    operations to commute: the text form does not.) -/
structure SymInv (s : DSymData) : Prop where
  set : ValidSet s.dset
  index_eq : s.orbitIndex = (collectOrbits s.dset).index
  rs_eq : s.orbitRs = (collectOrbits s.dset).rs
  vs_size : s.orbitVs.size = s.orbitRs.size

theorem SymInv.ofSimple {ds : DSetData} (h : ValidSet ds) : SymInv (DSymData.ofSimple ds) :=
  ⟨h, rfl, rfl, by simp [DSymData.ofSimple]⟩

theorem getElem?_eq_some_getD {α : Type} (a : Array α) (i : Nat) (d : α) (h : i < a.size) :
    a[i]? = some (a.getD i d) := by
  rw [Array.getD_eq_getD_getElem?, Array.getElem?_eq_getElem h, Option.getD_some]

@[simp] theorem ok_bind {α β : Type} (a : α) (f : α → Outcome β) : (Outcome.ok a >>= f) = f a := rfl
@[simp] theorem pure_eq_ok {α : Type} (a : α) : (pure a : Outcome α) = Outcome.ok a := rfl

/-- `dsym.orbit_index[i][d]` is in range and indexes `orbit_rs` -/
theorem oix_ok {s : DSymData} (h : SymInv s) {i d : Nat} (hi : i < s.dim) (h1 : 1 ≤ d) (h2 : d ≤ s.size) :
    ∃ k, s.oix i d = .ok k ∧ k < s.orbitRs.size := by
  have f := collectOrbits_facts h.set
  have hi' : i < s.dset.dim := hi
  have h2' : d ≤ s.dset.size := h2
  refine ⟨((collectOrbits s.dset).index.getD i #[]).getD d 0, ?_, ?_⟩
  · unfold DSymData.oix
    rw [h.index_eq, getElem?_eq_some_getD _ i #[] (by rw [f.index_size]; exact hi')]
    dsimp only
    rw [getElem?_eq_some_getD _ d 0 (by rw [f.row_size i hi']; omega)]
  · rw [h.rs_eq]; exact f.index_lt i d hi' h1 h2'

theorem rPartial_ok {s : DSymData} (h : SymInv s) {i d : Nat} (hi : i < s.dim) (h1 : 1 ≤ d) (h2 : d ≤ s.size) :
    ∃ r, s.rPartial i (i + 1) d = .ok (some r) ∧ 1 ≤ r := by
  obtain ⟨k, hk, hklt⟩ := oix_ok h hi h1 h2
  have f := collectOrbits_facts h.set
  refine ⟨s.orbitRs.getD k 0, ?_, ?_⟩
  · unfold DSymData.rPartial
    have hoor : s.outOfRange i (i + 1) d = false := by
      unfold DSymData.outOfRange
      simp only [Bool.or_eq_false_iff, decide_eq_false_iff_not]
      omega
    rw [hoor]
    have hne : ¬ (i + 1 = i) := by omega
    simp only [Bool.false_eq_true, if_false, hne, if_true, hk, ok_bind, DSymData.orbAt,
      getElem?_eq_some_getD _ k 0 hklt, pure_eq_ok]
  · rw [h.rs_eq] at hklt ⊢
    exact f.rs_pos k hklt

theorem vPartial_ok {s : DSymData} (h : SymInv s) {i d : Nat} (hi : i < s.dim) (h1 : 1 ≤ d) (h2 : d ≤ s.size) :
    ∃ v, s.vPartial i (i + 1) d = .ok (some v) := by
  obtain ⟨k, hk, hklt⟩ := oix_ok h hi h1 h2
  refine ⟨s.orbitVs.getD k 0, ?_⟩
  unfold DSymData.vPartial
  have hoor : s.outOfRange i (i + 1) d = false := by
    unfold DSymData.outOfRange
    simp only [Bool.or_eq_false_iff, decide_eq_false_iff_not]
    omega
  rw [hoor]
  have hne : ¬ (i + 1 = i) := by omega
  simp only [Bool.false_eq_true, if_false, hne, if_true, hk, ok_bind, DSymData.orbAt,
    getElem?_eq_some_getD _ k 0 (h.vs_size ▸ hklt), pure_eq_ok]

/-- every operation of `s` is an involution on 1..size (in particular everywhere defined) -/
def OpsAreInvolutions (s : DSymData) : Prop :=
  ∀ i d, i ≤ s.dim → 1 ≤ d → d ≤ s.size →
    ∃ e, s.op i d = some e ∧ 1 ≤ e ∧ e ≤ s.size ∧ s.op i e = some d

/-- for every chamber and adjacent index pair the queries `r`, `v`, `m` answer without panic,
    the orbit-length entry is positive and the degree is that entry times the branching
    number — a multiple of it -/
def DegreesAreMultiples (s : DSymData) : Prop :=
  ∀ i d, i < s.dim → 1 ≤ d → d ≤ s.size →
    ∃ r v, s.rPartial i (i + 1) d = .ok (some r) ∧ 1 ≤ r ∧
      s.vPartial i (i + 1) d = .ok (some v) ∧ s.mPartial i (i + 1) d = .ok (some (r * v))

theorem opSimple_in_range (ds : DSetData) {i d : Nat} (hi : i ≤ ds.dim) (h1 : 1 ≤ d) (h2 : d ≤ ds.size) :
    ds.opSimple i d = some (ds.opU i d) := by
  unfold DSetData.opSimple
  rw [if_neg]
  simp only [Bool.or_eq_true, decide_eq_true_eq, not_or, Nat.not_lt]
  omega

theorem SymInv.involutions {s : DSymData} (h : SymInv s) : OpsAreInvolutions s := by
  intro i d hi h1 h2
  have hr := h.set.range i d hi h1 h2
  refine ⟨s.dset.opU i d, opSimple_in_range s.dset hi h1 h2, hr.1, hr.2, ?_⟩
  show s.dset.opSimple i _ = _
  rw [opSimple_in_range s.dset hi hr.1 hr.2, h.set.invol i d hi h1 h2]

theorem SymInv.degrees {s : DSymData} (h : SymInv s) : DegreesAreMultiples s := by
  intro i d hi h1 h2
  obtain ⟨r, hr, hr1⟩ := rPartial_ok h hi h1 h2
  obtain ⟨v, hv⟩ := vPartial_ok h hi h1 h2
  exact ⟨r, v, hr, hr1, hv, DSymData.mOf_some hr hv⟩

theorem setV_ok {s : DSymData} (h : SymInv s) {i d : Nat} (hi : i < s.dim) (h1 : 1 ≤ d) (h2 : d ≤ s.size)
    (v : Nat) : ∃ s', s.setV i d v = .ok s' ∧ SymInv s' ∧ s'.dset = s.dset := by
  obtain ⟨k, hk, hklt⟩ := oix_ok h hi h1 h2
  refine ⟨{ s with orbitVs := s.orbitVs.setIfInBounds k v }, ?_, ?_, rfl⟩
  · unfold DSymData.setV
    rw [if_neg (by omega), hk]
    dsimp only
    rw [if_pos (by rw [h.vs_size]; exact hklt)]
  · exact ⟨h.set, h.index_eq, h.rs_eq, by
      show (s.orbitVs.setIfInBounds k v).size = _
      rw [Array.size_setIfInBounds]; exact h.vs_size⟩

/-! ### the degree loops -/

theorem degLoop_seen {i n d orb : Nat} {s : DSymData} {seen : Array Bool} {rest : List Nat}
    (h : s.oix i d = .ok orb) (hs : seen[orb]? = some true) :
    degLoop i (n + 1) d s seen rest = degLoop i n (d + 1) s seen rest := by
  simp [degLoop, h, hs]

theorem degLoop_nil {i n d orb : Nat} {s : DSymData} {seen : Array Bool}
    (h : s.oix i d = .ok orb) (hs : seen[orb]? = some false) :
    degLoop i (n + 1) d s seen [] = .err := by
  simp [degLoop, h, hs]

theorem degLoop_illegal {i n d orb m r : Nat} {s : DSymData} {seen : Array Bool} {rest : List Nat}
    (h : s.oix i d = .ok orb) (hs : seen[orb]? = some false)
    (hr : s.rPartial i (i + 1) d = .ok (some r)) (hr0 : r ≠ 0) (hm : m % r ≠ 0) :
    degLoop i (n + 1) d s seen (m :: rest) = .err := by
  simp [degLoop, h, hs, hr, hr0, hm]

theorem degLoop_take {i n d orb m r : Nat} {s s' : DSymData} {seen : Array Bool} {rest : List Nat}
    (h : s.oix i d = .ok orb) (hs : seen[orb]? = some false)
    (hr : s.rPartial i (i + 1) d = .ok (some r)) (hr0 : r ≠ 0) (hm : m % r = 0)
    (hv : s.setV i d (m / r) = .ok s') :
    degLoop i (n + 1) d s seen (m :: rest) =
      degLoop i n (d + 1) s' (seen.setIfInBounds orb true) rest := by
  simp [degLoop, h, hs, hr, hr0, hm, hv]

theorem degLoop_spec (i : Nat) : ∀ (n d : Nat) (s : DSymData) (seen : Array Bool) (rest : List Nat),
    SymInv s → i < s.dim → 1 ≤ d → d + n = s.size + 1 → seen.size = s.orbitRs.size →
    degLoop i n d s seen rest ≠ .panic ∧
    ∀ s' seen' rest', degLoop i n d s seen rest = .ok (s', seen', rest') →
      SymInv s' ∧ s'.dset = s.dset ∧ seen'.size = seen.size := by
  intro n
  induction n with
  | zero =>
    intro d s seen rest h hi hd hn hsz
    refine ⟨by simp [degLoop], ?_⟩
    intro s' seen' rest' heq
    simp only [degLoop, Outcome.ok.injEq, Prod.mk.injEq] at heq
    obtain ⟨rfl, rfl, rfl⟩ := heq
    exact ⟨h, rfl, rfl⟩
  | succ n ih =>
    intro d s seen rest h hi hd hn hsz
    have hd2 : d ≤ s.size := by omega
    obtain ⟨orb, horb, hlt⟩ := oix_ok h hi hd hd2
    have hget : seen[orb]? = some (seen.getD orb false) :=
      getElem?_eq_some_getD seen orb false (by rw [hsz]; exact hlt)
    cases hb : seen.getD orb false with
    | true =>
      rw [hb] at hget
      rw [degLoop_seen horb hget]
      exact ih (d + 1) s seen rest h hi (by omega) (by omega) hsz
    | false =>
      rw [hb] at hget
      cases rest with
      | nil => rw [degLoop_nil horb hget]; exact ⟨by simp, by simp⟩
      | cons m rest' =>
        obtain ⟨r, hr, hr1⟩ := rPartial_ok h hi hd hd2
        by_cases hm : m % r = 0
        · obtain ⟨s1, hv, hinv, hds⟩ := setV_ok h hi hd hd2 (m / r)
          rw [degLoop_take horb hget hr (by omega) hm hv]
          have hrs : s1.orbitRs = s.orbitRs := by rw [hinv.rs_eq, h.rs_eq, hds]
          have hsz1 : s1.size = s.size := by unfold DSymData.size; rw [hds]
          have hdm1 : s1.dim = s.dim := by unfold DSymData.dim; rw [hds]
          have := ih (d + 1) s1 (seen.setIfInBounds orb true) rest' hinv (by omega) (by omega) (by omega)
            (by rw [Array.size_setIfInBounds, hrs]; exact hsz)
          refine ⟨this.1, ?_⟩
          intro s' seen' r' heq
          obtain ⟨a, b, c⟩ := this.2 s' seen' r' heq
          exact ⟨a, b.trans hds, by rw [c, Array.size_setIfInBounds]⟩
        · rw [degLoop_illegal horb hget hr (by omega) hm]; exact ⟨by simp, by simp⟩

theorem degOuter_next {spec : DSymSpec} {n i : Nat} {s s1 : DSymData} {seen seen1 : Array Bool}
    {msI : List Nat} (h : spec.mSpec[i]? = some msI)
    (hl : degLoop i spec.size 1 s seen msI = .ok (s1, seen1, [])) :
    degOuter spec (n + 1) i s seen = degOuter spec n (i + 1) s1 seen1 := by
  simp [degOuter, h, hl]

theorem degOuter_unused {spec : DSymSpec} {n i : Nat} {s s1 : DSymData} {seen seen1 : Array Bool}
    {msI rest : List Nat} (h : spec.mSpec[i]? = some msI)
    (hl : degLoop i spec.size 1 s seen msI = .ok (s1, seen1, rest)) (hr : rest ≠ []) :
    degOuter spec (n + 1) i s seen = .err := by
  simp [degOuter, h, hl, hr]

theorem degOuter_err {spec : DSymSpec} {n i : Nat} {s : DSymData} {seen : Array Bool}
    {msI : List Nat} (h : spec.mSpec[i]? = some msI)
    (hl : degLoop i spec.size 1 s seen msI = .err) :
    degOuter spec (n + 1) i s seen = .err := by
  simp [degOuter, h, hl]

theorem degOuter_spec (spec : DSymSpec) : ∀ (n i : Nat) (s : DSymData) (seen : Array Bool),
    SymInv s → s.size = spec.size → i + n = s.dim → seen.size = s.orbitRs.size →
    (∀ j, j < s.dim → (spec.mSpec[j]?).isSome) →
    degOuter spec n i s seen ≠ .panic ∧
    ∀ s', degOuter spec n i s seen = .ok s' → SymInv s' ∧ s'.dset = s.dset := by
  intro n
  induction n with
  | zero =>
    intro i s seen h hsz hn hseen hsome
    refine ⟨by simp [degOuter], ?_⟩
    intro s' heq
    simp only [degOuter, Outcome.ok.injEq] at heq
    subst heq
    exact ⟨h, rfl⟩
  | succ n ih =>
    intro i s seen h hsz hn hseen hsome
    have hi : i < s.dim := by omega
    obtain ⟨msI, hmsI⟩ := Option.isSome_iff_exists.mp (hsome i hi)
    have hl := degLoop_spec i spec.size 1 s seen msI h hi (by omega) (by omega) hseen
    cases hres : degLoop i spec.size 1 s seen msI with
    | err => rw [degOuter_err hmsI hres]; exact ⟨by simp, by simp⟩
    | panic => exact absurd hres hl.1
    | ok pr =>
      obtain ⟨s1, seen1, rest⟩ := pr
      obtain ⟨a, b, c⟩ := hl.2 s1 seen1 rest hres
      have hrs : s1.orbitRs = s.orbitRs := by rw [a.rs_eq, h.rs_eq, b]
      have hsz1 : s1.size = s.size := by unfold DSymData.size; rw [b]
      have hdm1 : s1.dim = s.dim := by unfold DSymData.dim; rw [b]
      by_cases hrest : rest = []
      · subst hrest
        rw [degOuter_next hmsI hres]
        have := ih (i + 1) s1 seen1 a (by omega) (by omega) (by rw [c, hrs]; exact hseen)
          (by intro j hj; exact hsome j (by omega))
        refine ⟨this.1, ?_⟩
        intro s' heq
        obtain ⟨a', b'⟩ := this.2 s' heq
        exact ⟨a', b'.trans b⟩
      · rw [degOuter_unused hmsI hres hrest]; exact ⟨by simp, by simp⟩

/-! ### the allocation is bounded by the input -/

theorem sum_length_ge (c : Nat) : ∀ (L : List (List Nat)), (∀ l ∈ L, c ≤ l.length) →
    c * L.length ≤ (L.map List.length).sum := by
  intro L
  induction L with
  | nil => intro _; simp
  | cons l L ih =>
    intro h
    have h1 := h l (by simp)
    have h2 := ih (fun l' hl' => h l' (by simp [hl']))
    simp only [List.length_cons, List.map_cons, List.sum_cons, Nat.mul_succ]
    omega

theorem le_two_divCeil2 (n : Nat) : n ≤ 2 * divCeil2 n := by
  unfold divCeil2
  split <;> omega

/-- number of integers in the operation lists of a specification -/
def opEntries (spec : DSymSpec) : Nat := (spec.opSpec.map List.length).sum

theorem table_le_entries (spec : DSymSpec) (hlen : spec.opSpec.length = spec.dim + 1)
    (hall : ∀ l ∈ spec.opSpec, divCeil2 spec.size ≤ l.length) :
    spec.size * (spec.dim + 1) ≤ 2 * opEntries spec := by
  have h1 := sum_length_ge (divCeil2 spec.size) spec.opSpec hall
  have h2 := le_two_divCeil2 spec.size
  rw [hlen] at h1
  have h3 : spec.size * (spec.dim + 1) ≤ 2 * divCeil2 spec.size * (spec.dim + 1) :=
    Nat.mul_le_mul_right _ h2
  rw [Nat.mul_assoc] at h3
  unfold opEntries
  omega

/-! ### `fromSpec` -/

/-- the checks `fromSpec` performs before it allocates -/
structure Admitted (spec : DSymSpec) : Prop where
  size_pos : 1 ≤ spec.size
  dim_pos : 1 ≤ spec.dim
  dim_fits : spec.dim + 1 < usizeLimit
  op_len : spec.opSpec.length = spec.dim + 1
  m_len : spec.mSpec.length = spec.dim
  op_enough : ∀ l ∈ spec.opSpec, divCeil2 spec.size ≤ l.length

theorem fromSpec_not_admitted (spec : DSymSpec) (h : ¬ Admitted spec) : fromSpec spec = .err := by
  unfold fromSpec
  by_cases c1 : spec.size < 1
  · rw [if_pos c1]
  rw [if_neg c1]
  by_cases c2 : spec.dim < 1
  · rw [if_pos c2]
  rw [if_neg c2]
  by_cases c3 : some spec.opSpec.length ≠ checkedAdd spec.dim 1
  · rw [if_pos c3]
  rw [if_neg c3]
  by_cases c4 : spec.mSpec.length ≠ spec.dim
  · rw [if_pos c4]
  rw [if_neg c4]
  by_cases c5 : spec.opSpec.any (fun l => l.length < divCeil2 spec.size) = true
  · rw [if_pos c5]
  exfalso
  apply h
  have c3' : some spec.opSpec.length = checkedAdd spec.dim 1 := by simpa using c3
  unfold checkedAdd at c3'
  split at c3'
  · refine ⟨by omega, by omega, by assumption, by simpa using c3', by simpa using c4, ?_⟩
    intro l hl
    simp only [List.any_eq_true, decide_eq_true_eq, not_exists, not_and, Nat.not_lt] at c5
    exact c5 l hl
  · cases c3'

theorem fromSpec_admitted (spec : DSymSpec) (h : Admitted spec) :
    fromSpec spec =
      match newC spec.size spec.dim with
      | .ok ds0 =>
        (match opOuter spec (spec.dim + 1) 0 ds0 with
         | .ok ds =>
           (match ofPartialC ds with
            | .ok sym0 => degOuter spec spec.dim 0 sym0 (Array.replicate sym0.orbitRs.size false)
            | .err => .err
            | .panic => .panic)
         | .err => .err
         | .panic => .panic)
      | .err => .err
      | .panic => .panic := by
  unfold fromSpec
  rw [if_neg (by have := h.size_pos; omega), if_neg (by have := h.dim_pos; omega), if_neg, if_neg, if_neg]
  · rfl
  · simp only [List.any_eq_true, decide_eq_true_eq, not_exists, not_and, Nat.not_lt]
    intro l hl
    exact h.op_enough l hl
  · rw [h.m_len]; simp
  · unfold checkedAdd
    rw [if_pos h.dim_fits, h.op_len]; simp

/-- everything `fromSpec` does after its initial checks, with the facts that make it safe -/
theorem fromSpec_core (spec : DSymSpec) (h : Admitted spec)
    (hb : spec.size * (spec.dim + 1) < allocLimit) :
    fromSpec spec ≠ .panic ∧
    ∀ s, fromSpec spec = .ok s → SymInv s ∧ s.size = spec.size ∧ s.dim = spec.dim := by
  have hsize : spec.size * 2 ≤ spec.size * (spec.dim + 1) :=
    Nat.mul_le_mul_left _ (by have := h.dim_pos; omega)
  have hsp := h.size_pos
  rw [fromSpec_admitted spec h]
  obtain ⟨ds0, hnew, hsz0, hdm0, hv0, hz0⟩ := newC_ne_panic h.size_pos h.dim_pos hb
  rw [hnew]
  dsimp only
  have hsome : ∀ j, j ≤ ds0.dim → (spec.opSpec[j]?).isSome := by
    intro j hj
    rw [hdm0] at hj
    rw [List.getElem?_eq_getElem (by rw [h.op_len]; omega)]
    rfl
  have ho := opOuter_spec spec (spec.dim + 1) 0 ds0 hv0 hsz0 (by omega) hsome (by intro j x hj; omega)
  cases hres : opOuter spec (spec.dim + 1) 0 ds0 with
  | err => exact ⟨by simp, by simp⟩
  | panic => exact absurd hres ho.1
  | ok ds =>
    obtain ⟨a, b, c, e⟩ := ho.2 ds hres
    have hvs : ValidSet ds := validSet_of_complete c (by
      intro j x hj hx1 hx2; exact e j x (by omega) hx1 (by omega))
    dsimp only
    have hof : ofPartialC ds = .ok (DSymData.ofSimple ds) := by
      unfold ofPartialC
      rw [if_neg (by omega)]
      unfold DSymData.ofPartial DSetData.toSimple
      rw [isCompletePartial_of_validSet hvs]
      rfl
    rw [hof]
    dsimp only
    have hinv := SymInv.ofSimple hvs
    have hmsome : ∀ j, j < (DSymData.ofSimple ds).dim → (spec.mSpec[j]?).isSome := by
      intro j hj
      have : (DSymData.ofSimple ds).dim = ds.dim := rfl
      rw [List.getElem?_eq_getElem (by rw [h.m_len]; omega)]
      rfl
    have hd := degOuter_spec spec spec.dim 0 (DSymData.ofSimple ds)
      (Array.replicate (DSymData.ofSimple ds).orbitRs.size false) hinv
      (by show ds.size = _; omega) (by show 0 + spec.dim = ds.dim; omega) (by simp) hmsome
    refine ⟨hd.1, ?_⟩
    intro s heq
    obtain ⟨a', b'⟩ := hd.2 s heq
    refine ⟨a', ?_, ?_⟩
    · show s.dset.size = _
      rw [b']; show ds.size = _; omega
    · show s.dset.dim = _
      rw [b']; show ds.dim = _; omega

/-- the only `panic` left in `fromSpec`: a table of 2^60 or more entries ("capacity overflow"),
    which needs an input text with at least 2^59 integers -/
theorem fromSpec_too_big (spec : DSymSpec) (h : Admitted spec)
    (hb : ¬ spec.size * (spec.dim + 1) < allocLimit) : fromSpec spec = .panic := by
  rw [fromSpec_admitted spec h]
  have hal : allocLimit ≤ usizeLimit := by unfold allocLimit usizeLimit; decide
  have : newC spec.size spec.dim = .panic := by
    unfold newC
    split
    · rfl
    · split
      · rfl
      · split
        · rfl
        · rw [if_pos (by omega)]
  rw [this]

end DSymVerif.Text
