/-
Small concrete D-sets used as witnesses in the non-vacuity examples of Props/C02.lean.
-/
import DSymVerif.Proofs.DSetBasic

namespace DSymVerif.DS

/-- one chamber, dimension 2, all operations fix it -/
def ex1 : DSetData := { size := 1, dim := 2, op := #[1, 1, 1] }
/-- two chambers, dimension 2: s0 = s1 = (1 2), s2 = id -/
def ex2 : DSetData := { size := 2, dim := 2, op := #[2, 2, 1, 1, 1, 2] }

theorem ex2_valid : ValidSet ex2 := by
  refine ⟨by decide, ?_, ?_⟩
  · intro i d hi h1 h2
    have hi' : i ≤ 2 := hi
    have h2' : d ≤ 2 := h2
    have : (i = 0 ∨ i = 1 ∨ i = 2) ∧ (d = 1 ∨ d = 2) := by omega
    rcases this with ⟨rfl | rfl | rfl, rfl | rfl⟩ <;> decide
  · intro i d hi h1 h2
    have hi' : i ≤ 2 := hi
    have h2' : d ≤ 2 := h2
    have : (i = 0 ∨ i = 1 ∨ i = 2) ∧ (d = 1 ∨ d = 2) := by omega
    rcases this with ⟨rfl | rfl | rfl, rfl | rfl⟩ <;> decide

theorem ex2_far : FarCommute ex2 := by
  intro i j d hij hj h1 h2
  have hj' : j ≤ 2 := hj
  have h2' : d ≤ 2 := h2
  have : i = 0 ∧ j = 2 ∧ (d = 1 ∨ d = 2) := by omega
  rcases this with ⟨rfl, rfl, rfl | rfl⟩ <;> decide

theorem ex2_validSym : ValidSym (DSymData.ofSimple ex2) := ValidSym.ofSimple ex2_valid ex2_far

end DSymVerif.DS
