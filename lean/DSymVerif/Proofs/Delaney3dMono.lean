/-
Property C15, phase 2: the cover `pseudo_toroidal_cover` builds is the cover of a monodromy
representation of the textbook orbifold group of the oriented cover (C05 `CoversMono`,
`CoversAction`): the sheet map `Covers.sheetMap (tableData (tbl n t)) edge_to_word` agrees with
`rhoT`, the action of the group on the rows of the valid candidate table `t`.  Consequences
(`mono_cover_ok`, `mono_cover_connected`): the cover is a valid symbol, has the degree `m_ij` of
its projection at every chamber for ALL pairs `i, j`, is complete, and connected if the base is.
-/
import DSymVerif.Proofs.Delaney3dSelect
import DSymVerif.Proofs.CoversWired
import DSymVerif.Proofs.Delaney2dConstr

namespace DSymVerif.D3
open DSymVerif DSymVerif.DS DSymVerif.Cosets DSymVerif.SpecC11 DSymVerif.CosetP DSymVerif.StabP
  DSymVerif.FG DSymVerif.FGP DSymVerif.CoversP

/-- tracing in `tableData` of a valid table is tracing in the Spec table -/
theorem traceWord_tableData {t : Tab} {n : Nat} {rels subs : List (List Int)} (hv : Valid t n rels subs) :
    ∀ (w : List Int) (k r : Nat), k < t.size → SpecC11.traceWord t n k w = some r →
      (tableData (tbl n t)).traceWord k w = .ok r
  | [], k, r, _, h => by
    simp only [SpecC11.traceWord, Option.some.injEq] at h
    subst h
    rfl
  | g :: w, k, r, hk, h => by
    simp only [SpecC11.traceWord] at h
    cases he : entry t n k g with
    | none => simp [he] at h
    | some d =>
      simp only [he] at h
      obtain ⟨hd, _, hg⟩ := entry_some he
      have hget := tableData_get_of_get hk hg (get_ofView he)
      have h1 := Covers.Table.traceWord_single hget
      have : g :: w = [g] ++ w := rfl
      rw [this, Covers.Table.traceWord_append_ok h1]
      exact traceWord_tableData hv w d r hd h

section
variable {oc : DSymData} (hs : ValidSym oc) (hdim : 1 ≤ oc.dim) {fg : FundGroup}
  (hfg : fundamentalGroup oc = .ok fg) {t : Tab}
  (hv : Valid t fg.nrGenerators fg.relators [])

/-- the sheet map of the model's `cover_for_table` agrees with the monodromy representation -/
theorem sheetMap_agrees :
    Agrees (rhoT hs hdim hfg hv) (Covers.sheetMap (tableData (tbl fg.nrGenerators t)) fg.edgeToWord) := by
  have hlet := (fundamentalGroup_letters oc fg hfg).2.2.1
  intro k i d hk hi h1 h2
  have hw : ∀ x ∈ e2wGet fg.edgeToWord (d, i), x ∈ letters fg.nrGenerators := by
    intro x hx
    rw [← allGensOf_eq_letters]
    exact hlet (d, i) x hx
  obtain ⟨r, hr⟩ := traceWord_total hv (e2wGet fg.edgeToWord (d, i)) k hk hw
  have htr := traceWord_tableData hv _ k r hk hr
  have : Covers.sheetMap (tableData (tbl fg.nrGenerators t)) fg.edgeToWord k i d = r := by
    unfold Covers.sheetMap Covers.sheetTrace
    rw [wordOf_eq_e2wGet, htr]
  rw [this]
  exact (tau_rhoT hs hdim hfg hv hi h1 h2 ⟨k, hk⟩ hr).symm

include hs hdim hfg hv in
/-- **the returned cover as the cover of a monodromy representation** -/
theorem coverForTable_mono (hsz : 1 ≤ oc.size) {cov : DSymData}
    (hcov : Covers.coverForTable oc (tableData (tbl fg.nrGenerators t)) fg.edgeToWord = .ok cov) :
    cov.size = t.size * oc.size ∧ cov.dim = oc.dim ∧ ValidSym cov ∧
    (∀ i d, i ≤ oc.dim → 1 ≤ d → d ≤ t.size * oc.size →
      cov.dset.opU i d = coverF oc.dset (Covers.sheetMap (tableData (tbl fg.nrGenerators t)) fg.edgeToWord) i d) ∧
    (∀ i j d, i ≤ oc.dim → j ≤ oc.dim → 1 ≤ d → d ≤ t.size * oc.size →
      cov.mPartial i j d = oc.mPartial i j (cproj oc.size d)) ∧
    (oc.isCompletePartial = true → cov.isCompletePartial = true) ∧
    (oc.view.isConnected = true → cov.view.isConnected = true) := by
  have hσ := sheetMap_agrees hs hdim hfg hv
  obtain ⟨c, hc, hsize, hdim', hvc, hop, hdeg, hcomp⟩ := mono_cover_ok hs hsz hdim hv.pos hσ
  have hdef : Covers.allTracesDefined oc (tableData (tbl fg.nrGenerators t)) fg.edgeToWord = true := by
    have h := hcov
    unfold Covers.coverForTable at h
    split at h
    · assumption
    · cases h
  have hce : cov = c := by
    rw [Covers.coverForTable_eq_cover hdef, tableData_len, hc] at hcov
    exact (Outcome.ok.inj hcov).symm
  subst hce
  refine ⟨hsize, hdim', hvc, hop, hdeg, hcomp, ?_⟩
  intro hconn
  exact mono_cover_connected hs.set hsz hconn hv.pos (rhoT_transitive hs hdim hfg hv) hσ hvc.set
    hsize hdim' hop

end

/-- the oriented cover of a valid symbol is a valid symbol (far operations commute again) -/
theorem orientedCover_validSym {s oc : DSymData} (hs : ValidSym s) (hsz : 1 ≤ s.size) (hdim : 1 ≤ s.dim)
    (hoc : orientedCover s = .ok oc) : ValidSym oc := by
  cases ho : s.view.isOriented with
  | true =>
    have := (C05.oriented_cover_covering s hs.toValidTables hsz hdim).2.1 ho
    rw [hoc] at this
    rw [Outcome.ok.inj this]
    exact hs
  | false =>
    obtain ⟨c, hc, _, _, hvc, _⟩ := D2.oriCover_pkg hs hsz hdim ho
    rw [hoc] at hc
    rw [Outcome.ok.inj hc]
    exact hvc

end DSymVerif.D3
