/-
Bridge to Mathlib matrices: the elementary operations of Proofs/InvariantsDiagonal.lean are
multiplications by integer matrices with determinant ±1, so `diagonalize_in_place` ends in
`D = U · A · V` with `U`, `V` unimodular.
-/
import DSymVerif.Proofs.InvariantsDiagonal
import Mathlib.LinearAlgebra.Matrix.NonsingularInverse

namespace DSymVerif.Inv
open Matrix

/-- the Mathlib matrix of a model matrix -/
def toMatrix (mat : Mat) (n m : Nat) : Matrix (Fin n) (Fin m) ℤ := fun r c => get mat r.val c.val

/-- unimodular equivalence of integer matrices -/
def UEquiv {n m : Nat} (A B : Matrix (Fin n) (Fin m) ℤ) : Prop :=
  ∃ (U : Matrix (Fin n) (Fin n) ℤ) (V : Matrix (Fin m) (Fin m) ℤ),
    IsUnit U ∧ IsUnit V ∧ U * A * V = B

theorem UEquiv.refl {n m : Nat} (A : Matrix (Fin n) (Fin m) ℤ) : UEquiv A A :=
  ⟨1, 1, isUnit_one, isUnit_one, by simp⟩

theorem UEquiv.trans {n m : Nat} {A B C : Matrix (Fin n) (Fin m) ℤ} (h1 : UEquiv A B)
    (h2 : UEquiv B C) : UEquiv A C := by
  obtain ⟨U1, V1, hU1, hV1, e1⟩ := h1
  obtain ⟨U2, V2, hU2, hV2, e2⟩ := h2
  refine ⟨U2 * U1, V1 * V2, hU2.mul hU1, hV1.mul hV2, ?_⟩
  rw [← e2, ← e1]
  simp only [Matrix.mul_assoc]

theorem UEquiv.left {n m : Nat} {A B : Matrix (Fin n) (Fin m) ℤ} (U : Matrix (Fin n) (Fin n) ℤ)
    (hU : IsUnit U) (h : UEquiv A B) : UEquiv A (U * B) :=
  h.trans ⟨U, 1, hU, isUnit_one, by simp⟩

theorem UEquiv.right {n m : Nat} {A B : Matrix (Fin n) (Fin m) ℤ} (V : Matrix (Fin m) (Fin m) ℤ)
    (hV : IsUnit V) (h : UEquiv A B) : UEquiv A (B * V) :=
  h.trans ⟨1, V, isUnit_one, hV, by simp⟩

theorem isUnit_of_left_inv {n : Nat} (U U' : Matrix (Fin n) (Fin n) ℤ) (h : U' * U = 1) : IsUnit U := by
  rw [Matrix.isUnit_iff_isUnit_det]
  have : U'.det * U.det = 1 := by rw [← Matrix.det_mul, h, Matrix.det_one]
  exact IsUnit.of_mul_eq_one U'.det (by rw [mul_comm]; exact this)

/-! ### row operations are left multiplications -/

def rowOpM {n m : Nat} (a b : Fin n) (p q r s : ℤ) (M : Matrix (Fin n) (Fin m) ℤ) :
    Matrix (Fin n) (Fin m) ℤ :=
  fun k c => if k = a then p * M a c + q * M b c else if k = b then r * M a c + s * M b c else M k c

theorem rowOpM_eq_mul {n m : Nat} (a b : Fin n) (p q r s : ℤ) (M : Matrix (Fin n) (Fin m) ℤ) :
    rowOpM a b p q r s M = rowOpM a b p q r s (1 : Matrix (Fin n) (Fin n) ℤ) * M := by
  ext k c
  simp only [rowOpM, Matrix.mul_apply]
  by_cases h1 : k = a
  · simp only [h1, if_true, Matrix.one_apply, add_mul, mul_assoc, Finset.sum_add_distrib,
      ← Finset.mul_sum, ite_mul, one_mul, zero_mul, Finset.sum_ite_eq, Finset.mem_univ]
  · simp only [h1, if_false]
    by_cases h2 : k = b
    · simp only [h2, if_true, Matrix.one_apply, add_mul, mul_assoc, Finset.sum_add_distrib,
        ← Finset.mul_sum, ite_mul, one_mul, zero_mul, Finset.sum_ite_eq, Finset.mem_univ]
    · simp only [h2, if_false, Matrix.one_apply, ite_mul, one_mul, zero_mul, Finset.sum_ite_eq,
        Finset.mem_univ, if_true]

theorem rowOpM_comp {n m : Nat} (a b : Fin n) (hab : a ≠ b) (p q r s p' q' r' s' : ℤ)
    (h1 : p' * p + q' * r = 1) (h2 : p' * q + q' * s = 0) (h3 : r' * p + s' * r = 0)
    (h4 : r' * q + s' * s = 1) (M : Matrix (Fin n) (Fin m) ℤ) :
    rowOpM a b p' q' r' s' (rowOpM a b p q r s M) = M := by
  ext k c
  have hba : b ≠ a := fun h => hab h.symm
  simp only [rowOpM]
  by_cases hk1 : k = a
  · subst hk1
    simp only [if_true, hba, if_false]
    linear_combination (M k c) * h1 + (M b c) * h2
  · simp only [hk1, if_false]
    by_cases hk2 : k = b
    · subst hk2
      simp only [if_true, hba, if_false]
      linear_combination (M a c) * h3 + (M k c) * h4
    · simp only [hk2, if_false]

theorem inv_coeffs (p q r s : ℤ) (h : p * s - q * r = 1 ∨ p * s - q * r = -1) :
    ∃ p' q' r' s' : ℤ, p' * p + q' * r = 1 ∧ p' * q + q' * s = 0 ∧ r' * p + s' * r = 0 ∧
      r' * q + s' * s = 1 := by
  rcases h with h | h
  · exact ⟨s, -q, -r, p, by linear_combination h, by ring, by ring, by linear_combination h⟩
  · exact ⟨-s, q, r, -p, by linear_combination -h, by ring, by ring, by linear_combination -h⟩

theorem rowOpM_one_isUnit {n : Nat} (a b : Fin n) (hab : a ≠ b) (p q r s : ℤ)
    (h : p * s - q * r = 1 ∨ p * s - q * r = -1) :
    IsUnit (rowOpM a b p q r s (1 : Matrix (Fin n) (Fin n) ℤ)) := by
  obtain ⟨p', q', r', s', h1, h2, h3, h4⟩ := inv_coeffs p q r s h
  apply isUnit_of_left_inv _ (rowOpM a b p' q' r' s' (1 : Matrix (Fin n) (Fin n) ℤ))
  rw [← rowOpM_eq_mul]
  exact rowOpM_comp a b hab p q r s p' q' r' s' h1 h2 h3 h4 1

/-! ### column operations are right multiplications (by transposition) -/

def colOpM {n m : Nat} (a b : Fin m) (p q r s : ℤ) (M : Matrix (Fin n) (Fin m) ℤ) :
    Matrix (Fin n) (Fin m) ℤ :=
  fun k c => if c = a then p * M k a + q * M k b else if c = b then r * M k a + s * M k b else M k c

theorem colOpM_eq_mul {n m : Nat} (a b : Fin m) (p q r s : ℤ) (M : Matrix (Fin n) (Fin m) ℤ) :
    colOpM a b p q r s M = M * (rowOpM a b p q r s (1 : Matrix (Fin m) (Fin m) ℤ))ᵀ := by
  have e : colOpM a b p q r s M = (rowOpM a b p q r s Mᵀ)ᵀ := by
    ext k c; rfl
  rw [e, rowOpM_eq_mul, Matrix.transpose_mul, Matrix.transpose_transpose]

/-! ### negating a row -/

def negRowM {n m : Nat} (a : Fin n) (M : Matrix (Fin n) (Fin m) ℤ) : Matrix (Fin n) (Fin m) ℤ :=
  fun k c => if k = a then - M a c else M k c

theorem negRowM_eq_mul {n m : Nat} (a : Fin n) (M : Matrix (Fin n) (Fin m) ℤ) :
    negRowM a M = negRowM a (1 : Matrix (Fin n) (Fin n) ℤ) * M := by
  ext k c
  simp only [negRowM, Matrix.mul_apply]
  by_cases h1 : k = a
  · simp only [h1, if_true, Matrix.one_apply, neg_mul, Finset.sum_neg_distrib, ite_mul, one_mul,
      zero_mul, Finset.sum_ite_eq, Finset.mem_univ]
  · simp only [h1, if_false, Matrix.one_apply, ite_mul, one_mul, zero_mul, Finset.sum_ite_eq,
      Finset.mem_univ, if_true]

theorem negRowM_one_isUnit {n : Nat} (a : Fin n) :
    IsUnit (negRowM a (1 : Matrix (Fin n) (Fin n) ℤ)) := by
  apply isUnit_of_left_inv _ (negRowM a (1 : Matrix (Fin n) (Fin n) ℤ))
  rw [← negRowM_eq_mul]
  ext k c
  simp only [negRowM]
  by_cases h1 : k = a
  · subst h1; simp only [if_true, neg_neg]
  · simp only [h1, if_false]

/-! ### unimodular equivalence with a fixed matrix is kept by every elementary operation -/

theorem closed_uequiv (n m : Nat) (A : Matrix (Fin n) (Fin m) ℤ) :
    Closed n m (fun M => UEquiv A (toMatrix M n m)) := by
  constructor
  · intro M M' ⟨a, b, p, q, r, s, ha, hb, hab, hdet, hE⟩ hM
    have e : toMatrix M' n m = rowOpM ⟨a, ha⟩ ⟨b, hb⟩ p q r s (toMatrix M n m) := by
      ext k c
      simp only [toMatrix, rowOpM, Fin.ext_iff]
      exact hE k.val c.val c.isLt k.isLt
    show UEquiv A (toMatrix M' n m)
    rw [e, rowOpM_eq_mul]
    exact hM.left _ (rowOpM_one_isUnit _ _ (by simp [Fin.ext_iff]; exact hab) p q r s hdet)
  · intro M M' ⟨a, b, p, q, r, s, ha, hb, hab, hdet, hE⟩ hM
    have e : toMatrix M' n m = colOpM ⟨a, ha⟩ ⟨b, hb⟩ p q r s (toMatrix M n m) := by
      ext k c
      simp only [toMatrix, colOpM, Fin.ext_iff]
      exact hE k.val c.val c.isLt k.isLt
    show UEquiv A (toMatrix M' n m)
    rw [e, colOpM_eq_mul]
    exact hM.right _ ((Matrix.isUnit_transpose _).mpr
      (rowOpM_one_isUnit _ _ (by simp [Fin.ext_iff]; exact hab) p q r s hdet))
  · intro M M' ⟨a, ha, hE⟩ hM
    have e : toMatrix M' n m = negRowM ⟨a, ha⟩ (toMatrix M n m) := by
      ext k c
      simp only [toMatrix, negRowM, Fin.ext_iff]
      exact hE k.val c.val c.isLt k.isLt
    show UEquiv A (toMatrix M' n m)
    rw [e, negRowM_eq_mul]
    exact hM.left _ (negRowM_one_isUnit _)
  · intro M M' hE hM
    have e : toMatrix M' n m = toMatrix M n m := by
      ext k c
      simp only [toMatrix]
      exact hE k.val c.val c.isLt k.isLt
    show UEquiv A (toMatrix M' n m)
    rw [e]; exact hM

/-- `diagonalize_equiv`: the result `D` of `diagonalize_in_place` on `A` is diagonal and
    `D = U · A · V` with `det U = ±1`, `det V = ±1`. -/
theorem diagonalize_equiv' (mat D : Mat) (n m : Nat) (hR : Rect mat n m) (hn : 0 < n)
    (h : diagonalize mat = some D) :
    (∀ r c, r < n → c < m → r ≠ c → get D r c = 0) ∧
    ∃ (U : Matrix (Fin n) (Fin n) ℤ) (V : Matrix (Fin m) (Fin m) ℤ),
      (U.det = 1 ∨ U.det = -1) ∧ (V.det = 1 ∨ V.det = -1) ∧
      U * toMatrix mat n m * V = toMatrix D n m := by
  obtain ⟨hd, U, V, hU, hV, e⟩ := diagonalize_diagonal' mat D n m
    (fun M => UEquiv (toMatrix mat n m) (toMatrix M n m)) (closed_uequiv n m _) hR hn
    (UEquiv.refl _) h
  refine ⟨hd, U, V, ?_, ?_, e⟩
  · exact Int.isUnit_iff.mp ((Matrix.isUnit_iff_isUnit_det U).mp hU)
  · exact Int.isUnit_iff.mp ((Matrix.isUnit_iff_isUnit_det V).mp hV)

end DSymVerif.Inv
