/-
The Spec's determinantal divisors (lists, Laplace expansion, sorted index subsets) are the
Mathlib-side `dk`.
-/
import DSymVerif.Proofs.InvariantsDet
import DSymVerif.Proofs.InvariantsMatrix
import DSymVerif.Spec.C14
import Mathlib.Data.Fin.Tuple.Sort
import Mathlib.Data.List.Sort

namespace DSymVerif.Inv
open Matrix
open DSymVerif.SpecC14 (subsets alt pick minors detDivisor)

/-! ### the Spec's `det` is `Matrix.det` -/

def matOf (L : List (List ℤ)) (k : ℕ) : Matrix (Fin k) (Fin k) ℤ :=
  fun i j => (L.getD i.val []).getD j.val 0

theorem alt_head (s : ℕ) (x : ℤ) : (if s % 2 = 0 then x else -x) = (-1) ^ s * x := by
  rcases Nat.even_or_odd s with h | h
  · rw [if_pos (Nat.even_iff.mp h), h.neg_one_pow]; ring
  · rw [if_neg (by rw [Nat.odd_iff] at h; omega), h.neg_one_pow]; ring

theorem sum_alt (G : ℤ → ℕ → ℤ) (l : List ℤ) (s : ℕ) :
    (((alt s l).zipIdx s).map (fun p => G p.1 p.2)).sum =
      ∑ t ∈ Finset.range l.length, G ((-1) ^ (s + t) * l.getD t 0) (s + t) := by
  induction l generalizing s with
  | nil => simp [alt]
  | cons x xs ih =>
    rw [alt, List.zipIdx_cons, List.map_cons, List.sum_cons, ih (s + 1), List.length_cons,
      Finset.sum_range_succ', alt_head]
    simp only [List.getD_cons_zero, List.getD_cons_succ, Nat.add_zero]
    rw [add_comm]
    congr 1
    apply Finset.sum_congr rfl
    intro t _
    rw [show s + 1 + t = s + (t + 1) by omega]

theorem matOf_succ (row : List ℤ) (rest : List (List ℤ)) (k : ℕ) (hl : rest.length = k)
    (j : Fin (k + 1)) :
    (matOf (row :: rest) (k + 1)).submatrix Fin.succ j.succAbove
      = matOf (rest.map (fun r => r.eraseIdx j.val)) k := by
  ext i' j'
  have hi : i'.val < rest.length := by rw [hl]; exact i'.isLt
  simp only [matOf, Matrix.submatrix_apply, Fin.val_succ, List.getD_cons_succ]
  have e1 : (rest.map (fun r => r.eraseIdx j.val)).getD i'.val [] = (rest.getD i'.val []).eraseIdx j.val := by
    simp only [List.getD_eq_getElem?_getD, List.getElem?_map, List.getElem?_eq_getElem hi,
      Option.map_some, Option.getD_some]
  rw [e1]
  simp only [List.getD_eq_getElem?_getD, List.getElem?_eraseIdx]
  by_cases hlt : j'.val < j.val
  · have : (j.succAbove j').val = j'.val := by
      rw [Fin.succAbove_of_castSucc_lt _ _ (by simpa [Fin.lt_def] using hlt)]; rfl
    rw [this, if_pos hlt]
  · have : (j.succAbove j').val = j'.val + 1 := by
      rw [Fin.succAbove_of_le_castSucc _ _ (by simpa [Fin.le_def] using Nat.le_of_not_lt hlt)]; rfl
    rw [this, if_neg hlt]

theorem specDet_eq (k : ℕ) (L : List (List ℤ)) (hl : L.length = k)
    (hrows : ∀ row ∈ L, row.length = k) : SpecC14.det k L = (matOf L k).det := by
  induction k generalizing L with
  | zero => simp [SpecC14.det]
  | succ k ih =>
    cases L with
    | nil => simp at hl
    | cons row rest =>
      have hrest : rest.length = k := by simpa using hl
      have hrow : row.length = k + 1 := hrows row List.mem_cons_self
      rw [SpecC14.det, ← List.sum_eq_foldl, sum_alt (fun a t => a * SpecC14.det k (rest.map fun r => r.eraseIdx t)) row 0,
        Matrix.det_succ_row_zero, hrow, ← Fin.sum_univ_eq_sum_range
          (fun t => (-1) ^ (0 + t) * row.getD t 0 * SpecC14.det k (rest.map fun r => r.eraseIdx (0 + t))) (k + 1)]
      apply Finset.sum_congr rfl
      intro j _
      simp only [Nat.zero_add]
      rw [matOf_succ row rest k hrest j, ih (rest.map fun r => r.eraseIdx j.val) (by simpa using hrest)
        (by
          intro r hr
          obtain ⟨r0, hr0, rfl⟩ := List.mem_map.mp hr
          have := hrows r0 (List.mem_cons_of_mem _ hr0)
          rw [List.length_eraseIdx, if_pos (by rw [this]; exact j.isLt), this]; rfl)]
      simp only [matOf, Fin.val_zero, List.getD_cons_zero]

/-! ### the Spec's index subsets -/

theorem mem_subsets {α : Type} (k : ℕ) (xs l : List α) :
    l ∈ subsets k xs ↔ l.Sublist xs ∧ l.length = k := by
  induction xs generalizing k l with
  | nil =>
    cases k with
    | zero =>
      simp only [subsets, List.mem_singleton, List.sublist_nil]
      constructor
      · intro h; subst h; exact ⟨rfl, rfl⟩
      · intro h; exact h.1
    | succ k =>
      simp only [subsets, List.not_mem_nil, List.sublist_nil, false_iff, not_and]
      intro h; subst h; simp
  | cons x xs ih =>
    cases k with
    | zero =>
      simp only [subsets, List.mem_singleton]
      constructor
      · intro h; subst h; exact ⟨List.nil_sublist _, rfl⟩
      · intro h; exact List.eq_nil_of_length_eq_zero h.2
    | succ k =>
      simp only [subsets, List.mem_append, List.mem_map, ih, List.sublist_cons_iff]
      constructor
      · rintro (⟨l', ⟨h1, h2⟩, rfl⟩ | ⟨h1, h2⟩)
        · exact ⟨Or.inr ⟨l', rfl, h1⟩, by simp [h2]⟩
        · exact ⟨Or.inl h1, h2⟩
      · rintro ⟨h1 | ⟨l', rfl, h1⟩, h2⟩
        · exact Or.inr ⟨h1, h2⟩
        · exact Or.inl ⟨l', ⟨h1, by simpa using h2⟩, rfl⟩

theorem sublist_range_of_sorted (l : List ℕ) (N : ℕ) (hs : l.Pairwise (· < ·))
    (hb : ∀ x ∈ l, x < N) : l.Sublist (List.range N) := by
  apply List.sublist_of_subperm_of_pairwise (r := (· < ·)) _ hs List.pairwise_lt_range
  apply List.subperm_of_subset (hs.imp (fun h => Nat.ne_of_lt h))
  intro x hx
  exact List.mem_range.mpr (hb x hx)

/-! ### gcd by folding -/

theorem foldl_gcd_dvd (l : List ℤ) (g : ℕ) :
    (l.foldl (fun g x => Nat.gcd g x.natAbs) g ∣ g) ∧
    ∀ x ∈ l, l.foldl (fun g x => Nat.gcd g x.natAbs) g ∣ x.natAbs := by
  induction l generalizing g with
  | nil => exact ⟨Nat.dvd_refl _, by simp⟩
  | cons y l ih =>
    rw [List.foldl_cons]
    obtain ⟨h1, h2⟩ := ih (Nat.gcd g y.natAbs)
    refine ⟨Nat.dvd_trans h1 (Nat.gcd_dvd_left _ _), ?_⟩
    intro x hx
    rcases List.mem_cons.mp hx with rfl | hx
    · exact Nat.dvd_trans h1 (Nat.gcd_dvd_right _ _)
    · exact h2 x hx

theorem dvd_foldl_gcd (l : List ℤ) (g d : ℕ) (hg : d ∣ g) (hl : ∀ x ∈ l, d ∣ x.natAbs) :
    d ∣ l.foldl (fun g x => Nat.gcd g x.natAbs) g := by
  induction l generalizing g with
  | nil => exact hg
  | cons y l ih =>
    rw [List.foldl_cons]
    exact ih _ (Nat.dvd_gcd hg (hl y List.mem_cons_self)) (fun x hx => hl x (List.mem_cons_of_mem _ hx))

/-! ### a Spec minor is a Mathlib minor -/

theorem specMinor_eq (a : Mat) (r n k : ℕ) (f : Fin k → Fin r) (g : Fin k → Fin n) :
    SpecC14.det k ((List.ofFn fun i => (f i).val).map
        (fun r' => pick (a.getD r' []) (List.ofFn fun j => (g j).val)))
      = ((toMatrix a r n).submatrix f g).det := by
  rw [specDet_eq k _ (by simp) (by
    intro row hrow
    obtain ⟨r', _, rfl⟩ := List.mem_map.mp hrow
    simp [pick])]
  congr 1
  ext i j
  simp only [matOf, toMatrix, Matrix.submatrix_apply, get]
  have hi : i.val < (List.ofFn fun i => (f i).val).length := by simp
  have hj : j.val < (List.ofFn fun j => (g j).val).length := by simp
  simp only [List.getD_eq_getElem?_getD, List.getElem?_map, List.getElem?_eq_getElem hi,
    Option.map_some, Option.getD_some, pick, List.getElem?_eq_getElem hj, List.getElem_ofFn]

theorem ofFn_getElem_eq (l : List ℕ) (k : ℕ) (hk : l.length = k) :
    (List.ofFn fun i : Fin k => l[i.val]'(by rw [hk]; exact i.isLt)) = l := by
  apply List.ext_getElem
  · simp [hk]
  · intro i h1 h2
    simp

/-- the Spec's `d_k` is `dk` -/
theorem detDivisor_eq_dk (a : Mat) (r n k : ℕ) (hR : Rect a r n) :
    detDivisor a n k = dk (toMatrix a r n) k := by
  apply Nat.dvd_antisymm
  · -- Spec's gcd divides every generalised minor
    apply dvd_dk
    intro f g
    rw [Int.natCast_dvd]
    -- sorted index functions give members of `minors`
    have sorted_case : ∀ (f : Fin k → Fin r) (g : Fin k → Fin n), StrictMono f → StrictMono g →
        detDivisor a n k ∣ ((toMatrix a r n).submatrix f g).det.natAbs := by
      intro f g hf hg
      rw [← specMinor_eq a r n k f g]
      unfold detDivisor
      apply (foldl_gcd_dvd _ 0).2
      unfold minors
      rw [List.mem_flatMap]
      refine ⟨List.ofFn fun i => (f i).val, ?_, ?_⟩
      · rw [mem_subsets, hR.1]
        refine ⟨sublist_range_of_sorted _ r ?_ ?_, by simp⟩
        · have : (List.ofFn fun i => (f i).val).SortedLT :=
            List.sortedLT_ofFn_iff.mpr (fun i j hij => hf hij)
          exact this.pairwise
        · intro x hx
          rw [List.mem_ofFn] at hx
          obtain ⟨i, rfl⟩ := hx
          exact (f i).isLt
      · rw [List.mem_map]
        refine ⟨List.ofFn fun j => (g j).val, ?_, rfl⟩
        rw [mem_subsets]
        refine ⟨sublist_range_of_sorted _ n ?_ ?_, by simp⟩
        · have : (List.ofFn fun j => (g j).val).SortedLT :=
            List.sortedLT_ofFn_iff.mpr (fun i j hij => hg hij)
          exact this.pairwise
        · intro x hx
          rw [List.mem_ofFn] at hx
          obtain ⟨i, rfl⟩ := hx
          exact (g i).isLt
    by_cases hf : Function.Injective f
    · by_cases hg : Function.Injective g
      · have hfs : StrictMono (f ∘ Tuple.sort f) :=
          (Tuple.monotone_sort f).strictMono_of_injective (hf.comp (Tuple.sort f).injective)
        have hgs : StrictMono (g ∘ Tuple.sort g) :=
          (Tuple.monotone_sort g).strictMono_of_injective (hg.comp (Tuple.sort g).injective)
        have h := sorted_case _ _ hfs hgs
        have e : (toMatrix a r n).submatrix (f ∘ Tuple.sort f) (g ∘ Tuple.sort g)
            = (((toMatrix a r n).submatrix f g).submatrix (Tuple.sort f) id).submatrix id (Tuple.sort g) := by
          ext i j; rfl
        rw [e, Matrix.det_permute', Matrix.det_permute, Int.natAbs_mul, Int.natAbs_mul] at h
        simpa using h
      · have : ∃ i j, i ≠ j ∧ g i = g j := by
          by_contra hc
          push Not at hc
          exact hg (fun i j hij => by by_contra hne; exact hc i j hne hij)
        obtain ⟨i, j, hne, hij⟩ := this
        rw [Matrix.det_zero_of_column_eq hne (by intro k'; simp [Matrix.submatrix_apply, hij])]
        simp
    · have : ∃ i j, i ≠ j ∧ f i = f j := by
        by_contra hc
        push Not at hc
        exact hf (fun i j hij => by by_contra hne; exact hc i j hne hij)
      obtain ⟨i, j, hne, hij⟩ := this
      rw [Matrix.det_zero_of_row_eq hne (by ext k'; simp [Matrix.submatrix_apply, hij])]
      simp
  · -- every Spec minor is a generalised minor
    unfold detDivisor
    apply dvd_foldl_gcd _ _ _ (Nat.dvd_zero _)
    intro x hx
    unfold minors at hx
    rw [List.mem_flatMap] at hx
    obtain ⟨rs, hrs, hx⟩ := hx
    rw [List.mem_map] at hx
    obtain ⟨cs, hcs, rfl⟩ := hx
    rw [mem_subsets, hR.1] at hrs
    rw [mem_subsets] at hcs
    have hrb : ∀ i : Fin k, rs[i.val]'(by rw [hrs.2]; exact i.isLt) < r := by
      intro i
      exact List.mem_range.mp (hrs.1.subset (List.getElem_mem _))
    have hcb : ∀ j : Fin k, cs[j.val]'(by rw [hcs.2]; exact j.isLt) < n := by
      intro j
      exact List.mem_range.mp (hcs.1.subset (List.getElem_mem _))
    have := specMinor_eq a r n k (fun i => ⟨rs[i.val]'(by rw [hrs.2]; exact i.isLt), hrb i⟩)
      (fun j => ⟨cs[j.val]'(by rw [hcs.2]; exact j.isLt), hcb j⟩)
    simp only [ofFn_getElem_eq rs k hrs.2, ofFn_getElem_eq cs k hcs.2] at this
    rw [this]
    exact Int.natCast_dvd.mp (dk_dvd_minor _ _ _ _)

end DSymVerif.Inv
