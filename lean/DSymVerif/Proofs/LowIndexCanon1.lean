/-
C12, the canonical pruning (1): `compare_renumbered_from` on a table `P` contained in a table
`T` follows the run on `T` until it stops at an undefined entry with a non-negative value
(the D15 repair), hence `is_canonical T = true ⇒ is_canonical P = true`: no state that has a
canonical completion is ever pruned.
-/
import DSymVerif.Proofs.LowIndexValid

namespace DSymVerif.CanonP
open DSymVerif DSymVerif.Cosets DSymVerif.LowIndexP DSymVerif.CosetInvP

abbrev CSt := Array Nat × List (Nat × Nat)

/-- every defined entry of `P` is an entry of `T` -/
def Sub (P T : Table) : Prop :=
  T.nrGens = P.nrGens ∧ P.len ≤ T.len ∧
    ∀ c g d, g ∈ P.allGens → P.get c g = .ok (some d) → T.get c g = .ok (some d)

theorem Sub.allGens {P T : Table} (h : Sub P T) : T.allGens = P.allGens := by
  unfold Table.allGens; rw [h.1]

/-- the renumbering step of `compare_renumbered_from` -/
def assign (tv : Nat) (s : CSt) : CSt :=
  match lookupNat tv s.2 with
  | some _ => s
  | none => (s.1.push tv, (tv, s.1.size) :: s.2)

theorem compareGens_cons_def (t : Table) (n row : Nat) (g : Int) (gs : List Int) (s : CSt)
    {oval r tv : Nat} (h1 : t.get row g = .ok (some oval)) (h2 : s.1[row]? = some r)
    (h3 : t.get r g = .ok (some tv)) :
    compareGens t n row (g :: gs) s =
      match lookupNat tv (assign tv s).2 with
      | none => .panic
      | some nval =>
        if ((nval : Int) - (oval : Int)) ≠ 0 then .ok (some ((nval : Int) - (oval : Int)), assign tv s)
        else compareGens t n row gs (assign tv s) := by
  obtain ⟨n2o, o2n⟩ := s
  simp only [compareGens, h1, h2, h3, assign]
  cases lookupNat tv o2n <;> rfl

theorem compareGens_cons_undef (t : Table) (n row : Nat) (g : Int) (gs : List Int) (s : CSt)
    (h1 : t.get row g = .ok none) : compareGens t n row (g :: gs) s = .ok (some 0, s) := by
  obtain ⟨n2o, o2n⟩ := s
  simp only [compareGens, h1]

theorem compareGens_cons_rundef (t : Table) (n row : Nat) (g : Int) (gs : List Int) (s : CSt)
    {oval r : Nat} (h1 : t.get row g = .ok (some oval)) (h2 : s.1[row]? = some r)
    (h3 : t.get r g = .ok none) :
    compareGens t n row (g :: gs) s =
      if ((n : Int) - (oval : Int)) ≠ 0 then .ok (some ((n : Int) - (oval : Int)), s)
      else compareGens t n row gs s := by
  obtain ⟨n2o, o2n⟩ := s
  simp only [compareGens, h1, h2, h3]

/-- **pruning is monotone**: a negative comparison on a partial table is reproduced, with the
    same value, on every table that contains it (an undefined entry never yields a negative
    value — the D15 repair) -/
theorem compareGens_sub {P T : Table} (hsub : Sub P T) (hrange : ∀ c g d, g ∈ P.allGens →
    P.get c g = .ok (some d) → d < P.len) (nT row : Nat) :
    ∀ (gs : List Int) (s s' : CSt), (∀ g ∈ gs, g ∈ P.allGens) →
      (compareGens P P.len row gs s = .ok (none, s') → compareGens T nT row gs s = .ok (none, s')) ∧
      (∀ r, compareGens P P.len row gs s = .ok (some r, s') → r < 0 →
        compareGens T nT row gs s = .ok (some r, s'))
  | [], s, s', _ => by
    simp only [compareGens]
    exact ⟨fun h => h, fun r h => by simp at h⟩
  | g :: gs, s, s', hgs => by
    have hg : g ∈ P.allGens := hgs g (by simp)
    have ih := compareGens_sub hsub hrange nT row gs
    cases h1 : P.get row g with
    | ok o1 =>
      cases o1 with
      | none =>
        rw [compareGens_cons_undef P _ row g gs s h1]
        refine ⟨fun h => by simp at h, fun r h hr => ?_⟩
        simp only [Outcome.ok.injEq, Prod.mk.injEq, Option.some.injEq] at h
        omega
      | some oval =>
        have h1T := hsub.2.2 row g oval hg h1
        cases h2 : s.1[row]? with
        | none =>
          obtain ⟨n2o, o2n⟩ := s
          simp only [compareGens, h1, h2]
          exact ⟨fun h => by simp at h, fun r h => by simp at h⟩
        | some r0 =>
          cases h3 : P.get r0 g with
          | ok o3 =>
            cases o3 with
            | some tv =>
              have h3T := hsub.2.2 r0 g tv hg h3
              rw [compareGens_cons_def P _ row g gs s h1 h2 h3, compareGens_cons_def T _ row g gs s h1T h2 h3T]
              cases lookupNat tv (assign tv s).2 with
              | none => exact ⟨fun h => by simp at h, fun r h => by simp at h⟩
              | some nval =>
                simp only []
                by_cases hd : ((nval : Int) - (oval : Int)) ≠ 0
                · rw [if_pos hd, if_pos hd]
                  exact ⟨fun h => h, fun r h _ => h⟩
                · rw [if_neg hd, if_neg hd]
                  exact ih (assign tv s) s' (fun g' h' => hgs g' (by simp [h']))
            | none =>
              rw [compareGens_cons_rundef P _ row g gs s h1 h2 h3]
              have hlt := hrange row g oval hg h1
              have hd : ((P.len : Int) - (oval : Int)) ≠ 0 := by omega
              rw [if_pos hd]
              refine ⟨fun h => by simp at h, fun r h hr => ?_⟩
              simp only [Outcome.ok.injEq, Prod.mk.injEq, Option.some.injEq] at h
              omega
          | err =>
            obtain ⟨n2o, o2n⟩ := s
            simp only [compareGens, h1, h2, h3]
            exact ⟨fun h => by simp at h, fun r h => by simp at h⟩
          | panic =>
            obtain ⟨n2o, o2n⟩ := s
            simp only [compareGens, h1, h2, h3]
            exact ⟨fun h => by simp at h, fun r h => by simp at h⟩
    | err =>
      obtain ⟨n2o, o2n⟩ := s
      simp only [compareGens, h1]
      exact ⟨fun h => by simp at h, fun r h => by simp at h⟩
    | panic =>
      obtain ⟨n2o, o2n⟩ := s
      simp only [compareGens, h1]
      exact ⟨fun h => by simp at h, fun r h => by simp at h⟩

theorem compareRows_sub {P T : Table} (hsub : Sub P T) (hrange : ∀ c g d, g ∈ P.allGens →
    P.get c g = .ok (some d) → d < P.len) (nT : Nat) :
    ∀ (rows extra : List Nat) (s : CSt) (r : Int), compareRows P P.len rows s = .ok r → r < 0 →
      compareRows T nT (rows ++ extra) s = .ok r
  | [], extra, s, r, h, hr => by
    simp only [compareRows, Outcome.ok.injEq] at h
    omega
  | row :: rows, extra, (n2o, o2n), r, h, hr => by
    simp only [List.cons_append, compareRows] at h ⊢
    by_cases hlt : row < n2o.size
    · rw [if_pos hlt] at h ⊢
      rw [hsub.allGens]
      cases hc : compareGens P P.len row P.allGens (n2o, o2n) with
      | ok res =>
        obtain ⟨o, s'⟩ := res
        cases o with
        | none =>
          rw [hc] at h
          simp only [] at h
          rw [(compareGens_sub hsub hrange nT row P.allGens (n2o, o2n) s' (fun g hg => hg)).1 hc]
          exact compareRows_sub hsub hrange nT rows extra s' r h hr
        | some r' =>
          rw [hc] at h
          simp only [Outcome.ok.injEq] at h
          subst h
          rw [(compareGens_sub hsub hrange nT row P.allGens (n2o, o2n) s' (fun g hg => hg)).2 r' hc hr]
      | err => rw [hc] at h; cases h
      | panic => rw [hc] at h; cases h
    · rw [if_neg hlt] at h; cases h

theorem compareRenumberedFrom_sub {P T : Table} (hsub : Sub P T) (hrange : ∀ c g d, g ∈ P.allGens →
    P.get c g = .ok (some d) → d < P.len) {s : Nat} {r : Int}
    (h : compareRenumberedFrom P s = .ok r) (hr : r < 0) : compareRenumberedFrom T s = .ok r := by
  unfold compareRenumberedFrom at h ⊢
  have hsplit : List.range T.len = List.range P.len ++ List.range' P.len (T.len - P.len) := by
    rw [List.range_eq_range', List.range_eq_range']
    have : T.len = P.len + (T.len - P.len) := by have := hsub.2.1; omega
    conv_lhs => rw [this]
    have := List.range'_append_1 (s := 0) (m := P.len) (n := T.len - P.len)
    simp only [Nat.zero_add] at this
    exact this.symm
  rw [hsplit]
  exact compareRows_sub hsub hrange T.len _ _ _ r h hr


/-- the run on the partial table follows the run on the containing table until it stops at
    an undefined entry (with a non-negative value) -/
theorem compareGens_sub' {P T : Table} (hsub : Sub P T) (hrange : ∀ c g d, g ∈ P.allGens →
    P.get c g = .ok (some d) → d < P.len)
    (htot : ∀ c g, g ∈ P.allGens → P.get c g = .ok none ∨ ∃ d, P.get c g = .ok (some d))
    (nT row : Nat) :
    ∀ (gs : List Int) (s : CSt) (oT : Option Int) (sT : CSt), (∀ g ∈ gs, g ∈ P.allGens) →
      compareGens T nT row gs s = .ok (oT, sT) →
      ∃ oP sP, compareGens P P.len row gs s = .ok (oP, sP) ∧ (oP = none → oT = none ∧ sP = sT) ∧
        (∀ r, oP = some r → 0 ≤ r ∨ oT = some r)
  | [], s, oT, sT, _, h => by
    simp only [compareGens, Outcome.ok.injEq, Prod.mk.injEq] at h ⊢
    exact ⟨none, s, ⟨rfl, rfl⟩, (fun _ => ⟨h.1.symm, h.2⟩), (fun r hr => by cases hr)⟩
  | g :: gs, s, oT, sT, hgs, h => by
    have hg : g ∈ P.allGens := hgs g (by simp)
    have ih := compareGens_sub' hsub hrange htot nT row gs
    rcases htot row g hg with h1 | ⟨oval, h1⟩
    · rw [compareGens_cons_undef P _ row g gs s h1]
      exact ⟨some 0, s, rfl, (fun hn => by cases hn), (fun r hr => by injection hr with hr; left; omega)⟩
    · have h1T := hsub.2.2 row g oval hg h1
      cases h2 : s.1[row]? with
      | none =>
        obtain ⟨n2o, o2n⟩ := s
        simp only [compareGens, h1T, h2] at h
        cases h
      | some r0 =>
        rcases htot r0 g hg with h3 | ⟨tv, h3⟩
        · rw [compareGens_cons_rundef P _ row g gs s h1 h2 h3]
          have hlt := hrange row g oval hg h1
          have hd : ((P.len : Int) - (oval : Int)) ≠ 0 := by omega
          rw [if_pos hd]
          exact ⟨_, s, rfl, (fun hn => by cases hn), (fun r hr => by injection hr with hr; left; omega)⟩
        · have h3T := hsub.2.2 r0 g tv hg h3
          rw [compareGens_cons_def T _ row g gs s h1T h2 h3T] at h
          rw [compareGens_cons_def P _ row g gs s h1 h2 h3]
          cases hl : lookupNat tv (assign tv s).2 with
          | none => rw [hl] at h; cases h
          | some nval =>
            rw [hl] at h
            simp only [] at h ⊢
            by_cases hd : ((nval : Int) - (oval : Int)) ≠ 0
            · rw [if_pos hd] at h ⊢
              simp only [Outcome.ok.injEq, Prod.mk.injEq] at h
              exact ⟨_, _, rfl, (fun hn => by cases hn), (fun r hr => by
                right; rw [← h.1]; exact hr)⟩
            · rw [if_neg hd] at h ⊢
              exact ih (assign tv s) oT sT (fun g' h' => hgs g' (by simp [h'])) h

theorem compareRows_sub' {P T : Table} (hsub : Sub P T) (hrange : ∀ c g d, g ∈ P.allGens →
    P.get c g = .ok (some d) → d < P.len)
    (htot : ∀ c g, g ∈ P.allGens → P.get c g = .ok none ∨ ∃ d, P.get c g = .ok (some d)) (nT : Nat) :
    ∀ (rows extra : List Nat) (s : CSt) (rT : Int), compareRows T nT (rows ++ extra) s = .ok rT →
      ∃ rP, compareRows P P.len rows s = .ok rP ∧ (0 ≤ rP ∨ rT = rP)
  | [], extra, s, rT, _ => ⟨0, by simp [compareRows], Or.inl (Int.le_refl _)⟩
  | row :: rows, extra, (n2o, o2n), rT, h => by
    simp only [List.cons_append, compareRows] at h ⊢
    by_cases hlt : row < n2o.size
    · rw [if_pos hlt] at h ⊢
      rw [hsub.allGens] at h
      cases hc : compareGens T nT row P.allGens (n2o, o2n) with
      | ok res =>
        obtain ⟨oT, sT⟩ := res
        rw [hc] at h
        obtain ⟨oP, sP, e1, e2, e3⟩ := compareGens_sub' hsub hrange htot nT row P.allGens (n2o, o2n) oT sT
          (fun g hg => hg) hc
        rw [e1]
        cases oP with
        | none =>
          obtain ⟨rfl, rfl⟩ := e2 rfl
          simp only [] at h ⊢
          exact compareRows_sub' hsub hrange htot nT rows extra sP rT h
        | some r =>
          simp only []
          refine ⟨r, rfl, ?_⟩
          rcases e3 r rfl with e | e
          · exact Or.inl e
          · subst e
            simp only [Outcome.ok.injEq] at h
            exact Or.inr h.symm
      | err => rw [hc] at h; cases h
      | panic => rw [hc] at h; cases h
    · rw [if_neg hlt] at h; cases h

theorem isCanonicalFrom_true {T : Table} : ∀ (ss : List Nat), isCanonicalFrom T ss = .ok true →
    ∀ s ∈ ss, ∃ r, compareRenumberedFrom T s = .ok r ∧ 0 ≤ r
  | [], _, s, hs => by cases hs
  | x :: ss, h, s, hs => by
    simp only [isCanonicalFrom] at h
    cases hc : compareRenumberedFrom T x with
    | ok r =>
      rw [hc] at h
      simp only [] at h
      by_cases hr : r < 0
      · rw [if_pos hr] at h; cases h
      · rw [if_neg hr] at h
        rcases List.mem_cons.mp hs with rfl | hs
        · exact ⟨r, hc, by omega⟩
        · exact isCanonicalFrom_true ss h s hs
    | err => rw [hc] at h; cases h
    | panic => rw [hc] at h; cases h

theorem isCanonicalFrom_of {P : Table} : ∀ (ss : List Nat),
    (∀ s ∈ ss, ∃ r, compareRenumberedFrom P s = .ok r ∧ 0 ≤ r) → isCanonicalFrom P ss = .ok true
  | [], _ => rfl
  | x :: ss, h => by
    obtain ⟨r, hc, hr⟩ := h x (by simp)
    simp only [isCanonicalFrom, hc]
    have : ¬ r < 0 := by omega
    rw [if_neg this]
    exact isCanonicalFrom_of ss (fun s hs => h s (by simp [hs]))

/-- **soundness of the pruning**: a table contained in a table that passes `is_canonical`
    passes it as well — no state with a canonical completion is ever pruned -/
theorem isCanonical_sub {P T : Table} (hsub : Sub P T) (hrange : ∀ c g d, g ∈ P.allGens →
    P.get c g = .ok (some d) → d < P.len)
    (htot : ∀ c g, g ∈ P.allGens → P.get c g = .ok none ∨ ∃ d, P.get c g = .ok (some d))
    (h : isCanonical T = .ok true) : isCanonical P = .ok true := by
  unfold isCanonical at h ⊢
  apply isCanonicalFrom_of
  intro s hs
  rw [List.mem_range'_1] at hs
  obtain ⟨rT, hT, hTr⟩ := isCanonicalFrom_true _ h s (by rw [List.mem_range'_1]; have := hsub.2.1; omega)
  unfold compareRenumberedFrom at hT ⊢
  have hsplit : List.range T.len = List.range P.len ++ List.range' P.len (T.len - P.len) := by
    rw [List.range_eq_range', List.range_eq_range']
    have : T.len = P.len + (T.len - P.len) := by have := hsub.2.1; omega
    conv_lhs => rw [this]
    have := List.range'_append_1 (s := 0) (m := P.len) (n := T.len - P.len)
    simp only [Nat.zero_add] at this
    exact this.symm
  rw [hsplit] at hT
  obtain ⟨rP, e1, e2⟩ := compareRows_sub' hsub hrange htot T.len _ _ _ rT hT
  exact ⟨rP, e1, by rcases e2 with e | e <;> omega⟩

end DSymVerif.CanonP
