/-
Helper lemmas for property C02, part 2: the generic `r` (the unbounded Rust loop, modelled
with fuel `size + 1`) terminates on every (partial) involutive D-set and returns the least
period of the chamber under `op j ∘ op i`; agreement with the Spec's `orbitLen`.
-/
import DSymVerif.Proofs.DSetBasic
import Mathlib.Logic.Function.Iterate
import Mathlib.Data.Finset.Card

namespace DSymVerif.DS

/-! ### iterating a partial map -/

/-- one step of a partial map on `Option` (undefined stays undefined) -/
def pstep (f : Nat → Option Nat) : Option Nat → Option Nat := fun o => o.bind f

/-- `piter f t d` = `f^t d` for a partial map `f` -/
def piter (f : Nat → Option Nat) (t : Nat) (d : Nat) : Option Nat := (pstep f)^[t] (some d)

theorem piter_zero (f : Nat → Option Nat) (d : Nat) : piter f 0 d = some d := rfl

theorem piter_succ (f : Nat → Option Nat) (t d : Nat) : piter f (t + 1) d = (piter f t d).bind f := by
  unfold piter; rw [Function.iterate_succ_apply']; rfl

theorem piter_none_add (f : Nat → Option Nat) (d t : Nat) (h : piter f t d = none) :
    ∀ u, piter f (t + u) d = none
  | 0 => h
  | u + 1 => by rw [← Nat.add_assoc, piter_succ, piter_none_add f d t h u]; rfl

theorem piter_some_of_le (f : Nat → Option Nat) (d n : Nat) {c : Nat} (h : piter f n d = some c) :
    ∀ t, t ≤ n → ∃ c', piter f t d = some c' := by
  intro t ht
  cases hc : piter f t d with
  | some c' => exact ⟨c', rfl⟩
  | none =>
    have := piter_none_add f d t hc (n - t)
    rw [Nat.add_sub_cancel' ht, h] at this
    cases this

/-- a partial injection into `1..n` -/
structure PInj (f : Nat → Option Nat) (n : Nat) : Prop where
  range : ∀ e c, f e = some c → 1 ≤ c ∧ c ≤ n
  inj : ∀ e e' c, f e = some c → f e' = some c → e = e'

theorem piter_range {f : Nat → Option Nat} {n : Nat} (hf : PInj f n) {d : Nat} (h1 : 1 ≤ d) (h2 : d ≤ n) :
    ∀ t c, piter f t d = some c → 1 ≤ c ∧ c ≤ n
  | 0, c, h => by
    rw [piter_zero] at h; cases h; exact ⟨h1, h2⟩
  | t + 1, c, h => by
    rw [piter_succ] at h
    cases hx : piter f t d with
    | none => rw [hx] at h; cases h
    | some x => rw [hx] at h; exact hf.range x c h

theorem piter_back {f : Nat → Option Nat} {n : Nat} (hf : PInj f n) (d a b : Nat) {c : Nat}
    (ha : piter f (a + 1) d = some c) (hb : piter f (b + 1) d = some c) :
    piter f a d = piter f b d := by
  rw [piter_succ] at ha hb
  cases hx : piter f a d with
  | none => rw [hx] at ha; cases ha
  | some x =>
    cases hy : piter f b d with
    | none => rw [hy] at hb; cases hb
    | some y =>
      rw [hx] at ha; rw [hy] at hb
      rw [hf.inj x y c ha hb]

theorem piter_back_many {f : Nat → Option Nat} {n : Nat} (hf : PInj f n) (d p : Nat) :
    ∀ a c, piter f a d = some c → piter f (a + p) d = some c → piter f p d = some d
  | 0, c, ha, hb => by
    rw [piter_zero] at ha; cases ha; simpa using hb
  | a + 1, c, ha, hb => by
    have hb' : piter f (a + p + 1) d = some c := by rw [← hb]; congr 1; omega
    have h := piter_back hf d a (a + p) ha hb'
    obtain ⟨c', hc'⟩ := piter_some_of_le f d (a + 1) ha a (Nat.le_succ a)
    exact piter_back_many hf d p a c' hc' (by rw [← h]; exact hc')

/-- pigeonhole: a partial injection into `1..n` that can be iterated `n` times from `d`
    returns to `d` within `n` steps -/
theorem piter_returns {f : Nat → Option Nat} {n : Nat} (hf : PInj f n) {d : Nat} (h1 : 1 ≤ d) (h2 : d ≤ n)
    {c : Nat} (hn : piter f n d = some c) : ∃ t, 1 ≤ t ∧ t ≤ n ∧ piter f t d = some d := by
  have hdef := piter_some_of_le f d n hn
  have hmaps : Set.MapsTo (fun t => (piter f t d).getD 1 - 1) (↑(Finset.range (n + 1))) (↑(Finset.range n)) := by
    intro t ht
    simp only [Finset.coe_range, Set.mem_Iio] at ht ⊢
    obtain ⟨c', hc'⟩ := hdef t (by omega)
    have := piter_range hf h1 h2 t c' hc'
    rw [hc']; simp only [Option.getD_some]; omega
  obtain ⟨x, hx, y, hy, hne, hxy⟩ :=
    Finset.exists_ne_map_eq_of_card_lt_of_maps_to (by simp) hmaps
  simp only [Finset.mem_range] at hx hy
  obtain ⟨cx, hcx⟩ := hdef x (by omega)
  obtain ⟨cy, hcy⟩ := hdef y (by omega)
  have hrx := piter_range hf h1 h2 x cx hcx
  have hry := piter_range hf h1 h2 y cy hcy
  simp only [hcx, hcy, Option.getD_some] at hxy
  have hc : cx = cy := by omega
  subst hc
  rcases Nat.lt_or_gt_of_ne hne with hlt | hlt
  · refine ⟨y - x, by omega, by omega, ?_⟩
    exact piter_back_many hf d (y - x) x cx hcx (by rw [Nat.add_sub_cancel' (Nat.le_of_lt hlt)]; exact hcy)
  · refine ⟨x - y, by omega, by omega, ?_⟩
    exact piter_back_many hf d (x - y) y cx hcy (by rw [Nat.add_sub_cancel' (Nat.le_of_lt hlt)]; exact hcx)

/-! ### the fuelled loop of the generic `r` -/

/-- the composite partial map of the generic `r`: `walk e [i, j]` -/
def View.step2 (s : View) (i j : Nat) : Nat → Option Nat := fun e => s.walk e [i, j]

theorem View.step2_eq (s : View) (i j e : Nat) : s.step2 i j e = (s.op i e).bind (s.op j) := by
  simp [View.step2, View.walk, List.foldl]

/-- what `rLoop` returns, in terms of the iterates of `step2` -/
def RLoopRes (f : Nat → Option Nat) (d r fuel : Nat) : Outcome (Option Nat) → Prop
  | .ok (some k) => r < k ∧ k ≤ r + fuel ∧ piter f k d = some d ∧ ∀ t, 1 ≤ t → t < k → piter f t d ≠ some d
  | .ok none => ∃ t, r ≤ t ∧ t < r + fuel ∧ (∃ c, piter f t d = some c) ∧ piter f (t + 1) d = none ∧
      ∀ u, 1 ≤ u → u ≤ t → piter f u d ≠ some d
  | .panic => (∃ c, piter f (r + fuel) d = some c) ∧ ∀ t, 1 ≤ t → t ≤ r + fuel → piter f t d ≠ some d
  | .err => False

theorem View.rLoop_res (s : View) (i j d : Nat) :
    ∀ fuel e r, piter (s.step2 i j) r d = some e →
      (∀ t, 1 ≤ t → t ≤ r → piter (s.step2 i j) t d ≠ some d) →
      RLoopRes (s.step2 i j) d r fuel (s.rLoop i j d fuel e r)
  | 0, e, r, he, hmin => by
    unfold View.rLoop
    exact ⟨⟨e, he⟩, hmin⟩
  | fuel + 1, e, r, he, hmin => by
    unfold View.rLoop
    have hs : piter (s.step2 i j) (r + 1) d = s.walk e [i, j] := by
      rw [piter_succ, he]; rfl
    cases hw : s.walk e [i, j] with
    | none =>
      simp only
      exact ⟨r, by omega, by omega, ⟨e, he⟩, by rw [hs, hw], hmin⟩
    | some c =>
      simp only
      rw [hw] at hs
      by_cases hc : c = d
      · rw [if_pos hc]
        subst hc
        refine ⟨by omega, by omega, hs, ?_⟩
        intro t ht1 ht2; exact hmin t ht1 (by omega)
      · rw [if_neg hc]
        have hmin' : ∀ t, 1 ≤ t → t ≤ r + 1 → piter (s.step2 i j) t d ≠ some d := by
          intro t ht1 ht2
          by_cases htr : t ≤ r
          · exact hmin t ht1 htr
          · have : t = r + 1 := by omega
            subst this; rw [hs]; intro h; cases h; exact hc rfl
        have ih := View.rLoop_res s i j d fuel c (r + 1) hs hmin'
        have e1 : r + 1 + fuel = r + (fuel + 1) := by omega
        generalize s.rLoop i j d fuel c (r + 1) = res at ih
        match res, ih with
        | .ok (some k), ⟨a, b, c', d'⟩ => exact ⟨by omega, by omega, c', d'⟩
        | .ok none, ⟨t, a, b, c', d', e'⟩ => exact ⟨t, by omega, by omega, c', d', e'⟩
        | .panic, ⟨a, b⟩ => exact ⟨by rw [← e1]; exact a, fun t h1 h2 => b t h1 (by omega)⟩

/-- partial involutions: what the generic queries need of a representation -/
structure View.PInvol (s : View) : Prop where
  range : ∀ i d e, s.op i d = some e → 1 ≤ e ∧ e ≤ s.size
  invol : ∀ i d e, s.op i d = some e → s.op i e = some d

theorem View.PInvol.pinj {s : View} (h : s.PInvol) (i j : Nat) : PInj (s.step2 i j) s.size := by
  constructor
  · intro e c hc
    rw [View.step2_eq] at hc
    cases hx : s.op i e with
    | none => rw [hx] at hc; cases hc
    | some x => rw [hx] at hc; exact h.range j x c hc
  · intro e e' c hc hc'
    rw [View.step2_eq] at hc hc'
    cases hx : s.op i e with
    | none => rw [hx] at hc; cases hc
    | some x =>
      cases hy : s.op i e' with
      | none => rw [hy] at hc'; cases hc'
      | some y =>
        rw [hx] at hc; rw [hy] at hc'
        have a := h.invol j x c hc
        have b := h.invol j y c hc'
        rw [a] at b; cases b
        have a' := h.invol i e x hx
        have b' := h.invol i e' x hy
        rw [a'] at b'; cases b'; rfl

/-- result of the generic `r` on a partial-involution view: never `panic` (the Rust loop
    terminates), `none` exactly when an undefined entry is met before returning, else the
    least period -/
def RRes (f : Nat → Option Nat) (d n : Nat) : Outcome (Option Nat) → Prop
  | .ok (some k) => 1 ≤ k ∧ k ≤ n ∧ piter f k d = some d ∧ ∀ t, 1 ≤ t → t < k → piter f t d ≠ some d
  | .ok none => ∃ t, t < n ∧ (∃ c, piter f t d = some c) ∧ piter f (t + 1) d = none ∧
      ∀ u, 1 ≤ u → u ≤ t → piter f u d ≠ some d
  | _ => False

theorem View.r_res {s : View} (h : s.PInvol) {i j d : Nat} (hi : i ≤ s.dim) (hj : j ≤ s.dim)
    (h1 : 1 ≤ d) (h2 : d ≤ s.size) : RRes (s.step2 i j) d s.size (s.r i j d) := by
  unfold View.r
  rw [if_neg (by simp only [Bool.or_eq_true, decide_eq_true_eq]; omega)]
  have hres := View.rLoop_res s i j d (s.size + 1) d 0 (piter_zero _ _) (by intro t a b; omega)
  have hpi := h.pinj i j
  generalize s.rLoop i j d (s.size + 1) d 0 = res at hres
  match res, hres with
  | .ok (some k), ⟨a, b, c, e⟩ =>
    refine ⟨by omega, ?_, c, e⟩
    by_cases hk : k ≤ s.size
    · exact hk
    · obtain ⟨c', hc'⟩ := piter_some_of_le _ d k c s.size (by omega)
      obtain ⟨t, ht1, ht2, ht3⟩ := piter_returns hpi h1 h2 hc'
      exact absurd ht3 (e t ht1 (by omega))
  | .ok none, ⟨t, a, b, ⟨c, hc⟩, e, g⟩ =>
    refine ⟨t, ?_, ⟨c, hc⟩, e, g⟩
    by_cases hk : t < s.size
    · exact hk
    · obtain ⟨c', hc'⟩ := piter_some_of_le _ d t hc s.size (by omega)
      obtain ⟨t', ht1, ht2, ht3⟩ := piter_returns hpi h1 h2 hc'
      exact absurd ht3 (g t' ht1 (by omega))
  | .panic, ⟨⟨c, hc⟩, e⟩ =>
    obtain ⟨c', hc'⟩ := piter_some_of_le _ d _ hc s.size (by omega)
    obtain ⟨t, ht1, ht2, ht3⟩ := piter_returns hpi h1 h2 hc'
    exact absurd ht3 (e t ht1 (by omega))

end DSymVerif.DS
