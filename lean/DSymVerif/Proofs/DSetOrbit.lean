/-
Helper lemmas for property C02, part 2: the generic `r` (the unbounded Rust loop, modelled
with fuel `size + 1`) terminates on every (partial) involutive D-set and returns the least
period of the chamber under `op j ∘ op i`; agreement with the Spec's `orbitLen`.
-/
import DSymVerif.Proofs.DSetBasic
import Mathlib.Logic.Function.Iterate
import Mathlib.Data.Finset.Card

namespace DSymVerif.DS

/-! ### iterating a partial map -/

/-- one step of a partial map on `Option` (undefined stays undefined) -/
def pstep (f : Nat → Option Nat) : Option Nat → Option Nat := fun o => o.bind f

/-- `piter f t d` = `f^t d` for a partial map `f` -/
def piter (f : Nat → Option Nat) (t : Nat) (d : Nat) : Option Nat := (pstep f)^[t] (some d)

theorem piter_zero (f : Nat → Option Nat) (d : Nat) : piter f 0 d = some d := rfl

theorem piter_succ (f : Nat → Option Nat) (t d : Nat) : piter f (t + 1) d = (piter f t d).bind f := by
  unfold piter; rw [Function.iterate_succ_apply']; rfl

theorem piter_none_add (f : Nat → Option Nat) (d t : Nat) (h : piter f t d = none) :
    ∀ u, piter f (t + u) d = none
  | 0 => h
  | u + 1 => by rw [← Nat.add_assoc, piter_succ, piter_none_add f d t h u]; rfl

theorem piter_some_of_le (f : Nat → Option Nat) (d n : Nat) {c : Nat} (h : piter f n d = some c) :
    ∀ t, t ≤ n → ∃ c', piter f t d = some c' := by
  intro t ht
  cases hc : piter f t d with
  | some c' => exact ⟨c', rfl⟩
  | none =>
    have := piter_none_add f d t hc (n - t)
    rw [Nat.add_sub_cancel' ht, h] at this
    cases this

/-- a partial injection into `1..n` -/
structure PInj (f : Nat → Option Nat) (n : Nat) : Prop where
  range : ∀ e c, f e = some c → 1 ≤ c ∧ c ≤ n
  inj : ∀ e e' c, f e = some c → f e' = some c → e = e'

theorem piter_range {f : Nat → Option Nat} {n : Nat} (hf : PInj f n) {d : Nat} (h1 : 1 ≤ d) (h2 : d ≤ n) :
    ∀ t c, piter f t d = some c → 1 ≤ c ∧ c ≤ n
  | 0, c, h => by
    rw [piter_zero] at h; cases h; exact ⟨h1, h2⟩
  | t + 1, c, h => by
    rw [piter_succ] at h
    cases hx : piter f t d with
    | none => rw [hx] at h; cases h
    | some x => rw [hx] at h; exact hf.range x c h

theorem piter_back {f : Nat → Option Nat} {n : Nat} (hf : PInj f n) (d a b : Nat) {c : Nat}
    (ha : piter f (a + 1) d = some c) (hb : piter f (b + 1) d = some c) :
    piter f a d = piter f b d := by
  rw [piter_succ] at ha hb
  cases hx : piter f a d with
  | none => rw [hx] at ha; cases ha
  | some x =>
    cases hy : piter f b d with
    | none => rw [hy] at hb; cases hb
    | some y =>
      rw [hx] at ha; rw [hy] at hb
      rw [hf.inj x y c ha hb]

theorem piter_back_many {f : Nat → Option Nat} {n : Nat} (hf : PInj f n) (d p : Nat) :
    ∀ a c, piter f a d = some c → piter f (a + p) d = some c → piter f p d = some d
  | 0, c, ha, hb => by
    rw [piter_zero] at ha; cases ha; simpa using hb
  | a + 1, c, ha, hb => by
    have hb' : piter f (a + p + 1) d = some c := by rw [← hb]; congr 1; omega
    have h := piter_back hf d a (a + p) ha hb'
    obtain ⟨c', hc'⟩ := piter_some_of_le f d (a + 1) ha a (Nat.le_succ a)
    exact piter_back_many hf d p a c' hc' (by rw [← h]; exact hc')

/-- pigeonhole: a partial injection into `1..n` that can be iterated `n` times from `d`
    returns to `d` within `n` steps -/
theorem piter_returns {f : Nat → Option Nat} {n : Nat} (hf : PInj f n) {d : Nat} (h1 : 1 ≤ d) (h2 : d ≤ n)
    {c : Nat} (hn : piter f n d = some c) : ∃ t, 1 ≤ t ∧ t ≤ n ∧ piter f t d = some d := by
  have hdef := piter_some_of_le f d n hn
  have hmaps : Set.MapsTo (fun t => (piter f t d).getD 1 - 1) (↑(Finset.range (n + 1))) (↑(Finset.range n)) := by
    intro t ht
    simp only [Finset.coe_range, Set.mem_Iio] at ht ⊢
    obtain ⟨c', hc'⟩ := hdef t (by omega)
    have := piter_range hf h1 h2 t c' hc'
    rw [hc']; simp only [Option.getD_some]; omega
  obtain ⟨x, hx, y, hy, hne, hxy⟩ :=
    Finset.exists_ne_map_eq_of_card_lt_of_maps_to (by simp) hmaps
  simp only [Finset.mem_range] at hx hy
  obtain ⟨cx, hcx⟩ := hdef x (by omega)
  obtain ⟨cy, hcy⟩ := hdef y (by omega)
  have hrx := piter_range hf h1 h2 x cx hcx
  have hry := piter_range hf h1 h2 y cy hcy
  simp only [hcx, hcy, Option.getD_some] at hxy
  have hc : cx = cy := by omega
  subst hc
  rcases Nat.lt_or_gt_of_ne hne with hlt | hlt
  · refine ⟨y - x, by omega, by omega, ?_⟩
    exact piter_back_many hf d (y - x) x cx hcx (by rw [Nat.add_sub_cancel' (Nat.le_of_lt hlt)]; exact hcy)
  · refine ⟨x - y, by omega, by omega, ?_⟩
    exact piter_back_many hf d (x - y) y cx hcy (by rw [Nat.add_sub_cancel' (Nat.le_of_lt hlt)]; exact hcx)

/-! ### the fuelled loop of the generic `r` -/

/-- the composite partial map of the generic `r`: `walk e [i, j]` -/
def View.step2 (s : View) (i j : Nat) : Nat → Option Nat := fun e => s.walk e [i, j]

theorem View.step2_eq (s : View) (i j e : Nat) : s.step2 i j e = (s.op i e).bind (s.op j) := by
  simp [View.step2, View.walk, List.foldl]

/-- what `rLoop` returns, in terms of the iterates of `step2` -/
def RLoopRes (f : Nat → Option Nat) (d r fuel : Nat) : Outcome (Option Nat) → Prop
  | .ok (some k) => r < k ∧ k ≤ r + fuel ∧ piter f k d = some d ∧ ∀ t, 1 ≤ t → t < k → piter f t d ≠ some d
  | .ok none => ∃ t, r ≤ t ∧ t < r + fuel ∧ (∃ c, piter f t d = some c) ∧ piter f (t + 1) d = none ∧
      ∀ u, 1 ≤ u → u ≤ t → piter f u d ≠ some d
  | .panic => (∃ c, piter f (r + fuel) d = some c) ∧ ∀ t, 1 ≤ t → t ≤ r + fuel → piter f t d ≠ some d
  | .err => False

theorem View.rLoop_res (s : View) (i j d : Nat) :
    ∀ fuel e r, piter (s.step2 i j) r d = some e →
      (∀ t, 1 ≤ t → t ≤ r → piter (s.step2 i j) t d ≠ some d) →
      RLoopRes (s.step2 i j) d r fuel (s.rLoop i j d fuel e r)
  | 0, e, r, he, hmin => by
    unfold View.rLoop
    exact ⟨⟨e, he⟩, hmin⟩
  | fuel + 1, e, r, he, hmin => by
    unfold View.rLoop
    have hs : piter (s.step2 i j) (r + 1) d = s.walk e [i, j] := by
      rw [piter_succ, he]; rfl
    cases hw : s.walk e [i, j] with
    | none =>
      simp only
      exact ⟨r, by omega, by omega, ⟨e, he⟩, by rw [hs, hw], hmin⟩
    | some c =>
      simp only
      rw [hw] at hs
      by_cases hc : c = d
      · rw [if_pos hc]
        subst hc
        refine ⟨by omega, by omega, hs, ?_⟩
        intro t ht1 ht2; exact hmin t ht1 (by omega)
      · rw [if_neg hc]
        have hmin' : ∀ t, 1 ≤ t → t ≤ r + 1 → piter (s.step2 i j) t d ≠ some d := by
          intro t ht1 ht2
          by_cases htr : t ≤ r
          · exact hmin t ht1 htr
          · have : t = r + 1 := by omega
            subst this; rw [hs]; intro h; cases h; exact hc rfl
        have ih := View.rLoop_res s i j d fuel c (r + 1) hs hmin'
        have e1 : r + 1 + fuel = r + (fuel + 1) := by omega
        generalize s.rLoop i j d fuel c (r + 1) = res at ih
        match res, ih with
        | .ok (some k), ⟨a, b, c', d'⟩ => exact ⟨by omega, by omega, c', d'⟩
        | .ok none, ⟨t, a, b, c', d', e'⟩ => exact ⟨t, by omega, by omega, c', d', e'⟩
        | .panic, ⟨a, b⟩ => exact ⟨by rw [← e1]; exact a, fun t h1 h2 => b t h1 (by omega)⟩

/-- partial involutions: what the generic queries need of a representation -/
structure View.PInvol (s : View) : Prop where
  range : ∀ i d e, s.op i d = some e → 1 ≤ e ∧ e ≤ s.size
  invol : ∀ i d e, s.op i d = some e → s.op i e = some d

theorem View.PInvol.pinj {s : View} (h : s.PInvol) (i j : Nat) : PInj (s.step2 i j) s.size := by
  constructor
  · intro e c hc
    rw [View.step2_eq] at hc
    cases hx : s.op i e with
    | none => rw [hx] at hc; cases hc
    | some x => rw [hx] at hc; exact h.range j x c hc
  · intro e e' c hc hc'
    rw [View.step2_eq] at hc hc'
    cases hx : s.op i e with
    | none => rw [hx] at hc; cases hc
    | some x =>
      cases hy : s.op i e' with
      | none => rw [hy] at hc'; cases hc'
      | some y =>
        rw [hx] at hc; rw [hy] at hc'
        have a := h.invol j x c hc
        have b := h.invol j y c hc'
        rw [a] at b; cases b
        have a' := h.invol i e x hx
        have b' := h.invol i e' x hy
        rw [a'] at b'; cases b'; rfl

/-- result of the generic `r` on a partial-involution view: never `panic` (the Rust loop
    terminates), `none` exactly when an undefined entry is met before returning, else the
    least period -/
def RRes (f : Nat → Option Nat) (d n : Nat) : Outcome (Option Nat) → Prop
  | .ok (some k) => 1 ≤ k ∧ k ≤ n ∧ piter f k d = some d ∧ ∀ t, 1 ≤ t → t < k → piter f t d ≠ some d
  | .ok none => ∃ t, t < n ∧ (∃ c, piter f t d = some c) ∧ piter f (t + 1) d = none ∧
      ∀ u, 1 ≤ u → u ≤ t → piter f u d ≠ some d
  | _ => False

theorem View.r_res {s : View} (h : s.PInvol) {i j d : Nat} (hi : i ≤ s.dim) (hj : j ≤ s.dim)
    (h1 : 1 ≤ d) (h2 : d ≤ s.size) : RRes (s.step2 i j) d s.size (s.r i j d) := by
  unfold View.r
  rw [if_neg (by simp only [Bool.or_eq_true, decide_eq_true_eq]; omega)]
  have hres := View.rLoop_res s i j d (s.size + 1) d 0 (piter_zero _ _) (by intro t a b; omega)
  have hpi := h.pinj i j
  generalize s.rLoop i j d (s.size + 1) d 0 = res at hres
  match res, hres with
  | .ok (some k), ⟨a, b, c, e⟩ =>
    refine ⟨by omega, ?_, c, e⟩
    by_cases hk : k ≤ s.size
    · exact hk
    · obtain ⟨c', hc'⟩ := piter_some_of_le _ d k c s.size (by omega)
      obtain ⟨t, ht1, ht2, ht3⟩ := piter_returns hpi h1 h2 hc'
      exact absurd ht3 (e t ht1 (by omega))
  | .ok none, ⟨t, a, b, ⟨c, hc⟩, e, g⟩ =>
    refine ⟨t, ?_, ⟨c, hc⟩, e, g⟩
    by_cases hk : t < s.size
    · exact hk
    · obtain ⟨c', hc'⟩ := piter_some_of_le _ d t hc s.size (by omega)
      obtain ⟨t', ht1, ht2, ht3⟩ := piter_returns hpi h1 h2 hc'
      exact absurd ht3 (g t' ht1 (by omega))
  | .panic, ⟨⟨c, hc⟩, e⟩ =>
    obtain ⟨c', hc'⟩ := piter_some_of_le _ d _ hc s.size (by omega)
    obtain ⟨t, ht1, ht2, ht3⟩ := piter_returns hpi h1 h2 hc'
    exact absurd ht3 (e t ht1 (by omega))

/-! ### the concrete representations -/

theorem opPartial_eq_some {s : DSetData} {i d e : Nat} :
    s.opPartial i d = some e ↔ i ≤ s.dim ∧ 1 ≤ d ∧ d ≤ s.size ∧ s.opU i d = e ∧ e ≠ 0 := by
  unfold DSetData.opPartial
  by_cases h : (decide (i > s.dim) || decide (d < 1) || decide (d > s.size)) = true
  · rw [if_pos h]
    simp only [Bool.or_eq_true, decide_eq_true_eq] at h
    constructor
    · intro h'; cases h'
    · intro h'; omega
  · rw [if_neg h]
    simp only [Bool.or_eq_true, decide_eq_true_eq] at h
    cases hx : s.opU i d with
    | zero => simp; intro _ _ _ h0; omega
    | succ x =>
      simp only [Option.some.injEq]
      constructor
      · intro h'; subst h'; exact ⟨by omega, by omega, by omega, rfl, by omega⟩
      · intro h'; exact h'.2.2.2.1

theorem opSimple_eq_some {s : DSetData} {i d e : Nat} :
    s.opSimple i d = some e ↔ i ≤ s.dim ∧ 1 ≤ d ∧ d ≤ s.size ∧ s.opU i d = e := by
  unfold DSetData.opSimple
  by_cases h : (decide (i > s.dim) || decide (d < 1) || decide (d > s.size)) = true
  · rw [if_pos h]
    simp only [Bool.or_eq_true, decide_eq_true_eq] at h
    constructor
    · intro h'; cases h'
    · intro h'; omega
  · rw [if_neg h]
    simp only [Bool.or_eq_true, decide_eq_true_eq] at h
    simp only [Option.some.injEq]
    constructor
    · intro h'; exact ⟨by omega, by omega, by omega, h'⟩
    · intro h'; exact h'.2.2.2

theorem ValidPartialSet.pinvol {s : DSetData} (h : ValidPartialSet s) : s.viewPartial.PInvol := by
  constructor
  · intro i d e he
    obtain ⟨hi, h1, h2, rfl, h0⟩ := opPartial_eq_some.1 he
    exact ⟨by omega, h.range i d hi h1 h2⟩
  · intro i d e he
    obtain ⟨hi, h1, h2, rfl, h0⟩ := opPartial_eq_some.1 he
    exact opPartial_eq_some.2 ⟨hi, by omega, h.range i d hi h1 h2, h.invol i d hi h1 h2 h0, by omega⟩

theorem ValidSet.pinvol {s : DSetData} (h : ValidSet s) : s.viewSimple.PInvol := by
  constructor
  · intro i d e he
    obtain ⟨hi, h1, h2, rfl⟩ := opSimple_eq_some.1 he
    exact h.range i d hi h1 h2
  · intro i d e he
    obtain ⟨hi, h1, h2, rfl⟩ := opSimple_eq_some.1 he
    have := h.range i d hi h1 h2
    exact opSimple_eq_some.2 ⟨hi, this.1, this.2, h.invol i d hi h1 h2⟩

/-- on a complete D-set the two plain representations have the same `op` -/
theorem ValidSet.opPartial_eq_opSimple {s : DSetData} (h : ValidSet s) : s.opPartial = s.opSimple := by
  funext i d
  cases hx : s.opSimple i d with
  | none =>
    cases hy : s.opPartial i d with
    | none => rfl
    | some e =>
      obtain ⟨a, b, c, e', _⟩ := opPartial_eq_some.1 hy
      rw [opSimple_eq_some.2 ⟨a, b, c, e'⟩] at hx; cases hx
  | some e =>
    obtain ⟨a, b, c, e'⟩ := opSimple_eq_some.1 hx
    have := h.range i d a b c
    exact opPartial_eq_some.2 ⟨a, b, c, e', by omega⟩

theorem ValidSet.viewPartial_eq_viewSimple {s : DSetData} (h : ValidSet s) : s.viewPartial = s.viewSimple := by
  unfold DSetData.viewPartial DSetData.viewSimple; rw [h.opPartial_eq_opSimple]

/-- the total composite `op j ∘ op i` on the raw table -/
def DSetData.comp (s : DSetData) (i j : Nat) : Nat → Nat := fun e => s.opU j (s.opU i e)

theorem ValidSet.comp_range {s : DSetData} (h : ValidSet s) {i j : Nat} (hi : i ≤ s.dim) (hj : j ≤ s.dim)
    {d : Nat} (h1 : 1 ≤ d) (h2 : d ≤ s.size) : ∀ t, 1 ≤ (s.comp i j)^[t] d ∧ (s.comp i j)^[t] d ≤ s.size
  | 0 => ⟨h1, h2⟩
  | t + 1 => by
    rw [Function.iterate_succ_apply']
    have a := ValidSet.comp_range h hi hj h1 h2 t
    have b := h.range i _ hi a.1 a.2
    exact h.range j _ hj b.1 b.2

theorem ValidSet.piter_eq {s : DSetData} (h : ValidSet s) {i j : Nat} (hi : i ≤ s.dim) (hj : j ≤ s.dim)
    {d : Nat} (h1 : 1 ≤ d) (h2 : d ≤ s.size) :
    ∀ t, piter (s.viewSimple.step2 i j) t d = some ((s.comp i j)^[t] d)
  | 0 => rfl
  | t + 1 => by
    rw [piter_succ, ValidSet.piter_eq h hi hj h1 h2 t, Function.iterate_succ_apply']
    have a := h.comp_range hi hj h1 h2 t
    have b := h.range i _ hi a.1 a.2
    simp only [Option.bind_some, View.step2_eq]
    show (s.opSimple i _).bind (s.opSimple j) = _
    rw [opSimple_eq_some.2 ⟨hi, a.1, a.2, rfl⟩]
    simp only [Option.bind_some]
    rw [opSimple_eq_some.2 ⟨hj, b.1, b.2, rfl⟩]
    rfl

/-- **termination and meaning of the generic `r`** on a complete D-set: it returns the least
    period `k ∈ 1..size` of `d` under `op j ∘ op i`, in both plain representations -/
theorem ValidSet.r_generic {s : DSetData} (h : ValidSet s) {i j d : Nat} (hi : i ≤ s.dim) (hj : j ≤ s.dim)
    (h1 : 1 ≤ d) (h2 : d ≤ s.size) :
    ∃ k, 1 ≤ k ∧ k ≤ s.size ∧ s.viewSimple.r i j d = .ok (some k) ∧ s.viewPartial.r i j d = .ok (some k) ∧
      (s.comp i j)^[k] d = d ∧ ∀ t, 1 ≤ t → t < k → (s.comp i j)^[t] d ≠ d := by
  have hres := View.r_res h.pinvol (i := i) (j := j) (d := d) hi hj h1 h2
  rw [h.viewPartial_eq_viewSimple]
  have hp := h.piter_eq hi hj h1 h2
  generalize s.viewSimple.r i j d = res at hres
  match res, hres with
  | .ok (some k), ⟨a, b, c, e⟩ =>
    refine ⟨k, a, b, rfl, rfl, ?_, ?_⟩
    · rw [hp k] at c; exact Option.some.inj c
    · intro t ht1 ht2 heq
      exact e t ht1 ht2 (by rw [hp t, heq])
  | .ok none, ⟨t, _, _, e, _⟩ =>
    rw [hp (t + 1)] at e; cases e

/-! ### agreement with the Spec's `orbitLen` -/

/-- the Spec's view of a stored D-set (branching table irrelevant for `orbitLen`) -/
def DSetData.toG (s : DSetData) (v : Nat → Nat → Nat := fun _ _ => 0) : SpecC02.G :=
  { size := s.size, dim := s.dim, op := s.opU, v := v }

theorem rLoop_eq_orbitLenAux {s : DSetData} (h : ValidPartialSet s) (v : Nat → Nat → Nat) {i j : Nat}
    (hi : i ≤ s.dim) (hj : j ≤ s.dim) (d : Nat) :
    ∀ fuel e r, 1 ≤ e → e ≤ s.size → s.viewPartial.rLoop i j d fuel e r ≠ .panic →
      s.viewPartial.rLoop i j d fuel e r = .ok (SpecC02.G.orbitLenAux (s.toG v) i j d fuel e r)
  | 0, e, r, _, _, hp => by
    unfold View.rLoop at hp; exact absurd rfl hp
  | fuel + 1, e, r, he1, he2, hp => by
    unfold View.rLoop at hp ⊢
    unfold SpecC02.G.orbitLenAux
    have hw : s.viewPartial.walk e [i, j] = (s.opPartial i e).bind (s.opPartial j) :=
      View.step2_eq s.viewPartial i j e
    rw [hw] at hp ⊢
    show _ = Outcome.ok (if (s.opU i e == 0) = true then none else
      if (s.opU j (s.opU i e) == 0) = true then none else
      if (s.opU j (s.opU i e) == d) = true then some (r + 1)
      else SpecC02.G.orbitLenAux (s.toG v) i j d fuel (s.opU j (s.opU i e)) (r + 1))
    by_cases hx : s.opU i e = 0
    · have : s.opPartial i e = none := by
        cases hc : s.opPartial i e with
        | none => rfl
        | some c => have := opPartial_eq_some.1 hc; omega
      rw [this]; simp [hx]
    · have hxr := h.range i e hi he1 he2
      rw [opPartial_eq_some.2 ⟨hi, he1, he2, rfl, hx⟩] at hp ⊢
      simp only [Option.bind_some] at hp ⊢
      by_cases hy : s.opU j (s.opU i e) = 0
      · have : s.opPartial j (s.opU i e) = none := by
          cases hc : s.opPartial j (s.opU i e) with
          | none => rfl
          | some c => have := opPartial_eq_some.1 hc; omega
        rw [this]; simp [hx, hy]
      · have hyr := h.range j _ hj (by omega) hxr
        rw [opPartial_eq_some.2 ⟨hj, by omega, hxr, rfl, hy⟩] at hp ⊢
        simp only at hp ⊢
        by_cases hc : s.opU j (s.opU i e) = d
        · rw [if_pos hc]; rw [hc] at hy; simp [hx, hy, hc]
        · rw [if_neg hc] at hp ⊢
          simp only [beq_iff_eq, hx, hy, hc, if_false]
          exact rLoop_eq_orbitLenAux h v hi hj d fuel _ (r + 1) (by omega) hyr hp

/-- on every (possibly incomplete) involutive D-set the generic `r` of `PartialDSet`
    terminates and is the Spec's `orbitLen` -/
theorem ValidPartialSet.r_eq_orbitLen {s : DSetData} (h : ValidPartialSet s) (v : Nat → Nat → Nat) {i j d : Nat}
    (hi : i ≤ s.dim) (hj : j ≤ s.dim) (h1 : 1 ≤ d) (h2 : d ≤ s.size) :
    s.viewPartial.r i j d = .ok (SpecC02.G.orbitLen (s.toG v) i j d) := by
  have hres := View.r_res h.pinvol (i := i) (j := j) (d := d) hi hj h1 h2
  have hne : s.viewPartial.r i j d ≠ .panic := by
    intro hp; rw [hp] at hres; exact hres
  unfold View.r at hne ⊢
  rw [if_neg (by simp only [Bool.or_eq_true, decide_eq_true_eq]; show ¬ (((i > s.dim ∨ j > s.dim) ∨ d < 1) ∨ d > s.size); omega)] at hne ⊢
  exact rLoop_eq_orbitLenAux h v hi hj d (s.size + 1) d 0 h1 h2 hne

/-! ### non-adjacent indices: the table-free shortcut of `PartialDSym` / `SimpleDSym` -/

theorem DSymData.view_eq (s : DSymData) : s.view = s.dset.viewSimple := rfl

theorem FarCommute.symm {s : DSetData} (hf : FarCommute s) {i j d : Nat} (hij : i + 1 < j ∨ j + 1 < i)
    (hi : i ≤ s.dim) (hj : j ≤ s.dim) (h1 : 1 ≤ d) (h2 : d ≤ s.size) :
    s.opU j (s.opU i d) = s.opU i (s.opU j d) := by
  rcases hij with h | h
  · exact hf i j d h hj h1 h2
  · exact (hf j i d h hi h1 h2).symm

/-- for |i-j| > 1 on a D-set with commuting far operations the orbit of `d` under
    `op j ∘ op i` has length 1 if `op i d = op j d` and 2 otherwise -/
theorem ValidSet.r_far {s : DSetData} (h : ValidSet s) (hf : FarCommute s) {i j d : Nat}
    (hij : i + 1 < j ∨ j + 1 < i) (hi : i ≤ s.dim) (hj : j ≤ s.dim) (h1 : 1 ≤ d) (h2 : d ≤ s.size) :
    s.viewSimple.r i j d = .ok (some (if s.opU i d = s.opU j d then 1 else 2)) := by
  obtain ⟨k, hk1, _, hr, _, hper, hmin⟩ := h.r_generic hi hj h1 h2
  rw [hr]
  have hid := h.range i d hi h1 h2
  have hjd := h.range j d hj h1 h2
  by_cases he : s.opU i d = s.opU j d
  · rw [if_pos he]
    have hg : (s.comp i j)^[1] d = d := by
      show s.opU j (s.opU i d) = d
      rw [he]; exact h.invol j d hj h1 h2
    have : k = 1 := by
      by_cases hk : k = 1
      · exact hk
      · exact absurd hg (hmin 1 (by omega) (by omega))
    rw [this]
  · rw [if_neg he]
    have hg1 : (s.comp i j)^[1] d ≠ d := by
      show s.opU j (s.opU i d) ≠ d
      intro hc
      apply he
      have := h.invol j (s.opU i d) hj hid.1 hid.2
      rw [hc] at this; exact this.symm
    have hg2 : (s.comp i j)^[2] d = d := by
      show s.opU j (s.opU i (s.opU j (s.opU i d))) = d
      rw [← hf.symm hij hi hj hid.1 hid.2, h.invol i d hi h1 h2]
      exact h.invol j d hj h1 h2
    have : k = 2 := by
      by_cases hk : k = 2
      · exact hk
      · by_cases hk' : k = 1
        · subst hk'; exact absurd hper hg1
        · exact absurd hg2 (hmin 2 (by omega) (by omega))
    rw [this]

theorem DSymData.rPartial_far (s : DSymData) {i j d : Nat}
    (hij : i + 1 < j ∨ j + 1 < i) (hi : i ≤ s.dim) (hj : j ≤ s.dim) (h1 : 1 ≤ d) (h2 : d ≤ s.size) :
    s.rPartial i j d = .ok (some (if s.dset.opU i d = s.dset.opU j d then 1 else 2)) := by
  unfold DSymData.rPartial
  have ho : ¬ s.outOfRange i j d = true := by rw [outOfRange_iff]; omega
  rw [if_neg ho, if_neg (by omega), if_neg (by omega), if_neg (by omega)]
  have a : s.op i d = some (s.dset.opU i d) := opSimple_eq_some.2 ⟨hi, h1, h2, rfl⟩
  have b : s.op j d = some (s.dset.opU j d) := opSimple_eq_some.2 ⟨hj, h1, h2, rfl⟩
  rw [a, b]
  by_cases he : s.dset.opU i d = s.dset.opU j d
  · rw [if_pos (by rw [he]), if_pos he]
  · rw [if_neg (by intro hc; exact he (Option.some.inj hc)), if_neg he]

end DSymVerif.DS
