/-
Helper lemmas for property C08, part 13: one trace of `trace_boundary` follows the boundary walk
`phi` once around and marks exactly the mirror ends of its darts.
-/
import DSymVerif.Proofs.Delaney2dDarts

namespace DSymVerif.D2
open DSymVerif.DS

/-- the branching number the trace reads at a dart -/
def vOf (y : DSymData) (δ : Dart) : Nat := vN y δ.1 δ.2.1 δ.2.2

section
variable {y : DSymData} (h : ValidSym y) (hdim : y.dim = 2)
include h hdim

theorem traceLoop_unfold (rep : Rep) {δ : Dart} (hδ : ValidDart y δ) (fuel : Nat) (corners : List Nat)
    (seen : List (Nat × Nat)) :
    traceLoop ⟨y, rep⟩ (fuel + 1) δ.1 δ.2.1 δ.2.2 corners seen =
      if (δ.le :: seen).contains (phi y δ).le = true then
        .ok (if vOf y δ > 1 then corners ++ [vOf y δ] else corners, δ.le :: seen)
      else traceLoop ⟨y, rep⟩ fuel (phi y δ).1 (phi y δ).2.1 (phi y δ).2.2
        (if vOf y δ > 1 then corners ++ [vOf y δ] else corners) (δ.le :: seen) := by
  obtain ⟨h1, h2, h3, h4, h5, h6⟩ := hδ
  have hδ' : ValidDart y δ := ⟨h1, h2, h3, h4, h5, h6⟩
  have hv := unwrapV_v h rep (i := δ.1) (j := δ.2.1) (by omega) (by omega) ⟨h4, h5⟩
  obtain ⟨_, _, _, hop, _, _, _⟩ := tau_spec h.set hdim hδ' rep
  have hphi := (phi_valid h.set hdim hδ').2
  simp only [traceLoop, hv, hop]
  rw [if_neg (by omega)]
  rw [hphi]
  rfl

omit h hdim in
/-- a duplicate-free list of mirror ends has at most `3·size` entries -/
theorem le_list_bound (l : List (Nat × Nat)) (hnd : l.Nodup)
    (hl : ∀ p ∈ l, p.1 ≤ 2 ∧ 1 ≤ p.2 ∧ p.2 ≤ y.size) : l.length ≤ 3 * y.size := by
  have hsub : l.toFinset ⊆ (Finset.range 3) ×ˢ (Finset.Icc 1 y.size) := by
    intro p hp
    have := hl p (List.mem_toFinset.1 hp)
    simp only [Finset.mem_product, Finset.mem_range, Finset.mem_Icc]
    omega
  have := Finset.card_le_card hsub
  rw [List.toFinset_card_of_nodup hnd, Finset.card_product, Finset.card_range, Nat.card_Icc] at this
  omega

/-- **one trace**: from an unmarked mirror end the loop of `trace_boundary` walks once around
    (`phi^n δ0 = δ0`), collecting the branching numbers > 1 of the darts it passes and marking
    their mirror ends -/
theorem trace_run (rep : Rep) {M : List Dart} (hM : Marked y M) {δ0 : Dart} (h0 : ValidDart y δ0) :
    ∀ (fuel m : Nat) (corners : List Nat),
    (((phi y)^[m] δ0).le :: (((dlist y δ0 m).reverse.map Dart.le) ++ M.map Dart.le)).Nodup →
    3 * y.size + 1 ≤ fuel + (((dlist y δ0 m).reverse.map Dart.le) ++ M.map Dart.le).length →
    ∃ n, m < n ∧ (phi y)^[n] δ0 = δ0 ∧
      traceLoop ⟨y, rep⟩ fuel ((phi y)^[m] δ0).1 ((phi y)^[m] δ0).2.1 ((phi y)^[m] δ0).2.2 corners
        (((dlist y δ0 m).reverse.map Dart.le) ++ M.map Dart.le) =
        .ok (corners ++ ((((dlist y δ0 n).drop m).map (vOf y)).filter (· > 1)),
             ((dlist y δ0 n).reverse.map Dart.le) ++ M.map Dart.le) ∧
      (((dlist y δ0 n).reverse.map Dart.le) ++ M.map Dart.le).Nodup := by
  intro fuel
  induction fuel with
  | zero =>
    intro m corners hnd hf
    exfalso
    have hb := le_list_bound _ hnd (by
      intro p hp
      rcases List.mem_cons.1 hp with rfl | hp
      · obtain ⟨a, _, _, b, c, _⟩ := phi_iter_valid h.set hdim h0 m
        exact ⟨a, b, c⟩
      · rcases List.mem_append.1 hp with hp | hp
        · obtain ⟨δ, hδ, rfl⟩ := List.mem_map.1 hp
          obtain ⟨q, _, rfl⟩ := mem_dlist.1 (List.mem_reverse.1 hδ)
          obtain ⟨a, _, _, b, c, _⟩ := phi_iter_valid h.set hdim h0 q
          exact ⟨a, b, c⟩
        · obtain ⟨δ, hδ, rfl⟩ := List.mem_map.1 hp
          obtain ⟨a, _, _, b, c, _⟩ := hM.valid δ hδ
          exact ⟨a, b, c⟩)
    simp only [List.length_cons] at hb
    omega
  | succ fuel ih =>
    intro m corners hnd hf
    have hvm := phi_iter_valid h.set hdim h0 m
    rw [traceLoop_unfold h hdim rep hvm]
    have hsucc : phi y ((phi y)^[m] δ0) = (phi y)^[m + 1] δ0 := (Function.iterate_succ_apply' _ _ _).symm
    have hdl : ((dlist y δ0 (m + 1)).reverse.map Dart.le) ++ M.map Dart.le =
        ((phi y)^[m] δ0).le :: (((dlist y δ0 m).reverse.map Dart.le) ++ M.map Dart.le) := by
      rw [dlist_succ, List.reverse_append]; rfl
    by_cases hc : (((phi y)^[m] δ0).le :: (((dlist y δ0 m).reverse.map Dart.le) ++ M.map Dart.le)).contains
        (phi y ((phi y)^[m] δ0)).le = true
    · rw [if_pos hc]
      have hmem : ((phi y)^[m + 1] δ0).le ∈
          ((phi y)^[m] δ0).le :: (((dlist y δ0 m).reverse.map Dart.le) ++ M.map Dart.le) := by
        rw [← hsucc]; simpa using hc
      have hclose := closing h.set hdim hM h0 m hnd hmem
      refine ⟨m + 1, by omega, hclose, ?_, by rw [hdl]; exact hnd⟩
      rw [hdl]
      congr 2
      have : (dlist y δ0 (m + 1)).drop m = [(phi y)^[m] δ0] := by
        rw [dlist_succ]
        have hlen : (dlist y δ0 m).length = m := by unfold dlist; simp
        rw [List.drop_append_of_le_length (by omega), List.drop_of_length_le (by omega)]
        rfl
      rw [this]
      simp only [List.map_cons, List.map_nil]
      by_cases hgt : vOf y ((phi y)^[m] δ0) > 1
      · simp [hgt]
      · simp [hgt]
    · rw [if_neg hc]
      have hnotmem : ((phi y)^[m + 1] δ0).le ∉
          ((phi y)^[m] δ0).le :: (((dlist y δ0 m).reverse.map Dart.le) ++ M.map Dart.le) := by
        rw [← hsucc]; simpa using hc
      have hnd' : (((phi y)^[m + 1] δ0).le :: (((dlist y δ0 (m + 1)).reverse.map Dart.le) ++ M.map Dart.le)).Nodup := by
        rw [hdl]; exact List.nodup_cons.2 ⟨hnotmem, hnd⟩
      have hf' : 3 * y.size + 1 ≤ fuel + (((dlist y δ0 (m + 1)).reverse.map Dart.le) ++ M.map Dart.le).length := by
        rw [hdl, List.length_cons]; omega
      obtain ⟨n, hn, hcl, hrun, hndn⟩ := ih (m + 1)
        (if vOf y ((phi y)^[m] δ0) > 1 then corners ++ [vOf y ((phi y)^[m] δ0)] else corners) hnd' hf'
      refine ⟨n, by omega, hcl, ?_, hndn⟩
      rw [hsucc, ← hdl, hrun]
      congr 2
      have hdrop : (dlist y δ0 n).drop m = (phi y)^[m] δ0 :: (dlist y δ0 n).drop (m + 1) := by
        have hlen : (dlist y δ0 n).length = n := by unfold dlist; simp
        rw [List.drop_eq_getElem_cons (by omega)]
        congr 1
        unfold dlist
        simp
      rw [hdrop]
      simp only [List.map_cons]
      by_cases hgt : vOf y ((phi y)^[m] δ0) > 1
      · simp [hgt]
      · simp [hgt]

end

end DSymVerif.D2
