/-
Helper lemmas for property C09, part 10: words read along a walk that crosses two kinds of facets
alternately (the closed walks around 2-orbits), in an arbitrary group.

`op a c` is the chamber on the other side of facet `a` of chamber `c`, `val c a` the group element
attached to that crossing.  `wk a b n c` is the chamber reached from `c` after `n` crossings
(first `a`, then `b`, then `a`, …) and `Wf a b n c` the product of the `n` attached elements.
-/
import Mathlib.Tactic.Group
import Mathlib.Algebra.Group.Basic
import Mathlib.Logic.Function.Iterate
import Mathlib.Algebra.Group.Conj

namespace DSymVerif.FGP

section generic
variable {G : Type} [Group G] (op : Nat → Nat → Nat) (val : Nat → Nat → G)

/-- chamber after `n` alternating crossings starting with index `a` -/
def wk : Nat → Nat → Nat → Nat → Nat
  | _, _, 0, c => c
  | a, b, n + 1, c => wk b a n (op a c)

/-- product of the elements attached to the first `n` crossings -/
def Wf : Nat → Nat → Nat → Nat → G
  | _, _, 0, _ => 1
  | a, b, n + 1, c => val c a * Wf b a n (op a c)

/-- index of crossing number `n` (counted from 0) -/
def ix (a b n : Nat) : Nat := if n % 2 = 0 then a else b

theorem ix_zero (a b : Nat) : ix a b 0 = a := rfl

theorem ix_succ (a b n : Nat) : ix a b (n + 1) = ix b a n := by
  unfold ix
  rcases Nat.mod_two_eq_zero_or_one n with h | h
  · have : (n + 1) % 2 = 1 := by omega
    rw [h, this]; simp
  · have : (n + 1) % 2 = 0 := by omega
    rw [h, this]; simp

theorem wk_succ_last : ∀ (n a b c : Nat), wk op a b (n + 1) c = op (ix a b n) (wk op a b n c)
  | 0, a, b, c => rfl
  | n + 1, a, b, c => by
    show wk op b a (n + 1) (op a c) = _
    rw [wk_succ_last n b a (op a c), ix_succ]
    rfl

theorem Wf_succ_last : ∀ (n a b c : Nat),
    Wf op val a b (n + 1) c = Wf op val a b n c * val (wk op a b n c) (ix a b n)
  | 0, a, b, c => by simp [Wf, wk, ix]
  | n + 1, a, b, c => by
    show val c a * Wf op val b a (n + 1) (op a c) = val c a * Wf op val b a n (op a c) * _
    rw [Wf_succ_last n b a (op a c), ix_succ, mul_assoc]
    rfl

theorem wk_add_two (n a b c : Nat) : wk op a b (n + 2) c = wk op a b n (op b (op a c)) := rfl

theorem wk_even (a b : Nat) : ∀ (k c : Nat), wk op a b (2 * k) c = (fun e => op b (op a e))^[k] c
  | 0, c => rfl
  | k + 1, c => by
    have : 2 * (k + 1) = 2 * k + 2 := by ring
    rw [this, wk_add_two, wk_even a b k, Function.iterate_succ_apply]

theorem Wf_add_two (n a b c : Nat) :
    Wf op val a b (n + 2) c = val c a * val (op a c) b * Wf op val a b n (op b (op a c)) := by
  show val c a * (val (op a c) b * Wf op val a b n (op b (op a c))) = _
  rw [mul_assoc]

/-- reading the walk backwards gives the inverse, when crossing a facet back undoes the crossing -/
theorem Wf_inv (hinv : ∀ a c, op a (op a c) = c) (hpair : ∀ a c, val (op a c) a = (val c a)⁻¹) :
    ∀ (n a b c : Nat),
      (Wf op val a b n c)⁻¹ = Wf op val (ix b a n) (ix a b n) n (wk op a b n c)
  | 0, a, b, c => by simp [Wf]
  | n + 1, a, b, c => by
    rw [Wf_succ_last, mul_inv_rev, Wf_inv hinv hpair n a b c]
    show _ = val (wk op a b (n + 1) c) (ix b a (n + 1)) *
      Wf op val (ix a b (n + 1)) (ix b a (n + 1)) n (op (ix b a (n + 1)) (wk op a b (n + 1) c))
    rw [ix_succ b a n, ix_succ a b n, wk_succ_last, hinv, hpair]

/-- the closed walk read from `c` starting with `b` is the inverse of the one starting with `a` -/
theorem Wf_swap_closed (hinv : ∀ a c, op a (op a c) = c)
    (hpair : ∀ a c, val (op a c) a = (val c a)⁻¹) {a b r c : Nat}
    (hper : wk op a b (2 * r) c = c) :
    Wf op val b a (2 * r) c = (Wf op val a b (2 * r) c)⁻¹ := by
  rw [Wf_inv op val hinv hpair (2 * r) a b c, hper]
  have h1 : ix b a (2 * r) = b := by unfold ix; simp
  have h2 : ix a b (2 * r) = a := by unfold ix; simp
  rw [h1, h2]

/-- the closed walk read from the chamber across facet `a` is a conjugate of the closed walk read
    from `c` in the other direction -/
theorem Wf_shift_closed (hinv : ∀ a c, op a (op a c) = c) {a b r c : Nat} (hr : 1 ≤ r)
    (hper : wk op b a (2 * r) c = c) :
    Wf op val a b (2 * r) (op a c) =
      val (op a c) a * Wf op val b a (2 * r) c * (val (op a c) a)⁻¹ := by
  obtain ⟨n, hn⟩ : ∃ n, 2 * r = n + 1 := ⟨2 * r - 1, by omega⟩
  rw [hn] at hper ⊢
  have hlast : wk op b a n c = op a c := by
    have h := wk_succ_last op n b a c
    rw [hper] at h
    have hix : ix b a n = a := by
      unfold ix
      have : n % 2 = 1 := by omega
      rw [this]; simp
    rw [hix] at h
    have h2 := congrArg (op a) h
    rw [hinv] at h2
    exact h2.symm
  have hix : ix b a n = a := by
    unfold ix
    have : n % 2 = 1 := by omega
    rw [this]; simp
  rw [Wf_succ_last op val n b a c, hlast, hix]
  show val (op a c) a * Wf op val b a n (op a (op a c)) = _
  rw [hinv]
  group

theorem ix_add (a b n s : Nat) : ix a b (n + s) = ix (ix a b n) (ix b a n) s := by
  unfold ix
  rcases Nat.mod_two_eq_zero_or_one n with h | h <;> rcases Nat.mod_two_eq_zero_or_one s with h' | h'
  · have : (n + s) % 2 = 0 := by omega
    simp [h, h', this]
  · have : (n + s) % 2 = 1 := by omega
    simp [h, h', this]
  · have : (n + s) % 2 = 1 := by omega
    simp [h, h', this]
  · have : (n + s) % 2 = 0 := by omega
    simp [h, h', this]

theorem wk_add : ∀ (n a b s c : Nat),
    wk op a b (n + s) c = wk op (ix a b n) (ix b a n) s (wk op a b n c)
  | 0, a, b, s, c => by simp [wk, ix]
  | n + 1, a, b, s, c => by
    have : n + 1 + s = (n + s) + 1 := by omega
    rw [this]
    show wk op b a (n + s) (op a c) = wk op (ix a b (n + 1)) (ix b a (n + 1)) s (wk op b a n (op a c))
    rw [wk_add n b a s (op a c), ix_succ, ix_succ]

/-- a walk with an odd number of crossings that returns to its start is a palindrome -/
theorem wk_palindrome (hinv : ∀ a c, op a (op a c) = c) {a b N c : Nat} (hodd : N % 2 = 1)
    (hret : wk op a b N c = c) : ∀ t, t ≤ N → wk op a b (N - t) c = wk op a b t c
  | 0, _ => hret
  | t + 1, ht => by
    have ih := wk_palindrome hinv hodd hret t (by omega)
    have h1 : N - t = (N - (t + 1)) + 1 := by omega
    rw [h1, wk_succ_last] at ih
    have hix : ix a b (N - (t + 1)) = ix a b t := by
      unfold ix
      have : (N - (t + 1)) % 2 = t % 2 := by omega
      rw [this]
    rw [wk_succ_last, ← ih, ← hix, hinv]

theorem map_Wf {H : Type} [Group H] (μ : G →* H) : ∀ (n a b c : Nat),
    μ (Wf op val a b n c) = Wf op (fun c a => μ (val c a)) a b n c
  | 0, _, _, _ => by simp [Wf]
  | n + 1, a, b, c => by
    show μ (val c a * Wf op val b a n (op a c)) = μ (val c a) * Wf op (fun c a => μ (val c a)) b a n (op a c)
    rw [map_mul, map_Wf μ n b a (op a c)]

/-- the word only depends on the values along the walk -/
theorem Wf_congr (val' : Nat → Nat → G) (P : Nat → Prop) {a b : Nat}
    (hP : ∀ c, P c → P (op a c) ∧ P (op b c))
    (hval : ∀ c, P c → val c a = val' c a ∧ val c b = val' c b) : ∀ (n c : Nat), P c →
    Wf op val a b n c = Wf op val' a b n c ∧ Wf op val b a n c = Wf op val' b a n c
  | 0, _, _ => ⟨rfl, rfl⟩
  | n + 1, c, hc => by
    have h1 := Wf_congr val' P hP hval n (op a c) (hP c hc).1
    have h2 := Wf_congr val' P hP hval n (op b c) (hP c hc).2
    constructor
    · show val c a * Wf op val b a n (op a c) = val' c a * Wf op val' b a n (op a c)
      rw [(hval c hc).1, h1.2]
    · show val c b * Wf op val a b n (op b c) = val' c b * Wf op val' a b n (op b c)
      rw [(hval c hc).2, h2.1]

/-- the word over the first `n` crossings only depends on the values at these crossings -/
theorem Wf_congr_n (val' : Nat → Nat → G) : ∀ (n a b c : Nat),
    (∀ t, t < n → val (wk op a b t c) (ix a b t) = val' (wk op a b t c) (ix a b t)) →
    Wf op val a b n c = Wf op val' a b n c
  | 0, _, _, _, _ => rfl
  | n + 1, a, b, c, h => by
    rw [Wf_succ_last, Wf_succ_last, h n (Nat.lt_succ_self n),
      Wf_congr_n val' n a b c (fun t ht => h t (Nat.lt_succ_of_lt ht))]

end generic

end DSymVerif.FGP
