/-
Lemmas about the model of the D-set generator, part 14: the breadth-first renumbering of a
connected complete D-set from a start chamber — an orderly, linked isomorphic copy in which
the start chamber is chamber 1.  (Mathlib is used for the pigeonhole principle on lists.)
-/
import DSymVerif.Proofs.DSetGenIso
import Mathlib.Data.List.Perm.Subperm
import Mathlib.Data.List.Nodup

namespace DSymVerif.DSG
open DSymVerif.DS

/-! ### reachability -/

theorem Joined.trans {X : DSetData} {a b c : Nat} (h1 : Joined X a b) (h2 : Joined X b c) :
    Joined X a c := by
  induction h2 with
  | refl => exact h1
  | step i hi _ ih => exact Joined.step i hi ih

/-- a set of chambers closed under all operations contains everything joined to a member -/
theorem closed_of_joined {X : DSetData} {S : Nat → Prop}
    (hcl : ∀ i x, i ≤ X.dim → S x → S (X.opU i x)) {a b : Nat} (h : Joined X a b) (ha : S a) :
    S b := by
  induction h with
  | refl => exact ha
  | step i hi _ ih => exact hcl i _ hi ih

theorem Joined.range {X : DSetData} (hv : ValidSet X) {a b : Nat} (h : Joined X a b)
    (h1 : 1 ≤ a) (h2 : a ≤ X.size) : 1 ≤ b ∧ b ≤ X.size := by
  induction h with
  | refl => exact ⟨h1, h2⟩
  | step i hi _ ih => exact hv.range i _ hi ih.1 ih.2

theorem Joined.symm {X : DSetData} (hv : ValidSet X) {a b : Nat} (h : Joined X a b)
    (h1 : 1 ≤ a) (h2 : a ≤ X.size) : Joined X b a := by
  induction h with
  | refl => exact Joined.refl _
  | @step b i hi hab ih =>
    obtain ⟨b1, b2⟩ := hab.range hv h1 h2
    have : Joined X (X.opU i b) (X.opU i (X.opU i b)) := Joined.step i hi (Joined.refl _)
    rw [hv.invol i b hi b1 b2] at this
    exact this.trans ih

/-- in a connected D-set every chamber is joined to every chamber -/
theorem joined_all {X : DSetData} (hv : ValidSet X) (hc : Connected X) {a b : Nat}
    (a1 : 1 ≤ a) (a2 : a ≤ X.size) (b1 : 1 ≤ b) (b2 : b ≤ X.size) : Joined X a b :=
  ((hc a a1 a2).symm hv (Nat.le_refl _) (by omega)).trans (hc b b1 b2)

/-! ### pigeonhole -/

theorem length_le_of_nodup_range {l : List Nat} {n : Nat} (hd : l.Nodup)
    (h : ∀ x, x ∈ l → 1 ≤ x ∧ x ≤ n) : l.length ≤ n := by
  have hs : l ⊆ List.range' 1 n := by
    intro x hx
    have := h x hx
    simp [List.mem_range'_1]; omega
  have := (hd.subperm hs).length_le
  simpa using this

theorem length_ge_of_cover {l : List Nat} {n : Nat} (h : ∀ x, 1 ≤ x → x ≤ n → x ∈ l) :
    n ≤ l.length := by
  have hs : List.range' 1 n ⊆ l := by
    intro x hx
    have := List.mem_range'_1.1 hx
    exact h x (by omega) (by omega)
  have := ((List.nodup_range' (s := 1) (n := n)).subperm hs).length_le
  simpa using this

/-! ### the breadth-first order -/

/-- one scan position (new chamber number, index) of the breadth-first search: the image
    of the chamber numbered `p.1` under operation `p.2` is appended when it is new -/
def bfsStep (X : DSetData) (ord : List Nat) (p : Nat × Nat) : List Nat :=
  match ord[p.1 - 1]? with
  | some x => if X.opU p.2 x ∈ ord then ord else ord ++ [X.opU p.2 x]
  | none => ord

/-- old chambers in the order of their new numbers -/
def bfsOrd (X : DSetData) (c : Nat) : List Nat :=
  (loopPairs X.size X.dim).foldl (bfsStep X) [c]

structure BInv (X : DSetData) (c : Nat) (pre : List (Nat × Nat)) (ord : List Nat) : Prop where
  nodup : ord.Nodup
  range : ∀ x, x ∈ ord → 1 ≤ x ∧ x ≤ X.size
  head : ord[0]? = some c
  closed : ∀ p, p ∈ pre → ∀ x, ord[p.1 - 1]? = some x → X.opU p.2 x ∈ ord
  avail : ∀ p, p ∈ pre → p.1 ≤ ord.length
  born : ∀ k, 2 ≤ k → k ≤ ord.length → ∃ p, p ∈ pre ∧ p.1 < k ∧
    ∃ x, ord[p.1 - 1]? = some x ∧ ord[k - 1]? = some (X.opU p.2 x)
  ordp : ∀ q, q ∈ pre → ∀ y m, ord[q.1 - 1]? = some y → ord[m - 1]? = some (X.opU q.2 y) →
    ∀ k, 2 ≤ k → k < m → ∃ p, p ∈ pre ∧ LexLt p q ∧
      ∃ z, ord[p.1 - 1]? = some z ∧ ord[k - 1]? = some (X.opU p.2 z)

theorem bfs_inv {X : DSetData} (hv : ValidSet X) (hc : Connected X) {c : Nat} :
    ∀ (rest pre : List (Nat × Nat)) (ord : List Nat),
    loopPairs X.size X.dim = pre ++ rest → BInv X c pre ord →
    BInv X c (pre ++ rest) (rest.foldl (bfsStep X) ord) := by
  intro rest
  induction rest with
  | nil => intro pre ord _ h; simpa using h
  | cons p rest ih =>
    intro pre ord hsplit h
    obtain ⟨d, i⟩ := p
    have hmem : (d, i) ∈ loopPairs X.size X.dim := by rw [hsplit]; simp
    obtain ⟨hd1, hd2, hi⟩ := (mem_loopPairs _ _ _).1 hmem
    simp only at hd1 hd2 hi
    have hlen1 : 1 ≤ ord.length := by
      have := h.head
      cases ord with
      | nil => simp at this
      | cons a t => simp
    have hcmem : c ∈ ord := by
      have := h.head
      exact List.mem_of_getElem? this
    -- the row is available
    have hav : d ≤ ord.length := by
      apply Classical.byContradiction
      intro hlt
      have hcl : ∀ i' x, i' ≤ X.dim → x ∈ ord → X.opU i' x ∈ ord := by
        intro i' x hi' hx
        obtain ⟨k, hk, hxk⟩ := List.getElem_of_mem hx
        have hq : (k + 1, i') ∈ loopPairs X.size X.dim := by
          have hr := h.range x hx
          have : ord.length ≤ X.size := length_le_of_nodup_range h.nodup h.range
          exact (mem_loopPairs _ _ _).2 ⟨by simp, by simp only; omega, hi'⟩
        have hpre := mem_pre_of_lexLt hsplit hq (Or.inl (by simp only; omega))
        exact h.closed _ hpre x (by simp only [Nat.add_sub_cancel]; rw [List.getElem?_eq_getElem hk, hxk])
      have hall : ∀ x, 1 ≤ x → x ≤ X.size → x ∈ ord := by
        intro x x1 x2
        have hcr := h.range c hcmem
        exact closed_of_joined (S := (· ∈ ord)) hcl (joined_all hv hc hcr.1 hcr.2 x1 x2) hcmem
      have := length_ge_of_cover hall
      omega
    have hget : ∃ x, ord[d - 1]? = some x := ⟨ord[d - 1]'(by omega), List.getElem?_eq_getElem _⟩
    obtain ⟨x, hx⟩ := hget
    have hxmem : x ∈ ord := List.mem_of_getElem? hx
    obtain ⟨x1, x2⟩ := h.range x hxmem
    obtain ⟨e1, e2⟩ := hv.range i x hi x1 x2
    have hstep : bfsStep X ord (d, i) =
        if X.opU i x ∈ ord then ord else ord ++ [X.opU i x] := by
      unfold bfsStep
      simp only [hx]
    simp only [List.foldl_cons]
    have hsplit' : loopPairs X.size X.dim = (pre ++ [(d, i)]) ++ rest := by rw [hsplit]; simp
    have hsorted : ∀ p, p ∈ pre → LexLt p (d, i) := by
      intro p hp
      have hpw := pairwise_loopPairs X.size X.dim
      rw [hsplit, List.pairwise_append] at hpw
      exact hpw.2.2 p hp (d, i) (by simp)
    have hgoal : BInv X c (pre ++ [(d, i)]) (bfsStep X ord (d, i)) := by
      rw [hstep]
      by_cases he : X.opU i x ∈ ord
      · rw [if_pos he]
        refine ⟨h.nodup, h.range, h.head, ?_, ?_, ?_, ?_⟩
        · intro p hp y hy
          rcases List.mem_append.1 hp with hp | hp
          · exact h.closed p hp y hy
          · simp only [List.mem_singleton] at hp
            subst hp
            simp only at hy
            rw [hx] at hy
            injection hy with hy
            subst hy
            exact he
        · intro p hp
          rcases List.mem_append.1 hp with hp | hp
          · exact h.avail p hp
          · simp only [List.mem_singleton] at hp
            subst hp
            exact hav
        · intro k hk2 hkl
          obtain ⟨p, hp, hpk, y, hy1, hy2⟩ := h.born k hk2 hkl
          exact ⟨p, by simp [hp], hpk, y, hy1, hy2⟩
        · intro q hq y m hy hm k hk2 hkm
          rcases List.mem_append.1 hq with hq | hq
          · obtain ⟨p, hp, hlt, z, hz1, hz2⟩ := h.ordp q hq y m hy hm k hk2 hkm
            exact ⟨p, by simp [hp], hlt, z, hz1, hz2⟩
          · simp only [List.mem_singleton] at hq
            subst hq
            have hml : m - 1 < ord.length := by
              apply Classical.byContradiction
              intro hge
              rw [List.getElem?_eq_none (by omega)] at hm
              cases hm
            obtain ⟨p, hp, _, z, hz1, hz2⟩ := h.born k hk2 (by omega)
            exact ⟨p, by simp [hp], hsorted p hp, z, hz1, hz2⟩
      · rw [if_neg he]
        have hleft : ∀ k, k < ord.length → (ord ++ [X.opU i x])[k]? = ord[k]? := by
          intro k hk
          exact List.getElem?_append_left hk
        refine ⟨?_, ?_, ?_, ?_, ?_, ?_, ?_⟩
        · rw [List.nodup_append]
          refine ⟨h.nodup, by simp, ?_⟩
          intro a ha b hb
          simp only [List.mem_singleton] at hb
          subst hb
          intro hab
          subst hab
          exact he ha
        · intro y hy
          rcases List.mem_append.1 hy with hy | hy
          · exact h.range y hy
          · simp only [List.mem_singleton] at hy
            subst hy
            exact ⟨e1, e2⟩
        · rw [hleft 0 (by omega)]; exact h.head
        · intro p hp y hy
          rcases List.mem_append.1 hp with hp | hp
          · have hpa := h.avail p hp
            have hp1 : 1 ≤ p.1 := by
              have : p ∈ loopPairs X.size X.dim := by rw [hsplit]; simp [hp]
              exact ((mem_loopPairs _ _ _).1 this).1
            rw [hleft _ (by omega)] at hy
            exact List.mem_append_left _ (h.closed p hp y hy)
          · simp only [List.mem_singleton] at hp
            subst hp
            simp only at hy
            rw [hleft _ (by omega), hx] at hy
            injection hy with hy
            subst hy
            simp
        · intro p hp
          simp only [List.length_append, List.length_cons, List.length_nil]
          rcases List.mem_append.1 hp with hp | hp
          · have := h.avail p hp; omega
          · simp only [List.mem_singleton] at hp
            subst hp
            simp only
            omega
        · intro k hk2 hkl
          simp only [List.length_append, List.length_cons, List.length_nil] at hkl
          by_cases hko : k ≤ ord.length
          · obtain ⟨p, hp, hpk, y, hy1, hy2⟩ := h.born k hk2 hko
            refine ⟨p, by simp [hp], hpk, y, ?_, ?_⟩
            · rw [hleft _ (by omega)]; exact hy1
            · rw [hleft _ (by omega)]; exact hy2
          · have hk : k = ord.length + 1 := by omega
            refine ⟨(d, i), by simp, by simp only; omega, x, ?_, ?_⟩
            · simp only
              rw [hleft _ (by omega)]; exact hx
            · simp only
              rw [hk, Nat.add_sub_cancel, List.getElem?_append_right (Nat.le_refl _)]
              simp
        · intro q hq y m hy hm k hk2 hkm
          have hq1 : ∀ q', q' ∈ pre ++ [(d, i)] → 1 ≤ q'.1 := by
            intro q' hq'
            have : q' ∈ loopPairs X.size X.dim := by
              rw [hsplit']; exact List.mem_append_left _ hq'
            exact ((mem_loopPairs _ _ _).1 this).1
          -- the value found at position m is an old element unless q is the new position
          rcases List.mem_append.1 hq with hq | hq
          · have hqa := h.avail q hq
            have hq1' := hq1 q (by simp [hq])
            rw [hleft _ (by omega)] at hy
            have hold := h.closed q hq y hy
            have hml : m - 1 < ord.length := by
              apply Classical.byContradiction
              intro hge
              have hmeq : m - 1 = ord.length ∨ ord.length < m - 1 := by omega
              rcases hmeq with hmeq | hmeq
              · rw [hmeq, List.getElem?_append_right (Nat.le_refl _)] at hm
                simp only [Nat.sub_self, List.getElem?_cons_zero, Option.some.injEq] at hm
                rw [hm] at he
                exact he hold
              · rw [List.getElem?_eq_none (by simp; omega)] at hm
                cases hm
            rw [hleft _ hml] at hm
            obtain ⟨p, hp, hlt, z, hz1, hz2⟩ := h.ordp q hq y m hy hm k hk2 hkm
            have hpa := h.avail p hp
            have hp1 := hq1 p (by simp [hp])
            refine ⟨p, by simp [hp], hlt, z, ?_, ?_⟩
            · rw [hleft _ (by omega)]; exact hz1
            · rw [hleft _ (by omega)]; exact hz2
          · simp only [List.mem_singleton] at hq
            subst hq
            have hml : m - 1 < (ord ++ [X.opU i x]).length := by
              apply Classical.byContradiction
              intro hge
              rw [List.getElem?_eq_none (by omega)] at hm
              cases hm
            simp only [List.length_append, List.length_cons, List.length_nil] at hml
            obtain ⟨p, hp, _, z, hz1, hz2⟩ := h.born k hk2 (by omega)
            have hpa := h.avail p hp
            have hp1 := hq1 p (by simp [hp])
            refine ⟨p, by simp [hp], hsorted p hp, z, ?_, ?_⟩
            · rw [hleft _ (by omega)]; exact hz1
            · rw [hleft _ (by omega)]; exact hz2
    have := ih (pre ++ [(d, i)]) _ hsplit' hgoal
    simpa using this

/-- what the finished search gives -/
theorem bfsOrd_spec {X : DSetData} (hv : ValidSet X) (hc : Connected X) {c : Nat}
    (c1 : 1 ≤ c) (c2 : c ≤ X.size) :
    BInv X c (loopPairs X.size X.dim) (bfsOrd X c) ∧ (bfsOrd X c).length = X.size ∧
    ∀ x, 1 ≤ x → x ≤ X.size → x ∈ bfsOrd X c := by
  have h0 : BInv X c [] [c] := by
    refine ⟨by simp, ?_, by simp, ?_, ?_, ?_, ?_⟩
    · intro x hx; simp only [List.mem_singleton] at hx; subst hx; exact ⟨c1, c2⟩
    · intro p hp; cases hp
    · intro p hp; cases hp
    · intro k hk2 hkl; simp only [List.length_cons, List.length_nil] at hkl; omega
    · intro q hq; cases hq
  have h : BInv X c (loopPairs X.size X.dim) (bfsOrd X c) := by
    have := bfs_inv hv hc (loopPairs X.size X.dim) [] [c] (by simp) h0
    simp only [List.nil_append] at this
    exact this
  have hle := length_le_of_nodup_range h.nodup h.range
  have hge : X.size ≤ (bfsOrd X c).length := by
    have hm : (X.size, 0) ∈ loopPairs X.size X.dim :=
      (mem_loopPairs _ _ _).2 ⟨by simp only; omega, Nat.le_refl _, Nat.zero_le _⟩
    exact h.avail _ hm
  have hlen : (bfsOrd X c).length = X.size := by omega
  refine ⟨h, hlen, ?_⟩
  -- the order is closed under the operations, hence contains every chamber
  have hcmem : c ∈ bfsOrd X c := List.mem_of_getElem? h.head
  have hcl : ∀ i' x, i' ≤ X.dim → x ∈ bfsOrd X c → X.opU i' x ∈ bfsOrd X c := by
    intro i' x hi' hx
    obtain ⟨k, hk, hxk⟩ := List.getElem_of_mem hx
    have hq : (k + 1, i') ∈ loopPairs X.size X.dim :=
      (mem_loopPairs _ _ _).2 ⟨by simp, by simp only; omega, hi'⟩
    exact h.closed _ hq x (by
      simp only [Nat.add_sub_cancel]; rw [List.getElem?_eq_getElem hk, hxk])
  intro x x1 x2
  exact closed_of_joined (S := (· ∈ bfsOrd X c)) hcl (joined_all hv hc c1 c2 x1 x2) hcmem

/-! ### the renumbered D-set -/

/-- new number of an old chamber -/
def newNum (X : DSetData) (c x : Nat) : Nat := (bfsOrd X c).idxOf x + 1
/-- old chamber of a new number -/
def oldCh (X : DSetData) (c k : Nat) : Nat := (bfsOrd X c).getD (k - 1) 0

/-- the breadth-first renumbering of `X` from chamber `c` -/
def renum (X : DSetData) (c : Nat) : DSetData :=
  { size := X.size, dim := X.dim,
    op := Array.ofFn (n := X.size * (X.dim + 1)) fun k =>
      newNum X c (X.opU (k.val % (X.dim + 1)) (oldCh X c (k.val / (X.dim + 1) + 1))) }

theorem renum_opU (X : DSetData) (c : Nat) {i d : Nat} (hi : i ≤ X.dim) (h1 : 1 ≤ d)
    (h2 : d ≤ X.size) : (renum X c).opU i d = newNum X c (X.opU i (oldCh X c d)) := by
  have hlt : (d - 1) * (X.dim + 1) + i < X.size * (X.dim + 1) := by
    have h3 : (d - 1 + 1) * (X.dim + 1) ≤ X.size * (X.dim + 1) :=
      Nat.mul_le_mul_right _ (by omega)
    rw [Nat.add_mul, Nat.one_mul] at h3
    omega
  have e : (renum X c).opU i d = (renum X c).op.getD ((d - 1) * (X.dim + 1) + i) 0 := rfl
  rw [e]
  unfold renum
  simp only
  have hsz : (Array.ofFn (n := X.size * (X.dim + 1)) fun k =>
      newNum X c (X.opU (k.val % (X.dim + 1)) (oldCh X c (k.val / (X.dim + 1) + 1)))).size =
      X.size * (X.dim + 1) := Array.size_ofFn
  rw [Array.getD_eq_getD_getElem?, Array.getElem?_eq_getElem (by rw [hsz]; exact hlt)]
  simp only [Array.getElem_ofFn, Option.getD_some]
  have hm : ((d - 1) * (X.dim + 1) + i) % (X.dim + 1) = i := by
    rw [Nat.add_comm, Nat.add_mul_mod_self_right]; exact Nat.mod_eq_of_lt (by omega)
  have hq : ((d - 1) * (X.dim + 1) + i) / (X.dim + 1) = d - 1 := by
    rw [Nat.add_comm, Nat.add_mul_div_right _ _ (by omega), Nat.div_eq_of_lt (by omega)]; omega
  rw [hm, hq, Nat.sub_add_cancel h1]

/-- numbers and chambers are mutually inverse -/
theorem renum_iso {X : DSetData} (hv : ValidSet X) (hc : Connected X) {c : Nat}
    (c1 : 1 ≤ c) (c2 : c ≤ X.size) :
    IsoBy X (renum X c) (newNum X c) (oldCh X c) ∧ newNum X c c = 1 := by
  obtain ⟨hb, hlen, hall⟩ := bfsOrd_spec hv hc c1 c2
  have hf : ∀ x, 1 ≤ x → x ≤ X.size → 1 ≤ newNum X c x ∧ newNum X c x ≤ X.size ∧
      oldCh X c (newNum X c x) = x := by
    intro x x1 x2
    have hx := hall x x1 x2
    have hlt := List.idxOf_lt_length_iff.2 hx
    refine ⟨by unfold newNum; omega, by unfold newNum; omega, ?_⟩
    unfold oldCh newNum
    rw [Nat.add_sub_cancel, List.getD_eq_getElem?_getD, List.getElem?_eq_getElem hlt]
    simp only [Option.getD_some]
    exact List.getElem_idxOf hlt
  have hg : ∀ k, 1 ≤ k → k ≤ X.size → 1 ≤ oldCh X c k ∧ oldCh X c k ≤ X.size ∧
      newNum X c (oldCh X c k) = k := by
    intro k k1 k2
    have hlt : k - 1 < (bfsOrd X c).length := by omega
    have he : oldCh X c k = (bfsOrd X c)[k - 1] := by
      unfold oldCh
      rw [List.getD_eq_getElem?_getD, List.getElem?_eq_getElem hlt]; rfl
    have hm : (bfsOrd X c)[k - 1] ∈ bfsOrd X c := List.getElem_mem hlt
    obtain ⟨r1, r2⟩ := hb.range _ hm
    refine ⟨by rw [he]; exact r1, by rw [he]; exact r2, ?_⟩
    unfold newNum
    rw [he]
    have := List.get_idxOf hb.nodup ⟨k - 1, hlt⟩
    simp only [List.get_eq_getElem] at this
    rw [this]
    omega
  refine ⟨⟨rfl, rfl, fun d a b => ⟨(hf d a b).1, (hf d a b).2.1⟩,
    fun d a b => ⟨(hg d a b).1, (hg d a b).2.1⟩, fun d a b => (hf d a b).2.2,
    fun d a b => (hg d a b).2.2, ?_⟩, ?_⟩
  · intro i d hi d1 d2
    obtain ⟨n1, n2, n3⟩ := hf d d1 d2
    rw [renum_opU X c hi n1 n2, n3]
  · unfold newNum
    have : (bfsOrd X c).idxOf c = 0 := by
      have hh := hb.head
      cases hl : bfsOrd X c with
      | nil => rw [hl] at hh; simp at hh
      | cons a t =>
        rw [hl] at hh
        simp only [List.getElem?_cons_zero, Option.some.injEq] at hh
        subst hh
        simp
    rw [this]

/-! ### transport along an isomorphism -/

theorem IsoBy.opU_eq {A B : DSetData} {f g : Nat → Nat} (h : IsoBy A B f g) {i d : Nat}
    (hi : i ≤ B.dim) (h1 : 1 ≤ d) (h2 : d ≤ B.size) : B.opU i d = f (A.opU i (g d)) := by
  obtain ⟨g1, g2⟩ := h.g_range d h1 h2
  rw [h.comm i (g d) (by rw [h.dim_eq]; exact hi) g1 g2, h.fg d h1 h2]

theorem IsoBy.validSet {A B : DSetData} {f g : Nat → Nat} (h : IsoBy A B f g) (hA : ValidSet A)
    (hsz : B.op.size = B.size * (B.dim + 1)) : ValidSet B := by
  refine ⟨hsz, ?_, ?_⟩
  · intro i d hi h1 h2
    rw [h.opU_eq hi h1 h2]
    obtain ⟨g1, g2⟩ := h.g_range d h1 h2
    obtain ⟨r1, r2⟩ := hA.range i (g d) (by rw [h.dim_eq]; exact hi) g1 g2
    exact h.f_range _ r1 r2
  · intro i d hi h1 h2
    have hiA : i ≤ A.dim := by rw [h.dim_eq]; exact hi
    obtain ⟨g1, g2⟩ := h.g_range d h1 h2
    obtain ⟨r1, r2⟩ := hA.range i (g d) hiA g1 g2
    obtain ⟨f1, f2⟩ := h.f_range _ r1 r2
    rw [h.opU_eq hi h1 h2, h.opU_eq hi f1 f2, h.gf _ r1 r2, hA.invol i (g d) hiA g1 g2,
      h.fg d h1 h2]

theorem IsoBy.farCommute {A B : DSetData} {f g : Nat → Nat} (h : IsoBy A B f g)
    (hA : ValidSet A) (hf : FarCommute A) : FarCommute B := by
  intro i j d hij hj h1 h2
  have hjA : j ≤ A.dim := by rw [h.dim_eq]; exact hj
  have hiA : i ≤ A.dim := by omega
  have hiB : i ≤ B.dim := by omega
  obtain ⟨g1, g2⟩ := h.g_range d h1 h2
  obtain ⟨a1, a2⟩ := hA.range i (g d) hiA g1 g2
  obtain ⟨b1, b2⟩ := hA.range j (g d) hjA g1 g2
  obtain ⟨fa1, fa2⟩ := h.f_range _ a1 a2
  obtain ⟨fb1, fb2⟩ := h.f_range _ b1 b2
  rw [h.opU_eq hiB h1 h2, h.opU_eq hj h1 h2, h.opU_eq hj fa1 fa2, h.opU_eq hiB fb1 fb2,
    h.gf _ a1 a2, h.gf _ b1 b2, hf i j (g d) hij hjA g1 g2]

theorem IsoBy.comp {A B C : DSetData} {f g f' g' : Nat → Nat} (h1 : IsoBy A B f g)
    (h2 : IsoBy B C f' g') : IsoBy A C (f' ∘ f) (g ∘ g') := by
  refine ⟨h1.size_eq.trans h2.size_eq, h1.dim_eq.trans h2.dim_eq, ?_, ?_, ?_, ?_, ?_⟩
  · intro d a b
    obtain ⟨x1, x2⟩ := h1.f_range d a b
    exact h2.f_range _ x1 x2
  · intro d a b
    obtain ⟨x1, x2⟩ := h2.g_range d a b
    exact h1.g_range _ x1 x2
  · intro d a b
    obtain ⟨x1, x2⟩ := h1.f_range d a b
    simp only [Function.comp]
    rw [h2.gf _ x1 x2, h1.gf d a b]
  · intro d a b
    obtain ⟨x1, x2⟩ := h2.g_range d a b
    simp only [Function.comp]
    rw [h1.fg _ x1 x2, h2.fg d a b]
  · intro i d hi a b
    obtain ⟨x1, x2⟩ := h1.f_range d a b
    simp only [Function.comp]
    rw [h1.comm i d hi a b, h2.comm i _ (by rw [← h1.dim_eq]; exact hi) x1 x2]

/-! ### the renumbered set is a valid, orderly, linked copy -/

theorem renum_props {X : DSetData} (hv : ValidSet X) (hf : FarCommute X) (hc : Connected X)
    {c : Nat} (c1 : 1 ≤ c) (c2 : c ≤ X.size) :
    ValidSet (renum X c) ∧ FarCommute (renum X c) ∧ Linked (renum X c) ∧ Orderly (renum X c) := by
  obtain ⟨hb, hlen, hall⟩ := bfsOrd_spec hv hc c1 c2
  obtain ⟨hiso, _⟩ := renum_iso hv hc c1 c2
  have hsz : (renum X c).op.size = (renum X c).size * ((renum X c).dim + 1) := by
    show (Array.ofFn _).size = X.size * (X.dim + 1)
    exact Array.size_ofFn
  have hV := hiso.validSet hv hsz
  -- the order list read through `oldCh`
  have hget : ∀ k, 1 ≤ k → k ≤ X.size → (bfsOrd X c)[k - 1]? = some (oldCh X c k) := by
    intro k k1 k2
    have hlt : k - 1 < (bfsOrd X c).length := by omega
    unfold oldCh
    rw [List.getD_eq_getElem?_getD, List.getElem?_eq_getElem hlt]; rfl
  -- a scan position whose image was appended as number k holds k in the new table
  have hval : ∀ p k, p ∈ loopPairs X.size X.dim → 1 ≤ k → k ≤ X.size →
      (∃ z, (bfsOrd X c)[p.1 - 1]? = some z ∧ (bfsOrd X c)[k - 1]? = some (X.opU p.2 z)) →
      (renum X c).opU p.2 p.1 = k := by
    intro p k hp k1 k2 hz
    obtain ⟨z, hz1, hz2⟩ := hz
    obtain ⟨p1, p2, p3⟩ := (mem_loopPairs _ _ _).1 hp
    rw [hget p.1 p1 p2] at hz1
    injection hz1 with hz1
    rw [hget k k1 k2] at hz2
    injection hz2 with hz2
    rw [renum_opU X c p3 p1 p2, hz1, ← hz2]
    exact hiso.fg k k1 k2
  refine ⟨hV, hiso.farCommute hv hf, ?_, ?_⟩
  · -- linked
    intro k hk2 hkn
    have hkn' : k ≤ X.size := hkn
    obtain ⟨p, hp, hpk, z, hz1, hz2⟩ := hb.born k hk2 (by omega)
    obtain ⟨p1, p2, p3⟩ := (mem_loopPairs _ _ _).1 hp
    have hpv := hval p k hp (by omega) hkn' ⟨z, hz1, hz2⟩
    refine ⟨p.2, p3, ?_⟩
    have := hV.invol p.2 p.1 p3 p1 p2
    rw [hpv] at this
    rw [this]
    exact ⟨p1, hpk⟩
  · -- orderly
    intro i d hi h1 h2 v hv2 hvw
    have hq : (d, i) ∈ loopPairs X.size X.dim := (mem_loopPairs _ _ _).2 ⟨h1, h2, hi⟩
    obtain ⟨w1, w2⟩ := hV.range i d hi h1 h2
    have hw2 : (renum X c).opU i d ≤ X.size := w2
    -- the entry at (d, i), as a number m
    have hm : (bfsOrd X c)[(renum X c).opU i d - 1]? = some (X.opU i (oldCh X c d)) := by
      rw [hget _ w1 hw2, renum_opU X c hi h1 h2]
      obtain ⟨g1, g2⟩ := hiso.g_range d h1 h2
      obtain ⟨r1, r2⟩ := hv.range i _ hi g1 g2
      rw [hiso.gf _ r1 r2]
    obtain ⟨p, hp, hlt, z, hz1, hz2⟩ := hb.ordp (d, i) hq (oldCh X c d) _ (hget d h1 h2) hm v hv2 hvw
    obtain ⟨p1, p2, p3⟩ := (mem_loopPairs _ _ _).1 hp
    refine ⟨p.2, p.1, p3, p1, p2, ?_, hval p v hp (by omega) (by omega) ⟨z, hz1, hz2⟩⟩
    unfold LexLt at hlt
    unfold Before
    simp only at hlt ⊢
    exact hlt

/-! ### a least renumbering -/

theorem firstDiff_self (A : DSetData) : ∀ l, firstDiff A A l = 0 := by
  intro l
  induction l with
  | nil => rfl
  | cons p l ih => obtain ⟨d, i⟩ := p; simp [firstDiff, ih]

theorem firstDiff_trans (A B C : DSetData) : ∀ l, firstDiff A B l ≤ 0 → firstDiff B C l ≤ 0 →
    firstDiff A C l ≤ 0 := by
  intro l
  induction l with
  | nil => intro _ _; simp [firstDiff]
  | cons p l ih =>
    obtain ⟨d, i⟩ := p
    intro h1 h2
    simp only [firstDiff] at h1 h2 ⊢
    by_cases hab : A.opU i d = B.opU i d
    · rw [if_neg (by simp [hab])] at h1
      by_cases hbc : B.opU i d = C.opU i d
      · rw [if_neg (by simp [hbc])] at h2
        rw [if_neg (by simp [hab, hbc])]
        exact ih h1 h2
      · rw [if_pos hbc] at h2
        have : A.opU i d ≠ C.opU i d := by rw [hab]; exact hbc
        rw [if_pos this]
        omega
    · rw [if_pos hab] at h1
      by_cases hbc : B.opU i d = C.opU i d
      · have : A.opU i d ≠ C.opU i d := by rw [← hbc]; exact hab
        rw [if_pos this]
        omega
      · rw [if_pos hbc] at h2
        have : A.opU i d ≠ C.opU i d := by omega
        rw [if_pos this]
        omega

/-- a nonempty list of tables has a lexicographically least member -/
theorem exists_least (l : List (Nat × Nat)) : ∀ (Ts : List DSetData), Ts ≠ [] →
    ∃ T, T ∈ Ts ∧ ∀ T', T' ∈ Ts → firstDiff T T' l ≤ 0 := by
  intro Ts
  induction Ts with
  | nil => intro h; exact absurd rfl h
  | cons T Ts ih =>
    intro _
    by_cases hTs : Ts = []
    · subst hTs
      refine ⟨T, by simp, ?_⟩
      intro T' hT'
      simp only [List.mem_singleton] at hT'
      subst hT'
      rw [firstDiff_self]; exact Int.le_refl _
    · obtain ⟨m, hm, hmin⟩ := ih hTs
      by_cases hle : firstDiff T m l ≤ 0
      · refine ⟨T, by simp, ?_⟩
        intro T' hT'
        rcases List.mem_cons.1 hT' with rfl | hT'
        · rw [firstDiff_self]; exact Int.le_refl _
        · exact firstDiff_trans T m T' l hle (hmin T' hT')
      · refine ⟨m, by simp [hm], ?_⟩
        intro T' hT'
        rcases List.mem_cons.1 hT' with hT'' | hT'
        · rw [hT'', firstDiff_neg T m]; omega
        · exact hmin T' hT'

/-- **Every isomorphism class of connected complete D-sets with commuting far operations
    contains an orderly canonical member**: the lexicographically least breadth-first
    renumbering. -/
theorem exists_canonical {X : DSetData} {maxSize : Nat} (hv : ValidSet X) (hf : FarCommute X)
    (hc : Connected X) (h1 : 1 ≤ X.size) (hsz : X.size ≤ maxSize) :
    ∃ T f g, IsoBy X T f g ∧ ValidSet T ∧ FarCommute T ∧ Connected T ∧ Orderly T ∧
      Canonical T maxSize := by
  let L := loopPairs X.size X.dim
  obtain ⟨T, hT, hmin⟩ := exists_least L ((List.range' 1 X.size).map (renum X)) (by
    intro h
    have := congrArg List.length h
    simp at this
    omega)
  obtain ⟨cs, hcs, rfl⟩ := List.mem_map.1 hT
  have hcr := List.mem_range'_1.1 hcs
  have cs1 : 1 ≤ cs := hcr.1
  have cs2 : cs ≤ X.size := by omega
  obtain ⟨hTV, hTF, hTL, hTO⟩ := renum_props hv hf hc cs1 cs2
  obtain ⟨isoT, _⟩ := renum_iso hv hc cs1 cs2
  refine ⟨renum X cs, _, _, isoT, hTV, hTF, connected_of_linked hTV.toPartial hTL, hTO, ?_⟩
  intro d0 hd2 hdn v hcmp
  have hdn' : d0 ≤ X.size := hdn
  -- the renumbering from the chamber that has number d0
  obtain ⟨c1', c2', _⟩ : 1 ≤ oldCh X cs d0 ∧ oldCh X cs d0 ≤ X.size ∧ True := by
    obtain ⟨a, b⟩ := isoT.g_range d0 (by omega) hdn'
    exact ⟨a, b, trivial⟩
  generalize hc' : oldCh X cs d0 = c' at *
  obtain ⟨hAV, _, hAL, hAO⟩ := renum_props hv hf hc c1' c2'
  obtain ⟨isoA, hA1⟩ := renum_iso hv hc c1' c2'
  have iso := (isoA.symm hv).comp isoT
  have hf1 : (newNum X cs ∘ oldCh X c') 1 = d0 := by
    simp only [Function.comp]
    have : oldCh X c' 1 = c' := by
      have := isoA.gf c' c1' c2'
      rw [hA1] at this
      exact this
    rw [this, ← hc']
    exact isoT.fg d0 (by omega) hdn'
  have key := compare_iso (maxSize := maxSize) hAV hTV hAO hAL iso (by
    show X.size ≤ maxSize; exact hsz) (by show 1 ≤ X.size; exact h1)
  rw [hf1] at key
  rw [key] at hcmp
  injection hcmp with hcmp
  have hle := hmin (renum X c') (List.mem_map.2 ⟨c', List.mem_range'_1.2 (by omega), rfl⟩)
  have hneg := firstDiff_neg (renum X cs) (renum X c') L
  have hL : loopPairs (renum X cs).size (renum X cs).dim = L := rfl
  rw [hL] at hcmp
  omega

end DSymVerif.DSG
