/-
Lemmas about the model of the D-set generator, part 14: the breadth-first renumbering of a
connected complete D-set from a start chamber — an orderly, linked isomorphic copy in which
the start chamber is chamber 1.  (Mathlib is used for the pigeonhole principle on lists.)
-/
import DSymVerif.Proofs.DSetGenIso
import Mathlib.Data.List.Perm.Subperm
import Mathlib.Data.List.Nodup

namespace DSymVerif.DSG
open DSymVerif.DS

/-! ### reachability -/

theorem Joined.trans {X : DSetData} {a b c : Nat} (h1 : Joined X a b) (h2 : Joined X b c) :
    Joined X a c := by
  induction h2 with
  | refl => exact h1
  | step i hi _ ih => exact Joined.step i hi ih

/-- a set of chambers closed under all operations contains everything joined to a member -/
theorem closed_of_joined {X : DSetData} {S : Nat → Prop}
    (hcl : ∀ i x, i ≤ X.dim → S x → S (X.opU i x)) {a b : Nat} (h : Joined X a b) (ha : S a) :
    S b := by
  induction h with
  | refl => exact ha
  | step i hi _ ih => exact hcl i _ hi ih

theorem Joined.range {X : DSetData} (hv : ValidSet X) {a b : Nat} (h : Joined X a b)
    (h1 : 1 ≤ a) (h2 : a ≤ X.size) : 1 ≤ b ∧ b ≤ X.size := by
  induction h with
  | refl => exact ⟨h1, h2⟩
  | step i hi _ ih => exact hv.range i _ hi ih.1 ih.2

theorem Joined.symm {X : DSetData} (hv : ValidSet X) {a b : Nat} (h : Joined X a b)
    (h1 : 1 ≤ a) (h2 : a ≤ X.size) : Joined X b a := by
  induction h with
  | refl => exact Joined.refl _
  | @step b i hi hab ih =>
    obtain ⟨b1, b2⟩ := hab.range hv h1 h2
    have : Joined X (X.opU i b) (X.opU i (X.opU i b)) := Joined.step i hi (Joined.refl _)
    rw [hv.invol i b hi b1 b2] at this
    exact this.trans ih

/-- in a connected D-set every chamber is joined to every chamber -/
theorem joined_all {X : DSetData} (hv : ValidSet X) (hc : Connected X) {a b : Nat}
    (a1 : 1 ≤ a) (a2 : a ≤ X.size) (b1 : 1 ≤ b) (b2 : b ≤ X.size) : Joined X a b :=
  ((hc a a1 a2).symm hv (Nat.le_refl _) (by omega)).trans (hc b b1 b2)

/-! ### pigeonhole -/

theorem length_le_of_nodup_range {l : List Nat} {n : Nat} (hd : l.Nodup)
    (h : ∀ x, x ∈ l → 1 ≤ x ∧ x ≤ n) : l.length ≤ n := by
  have hs : l ⊆ List.range' 1 n := by
    intro x hx
    have := h x hx
    simp [List.mem_range'_1]; omega
  have := (hd.subperm hs).length_le
  simpa using this

theorem length_ge_of_cover {l : List Nat} {n : Nat} (h : ∀ x, 1 ≤ x → x ≤ n → x ∈ l) :
    n ≤ l.length := by
  have hs : List.range' 1 n ⊆ l := by
    intro x hx
    have := List.mem_range'_1.1 hx
    exact h x (by omega) (by omega)
  have := ((List.nodup_range' (s := 1) (n := n)).subperm hs).length_le
  simpa using this

/-! ### the breadth-first order -/

/-- one scan position (new chamber number, index) of the breadth-first search: the image
    of the chamber numbered `p.1` under operation `p.2` is appended when it is new -/
def bfsStep (X : DSetData) (ord : List Nat) (p : Nat × Nat) : List Nat :=
  match ord[p.1 - 1]? with
  | some x => if X.opU p.2 x ∈ ord then ord else ord ++ [X.opU p.2 x]
  | none => ord

/-- old chambers in the order of their new numbers -/
def bfsOrd (X : DSetData) (c : Nat) : List Nat :=
  (loopPairs X.size X.dim).foldl (bfsStep X) [c]

structure BInv (X : DSetData) (c : Nat) (pre : List (Nat × Nat)) (ord : List Nat) : Prop where
  nodup : ord.Nodup
  range : ∀ x, x ∈ ord → 1 ≤ x ∧ x ≤ X.size
  head : ord[0]? = some c
  closed : ∀ p, p ∈ pre → ∀ x, ord[p.1 - 1]? = some x → X.opU p.2 x ∈ ord
  avail : ∀ p, p ∈ pre → p.1 ≤ ord.length
  born : ∀ k, 2 ≤ k → k ≤ ord.length → ∃ p, p ∈ pre ∧ p.1 < k ∧
    ∃ x, ord[p.1 - 1]? = some x ∧ ord[k - 1]? = some (X.opU p.2 x)

theorem bfs_inv {X : DSetData} (hv : ValidSet X) (hc : Connected X) {c : Nat} :
    ∀ (rest pre : List (Nat × Nat)) (ord : List Nat),
    loopPairs X.size X.dim = pre ++ rest → BInv X c pre ord →
    BInv X c (pre ++ rest) (rest.foldl (bfsStep X) ord) := by
  intro rest
  induction rest with
  | nil => intro pre ord _ h; simpa using h
  | cons p rest ih =>
    intro pre ord hsplit h
    obtain ⟨d, i⟩ := p
    have hmem : (d, i) ∈ loopPairs X.size X.dim := by rw [hsplit]; simp
    obtain ⟨hd1, hd2, hi⟩ := (mem_loopPairs _ _ _).1 hmem
    simp only at hd1 hd2 hi
    have hlen1 : 1 ≤ ord.length := by
      have := h.head
      cases ord with
      | nil => simp at this
      | cons a t => simp
    have hcmem : c ∈ ord := by
      have := h.head
      exact List.mem_of_getElem? this
    -- the row is available
    have hav : d ≤ ord.length := by
      apply Classical.byContradiction
      intro hlt
      have hcl : ∀ i' x, i' ≤ X.dim → x ∈ ord → X.opU i' x ∈ ord := by
        intro i' x hi' hx
        obtain ⟨k, hk, hxk⟩ := List.getElem_of_mem hx
        have hq : (k + 1, i') ∈ loopPairs X.size X.dim := by
          have hr := h.range x hx
          have : ord.length ≤ X.size := length_le_of_nodup_range h.nodup h.range
          exact (mem_loopPairs _ _ _).2 ⟨by simp, by simp only; omega, hi'⟩
        have hpre := mem_pre_of_lexLt hsplit hq (Or.inl (by simp only; omega))
        exact h.closed _ hpre x (by simp only [Nat.add_sub_cancel]; rw [List.getElem?_eq_getElem hk, hxk])
      have hall : ∀ x, 1 ≤ x → x ≤ X.size → x ∈ ord := by
        intro x x1 x2
        have hcr := h.range c hcmem
        exact closed_of_joined (S := (· ∈ ord)) hcl (joined_all hv hc hcr.1 hcr.2 x1 x2) hcmem
      have := length_ge_of_cover hall
      omega
    have hget : ∃ x, ord[d - 1]? = some x := ⟨ord[d - 1]'(by omega), List.getElem?_eq_getElem _⟩
    obtain ⟨x, hx⟩ := hget
    have hxmem : x ∈ ord := List.mem_of_getElem? hx
    obtain ⟨x1, x2⟩ := h.range x hxmem
    obtain ⟨e1, e2⟩ := hv.range i x hi x1 x2
    have hstep : bfsStep X ord (d, i) =
        if X.opU i x ∈ ord then ord else ord ++ [X.opU i x] := by
      unfold bfsStep
      simp only [hx]
    simp only [List.foldl_cons]
    have hsplit' : loopPairs X.size X.dim = (pre ++ [(d, i)]) ++ rest := by rw [hsplit]; simp
    have hgoal : BInv X c (pre ++ [(d, i)]) (bfsStep X ord (d, i)) := by
      rw [hstep]
      by_cases he : X.opU i x ∈ ord
      · rw [if_pos he]
        refine ⟨h.nodup, h.range, h.head, ?_, ?_, ?_⟩
        · intro p hp y hy
          rcases List.mem_append.1 hp with hp | hp
          · exact h.closed p hp y hy
          · simp only [List.mem_singleton] at hp
            subst hp
            simp only at hy
            rw [hx] at hy
            injection hy with hy
            subst hy
            exact he
        · intro p hp
          rcases List.mem_append.1 hp with hp | hp
          · exact h.avail p hp
          · simp only [List.mem_singleton] at hp
            subst hp
            exact hav
        · intro k hk2 hkl
          obtain ⟨p, hp, hpk, y, hy1, hy2⟩ := h.born k hk2 hkl
          exact ⟨p, by simp [hp], hpk, y, hy1, hy2⟩
      · rw [if_neg he]
        have hleft : ∀ k, k < ord.length → (ord ++ [X.opU i x])[k]? = ord[k]? := by
          intro k hk
          exact List.getElem?_append_left hk
        refine ⟨?_, ?_, ?_, ?_, ?_, ?_⟩
        · rw [List.nodup_append]
          refine ⟨h.nodup, by simp, ?_⟩
          intro a ha b hb
          simp only [List.mem_singleton] at hb
          subst hb
          intro hab
          subst hab
          exact he ha
        · intro y hy
          rcases List.mem_append.1 hy with hy | hy
          · exact h.range y hy
          · simp only [List.mem_singleton] at hy
            subst hy
            exact ⟨e1, e2⟩
        · rw [hleft 0 (by omega)]; exact h.head
        · intro p hp y hy
          rcases List.mem_append.1 hp with hp | hp
          · have hpa := h.avail p hp
            have hp1 : 1 ≤ p.1 := by
              have : p ∈ loopPairs X.size X.dim := by rw [hsplit]; simp [hp]
              exact ((mem_loopPairs _ _ _).1 this).1
            rw [hleft _ (by omega)] at hy
            exact List.mem_append_left _ (h.closed p hp y hy)
          · simp only [List.mem_singleton] at hp
            subst hp
            simp only at hy
            rw [hleft _ (by omega), hx] at hy
            injection hy with hy
            subst hy
            simp
        · intro p hp
          simp only [List.length_append, List.length_cons, List.length_nil]
          rcases List.mem_append.1 hp with hp | hp
          · have := h.avail p hp; omega
          · simp only [List.mem_singleton] at hp
            subst hp
            simp only
            omega
        · intro k hk2 hkl
          simp only [List.length_append, List.length_cons, List.length_nil] at hkl
          by_cases hko : k ≤ ord.length
          · obtain ⟨p, hp, hpk, y, hy1, hy2⟩ := h.born k hk2 hko
            refine ⟨p, by simp [hp], hpk, y, ?_, ?_⟩
            · rw [hleft _ (by omega)]; exact hy1
            · rw [hleft _ (by omega)]; exact hy2
          · have hk : k = ord.length + 1 := by omega
            refine ⟨(d, i), by simp, by simp only; omega, x, ?_, ?_⟩
            · simp only
              rw [hleft _ (by omega)]; exact hx
            · simp only
              rw [hk, Nat.add_sub_cancel, List.getElem?_append_right (Nat.le_refl _)]
              simp
    have := ih (pre ++ [(d, i)]) _ hsplit' hgoal
    simpa using this

/-- what the finished search gives -/
theorem bfsOrd_spec {X : DSetData} (hv : ValidSet X) (hc : Connected X) {c : Nat}
    (c1 : 1 ≤ c) (c2 : c ≤ X.size) :
    BInv X c (loopPairs X.size X.dim) (bfsOrd X c) ∧ (bfsOrd X c).length = X.size ∧
    ∀ x, 1 ≤ x → x ≤ X.size → x ∈ bfsOrd X c := by
  have h0 : BInv X c [] [c] := by
    refine ⟨by simp, ?_, by simp, ?_, ?_, ?_⟩
    · intro x hx; simp only [List.mem_singleton] at hx; subst hx; exact ⟨c1, c2⟩
    · intro p hp; cases hp
    · intro p hp; cases hp
    · intro k hk2 hkl; simp only [List.length_cons, List.length_nil] at hkl; omega
  have h := bfs_inv hv hc (loopPairs X.size X.dim) [] [c] (by simp) h0
  simp only [List.nil_append] at h
  have hle := length_le_of_nodup_range h.nodup h.range
  have hge : X.size ≤ (bfsOrd X c).length := by
    have hm : (X.size, 0) ∈ loopPairs X.size X.dim :=
      (mem_loopPairs _ _ _).2 ⟨by simp only; omega, Nat.le_refl _, Nat.zero_le _⟩
    exact h.avail _ hm
  have hlen : (bfsOrd X c).length = X.size := by
    unfold bfsOrd at hle hge ⊢; omega
  refine ⟨h, hlen, ?_⟩
  -- the order is closed under the operations, hence contains every chamber
  have hcmem : c ∈ bfsOrd X c := List.mem_of_getElem? h.head
  have hcl : ∀ i' x, i' ≤ X.dim → x ∈ bfsOrd X c → X.opU i' x ∈ bfsOrd X c := by
    intro i' x hi' hx
    obtain ⟨k, hk, hxk⟩ := List.getElem_of_mem hx
    have hq : (k + 1, i') ∈ loopPairs X.size X.dim :=
      (mem_loopPairs _ _ _).2 ⟨by simp, by simp only; omega, hi'⟩
    exact h.closed _ hq x (by
      simp only [Nat.add_sub_cancel]; rw [List.getElem?_eq_getElem hk, hxk])
  intro x x1 x2
  exact closed_of_joined (S := (· ∈ bfsOrd X c)) hcl (joined_all hv hc c1 c2 x1 x2) hcmem

/-! ### the renumbered D-set -/

/-- new number of an old chamber -/
def newNum (X : DSetData) (c x : Nat) : Nat := (bfsOrd X c).idxOf x + 1
/-- old chamber of a new number -/
def oldCh (X : DSetData) (c k : Nat) : Nat := (bfsOrd X c).getD (k - 1) 0

/-- the breadth-first renumbering of `X` from chamber `c` -/
def renum (X : DSetData) (c : Nat) : DSetData :=
  { size := X.size, dim := X.dim,
    op := Array.ofFn (n := X.size * (X.dim + 1)) fun k =>
      newNum X c (X.opU (k.val % (X.dim + 1)) (oldCh X c (k.val / (X.dim + 1) + 1))) }

theorem renum_opU (X : DSetData) (c : Nat) {i d : Nat} (hi : i ≤ X.dim) (h1 : 1 ≤ d)
    (h2 : d ≤ X.size) : (renum X c).opU i d = newNum X c (X.opU i (oldCh X c d)) := by
  have hlt : (d - 1) * (X.dim + 1) + i < X.size * (X.dim + 1) := by
    have h3 : (d - 1 + 1) * (X.dim + 1) ≤ X.size * (X.dim + 1) :=
      Nat.mul_le_mul_right _ (by omega)
    rw [Nat.add_mul, Nat.one_mul] at h3
    omega
  unfold DSetData.opU DSetData.idx renum
  simp only
  have hsz : (Array.ofFn (n := X.size * (X.dim + 1)) fun k =>
      newNum X c (X.opU (k.val % (X.dim + 1)) (oldCh X c (k.val / (X.dim + 1) + 1)))).size =
      X.size * (X.dim + 1) := Array.size_ofFn
  rw [Array.getD_eq_getD_getElem?, Array.getElem?_eq_getElem (by rw [hsz]; exact hlt)]
  simp only [Array.getElem_ofFn, Option.getD_some]
  have hm : ((d - 1) * (X.dim + 1) + i) % (X.dim + 1) = i := by
    rw [Nat.add_comm, Nat.add_mul_mod_self_right]; exact Nat.mod_eq_of_lt (by omega)
  have hq : ((d - 1) * (X.dim + 1) + i) / (X.dim + 1) = d - 1 := by
    rw [Nat.add_comm, Nat.add_mul_div_right _ _ (by omega), Nat.div_eq_of_lt (by omega)]; omega
  rw [hm, hq, Nat.sub_add_cancel h1]

/-- numbers and chambers are mutually inverse -/
theorem renum_iso {X : DSetData} (hv : ValidSet X) (hc : Connected X) {c : Nat}
    (c1 : 1 ≤ c) (c2 : c ≤ X.size) :
    IsoBy X (renum X c) (newNum X c) (oldCh X c) ∧ newNum X c c = 1 := by
  obtain ⟨hb, hlen, hall⟩ := bfsOrd_spec hv hc c1 c2
  have hf : ∀ x, 1 ≤ x → x ≤ X.size → 1 ≤ newNum X c x ∧ newNum X c x ≤ X.size ∧
      oldCh X c (newNum X c x) = x := by
    intro x x1 x2
    have hx := hall x x1 x2
    have hlt := List.idxOf_lt_length_iff.2 hx
    refine ⟨by unfold newNum; omega, by unfold newNum; omega, ?_⟩
    unfold oldCh newNum
    rw [Nat.add_sub_cancel, List.getD_eq_getElem?_getD, List.getElem?_eq_getElem hlt]
    simp only [Option.getD_some]
    exact List.getElem_idxOf hlt
  have hg : ∀ k, 1 ≤ k → k ≤ X.size → 1 ≤ oldCh X c k ∧ oldCh X c k ≤ X.size ∧
      newNum X c (oldCh X c k) = k := by
    intro k k1 k2
    have hlt : k - 1 < (bfsOrd X c).length := by omega
    have he : oldCh X c k = (bfsOrd X c)[k - 1] := by
      unfold oldCh
      rw [List.getD_eq_getElem?_getD, List.getElem?_eq_getElem hlt]; rfl
    have hm : (bfsOrd X c)[k - 1] ∈ bfsOrd X c := List.getElem_mem hlt
    obtain ⟨r1, r2⟩ := hb.range _ hm
    refine ⟨by rw [he]; exact r1, by rw [he]; exact r2, ?_⟩
    unfold newNum
    rw [he]
    have := List.get_idxOf hb.nodup ⟨k - 1, hlt⟩
    simp only [List.get_eq_getElem] at this
    rw [this]
    omega
  refine ⟨⟨rfl, rfl, fun d a b => ⟨(hf d a b).1, (hf d a b).2.1⟩,
    fun d a b => ⟨(hg d a b).1, (hg d a b).2.1⟩, fun d a b => (hf d a b).2.2,
    fun d a b => (hg d a b).2.2, ?_⟩, ?_⟩
  · intro i d hi d1 d2
    obtain ⟨n1, n2, n3⟩ := hf d d1 d2
    rw [renum_opU X c hi n1 n2, n3]
  · unfold newNum
    have : (bfsOrd X c).idxOf c = 0 := by
      have hh := hb.head
      cases hl : bfsOrd X c with
      | nil => rw [hl] at hh; simp at hh
      | cons a t =>
        rw [hl] at hh
        simp only [List.getElem?_cons_zero, Option.some.injEq] at hh
        subst hh
        simp
    rw [this]

end DSymVerif.DSG
