/-
Property C15, phase 2 (`flattens_branchfree`), word side: `degree` of a word in a valid table is
the order of its permutation at row 0; a power of the permutation of a word is trivial iff the
same power of the permutation of its relator representative (a conjugate of the word or of its
inverse) is.
-/
import DSymVerif.Proofs.Delaney3dPipelineFlat
import DSymVerif.Proofs.FundGroupConj

namespace DSymVerif.D3
open DSymVerif DSymVerif.Cosets DSymVerif.SpecC11 DSymVerif.CosetP DSymVerif.FWP DSymVerif.CoversP
  DSymVerif.FGP DSymVerif.SpecC10

/-- conjugates and inverses: `μ(relRep a)^q = 1 ↔ μ(a)^q = 1` -/
theorem hom_relRep_pow_eq_one {G : Type} [Group G] (μ : FreeGroup ℕ →* G) {a : List Int}
    (hr : isReduced a = true) (q : Nat) :
    μ (den (FW.relatorRepresentative a)) ^ q = 1 ↔ μ (den a) ^ q = 1 := by
  by_cases hn : a = []
  · subst hn
    have : FW.relatorRepresentative [] = [] := by simp [FW.relatorRepresentative]
    rw [this]
  · have hm := relRep_mem hr hn
    unfold rotInvList at hm
    simp only [List.mem_flatMap, List.mem_range, List.mem_cons, List.not_mem_nil, or_false] at hm
    obtain ⟨k, hk, h | h⟩ := hm
    · rw [h, den_rotated hn hk, map_mul, map_mul, map_inv]
      have hc : ((μ (den (a.take k)))⁻¹ * μ (den a) * μ (den (a.take k))) ^ q =
          (μ (den (a.take k)))⁻¹ * μ (den a) ^ q * μ (den (a.take k)) := by
        have := conj_pow (a := (μ (den (a.take k)))⁻¹) (b := μ (den a)) (i := q)
        simpa using this
      rw [hc]
      constructor
      · intro h1
        have : μ (den a) ^ q = μ (den (a.take k)) * 1 * (μ (den (a.take k)))⁻¹ := by
          rw [← h1]; group
        rw [this]; group
      · intro h1
        rw [h1]; group
    · rw [h, den_inverse, den_rotated hn hk, map_inv, map_mul, map_mul, map_inv, inv_pow, inv_eq_one]
      have hc : ((μ (den (a.take k)))⁻¹ * μ (den a) * μ (den (a.take k))) ^ q =
          (μ (den (a.take k)))⁻¹ * μ (den a) ^ q * μ (den (a.take k)) := by
        have := conj_pow (a := (μ (den (a.take k)))⁻¹) (b := μ (den a)) (i := q)
        simpa using this
      rw [hc]
      constructor
      · intro h1
        have : μ (den a) ^ q = μ (den (a.take k)) * 1 * (μ (den (a.take k)))⁻¹ := by
          rw [← h1]; group
        rw [this]; group
      · intro h1
        rw [h1]; group

section
variable {t : Tab} {n : Nat} {rels subs : List (List Int)} (hv : Valid t n rels subs)

/-- `traceRow` through the model table is the permutation of the word -/
theorem traceRow_rhoM (w : List Int) (hw : ∀ g ∈ w, g ∈ letters n) (r : Fin t.size) :
    traceRow (tbl n t).get r.val w = .ok ((rhoM hv (PresentedGroup.mk _ (den w)))⁻¹ r).val := by
  have key : ∀ (u : List Int), (∀ g ∈ u, g ∈ letters n) → ∀ (k d : Nat), k < t.size →
      SpecC11.traceWord t n k u = some d → traceRow (tbl n t).get k u = .ok d := by
    intro u
    induction u with
    | nil =>
      intro _ k d _ h
      simp only [SpecC11.traceWord, Option.some.injEq] at h
      subst h; rfl
    | cons g u ih =>
      intro hu k d hk h
      simp only [SpecC11.traceWord] at h
      cases he : entry t n k g with
      | none => simp [he] at h
      | some e =>
        simp only [he] at h
        have hget : (tbl n t).get k g = .ok (some e) := get_ofView he
        rw [traceRow_cons_ok hget]
        exact ih (fun g' hg' => hu g' (List.mem_cons_of_mem _ hg')) e d (entry_some he).1 h
  obtain ⟨d, hd⟩ := traceWord_total hv w r.val r.isLt hw
  rw [key w hw r.val d r.isLt hd, rhoM_trace hv w r d hd]

/-- iterating the word from row 0 follows the powers of its permutation -/
theorem iterTrace_rhoM (w : List Int) (hw : ∀ g ∈ w, g ∈ letters n) :
    ∀ q, iterTrace (tbl n t).get w q 0 =
      .ok (((rhoM hv (PresentedGroup.mk _ (den w)))⁻¹ ^ q) ⟨0, hv.pos⟩).val
  | 0 => rfl
  | q + 1 => by
    simp only [iterTrace, iterTrace_rhoM w hw q]
    rw [traceRow_rhoM hv w hw, pow_succ', Equiv.Perm.mul_apply]

/-- if `degree` of a word is `V`, no smaller positive power of its permutation is trivial -/
theorem degree_min_perm (w : List Int) (hw : ∀ g ∈ w, g ∈ letters n) {V : Nat}
    (hdeg : degree n t w = .ok V) (q : Nat) (hq1 : 1 ≤ q) (hq2 : q < V) :
    rhoM hv (PresentedGroup.mk _ (den w)) ^ q ≠ 1 := by
  obtain ⟨k, hk, _, _, _, hmin⟩ := degree_valid hv w hw
  rw [hdeg] at hk
  cases hk
  intro hone
  apply hmin q hq1 hq2
  rw [iterTrace_rhoM hv w hw q, inv_pow, hone, inv_one]
  rfl

end

end DSymVerif.D3
