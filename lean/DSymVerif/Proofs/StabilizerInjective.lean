/-
C13, injectivity (Reidemeister–Schreier for the code's elimination): the edge words, read as
elements of the returned presentation `P = ⟨gens | srels⟩`, form an anti-symmetric labelling
(`PairInv`: an edge and its reverse carry mutually inverse reduced words) on which every relator
cycle has trivial voltage (every traced cycle is, up to rotation and inversion, a returned
relator); words assigned by a call of `close_relations_in_place` are never changed by later calls
(`closeLoop_more`), so tree edges keep the empty word and the `k`-th generator edge keeps the
letter `k`; hence tracing the `k`-th generator word from the base row has voltage "generator `k`",
and the twisted action on `rows × P` (`injective_of_twisted`) shows that the homomorphism
`P → ⟨1..n | rels⟩` is injective (`presentation_iso`).
-/
import DSymVerif.Proofs.StabilizerTwisted
import DSymVerif.Proofs.StabilizerTerminates

set_option linter.unusedSectionVars false
set_option linter.unusedVariables false

namespace DSymVerif.StabP
open DSymVerif DSymVerif.SpecC11 DSymVerif.CosetP DSymVerif.FWP DSymVerif.Cosets
open DSymVerif.Stab hiding traceWord
open DSymVerif.SpecC10 (isReduced)

/-! ### edge words as elements of the returned presentation -/

section LamP
variable {t : Tab} {n : Nat} (m : Nat) (srels : List (List Int))

/-- the word of an edge as an element of `⟨1..m | srels⟩` -/
noncomputable def lamP (e : EMap) (c : Nat) (g : Int) : GP m srels :=
  match e.get c g with
  | some W => mkG m srels W
  | none => 1

theorem mkG_mulAssign (a b : List Int) : mkG m srels (FW.mulAssign a b) = mkG m srels a * mkG m srels b := by
  rw [mkG_eq, mkG_eq, mkG_eq, liftDen_mulAssign]

/-- the model's `trace_word`, evaluated in the returned presentation -/
theorem traceWord_volP (hcomp : complete t n = true) (e : EMap) : ∀ (w : List Int) (p d : Nat) (res : List Int),
    traceWord t n p w = some d →
    ∃ W', Stab.traceWord (Table.ofView n t) e p w res = .ok W' ∧
      mkG m srels W' = mkG m srels res * vol t n (lamP m srels e) p w
  | [], p, d, res, _ => ⟨res, rfl, by simp [vol]⟩
  | g :: w, p, d, res, h => by
    simp only [traceWord] at h
    cases hent : entry t n p g with
    | none => simp [hent] at h
    | some q =>
      simp only [hent] at h
      obtain ⟨W', h1, h2⟩ := traceWord_volP hcomp e w q d
        (FW.mulAssign res ((e.get p g).getD FW.empty)) h
      refine ⟨W', ?_, ?_⟩
      · simp only [Stab.traceWord, get_ofView hent, h1]
      · rw [h2, mkG_mulAssign]
        simp only [vol, hent, lamP, mul_assoc]
        congr 1
        cases e.get p g with
        | none => simp [empty_eq, mkG_nil]
        | some W => simp

theorem liftDen_of_rotated_one {H : Type} [Group H] (f : ℕ → H) {a : List Int} (i : Int)
    (h1 : liftDen f (FW.rotated a i) = 1) : liftDen f a = 1 := by
  by_cases hn : a = []
  · subst hn; exact liftDen_nil f
  · rw [rotated_of_ne_nil hn, liftDen_normalized, liftDen_append] at h1
    have h2 := mul_eq_one_comm.mp h1
    rw [← liftDen_append, List.take_append_drop] at h2
    exact h2

/-- if the relator representative of a reduced word is trivial, so is the word -/
theorem mkG_of_relRep {T : List Int} (hred : isReduced T = true)
    (h1 : mkG m srels (FW.relatorRepresentative T) = 1) : mkG m srels T = 1 := by
  by_cases hn : T = []
  · subst hn; exact mkG_nil _ _
  · have hm := relRep_mem hred hn
    simp only [rotInvList, List.mem_flatMap, List.mem_range, List.mem_cons, List.not_mem_nil, or_false] at hm
    rw [mkG_eq] at h1 ⊢
    obtain ⟨i, _, hr | hr⟩ := hm
    · rw [hr] at h1
      exact liftDen_of_rotated_one _ i h1
    · rw [hr, liftDen_inverse, inv_eq_one] at h1
      exact liftDen_of_rotated_one _ i h1

/-! ### every traced relator cycle is a returned relator -/

theorem subrelFold_complete (ct : Table) (e2 : EMap) :
    ∀ (ps : List (Nat × List Int)) (acc res : List (List Int)),
      subrelFold ct e2 ps acc = .ok res →
      (∀ w ∈ acc, w ∈ res) ∧
      ∀ p r, (p, r) ∈ ps → ∀ T, Stab.traceWord ct e2 p r FW.empty = .ok T →
        (FW.relatorRepresentative T).length = 0 ∨ FW.relatorRepresentative T ∈ res
  | [], acc, res, h => by
    simp only [subrelFold, Outcome.ok.injEq] at h
    subst h
    exact ⟨fun _ h => h, by simp⟩
  | (p, r) :: rest, acc, res, h => by
    simp only [subrelFold] at h
    cases hT : Stab.traceWord ct e2 p r FW.empty with
    | err => simp [hT] at h
    | panic => simp [hT] at h
    | ok T =>
      simp only [hT] at h
      split at h
      · next hc =>
        obtain ⟨h1, h2⟩ := subrelFold_complete ct e2 rest _ res h
        refine ⟨fun w hw => h1 w (List.mem_append_left _ hw), ?_⟩
        intro p' r' hm T' hT'
        rcases List.mem_cons.mp hm with hm | hm
        · injection hm with e1 e2'
          subst e1 e2'
          rw [hT] at hT'
          injection hT' with hT'
          subst hT'
          exact Or.inr (h1 _ (by simp))
        · exact h2 p' r' hm T' hT'
      · next hc =>
        obtain ⟨h1, h2⟩ := subrelFold_complete ct e2 rest _ res h
        refine ⟨h1, ?_⟩
        intro p' r' hm T' hT'
        rcases List.mem_cons.mp hm with hm | hm
        · injection hm with e1 e2'
          subst e1 e2'
          rw [hT] at hT'
          injection hT' with hT'
          subst hT'
          by_cases hl : (FW.relatorRepresentative T).length > 0
          · right
            apply h1
            have : ¬ ¬ acc.contains (FW.relatorRepresentative T) = true := fun hn => hc ⟨hl, hn⟩
            simpa using this
          · left; omega
        · exact h2 p' r' hm T' hT'

theorem mem_insertSorted_self (w : List Int) : ∀ (l : List (List Int)), w ∈ FW.insertSorted w l
  | [] => by simp [FW.insertSorted]
  | v :: vs => by
    simp only [FW.insertSorted]
    split
    · simp
    · next h => rw [(cmp_eq_iff w v).mp h]; simp
    · exact List.mem_cons_of_mem _ (mem_insertSorted_self w vs)

theorem mem_insertSorted_of_mem {w x : List Int} : ∀ {l : List (List Int)}, x ∈ l → x ∈ FW.insertSorted w l
  | v :: vs, h => by
    simp only [FW.insertSorted]
    split
    · exact List.mem_cons_of_mem _ h
    · exact h
    · rcases List.mem_cons.mp h with h | h
      · simp [h]
      · exact List.mem_cons_of_mem _ (mem_insertSorted_of_mem h)

theorem mem_sortDescending_of_mem {x : List Int} {ws : List (List Int)} (h : x ∈ ws) : x ∈ sortDescending ws := by
  unfold sortDescending
  rw [List.mem_reverse]
  have key : ∀ (ws acc : List (List Int)), (x ∈ acc ∨ x ∈ ws) →
      x ∈ ws.foldl (fun acc w => FW.insertSorted w acc) acc := by
    intro ws
    induction ws with
    | nil => intro acc h; rcases h with h | h; exact h; cases h
    | cons w ws ih =>
      intro acc h
      apply ih
      rcases h with h | h
      · exact Or.inl (mem_insertSorted_of_mem h)
      · rcases List.mem_cons.mp h with rfl | h
        · exact Or.inl (mem_insertSorted_self _ _)
        · exact Or.inr h
  exact key ws [] (Or.inr h)

end LamP

/-! ### literal pairing of edge words, reducedness, and stability of words already assigned -/

section Pair
variable {t : Tab} {n : Nat} {rels : List (List Int)} {u : Nat → List Int} {gens : List (List Int)}

theorem inverse_inverse {w : List Int} (h : isReduced w = true) : FW.inverse (FW.inverse w) = w := by
  rw [inverse_of_isReduced (inverse_isReduced w), inverse_of_isReduced h, invW_invW]

/-- an edge and its reverse carry mutually inverse reduced words -/
structure PairInv (t : Tab) (n : Nat) (e : EMap) : Prop where
  ngens : e.n = n
  ok : ∀ c g d W, entry t n c g = some d → e.get c g = some W →
    e.get d (-g) = some (FW.inverse W) ∧ isReduced W = true

def QRed (q : Queue) : Prop := ∀ x ∈ q, isReduced x.2.2 = true

theorem scanRel_red {ct : Table} {e : EMap} {point : Nat} {r : List Int} {q q' : Queue}
    (h : scanRel ct e point r q = .ok q') (hq : QRed q) : QRed q' := by
  unfold scanRel at h
  cases hc : cutsGo ct e r 0 point [] with
  | err => simp [hc] at h
  | panic => simp [hc] at h
  | ok l =>
    simp only [hc] at h
    match l, h with
    | [], h => simp only [Outcome.ok.injEq] at h; subst h; exact hq
    | [(p, g, i)], h =>
      simp only at h
      cases hT : Stab.traceWord ct e p (cutWord r i g) FW.empty with
      | err => simp [hT] at h
      | panic => simp [hT] at h
      | ok W =>
        simp only [hT, Outcome.ok.injEq] at h
        subst h
        intro x hx
        rcases List.mem_append.mp hx with hx | hx
        · exact hq x hx
        · simp only [List.mem_singleton] at hx
          subst hx
          exact model_traceWord_isReduced ct e _ p FW.empty W (by rfl) hT
    | a :: b :: l, h => simp only [Outcome.ok.injEq] at h; subst h; exact hq

theorem scanRels_red {ct : Table} {e : EMap} {point : Nat} : ∀ (rs : List (List Int)) (q q' : Queue),
    scanRels ct e point rs q = .ok q' → QRed q → QRed q'
  | [], q, q', h, hq => by simp only [scanRels, Outcome.ok.injEq] at h; subst h; exact hq
  | r :: rs, q, q', h, hq => by
    simp only [scanRels] at h
    cases h1 : scanRel ct e point r q with
    | err => simp [h1] at h
    | panic => simp [h1] at h
    | ok q1 =>
      simp only [h1] at h
      exact scanRels_red rs q1 q' h (scanRel_red h1 hq)

theorem PairInv_insert (hinv : InvConsistent t n) {e : EMap} (hp : PairInv t n e)
    {point tgt : Nat} {gen : Int} {w : List Int} (hent : entry t n point gen = some tgt)
    (hw : isReduced w = true)
    (hget : ∀ c g, ((e.insert tgt (-gen) (FW.inverse w)).insert point gen w).get c g =
      if c = point ∧ g = gen then some w else if c = tgt ∧ g = -gen then some (FW.inverse w)
      else e.get c g) :
    PairInv t n ((e.insert tgt (-gen) (FW.inverse w)).insert point gen w) := by
  have hg0 : gen ≠ 0 := (inRange_of_mem (entry_some hent).2.2).2.2
  have hent' := hinv _ _ _ hent
  refine ⟨by rw [EMap.insert_n, EMap.insert_n, hp.ngens], ?_⟩
  intro c g d W hcg hW
  rw [hget] at hW
  rw [hget]
  by_cases h1 : c = point ∧ g = gen
  · obtain ⟨rfl, rfl⟩ := h1
    simp only [and_self, if_true, Option.some.injEq] at hW
    subst hW
    rw [hent] at hcg
    injection hcg with hcg
    subst hcg
    refine ⟨?_, hw⟩
    have : ¬ (tgt = c ∧ -g = g) := by rintro ⟨_, h⟩; omega
    simp [this]
  · rw [if_neg h1] at hW
    by_cases h2 : c = tgt ∧ g = -gen
    · obtain ⟨rfl, rfl⟩ := h2
      simp only [and_self, if_true, Option.some.injEq] at hW
      subst hW
      rw [hent'] at hcg
      injection hcg with hcg
      subst hcg
      refine ⟨?_, inverse_isReduced w⟩
      simp [inverse_inverse hw]
    · rw [if_neg h2] at hW
      obtain ⟨h3, h4⟩ := hp.ok c g d W hcg hW
      refine ⟨?_, h4⟩
      have hdc := hinv _ _ _ hcg
      have n1 : ¬ (d = point ∧ -g = gen) := by
        rintro ⟨rfl, hg⟩
        apply h2
        rw [hg, hent] at hdc
        injection hdc with hdc
        exact ⟨hdc.symm, by omega⟩
      have n2 : ¬ (d = tgt ∧ -g = -gen) := by
        rintro ⟨rfl, hg⟩
        apply h1
        have : g = gen := by omega
        subst this
        rw [hent'] at hdc
        injection hdc with hdc
        exact ⟨hdc.symm, rfl⟩
      rw [if_neg n1, if_neg n2]
      exact h3

/-- `close_relations_in_place` keeps the pairing and never changes a word assigned before the call,
    except on the edges it was called for -/
theorem closeLoop_more (hcomp : complete t n = true) (hinv : InvConsistent t n) {rbg : RelMap}
    (hrbg : RbgOk t n rels rbg) :
    ∀ (fuel : Nat) (q : Queue) (e e' : EMap), EInv t n rels u gens e → QInv t n rels u gens q →
      PairInv t n e → QRed q → Stab.closeLoop (Table.ofView n t) rbg fuel q e = .ok e' →
      PairInv t n e' ∧
      ∀ c g W, e.get c g = some W →
        (∀ x ∈ q, ¬ (c = x.1 ∧ g = x.2.1) ∧ ¬ (entry t n x.1 x.2.1 = some c ∧ g = -x.2.1)) →
        e'.get c g = some W
  | _, [], e, e', _, _, hp, _, h => by
    simp only [Stab.closeLoop, Outcome.ok.injEq] at h
    subst h
    exact ⟨hp, fun _ _ _ h _ => h⟩
  | 0, _ :: _, _, _, _, _, _, _, h => by simp [Stab.closeLoop] at h
  | f + 1, (point, gen, w) :: q, e, e', he, hq, hp, hr, h => by
    obtain ⟨tgt, hent, hwv⟩ := hq (point, gen, w) (by simp)
    simp only at hent hwv
    obtain ⟨he2, hget⟩ := EInv_insert hinv he hent hwv
    have hq' : QInv t n rels u gens q := fun x hm => hq x (by simp [hm])
    have hrs : ∀ r ∈ (rbgLookup gen rbg).getD [], RelOk t n rels r := by
      cases hl : rbgLookup gen rbg with
      | none => simp
      | some rs => simpa using hrbg gen rs hl
    obtain ⟨ext, hs, hqe, _, hextu⟩ := scanRels_inv hcomp hinv he2 (entry_some hent).2.1 _ q hrs hq'
    simp only [Stab.closeLoop, get_ofView hent, hs] at h
    have hp2 := PairInv_insert hinv hp hent (hr (point, gen, w) (by simp)) hget
    have hr2 : QRed (q ++ ext) := scanRels_red _ q _ hs (fun x hx => hr x (by simp [hx]))
    obtain ⟨g1, g2⟩ := closeLoop_more hcomp hinv hrbg f (q ++ ext) _ e' he2 hqe hp2 hr2 h
    refine ⟨g1, ?_⟩
    intro c g W hW hne
    have hx0 := hne (point, gen, w) (by simp)
    simp only at hx0
    have hW2 : ((e.insert tgt (-gen) (FW.inverse w)).insert point gen w).get c g = some W := by
      rw [hget, if_neg hx0.1, if_neg (fun hh => hx0.2 ⟨by rw [hent, hh.1], hh.2⟩)]
      exact hW
    apply g2 c g W hW2
    intro x hx
    rcases List.mem_append.mp hx with hx | hx
    · exact hne x (by simp [hx])
    · have hxu := hextu x hx
      refine ⟨?_, ?_⟩
      · rintro ⟨rfl, rfl⟩
        rw [hxu] at hW2; cases hW2
      · rintro ⟨hxe, rfl⟩
        -- the reverse of an unknown edge is unknown
        have hk := (he2.ok c (-x.2.1) x.1 W (hinv _ _ _ hxe) hW2).2
        unfold Known at hk
        rw [neg_neg, hxu] at hk
        cases hk


theorem closeFuel_pos (ct : Table) (rbg : RelMap) : ∃ f, closeFuel ct rbg = f + 1 := by
  have : 0 < closeFuel ct rbg := by
    unfold closeFuel
    exact Nat.pow_pos (by omega)
  exact ⟨closeFuel ct rbg - 1, by omega⟩

/-- one call of `close_relations_in_place` -/
theorem closeRelations_more (hcomp : complete t n = true) (hinv : InvConsistent t n) {rbg : RelMap}
    (hrbg : RbgOk t n rels rbg) {e e' : EMap} (he : EInv t n rels u gens e) (hp : PairInv t n e)
    {p : Nat} {g : Int} {w : List Int} {d : Nat} (hent : entry t n p g = some d)
    (hw : psi n rels gens w = sch n rels u t p g) (hred : isReduced w = true)
    (h : closeRelations (Table.ofView n t) rbg e (p, g) w = .ok e') :
    PairInv t n e' ∧ e'.get p g = some w ∧
      ∀ c g' W, e.get c g' = some W → ¬ (c = p ∧ g' = g) → ¬ (c = d ∧ g' = -g) → e'.get c g' = some W := by
  have hq : QInv t n rels u gens [(p, g, w)] := by
    intro x hx; simp only [List.mem_singleton] at hx; subst hx; exact ⟨d, hent, hw⟩
  have hr : QRed [(p, g, w)] := by
    intro x hx; simp only [List.mem_singleton] at hx; subst hx; exact hred
  unfold closeRelations at h
  obtain ⟨g1, g2⟩ := closeLoop_more hcomp hinv hrbg _ [(p, g, w)] e e' he hq hp hr h
  refine ⟨g1, ?_, ?_⟩
  · -- unfold the first pop
    obtain ⟨f, hf⟩ := closeFuel_pos (Table.ofView n t) rbg
    rw [hf] at h
    obtain ⟨he2, hget⟩ := EInv_insert hinv he hent hw
    have hrs : ∀ r ∈ (rbgLookup g rbg).getD [], RelOk t n rels r := by
      cases hl : rbgLookup g rbg with
      | none => simp
      | some rs => simpa using hrbg g rs hl
    obtain ⟨ext, hs, hqe, _, hextu⟩ := scanRels_inv hcomp hinv he2 (entry_some hent).2.1 _ []
      hrs (by intro x hx; cases hx)
    simp only [Stab.closeLoop, get_ofView hent, hs, List.nil_append] at h
    simp only [List.nil_append] at hqe
    have hp2 := PairInv_insert hinv hp hent hred hget
    have hr2 : QRed ext := by
      have := scanRels_red _ [] _ hs (by intro x hx; cases hx)
      simpa using this
    obtain ⟨_, k2⟩ := closeLoop_more hcomp hinv hrbg f ext _ e' he2 hqe hp2 hr2 h
    have hW2 : ((e.insert d (-g) (FW.inverse w)).insert p g w).get p g = some w := by
      rw [hget]; simp
    apply k2 p g w hW2
    intro x hx
    have hxu := hextu x hx
    refine ⟨?_, ?_⟩
    · rintro ⟨rfl, rfl⟩
      rw [hxu] at hW2; cases hW2
    · rintro ⟨hxe, hg⟩
      have hk := (he2.ok p g x.1 w (by rw [hg]; exact hinv _ _ _ hxe) hW2).2
      have hng : -g = x.2.1 := by omega
      have hk2 : Known ((e.insert d (-g) (FW.inverse w)).insert p g w) x.1 x.2.1 :=
        Eq.subst (motive := fun z => Known ((e.insert d (-g) (FW.inverse w)).insert p g w) x.1 z) hng hk
      unfold Known at hk2
      rw [hxu] at hk2
      cases hk2
  · intro c g' W hW h1 h2
    apply g2 c g' W hW
    intro x hx
    simp only [List.mem_singleton] at hx
    subst hx
    simp only
    exact ⟨h1, fun hh => h2 ⟨by rw [hent] at hh; injection hh.1 with h3; exact h3.symm, hh.2⟩⟩

theorem treeFold_more (hcomp : complete t n = true) (hinv : InvConsistent t n) {rbg : RelMap}
    (hrbg : RbgOk t n rels rbg) :
    ∀ (es : List (Nat × Int)) (R R' : List Nat) (e : EMap) (p : PMap) (e' : EMap) (p' : PMap),
      walk t n R es = some R' →
      (∀ pt gen, (pt, gen) ∈ es → ∃ tgt, entry t n pt gen = some tgt ∧ sch n rels u t pt gen = 1) →
      EInv t n rels u gens e → PairInv t n e →
      treeFold (Table.ofView n t) rbg es e p = .ok (e', p') →
      PairInv t n e' ∧ (∀ pt gen, (pt, gen) ∈ es → e'.get pt gen = some FW.empty) ∧
      (∀ c g W d, e.get c g = some W → entry t n c g = some d → c ∈ R → d ∈ R → e'.get c g = some W)
  | [], R, R', e, p, e', p', _, _, _, hp, h => by
    simp only [treeFold, Outcome.ok.injEq, Prod.mk.injEq] at h
    rw [← h.1]
    exact ⟨hp, by simp, fun _ _ _ _ h _ _ _ => h⟩
  | (pt, gen) :: es, R, R', e, p, e', p', hw, htree, he, hp, h => by
    obtain ⟨tgt, hent, hone⟩ := htree pt gen (by simp)
    simp only [walk, hent] at hw
    by_cases hc : pt ∈ R ∧ tgt ∉ R
    · rw [if_pos hc] at hw
      simp only [treeFold] at h
      cases hcl : closeRelations (Table.ofView n t) rbg e (pt, gen) FW.empty with
      | err => simp [hcl] at h
      | panic => simp [hcl] at h
      | ok e1 =>
        simp only [hcl, get_ofView hent] at h
        cases hl : pLookup pt p with
        | none => simp [hl] at h
        | some w =>
          simp only [hl] at h
          obtain ⟨h1, _, _⟩ := closeRelations_inv hcomp hinv hrbg he hent (by rw [psi_empty, hone]) hcl
          obtain ⟨k1, k2, k3⟩ := closeRelations_more hcomp hinv hrbg he hp hent
            (by rw [psi_empty, hone]) (by rfl) hcl
          obtain ⟨g1, g2, g3⟩ := treeFold_more hcomp hinv hrbg es (tgt :: R) R' e1 _ e' p' hw
            (fun pt' gen' hm => htree pt' gen' (by simp [hm])) h1 k1 h
          refine ⟨g1, ?_, ?_⟩
          · intro pt' gen' hm
            rcases List.mem_cons.mp hm with hm | hm
            · injection hm with a1 a2
              subst a1 a2
              exact g3 _ _ _ tgt k2 hent (List.mem_cons_of_mem _ hc.1) (by simp)
            · exact g2 pt' gen' hm
          · intro c g W d hW hd hcR hdR
            apply g3 c g W d _ hd (List.mem_cons_of_mem _ hcR) (List.mem_cons_of_mem _ hdR)
            apply k3 c g W hW
            · rintro ⟨rfl, rfl⟩
              rw [hent] at hd
              injection hd with hd
              exact hc.2 (hd ▸ hdR)
            · rintro ⟨rfl, _⟩
              exact hc.2 hcR
    · rw [if_neg hc] at hw; cases hw


theorem genFold_more (hcomp : complete t n = true) (hinv : InvConsistent t n) {rbg : RelMap}
    (hrbg : RbgOk t n rels rbg) {p2w : PMap} (hu : ∀ x w, pLookup x p2w = some w → u x = w)
    {G : List (List Int)} :
    ∀ (ps : List (Nat × Int)) (e : EMap) (gs : List (List Int)) (e' : EMap),
      (∀ px g, (px, g) ∈ ps → ∃ d, entry t n px g = some d) →
      EInv t n rels u G e → PairInv t n e →
      genFold (Table.ofView n t) rbg p2w ps e gs = .ok (e', G) →
      PairInv t n e' ∧ (∀ c g W, e.get c g = some W → e'.get c g = some W) ∧
      (∀ k, gs.length ≤ k → k < G.length → ∃ px g d, entry t n px g = some d ∧
        e'.get px g = some (FW.new [((k + 1 : Nat) : Int)]) ∧
        G[k]? = some (schreierGen (u px) g (u d)))
  | [], e, gs, e', _, he, hp, h => by
    simp only [genFold, Outcome.ok.injEq, Prod.mk.injEq] at h
    rw [← h.1]
    refine ⟨hp, fun _ _ _ h => h, ?_⟩
    intro k h1 h2
    rw [← h.2] at h2
    omega
  | (px, g) :: r, e, gs, e', hps, he, hp, h => by
    obtain ⟨d, hent⟩ := hps px g (by simp)
    have hps' : ∀ px' g', (px', g') ∈ r → ∃ d, entry t n px' g' = some d :=
      fun px' g' hm => hps px' g' (by simp [hm])
    simp only [genFold] at h
    cases hk : e.get px g with
    | some W =>
      simp only [hk] at h
      exact genFold_more hcomp hinv hrbg hu r e gs e' hps' he hp h
    | none =>
      simp only [hk] at h
      cases hx : pLookup px p2w with
      | none => simp [hx] at h
      | some wx =>
        simp only [hx, get_ofView hent] at h
        cases hy : pLookup d p2w with
        | none => simp [hy] at h
        | some wy =>
          simp only [hy] at h
          generalize hc : closeRelations (Table.ofView n t) rbg e (px, g) _ = cr at h
          cases cr with
          | err => simp at h
          | panic => simp at h
          | ok e1 =>
            simp only at h
            obtain ⟨rest, hrest⟩ := genFold_prefix r e1 _ e' G h
            have hword : psi n rels G (FW.new [((gs ++ [schreierGen wx g wy]).length : Int)]) =
                sch n rels u t px g := by
              rw [psi_letter G _ (by simp)]
              have : G.getD ((gs ++ [schreierGen wx g wy]).length - 1) [] = schreierGen wx g wy := by
                rw [hrest]
                simp
              rw [this, mkG_schreierGen]
              simp only [sch, hent, hu px wx hx, hu d wy hy]
            obtain ⟨a1, _, _⟩ := closeRelations_inv hcomp hinv hrbg he hent hword hc
            obtain ⟨k1, k2, k3⟩ := closeRelations_more hcomp hinv hrbg he hp hent hword
              (new_isReduced _) hc
            obtain ⟨g1, g2, g3⟩ := genFold_more hcomp hinv hrbg hu r e1 _ e' hps' a1 k1 h
            refine ⟨g1, ?_, ?_⟩
            · intro c g' W hW
              apply g2
              apply k3 c g' W hW
              · rintro ⟨rfl, rfl⟩
                rw [hk] at hW; cases hW
              · rintro ⟨rfl, rfl⟩
                have hkn := (he.ok c (-g) px W (hinv _ _ _ hent) hW).2
                unfold Known at hkn
                rw [neg_neg, hk] at hkn
                cases hkn
            · intro k hk1 hk2
              by_cases hkk : k = gs.length
              · subst hkk
                refine ⟨px, g, d, hent, ?_, ?_⟩
                · apply g2
                  have : ((gs ++ [schreierGen wx g wy]).length : Int) = ((gs.length + 1 : Nat) : Int) := by simp
                  rw [← this]
                  exact k2
                · rw [hrest, hu px wx hx, hu d wy hy]
                  simp
              · exact g3 k (by simp; omega) hk2

end Pair

/-! ### the run of `stabilizer`, with everything the injectivity proof needs -/

section Run
variable {t : Tab} {n : Nat} {rels : List (List Int)}

theorem pairInv_new (n : Nat) : PairInv t n (EMap.new n) :=
  ⟨rfl, fun c g d W _ hW => by rw [EMap.get_new] at hW; cases hW⟩

/-- facts about a successful run -/
theorem stabilizer_run (hcomp : complete t n = true) {subs : List (List Int)} (hv : Valid t n rels subs)
    {base : Nat} (hb : base < t.size) {gens srels : List (List Int)}
    (h : stabilizer base rels (Table.ofView n t) = .ok (gens, srels)) :
    ∃ (u : Nat → List Int) (e2 : EMap) (edges : List (Nat × Int)) (R : List Nat) (sub : List (List Int)),
      u base = [] ∧ EInv t n rels u gens e2 ∧ PairInv t n e2 ∧
      (∀ c, c < t.size → ∀ g ∈ letters n, Known e2 c g) ∧
      walk t n [base] edges = some R ∧ (∀ x, x < t.size → x ∈ R) ∧
      (∀ x ∈ R, traceWord t n base (u x) = some x) ∧
      (∀ pt gen, (pt, gen) ∈ edges → ∃ tgt, entry t n pt gen = some tgt ∧
        u tgt = FW.mulLetter (u pt) gen ∧ e2.get pt gen = some FW.empty) ∧
      (∀ k, k < gens.length → ∃ px g d, entry t n px g = some d ∧
        e2.get px g = some (FW.new [((k + 1 : Nat) : Int)]) ∧ gens[k]? = some (schreierGen (u px) g (u d))) ∧
      subrelFold (Table.ofView n t) e2 (subrelPairs (Table.ofView n t) rels) [] = .ok sub ∧
      srels = sortDescending sub := by
  have hinv : InvConsistent t n := hv.inv
  have hl : ∀ rel ∈ rels, ∀ g ∈ rel, g ∈ letters n :=
    fun rel hrel => trace_letters (hv.rel rel hrel 0 hv.pos)
  unfold stabilizer at h
  cases h1 : relatorsByStartGen rels with
  | err => simp [h1] at h
  | panic => simp [h1] at h
  | ok rbg =>
    simp only [h1] at h
    have hrbg := rbgOk_of_start hv hl h1
    obtain ⟨edges, R, hsp, hwalk, hbR, hRlt, hRcl⟩ := spanningTree_spec hcomp hb
    simp only [hsp] at h
    cases h3 : treeFold (Table.ofView n t) rbg edges (EMap.new (Table.ofView n t).nrGens) [(base, FW.empty)] with
    | err => simp [h3] at h
    | panic => simp [h3] at h
    | ok ep =>
      obtain ⟨e1, p2w⟩ := ep
      simp only [h3] at h
      cases h4 : genFold (Table.ofView n t) rbg p2w (genPairs (Table.ofView n t)) e1 [] with
      | err => simp [h4] at h
      | panic => simp [h4] at h
      | ok eg =>
        obtain ⟨e2, gens'⟩ := eg
        simp only [h4] at h
        cases h5 : subrelFold (Table.ofView n t) e2 (subrelPairs (Table.ofView n t) rels) [] with
        | err => simp [h5] at h
        | panic => simp [h5] at h
        | ok sub =>
          simp only [h5, Outcome.ok.injEq, Prod.mk.injEq] at h
          obtain ⟨rfl, hsr⟩ := h
          have hk0 : PKeys [(base, FW.empty)] [base] := by
            intro k
            simp only [pLookup, List.mem_singleton]
            by_cases e : base = k
            · simp [e]
            · simp only [e, if_false]
              constructor
              · intro hh; cases hh
              · intro hh; exact absurd hh.symm e
          obtain ⟨hkeys, hmono, hedge⟩ := treeFold_p2w hcomp edges [base] R _ _ e1 p2w hwalk hk0 h3
          have hpinv := treeFold_PInv hcomp hinv rbg edges _ _ e1 p2w (PInv_init t n base) h3
          have hu : ∀ x w, pLookup x p2w = some w → (fun x => (pLookup x p2w).getD []) x = w := by
            intro x w hx; simp [hx]
          have htree : ∀ pt gen, (pt, gen) ∈ edges → ∃ tgt, entry t n pt gen = some tgt ∧
              sch n rels (fun x => (pLookup x p2w).getD []) t pt gen = 1 := by
            intro pt gen hm
            obtain ⟨tgt, w, hent, hw1, hw2⟩ := hedge pt gen hm
            refine ⟨tgt, hent, ?_⟩
            simp only [sch, hent, hw1, hw2, Option.getD_some, mkG_mulLetter]
            simp [mul_assoc]
          have he0 : EInv t n rels (fun x => (pLookup x p2w).getD []) gens'
              (EMap.new (Table.ofView n t).nrGens) :=
            ⟨rfl, fun c g d W _ hW => by rw [EMap.get_new] at hW; cases hW⟩
          obtain ⟨he1, _⟩ := treeFold_einv hcomp hinv hrbg edges _ _ e1 p2w htree he0 h3
          obtain ⟨hp1, hempty, _⟩ := treeFold_more hcomp hinv hrbg edges [base] R _ _ e1 p2w hwalk htree he0
            (pairInv_new n) h3
          have hpairs : ∀ px g, (px, g) ∈ genPairs (Table.ofView n t) → ∃ d, entry t n px g = some d :=
            fun px g hm => complete_spec hcomp (mem_genPairs.mp hm).1 (mem_genPairs.mp hm).2
          obtain ⟨he2, _, hknown⟩ := genFold_einv hcomp hinv hrbg hu
            (genPairs (Table.ofView n t)) e1 [] e2 hpairs he1 h4
          obtain ⟨hp2, hstab, hrec⟩ := genFold_more hcomp hinv hrbg hu
            (genPairs (Table.ofView n t)) e1 [] e2 hpairs he1 hp1 h4
          have hall : ∀ x, x < t.size → x ∈ R := by
            intro x hx
            obtain ⟨wb, hwb⟩ := hv.conn base hb
            obtain ⟨wx, hwx⟩ := hv.conn x hx
            have h0 : 0 ∈ R := closed_trace hRcl _ base 0 hbR (trace_inverse hinv wb 0 base hwb)
            exact closed_trace hRcl wx 0 x h0 hwx
          refine ⟨fun x => (pLookup x p2w).getD [], e2, edges, R, sub, ?_, he2, hp2,
            fun c hc g hg => hknown c g (mem_genPairs.mpr ⟨hc, hg⟩), hwalk, hall, ?_, ?_, ?_, h5, hsr.symm⟩
          · have := hmono base FW.empty (by simp [pLookup])
            simp [this, empty_eq]
          · intro x hx
            have hs := (hkeys x).mpr hx
            cases hl : pLookup x p2w with
            | none => simp [hl] at hs
            | some w =>
              show traceWord t n base ((pLookup x p2w).getD []) = some x
              rw [hl]; exact hpinv x w hl
          · intro pt gen hm
            obtain ⟨tgt, w, hent, hw1, hw2⟩ := hedge pt gen hm
            refine ⟨tgt, hent, by simp [hw1, hw2], hstab _ _ _ (hempty pt gen hm)⟩
          · intro k hk
            exact hrec k (Nat.zero_le _) hk

end Run

/-! ### injectivity -/

section Iso
variable {t : Tab} {n : Nat} {rels : List (List Int)}

theorem tree_vol {m : Nat} {srels : List (List Int)} (hinv : InvConsistent t n) {e2 : EMap}
    (hanti : AntiSym t n (lamP m srels e2)) {u : Nat → List Int} {base : Nat} :
    ∀ (es : List (Nat × Int)) (R R' : List Nat), walk t n R es = some R' →
      (∀ x ∈ R, traceWord t n base (u x) = some x ∧ vol t n (lamP m srels e2) base (u x) = 1) →
      (∀ pt gen, (pt, gen) ∈ es → ∃ tgt, entry t n pt gen = some tgt ∧
        u tgt = FW.mulLetter (u pt) gen ∧ e2.get pt gen = some FW.empty) →
      ∀ x ∈ R', traceWord t n base (u x) = some x ∧ vol t n (lamP m srels e2) base (u x) = 1
  | [], R, R', hw, hR, _ => by
    simp only [walk, Option.some.injEq] at hw
    rw [← hw]; exact hR
  | (pt, gen) :: es, R, R', hw, hR, hes => by
    obtain ⟨tgt, hent, hu, hget⟩ := hes pt gen (by simp)
    simp only [walk, hent] at hw
    by_cases hc : pt ∈ R ∧ tgt ∉ R
    · rw [if_pos hc] at hw
      apply tree_vol hinv hanti es (tgt :: R) R' hw _ (fun pt' gen' hm => hes pt' gen' (by simp [hm]))
      intro x hx
      rcases List.mem_cons.mp hx with rfl | hx
      · obtain ⟨h1, h2⟩ := hR pt hc.1
        have htr : traceWord t n base (u pt ++ [gen]) = some x := traceWord_snoc_intro h1 hent
        rw [hu]
        refine ⟨trace_normalized hinv _ _ _ htr, ?_⟩
        show vol t n (lamP m srels e2) base (FW.normalized (u pt ++ [gen])) = 1
        rw [vol_normalized hinv hanti htr, vol_append _ _ _ _ _ h1, h2, vol_single _ hent, one_mul]
        simp [lamP, hget, empty_eq, mkG_nil]
      · exact hR x hx
    · rw [if_neg hc] at hw; cases hw

theorem mkG_new_letter (m : Nat) (srels : List (List Int)) (i : Fin m) :
    mkG m srels (FW.new [((i.val + 1 : Nat) : Int)]) = PresentedGroup.of i := by
  rw [mkG_new]
  unfold mkG
  have h1 : (1 : Int) ≤ ((i.val + 1 : Nat) : Int) ∧ ((i.val + 1 : Nat) : Int) ≤ m := by omega
  simp only [wordElt_cons, wordElt_nil, mul_one, letterElt, dif_pos h1]
  rfl

/-- ✔ the returned presentation is isomorphic to the stabiliser: the homomorphism of
    `presentation_hom` is injective -/
theorem presentation_iso (hcomp : complete t n = true) {subs : List (List Int)}
    (hv : Valid t n rels subs) {base : Nat} (hb : base < t.size) {gens srels : List (List Int)}
    (h : stabilizer base rels (Table.ofView n t) = .ok (gens, srels)) :
    ∃ f : PresentedGroup (relSet gens.length srels) →* GP n rels,
      (∀ i : Fin gens.length, f (PresentedGroup.of i) = mkG n rels gens[i]) ∧
      f.range = stabOf hv base hb ∧ Function.Injective f := by
  obtain ⟨f, hf, hrange⟩ := presentation_hom hcomp hv hb h
  refine ⟨f, hf, hrange, ?_⟩
  have hinv : InvConsistent t n := hv.inv
  obtain ⟨u, e2, edges, R, sub, hub, he2, hp2, hknown, hwalk, hall, _, hedges, hrec, hsub, hsr⟩ :=
    stabilizer_run hcomp hv hb h
  -- (N1) the labelling is anti-symmetric
  have hanti : AntiSym t n (lamP gens.length srels e2) := by
    intro c g d hent
    have hk := hknown c (entry_some hent).2.1 g (entry_some hent).2.2
    unfold Known at hk
    cases hW : e2.get c g with
    | none => simp [hW] at hk
    | some W =>
      obtain ⟨h1, _⟩ := hp2.ok c g d W hent hW
      simp only [lamP, hW, h1, mkG_inverse]
  -- (N2) relator cycles have trivial voltage
  have hlen : (Table.ofView n t).len = t.size := by simp [Table.len, Table.ofView]
  have hrel : ∀ r ∈ rels, ∀ c, c < t.size → vol t n (lamP gens.length srels e2) c r = 1 := by
    intro r hr c hc
    obtain ⟨T, hT, hval⟩ := traceWord_volP gens.length srels hcomp e2 r c c FW.empty (hv.rel r hr c hc)
    have hmem : (c, r) ∈ subrelPairs (Table.ofView n t) rels := by
      unfold subrelPairs
      simp only [List.mem_flatMap, List.mem_range, List.mem_map, Prod.mk.injEq, hlen]
      exact ⟨c, hc, r, hr, rfl, rfl⟩
    have hrep := (subrelFold_complete _ e2 _ [] sub hsub).2 c r hmem T hT
    have hred : isReduced T = true := model_traceWord_isReduced _ e2 r c FW.empty T (by rfl) hT
    have hone : mkG gens.length srels (FW.relatorRepresentative T) = 1 := by
      rcases hrep with h0 | hm
      · have : FW.relatorRepresentative T = [] := List.length_eq_zero_iff.mp h0
        rw [this, mkG_nil]
      · apply mkG_rel
        rw [hsr]
        exact mem_sortDescending_of_mem hm
    have := mkG_of_relRep gens.length srels hred hone
    rw [hval, empty_eq, mkG_nil, one_mul] at this
    exact this
  -- tree paths have trivial voltage
  have htv := tree_vol hinv hanti (u := u) (base := base) edges [base] R hwalk
    (by intro x hx; simp only [List.mem_singleton] at hx; subst hx; rw [hub]; exact ⟨rfl, rfl⟩) hedges
  -- (N3) the generator words
  apply injective_of_twisted hv rfl hanti hrel hb f
  intro i
  obtain ⟨px, g, d, hent, hget, hgi⟩ := hrec i.val i.isLt
  have hgi' : gens[i] = schreierGen (u px) g (u d) := by
    have := List.getElem?_eq_getElem i.isLt
    rw [this] at hgi
    injection hgi
  refine ⟨gens[i], hf i, stabilizer_gens_fix hcomp hinv h _ (List.getElem_mem i.isLt), ?_⟩
  obtain ⟨hx1, hx2⟩ := htv px (hall px (entry_some hent).2.1)
  obtain ⟨hd1, hd2⟩ := htv d (hall d (entry_some hent).1)
  rw [hgi']
  unfold schreierGen FW.mul FW.mulLetter FW.inverse FW.new FW.rawMul
  have hA : traceWord t n base (u px ++ [g]) = some d := traceWord_snoc_intro hx1 hent
  have hA' := trace_normalized hinv _ _ _ hA
  have hB := trace_inverse hinv _ _ _ hd1
  have hB' := trace_normalized hinv _ _ _ hB
  have hAB : traceWord t n base (FW.normalized (u px ++ [g]) ++
      FW.normalized ((u d).reverse.map (fun x => -x))) = some base := by
    rw [traceWord_append, hA']; exact hB'
  rw [vol_normalized hinv hanti hAB, vol_append _ _ _ _ _ hA', vol_normalized hinv hanti hA,
    vol_normalized hinv hanti hB, vol_invRaw hinv hanti _ _ _ hd1, hd2, vol_append _ _ _ _ _ hx1, hx2,
    vol_single _ hent]
  simp only [one_mul, inv_one, mul_one, lamP, hget]
  exact mkG_new_letter gens.length srels i

end Iso

end DSymVerif.StabP
