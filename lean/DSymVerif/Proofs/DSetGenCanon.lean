/-
Lemmas about the model of the D-set generator, part 7: `compare_renumbered_from` and
`check_canonicity` cannot panic on a well-formed, linked partial D-set of size ≤ max_size
— in particular `new2old[d]` is never 0 when `op_unchecked(i, new2old[d])` is evaluated.
Core Lean only.
-/
import DSymVerif.Proofs.DSetGenSound

namespace DSymVerif.DSG
open DSymVerif.DS

/-! ### the double loop visits all in-range positions in row-major order -/

/-- row-major order on (chamber, index) pairs -/
def LexLt (p q : Nat × Nat) : Prop := p.1 < q.1 ∨ (p.1 = q.1 ∧ p.2 < q.2)

theorem mem_loopPairs (size dim : Nat) (p : Nat × Nat) :
    p ∈ loopPairs size dim ↔ 1 ≤ p.1 ∧ p.1 ≤ size ∧ p.2 ≤ dim := by
  obtain ⟨d, i⟩ := p
  unfold loopPairs
  simp only [List.mem_flatMap, List.mem_map, List.mem_range, Prod.mk.injEq]
  constructor
  · rintro ⟨a, ha, b, hb, rfl, rfl⟩; omega
  · rintro ⟨h1, h2, h3⟩; exact ⟨d - 1, by omega, i, by omega, by omega, rfl⟩

theorem pairwise_loopPairs (size dim : Nat) : (loopPairs size dim).Pairwise LexLt := by
  unfold loopPairs
  rw [List.pairwise_flatMap]
  refine ⟨?_, ?_⟩
  · intro d _
    rw [List.pairwise_map]
    exact (List.pairwise_lt_range (n := dim + 1)).imp (fun {a b} h => Or.inr ⟨rfl, h⟩)
  · refine (List.pairwise_lt_range (n := size)).imp ?_
    intro a b hab x hx y hy
    simp only [List.mem_map] at hx hy
    obtain ⟨_, _, rfl⟩ := hx
    obtain ⟨_, _, rfl⟩ := hy
    exact Or.inl (by simp only; omega)

/-! ### counting free slots -/

theorem two_zeros (a : Array Nat) (k : Nat) (h0 : a.getD 0 0 = 0) (hk : a.getD k 0 = 0)
    (hk0 : k ≠ 0) (hlt : k < a.size) : 2 ≤ zeros a := by
  have h1 := zeros_setIfInBounds_lt a k 1 (by omega) hlt hk
  have hpos : 0 < (a.setIfInBounds k 1).size := by rw [Array.size_setIfInBounds]; omega
  have h2 := Array.boole_getElem_le_count (xs := a.setIfInBounds k 1) (a := 0) hpos
  have ha0 : 0 < a.size := by omega
  have h00 : a[0] = 0 := by simpa [Array.getD, ha0] using h0
  have h3 : (a.setIfInBounds k 1)[0] = 0 := by
    rw [Array.getElem_setIfInBounds_ne ha0 hk0]; exact h00
  rw [h3] at h2
  simp only [beq_self_eq_true, if_true] at h2
  unfold zeros at h1 ⊢
  omega

theorem getC_of_lt {a : Array Nat} {k : Nat} (h : k < a.size) : getC a k = .ok (a.getD k 0) := by
  unfold getC
  rw [Array.getElem?_eq_getElem h]
  simp [Array.getD, h]

theorem getCb_of_lt {a : Array Bool} {k : Nat} (h : k < a.size) : ∃ b, getC a k = .ok b := by
  unfold getC
  rw [Array.getElem?_eq_getElem h]
  exact ⟨_, rfl⟩

theorem putC_of_lt {α : Type} {a : Array α} {k : Nat} {v : α} (h : k < a.size) :
    putC a k v = .ok (a.setIfInBounds k v) := by
  unfold putC; rw [if_pos h]

/-! ### the renumbering state -/

structure RInv (ds : DSetData) (maxSize : Nat) (r : Renum) : Prop where
  n2o_size : r.n2o.size = maxSize + 1
  o2n_size : r.o2n.size = maxSize + 1
  next_ge : 2 ≤ r.next
  n2o_range : ∀ k, 1 ≤ k → k < r.next → 1 ≤ r.n2o.getD k 0 ∧ r.n2o.getD k 0 ≤ ds.size
  o2n_lt : ∀ x, r.o2n.getD x 0 ≠ 0 → r.o2n.getD x 0 < r.next
  count : zeros r.o2n + r.next ≤ maxSize + 2
  slot0 : r.o2n.getD 0 0 = 0

/-- position (d, i) has been compared successfully: its entry is a number already given -/
def Processed (ds : DSetData) (r : Renum) (p : Nat × Nat) : Prop :=
  1 ≤ ds.opU p.2 p.1 ∧ ds.opU p.2 p.1 < r.next

theorem cmpLoop_total {ds : DSetData} {maxSize : Nat} (hv : ValidPartialSet ds)
    (hl : Linked ds) (hsz : ds.size ≤ maxSize) :
    ∀ (l pre : List (Nat × Nat)) (r : Renum), loopPairs ds.size ds.dim = pre ++ l →
    RInv ds maxSize r → (∀ q, q ∈ pre → Processed ds r q) →
    ∃ v, cmpLoop ds l r = .ok v := by
  intro l
  induction l with
  | nil => intro pre r _ _ _; exact ⟨0, rfl⟩
  | cons p rest ih =>
    intro pre r hsplit hr hpre
    obtain ⟨d, i⟩ := p
    have hmem : (d, i) ∈ loopPairs ds.size ds.dim := by rw [hsplit]; simp
    obtain ⟨hd1, hd2, hi⟩ := (mem_loopPairs _ _ _).1 hmem
    simp only at hd1 hd2 hi
    -- d has been numbered
    have hdn : d < r.next := by
      by_cases hd : d = 1
      · have := hr.next_ge; omega
      · obtain ⟨i', hi', l1, l2⟩ := hl d (by omega) hd2
        have hinv := hv.invol i' d hi' hd1 hd2 (by omega)
        have hq : (ds.opU i' d, i') ∈ loopPairs ds.size ds.dim :=
          (mem_loopPairs _ _ _).2 ⟨l1, by simp only; omega, hi'⟩
        rw [hsplit] at hq
        rcases List.mem_append.1 hq with hq | hq
        · have := hpre _ hq
          unfold Processed at this
          simp only at this
          rw [hinv] at this
          exact this.2
        · exfalso
          have hpw := pairwise_loopPairs ds.size ds.dim
          rw [hsplit, List.pairwise_append] at hpw
          obtain ⟨_, hpw2, _⟩ := hpw
          rcases List.mem_cons.1 hq with hq | hq
          · injection hq with hq1 hq2
            omega
          · have := (List.pairwise_cons.1 hpw2).1 _ hq
            unfold LexLt at this
            simp only at this
            omega
    obtain ⟨o1, o2⟩ := hr.n2o_range d hd1 hdn
    simp only [cmpLoop]
    rw [getC_of_lt (by rw [hr.n2o_size]; omega)]
    simp only
    rw [opC_valid hv hi o1 o2]
    simp only
    by_cases hz : ds.opU i (r.n2o.getD d 0) = 0
    · rw [if_pos hz]; exact ⟨0, rfl⟩
    · rw [if_neg hz]
      have e1 : 1 ≤ ds.opU i (r.n2o.getD d 0) := Nat.pos_of_ne_zero hz
      have e2 := hv.range i _ hi o1 o2
      generalize hei : ds.opU i (r.n2o.getD d 0) = ei at *
      have heilt : ei < r.o2n.size := by rw [hr.o2n_size]; omega
      rw [getC_of_lt heilt]
      simp only
      -- the renumbering state after the (possible) new assignment
      have hnew : r.o2n.getD ei 0 = 0 → r.next < r.n2o.size ∧
          RInv ds maxSize (Renum.mk (r.n2o.setIfInBounds r.next ei)
            (r.o2n.setIfInBounds ei r.next) (r.next + 1)) := by
        intro hx
        have h2z := two_zeros r.o2n ei hr.slot0 hx (by omega) heilt
        have hcount := hr.count
        have hnlt : r.next < r.n2o.size := by rw [hr.n2o_size]; omega
        refine ⟨hnlt, ⟨?_, ?_, ?_, ?_, ?_, ?_, ?_⟩⟩
        · simp [hr.n2o_size]
        · simp [hr.o2n_size]
        · have := hr.next_ge; simp only; omega
        · intro k hk1 hk2
          simp only at hk2 ⊢
          rw [getD_setIfInBounds]
          split
          · exact ⟨e1, e2⟩
          · rename_i hne
            exact hr.n2o_range k hk1 (by
              have : r.next ≠ k := fun h => hne ⟨h, hnlt⟩
              omega)
        · intro x hxne
          simp only at hxne ⊢
          rw [getD_setIfInBounds] at hxne ⊢
          split
          · omega
          · rename_i hne
            rw [if_neg hne] at hxne
            have := hr.o2n_lt x hxne
            omega
        · simp only
          have := zeros_setIfInBounds_lt r.o2n ei r.next (by have := hr.next_ge; omega) heilt hx
          omega
        · simp only
          rw [getD_setIfInBounds, if_neg (by intro h; omega)]
          exact hr.slot0
      split
      · rename_i r' heq
        have hfacts : RInv ds maxSize r' ∧ r.next ≤ r'.next ∧ r'.o2n.getD ei 0 ≠ 0 := by
          by_cases hx : r.o2n.getD ei 0 = 0
          · obtain ⟨hnlt, hinv⟩ := hnew hx
            rw [if_pos hx, putC_of_lt heilt] at heq
            simp only at heq
            rw [putC_of_lt hnlt] at heq
            simp only at heq
            injection heq with heq
            subst heq
            refine ⟨hinv, by simp only; omega, ?_⟩
            simp only
            rw [getD_setIfInBounds, if_pos ⟨rfl, heilt⟩]
            have := hr.next_ge; omega
          · rw [if_neg hx] at heq
            injection heq with heq
            subst heq
            exact ⟨hr, Nat.le_refl _, hx⟩
        obtain ⟨hr', hnext', hne'⟩ := hfacts
        rw [opC_valid hv hi hd1 hd2]
        simp only
        by_cases hz2 : ds.opU i d = 0
        · rw [if_pos hz2]; exact ⟨0, rfl⟩
        · rw [if_neg hz2]
          rw [getC_of_lt (by rw [hr'.o2n_size]; omega)]
          simp only
          by_cases hy : r'.o2n.getD ei 0 ≠ ds.opU i d
          · rw [if_pos hy]; exact ⟨_, rfl⟩
          · rw [if_neg hy]
            have hy' : r'.o2n.getD ei 0 = ds.opU i d := Classical.not_not.1 hy
            apply ih (pre ++ [(d, i)]) r' (by rw [hsplit]; simp) hr'
            intro q hq
            rcases List.mem_append.1 hq with hq | hq
            · have := hpre q hq
              unfold Processed at this ⊢
              omega
            · simp only [List.mem_singleton] at hq
              subst hq
              unfold Processed
              simp only
              refine ⟨Nat.pos_of_ne_zero hz2, ?_⟩
              rw [← hy']
              exact hr'.o2n_lt ei hne'
      · rename_i hno
        exfalso
        by_cases hx : r.o2n.getD ei 0 = 0
        · obtain ⟨hnlt, _⟩ := hnew hx
          apply hno _
          rw [if_pos hx, putC_of_lt heilt]
          simp only
          rw [putC_of_lt hnlt]
        · exact hno r (by rw [if_neg hx])

theorem compareRenumberedFrom_total {ds : DSetData} {maxSize : Nat} (hv : ValidPartialSet ds)
    (hl : Linked ds) (hsz : ds.size ≤ maxSize) {d0 : Nat} (h1 : 1 ≤ d0) (h2 : d0 ≤ ds.size) :
    ∃ v, compareRenumberedFrom ds d0 maxSize = .ok v := by
  unfold compareRenumberedFrom
  simp only
  have hz : (Array.replicate (maxSize + 1) 0).size = maxSize + 1 := by simp
  rw [putC_of_lt (by rw [hz]; omega), putC_of_lt (by rw [hz]; omega)]
  simp only
  apply cmpLoop_total hv hl hsz _ [] _ (by simp)
  · refine ⟨by simp, by simp, Nat.le_refl _, ?_, ?_, ?_, ?_⟩
    · intro k hk1 hk2
      have : k = 1 := by simp only at hk2; omega
      subst this
      rw [getD_setIfInBounds, if_pos ⟨rfl, by rw [hz]; omega⟩]
      exact ⟨h1, h2⟩
    · intro x hx
      simp only at hx ⊢
      rw [getD_setIfInBounds] at hx ⊢
      split
      · omega
      · rename_i hne
        rw [if_neg hne, getD_replicate_zero] at hx
        exact absurd rfl hx
    · simp only
      have := zeros_setIfInBounds_lt (Array.replicate (maxSize + 1) 0) d0 1 (by omega)
        (by rw [hz]; omega) (getD_replicate_zero _ _)
      have hz0 : zeros (Array.replicate (maxSize + 1) 0) = maxSize + 1 := by simp [zeros]
      omega
    · simp only
      rw [getD_setIfInBounds, if_neg (by intro h; omega)]
      exact getD_replicate_zero _ _
  · intro q hq; cases hq

theorem canonLoop_total {ds : DSetData} {maxSize : Nat} (hv : ValidPartialSet ds)
    (hl : Linked ds) (hsz : ds.size ≤ maxSize) :
    ∀ (l : List Nat) (irs : Array Bool), (∀ d, d ∈ l → 1 ≤ d ∧ d ≤ ds.size) →
    irs.size = maxSize + 1 → ∃ r, canonLoop ds maxSize l irs = .ok r := by
  intro l
  induction l with
  | nil => intro irs _ _; exact ⟨_, rfl⟩
  | cons d l ih =>
    intro irs hl' hirs
    obtain ⟨hd1, hd2⟩ := hl' d (by simp)
    have hl'' : ∀ d, d ∈ l → 1 ≤ d ∧ d ≤ ds.size := fun x hx => hl' x (by simp [hx])
    have hlt : d < irs.size := by rw [hirs]; omega
    obtain ⟨b, hb⟩ := getCb_of_lt hlt
    simp only [canonLoop, hb]
    cases b with
    | false => exact ih irs hl'' hirs
    | true =>
      obtain ⟨v, hv'⟩ := compareRenumberedFrom_total hv hl hsz hd1 hd2
      simp only [hv']
      split
      · exact ⟨_, rfl⟩
      · split
        · rw [putC_of_lt hlt]
          exact ih _ hl'' (by rw [Array.size_setIfInBounds]; exact hirs)
        · exact ih irs hl'' hirs

/-- `check_canonicity` on a well-formed linked partial D-set of size ≤ max_size: no index
    out of range, no chamber 0 passed to `op_unchecked` -/
theorem checkCanonicity_total {ds : DSetData} {maxSize : Nat} (hv : ValidPartialSet ds)
    (hl : Linked ds) (hsz : ds.size ≤ maxSize) {irs : Array Bool} (hirs : irs.size = maxSize + 1) :
    ∃ r, checkCanonicity ds maxSize irs = .ok r :=
  canonLoop_total hv hl hsz _ irs (by
    intro d hd
    simp only [List.mem_map, List.mem_range] at hd
    obtain ⟨a, ha, rfl⟩ := hd
    omega) hirs

end DSymVerif.DSG
