/-
C13, model level: `intersection_table` / `induced_table` build the orbit table.

* `Plain`, `cell`, `get_plain`, `set_plain`, `join_plain`: a `CosetTable` without pending
  coincidences behaves like a two-dimensional array of cells.
* `LInv`, `LInv_step`: the invariant of both constructions — the rows are numbered by a
  duplicate-free list of labels reachable from the start label, and every defined cell is the
  number of the image label — is preserved by one `join(i, number(act(label i, g)), g)`.
* `interGens_spec`, `interLoop_spec`: the loops of `intersection_table` refine that step
  (`o2n`, `n2o` are caches of the label list).
* `compact_plain`: `compact()` copies a plain, completely defined table.
-/
import DSymVerif.Model.Stabilizer
import DSymVerif.Proofs.CosetReps
import DSymVerif.Proofs.StabilizerGens
import DSymVerif.Spec.C13

set_option linter.unusedSectionVars false

namespace DSymVerif.StabP
open DSymVerif DSymVerif.Cosets DSymVerif.SpecC11 DSymVerif.CosetP DSymVerif.SpecC13

/-- a table without pending coincidences whose rows all have the full width -/
structure Plain (t : Table) : Prop where
  part : t.part = Part.new
  wf : ∀ (c : Nat) (row : Array Int), t.rows[c]? = some row → row.size = 2 * t.nrGens + 1

/-- raw cell, `-1` outside the stored area -/
def cell (t : Table) (c j : Nat) : Int := (((t.rows[c]?).getD #[])[j]?).getD (-1)

def decode (r : Int) : Outcome (Option Nat) := if r ≥ 0 then .ok (some r.toNat) else .ok none

def InRange (n : Nat) (g : Int) : Prop := -(n : Int) ≤ g ∧ g ≤ n

theorem canon_plain {t : Table} (hp : Plain t) (c : Nat) : t.canon c = c := by
  simp [Table.canon, hp.part, Part.new, Part.find, rootFuel]

theorem get_plain {t : Table} (hp : Plain t) {g : Int} (hg : InRange t.nrGens g) (c : Nat) :
    t.get c g = decode (cell t c (g + t.nrGens).toNat) := by
  unfold Table.get cell
  by_cases hc : c < t.rows.size
  · rw [dif_pos hc]
    have hneg : ¬ (g + (t.nrGens : Int) < 0) := by unfold InRange at hg; omega
    rw [if_neg hneg]
    have hrow : t.rows[c]? = some t.rows[c] := by simp [hc]
    have hidx : (g + (t.nrGens : Int)).toNat < t.rows[c].size := by
      rw [hp.wf c _ hrow]; unfold InRange at hg; omega
    have h1 : t.rows[c][(g + (t.nrGens : Int)).toNat]? = some (t.rows[c][(g + (t.nrGens : Int)).toNat]) := by
      simp [hidx]
    rw [hrow]
    simp only [Option.getD_some, h1]
    simp only [decode, canon_plain hp]
  · rw [dif_neg hc]
    have h2 : t.rows[c]? = none := by simp; omega
    rw [h2]
    simp [decode]

theorem padRows_getElem? (n : Nat) (rows : Array (Array Int)) (c c' : Nat) :
    (padRows n rows c)[c']? =
      if c' < rows.size then rows[c']? else if c' < c + 1 then some (blankRow n) else none := by
  unfold padRows
  rw [Array.getElem?_append]
  by_cases h1 : c' < rows.size
  · simp [h1]
  · simp only [h1, if_false, Array.getElem?_replicate]
    by_cases h2 : c' < c + 1
    · have : c' - rows.size < c + 1 - rows.size := by omega
      simp [h2, this]
    · have : ¬ c' - rows.size < c + 1 - rows.size := by omega
      simp [h2, this]

theorem blankRow_size (n : Nat) : (blankRow n).size = 2 * n + 1 := by
  simp [blankRow, Nat.mul_comm]

theorem blankRow_getElem? (n j : Nat) : ((blankRow n)[j]?).getD (-1) = -1 := by
  unfold blankRow
  rw [Array.getElem?_replicate]
  split <;> rfl

theorem set_plain {t : Table} (hp : Plain t) {g : Int} (hg : InRange t.nrGens g) (c d : Nat) :
    ∃ t', t.set c g d = .ok t' ∧ Plain t' ∧ t'.nrGens = t.nrGens ∧
      t'.rows.size = max t.rows.size (c + 1) ∧
      ∀ c' j', cell t' c' j' =
        if c' = c ∧ j' = (g + t.nrGens).toNat then (d : Int) else cell t c' j' := by
  unfold Table.set
  have hneg : ¬ (g + (t.nrGens : Int) < 0) := by unfold InRange at hg; omega
  rw [if_neg hneg]
  have hsz : (padRows t.nrGens t.rows c).size = max t.rows.size (c + 1) := by
    simp [padRows]; omega
  have hwf : ∀ (c' : Nat) (row : Array Int), (padRows t.nrGens t.rows c)[c']? = some row →
      row.size = 2 * t.nrGens + 1 := by
    intro c' row h
    rw [padRows_getElem?] at h
    by_cases h1 : c' < t.rows.size
    · simp only [h1, if_true] at h; exact hp.wf c' row h
    · simp only [h1, if_false] at h
      by_cases h2 : c' < c + 1
      · simp only [h2, if_true, Option.some.injEq] at h
        rw [← h]; exact blankRow_size _
      · simp [h2] at h
  cases hrow : (padRows t.nrGens t.rows c)[c]? with
  | none =>
    have : c < (padRows t.nrGens t.rows c).size := by rw [hsz]; omega
    simp at hrow
    omega
  | some row =>
    simp only
    have hj : (g + (t.nrGens : Int)).toNat < row.size := by
      rw [hwf c row hrow]; unfold InRange at hg; omega
    rw [if_pos hj]
    have hcs : c < (padRows t.nrGens t.rows c).size := by rw [hsz]; omega
    refine ⟨_, rfl, ⟨hp.part, ?_⟩, rfl, by simp [hsz], ?_⟩
    · intro c' row' h
      simp only [Array.getElem?_setIfInBounds] at h
      by_cases h1 : c = c'
      · simp only [h1, if_true] at h
        split at h
        · injection h with h
          rw [← h, Array.size_setIfInBounds]; exact hwf c row hrow
        · cases h
      · simp only [h1, if_false] at h
        exact hwf c' row' h
    · intro c' j'
      unfold cell
      simp only [Array.getElem?_setIfInBounds]
      by_cases h1 : c = c'
      · subst h1
        simp only [if_true, hcs, Option.getD_some, true_and]
        by_cases h2 : (g + (t.nrGens : Int)).toNat = j'
        · subst h2
          simp [hj]
        · have h2' : ¬ j' = (g + (t.nrGens : Int)).toNat := fun e => h2 e.symm
          simp only [h2', if_false]
          rw [padRows_getElem?] at hrow
          by_cases h3 : c < t.rows.size
          · simp only [h3, if_true] at hrow
            rw [hrow, Array.getElem?_setIfInBounds]
            simp [h2]
          · simp only [h3, if_false, Nat.lt_succ_self, if_true, Option.some.injEq] at hrow
            have : t.rows[c]? = none := by simp; omega
            rw [this, ← hrow, Array.getElem?_setIfInBounds]
            simp only [h2, if_false, blankRow_getElem?]
            simp
      · have h1' : ¬ c' = c := fun e => h1 e.symm
        simp only [h1, h1', if_false, false_and]
        rw [padRows_getElem?]
        by_cases h3 : c' < t.rows.size
        · simp [h3]
        · have : t.rows[c']? = none := by simp; omega
          simp only [h3, if_false, this]
          by_cases h4 : c' < c + 1
          · simp [h4, blankRow_getElem?]
          · simp [h4]

theorem inRange_of_mem {n : Nat} {g : Int} (h : g ∈ letters n) : InRange n g ∧ InRange n (-g) ∧ g ≠ 0 := by
  rw [mem_letters] at h
  unfold InRange
  omega

/-- column of a letter -/
def colOf (n : Nat) (g : Int) : Nat := (g + (n : Int)).toNat

theorem colOf_inj {n : Nat} {g h : Int} (hg : InRange n g) (hh : InRange n h) (e : colOf n g = colOf n h) :
    g = h := by
  unfold colOf InRange at *; omega

theorem join_plain {t : Table} (hp : Plain t) {g : Int} (hg : InRange t.nrGens g) (hg' : InRange t.nrGens (-g))
    (c d : Nat) :
    ∃ t', t.join c d g = .ok t' ∧ Plain t' ∧ t'.nrGens = t.nrGens ∧
      t'.rows.size = max (max t.rows.size (c + 1)) (d + 1) ∧
      ∀ c' j', cell t' c' j' =
        if c' = d ∧ j' = colOf t.nrGens (-g) then (c : Int)
        else if c' = c ∧ j' = colOf t.nrGens g then (d : Int) else cell t c' j' := by
  obtain ⟨t1, h1, hp1, hn1, hs1, hc1⟩ := set_plain hp hg c d
  have hg1 : InRange t1.nrGens (-g) := by rw [hn1]; exact hg'
  obtain ⟨t2, h2, hp2, hn2, hs2, hc2⟩ := set_plain hp1 hg1 d c
  refine ⟨t2, ?_, hp2, by rw [hn2, hn1], by rw [hs2, hs1], ?_⟩
  · unfold Table.join
    rw [h1]
    exact h2
  · intro c' j'
    rw [hc2, hc1, hn1]
    rfl


theorem iterAct_snoc {α : Type} (act : α → Int → Option α) : ∀ (w : List Int) (x y z : α) (g : Int),
    iterAct act x w = some y → act y g = some z → iterAct act x (w ++ [g]) = some z
  | [], x, y, z, g, h1, h2 => by
    simp only [iterAct, Option.some.injEq] at h1
    subst h1
    simp [iterAct, h2]
  | a :: w, x, y, z, g, h1, h2 => by
    simp only [iterAct, List.cons_append] at h1 ⊢
    cases ha : act x a with
    | none => simp [ha] at h1
    | some x' =>
      simp only [ha] at h1 ⊢
      exact iterAct_snoc act w x' y z g h1 h2

section Generic
variable {α : Type} [BEq α] [LawfulBEq α] (act : α → Int → Option α) (n : Nat) (Good : α → Prop)

/-- the action is inverse-consistent on letters and preserves `Good` -/
structure ActOk : Prop where
  inv : ∀ x y g, g ∈ letters n → act x g = some y → act y (-g) = some x
  good : ∀ x y g, Good x → act x g = some y → Good y

/-- invariant of the table constructions: `lab` lists the labels of the rows in the order of
    their numbers; every defined cell is the number of the image label -/
structure LInv (start : α) (t : Table) (lab : List α) : Prop where
  plain : Plain t
  ngens : t.nrGens = n
  size : t.rows.size = lab.length
  pos : lab[0]? = some start
  nodup : lab.Nodup
  good : ∀ y ∈ lab, Good y
  reach : ∀ y ∈ lab, ∃ w, (∀ g ∈ w, g ∈ letters n) ∧ iterAct act start w = some y
  lower : ∀ c j, -1 ≤ cell t c j
  blank : ∀ c j, (∀ g ∈ letters n, j ≠ colOf n g) → cell t c j = -1
  sound : ∀ c g, g ∈ letters n → 0 ≤ cell t c (colOf n g) →
      ∃ x y, lab[c]? = some x ∧ act x g = some y ∧ lab[(cell t c (colOf n g)).toNat]? = some y

variable {act n Good}

theorem LInv_step {start : α} {t : Table} {lab : List α} (hact : ActOk act n Good)
    (h : LInv act n Good start t lab) {i : Nat} {x k : α} {g : Int} (hg : g ∈ letters n)
    (hi : lab[i]? = some x) (hk : act x g = some k) :
    ∃ t', t.join i (lab.idxOf k) g = .ok t' ∧
      LInv act n Good start t' (if k ∈ lab then lab else lab ++ [k]) ∧
      0 ≤ cell t' i (colOf n g) ∧ (∀ c j, 0 ≤ cell t c j → 0 ≤ cell t' c j) := by
  obtain ⟨hr, hr', hg0⟩ := inRange_of_mem hg
  have hil : i < lab.length := (List.getElem?_eq_some_iff.mp hi).1
  obtain ⟨t', hj, hp', hn', hs', hc'⟩ := join_plain h.plain (by rw [h.ngens]; exact hr)
    (by rw [h.ngens]; exact hr') i (lab.idxOf k)
  rw [h.ngens] at hc'
  have hneg : -g ∈ letters n := neg_mem_letters hg
  have hcol : colOf n (-g) ≠ colOf n g := by
    intro e
    have := colOf_inj hr' hr e
    omega
  -- the extended label list
  have hext : ∀ (c : Nat) (y : α), lab[c]? = some y → (if k ∈ lab then lab else lab ++ [k])[c]? = some y := by
    intro c y hc
    split
    · exact hc
    · rw [List.getElem?_append_left (List.getElem?_eq_some_iff.mp hc).1]; exact hc
  have hkidx : (if k ∈ lab then lab else lab ++ [k])[lab.idxOf k]? = some k := by
    split
    · next hm => exact List.getElem?_idxOf hm
    · next hm =>
      rw [List.idxOf_of_notMem hm, List.getElem?_append_right (Nat.le_refl _)]
      simp
  have hgk : Good k := hact.good x k g (h.good x (List.mem_of_getElem? hi)) hk
  refine ⟨t', hj, ⟨hp', by rw [hn', h.ngens], ?_, ?_, ?_, ?_, ?_, ?_, ?_, ?_⟩, ?_, ?_⟩
  · -- size
    rw [hs', h.size]
    split
    · next hm =>
      have := List.idxOf_lt_length_iff.mpr hm
      omega
    · next hm =>
      rw [List.idxOf_of_notMem hm]
      simp
      omega
  · exact hext 0 start h.pos
  · split
    · exact h.nodup
    · next hm =>
      rw [List.nodup_append]
      refine ⟨h.nodup, List.nodup_singleton k, ?_⟩
      intro a ha b hb
      simp only [List.mem_singleton] at hb
      subst hb
      intro e; subst e; exact hm ha
  · intro y hy
    split at hy
    · exact h.good y hy
    · rcases List.mem_append.mp hy with hy | hy
      · exact h.good y hy
      · simp only [List.mem_singleton] at hy; subst hy; exact hgk
  · intro y hy
    have hold : ∀ y ∈ lab, ∃ w, (∀ g ∈ w, g ∈ letters n) ∧ iterAct act start w = some y := h.reach
    split at hy
    · exact hold y hy
    · rcases List.mem_append.mp hy with hy | hy
      · exact hold y hy
      · simp only [List.mem_singleton] at hy
        subst hy
        obtain ⟨w, hw, hit⟩ := hold x (List.mem_of_getElem? hi)
        refine ⟨w ++ [g], ?_, iterAct_snoc act w start x y g hit hk⟩
        intro g' hg'
        rcases List.mem_append.mp hg' with hg' | hg'
        · exact hw g' hg'
        · simp only [List.mem_singleton] at hg'; subst hg'; exact hg
  · intro c j
    rw [hc']
    split
    · omega
    · split
      · omega
      · exact h.lower c j
  · intro c j hj'
    rw [hc']
    have h1 : ¬ (c = lab.idxOf k ∧ j = colOf n (-g)) := fun e => hj' (-g) hneg e.2
    have h2 : ¬ (c = i ∧ j = colOf n g) := fun e => hj' g hg e.2
    simp only [h1, h2, if_false]
    exact h.blank c j hj'
  · intro c g' hg' hnn
    obtain ⟨hr1, hr1', _⟩ := inRange_of_mem hg'
    rw [hc'] at hnn ⊢
    by_cases h1 : c = lab.idxOf k ∧ colOf n g' = colOf n (-g)
    · simp only [h1, and_self, if_true] at hnn ⊢
      have hgg : g' = -g := colOf_inj hr1 hr' h1.2
      subst hgg
      refine ⟨k, x, ?_, hact.inv x k g hg hk, ?_⟩
      · exact hkidx
      · simpa using hext i x hi
    · simp only [h1, if_false] at hnn ⊢
      by_cases h2 : c = i ∧ colOf n g' = colOf n g
      · simp only [h2, and_self, if_true] at hnn ⊢
        have hgg : g' = g := colOf_inj hr1 hr h2.2
        subst hgg
        refine ⟨x, k, ?_, hk, ?_⟩
        · exact hext i x hi
        · simpa using hkidx
      · simp only [h2, if_false] at hnn ⊢
        obtain ⟨x', y', hx', ha', hy'⟩ := h.sound c g' hg' hnn
        exact ⟨x', y', hext c x' hx', ha', hext _ y' hy'⟩
  · rw [hc']
    split
    · omega
    · simp
  · intro c j hnn
    rw [hc']
    split
    · omega
    · split
      · omega
      · exact hnn

end Generic

/-! ### `intersection_table` -/

section Inter
open DSymVerif.Stab
variable {ta tb : Tab} {n : Nat}

def PGood (ta tb : Tab) (p : Nat × Nat) : Prop := p.1 < ta.size ∧ p.2 < tb.size

theorem pairAct_ok (hia : InvConsistent ta n) (hib : InvConsistent tb n) :
    ActOk (pairAct ta tb n) n (PGood ta tb) := by
  constructor
  · rintro ⟨a, b⟩ ⟨a', b'⟩ g _ h
    simp only [pairAct] at h ⊢
    cases h1 : entry ta n a g with
    | none => simp [h1] at h
    | some a1 =>
      cases h2 : entry tb n b g with
      | none => simp [h1, h2] at h
      | some b1 =>
        simp only [h1, h2, Option.some.injEq, Prod.mk.injEq] at h
        rw [← h.1, ← h.2, hia _ _ _ h1, hib _ _ _ h2]
  · rintro ⟨a, b⟩ ⟨a', b'⟩ g _ h
    simp only [pairAct] at h
    cases h1 : entry ta n a g with
    | none => simp [h1] at h
    | some a1 =>
      cases h2 : entry tb n b g with
      | none => simp [h1, h2] at h
      | some b1 =>
        simp only [h1, h2, Option.some.injEq, Prod.mk.injEq] at h
        exact ⟨by rw [← h.1]; exact (entry_some h1).1, by rw [← h.2]; exact (entry_some h2).1⟩

/-- `o2n` and `n2o` of `intersection_table` are caches of the label list -/
structure InterCache (ta tb : Tab) (s : Inter) (lab : List (Nat × Nat)) : Prop where
  n2o : s.n2o.toList = lab
  rows : ∀ (a : Nat) (row : Array Int), s.o2n[a]? = some row → row.size = tb.size
  vals : ∀ (a b : Nat) (row : Array Int) (v : Int), s.o2n[a]? = some row → row[b]? = some v →
    v = if (a, b) ∈ lab then ((lab.idxOf (a, b) : Nat) : Int) else -1


theorem cache_new {s : Inter} {lab : List (Nat × Nat)} (hc : InterCache ta tb s lab) {ag bg : Nat}
    (hk : (ag, bg) ∉ lab) {row : Array Int} (hrow : s.o2n[ag]? = some row) (t' : Table) :
    InterCache ta tb
      { table := t', o2n := s.o2n.setIfInBounds ag (row.setIfInBounds bg ((lab.length : Nat) : Int)),
        n2o := s.n2o.push (ag, bg) } (lab ++ [(ag, bg)]) := by
  constructor
  · simp [hc.n2o]
  · intro a row' h
    simp only [Array.getElem?_setIfInBounds] at h
    by_cases h1 : ag = a
    · simp only [h1, if_true] at h
      split at h
      · injection h with h
        rw [← h, Array.size_setIfInBounds]
        exact hc.rows ag row hrow
      · cases h
    · simp only [h1, if_false] at h
      exact hc.rows a row' h
  · intro a b row' v h hv
    simp only [Array.getElem?_setIfInBounds] at h
    by_cases h1 : ag = a
    · subst h1
      simp only [if_true] at h
      split at h
      · injection h with h
        subst h
        rw [Array.getElem?_setIfInBounds] at hv
        by_cases h2 : bg = b
        · subst h2
          simp only [if_true] at hv
          split at hv
          · injection hv with hv
            rw [← hv]
            have hm : (ag, bg) ∈ lab ++ [(ag, bg)] := by simp
            rw [if_pos hm, List.idxOf_append_of_notMem hk]
            simp
          · cases hv
        · simp only [h2, if_false] at hv
          have hold := hc.vals ag b row v hrow hv
          have hne : (ag, b) ≠ (ag, bg) := by
            intro e; injection e with _ e; exact h2 e.symm
          by_cases hm : (ag, b) ∈ lab
          · rw [if_pos hm] at hold
            rw [if_pos (List.mem_append_left _ hm), List.idxOf_append_of_mem hm]
            exact hold
          · rw [if_neg hm] at hold
            have : (ag, b) ∉ lab ++ [(ag, bg)] := by
              simp only [List.mem_append, List.mem_singleton, not_or]
              exact ⟨hm, hne⟩
            rw [if_neg this]
            exact hold
      · cases h
    · simp only [h1, if_false] at h
      have hold := hc.vals a b row' v h hv
      have hne : (a, b) ≠ (ag, bg) := by
        intro e; injection e with e _; exact h1 e.symm
      by_cases hm : (a, b) ∈ lab
      · rw [if_pos hm] at hold
        rw [if_pos (List.mem_append_left _ hm), List.idxOf_append_of_mem hm]
        exact hold
      · rw [if_neg hm] at hold
        have : (a, b) ∉ lab ++ [(ag, bg)] := by
          simp only [List.mem_append, List.mem_singleton, not_or]
          exact ⟨hm, hne⟩
        rw [if_neg this]
        exact hold

theorem interGens_spec (hca : complete ta n = true) (hcb : complete tb n = true)
    (hia : InvConsistent ta n) (hib : InvConsistent tb n) {a b i : Nat} :
    ∀ (gs : List Int) (s s' : Inter) (lab : List (Nat × Nat)),
      (∀ g ∈ gs, g ∈ letters n) →
      LInv (pairAct ta tb n) n (PGood ta tb) (0, 0) s.table lab → InterCache ta tb s lab →
      lab[i]? = some (a, b) →
      interGens (Table.ofView n ta) (Table.ofView n tb) a b i gs s = .ok s' →
      ∃ lab', LInv (pairAct ta tb n) n (PGood ta tb) (0, 0) s'.table lab' ∧ InterCache ta tb s' lab' ∧
        (∀ (c : Nat) (y : Nat × Nat), lab[c]? = some y → lab'[c]? = some y) ∧
        (∀ c j, 0 ≤ cell s.table c j → 0 ≤ cell s'.table c j) ∧
        (∀ g ∈ gs, 0 ≤ cell s'.table i (colOf n g))
  | [], s, s', lab, _, hl, hc, _, h => by
    simp only [interGens, Outcome.ok.injEq] at h
    subst h
    exact ⟨lab, hl, hc, fun _ _ h => h, fun _ _ h => h, by simp⟩
  | g :: gs, s, s', lab, hgs, hl, hc, hi, h => by
    have hg : g ∈ letters n := hgs g (by simp)
    simp only [interGens] at h
    cases hga : (Table.ofView n ta).get a g with
    | err => simp [hga] at h
    | panic => simp [hga] at h
    | ok oa =>
      cases oa with
      | none => simp [hga] at h
      | some ag =>
        simp only [hga] at h
        cases hgb : (Table.ofView n tb).get b g with
        | err => simp [hgb] at h
        | panic => simp [hgb] at h
        | ok ob =>
          cases ob with
          | none => simp [hgb] at h
          | some bg =>
            simp only [hgb] at h
            have hea := entry_of_get hca hga
            have heb := entry_of_get hcb hgb
            have hk : pairAct ta tb n (a, b) g = some (ag, bg) := by simp [pairAct, hea, heb]
            cases hrow : s.o2n[ag]? with
            | none => simp [hrow] at h
            | some row =>
              simp only [hrow] at h
              cases hv : row[bg]? with
              | none => simp [hv] at h
              | some v =>
                simp only [hv] at h
                have hval := hc.vals ag bg row v hrow hv
                obtain ⟨t', hj, hl', hdef, hmono⟩ := LInv_step (pairAct_ok hia hib) hl hg hi hk
                by_cases hneg : v < 0
                · have hnm : (ag, bg) ∉ lab := by
                    intro hm
                    rw [if_pos hm] at hval
                    omega
                  have hlen : s.table.len = lab.length := hl.size
                  have hidx : lab.idxOf (ag, bg) = lab.length := List.idxOf_of_notMem hnm
                  simp only [hneg, if_true, hlen, Int.toNat_natCast] at h
                  rw [hidx] at hj
                  rw [hj] at h
                  simp only at h
                  rw [if_neg hnm] at hl'
                  have hi' : (lab ++ [(ag, bg)])[i]? = some (a, b) := by
                    rw [List.getElem?_append_left (List.getElem?_eq_some_iff.mp hi).1]; exact hi
                  obtain ⟨lab2, h1, h2, h3, h4, h5⟩ := interGens_spec hca hcb hia hib gs _ s' _
                    (fun g' hg' => hgs g' (by simp [hg'])) hl' (cache_new hc hnm hrow t') hi' h
                  refine ⟨lab2, h1, h2, ?_, fun c j hc' => h4 c j (hmono c j hc'), ?_⟩
                  · intro c y hcy
                    apply h3
                    rw [List.getElem?_append_left (List.getElem?_eq_some_iff.mp hcy).1]; exact hcy
                  · intro g' hg'
                    rcases List.mem_cons.mp hg' with rfl | hg'
                    · exact h4 _ _ hdef
                    · exact h5 g' hg'
                · have hm : (ag, bg) ∈ lab := by
                    by_contra hnm
                    rw [if_neg hnm] at hval
                    omega
                  rw [if_pos hm] at hval
                  simp only [hneg, if_false] at h
                  simp only [hval, Int.toNat_natCast] at h
                  rw [hj] at h
                  simp only at h
                  rw [if_pos hm] at hl'
                  have hc' : InterCache ta tb { s with table := t' } lab := ⟨hc.n2o, hc.rows, hc.vals⟩
                  obtain ⟨lab2, h1, h2, h3, h4, h5⟩ := interGens_spec hca hcb hia hib gs _ s' _
                    (fun g' hg' => hgs g' (by simp [hg'])) hl' hc' hi h
                  refine ⟨lab2, h1, h2, h3, fun c j hc' => h4 c j (hmono c j hc'), ?_⟩
                  intro g' hg'
                  rcases List.mem_cons.mp hg' with rfl | hg'
                  · exact h4 _ _ hdef
                  · exact h5 g' hg'


/-- rows below `i` are completely defined -/
def Done (n : Nat) (t : Table) (i : Nat) : Prop :=
  ∀ c, c < i → ∀ g ∈ letters n, 0 ≤ cell t c (colOf n g)

theorem allGens_eq {t : Table} {n : Nat} (h : t.nrGens = n) : t.allGens = letters n := by
  unfold Table.allGens
  rw [h, allGensOf_eq_letters]

theorem interLoop_spec (hca : complete ta n = true) (hcb : complete tb n = true)
    (hia : InvConsistent ta n) (hib : InvConsistent tb n) :
    ∀ (fuel i : Nat) (s s' : Inter) (lab : List (Nat × Nat)),
      LInv (pairAct ta tb n) n (PGood ta tb) (0, 0) s.table lab → InterCache ta tb s lab →
      Done n s.table i →
      interLoop (Table.ofView n ta) (Table.ofView n tb) fuel i s = .ok s' →
      ∃ lab', LInv (pairAct ta tb n) n (PGood ta tb) (0, 0) s'.table lab' ∧ InterCache ta tb s' lab' ∧
        Done n s'.table s'.table.len
  | 0, i, s, s', lab, _, _, _, h => by simp [interLoop] at h
  | f + 1, i, s, s', lab, hl, hc, hd, h => by
    simp only [interLoop] at h
    by_cases hi : i ≥ s.table.len
    · rw [if_pos hi] at h
      injection h with h
      subst h
      exact ⟨lab, hl, hc, fun c hc' => hd c (by omega)⟩
    · rw [if_neg hi] at h
      cases hn : s.n2o[i]? with
      | none => simp [hn] at h
      | some p =>
        obtain ⟨a, b⟩ := p
        simp only [hn] at h
        have hlab : lab[i]? = some (a, b) := by
          rw [← hc.n2o, Array.getElem?_toList]; exact hn
        cases hg : interGens (Table.ofView n ta) (Table.ofView n tb) a b i s.table.allGens s with
        | err => simp [hg] at h
        | panic => simp [hg] at h
        | ok s1 =>
          simp only [hg] at h
          rw [allGens_eq hl.ngens] at hg
          obtain ⟨lab1, h1, h2, _, h4, h5⟩ := interGens_spec hca hcb hia hib (letters n) s s1 lab
            (fun _ h => h) hl hc hlab hg
          refine interLoop_spec hca hcb hia hib f (i + 1) s1 s' lab1 h1 h2 ?_ h
          intro c hc' g hg'
          by_cases hci : c = i
          · subst hci; exact h5 g hg'
          · exact h4 _ _ (hd c (by omega) g hg')

end Inter

/-! ### `compact` on a plain complete table -/

section Compact
variable {t : Table} {n : Nat}

def IdArr (o : Array (Option Nat)) (len : Nat) : Prop :=
  o.size = len ∧ ∀ i, i < len → o[i]? = some (some i)

theorem oldToNewGo_id (hp : Plain t) (len : Nat) : ∀ (k m : Nat) (o : Array (Option Nat)),
    m + k = len → o.size = len → (∀ i, i < m → o[i]? = some (some i)) →
    (∀ i, m ≤ i → i < len → o[i]? = some none) →
    ∃ o', t.oldToNewGo (List.range' m k) (o, m) = .ok o' ∧ IdArr o' len
  | 0, m, o, hm, hs, h1, _ => by
    refine ⟨o, rfl, hs, fun i hi => h1 i (by omega)⟩
  | k + 1, m, o, hm, hs, h1, h2 => by
    simp only [List.range'_succ, Table.oldToNewGo, canon_plain hp]
    rw [h2 m (Nat.le_refl _) (by omega)]
    simp only
    apply oldToNewGo_id hp len k (m + 1) _ (by omega) (by simp [hs])
    · intro i hi
      rw [Array.getElem?_setIfInBounds]
      by_cases e : m = i
      · subst e; simp [hs]; omega
      · simp only [e, if_false]; exact h1 i (by omega)
    · intro i hi hl
      rw [Array.getElem?_setIfInBounds]
      have e : ¬ m = i := by omega
      simp only [e, if_false]; exact h2 i (by omega) hl

theorem oldToNew_id (hp : Plain t) : ∃ o, t.oldToNew = .ok o ∧ IdArr o t.rows.size := by
  unfold Table.oldToNew Table.len
  rw [List.range_eq_range']
  apply oldToNewGo_id hp t.rows.size t.rows.size 0 _ (by omega) (by simp)
  · intro i hi; omega
  · intro i _ hl
    simp [hl]

/-- invariant of the table `compact` builds -/
structure RInv (t : Table) (n : Nat) (res : Table) : Prop where
  plain : Plain res
  ngens : res.nrGens = n
  sub : ∀ c j, cell res c j = -1 ∨ cell res c j = cell t c j

/-- all rows are completely defined with entries that are rows -/
def Full (n : Nat) (t : Table) : Prop :=
  ∀ c, c < t.rows.size → ∀ g ∈ letters n,
    0 ≤ cell t c (colOf n g) ∧ (cell t c (colOf n g)).toNat < t.rows.size

theorem compactRow_spec (hp : Plain t) (hn : t.nrGens = n) (hfull : Full n t) {o : Array (Option Nat)}
    (ho : IdArr o t.rows.size) {k : Nat} (hk : k < t.rows.size) :
    ∀ (gs : List Int) (res : Table), (∀ g ∈ gs, g ∈ letters n) → RInv t n res →
      ∃ res', t.compactRow o k gs res = .ok res' ∧ RInv t n res' ∧
        (∀ g ∈ gs, cell res' k (colOf n g) = cell t k (colOf n g)) ∧
        (∀ c j, cell res c j = cell t c j → cell res' c j = cell t c j) ∧
        res.rows.size ≤ res'.rows.size ∧ res'.rows.size ≤ max res.rows.size (k + 1) ∧
        (gs ≠ [] → k + 1 ≤ res'.rows.size)
  | [], res, _, hr => ⟨res, rfl, hr, by simp, fun _ _ h => h, Nat.le_refl _, by omega, by simp⟩
  | g :: gs, res, hgs, hr => by
    have hg : g ∈ letters n := hgs g (by simp)
    obtain ⟨hrg, _, _⟩ := inRange_of_mem hg
    obtain ⟨hnn, hlt⟩ := hfull k hk g hg
    have hget : t.get k g = .ok (some (cell t k (colOf n g)).toNat) := by
      rw [get_plain hp (by rw [hn]; exact hrg), hn]
      unfold decode
      have hnn' : cell t k (g + (n : Int)).toNat ≥ 0 := hnn
      rw [if_pos hnn']
      rfl
    simp only [Table.compactRow, hget, ho.2 k hk, ho.2 _ hlt]
    obtain ⟨res1, hs1, hp1, hn1, hsz1, hc1⟩ := set_plain hr.plain (by rw [hr.ngens]; exact hrg) k
      (cell t k (colOf n g)).toNat
    rw [hs1]
    simp only
    rw [hr.ngens] at hc1
    have hcast : (((cell t k (colOf n g)).toNat : Nat) : Int) = cell t k (colOf n g) := by omega
    have hr1 : RInv t n res1 := by
      refine ⟨hp1, by rw [hn1, hr.ngens], ?_⟩
      intro c j
      rw [hc1]
      split
      · next h => right; rw [hcast, h.1, h.2]; rfl
      · exact hr.sub c j
    obtain ⟨res', h1, h2, h3, h4, h5, h6, _⟩ := compactRow_spec hp hn hfull ho hk gs res1
      (fun g' hg' => hgs g' (by simp [hg'])) hr1
    refine ⟨res', h1, h2, ?_, ?_, by omega, by omega, fun _ => by omega⟩
    · intro g' hg'
      rcases List.mem_cons.mp hg' with rfl | hg'
      · apply h4
        rw [hc1]
        simp only [colOf, and_self, if_true]
        exact hcast
      · exact h3 g' hg'
    · intro c j hcj
      apply h4
      rw [hc1]
      split
      · next h => rw [hcast, h.1, h.2]; rfl
      · exact hcj


theorem compactRows_spec (hp : Plain t) (hn : t.nrGens = n) (hfull : Full n t) {o : Array (Option Nat)}
    (ho : IdArr o t.rows.size) :
    ∀ (ks : List Nat) (res : Table), (∀ k ∈ ks, k < t.rows.size) → RInv t n res →
      ∃ res', t.compactRows o ks res = .ok res' ∧ RInv t n res' ∧
        (∀ k ∈ ks, ∀ g ∈ letters n, cell res' k (colOf n g) = cell t k (colOf n g)) ∧
        (∀ c j, cell res c j = cell t c j → cell res' c j = cell t c j) ∧
        res.rows.size ≤ res'.rows.size ∧
        (∀ m, res.rows.size ≤ m → (∀ k ∈ ks, k + 1 ≤ m) → res'.rows.size ≤ m) ∧
        (letters n ≠ [] → ∀ k ∈ ks, k + 1 ≤ res'.rows.size)
  | [], res, _, hr => ⟨res, rfl, hr, by simp, fun _ _ h => h, Nat.le_refl _, fun m h _ => h, by simp⟩
  | k :: ks, res, hks, hr => by
    have hk : k < t.rows.size := hks k (by simp)
    simp only [Table.compactRows, canon_plain hp, if_true]
    obtain ⟨res1, h1, h2, h3, h4, h5, h6, h7⟩ := compactRow_spec hp hn hfull ho hk t.allGens res
      (by rw [allGens_eq hn]; exact fun _ h => h) hr
    rw [h1]
    simp only
    obtain ⟨res', g1, g2, g3, g4, g5, g6, g7⟩ := compactRows_spec hp hn hfull ho ks res1
      (fun k' hk' => hks k' (by simp [hk'])) h2
    refine ⟨res', g1, g2, ?_, fun c j h => g4 c j (h4 c j h), by omega, ?_, ?_⟩
    · intro k' hk' g hg
      rcases List.mem_cons.mp hk' with rfl | hk'
      · exact g4 _ _ (h3 g (by rw [allGens_eq hn]; exact hg))
      · exact g3 k' hk' g hg
    · intro m hm hall
      apply g6 m
      · have := hall k (by simp)
        omega
      · intro k' hk'; exact hall k' (by simp [hk'])
    · intro hne k' hk'
      rcases List.mem_cons.mp hk' with rfl | hk'
      · have := h7 (by rw [allGens_eq hn]; exact hne)
        omega
      · exact g7 hne k' hk'

theorem cell_new (n c j : Nat) : cell (Table.new n) c j = -1 := by
  unfold cell Table.new
  by_cases hc : c = 0
  · subst hc
    simp only [List.getElem?_toArray, List.getElem?_cons_zero, Option.getD_some]
    exact blankRow_getElem? n j
  · have : (#[blankRow n] : Array (Array Int))[c]? = none := by
      simp; omega
    rw [this]
    simp

theorem plain_new (n : Nat) : Plain (Table.new n) := by
  refine ⟨rfl, ?_⟩
  intro c row h
  unfold Table.new at h
  by_cases hc : c = 0
  · subst hc
    simp only [List.getElem?_toArray, List.getElem?_cons_zero, Option.some.injEq] at h
    rw [← h]; exact blankRow_size n
  · have : (#[blankRow n] : Array (Array Int))[c]? = none := by
      simp; omega
    rw [this] at h
    cases h

/-- `compact()` copies a plain, completely defined table -/
theorem compact_plain (hp : Plain t) (hn : t.nrGens = n) (hfull : Full n t) (hpos : 0 < t.rows.size)
    (hz : letters n = [] → t.rows.size = 1) :
    ∃ t', t.compact = .ok t' ∧ Plain t' ∧ t'.nrGens = n ∧ t'.rows.size = t.rows.size ∧
      ∀ c, c < t.rows.size → ∀ g ∈ letters n, cell t' c (colOf n g) = cell t c (colOf n g) := by
  obtain ⟨o, ho1, ho2⟩ := oldToNew_id hp
  unfold Table.compact
  rw [ho1]
  simp only
  have hr0 : RInv t n (Table.new t.nrGens) :=
    ⟨plain_new _, hn, fun c j => Or.inl (cell_new _ c j)⟩
  obtain ⟨res', h1, h2, h3, _, h5, h6, h7⟩ := compactRows_spec hp hn hfull ho2 (List.range t.len)
    (Table.new t.nrGens) (fun k hk => List.mem_range.mp hk) hr0
  refine ⟨res', h1, h2.plain, h2.ngens, ?_, ?_⟩
  · have hs0 : (Table.new t.nrGens).rows.size = 1 := rfl
    have hle : res'.rows.size ≤ t.rows.size := by
      apply h6
      · rw [hs0]; omega
      · intro k hk
        have := List.mem_range.mp hk
        unfold Table.len at this
        omega
    by_cases hne : letters n = []
    · rw [hz hne] at hle ⊢
      rw [hs0] at h5
      omega
    · have := h7 hne (t.rows.size - 1) (List.mem_range.mpr (by unfold Table.len; omega))
      omega
  · intro c hc g hg
    exact h3 c (List.mem_range.mpr hc) g hg

end Compact

/-! ### the result of both constructions -/

section Final
variable {α : Type} [BEq α] [LawfulBEq α] {act : α → Int → Option α} {n : Nat} {Good : α → Prop}

theorem full_of_done {start : α} {t : Table} {lab : List α} (hl : LInv act n Good start t lab)
    (hd : Done n t t.len) : Full n t := by
  intro c hc g hg
  have h0 := hd c hc g hg
  obtain ⟨x, y, _, _, hy⟩ := hl.sound c g hg h0
  have := (List.getElem?_eq_some_iff.mp hy).1
  rw [hl.size]
  exact ⟨h0, this⟩

theorem length_one_of_no_letters {start : α} {t : Table} {lab : List α}
    (hl : LInv act n Good start t lab) (hz : letters n = []) : t.rows.size = 1 := by
  rw [hl.size]
  have hall : ∀ y ∈ lab, y = start := by
    intro y hy
    obtain ⟨w, hw, hit⟩ := hl.reach y hy
    cases w with
    | nil => simp only [iterAct, Option.some.injEq] at hit; exact hit.symm
    | cons g w => have := hw g (by simp); rw [hz] at this; cases this
  have hpos := (List.getElem?_eq_some_iff.mp hl.pos).1
  match lab, hl.nodup, hall, hpos with
  | [a], _, _, _ => rfl
  | a :: b :: r, hnd, hall, _ =>
    have h1 := hall a (by simp)
    have h2 := hall b (by simp)
    rw [List.nodup_cons] at hnd
    exact absurd (by rw [h1, h2]; simp) hnd.1

/-- what both constructions deliver after `compact()` -/
theorem labelled_result {start : α} {t : Table} {lab : List α} (hl : LInv act n Good start t lab)
    (hd : Done n t t.len) {T : Table} (hT : t.compact = .ok T) :
    Plain T ∧ T.nrGens = n ∧ T.rows.size = lab.length ∧ lab[0]? = some start ∧ lab.Nodup ∧
      (∀ y ∈ lab, Good y ∧ ∃ w, (∀ g ∈ w, g ∈ letters n) ∧ iterAct act start w = some y) ∧
      (∀ (i : Nat) (g : Int) (x : α), lab[i]? = some x → g ∈ letters n →
        ∃ y j, act x g = some y ∧ T.get i g = .ok (some j) ∧ lab[j]? = some y) := by
  have hfull := full_of_done hl hd
  have hpos : 0 < t.rows.size := by
    rw [hl.size]; exact (List.getElem?_eq_some_iff.mp hl.pos).1
  obtain ⟨T', h1, h2, h3, h4, h5⟩ := compact_plain hl.plain hl.ngens hfull hpos
    (length_one_of_no_letters hl)
  rw [hT] at h1
  injection h1 with h1
  subst h1
  refine ⟨h2, h3, by rw [h4, hl.size], hl.pos, hl.nodup, fun y hy => ⟨hl.good y hy, hl.reach y hy⟩, ?_⟩
  intro i g x hi hg
  have hil : i < t.rows.size := by rw [hl.size]; exact (List.getElem?_eq_some_iff.mp hi).1
  obtain ⟨hnn, _⟩ := hfull i hil g hg
  obtain ⟨x', y, hx', hy, hj⟩ := hl.sound i g hg hnn
  rw [hi] at hx'
  injection hx' with hx'
  subst hx'
  refine ⟨y, (cell t i (colOf n g)).toNat, hy, ?_, hj⟩
  obtain ⟨hrg, _, _⟩ := inRange_of_mem hg
  rw [get_plain h2 (by rw [h3]; exact hrg), h3]
  have : cell T i (g + (n : Int)).toNat = cell t i (colOf n g) := h5 i hil g hg
  rw [this]
  unfold decode
  rw [if_pos hnn]

end Final

section InterFinal
open DSymVerif.Stab
variable {ta tb : Tab} {n : Nat}

theorem intersectionTable_spec (hca : complete ta n = true) (hcb : complete tb n = true)
    (hia : InvConsistent ta n) (hib : InvConsistent tb n) {T : Table}
    (h : intersectionTable (Table.ofView n ta) (Table.ofView n tb) = .ok T) :
    ∃ lab : List (Nat × Nat),
      Plain T ∧ T.nrGens = n ∧ T.rows.size = lab.length ∧ lab[0]? = some (0, 0) ∧ lab.Nodup ∧
      (∀ y ∈ lab, PGood ta tb y ∧ ∃ w, (∀ g ∈ w, g ∈ letters n) ∧ iterAct (pairAct ta tb n) (0, 0) w = some y) ∧
      (∀ (i : Nat) (g : Int) (x : Nat × Nat), lab[i]? = some x → g ∈ letters n →
        ∃ y j, pairAct ta tb n x g = some y ∧ T.get i g = .ok (some j) ∧ lab[j]? = some y) := by
  unfold intersectionTable at h
  have hnA : (Table.ofView n ta).nrGens = n := rfl
  have hnB : (Table.ofView n tb).nrGens = n := rfl
  have hlA : (Table.ofView n ta).len = ta.size := by simp [Table.len, Table.ofView]
  have hlB : (Table.ofView n tb).len = tb.size := by simp [Table.len, Table.ofView]
  rw [hnA, hnB, hlA, hlB] at h
  simp only [ne_eq, not_true_eq_false, if_false] at h
  cases h0 : (Array.replicate ta.size (Array.replicate tb.size (-1 : Int)))[0]? with
  | none => simp [h0] at h
  | some row0 =>
    simp only [h0] at h
    rw [Array.getElem?_replicate] at h0
    by_cases hta : 0 < ta.size
    · simp only [hta, if_true, Option.some.injEq] at h0
      subst h0
      by_cases htb : 0 < (Array.replicate tb.size (-1 : Int)).size
      · rw [if_pos htb] at h
        have htb' : 0 < tb.size := by simpa using htb
        generalize hs0 : (⟨Table.new n, (Array.replicate ta.size (Array.replicate tb.size (-1 : Int))).setIfInBounds 0
            ((Array.replicate tb.size (-1 : Int)).setIfInBounds 0 0), #[(0, 0)]⟩ : Inter) = s0 at h
        cases hloop : interLoop (Table.ofView n ta) (Table.ofView n tb) (ta.size * tb.size + 2) 0 s0 with
        | err => simp [hloop] at h
        | panic => simp [hloop] at h
        | ok s' =>
          simp only [hloop] at h
          have hl0 : LInv (pairAct ta tb n) n (PGood ta tb) (0, 0) s0.table [(0, 0)] := by
            subst hs0
            refine ⟨plain_new n, rfl, rfl, rfl, List.nodup_singleton _, ?_, ?_, ?_, ?_, ?_⟩
            · intro y hy; simp only [List.mem_singleton] at hy; subst hy; exact ⟨hta, htb'⟩
            · intro y hy; simp only [List.mem_singleton] at hy; subst hy
              exact ⟨[], by simp, rfl⟩
            · intro c j; rw [cell_new]
            · intro c j _; exact cell_new n c j
            · intro c g _ hnn; rw [cell_new] at hnn; omega
          have hc0 : InterCache ta tb s0 [(0, 0)] := by
            subst hs0
            constructor
            · rfl
            · intro a row hrow
              simp only [Array.getElem?_setIfInBounds, Array.getElem?_replicate] at hrow
              by_cases ha : 0 = a
              · subst ha
                simp only [if_true, Array.size_replicate, hta, Option.some.injEq] at hrow
                rw [← hrow]; simp
              · simp only [ha, if_false] at hrow
                split at hrow
                · injection hrow with hrow; rw [← hrow]; simp
                · cases hrow
            · intro a b row v hrow hv
              simp only [Array.getElem?_setIfInBounds, Array.getElem?_replicate] at hrow
              by_cases ha : 0 = a
              · subst ha
                simp only [if_true, Array.size_replicate, hta, Option.some.injEq] at hrow
                subst hrow
                simp only [Array.getElem?_setIfInBounds, Array.getElem?_replicate] at hv
                by_cases hb : 0 = b
                · subst hb
                  simp only [if_true, Array.size_replicate, htb', Option.some.injEq] at hv
                  rw [← hv]; simp
                · simp only [hb, if_false] at hv
                  split at hv
                  · injection hv with hv
                    have : (0, b) ∉ [((0 : Nat), (0 : Nat))] := by
                      simp only [List.mem_singleton, Prod.mk.injEq, true_and]
                      exact fun e => hb e.symm
                    rw [if_neg this, ← hv]
                  · cases hv
              · simp only [ha, if_false] at hrow
                split at hrow
                · injection hrow with hrow
                  subst hrow
                  rw [Array.getElem?_replicate] at hv
                  split at hv
                  · injection hv with hv
                    have : (a, b) ∉ [((0 : Nat), (0 : Nat))] := by
                      simp only [List.mem_singleton, Prod.mk.injEq, not_and]
                      exact fun e => absurd e.symm ha
                    rw [if_neg this, ← hv]
                  · cases hv
                · cases hrow
          obtain ⟨lab, hl, _, hd⟩ := interLoop_spec hca hcb hia hib _ 0 s0 s' _ hl0 hc0
            (fun c hc => by omega) hloop
          exact ⟨lab, labelled_result hl hd h⟩
      · rw [if_neg htb] at h; cases h
    · simp [hta] at h0

end InterFinal

end DSymVerif.StabP
