/-
Helper lemmas for property C19, part 5: what the flow invariant gives at termination.

* `Final`: the last `seen` set `S` contains the source, not the sink; every edge leaving `S`
  carries flow, no flow edge enters `S`; tree induction over `S`.
* totality / fuel adequacy of `min_edge_cut` (model): never `err`; `ok` whenever the source is
  an endpoint of an edge.
* double counting: for a duplicate-free vertex list `U` not containing the sink,
  `#flow edges leaving U = #flow edges entering U + (value if s ∈ U)`.
* `|cut| = flow value` (max-flow = min-cut for this scheme) and, by weak duality for flows,
  `|cut| ≤ |C|` for every separating edge set `C` (directed and unordered form).
* `inside ⊆ reachable`: every vertex of the last `seen` set can be reached forwards from the
  source without using a cut edge.
-/
import DSymVerif.Proofs.CutsetsFlowAug

namespace DSymVerif.CutP
open DSymVerif.Cut DSymVerif.SpecC19

/-! ### the final state -/

structure Final (E F : List (Nat × Nat)) (s t : Nat) (S : List Nat) : Prop where
  s_in : s ∈ S
  t_out : t ∉ S
  sat : ∀ a b, (a, b) ∈ E → a ∈ S → b ∉ S → (a, b) ∈ F
  noback : ∀ a b, (a, b) ∈ F → b ∈ S → a ∈ S
  induct : ∀ Q : Nat → Prop, Q s →
    (∀ v w, v ∈ S → Q v → w ∈ S → resB E F v w = true → Q w) → ∀ x ∈ S, Q x

theorem final_of_finalBfs {E F : List (Nat × Nat)} {nbrs : List (Nat × List Nat)} {s t k : Nat}
    {S : List Nat} (hnb : NbOK E nbrs) (hF : FlowInv E F s t k) (hst : s ≠ t)
    (h : FinalBfs E F nbrs s t S) : Final E F s t S := by
  obtain ⟨st, rfl, hinv, hkt, hq, hdone⟩ := h
  have hdone' : ∀ x ∈ st.seen, Done E F nbrs st.seen x := by
    intro x hx
    rcases hdone x hx with h | h | h
    · exact absurd h id
    · rw [hq] at h; simp at h
    · exact h
  refine ⟨(hinv.seen_iff s).2 (Or.inl rfl), ?_, ?_, ?_, ?_⟩
  · intro ht
    rcases (hinv.seen_iff t).1 ht with h | h
    · exact hst h.symm
    · rw [hkt] at h; cases h
  · intro a b hab ha hb
    obtain ⟨ws, hws, hbw⟩ := (hnb.nb a b).2 (Or.inl hab)
    by_cases hr : resB E F a b = true
    · exact absurd (hdone' a ha ws hws b hbw hr) hb
    · rw [resB_iff] at hr
      by_cases hf : (a, b) ∈ F
      · exact hf
      · exact absurd ⟨hf, Or.inl hab⟩ hr
  · intro a b hab hb
    by_cases ha : a ∈ st.seen
    · exact ha
    · exfalso
      obtain ⟨ws, hws, haw⟩ := (hnb.nb b a).2 (Or.inr (hF.sub _ hab))
      by_cases hr : resB E F b a = true
      · exact ha (hdone' b hb ws hws a haw hr)
      · rw [resB_iff] at hr
        by_cases hf : (b, a) ∈ F
        · exact hF.anti a b hab hf
        · exact hr ⟨hf, Or.inr hab⟩
  · intro Q hQs step x hx
    have key : ∀ y, hasKey y st.back = true → y ∈ st.seen ∧ Q y := by
      refine tree_induct (fun y => y ∈ st.seen ∧ Q y) ⟨(hinv.seen_iff s).2 (Or.inl rfl), hQs⟩
        hinv.tree ?_
      intro v w hv hw hr
      have hws : w ∈ st.seen := (hinv.seen_iff w).2 (Or.inr hw)
      exact ⟨hws, step v w hv.1 hv.2 hws hr⟩
    rcases (hinv.seen_iff x).1 hx with h | h
    · rw [h]; exact hQs
    · exact (key x h).2

/-- everything known about an `ok` answer of the model of `min_edge_cut` -/
theorem minEdgeCut_final (input : List (Nat × Nat)) (s t : Nat) (r : EdgeCut)
    (h : minEdgeCut input s t = .ok r) (hst : s ≠ t) :
    ∃ k, FlowInv (edgeSet input) r.flow s t k ∧ Final (edgeSet input) r.flow s t r.inside ∧
      r.cut = leaving (edgeSet input) r.inside := by
  have hnb := nbOK_byFirst (edgeSet input)
  unfold minEdgeCut at h
  simp only at h
  rcases cutLoop_spec hnb ((edgeSet input).length + 2) [] 0 (flowInv_nil _ s t) (by omega)
    with ⟨h1, _⟩ | ⟨F', k', seen, h1, h2, h3⟩
  · rw [show symm (edgeSet input) = (edgeSet input).flatMap (fun e => [(e.1, e.2), (e.2, e.1)])
      from rfl] at h1
    rw [h1] at h; cases h
  · rw [show symm (edgeSet input) = (edgeSet input).flatMap (fun e => [(e.1, e.2), (e.2, e.1)])
      from rfl] at h1
    rw [h1] at h; cases h
    exact ⟨k', h2, final_of_finalBfs hnb h2 hst h3, rfl⟩

/-- **Fuel adequacy / totality** of the model of `min_edge_cut`: the loops
    never run out of fuel; the only panic is `neighbors[&source]` for a source that is not an
    endpoint of any edge. -/
theorem minEdgeCut_total (input : List (Nat × Nat)) (s t : Nat) :
    minEdgeCut input s t ≠ .err ∧
    ((∃ e ∈ input, e.1 = s ∨ e.2 = s) → ∃ r, minEdgeCut input s t = .ok r) := by
  have hnb := nbOK_byFirst (edgeSet input)
  have hspec := cutLoop_spec hnb ((edgeSet input).length + 2) [] 0 (flowInv_nil _ s t)
    (by omega)
  have hdef : minEdgeCut input s t =
      cutLoop (edgeSet input) (byFirst (symm (edgeSet input))) s t ((edgeSet input).length + 2) [] :=
    rfl
  rw [hdef]
  rcases hspec with ⟨h1, h2⟩ | ⟨F', k', seen, h1, _, _⟩
  · rw [h1]
    refine ⟨by simp, ?_⟩
    rintro ⟨e, he, hes⟩
    exfalso
    have heE : e ∈ edgeSet input := (mem_edgeSet e input).2 he
    have : ∃ w, Nb (byFirst (symm (edgeSet input))) s w := by
      rcases hes with hes | hes
      · exact ⟨e.2, (hnb.nb s e.2).2 (Or.inl (by rw [← hes]; exact heE))⟩
      · exact ⟨e.1, (hnb.nb s e.1).2 (Or.inr (by rw [← hes]; exact heE))⟩
    obtain ⟨w, ws, hws, _⟩ := this
    rw [h2] at hws; cases hws
  · rw [h1]
    exact ⟨by simp, fun _ => ⟨_, rfl⟩⟩

/-! ### double counting -/

theorem countP_or_excl {α} (p q : α → Bool) :
    ∀ l : List α, (∀ e ∈ l, ¬(p e = true ∧ q e = true)) →
      l.countP (fun e => p e || q e) = l.countP p + l.countP q
  | [], _ => by simp
  | x :: xs, h => by
    have ih := countP_or_excl p q xs (fun e he => h e (List.mem_cons_of_mem _ he))
    have hx := h x List.mem_cons_self
    simp only [List.countP_cons, ih]
    cases hp : p x <;> cases hq : q x <;> simp_all <;> omega

theorem countP_split {α} (p q : α → Bool) :
    ∀ l : List α, l.countP p = l.countP (fun e => p e && q e) + l.countP (fun e => p e && !q e)
  | [] => by simp
  | x :: xs => by
    have ih := countP_split p q xs
    simp only [List.countP_cons, ih]
    cases hp : p x <;> cases hq : q x <;> simp <;> omega

theorem sum_outdeg (F : List (Nat × Nat)) :
    ∀ U : List Nat, U.Nodup → (U.map (outdeg F)).sum = F.countP (fun e => U.contains e.1)
  | [], _ => by simp
  | u :: U, h => by
    rw [List.nodup_cons] at h
    have ih := sum_outdeg F U h.2
    have := countP_or_excl (fun e : Nat × Nat => e.1 == u) (fun e => U.contains e.1) F (by
      intro e _ ⟨h1, h2⟩
      simp only [beq_iff_eq] at h1
      rw [h1] at h2
      exact h.1 (by simpa using h2))
    simp only [List.map_cons, List.sum_cons, ih, outdeg, List.contains_cons]
    rw [← this]

theorem sum_indeg (F : List (Nat × Nat)) :
    ∀ U : List Nat, U.Nodup → (U.map (indeg F)).sum = F.countP (fun e => U.contains e.2)
  | [], _ => by simp
  | u :: U, h => by
    rw [List.nodup_cons] at h
    have ih := sum_indeg F U h.2
    have := countP_or_excl (fun e : Nat × Nat => e.2 == u) (fun e => U.contains e.2) F (by
      intro e _ ⟨h1, h2⟩
      simp only [beq_iff_eq] at h1
      rw [h1] at h2
      exact h.1 (by simpa using h2))
    simp only [List.map_cons, List.sum_cons, ih, indeg, List.contains_cons]
    rw [← this]

theorem sum_conserv {E F : List (Nat × Nat)} {s t k : Nat} (hF : FlowInv E F s t k) :
    ∀ U : List Nat, U.Nodup → t ∉ U →
      (U.map (outdeg F)).sum = (U.map (indeg F)).sum + (if s ∈ U then k else 0)
  | [], _, _ => by simp
  | u :: U, h, ht => by
    rw [List.nodup_cons] at h
    have ih := sum_conserv hF U h.2 (fun hh => ht (List.mem_cons_of_mem _ hh))
    simp only [List.map_cons, List.sum_cons]
    by_cases hus : u = s
    · subst hus
      have h1 := hF.val
      have h2 := indeg_eq_zero hF.noin
      rw [if_neg h.1] at ih
      rw [if_pos List.mem_cons_self]
      omega
    · have hut : u ≠ t := fun hh => ht (hh ▸ List.mem_cons_self)
      have h1 := hF.cons u hus hut
      have hiff : (s ∈ u :: U) ↔ s ∈ U := by
        simp only [List.mem_cons]
        constructor
        · rintro (hh | hh)
          · exact absurd hh.symm hus
          · exact hh
        · exact Or.inr
      by_cases hsU : s ∈ U
      · rw [if_pos hsU] at ih; rw [if_pos (hiff.2 hsU)]; omega
      · rw [if_neg hsU] at ih; rw [if_neg (fun hh => hsU (hiff.1 hh))]; omega

/-- crossing predicate of a vertex list -/
def crossB (U : List Nat) (e : Nat × Nat) : Bool := U.contains e.1 && !U.contains e.2

/-- **Flow across a vertex set.** -/
theorem flow_cross {E F : List (Nat × Nat)} {s t k : Nat} (hF : FlowInv E F s t k)
    (U : List Nat) (hU : U.Nodup) (ht : t ∉ U) :
    F.countP (crossB U) =
      F.countP (fun e => U.contains e.2 && !U.contains e.1) + (if s ∈ U then k else 0) := by
  have h1 := sum_outdeg F U hU
  have h2 := sum_indeg F U hU
  have h3 := sum_conserv hF U hU ht
  have h4 := countP_split (fun e : Nat × Nat => U.contains e.1) (fun e => U.contains e.2) F
  have h5 := countP_split (fun e : Nat × Nat => U.contains e.2) (fun e => U.contains e.1) F
  have h6 : F.countP (fun e => U.contains e.2 && U.contains e.1) =
      F.countP (fun e => U.contains e.1 && U.contains e.2) :=
    List.countP_congr (fun e _ => by simp [Bool.and_comm])
  have h7 : F.countP (crossB U) = F.countP (fun e => U.contains e.1 && !U.contains e.2) := rfl
  omega

theorem mem_filter_crossB (L : List (Nat × Nat)) (U : List Nat) (e : Nat × Nat) :
    e ∈ L.filter (crossB U) ↔ e ∈ L ∧ e.1 ∈ U ∧ e.2 ∉ U := by
  simp [crossB]

/-- weak duality for flows: the value is at most the number of edges of `E` leaving any
    duplicate-free vertex list that contains the source and not the sink -/
theorem flow_value_le_crossing {E F : List (Nat × Nat)} {s t k : Nat} (hF : FlowInv E F s t k)
    (U : List Nat) (hU : U.Nodup) (hs : s ∈ U) (ht : t ∉ U) :
    k ≤ (E.filter (crossB U)).length := by
  have h1 := flow_cross hF U hU ht
  rw [if_pos hs] at h1
  have h2 : F.countP (crossB U) = (F.filter (crossB U)).length := List.countP_eq_length_filter
  have h3 : (F.filter (crossB U)).length ≤ (E.filter (crossB U)).length := by
    refine ((hF.sorted.nodup.filter _).subperm ?_).length_le
    intro e he
    rw [mem_filter_crossB] at he ⊢
    exact ⟨hF.sub e he.1, he.2⟩
  omega

theorem leaving_eq_filter_crossB (E : List (Nat × Nat)) (S : List Nat) :
    leaving E S = E.filter (crossB S.dedup) := by
  unfold leaving
  refine List.filter_congr ?_
  intro e _
  simp [crossB]

/-- **max-flow = min-cut for the model**: the number of edges leaving the last `seen` set is
    the value of the flow, i.e. the number of augmentations -/
theorem cut_length_eq_value {E F : List (Nat × Nat)} {s t k : Nat} {S : List Nat}
    (hF : FlowInv E F s t k) (hfin : Final E F s t S) (hE : E.Nodup) :
    (leaving E S).length = k := by
  rw [leaving_eq_filter_crossB]
  have hU := List.nodup_dedup S
  have h1 := flow_cross hF S.dedup hU (fun hh => hfin.t_out (List.mem_dedup.1 hh))
  rw [if_pos (List.mem_dedup.2 hfin.s_in)] at h1
  have h0 : F.countP (fun e => S.dedup.contains e.2 && !S.dedup.contains e.1) = 0 := by
    rw [List.countP_eq_zero]
    intro e he hc
    simp only [Bool.and_eq_true, List.contains_eq_mem, List.mem_dedup, decide_eq_true_eq,
      Bool.not_eq_true', decide_eq_false_iff_not] at hc
    exact hc.2 (hfin.noback e.1 e.2 he hc.1)
  have h2 : F.countP (crossB S.dedup) = (F.filter (crossB S.dedup)).length :=
    List.countP_eq_length_filter
  have h3 : (F.filter (crossB S.dedup)).length = (E.filter (crossB S.dedup)).length := by
    apply Nat.le_antisymm
    · refine ((hF.sorted.nodup.filter _).subperm ?_).length_le
      intro e he
      rw [mem_filter_crossB] at he ⊢
      exact ⟨hF.sub e he.1, he.2⟩
    · refine ((hE.filter _).subperm ?_).length_le
      intro e he
      rw [mem_filter_crossB] at he ⊢
      refine ⟨hfin.sat e.1 e.2 he.1 (List.mem_dedup.1 he.2.1) (fun hh => he.2.2 (List.mem_dedup.2 hh)),
        he.2⟩
  omega

/-! ### minimality -/

theorem mem_endpoints (G : List (Nat × Nat)) (e : Nat × Nat) (he : e ∈ G) :
    e.1 ∈ endpoints G ∧ e.2 ∈ endpoints G := by
  simp only [endpoints, List.mem_flatMap]
  exact ⟨⟨e, he, by simp⟩, ⟨e, he, by simp⟩⟩

/-- a closed-set construction: the vertices reachable from `s` in a subgraph `H` of `E`,
    as a duplicate-free list; every edge of `E` leaving it is missing from `H` -/
theorem exists_reach_list (E H : List (Nat × Nat)) (s : Nat) :
    ∃ U : List Nat, U.Nodup ∧ s ∈ U ∧ (∀ x ∈ U, ∃ p, IsWalk H s x p) ∧
      ∀ e ∈ E, e.1 ∈ U → e.2 ∉ U → e ∉ H := by
  classical
  refine ⟨(s :: endpoints E).dedup.filter (fun x => decide (∃ p, IsWalk H s x p)),
    (List.nodup_dedup _).filter _, ?_, ?_, ?_⟩
  · simp only [List.mem_filter, List.mem_dedup, List.mem_cons, true_or, decide_eq_true_eq, true_and]
    exact ⟨[s], self_walk H s⟩
  · intro x hx
    simp only [List.mem_filter, decide_eq_true_eq] at hx
    exact hx.2
  · intro e he h1 h2 heH
    simp only [List.mem_filter, List.mem_dedup, List.mem_cons, decide_eq_true_eq] at h1 h2
    obtain ⟨p, hp⟩ := h1.2
    exact h2 ⟨Or.inr (mem_endpoints E e he).2, p ++ [e.2], hp.snoc heH⟩

/-- the value of any flow is at most the size of any separating edge set -/
theorem flow_value_le_cut {E F : List (Nat × Nat)} {s t k : Nat} (hF : FlowInv E F s t k)
    (hE : E.Nodup) (C : List (Nat × Nat))
    (hsep : ∀ p, IsWalk E s t p → ∃ e ∈ walkEdges p, e ∈ C) : k ≤ C.length := by
  obtain ⟨U, hU, hs, hreach, hclosed⟩ := exists_reach_list E (removeEdges E C) s
  have ht : t ∉ U := by
    intro hh
    obtain ⟨p, hp⟩ := hreach t hh
    obtain ⟨e, he, heC⟩ := hsep p (hp.mono (fun e _ h => ((mem_removeEdges E C e).1 h).1))
    exact ((mem_removeEdges E C e).1 (hp.2.2 e he)).2 heC
  have h1 := flow_value_le_crossing hF U hU hs ht
  have h2 : (E.filter (crossB U)).length ≤ C.length := by
    refine ((hE.filter _).subperm ?_).length_le
    intro e he
    rw [mem_filter_crossB] at he
    by_cases heC : e ∈ C
    · exact heC
    · exact absurd ((mem_removeEdges E C e).2 ⟨he.1, heC⟩) (hclosed e he.1 he.2.1 he.2.2)
  omega

theorem norm_eq_iff (e f : Nat × Nat) : norm e = norm f → e = f ∨ e = swap f := by
  obtain ⟨a, b⟩ := e; obtain ⟨c, d⟩ := f
  simp only [norm, swap]
  by_cases h1 : a ≤ b <;> by_cases h2 : c ≤ d <;> simp [h1, h2] <;> omega

/-- unordered form: a set `C` of unordered edges meeting every walk of the symmetric digraph
    `E` (in one of the two orientations) has at least `value` elements -/
theorem flow_value_le_cut_undirected {E F : List (Nat × Nat)} {s t k : Nat}
    (hF : FlowInv E F s t k) (hE : E.Nodup) (C : List (Nat × Nat))
    (hsep : ∀ p, IsWalk E s t p → ∃ e ∈ walkEdges p, e ∈ C ∨ swap e ∈ C) : k ≤ C.length := by
  obtain ⟨U, hU, hs, hreach, hclosed⟩ := exists_reach_list E (removeEdgesU E C) s
  have ht : t ∉ U := by
    intro hh
    obtain ⟨p, hp⟩ := hreach t hh
    obtain ⟨e, he, heC⟩ := hsep p (hp.mono (fun e _ h => ((mem_removeEdgesU E C e).1 h).1))
    have := (mem_removeEdgesU E C e).1 (hp.2.2 e he)
    rcases heC with h | h
    · exact this.2.1 h
    · exact this.2.2 h
  have h1 := flow_value_le_crossing hF U hU hs ht
  have hcross : ∀ e ∈ E.filter (crossB U), e ∈ C ∨ swap e ∈ C := by
    intro e he
    rw [mem_filter_crossB] at he
    by_cases h : e ∈ C ∨ swap e ∈ C
    · exact h
    · exfalso
      refine hclosed e he.1 he.2.1 he.2.2 ((mem_removeEdgesU E C e).2 ⟨he.1, ?_, ?_⟩)
      · exact fun hh => h (Or.inl hh)
      · exact fun hh => h (Or.inr hh)
  have hnd : ((E.filter (crossB U)).map norm).Nodup := by
    refine List.Nodup.map_on ?_ (hE.filter _)
    intro e he f hf hnorm
    rcases norm_eq_iff e f hnorm with h | h
    · exact h
    · exfalso
      rw [mem_filter_crossB] at he hf
      rw [h] at he
      exact hf.2.2 he.2.1
  have h2 : ((E.filter (crossB U)).map norm).length ≤ (C.map norm).length := by
    refine (hnd.subperm ?_).length_le
    intro x hx
    obtain ⟨e, he, rfl⟩ := List.mem_map.1 hx
    rcases hcross e he with h | h
    · exact List.mem_map_of_mem h
    · rw [← norm_swap e]; exact List.mem_map_of_mem h
  simp only [List.length_map] at h2
  omega

/-- **The model's edge cut is a minimum cut, for every graph.** -/
theorem minEdgeCut_minimum (input : List (Nat × Nat)) (s t : Nat) (r : EdgeCut)
    (h : minEdgeCut input s t = .ok r) (hst : s ≠ t) (C : List (Nat × Nat))
    (hsep : ∀ p, IsWalk input s t p → ∃ e ∈ walkEdges p, e ∈ C) :
    r.cut.length ≤ C.length ∧ r.cut.length = outdeg r.flow s := by
  obtain ⟨k, hF, hfin, hcut⟩ := minEdgeCut_final input s t r h hst
  have hE := nodup_edgeSet input
  have h1 := cut_length_eq_value hF hfin hE
  have h2 := flow_value_le_cut hF hE C (fun p hp =>
    hsep p (hp.mono (fun e _ he => (mem_edgeSet e input).1 he)))
  rw [hcut, h1]
  exact ⟨h2, hF.val.symm⟩

/-- **The model's undirected edge cut is a minimum cut (unordered edges), for every graph.** -/
theorem minEdgeCutUndirected_minimum (input : List (Nat × Nat)) (s t : Nat) (r : EdgeCut)
    (h : minEdgeCutUndirected input s t = .ok r) (hst : s ≠ t) (C : List (Nat × Nat))
    (hsep : ∀ p, IsWalk (sym input) s t p → ∃ e ∈ walkEdges p, e ∈ C ∨ swap e ∈ C) :
    r.cut.length ≤ C.length := by
  obtain ⟨k, hF, hfin, hcut⟩ := minEdgeCut_final _ s t r h hst
  have hE := nodup_edgeSet (edgeSet (symm input))
  have h1 := cut_length_eq_value hF hfin hE
  have h2 := flow_value_le_cut_undirected hF hE C (fun p hp =>
    hsep p (hp.mono (fun e _ he =>
      (mem_sym input e).2 ((mem_symm input e).1 ((mem_edgeSet e _).1 ((mem_edgeSet e _).1 he))))))
  rw [hcut, h1]
  exact h2

/-! ### inside ⊆ reachable -/

/-- **Every vertex of the model's `inside` set is reachable from the source by a walk that uses
    no cut edge** (the half of `inside_is_reachable` that needs flow conservation). -/
theorem minEdgeCut_inside_reachable (input : List (Nat × Nat)) (s t : Nat) (r : EdgeCut)
    (h : minEdgeCut input s t = .ok r) (hst : s ≠ t) (v : Nat) (hv : v ∈ r.inside) :
    ∃ p, IsWalk (removeEdges input r.cut) s v p := by
  classical
  obtain ⟨k, hF, hfin, hcut⟩ := minEdgeCut_final input s t r h hst
  -- a non-cut edge between two inside vertices extends reachability
  have hext : ∀ a b, (a, b) ∈ edgeSet input → b ∈ r.inside →
      (∃ p, IsWalk (removeEdges input r.cut) s a p) → ∃ p, IsWalk (removeEdges input r.cut) s b p := by
    intro a b hab hb ⟨p, hp⟩
    refine ⟨p ++ [b], hp.snoc ((mem_removeEdges input r.cut (a, b)).2
      ⟨(mem_edgeSet _ input).1 hab, ?_⟩)⟩
    rw [hcut, mem_leaving]
    exact fun hh => hh.2.2 hb
  let U := r.inside.dedup.filter (fun x => decide (¬ ∃ p, IsWalk (removeEdges input r.cut) s x p))
  have hU : U.Nodup := (List.nodup_dedup _).filter _
  have hmemU : ∀ x, x ∈ U ↔ x ∈ r.inside ∧ ¬ ∃ p, IsWalk (removeEdges input r.cut) s x p := by
    intro x; simp [U]
  have hsU : s ∉ U := fun hh => ((hmemU s).1 hh).2 ⟨[s], self_walk _ s⟩
  have htU : t ∉ U := fun hh => hfin.t_out ((hmemU t).1 hh).1
  have h1 := flow_cross hF U hU htU
  rw [if_neg hsU] at h1
  have h0 : r.flow.countP (fun e => U.contains e.2 && !U.contains e.1) = 0 := by
    rw [List.countP_eq_zero]
    intro e he hc
    simp only [Bool.and_eq_true, List.contains_eq_mem, decide_eq_true_eq, Bool.not_eq_true',
      decide_eq_false_iff_not] at hc
    obtain ⟨hb, ha⟩ := hc
    have hbU := (hmemU e.2).1 hb
    have haS : e.1 ∈ r.inside := hfin.noback e.1 e.2 he hbU.1
    have hareach : ∃ p, IsWalk (removeEdges input r.cut) s e.1 p := by
      by_cases hh : ∃ p, IsWalk (removeEdges input r.cut) s e.1 p
      · exact hh
      · exact absurd ((hmemU e.1).2 ⟨haS, hh⟩) ha
    exact hbU.2 (hext e.1 e.2 (hF.sub e he) hbU.1 hareach)
  have hnoleave : ∀ e ∈ r.flow, ¬ (e.1 ∈ U ∧ e.2 ∉ U) := by
    have : r.flow.countP (crossB U) = 0 := by rw [h1, h0]
    rw [List.countP_eq_zero] at this
    intro e he hc
    exact this e he (by simp [crossB, hc.1, hc.2])
  refine hfin.induct (fun x => ∃ p, IsWalk (removeEdges input r.cut) s x p) ⟨[s], self_walk _ s⟩
    ?_ v hv
  intro a b ha hra hb hr
  obtain ⟨_, hor⟩ := (resB_iff _ _ a b).1 hr
  rcases hor with hab | hba
  · exact hext a b hab hb hra
  · by_cases hh : ∃ p, IsWalk (removeEdges input r.cut) s b p
    · exact hh
    · exfalso
      refine hnoleave (b, a) hba ⟨(hmemU b).2 ⟨hb, hh⟩, fun haU => ((hmemU a).1 haU).2 hra⟩

end DSymVerif.CutP
