/-
Helper lemmas for property C08, part 26: the vertices of the oriented map of the capped surface
are the 2-orbits (the rotation `phiM * alphaP` keeps the vertex, and the darts starting from one
vertex form one cycle), and the resulting parity: `χ_top + #boundary components` is even on every
weakly oriented symbol — the parity monitor is a theorem.
-/
import DSymVerif.Proofs.Delaney2dMap

namespace DSymVerif.D2
open DSymVerif.DS

/-- forget the membership proofs -/
def raw {y : DSymData} : MapDart y → (Nat × Nat) ⊕ Dart := Sum.map Subtype.val Subtype.val

theorem raw_injective {y : DSymData} : Function.Injective (raw (y := y)) :=
  Sum.map_injective.2 ⟨Subtype.val_injective, Subtype.val_injective⟩

/-- the vertex a dart starts from, as the key of its 2-orbit -/
def vkeyR (y : DSymData) : (Nat × Nat) ⊕ Dart → Nat × Nat × Nat
  | .inl x => keyOf y (x.2, kplus y x.2 x.1, x.1)
  | .inr δ => keyOf y (rho δ)

def vkey (y : DSymData) (x : MapDart y) : Nat × Nat × Nat := vkeyR y (raw x)

theorem kplus_kplus (y : DSymData) {v : Nat} (hv : v ≤ 2) (d : Nat) :
    kplus y (kplus y v d) d = 3 - v - kplus y v d := by
  unfold kplus
  have hv3 : v = 0 ∨ v = 1 ∨ v = 2 := by omega
  cases hb : posB y d <;> rcases hv3 with rfl | rfl | rfl <;> simp

theorem keyOf_swap (y : DSymData) (j k e : Nat) : keyOf y (j, k, e) = keyOf y (k, j, e) := by
  unfold keyOf
  simp only [Nat.min_comm j k, Nat.max_comm j k]

theorem orb2_step {s : DSetData} {a b c d e : Nat} (ho : Orb2 s a b d e) (hc : c = a ∨ c = b) :
    Orb2 s a b d (s.opU c e) := by
  rcases hc with rfl | rfl
  · exact Orb2.stepI ho
  · exact Orb2.stepJ ho

section
variable {y : DSymData} (h : ValidSym y) (hdim : y.dim = 2) (hw : y.view.isWeaklyOriented = true)

include h in
theorem keyOf_of_orb {a b d : Nat} (ha : a ≤ y.dim) (hb : b ≤ y.dim) (hd : d ∈ y.view.orbitReps2d a b)
    (η : Dart) (hmn : min η.1 η.2.1 = a) (hmx : max η.1 η.2.1 = b) (ho : Orb2 y.dset a b d η.2.2) :
    keyOf y η = (a, b, d) := by
  unfold keyOf
  simp only
  rw [hmn, hmx, find_rep h ha hb hd ho]

include h hdim in
theorem keyOf_exists {j k e : Nat} (hj : j ≤ 2) (hk : k ≤ 2) (he : 1 ≤ e ∧ e ≤ y.size) :
    ∃ d, d ∈ y.view.orbitReps2d (min j k) (max j k) ∧ Orb2 y.dset (min j k) (max j k) d e ∧
      keyOf y (j, k, e) = (min j k, max j k, d) := by
  have ha : min j k ≤ y.dim := by omega
  have hb : max j k ≤ y.dim := by omega
  have ok := orbitReps2d_ok h.set ha hb
  obtain ⟨d, hd, hod⟩ := ok.cover e he.1 he.2
  exact ⟨d, hd, hod, keyOf_of_orb h ha hb hd (j, k, e) rfl rfl hod⟩

/-- around the vertices -/
noncomputable def sigmaM : Equiv.Perm (MapDart y) := phiM h hdim hw * alphaP h hdim

theorem sigma_inl_step (x : TS y) (hne : y.dset.opU x.1.2 x.1.1 ≠ x.1.1) :
    raw (sigmaM h hdim hw (.inl x)) =
      .inl (y.dset.opU x.1.2 x.1.1, stepI y (y.dset.opU x.1.2 x.1.1) x.1.2) := by
  show raw (phiM h hdim hw (alphaF h hdim (.inl x))) = _
  simp only [alphaF, dif_neg hne]
  rfl

theorem sigma_inl_loop (x : TS y) (hl : y.dset.opU x.1.2 x.1.1 = x.1.1) :
    raw (sigmaM h hdim hw (.inl x)) = .inr (phi y (x.1.2, kplus y x.1.2 x.1.1, x.1.1)) := by
  show raw (phiM h hdim hw (alphaF h hdim (.inl x))) = _
  simp only [alphaF, dif_pos hl]
  rfl

theorem sigma_inr (δ : PS y) :
    raw (sigmaM h hdim hw (.inr δ)) = .inl (δ.1.2.2, stepI y δ.1.2.2 δ.1.1) := by
  show raw (phiM h hdim hw (alphaF h hdim (.inr δ))) = _
  simp only [alphaF]
  rfl

/-- **the rotation keeps the vertex** -/
theorem vkey_sigma (x : MapDart y) : vkey y (sigmaM h hdim hw x) = vkey y x := by
  cases x with
  | inl x =>
    obtain ⟨hd, hi⟩ := mem_TS.1 x.2
    obtain ⟨hk2, hki⟩ := kplus_facts y hi x.1.1
    obtain ⟨d0, hd0, ho0, hkey0⟩ := keyOf_exists h hdim hi hk2 hd
    have ha : min x.1.2 (kplus y x.1.2 x.1.1) ≤ y.dim := by omega
    have hb : max x.1.2 (kplus y x.1.2 x.1.1) ≤ y.dim := by omega
    have hx : vkey y (.inl x) = keyOf y (x.1.2, kplus y x.1.2 x.1.1, x.1.1) := rfl
    rw [hx, hkey0]
    by_cases hl : y.dset.opU x.1.2 x.1.1 = x.1.1
    · unfold vkey
      rw [sigma_inl_loop h hdim hw x hl]
      show keyOf y (rho (phi y (x.1.2, kplus y x.1.2 x.1.1, x.1.1))) = _
      have hval : ValidDart y (x.1.2, kplus y x.1.2 x.1.1, x.1.1) :=
        ⟨hi, hk2, fun e => hki e.symm, hd.1, hd.2, hl⟩
      obtain ⟨hτv, _, _, _, hsum, hk', horb⟩ := tau_spec h.set hdim hval .partialSym
      rw [phi_eq h.set hdim hval, (rho_valid hτv).2.1]
      simp only at hsum hk' horb
      have hne := hτv.2.2.1
      apply keyOf_of_orb h ha hb hd0
      · rcases hk' with hk' | hk' <;> omega
      · rcases hk' with hk' | hk' <;> omega
      · apply ho0.trans
        by_cases hjk : x.1.2 ≤ kplus y x.1.2 x.1.1
        · rw [Nat.min_eq_left hjk, Nat.max_eq_right hjk]; exact horb.swap
        · rw [Nat.min_eq_right (by omega), Nat.max_eq_left (by omega)]; exact horb
    · unfold vkey
      rw [sigma_inl_step h hdim hw x hl]
      show keyOf y (stepI y (y.dset.opU x.1.2 x.1.1) x.1.2,
        kplus y (stepI y (y.dset.opU x.1.2 x.1.1) x.1.2) (y.dset.opU x.1.2 x.1.1), y.dset.opU x.1.2 x.1.1) = _
      rw [(stepI_facts y (y.dset.opU x.1.2 x.1.1) hi).2.2.1]
      have hflip := kplus_flip y hi (posB_flip h hdim hw hi hd hl)
      have hs : stepI y (y.dset.opU x.1.2 x.1.1) x.1.2 = kplus y x.1.2 x.1.1 := by
        unfold stepI; rw [hflip]; omega
      rw [hs]
      apply keyOf_of_orb h ha hb hd0
      · show min (kplus y x.1.2 x.1.1) x.1.2 = _; exact Nat.min_comm _ _
      · show max (kplus y x.1.2 x.1.1) x.1.2 = _; exact Nat.max_comm _ _
      · exact orb2_step ho0 (by omega)
  | inr δ =>
    obtain ⟨⟨h1, h2, h3, h4, h5, h6⟩, hp⟩ := mem_PS.1 δ.2
    unfold vkey
    rw [sigma_inr h hdim hw δ]
    show keyOf y (stepI y δ.1.2.2 δ.1.1, kplus y (stepI y δ.1.2.2 δ.1.1) δ.1.2.2, δ.1.2.2) = keyOf y (rho δ.1)
    rw [(stepI_facts y δ.1.2.2 h1).2.2.1, keyOf_swap]
    unfold rho stepI
    rw [← hp]

/-! ### the darts starting from one vertex form one cycle -/

/-- the triangle dart of chamber `d` that starts from its vertex `v` -/
def tD (y : DSymData) (v d : Nat) (hv : v ≤ 2) (hd : 1 ≤ d ∧ d ≤ y.size) : MapDart y :=
  .inl ⟨(d, kplus y v d), mem_TS.2 ⟨hd, (kplus_facts y hv d).1⟩⟩

omit h hdim hw in
theorem tD_congr {v d d' : Nat} (hv : v ≤ 2) (hd : 1 ≤ d ∧ d ≤ y.size) (hd' : 1 ≤ d' ∧ d' ≤ y.size)
    (e : d = d') : tD y v d hv hd = tD y v d' hv hd' := by subst e; rfl

theorem sigma_tD {v d : Nat} (hv : v ≤ 2) (hd : 1 ≤ d ∧ d ≤ y.size)
    (hne : y.dset.opU (kplus y v d) d ≠ d) :
    sigmaM h hdim hw (tD y v d hv hd) = tD y v (y.dset.opU (kplus y v d) d) hv
      (h.set.range _ d (by have := (kplus_facts y hv d).1; show kplus y v d ≤ y.dim; omega) hd.1 hd.2) := by
  apply raw_injective
  obtain ⟨hi2, hiv⟩ := kplus_facts y hv d
  have hstep := sigma_inl_step h hdim hw ⟨(d, kplus y v d), mem_TS.2 ⟨hd, hi2⟩⟩ hne
  refine hstep.trans ?_
  show Sum.inl (y.dset.opU (kplus y v d) d, stepI y (y.dset.opU (kplus y v d) d) (kplus y v d)) =
    Sum.inl (y.dset.opU (kplus y v d) d, kplus y v (y.dset.opU (kplus y v d) d))
  have hflipP := posB_flip h hdim hw hi2 hd hne
  have f1 := kplus_flip y hi2 hflipP
  have f2 := kplus_flip y hv hflipP
  have f3 := kplus_kplus y hv d
  have : stepI y (y.dset.opU (kplus y v d) d) (kplus y v d) = kplus y v (y.dset.opU (kplus y v d) d) := by
    unfold stepI; rw [f1, f2, f3]; omega
  rw [this]

theorem sameCycle_step {v d c : Nat} (hv : v ≤ 2) (hd : 1 ≤ d ∧ d ≤ y.size) (hc : c ≤ 2) (hcv : c ≠ v) :
    (sigmaM h hdim hw).SameCycle (tD y v d hv hd) (tD y v (y.dset.opU c d) hv
      (h.set.range c d (by show c ≤ y.dim; omega) hd.1 hd.2)) := by
  have hr := h.set.range c d (by show c ≤ y.dim; omega) hd.1 hd.2
  obtain ⟨hi2, hiv⟩ := kplus_facts y hv d
  by_cases hl : y.dset.opU c d = d
  · rw [tD_congr hv hr hd hl]
  · by_cases hci : c = kplus y v d
    · subst hci
      rw [← sigma_tD h hdim hw hv hd hl]
      exact Equiv.Perm.sameCycle_apply_right.2 (Equiv.Perm.SameCycle.refl _ _)
    · -- from the neighbour the rotation comes back
      have hflipP := posB_flip h hdim hw hc hd hl
      have f2 := kplus_flip y hv hflipP
      have hk' : kplus y v (y.dset.opU c d) = c := by omega
      have hinv := h.set.invol c d (by show c ≤ y.dim; omega) hd.1 hd.2
      have hne' : y.dset.opU (kplus y v (y.dset.opU c d)) (y.dset.opU c d) ≠ y.dset.opU c d := by
        rw [hk', hinv]; exact fun e => hl e.symm
      have hs := sigma_tD h hdim hw hv hr hne'
      have hback : tD y v (y.dset.opU (kplus y v (y.dset.opU c d)) (y.dset.opU c d)) hv
          (h.set.range _ _ (by show kplus y v (y.dset.opU c d) ≤ y.dim; omega) hr.1 hr.2) = tD y v d hv hd :=
        tD_congr hv _ hd (by rw [hk', hinv])
      rw [hback] at hs
      rw [← hs]
      exact (Equiv.Perm.sameCycle_apply_right.2 (Equiv.Perm.SameCycle.refl _ _)).symm

theorem sameCycle_orb {a b v d e : Nat} (ha : a ≤ 2) (hb : b ≤ 2) (hab : a ≠ b) (hv : v = 3 - a - b)
    (hd : 1 ≤ d ∧ d ≤ y.size) (ho : Orb2 y.dset a b d e) :
    ∃ he : 1 ≤ e ∧ e ≤ y.size,
      (sigmaM h hdim hw).SameCycle (tD y v d (by omega) hd) (tD y v e (by omega) he) := by
  induction ho with
  | refl => exact ⟨hd, Equiv.Perm.SameCycle.refl _ _⟩
  | stepI _ ih =>
    obtain ⟨he, hs⟩ := ih
    exact ⟨_, hs.trans (sameCycle_step h hdim hw (by omega) he ha (by omega))⟩
  | stepJ _ ih =>
    obtain ⟨he, hs⟩ := ih
    exact ⟨_, hs.trans (sameCycle_step h hdim hw (by omega) he hb (by omega))⟩

/-- every dart shares its cycle with a triangle dart -/
theorem sameCycle_tD (x : MapDart y) :
    ∃ v d, ∃ (hv : v ≤ 2) (hd : 1 ≤ d ∧ d ≤ y.size), (sigmaM h hdim hw).SameCycle x (tD y v d hv hd) := by
  cases x with
  | inl x =>
    obtain ⟨hd, hi⟩ := mem_TS.1 x.2
    have hf := stepI_facts y x.1.1 hi
    refine ⟨stepI y x.1.1 x.1.2, x.1.1, hf.1, hd, ?_⟩
    have : (Sum.inl x : MapDart y) = tD y (stepI y x.1.1 x.1.2) x.1.1 hf.1 hd := by
      apply raw_injective
      show Sum.inl x.1 = Sum.inl (x.1.1, kplus y (stepI y x.1.1 x.1.2) x.1.1)
      rw [hf.2.2.1]
    rw [← this]
  | inr δ =>
    obtain ⟨⟨h1, h2, h3, h4, h5, h6⟩, hp⟩ := mem_PS.1 δ.2
    refine ⟨δ.1.2.1, δ.1.2.2, h2, ⟨h4, h5⟩, ?_⟩
    have : sigmaM h hdim hw (.inr δ) = tD y δ.1.2.1 δ.1.2.2 h2 ⟨h4, h5⟩ := by
      apply raw_injective
      rw [sigma_inr h hdim hw δ]
      show Sum.inl (δ.1.2.2, stepI y δ.1.2.2 δ.1.1) = Sum.inl (δ.1.2.2, kplus y δ.1.2.1 δ.1.2.2)
      have hp' : δ.1.2.1 = kplus y δ.1.1 δ.1.2.2 := hp
      rw [hp', kplus_kplus y h1]
      rfl
    rw [← this]
    exact Equiv.Perm.sameCycle_apply_right.2 (Equiv.Perm.SameCycle.refl _ _)

theorem vkey_pow (x : MapDart y) (n : Nat) : vkey y ((sigmaM h hdim hw ^ n) x) = vkey y x := by
  induction n with
  | zero => rfl
  | succ n ih => rw [pow_succ', Equiv.Perm.mul_apply, vkey_sigma, ih]

theorem vkey_sameCycle {x x' : MapDart y} (hs : (sigmaM h hdim hw).SameCycle x x') : vkey y x = vkey y x' := by
  obtain ⟨n, rfl⟩ := hs.exists_nat_pow_eq
  exact (vkey_pow h hdim hw x n).symm

include h hdim in
theorem vkey_tD {v d : Nat} (hv : v ≤ 2) (hd : 1 ≤ d ∧ d ≤ y.size) :
    ∃ a b d0, a < b ∧ b ≤ 2 ∧ v = 3 - a - b ∧ d0 ∈ y.view.orbitReps2d a b ∧ Orb2 y.dset a b d0 d ∧
      vkey y (tD y v d hv hd) = (a, b, d0) := by
  obtain ⟨hi2, hiv⟩ := kplus_facts y hv d
  have hkk := kplus_kplus y hv d
  obtain ⟨d0, hd0, ho0, hkey0⟩ := keyOf_exists h hdim hi2 (show kplus y (kplus y v d) d ≤ 2 by omega) hd
  refine ⟨_, _, d0, ?_, ?_, ?_, hd0, ho0, hkey0⟩ <;> omega

theorem sameCycle_of_vkey {x x' : MapDart y} (e : vkey y x = vkey y x') :
    (sigmaM h hdim hw).SameCycle x x' := by
  obtain ⟨v, d, hv, hd, hs⟩ := sameCycle_tD h hdim hw x
  obtain ⟨v', d', hv', hd', hs'⟩ := sameCycle_tD h hdim hw x'
  have e' : vkey y (tD y v d hv hd) = vkey y (tD y v' d' hv' hd') := by
    rw [← vkey_sameCycle h hdim hw hs, ← vkey_sameCycle h hdim hw hs', e]
  obtain ⟨a, b, d0, hab, hb, hvab, hd0, ho0, hk⟩ := vkey_tD h hdim hv hd
  obtain ⟨a', b', d0', hab', hb', hvab', hd0', ho0', hk'⟩ := vkey_tD h hdim hv' hd'
  rw [hk, hk'] at e'
  obtain ⟨rfl, rfl, rfl⟩ : a = a' ∧ b = b' ∧ d0 = d0' := by
    simp only [Prod.mk.injEq] at e'; exact e'
  have hvv : v = v' := by omega
  subst hvv
  have ha : a ≤ y.dim := by omega
  have hbd : b ≤ y.dim := by omega
  have ok := orbitReps2d_ok h.set ha hbd
  have hdd' : Orb2 y.dset a b d d' := (Orb2.symm h.set ha hbd (ok.range d0 hd0) ho0).trans ho0'
  obtain ⟨_, hmid⟩ := sameCycle_orb h hdim hw (show a ≤ 2 by omega) hb (by omega) hvab hd hdd'
  exact hs.trans (hmid.trans hs'.symm)

/-- the darts of one vertex contribute one cycle -/
theorem fibre_sum (c : Nat × Nat × Nat) (hc : c ∈ Finset.univ.image (vkey y)) :
    ∑ x ∈ Finset.univ.filter (fun x => vkey y x = c),
      1 / (Function.minimalPeriod (sigmaM h hdim hw) x : ℚ) = 1 := by
  obtain ⟨x0, _, hx0⟩ := Finset.mem_image.1 hc
  apply PermSign.single_cycle_sum (sigmaM h hdim hw) _ x0
  · intro k
    rw [Finset.mem_filter]
    refine ⟨Finset.mem_univ _, ?_⟩
    rw [Equiv.Perm.iterate_eq_pow, vkey_pow, hx0]
  · intro x hx
    rw [Finset.mem_filter] at hx
    obtain ⟨n, hn⟩ := (sameCycle_of_vkey h hdim hw (hx0.trans hx.2.symm)).exists_nat_pow_eq
    exact ⟨n, by rw [Equiv.Perm.iterate_eq_pow]; exact hn⟩

/-- the keys of all 2-orbits -/
def keysOf (y : DSymData) (a b : Nat) : List (Nat × Nat × Nat) :=
  (y.view.orbitReps2d a b).map fun d => (a, b, d)

def allKeys (y : DSymData) : List (Nat × Nat × Nat) := keysOf y 0 1 ++ (keysOf y 0 2 ++ keysOf y 1 2)

omit h hdim hw in
theorem allKeys_length : (allKeys y).length = (typesOf y).length := by
  unfold allKeys keysOf typesOf
  simp only [List.length_append, List.length_map]

include h hdim in
theorem allKeys_nodup : (allKeys y).Nodup := by
  have nd : ∀ a b, a ≤ 2 → b ≤ 2 → (keysOf y a b).Nodup := by
    intro a b ha hb
    unfold keysOf
    have ok := orbitReps2d_ok h.set (i := a) (j := b) (by omega) (by omega)
    have hnodup : (y.view.orbitReps2d a b).Nodup :=
      ok.distinct.imp (fun {x z} hab he => hab (by subst he; exact Orb2.refl _))
    exact hnodup.map (fun x z hxz => by simpa using hxz)
  unfold allKeys
  rw [List.nodup_append, List.nodup_append]
  refine ⟨nd 0 1 (by omega) (by omega), ⟨nd 0 2 (by omega) (by omega), nd 1 2 (by omega) (by omega), ?_⟩, ?_⟩
  · intro c hc c' hc' heq
    unfold keysOf at hc hc'
    obtain ⟨_, _, rfl⟩ := List.mem_map.1 hc
    obtain ⟨_, _, rfl⟩ := List.mem_map.1 hc'
    simp at heq
  · intro c hc c' hc' heq
    unfold keysOf at hc hc'
    obtain ⟨_, _, rfl⟩ := List.mem_map.1 hc
    rcases List.mem_append.1 hc' with hc' | hc'
    · obtain ⟨_, _, rfl⟩ := List.mem_map.1 hc'
      simp at heq
    · obtain ⟨_, _, rfl⟩ := List.mem_map.1 hc'
      simp at heq

omit h hdim hw in
theorem mem_allKeys {c : Nat × Nat × Nat} :
    c ∈ allKeys y ↔ c.1 < c.2.1 ∧ c.2.1 ≤ 2 ∧ c.2.2 ∈ y.view.orbitReps2d c.1 c.2.1 := by
  obtain ⟨a, b, d⟩ := c
  unfold allKeys keysOf
  simp only [List.mem_append, List.mem_map, Prod.mk.injEq]
  constructor
  · rintro (⟨d', hd', rfl, rfl, rfl⟩ | ⟨d', hd', rfl, rfl, rfl⟩ | ⟨d', hd', rfl, rfl, rfl⟩)
    · exact ⟨by omega, by omega, hd'⟩
    · exact ⟨by omega, by omega, hd'⟩
    · exact ⟨by omega, by omega, hd'⟩
  · rintro ⟨hab, hb, hd⟩
    have : (a = 0 ∧ b = 1) ∨ (a = 0 ∧ b = 2) ∨ (a = 1 ∧ b = 2) := by omega
    rcases this with ⟨rfl, rfl⟩ | ⟨rfl, rfl⟩ | ⟨rfl, rfl⟩
    · exact Or.inl ⟨d, hd, rfl, rfl, rfl⟩
    · exact Or.inr (Or.inl ⟨d, hd, rfl, rfl, rfl⟩)
    · exact Or.inr (Or.inr ⟨d, hd, rfl, rfl, rfl⟩)

include h hdim hw in
theorem image_vkey : Finset.univ.image (vkey y) = (allKeys y).toFinset := by
  ext c
  rw [Finset.mem_image, List.mem_toFinset, mem_allKeys]
  constructor
  · rintro ⟨x, _, rfl⟩
    obtain ⟨v, d, hv, hd, hs⟩ := sameCycle_tD h hdim hw x
    obtain ⟨a, b, d0, hab, hb, hvab, hd0, ho0, hk⟩ := vkey_tD h hdim hv hd
    rw [vkey_sameCycle h hdim hw hs, hk]
    exact ⟨hab, hb, hd0⟩
  · obtain ⟨a, b, d0⟩ := c
    rintro ⟨hab, hb, hd0⟩
    simp only at hab hb hd0
    have ha' : a ≤ y.dim := by omega
    have hb' : b ≤ y.dim := by omega
    have ok := orbitReps2d_ok h.set ha' hb'
    have hd := ok.range d0 hd0
    refine ⟨tD y (3 - a - b) d0 (by omega) hd, Finset.mem_univ _, ?_⟩
    obtain ⟨a', b', d0', hab', hb2', hvab', hd0', ho0', hk'⟩ := vkey_tD h hdim (show 3 - a - b ≤ 2 by omega) hd
    have hab_eq : a' = a ∧ b' = b := by omega
    obtain ⟨rfl, rfl⟩ := hab_eq
    rw [hk']
    have : d0' = d0 := by
      by_contra hne
      have hp := ok.distinct
      have hnodupP : (y.view.orbitReps2d a' b').Pairwise
          (fun u w => ¬ Orb2 y.dset a' b' u w ∧ ¬ Orb2 y.dset a' b' w u) :=
        hp.imp_of_mem (fun {u w} hu hw huw =>
          ⟨huw, fun hwu => huw (Orb2.symm h.set ha' hb' (ok.range w hw) hwu)⟩)
      have : Std.Symm (fun u w => ¬ Orb2 y.dset a' b' u w ∧ ¬ Orb2 y.dset a' b' w u) :=
        ⟨fun _ _ hh => ⟨hh.2, hh.1⟩⟩
      exact (hnodupP.forall hd0' hd0 hne).1 ho0'
    rw [this]

/-- **the vertices of the map are the 2-orbits** -/
theorem zQ_sigma : PermSign.zQ (sigmaM h hdim hw) = ((typesOf y).length : ℚ) := by
  rw [PermSign.zQ_fibres (sigmaM h hdim hw) (vkey y) (fibre_sum h hdim hw), image_vkey h hdim hw,
    List.toFinset_card_of_nodup (allKeys_nodup h hdim), allKeys_length]

end

end DSymVerif.D2

namespace DSymVerif.PermSign
open Equiv Equiv.Perm

variable {β : Type} [Fintype β] [DecidableEq β]

theorem exists_k (π : Perm β) : ∃ k : Nat, (k : ℚ) = (Fintype.card β : ℚ) - zQ π := by
  have hcard : Multiset.card π.cycleType = π.cycleFactorsFinset.card := by
    rw [cycleType_def]; simp
  have hle : π.cycleFactorsFinset.card ≤ π.support.card := by
    have h2 : ∀ n ∈ π.cycleType, 1 ≤ n := fun n hn => le_trans one_le_two (two_le_of_mem_cycleType hn)
    calc π.cycleFactorsFinset.card = Multiset.card π.cycleType := hcard.symm
      _ ≤ π.cycleType.sum := by
        have := Multiset.card_nsmul_le_sum h2
        simpa using this
      _ = π.support.card := π.sum_cycleType
  refine ⟨π.support.card - π.cycleFactorsFinset.card, ?_⟩
  rw [zQ_eq, Nat.cast_sub hle]; ring

/-- the parity identity of an oriented map in natural numbers: darts + faces + edges + vertices
    is even -/
theorem map_parity_nat (φ α : Perm β) (N nφ nα nσ : Nat) (hN : Fintype.card β = N)
    (hφ : zQ φ = (nφ : ℚ)) (hα : zQ α = (nα : ℚ)) (hσ : zQ (φ * α) = (nσ : ℚ)) :
    Even (N + nφ + nα + nσ) := by
  obtain ⟨kφ, h1⟩ := exists_k φ
  obtain ⟨kα, h2⟩ := exists_k α
  obtain ⟨kσ, h3⟩ := exists_k (φ * α)
  obtain ⟨m, hm⟩ := map_parity φ α kφ kα kσ h1 h2 h3
  rw [hN, hφ] at h1
  rw [hN, hα] at h2
  rw [hN, hσ] at h3
  have e1 : kφ + nφ = N := by
    have : (kφ : ℚ) + (nφ : ℚ) = (N : ℚ) := by linarith
    exact_mod_cast this
  have e2 : kα + nα = N := by
    have : (kα : ℚ) + (nα : ℚ) = (N : ℚ) := by linarith
    exact_mod_cast this
  have e3 : kσ + nσ = N := by
    have : (kσ : ℚ) + (nσ : ℚ) = (N : ℚ) := by linarith
    exact_mod_cast this
  exact ⟨2 * N - m, by omega⟩

end DSymVerif.PermSign

namespace DSymVerif.D2
open DSymVerif.DS

/-- **M2: the capped surface of a weakly oriented symbol has an even Euler characteristic** —
    `χ_top + #boundary components` is even (triangles and caps are the faces of an oriented map) -/
theorem chi_plus_boundaries_even {y : DSymData} (h : ValidSym y) (hdim : y.dim = 2)
    (hw : y.view.isWeaklyOriented = true) (rep : Rep) {bnds : List (List Nat)}
    (hb : traceBoundary ⟨y, rep⟩ = .ok bnds) :
    Even (eulerCharacteristic ⟨y, rep⟩ + (bnds.length : Int)) := by
  obtain ⟨bnds', starts, hb', T⟩ := traceRecord_exists h hdim rep
  rw [hb] at hb'
  cases hb'
  have hcard : Fintype.card (MapDart y) = 3 * y.size + chainCount (typesOf y) := by
    rw [card_mapDart, card_PS, loops_eq_chains h hdim]
  have hedge := edge_count h hdim
  rw [Nat.add_assoc, Nat.add_assoc, ← Nat.add_assoc (loopsN y 0), loops_eq_chains h hdim] at hedge
  set E := (3 * y.size + chainCount (typesOf y)) / 2 with hE
  have hzφ : PermSign.zQ (phiM h hdim hw) = ((y.size + bnds.length : Nat) : ℚ) := by
    rw [zQ_phiM h hdim hw T]; push_cast; ring
  have hzα : PermSign.zQ (alphaP h hdim) = (E : ℚ) := by
    rw [zQ_alpha, hcard]
    have : ((3 * y.size + chainCount (typesOf y) : Nat) : ℚ) = 2 * (E : ℚ) := by
      rw [← hedge]; push_cast; ring
    rw [this]; ring
  have hzσ : PermSign.zQ (phiM h hdim hw * alphaP h hdim) = ((typesOf y).length : ℚ) :=
    zQ_sigma h hdim hw
  obtain ⟨m, hm⟩ := PermSign.map_parity_nat _ _ _ _ _ _ hcard hzφ hzα hzσ
  have hlen : looplessCount (typesOf y) + chainCount (typesOf y) = (typesOf y).length := by
    generalize typesOf y = ts
    induction ts with
    | nil => rfl
    | cons t ts ih =>
      unfold looplessCount chainCount at ih ⊢
      cases ht : t.2 <;> simp [ht] <;> omega
  have hχ := euler_value rep h hdim
  refine ⟨(m : Int) - 2 * (E : Int), ?_⟩
  omega

/-- **the parity monitor is a theorem**: it holds on every good 2D symbol on which
    `orbifold_symbol` answers -/
theorem parityMonitor_holds {s : Sym} (g : Good2d s) {o : OrbSym} (hos : orbifoldSymbol s = .ok o) :
    parityMonitor s = true := by
  cases hor : o.orientable with
  | false => exact parity_of_nonorientable g hos hor
  | true =>
    obtain ⟨y, rep⟩ := s
    have hval : ValidSym y := g.valid
    have hdim : y.dim = 2 := g.dim
    obtain ⟨bnds, htb, _⟩ := traceBoundary_corners hval hdim rep
    have hos' := hos
    rw [orbifoldSymbol_unfold' g htb] at hos'
    split at hos'
    · cases hos'
    · have ho := (Outcome.ok.inj hos').symm
      have hw : y.view.isWeaklyOriented = true := by
        rw [ho] at hor; exact hor
      obtain ⟨m, hm⟩ := chi_plus_boundaries_even hval hdim hw rep htb
      unfold parityMonitor
      rw [htb, hos]
      simp only [Bool.or_eq_true, Bool.not_eq_eq_eq_not, Bool.not_true, beq_iff_eq]
      right
      omega

end DSymVerif.D2
