/-
Helper lemmas for property C08, part 6: `curvature_chamber_sum` — on a valid complete 2D symbol
the model's curvature is Σ_chambers (1/m01 + 1/m12 − 1/2).
-/
import Mathlib.Algebra.BigOperators.Group.Finset.Basic
import Mathlib.Algebra.BigOperators.Ring.Finset
import Mathlib.Order.Interval.Finset.Nat
import DSymVerif.Proofs.Delaney2dReps
import DSymVerif.Proofs.Delaney2dGeom

namespace DSymVerif.D2
open DSymVerif.DS

/-- `r`, `v` of the symbol as rational numbers (0 where the query gives no number) -/
def rN (y : DSymData) (i j d : Nat) : Nat := match y.rPartial i j d with | .ok (some k) => k | _ => 0
def vN (y : DSymData) (i j d : Nat) : Nat := match y.vPartial i j d with | .ok (some k) => k | _ => 0
/-- `m_ij(d) = r·v` -/
def mQ (y : DSymData) (i j d : Nat) : ℚ := (rN y i j d : ℚ) * (vN y i j d : ℚ)

section
variable {y : DSymData} (h : ValidSym y) {i j : Nat} (hi : i ≤ y.dim) (hj : j ≤ y.dim)
include h hi hj

theorem rv_const_orb {d x : Nat} (hd : 1 ≤ d ∧ d ≤ y.size) (ho : Orb2 y.dset i j d x) :
    y.rPartial i j x = y.rPartial i j d ∧ y.vPartial i j x = y.vPartial i j d := by
  induction ho with
  | refl => exact ⟨rfl, rfl⟩
  | @stepI e ho' ih =>
    have he := Orb2.range h.set hi hj hd ho'
    have c := h.const_on_orbit hi hj he.1 he.2
    exact ⟨c.1.1.trans ih.1, c.2.1.1.trans ih.2⟩
  | @stepJ e ho' ih =>
    have he := Orb2.range h.set hi hj hd ho'
    have c := h.const_on_orbit hi hj he.1 he.2
    exact ⟨c.1.2.trans ih.1, c.2.1.2.trans ih.2⟩

theorem rN_least {d : Nat} (hd : 1 ≤ d ∧ d ≤ y.size) : IsLeastPeriod y.dset i j d (rN y i j d) := by
  obtain ⟨k, _, hk, hr⟩ := r_generic_least h.set hi hj hd
  have : y.rPartial i j d = .ok (some k) := by
    rw [h.rPartial_eq_generic hi hj hd.1 hd.2, y.view_eq, hr]
  unfold rN
  rw [this]
  exact hk

/-- the contribution of one (i,j)-orbit: Σ_{x in orbit} 1/m(x) = (2 or 1)/v -/
theorem orbit_sum {d : Nat} (hd : 1 ≤ d ∧ d ≤ y.size) :
    ∑ x ∈ (y.view.orbit [i, j] d).toFinset, 1 / mQ y i j x =
      (if ((y.view.orbit [i, j] d).all fun e => y.op i e != some e && y.op j e != some e) = true
        then 2 else 1) / (vN y i j d : ℚ) := by
  have hconst : ∀ x ∈ (y.view.orbit [i, j] d).toFinset, 1 / mQ y i j x = 1 / mQ y i j d := by
    intro x hx
    rw [List.mem_toFinset, mem_orbit_iff h.set hi hj hd] at hx
    obtain ⟨a, b⟩ := rv_const_orb h hi hj hd hx
    unfold mQ rN vN
    rw [a, b]
  rw [Finset.sum_congr rfl hconst, Finset.sum_const, List.toFinset_card_of_nodup (orbit_nodup h.set i j d),
    orbit_length h.set hi hj hd (rN_least h hi hj hd), nsmul_eq_mul]
  have hr : (rN y i j d : ℚ) ≠ 0 := by
    have := (rN_least h hi hj hd).1
    exact_mod_cast (by omega : rN y i j d ≠ 0)
  unfold mQ
  split
  · push_cast
    by_cases hv : (vN y i j d : ℚ) = 0
    · simp [hv]
    · field_simp
  · by_cases hv : (vN y i j d : ℚ) = 0
    · simp [hv]
    · field_simp

/-- **one index pair**: Σ over the orbit representatives of (2 or 1)/v = Σ over all chambers of 1/m -/
theorem pair_sum :
    ((y.view.orbitReps2d i j).map fun d =>
      (if ((y.view.orbit [i, j] d).all fun e => y.op i e != some e && y.op j e != some e) = true
        then (2 : ℚ) else 1) / (vN y i j d : ℚ)).sum =
    ∑ x ∈ Finset.Icc 1 y.size, 1 / mQ y i j x := by
  have ok := orbitReps2d_ok h.set hi hj
  have hnodup : (y.view.orbitReps2d i j).Nodup :=
    ok.distinct.imp (fun {a b} hab he => hab (by subst he; exact Orb2.refl _))
  have hdist : ∀ a ∈ y.view.orbitReps2d i j, ∀ b ∈ y.view.orbitReps2d i j, a ≠ b →
      ¬ Orb2 y.dset i j a b := by
    have hp : (y.view.orbitReps2d i j).Pairwise (fun a b => ¬ Orb2 y.dset i j a b ∧ ¬ Orb2 y.dset i j b a) :=
      ok.distinct.imp_of_mem (fun {a b} ha hb hab =>
        ⟨hab, fun hba => hab (Orb2.symm h.set hi hj (ok.range b hb) hba)⟩)
    have : Std.Symm (fun a b => ¬ Orb2 y.dset i j a b ∧ ¬ Orb2 y.dset i j b a) := ⟨fun _ _ hh => ⟨hh.2, hh.1⟩⟩
    intro a ha b hb hne
    exact (hp.forall ha hb hne).1
  -- the chambers are the disjoint union of the orbits of the representatives
  have hunion : Finset.Icc 1 y.size =
      (y.view.orbitReps2d i j).toFinset.biUnion fun d => (y.view.orbit [i, j] d).toFinset := by
    ext x
    simp only [Finset.mem_Icc, Finset.mem_biUnion, List.mem_toFinset]
    constructor
    · rintro ⟨h1, h2⟩
      obtain ⟨d, hd, ho⟩ := ok.cover x h1 h2
      exact ⟨d, hd, (mem_orbit_iff h.set hi hj (ok.range d hd)).2 ho⟩
    · rintro ⟨d, hd, hx⟩
      exact Orb2.range h.set hi hj (ok.range d hd) ((mem_orbit_iff h.set hi hj (ok.range d hd)).1 hx)
  have hdisj : ((y.view.orbitReps2d i j).toFinset : Set Nat).PairwiseDisjoint
      fun d => (y.view.orbit [i, j] d).toFinset := by
    intro a ha b hb hne
    simp only [Finset.mem_coe, List.mem_toFinset] at ha hb
    rw [Function.onFun, Finset.disjoint_left]
    intro x hxa hxb
    rw [List.mem_toFinset, mem_orbit_iff h.set hi hj (ok.range a ha)] at hxa
    rw [List.mem_toFinset, mem_orbit_iff h.set hi hj (ok.range b hb)] at hxb
    exact hdist a ha b hb hne (hxa.trans (Orb2.symm h.set hi hj (ok.range b hb) hxb))
  rw [hunion, Finset.sum_biUnion hdisj, ← List.sum_toFinset _ hnodup]
  apply Finset.sum_congr rfl
  intro d hd
  rw [List.mem_toFinset] at hd
  exact (orbit_sum h hi hj (ok.range d hd)).symm

end

/-! ### assembling the curvature -/

theorem mapO_ok {α β : Type} (f : α → Outcome β) (g : α → β) (l : List α)
    (hfg : ∀ a ∈ l, f a = .ok (g a)) : mapO f l = .ok (l.map g) := by
  induction l with
  | nil => rfl
  | cons a l ih =>
    simp only [mapO, hfg a (by simp), ih (fun b hb => hfg b (by simp [hb])), List.map_cons]

theorem orbitKeys_dim2 (s : Sym) (hdim : s.dim = 2) :
    orbitKeys s = (s.view.orbitReps2d 0 1).map (fun d => (0, 1, d)) ++
      ((s.view.orbitReps2d 0 2).map (fun d => (0, 2, d)) ++
       (s.view.orbitReps2d 1 2).map (fun d => (1, 2, d))) := by
  unfold orbitKeys
  rw [hdim]
  simp [List.range_succ, List.flatMap_cons]

theorem far_m {y : DSymData} (hdim : y.dim = 2) {d : Nat} (hd : 1 ≤ d ∧ d ≤ y.size) : mQ y 0 2 d = 2 := by
  have hr := y.rPartial_far' (i := 0) (j := 2) (Or.inl (by omega)) (by omega) (by omega) hd.1 hd.2
  have hv := y.vPartial_far' (i := 0) (j := 2) (Or.inl (by omega)) (by omega) (by omega) hd.1 hd.2
  unfold mQ rN vN
  rw [hr, hv]
  by_cases he : y.op 0 d = y.op 2 d
  · simp only [if_pos he]; norm_num
  · simp only [if_neg he]; norm_num

theorem far_v_ne {y : DSymData} (hdim : y.dim = 2) {d : Nat} (hd : 1 ≤ d ∧ d ≤ y.size) : vN y 0 2 d ≠ 0 := by
  have hv := y.vPartial_far' (i := 0) (j := 2) (Or.inl (by omega)) (by omega) (by omega) hd.1 hd.2
  unfold vN
  rw [hv]
  by_cases he : y.op 0 d = y.op 2 d
  · simp only [if_pos he]; omega
  · simp only [if_neg he]; omega

theorem adj_v_ne {y : DSymData} (h : ValidSym y) (hc : y.isCompletePartial = true) {i d : Nat}
    (hi : i < y.dim) (hd : 1 ≤ d ∧ d ≤ y.size) : vN y i (i + 1) d ≠ 0 := by
  have hv := h.toValidTables.vPartial_adj hi hd.1 hd.2
  unfold vN
  rw [hv]
  simp only
  have hlt : y.ixAt i d < y.orbitVs.size := by
    rw [h.vs_size]; exact h.toValidTables.ixAt_lt hi hd.1 hd.2
  unfold DSymData.isCompletePartial at hc
  simp only [Bool.and_eq_true, Array.all_eq_true, decide_eq_true_eq] at hc
  have := hc.2 (y.ixAt i d) hlt
  rw [Array.getD_eq_getD_getElem?, Array.getElem?_eq_getElem hlt]
  simp only [Option.getD_some]
  omega

theorem unwrapV_v {y : DSymData} (h : ValidSym y) (rep : Rep) {i j d : Nat} (hi : i ≤ y.dim) (hj : j ≤ y.dim)
    (hd : 1 ≤ d ∧ d ≤ y.size) : unwrapV (Sym.v ⟨y, rep⟩ i j d) = .ok (vN y i j d) := by
  have e : Sym.v ⟨y, rep⟩ i j d = y.vPartial i j d := by cases rep <;> rfl
  obtain ⟨k, hk⟩ := h.vPartial_some hi hj hd.1 hd.2
  rw [e]
  unfold vN
  rw [hk]
  rfl

/-- **`curvature_chamber_sum`**: on a valid complete two-dimensional symbol (either representation)
    the model's `curvature` is defined and its value is Σ_chambers (1/m01 + 1/m12 − 1/2). -/
theorem curvature_chamber_sum' (s : Sym) (h : ValidSym s.data) (hdim : s.dim = 2)
    (hc : s.data.isCompletePartial = true) :
    ∃ k, curvature s = .ok k ∧
      k.toRat = ∑ d ∈ Finset.Icc 1 s.size, (1 / mQ s.data 0 1 d + 1 / mQ s.data 1 2 d - 1 / 2) := by
  obtain ⟨y, rep⟩ := s
  have hdim' : y.dim = 2 := hdim
  simp only at h hc
  have ok01 := orbitReps2d_ok h.set (i := 0) (j := 1) (by omega) (by omega)
  have ok02 := orbitReps2d_ok h.set (i := 0) (j := 2) (by omega) (by omega)
  have ok12 := orbitReps2d_ok h.set (i := 1) (j := 2) (by omega) (by omega)
  let g : Nat × Nat × Nat → Nat × Bool := fun k => (vN y k.1 k.2.1 k.2.2, orbitLoopless ⟨y, rep⟩ k.1 k.2.1 k.2.2)
  have hkeys := orbitKeys_dim2 ⟨y, rep⟩ hdim
  have hview : (⟨y, rep⟩ : Sym).view = y.view := rfl
  rw [hview] at hkeys
  have hmem : ∀ k ∈ orbitKeys ⟨y, rep⟩, k.1 ≤ y.dim ∧ k.2.1 ≤ y.dim ∧ (1 ≤ k.2.2 ∧ k.2.2 ≤ y.size) ∧
      vN y k.1 k.2.1 k.2.2 ≠ 0 := by
    intro k hk
    rw [hkeys] at hk
    simp only [List.mem_append, List.mem_map] at hk
    rcases hk with ⟨d, hd, rfl⟩ | ⟨d, hd, rfl⟩ | ⟨d, hd, rfl⟩
    · exact ⟨by simp, by simp only; omega, ok01.range d hd, adj_v_ne h hc (i := 0) (by omega) (ok01.range d hd)⟩
    · exact ⟨by simp, by simp only; omega, ok02.range d hd, far_v_ne hdim' (ok02.range d hd)⟩
    · exact ⟨by simp only; omega, by simp only; omega, ok12.range d hd, adj_v_ne h hc (i := 1) (by omega) (ok12.range d hd)⟩
  have htypes : orbitTypes2d ⟨y, rep⟩ = .ok ((orbitKeys ⟨y, rep⟩).map g) := by
    unfold orbitTypes2d
    apply mapO_ok
    intro k hk
    obtain ⟨a, b, c, _⟩ := hmem k hk
    rw [unwrapV_v h rep a b c]
  have hnz : ∀ t ∈ (orbitKeys ⟨y, rep⟩).map g, t.1 ≠ 0 := by
    intro t ht
    obtain ⟨k, hk, rfl⟩ := List.mem_map.1 ht
    exact (hmem k hk).2.2.2
  have hcomp : Sym.isComplete ⟨y, rep⟩ = true := by
    cases rep
    · exact hc
    · rfl
  refine ⟨Frac.ofRat (curvQ ((orbitKeys ⟨y, rep⟩).map g) y.size), ?_, ?_⟩
  · unfold curvature
    rw [if_neg (by simp [hdim]), if_neg (by simp [hcomp]), htypes]
    simp only
    rw [if_neg]
    · rw [sumTypes_eq _ hnz, Frac.ofInt_eq_ofRat, Frac.sub_ofRat]
      simp [curvQ, Sym.size]
    · simp only [List.any_eq_true, beq_iff_eq, not_exists, not_and]
      intro t ht
      exact hnz t ht
  · rw [Frac.toRat_ofRat]
    unfold curvQ
    have hs01 := pair_sum h (i := 0) (j := 1) (by omega) (by omega)
    have hs02 := pair_sum h (i := 0) (j := 2) (by omega) (by omega)
    have hs12 := pair_sum h (i := 1) (j := 2) (by omega) (by omega)
    have h02 : ∑ x ∈ Finset.Icc 1 y.size, 1 / mQ y 0 2 x = (y.size : ℚ) / 2 := by
      have : ∀ x ∈ Finset.Icc 1 y.size, 1 / mQ y 0 2 x = 1 / 2 := by
        intro x hx
        rw [Finset.mem_Icc] at hx
        rw [far_m hdim' hx]
      rw [Finset.sum_congr rfl this, Finset.sum_const, Nat.card_Icc, nsmul_eq_mul]
      simp only [Nat.add_sub_cancel]
      ring
    rw [hkeys, List.map_append, List.map_append, List.map_append, List.map_append, List.sum_append,
      List.sum_append]
    simp only [List.map_map]
    have e : ∀ (i j : Nat), (typeVal ∘ g ∘ fun d => (i, j, d)) = fun d =>
        (if ((y.view.orbit [i, j] d).all fun e => y.op i e != some e && y.op j e != some e) = true
          then (2 : ℚ) else 1) / (vN y i j d : ℚ) := by
      intro i j
      funext d
      simp only [Function.comp, typeVal, g, orbitLoopless]
      rfl
    rw [e 0 1, e 0 2, e 1 2, hs01, hs02, hs12, h02]
    rw [Finset.sum_sub_distrib, Finset.sum_add_distrib, Finset.sum_const, Nat.card_Icc, nsmul_eq_mul]
    simp only [Nat.add_sub_cancel, Sym.size]
    show _ = _ - ((y.size : ℚ)) * (1 / 2)
    have : ((⟨y, rep⟩ : Sym).data.size : ℚ) = (y.size : ℚ) := rfl
    ring

/-! ### corollaries: renumbering, dualisation, covers -/

/-- Σ_chambers (1/m01 + 1/m12 − 1/2) -/
def chamberSum (y : DSymData) : ℚ :=
  ∑ d ∈ Finset.Icc 1 y.size, (1 / mQ y 0 1 d + 1 / mQ y 1 2 d - 1 / 2)

/-- a valid complete two-dimensional symbol, in either representation -/
structure Good2d (s : Sym) : Prop where
  valid : ValidSym s.data
  dim : s.dim = 2
  complete : s.data.isCompletePartial = true

theorem curvature_eq_chamberSum {s : Sym} (g : Good2d s) :
    curvature s = .ok (Frac.ofRat (chamberSum s.data)) := by
  obtain ⟨k, hk, hv⟩ := curvature_chamber_sum' s g.valid g.dim g.complete
  rw [hk, curvature_normal hk, hv]
  rfl

/-- equal chamber sums give the same `curvature` answer (the same lowest-terms fraction) -/
theorem curvature_congr {s s' : Sym} (g : Good2d s) (g' : Good2d s')
    (h : chamberSum s'.data = chamberSum s.data) : curvature s' = curvature s := by
  rw [curvature_eq_chamberSum g, curvature_eq_chamberSum g', h]

theorem chamberSum_renumber {y y' : DSymData} (p : Nat → Nat)
    (hmaps : ∀ d, 1 ≤ d → d ≤ y.size → 1 ≤ p d ∧ p d ≤ y'.size)
    (hinj : ∀ d e, 1 ≤ d → d ≤ y.size → 1 ≤ e → e ≤ y.size → p d = p e → d = e)
    (hsurj : ∀ e, 1 ≤ e → e ≤ y'.size → ∃ d, 1 ≤ d ∧ d ≤ y.size ∧ p d = e)
    (hm01 : ∀ d, 1 ≤ d → d ≤ y.size → mQ y' 0 1 (p d) = mQ y 0 1 d)
    (hm12 : ∀ d, 1 ≤ d → d ≤ y.size → mQ y' 1 2 (p d) = mQ y 1 2 d) :
    chamberSum y' = chamberSum y := by
  unfold chamberSum
  symm
  apply Finset.sum_nbij p
  · intro d hd
    rw [Finset.mem_Icc] at hd ⊢
    exact hmaps d hd.1 hd.2
  · intro d hd e he hpe
    simp only [Finset.coe_Icc, Set.mem_Icc] at hd he
    exact hinj d e hd.1 hd.2 he.1 he.2 hpe
  · intro e he
    simp only [Finset.coe_Icc, Set.mem_Icc] at he
    obtain ⟨d, h1, h2, rfl⟩ := hsurj e he.1 he.2
    exact ⟨d, by simp only [Finset.coe_Icc, Set.mem_Icc]; exact ⟨h1, h2⟩, rfl⟩
  · intro d hd
    rw [Finset.mem_Icc] at hd
    rw [hm01 d hd.1 hd.2, hm12 d hd.1 hd.2]

theorem chamberSum_dual {y y' : DSymData} (hsize : y'.size = y.size)
    (hm01 : ∀ d, 1 ≤ d → d ≤ y.size → mQ y' 0 1 d = mQ y 1 2 d)
    (hm12 : ∀ d, 1 ≤ d → d ≤ y.size → mQ y' 1 2 d = mQ y 0 1 d) :
    chamberSum y' = chamberSum y := by
  unfold chamberSum
  rw [hsize]
  apply Finset.sum_congr rfl
  intro d hd
  rw [Finset.mem_Icc] at hd
  rw [hm01 d hd.1 hd.2, hm12 d hd.1 hd.2]
  ring

theorem chamberSum_cover {y y' : DSymData} (k : Nat) (π : Nat → Nat)
    (hmaps : ∀ e, 1 ≤ e → e ≤ y'.size → 1 ≤ π e ∧ π e ≤ y.size)
    (hfib : ∀ d, 1 ≤ d → d ≤ y.size → ((Finset.Icc 1 y'.size).filter fun e => π e = d).card = k)
    (hm01 : ∀ e, 1 ≤ e → e ≤ y'.size → mQ y' 0 1 e = mQ y 0 1 (π e))
    (hm12 : ∀ e, 1 ≤ e → e ≤ y'.size → mQ y' 1 2 e = mQ y 1 2 (π e)) :
    chamberSum y' = (k : ℚ) * chamberSum y := by
  unfold chamberSum
  have hmap : ∀ e ∈ Finset.Icc 1 y'.size, π e ∈ Finset.Icc 1 y.size := by
    intro e he
    rw [Finset.mem_Icc] at he ⊢
    exact hmaps e he.1 he.2
  have e1 : ∑ e ∈ Finset.Icc 1 y'.size, (1 / mQ y' 0 1 e + 1 / mQ y' 1 2 e - 1 / 2) =
      ∑ e ∈ Finset.Icc 1 y'.size, (fun d => 1 / mQ y 0 1 d + 1 / mQ y 1 2 d - 1 / 2) (π e) := by
    apply Finset.sum_congr rfl
    intro e he
    rw [Finset.mem_Icc] at he
    rw [hm01 e he.1 he.2, hm12 e he.1 he.2]
  rw [e1, ← Finset.sum_fiberwise_of_maps_to' hmap (fun d => 1 / mQ y 0 1 d + 1 / mQ y 1 2 d - 1 / 2),
    Finset.mul_sum]
  apply Finset.sum_congr rfl
  intro d hd
  rw [Finset.mem_Icc] at hd
  rw [Finset.sum_const, hfib d hd.1 hd.2, nsmul_eq_mul]

end DSymVerif.D2
