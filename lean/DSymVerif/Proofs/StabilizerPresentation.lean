/-
C13: the returned generators generate the full stabiliser (`genSubgroup_eq_stabOf`: Schreier's
lemma plus the edge-word invariant), every returned relator holds in the group
(`relators_hold`), and the presented group `⟨generators | relators⟩` maps onto the stabiliser
(`presentation_hom`).  Injectivity of that map (Reidemeister–Schreier) is not proved.
-/
import DSymVerif.Proofs.StabilizerSchreier

set_option linter.unusedSectionVars false
set_option linter.unusedVariables false

namespace DSymVerif.StabP
open DSymVerif DSymVerif.SpecC11 DSymVerif.CosetP DSymVerif.FWP DSymVerif.Cosets
open DSymVerif.Stab hiding traceWord
open DSymVerif.SpecC10 (isReduced)

section Final
variable {t : Tab} {n : Nat} {rels : List (List Int)}

/-- every element of the free group is spelled by a word over the letters -/
theorem exists_word_free (n : Nat) (y : FreeGroup (Fin n)) :
    ∃ v : List Int, (∀ g ∈ v, g ∈ letters n) ∧ wordElt n v = y := by
  induction y using FreeGroup.induction_on with
  | C1 => exact ⟨[], by simp, rfl⟩
  | of i =>
    refine ⟨[((i.val + 1 : Nat) : Int)], ?_, ?_⟩
    · intro g hg
      simp only [List.mem_singleton] at hg
      subst hg
      rw [mem_letters]; left; omega
    · have h1 : (1 : Int) ≤ ((i.val + 1 : Nat) : Int) ∧ ((i.val + 1 : Nat) : Int) ≤ n := by omega
      simp only [wordElt_cons, wordElt_nil, mul_one, letterElt, dif_pos h1]
      congr 1
  | inv_of i ih =>
    obtain ⟨v, hv, he⟩ := ih
    refine ⟨v.reverse.map (fun x => -x), ?_, ?_⟩
    · intro g hg
      simp only [List.mem_map, List.mem_reverse] at hg
      obtain ⟨x, hx, rfl⟩ := hg
      exact neg_mem_letters (hv x hx)
    · rw [wordElt_eq_liftDen, liftDen_invRaw, ← wordElt_eq_liftDen, he]
  | mul a b iha ihb =>
    obtain ⟨va, hva, hea⟩ := iha
    obtain ⟨vb, hvb, heb⟩ := ihb
    refine ⟨va ++ vb, ?_, by rw [wordElt_append, hea, heb]⟩
    intro g hg
    rcases List.mem_append.mp hg with h | h
    · exact hva g h
    · exact hvb g h

theorem exists_word (x : GP n rels) : ∃ v : List Int, (∀ g ∈ v, g ∈ letters n) ∧ mkG n rels v = x := by
  obtain ⟨y, rfl⟩ := QuotientGroup.mk_surjective x
  obtain ⟨v, hv, he⟩ := exists_word_free n y
  exact ⟨v, hv, by unfold mkG; rw [he]; rfl⟩

/-- the stabiliser of the row `base` in `⟨1..n | rels⟩` acting on the rows of a valid table -/
noncomputable def stabOf {subs : List (List Int)} (hv : Valid t n rels subs) (base : Nat) (hb : base < t.size) :
    Subgroup (GP n rels) :=
  (MulAction.stabilizer (Equiv.Perm (Fin t.size)) (⟨base, hb⟩ : Fin t.size)).comap (actionHom hv)

theorem mem_stabOf {subs : List (List Int)} (hv : Valid t n rels subs) {base : Nat} (hb : base < t.size)
    (x : GP n rels) : x ∈ stabOf hv base hb ↔ actionHom hv x ⟨base, hb⟩ = ⟨base, hb⟩ := by
  unfold stabOf
  rw [Subgroup.mem_comap, MulAction.mem_stabilizer_iff]
  rfl

theorem mkG_mem_stabOf {subs : List (List Int)} (hv : Valid t n rels subs) {base : Nat} (hb : base < t.size)
    {v : List Int} (hl : ∀ g ∈ v, g ∈ letters n) :
    mkG n rels v ∈ stabOf hv base hb ↔ traceWord t n base v = some base := by
  rw [mem_stabOf]
  obtain ⟨d, hd⟩ := traceWord_total hv v base hb hl
  have hdl := traceWord_lt hb hd
  have hact := actionHom_trace hv v ⟨base, hb⟩ ⟨d, hdl⟩ hd
  constructor
  · intro h
    have : (⟨d, hdl⟩ : Fin t.size) = ⟨base, hb⟩ := by
      apply (actionHom hv (mkG n rels v)).injective
      rw [h]; exact hact
    rw [hd]; congr 1; exact congrArg Fin.val this
  · intro h
    rw [hd] at h
    injection h with h
    subst h
    exact hact

/-- ✔ the returned generators generate the full stabiliser of the base row -/
theorem genSubgroup_eq_stabOf (hcomp : complete t n = true) {subs : List (List Int)}
    (hv : Valid t n rels subs) {base : Nat} (hb : base < t.size) {gens srels : List (List Int)}
    (h : stabilizer base rels (Table.ofView n t) = .ok (gens, srels)) :
    genSubgroup n rels gens = stabOf hv base hb := by
  apply _root_.le_antisymm
  · unfold genSubgroup
    rw [Subgroup.closure_le]
    rintro x ⟨w, hw, rfl⟩
    have hfix := stabilizer_gens_fix hcomp hv.inv h w hw
    exact (mkG_mem_stabOf hv hb (trace_letters hfix)).mpr hfix
  · intro x hx
    obtain ⟨v, hl, rfl⟩ := exists_word (n := n) (rels := rels) x
    exact fixing_word_mem hcomp hv hb h ((mkG_mem_stabOf hv hb hl).mp hx)


/-! ### the returned relators hold -/

theorem liftDen_rotated_one {H : Type} [Group H] (f : ℕ → H) {a : List Int} (h1 : liftDen f a = 1) (i : Int) :
    liftDen f (FW.rotated a i) = 1 := by
  by_cases hn : a = []
  · subst hn; rw [rotated_nil]; exact h1
  · rw [rotated_of_ne_nil hn, liftDen_normalized, liftDen_append]
    have h2 : liftDen f (List.take ((i % (a.length : Int)).toNat) a) *
        liftDen f (List.drop ((i % (a.length : Int)).toNat) a) = 1 := by
      rw [← liftDen_append, List.take_append_drop]; exact h1
    exact mul_eq_one_comm.mp h2

theorem psi_relRep {gens : List (List Int)} {T : List Int} (hred : isReduced T = true)
    (h1 : psi n rels gens T = 1) : psi n rels gens (FW.relatorRepresentative T) = 1 := by
  by_cases hn : T = []
  · subst hn; rw [relRep_nil]; exact h1
  · have hm := relRep_mem hred hn
    simp only [rotInvList, List.mem_flatMap, List.mem_range, List.mem_cons, List.not_mem_nil, or_false] at hm
    obtain ⟨i, _, hr | hr⟩ := hm
    · rw [hr]; exact liftDen_rotated_one _ h1 _
    · rw [hr]; unfold psi; rw [liftDen_inverse, liftDen_rotated_one _ h1, inv_one]

theorem model_traceWord_isReduced (ct : Table) (e2w : EMap) : ∀ (w : List Int) (p : Nat) (res W : List Int),
    isReduced res = true → Stab.traceWord ct e2w p w res = .ok W → isReduced W = true
  | [], p, res, W, hr, h => by
    simp only [Stab.traceWord, Outcome.ok.injEq] at h; subst h; exact hr
  | g :: w, p, res, W, hr, h => by
    simp only [Stab.traceWord] at h
    cases hg : ct.get p g with
    | err => simp [hg] at h
    | panic => simp [hg] at h
    | ok o =>
      cases o with
      | none => simp [hg] at h
      | some q =>
        simp only [hg] at h
        exact model_traceWord_isReduced ct e2w w q _ W (mulAssign_isReduced _ _) h

theorem subrelFold_spec (hcomp : complete t n = true) {u : Nat → List Int} {gens : List (List Int)} {e2 : EMap}
    (he : EInv t n rels u gens e2) (hknown : ∀ c, c < t.size → ∀ g ∈ letters n, Known e2 c g)
    (hcl : ∀ r ∈ rels, ∀ c, c < t.size → traceWord t n c r = some c) :
    ∀ (ps : List (Nat × List Int)) (acc res : List (List Int)),
      (∀ p r, (p, r) ∈ ps → p < t.size ∧ r ∈ rels) → (∀ w ∈ acc, psi n rels gens w = 1) →
      subrelFold (Table.ofView n t) e2 ps acc = .ok res → ∀ w ∈ res, psi n rels gens w = 1
  | [], acc, res, _, hacc, h => by
    simp only [subrelFold, Outcome.ok.injEq] at h; subst h; exact hacc
  | (p, r) :: rest, acc, res, hps, hacc, h => by
    obtain ⟨hp, hr⟩ := hps p r (by simp)
    have hps' : ∀ p' r', (p', r') ∈ rest → p' < t.size ∧ r' ∈ rels := fun p' r' hm => hps p' r' (by simp [hm])
    have htr := hcl r hr p hp
    obtain ⟨T, hT, hpsi⟩ := traceWord_vol (rels := rels) (gens := gens) hcomp e2 r p p FW.empty htr
    simp only [subrelFold, hT] at h
    have hone : psi n rels gens T = 1 := by
      rw [hpsi, psi_empty, one_mul, vol_known he r p (onPath_all hknown r p), vol_sch n rels u r p p htr,
        mkG_rel n rels hr]
      simp
    have hred : isReduced T = true := model_traceWord_isReduced _ e2 r p FW.empty T (by rfl) hT
    have hrep := psi_relRep (rels := rels) (n := n) hred hone
    split at h
    · refine subrelFold_spec hcomp he hknown hcl rest _ res hps' ?_ h
      intro w hw
      rcases List.mem_append.mp hw with hw | hw
      · exact hacc w hw
      · simp only [List.mem_singleton] at hw; subst hw; exact hrep
    · exact subrelFold_spec hcomp he hknown hcl rest acc res hps' hacc h

theorem mem_insertSorted {w x : List Int} : ∀ {l : List (List Int)}, x ∈ FW.insertSorted w l → x = w ∨ x ∈ l
  | [], h => by simp [FW.insertSorted] at h; exact Or.inl h
  | v :: vs, h => by
    simp only [FW.insertSorted] at h
    split at h
    · rcases List.mem_cons.mp h with h | h
      · exact Or.inl h
      · exact Or.inr h
    · exact Or.inr h
    · rcases List.mem_cons.mp h with h | h
      · exact Or.inr (by simp [h])
      · rcases mem_insertSorted h with h | h
        · exact Or.inl h
        · exact Or.inr (List.mem_cons_of_mem _ h)

theorem mem_sortDescending {x : List Int} {ws : List (List Int)} (h : x ∈ sortDescending ws) : x ∈ ws := by
  unfold sortDescending at h
  rw [List.mem_reverse] at h
  have key : ∀ (ws acc : List (List Int)), x ∈ ws.foldl (fun acc w => FW.insertSorted w acc) acc →
      x ∈ acc ∨ x ∈ ws := by
    intro ws
    induction ws with
    | nil => intro acc h; exact Or.inl h
    | cons w ws ih =>
      intro acc h
      rcases ih _ h with h | h
      · rcases mem_insertSorted h with h | h
        · exact Or.inr (by simp [h])
        · exact Or.inl h
      · exact Or.inr (List.mem_cons_of_mem _ h)
  rcases key ws [] h with h | h
  · cases h
  · exact h

/-- ✔ every returned relator, read in the returned generators, is trivial in `⟨1..n | rels⟩` -/
theorem relators_hold (hcomp : complete t n = true) {subs : List (List Int)}
    (hv : Valid t n rels subs) {base : Nat} (hb : base < t.size) {gens srels : List (List Int)}
    (h : stabilizer base rels (Table.ofView n t) = .ok (gens, srels)) :
    ∀ r ∈ srels, psi n rels gens r = 1 := by
  obtain ⟨u, e2, _, he2, hknown, sub, hsub, hsr⟩ := stabilizer_edges hcomp hv hb h
  intro r hr
  rw [hsr] at hr
  have hlen : (Table.ofView n t).len = t.size := by simp [Table.len, Table.ofView]
  refine subrelFold_spec hcomp he2 hknown (fun r hr c hc => hv.rel r hr c hc) _ [] sub ?_ (by simp) hsub r
    (mem_sortDescending hr)
  intro p r' hm
  unfold subrelPairs at hm
  simp only [List.mem_flatMap, List.mem_range, List.mem_map, Prod.mk.injEq, hlen] at hm
  obtain ⟨a, ha, b, hb', rfl, rfl⟩ := hm
  exact ⟨ha, hb'⟩


/-! ### the homomorphism from the presented group onto the stabiliser -/

theorem liftDen_congr {H : Type} [Group H] {f f' : ℕ → H} (h : ∀ k, 0 < k → f k = f' k) :
    ∀ (w : List Int), liftDen f w = liftDen f' w
  | [] => by rw [liftDen_nil, liftDen_nil]
  | x :: w => by
    rw [liftDen_cons f, liftDen_cons f', liftDen_congr h w]
    congr 1
    by_cases h0 : x = 0
    · subst h0; rw [liftDen_zero, liftDen_zero]
    · by_cases hp : 0 < x
      · obtain ⟨k, rfl⟩ : ∃ k : ℕ, x = k := ⟨x.toNat, by omega⟩
        rw [liftDen_pos _ k (by omega), liftDen_pos _ k (by omega), h k (by omega)]
      · obtain ⟨k, hk⟩ : ∃ k : ℕ, -x = k := ⟨(-x).toNat, by omega⟩
        have hx : x = -(k : Int) := by omega
        subst hx
        rw [liftDen_neg, liftDen_neg, liftDen_pos _ k (by omega), liftDen_pos _ k (by omega), h k (by omega)]

/-- the generator images -/
noncomputable def genImage (n : Nat) (rels gens : List (List Int)) (i : Fin gens.length) : GP n rels :=
  mkG n rels gens[i]

theorem lift_genImage_word (gens : List (List Int)) (W : List Int) :
    FreeGroup.lift (genImage n rels gens) (wordElt gens.length W) = psi n rels gens W := by
  rw [wordElt_eq_liftDen]
  unfold liftDen psi liftDen
  have : (FreeGroup.lift (genImage n rels gens)).comp (FreeGroup.lift (genFree gens.length)) =
      FreeGroup.lift (fun k => FreeGroup.lift (genImage n rels gens) (genFree gens.length k)) := by
    ext k; simp
  have h2 := DFunLike.congr_fun this (den W)
  simp only [MonoidHom.comp_apply] at h2
  rw [h2]
  apply liftDen_congr (w := W) (f := fun k => FreeGroup.lift (genImage n rels gens) (genFree gens.length k))
    (f' := fun k => mkG n rels (gens.getD (k - 1) []))
  intro k hk
  unfold genFree
  by_cases hr : 1 ≤ k ∧ k ≤ gens.length
  · rw [dif_pos hr]
    simp only [FreeGroup.lift_apply_of, genImage]
    have : k - 1 < gens.length := by omega
    simp [List.getD, this]
  · rw [dif_neg hr, map_one]
    have : gens.getD (k - 1) [] = [] := by
      rw [List.getD_eq_getElem?_getD, List.getElem?_eq_none (by omega)]; rfl
    rw [this, mkG_nil]

/-- ✔ the presented group `⟨returned generators | returned relators⟩` maps onto the stabiliser:
    sending the `i`-th new generator to the `i`-th returned generator word respects the returned
    relators, and the image is the full stabiliser of the base row -/
theorem presentation_hom (hcomp : complete t n = true) {subs : List (List Int)}
    (hv : Valid t n rels subs) {base : Nat} (hb : base < t.size) {gens srels : List (List Int)}
    (h : stabilizer base rels (Table.ofView n t) = .ok (gens, srels)) :
    ∃ f : PresentedGroup (relSet gens.length srels) →* GP n rels,
      (∀ i : Fin gens.length, f (PresentedGroup.of i) = mkG n rels gens[i]) ∧
      f.range = stabOf hv base hb := by
  have hrel : ∀ r ∈ relSet gens.length srels, FreeGroup.lift (genImage n rels gens) r = 1 := by
    rintro r ⟨s, hs, rfl⟩
    rw [lift_genImage_word]
    exact relators_hold hcomp hv hb h s hs
  refine ⟨PresentedGroup.toGroup hrel, fun i => by simp [genImage], ?_⟩
  rw [← genSubgroup_eq_stabOf hcomp hv hb h]
  apply _root_.le_antisymm
  · rintro x ⟨y, rfl⟩
    obtain ⟨z, rfl⟩ := QuotientGroup.mk_surjective y
    have : PresentedGroup.toGroup hrel (QuotientGroup.mk z) = FreeGroup.lift (genImage n rels gens) z := rfl
    rw [this]
    have hle : (FreeGroup.lift (genImage n rels gens)).range ≤ genSubgroup n rels gens := by
      rw [FreeGroup.range_lift_eq_closure, Subgroup.closure_le]
      rintro x ⟨i, rfl⟩
      apply Subgroup.subset_closure
      exact ⟨gens[i], List.getElem_mem i.2, rfl⟩
    exact hle ⟨z, rfl⟩
  · unfold genSubgroup
    rw [Subgroup.closure_le]
    rintro x ⟨w, hw, rfl⟩
    obtain ⟨i, hi, rfl⟩ := List.getElem_of_mem hw
    exact ⟨PresentedGroup.of ⟨i, hi⟩, by simp [genImage]⟩

/-- helper: the Boolean Spec contains completeness -/
theorem complete_of_validTable {t : Tab} {n : Nat} {rels subs : List (List Int)}
    (h : validTable t n rels subs = true) : complete t n = true := by
  unfold validTable at h
  simp only [Bool.and_eq_true, decide_eq_true_eq] at h
  exact h.1.1.1.1.2

end Final

end DSymVerif.StabP
