/-
`traits::gcdx` (model `LA.gcdx` at the idealised integer type, `c = Outcome.ok`):
the loop terminates within its fuel and returns Bézout data.
-/
import Mathlib.Tactic.Linarith
import Mathlib.Tactic.Ring
import DSymVerif.Model.LinAlg

namespace DSymVerif.LA

open DSymVerif

@[simp] theorem bind_ok {α β} (a : α) (f : α → Outcome β) : (Outcome.ok a).bind f = f a := rfl
@[simp] theorem bind_panic {α β} (f : α → Outcome β) : (Outcome.panic).bind f = .panic := rfl
@[simp] theorem bind_err {α β} (f : α → Outcome β) : (Outcome.err).bind f = .err := rfl

/-- invariant of the `while` loop of `gcdx a0 b0` -/
structure GcdxInv (a0 b0 a an r rn s sn : Int) : Prop where
  ea : a = r * a0 + s * b0
  en : an = rn * a0 + sn * b0
  det : r * sn - s * rn = 1 ∨ r * sn - s * rn = -1
  gcd : Int.gcd a an = Int.gcd a0 b0

theorem tmod_eq_sub (a b : Int) : a - a.tdiv b * b = a.tmod b := by
  have := Int.tmod_def a b
  rw [this]; ring

theorem gcdxLoop_spec (a0 b0 : Int) :
    ∀ (fuel : Nat) (a an r rn s sn : Int), GcdxInv a0 b0 a an r rn s sn → an.natAbs < fuel →
      ∃ g r' s' t u, gcdxLoop .ok fuel a an r rn s sn = .ok (g, r', s', t, u) ∧
        g = r' * a0 + s' * b0 ∧ t * a0 + u * b0 = 0 ∧
        (r' * u - s' * t = 1 ∨ r' * u - s' * t = -1) ∧ g.natAbs = Int.gcd a0 b0 := by
  intro fuel
  induction fuel with
  | zero => intro a an r rn s sn _ hf; omega
  | succ f ih =>
    intro a an r rn s sn h hf
    unfold gcdxLoop
    by_cases han : an = 0
    · subst han
      simp only [if_true]
      refine ⟨a, r, s, rn, sn, rfl, h.ea, h.en.symm, h.det, ?_⟩
      rw [← h.gcd, Int.gcd_zero_right]
    · simp only [han, if_false, bind_ok]
      apply ih
      · refine ⟨h.en, ?_, ?_, ?_⟩
        · rw [h.ea, h.en]; ring
        · rcases h.det with d | d
          · right; linarith [show rn * (s - a.tdiv an * sn) - sn * (r - a.tdiv an * rn) = -(r * sn - s * rn) by ring]
          · left; linarith [show rn * (s - a.tdiv an * sn) - sn * (r - a.tdiv an * rn) = -(r * sn - s * rn) by ring]
        · rw [tmod_eq_sub, ← h.gcd]
          unfold Int.gcd
          rw [Int.natAbs_tmod, Nat.gcd_comm, ← Nat.gcd_rec]
          exact Nat.gcd_comm _ _
      · rw [tmod_eq_sub, Int.natAbs_tmod]
        have : a.natAbs % an.natAbs < an.natAbs := Nat.mod_lt _ (by omega)
        omega

/-- `gcdx(a, b) = (g, r, s, t, u)` with `g = r·a + s·b`, `0 = t·a + u·b`,
    `r·u − s·t = ±1` and `|g| = gcd(a, b)`; the loop never runs out of fuel. -/
theorem gcdx_ok (a b : Int) :
    ∃ g r s t u, gcdx .ok a b = .ok (g, r, s, t, u) ∧
      g = r * a + s * b ∧ t * a + u * b = 0 ∧
      (r * u - s * t = 1 ∨ r * u - s * t = -1) ∧ g.natAbs = Int.gcd a b := by
  unfold gcdx
  exact gcdxLoop_spec a b _ a b 1 0 0 1 ⟨by ring, by ring, by norm_num, rfl⟩ (by omega)

end DSymVerif.LA
