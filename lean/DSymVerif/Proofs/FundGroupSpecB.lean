/-
Helper lemmas for property C09, part 19: the Spec's executable textbook presentation
`SpecC09.textbook (gOf ds)` has the same normal closure as `GRel ds (specTree ds) (specBase ds)`
(its breadth-first tree, one 2-orbit relator per least chamber of the orbit).
-/
import DSymVerif.Proofs.FundGroupSpecA
import DSymVerif.Spec.C09

namespace DSymVerif.FGP
open DSymVerif DSymVerif.DS DSymVerif.FG DSymVerif.FWP DSymVerif.SpecC02

/-- the plain-table view of the symbol that the Spec works on: operations, adjacent branching -/
def gOf (ds : DSymData) : G := ds.dset.toG (fun i d => orbV ds i (i + 1) d)

theorem gOf_op (ds : DSymData) (i d : Nat) : (gOf ds).op i d = ds.dset.opU i d := rfl
theorem gOf_size (ds : DSymData) : (gOf ds).size = ds.size := rfl
theorem gOf_dim (ds : DSymData) : (gOf ds).dim = ds.dim := rfl

theorem mem_chambers (ds : DSymData) (d : Nat) : d ∈ (gOf ds).chambers ↔ 1 ≤ d ∧ d ≤ ds.size := by
  unfold G.chambers
  rw [gOf_size]
  simp only [List.mem_map, List.mem_range]
  constructor
  · rintro ⟨a, ha, rfl⟩; omega
  · rintro ⟨h1, h2⟩; exact ⟨d - 1, by omega, by omega⟩

theorem mem_gindices (ds : DSymData) (i : Nat) : i ∈ (gOf ds).indices ↔ i ≤ ds.dim := by
  unfold G.indices
  rw [gOf_dim, List.mem_range]
  omega

/-! ### orbits -/

theorem orbitWalk_orb2 (ds : DSymData) (i j d : Nat) : ∀ (fuel e : Nat) (acc : List Nat),
    (∀ x ∈ acc, Orb2 ds.dset i j d x) → Orb2 ds.dset i j d e →
    ∀ x ∈ SpecC09.orbitWalk (gOf ds) i j d fuel e acc, Orb2 ds.dset i j d x
  | 0, _, acc, hacc, _ => by simpa [SpecC09.orbitWalk] using hacc
  | fuel + 1, e, acc, hacc, he => by
    unfold SpecC09.orbitWalk
    simp only
    have h1 : Orb2 ds.dset i j d ((gOf ds).op i e) := Orb2.stepI he
    have h2 : Orb2 ds.dset i j d ((gOf ds).op j ((gOf ds).op i e)) := Orb2.stepJ h1
    have hacc' : ∀ x ∈ acc ++ [e, (gOf ds).op i e], Orb2 ds.dset i j d x := by
      intro x hx
      rcases List.mem_append.1 hx with h | h
      · exact hacc x h
      · simp only [List.mem_cons, List.not_mem_nil, or_false] at h
        rcases h with rfl | rfl
        · exact he
        · exact h1
    by_cases hc : ((gOf ds).op j ((gOf ds).op i e) == d) = true
    · rw [if_pos hc]; exact hacc'
    · rw [if_neg hc]; exact orbitWalk_orb2 ds i j d fuel _ _ hacc' h2

/-- the base chambers of the Spec: the least chamber of the walk around the orbit -/
def specBase (ds : DSymData) (i j d : Nat) : Prop := d ∈ SpecC09.orbitReps (gOf ds) i j

theorem specBase_cover {ds : DSymData} (hs : ValidSym ds) (i j d : Nat) (_ : i < j) (hj : j ≤ ds.dim)
    (h1 : 1 ≤ d) (h2 : d ≤ ds.size) :
    ∃ d0, 1 ≤ d0 ∧ d0 ≤ ds.size ∧ specBase ds i j d0 ∧ Orb2 ds.dset i j d0 d := by
  classical
  have hi : i ≤ ds.dim := by omega
  have hex : ∃ x, Orb2 ds.dset i j d x := ⟨d, Orb2.refl d⟩
  let d0 := Nat.find hex
  have hd0 : Orb2 ds.dset i j d d0 := Nat.find_spec hex
  have hr := Orb2.range hs.set hi hj ⟨h1, h2⟩ hd0
  refine ⟨d0, hr.1, hr.2, ?_, Orb2.symm hs.set hi hj ⟨h1, h2⟩ hd0⟩
  unfold specBase SpecC09.orbitReps
  rw [List.mem_filter]
  refine ⟨(mem_chambers ds d0).2 hr, ?_⟩
  rw [List.all_eq_true]
  intro x hx
  have hx' := orbitWalk_orb2 ds i j d0 _ d0 [] (fun y hy => by cases hy) (Orb2.refl d0) x hx
  have : Orb2 ds.dset i j d x := Orb2.trans hd0 hx'
  exact decide_eq_true (Nat.find_min' hex this)

theorem specBase_range {ds : DSymData} {i j d : Nat} (h : specBase ds i j d) : 1 ≤ d ∧ d ≤ ds.size := by
  unfold specBase SpecC09.orbitReps at h
  exact (mem_chambers ds d).1 (List.mem_filter.1 h).1

/-! ### words -/

theorem den_spec_pow (w : List Int) : ∀ n, den (SpecC09.pow w n) = den w ^ n
  | 0 => rfl
  | n + 1 => by
    show den (SpecC09.pow w n ++ w) = _
    rw [den_append, den_spec_pow w n, pow_succ]

theorem genOf_eq (ds : DSymData) (d i : Nat) : SpecC09.genOf (gOf ds) d i = ((code ds d i : Nat) : Int) := rfl

theorem den_genOf {ds : DSymData} {d i : Nat} (h : FacetR ds d i) :
    den [SpecC09.genOf (gOf ds) d i] = xg ds d i := by
  rw [genOf_eq, den_pos _ (by unfold code; omega)]
  unfold xg
  rw [if_pos h]

/-- the value of a facet word list `[genOf d i]` -/
def valS (ds : DSymData) (c a : Nat) : FreeGroup ℕ := den [SpecC09.genOf (gOf ds) c a]

theorem orbitWordAux_den {ds : DSymData} (hv : ValidSet ds.dset) {i j d : Nat} (hi : i ≤ ds.dim)
    (hj : j ≤ ds.dim) : ∀ (fuel e : Nat) (acc : List Int) (k : Nat), 1 ≤ e → e ≤ ds.size →
    1 ≤ k → k ≤ fuel → wk (opT ds) i j (2 * k) e = d →
    (∀ t, 1 ≤ t → t < k → wk (opT ds) i j (2 * t) e ≠ d) →
    den (SpecC09.orbitWordAux (gOf ds) (fun d i => [SpecC09.genOf (gOf ds) d i]) i j d fuel e acc) =
      den acc * Wf (opT ds) (valS ds) i j (2 * k) e
  | 0, _, _, k, _, _, hk1, hk2, _, _ => by omega
  | fuel + 1, e, acc, k, h1, h2, hk1, hk2, hk, hmin => by
    unfold SpecC09.orbitWordAux
    simp only
    have r1 := hv.range i e hi h1 h2
    have r2 := hv.range j _ hj r1.1 r1.2
    have hstep : wk (opT ds) i j 2 e = ds.dset.opU j (ds.dset.opU i e) := by
      show opT ds j (opT ds i e) = _
      rw [opT_eq hi h1 h2, opT_eq hj r1.1 r1.2]
    have hW2 : ∀ n, Wf (opT ds) (valS ds) i j (n + 2) e =
        valS ds e i * valS ds (ds.dset.opU i e) j *
          Wf (opT ds) (valS ds) i j n (ds.dset.opU j (ds.dset.opU i e)) := by
      intro n
      rw [Wf_add_two, opT_eq hi h1 h2, opT_eq hj r1.1 r1.2]
    by_cases he : ((gOf ds).op j ((gOf ds).op i e) == d) = true
    · rw [if_pos he]
      have he' : ds.dset.opU j (ds.dset.opU i e) = d := by simpa [gOf_op] using he
      have hk' : k = 1 := by
        rcases Nat.lt_or_ge 1 k with h | h
        · exact absurd (hstep.trans he') (hmin 1 (Nat.le_refl 1) h)
        · omega
      subst hk'
      rw [den_append, den_append]
      have : Wf (opT ds) (valS ds) i j (2 * 1) e = valS ds e i * valS ds (ds.dset.opU i e) j * 1 := by
        have := hW2 0
        simpa [Wf] using this
      rw [this, mul_one, mul_assoc]
      rfl
    · rw [if_neg he]
      have he' : ds.dset.opU j (ds.dset.opU i e) ≠ d := by simpa [gOf_op] using he
      have hk2' : 2 ≤ k := by
        rcases Nat.lt_or_ge k 2 with h | h
        · have : k = 1 := by omega
          subst this
          exact absurd (hstep.symm.trans hk) he'
        · exact h
      have e2k : 2 * k = 2 * (k - 1) + 2 := by omega
      show den (SpecC09.orbitWordAux (gOf ds) (fun d i => [SpecC09.genOf (gOf ds) d i]) i j d fuel
          (ds.dset.opU j (ds.dset.opU i e))
          (acc ++ [SpecC09.genOf (gOf ds) e i] ++ [SpecC09.genOf (gOf ds) (ds.dset.opU i e) j])) = _
      rw [orbitWordAux_den hv hi hj fuel _ _ (k - 1) r2.1 r2.2 (by omega) (by omega)
        (by rw [e2k, wk_add_two, opT_eq hi h1 h2, opT_eq hj r1.1 r1.2] at hk; exact hk)
        (by
          intro t ht1 ht2
          have := hmin (t + 1) (by omega) (by omega)
          have e2 : 2 * (t + 1) = 2 * t + 2 := by ring
          rw [e2, wk_add_two, opT_eq hi h1 h2, opT_eq hj r1.1 r1.2] at this
          exact this)]
      rw [den_append, den_append, e2k, hW2]
      simp only [mul_assoc]
      rfl

theorem valS_eq {ds : DSymData} {c a : Nat} (h : FacetR ds c a) : valS ds c a = xg ds c a := den_genOf h

/-- the Spec's 2-orbit word is the closed walk `OW` read with the facet generators -/
theorem orbitWord_den {ds : DSymData} (hs : ValidSym ds) {i j d : Nat} (hi : i ≤ ds.dim)
    (hj : j ≤ ds.dim) (h1 : 1 ≤ d) (h2 : d ≤ ds.size) :
    den (SpecC09.orbitWord (gOf ds) (fun d i => [SpecC09.genOf (gOf ds) d i]) i j d) =
      OW ds (xg ds) i j d := by
  obtain ⟨_, hl⟩ := orbR_spec hs hi hj h1 h2
  have hper := orbR_period hs hi hj h1 h2
  unfold SpecC09.orbitWord
  rw [orbitWordAux_den hs.set hi hj _ d [] (orbR ds i j d) h1 h2 hper.1 (by
      rw [gOf_size]
      have : orbR ds i j d ≤ ds.dset.size := by
        obtain ⟨k, hk, hkl, _⟩ := r_generic_least hs.set hi hj ⟨h1, h2⟩
        rw [hl.unique hkl]; exact hk
      have e : ds.size = ds.dset.size := rfl
      omega) hper.2 (by
      intro t ht1 ht2 hp
      apply hl.2.2 t ht1 ht2
      show (ds.dset.comp i j)^[t] d = d
      rw [← wk_opT_even hs.set hi hj h1 h2]; exact hp)]
  rw [den_nil, one_mul]
  unfold OW
  refine (Wf_congr (opT ds) (valS ds) (xg ds) (fun c => 1 ≤ c ∧ c ≤ ds.size) ?_ ?_ _ d ⟨h1, h2⟩).1
  · intro c hc
    exact ⟨opT_range hs.set hc.1 hc.2, opT_range hs.set hc.1 hc.2⟩
  · intro c hc
    exact ⟨valS_eq ⟨hc.1, hc.2, hi⟩, valS_eq ⟨hc.1, hc.2, hj⟩⟩

/-! ### branching numbers -/

theorem vOf_eq {ds : DSymData} (hs : ValidSym ds) {i j d : Nat} (hij : i < j) (hj : j ≤ ds.dim)
    (h1 : 1 ≤ d) (h2 : d ≤ ds.size) : SpecC09.vOf (gOf ds) i j d = orbV ds i j d := by
  have hi : i ≤ ds.dim := by omega
  unfold SpecC09.vOf G.vDef G.inRange
  have hin : ((decide (i ≤ (gOf ds).dim) && decide (1 ≤ d) && decide (d ≤ (gOf ds).size)) &&
      decide (j ≤ (gOf ds).dim)) = true := by
    rw [gOf_dim, gOf_size]; simp [hi, h1, h2, hj]
  rw [hin]
  simp only [Bool.not_true, Bool.false_eq_true, if_false]
  have hne : (i == j) = false := by simp; omega
  rw [hne]
  simp only [Bool.false_eq_true, if_false]
  by_cases hadj : j = i + 1
  · subst hadj
    simp
    rfl
  · have h1' : (j == i + 1) = false := by simp [hadj]
    have h2' : (i == j + 1) = false := by simp; omega
    rw [h1', h2']
    simp only [Bool.false_eq_true, if_false]
    have hfar : i + 1 < j ∨ j + 1 < i := Or.inl (by omega)
    obtain ⟨k, hk1, _, hr, _, _, _, hol⟩ := C02.r_generic_eq_orbitLen ds.dset hs.set i j d hi hj h1 h2
    have hna := C02.r_nonadjacent ds hs.set hs.far i j d hfar hi hj h1 h2
    have hrp : ds.rPartial i j d = .ok (some k) := by
      rw [hna.1, ds.view_eq, hr]
    have hk : k = if ds.dset.opU i d = ds.dset.opU j d then 1 else 2 := by
      have := hna.2.2.1
      rw [hrp] at this
      injection this with this
      injection this with this
    have hol' : (gOf ds).orbitLen i j d = some k := hol _
    rw [hol']
    simp only
    have hov : orbV ds i j d = if ds.dset.opU i d = ds.dset.opU j d then 2 else 1 := by
      unfold orbV; rw [hna.2.2.2.1]
    rw [hov, hk]
    by_cases he : ds.dset.opU i d = ds.dset.opU j d
    · simp [he]
    · simp [he]

end DSymVerif.FGP
