/-
Helper lemmas for property C09, part 30 (for C16 `InnerWallsAreFaces`): the strict index priority
of the `Traversal` iterator.  The queues are kept in a `BTreeMap` and `next` pops from the first
non-empty one, so when an item with index `i` is reported every chamber reached so far has already
had its `k`-edges reported for every `k < i` (`traversal_prio`).
-/
import DSymVerif.Proofs.DSetTravSpec

namespace DSymVerif.DS
open View

theorem todoPop_prio : ∀ (t : Todo) (i d : Nat) (t' : Todo), todoPop t = some (i, d, t') →
    (todoKeys t).Pairwise (· < ·) → ∀ k q, (k, q) ∈ t → k < i → q = []
  | [], _, _, _, h, _, _, _, _, _ => by simp [todoPop] at h
  | (i0, d0 :: q0) :: rest, i, d, t', h, hs, k, q, hm, hk => by
    simp only [todoPop, Option.some.injEq, Prod.mk.injEq] at h
    obtain ⟨rfl, _, _⟩ := h
    rcases List.mem_cons.1 hm with hm | hm
    · cases hm; omega
    · have h1 := (List.pairwise_cons.1 hs).1 k (List.mem_map.2 ⟨(k, q), hm, rfl⟩)
      simp only at h1
      omega
  | (i0, []) :: rest, i, d, t', h, hs, k, q, hm, hk => by
    simp only [todoPop, Option.map_eq_some_iff] at h
    obtain ⟨⟨j, d', rest'⟩, hp, heq⟩ := h
    simp only [Prod.mk.injEq] at heq
    obtain ⟨rfl, _, _⟩ := heq
    rcases List.mem_cons.1 hm with hm | hm
    · cases hm; rfl
    · exact todoPop_prio rest j d' rest' hp (List.pairwise_cons.1 hs).2 k q hm hk

theorem travPop_prio {st : TravState} {i d : Nat} {st1 : TravState}
    (h : travPop st = some (some i, d, st1)) (hs : (todoKeys st.todo).Pairwise (· < ·)) :
    ∀ k q, (k, q) ∈ st.todo → k < i → q = [] := by
  unfold travPop at h
  cases h1 : todoPop st.todo with
  | some x =>
    obtain ⟨i', d', t'⟩ := x
    rw [h1] at h
    simp only [Option.some.injEq, Prod.mk.injEq] at h
    obtain ⟨hi, _, _⟩ := h
    cases hi
    exact todoPop_prio _ _ _ _ h1 hs
  | none =>
    rw [h1] at h
    cases h2 : st.seeds with
    | nil => rw [h2] at h; cases h
    | cons d' rest =>
      rw [h2] at h
      simp only [Option.some.injEq, Prod.mk.injEq] at h
      cases h.1

/-- when an item with index `i` is reported, the `k`-edges (`k < i`) of every chamber reached
    before are done -/
def PrioOK (indices : List Nat) (pre : List TravItem) (t : TravItem) : Prop :=
  ∀ i, t.1 = some i → ∀ k ∈ indices, k < i → ∀ e, IsTarget pre e → EdgeDone pre k e

def AllPrio (indices : List Nat) : List TravItem → Prop
  | [] => True
  | t :: acc => PrioOK indices acc t ∧ AllPrio indices acc

structure PInv (indices : List Nat) (acc : List TravItem) (st : TravState) : Prop where
  sorted : (todoKeys st.todo).Pairwise (· < ·)
  prio : AllPrio indices acc

theorem PInv.init (indices seeds : List Nat) :
    PInv indices [] { seeds := seeds, seen := [], todo := todoInit indices } := by
  refine ⟨?_, trivial⟩
  show (todoKeys (todoInit indices)).Pairwise (· < ·)
  rw [todoInit_keys]
  exact foldl_insSorted_sorted indices [] List.Pairwise.nil

theorem micro_cases' (s : View) (indices : List Nat) (st : TravState) :
    (s.micro indices st = .done ∧ Exhausted st) ∨
    (∃ mi d st1, travPop st = some (mi, d, st1) ∧ PopRes st mi d st1 ∧ (d, mi) ∈ st1.seen ∧
      s.micro indices st = .skip st1) ∨
    (∃ mi d st1, travPop st = some (mi, d, st1) ∧ PopRes st mi d st1 ∧ (d, mi) ∉ st1.seen ∧
      s.micro indices st = .report (mi, d, travTarget s mi d)
        { st1 with seen := (d, mi) :: (travTarget s mi d, mi) :: (travTarget s mi d, none) :: st1.seen,
                   todo := pushAll st1.todo indices (travTarget s mi d) }) := by
  unfold View.micro
  cases h : travPop st with
  | none => exact Or.inl ⟨rfl, travPop_none h⟩
  | some x =>
    obtain ⟨mi, d, st1⟩ := x
    have pr := travPop_some h
    simp only
    by_cases hc : st1.seen.contains (d, mi) = true
    · rw [if_pos hc]
      exact Or.inr (Or.inl ⟨mi, d, st1, rfl, pr, by simpa using hc, rfl⟩)
    · rw [if_neg hc]
      exact Or.inr (Or.inr ⟨mi, d, st1, rfl, pr, by simpa using hc, rfl⟩)

theorem travNext_some' {s : View} {indices seeds : List Nat} {acc : List TravItem} :
    ∀ (fuel : Nat) (st : TravState) (item : TravItem) (st' : TravState), TInv s indices seeds acc st →
      PInv indices acc st → travNext s indices fuel st = some (item, st') →
      TInv s indices seeds (item :: acc) st' ∧ PInv indices (item :: acc) st'
  | 0, _, _, _, _, _, h => by cases h
  | fuel + 1, st, item, st', inv, pinv, h => by
    rw [travNext_succ] at h
    rcases micro_cases' s indices st with ⟨hm, _⟩ | ⟨mi, d, st1, hpop, pr, hs, hm⟩ |
      ⟨mi, d, st1, hpop, pr, hs, hm⟩
    · rw [hm] at h; cases h
    · rw [hm] at h
      exact travNext_some' fuel st1 item st' (inv.skip pr hs)
        ⟨by rw [pr.keys]; exact pinv.sorted, pinv.prio⟩ h
    · rw [hm] at h
      simp only [Option.some.injEq, Prod.mk.injEq] at h
      obtain ⟨rfl, rfl⟩ := h
      refine ⟨inv.report pr hs, ?_, ?_, pinv.prio⟩
      · show (todoKeys (pushAll st1.todo indices _)).Pairwise (· < ·)
        rw [pushAll_keys, pr.keys]; exact pinv.sorted
      · intro i hi k hk hki e he
        have hi : mi = some i := hi
        subst hi
        rcases inv.frontier e he k hk with h4 | ⟨q, hq, heq⟩
        · exact h4
        · have := travPop_prio hpop pinv.sorted k q hq hki
          rw [this] at heq; cases heq

theorem travCollect_inv' {s : View} {indices seeds : List Nat} (f : Nat) :
    ∀ (n : Nat) (st : TravState) (acc : List TravItem), TInv s indices seeds acc st →
      PInv indices acc st →
      ∃ acc' st', travCollect s indices f n st acc = acc'.reverse ∧ TInv s indices seeds acc' st' ∧
        PInv indices acc' st'
  | 0, st, acc, inv, pinv => ⟨acc, st, rfl, inv, pinv⟩
  | n + 1, st, acc, inv, pinv => by
    rw [travCollect]
    cases h : travNext s indices f st with
    | none => exact ⟨acc, st, rfl, inv, pinv⟩
    | some x =>
      obtain ⟨item, st'⟩ := x
      obtain ⟨i1, i2⟩ := travNext_some' f st item st' inv pinv h
      exact travCollect_inv' f n st' (item :: acc) i1 i2

theorem AllPrio.suffix {indices : List Nat} :
    ∀ (l1 : List TravItem) {l2 : List TravItem}, AllPrio indices (l1 ++ l2) → AllPrio indices l2
  | [], _, h => h
  | _ :: l1, _, h => AllPrio.suffix l1 h.2

/-- **index priority of the traversal**: when `t` with index `i` is reported after the items
    `pre`, every chamber that is a target in `pre` has its `k`-edge reported in `pre`, for every
    index `k < i` of the traversal -/
theorem traversal_prio (s : View) (indices seeds : List Nat) (pre post : List TravItem) (t : TravItem)
    (h : s.traversal indices seeds = pre ++ t :: post) :
    ∀ i, t.1 = some i → ∀ k ∈ indices, k < i → ∀ u ∈ pre,
      ∃ w ∈ pre, w.1 = some k ∧ (w.2.1 = u.2.2 ∨ w.2.2 = u.2.2) := by
  obtain ⟨acc, st', hacc, _, pinv⟩ : ∃ acc st', s.traversal indices seeds = acc.reverse ∧
      TInv s indices seeds acc st' ∧ PInv indices acc st' := by
    unfold View.traversal
    exact travCollect_inv' _ _ _ [] (TInv.init s indices seeds) (PInv.init indices seeds)
  have : acc = post.reverse ++ t :: pre.reverse := by
    have := congrArg List.reverse (hacc.symm.trans h)
    simpa using this
  have hall := pinv.prio
  rw [this] at hall
  have hp := (AllPrio.suffix _ hall).1
  intro i hi k hk hki u hu
  obtain ⟨w, hw, hwk⟩ := hp i hi k hk hki u.2.2 ⟨u, List.mem_reverse.2 hu, rfl⟩
  exact ⟨w, List.mem_reverse.1 hw, hwk⟩

end DSymVerif.DS
