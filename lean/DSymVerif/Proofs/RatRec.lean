/-
`rational_reconstruction(s, h)` (model `LA.rationalReconstruction`): whatever fraction is
returned equals `n/d` for a pair with `n ≡ s·d (mod h)` (partial correctness of the
`while u1^2 > h` loop; the loop invariant is `u1 ≡ sign·s·v1`, `u ≡ −sign·s·v (mod h)`).
-/
import Mathlib.Tactic.Linarith
import Mathlib.Tactic.Ring
import Mathlib.Tactic.Positivity
import Mathlib.Algebra.Order.Ring.Abs
import DSymVerif.Proofs.Gcdx

namespace DSymVerif.LA

open DSymVerif

/-- `norm n d` has the same value as `n/d` -/
theorem Q.norm_value (n : Int) (d : Nat) (hd : 0 < d) :
    (Q.norm n d).num * (d : Int) = n * ((Q.norm n d).den : Int) := by
  unfold Q.norm
  have hg : Nat.gcd n.natAbs d ≠ 0 := by
    intro h; have := Nat.gcd_eq_zero_iff.1 h; omega
  obtain ⟨b, hb⟩ := Nat.gcd_dvd_right n.natAbs d
  have hdvd : ((Nat.gcd n.natAbs d : Nat) : Int) ∣ n :=
    Int.natCast_dvd.2 (Nat.gcd_dvd_left _ _)
  obtain ⟨a, ha⟩ := hdvd
  generalize Nat.gcd n.natAbs d = g at hg hb ha
  simp only [hg, if_false]
  have hg' : (g : Int) ≠ 0 := by exact_mod_cast hg
  have h1 : n / (g : Int) = a := by
    rw [ha]; exact Int.mul_ediv_cancel_left _ hg'
  have h2 : d / g = b := by
    rw [hb]; exact Nat.mul_div_cancel_left _ (Nat.pos_of_ne_zero hg)
  rw [h1, h2, hb, ha]
  push_cast
  ring

/-- `Q.new n d = ok q` : `d ≠ 0` and `q` has the value `n/d` -/
theorem Q.new_value {n d : Int} {q : Q} (h : Q.new n d = .ok q) :
    d ≠ 0 ∧ q.num * d = n * (q.den : Int) := by
  unfold Q.new at h
  by_cases hd : d = 0
  · simp [hd] at h
  · refine ⟨hd, ?_⟩
    simp only [hd, if_false] at h
    split at h
    · rename_i hneg
      cases h
      have := Q.norm_value (-n) (-d).toNat (by omega)
      have e : (((-d).toNat : Nat) : Int) = -d := Int.toNat_of_nonneg (by omega)
      rw [e] at this
      linarith
    · rename_i hneg
      cases h
      have := Q.norm_value n d.toNat (by omega)
      have e : ((d.toNat : Nat) : Int) = d := Int.toNat_of_nonneg (by omega)
      rw [e] at this
      exact this

theorem ratRecLoop_inv (s h : Int) :
    ∀ (fuel : Nat) (u u1 v v1 sign : Int) (q : Q), (sign = 1 ∨ sign = -1) →
      h ∣ u1 - sign * s * v1 → h ∣ u + sign * s * v →
      ratRecLoop h fuel u u1 v v1 sign = .ok q →
      ∃ n d, h ∣ n - s * d ∧ Q.new n d = .ok q := by
  intro fuel
  induction fuel with
  | zero => intro u u1 v v1 sign q _ _ _ hq; simp [ratRecLoop] at hq
  | succ f ih =>
    intro u u1 v v1 sign q hsign h1 h0 hq
    unfold ratRecLoop at hq
    split at hq
    · split at hq
      · cases hq
      · apply ih _ _ _ _ _ q _ _ _ hq
        · rcases hsign with e | e <;> simp [e]
        · have e : u.tmod u1 - -sign * s * (v + u.tdiv u1 * v1) =
              (u + sign * s * v) - u.tdiv u1 * (u1 - sign * s * v1) := by
            rw [Int.tmod_def]; ring
          rw [e]
          exact Int.dvd_sub h0 (Dvd.dvd.mul_left h1 _)
        · have e : u1 + -sign * s * v1 = u1 - sign * s * v1 := by ring
          rw [e]; exact h1
    · refine ⟨sign * u1, v1, ?_, hq⟩
      have e : sign * u1 - s * v1 = sign * (u1 - sign * s * v1) := by
        rcases hsign with e | e <;> subst e <;> ring
      rw [e]
      exact Dvd.dvd.mul_left h1 _

/-- the fraction returned by `rational_reconstruction(s, h)` is `n/d` for some pair with
    `d ≠ 0` and `n ≡ s·d (mod h)` -/
theorem rationalReconstruction_inv (s h : Int) (q : Q)
    (hq : rationalReconstruction s h = .ok q) :
    ∃ n d : Int, d ≠ 0 ∧ h ∣ n - s * d ∧ q.num * d = n * (q.den : Int) := by
  unfold rationalReconstruction at hq
  obtain ⟨n, d, hdvd, hnew⟩ := ratRecLoop_inv s h _ h s 0 1 1 q (Or.inl rfl)
    (by simp) (by simp) hq
  obtain ⟨hd, hv⟩ := Q.new_value hnew
  exact ⟨n, d, hd, hdvd, hv⟩

/-- for `0 ≤ s ≤ h` the `while` loop exits within its fuel, never divides by zero and never
    builds a fraction with zero denominator (`u1` strictly decreases and stays `≤ u`, so every
    quotient is `≥ 1` and `v1 ≥ 1`).  (For `s > h = 1` the Rust function would reach
    `BigRational::new(_, 0)`; the solver only calls it with `s < h`.) -/
theorem ratRecLoop_total (h : Int) (hh : 0 ≤ h) :
    ∀ (fuel : Nat) (u u1 v v1 sign : Int), 0 ≤ u1 → u1 ≤ u → 0 ≤ v → 1 ≤ v1 → u1 < fuel →
      ∃ q, ratRecLoop h fuel u u1 v v1 sign = .ok q := by
  intro fuel
  induction fuel with
  | zero => intro u u1 v v1 sign h1 _ _ _ hf; omega
  | succ f ih =>
    intro u u1 v v1 sign hu1 hle hv hv1 hf
    unfold ratRecLoop
    have hu : 0 ≤ u := by omega
    split
    · rename_i hgt
      have hne : u1 ≠ 0 := by
        intro h0; subst h0; simp at hgt; omega
      simp only [hne, if_false]
      have hpos : 0 < u1 := by omega
      have hq : 1 ≤ u.tdiv u1 := by
        rw [Int.tdiv_eq_ediv_of_nonneg hu]
        exact Int.le_ediv_of_mul_le hpos (by omega)
      have hm : u.tmod u1 = u % u1 := Int.tmod_eq_emod_of_nonneg hu
      have hm0 : 0 ≤ u % u1 := Int.emod_nonneg _ hne
      have hm1 : u % u1 < u1 := Int.emod_lt_of_pos _ hpos
      apply ih
      · rw [hm]; exact hm0
      · rw [hm]; omega
      · omega
      · have : 1 * 1 ≤ u.tdiv u1 * v1 := mul_le_mul hq hv1 (by norm_num) (by omega)
        omega
      · rw [hm]; omega
    · unfold Q.new
      have : v1 ≠ 0 := by omega
      simp only [this, if_false]
      split <;> exact ⟨_, rfl⟩

theorem rationalReconstruction_total (s h : Int) (hs : 0 ≤ s) (hsh : s ≤ h) :
    ∃ q, rationalReconstruction s h = .ok q := by
  unfold rationalReconstruction
  exact ratRecLoop_total h (by omega) _ h s 0 1 1 hs hsh (le_refl _) (le_refl _) (by omega)

/-- congruence and size of what the loop returns: `n ≡ s·d (mod h)`, `n² ≤ h`, `1 ≤ d`,
    `d² ≤ h` (classical invariants `u·v1 + u1·v = h`, and `u² > h` after the first step) -/
theorem ratRecLoop_full (s h : Int) (hh : 1 ≤ h) :
    ∀ (fuel : Nat) (u u1 v v1 sign : Int) (q : Q), (sign = 1 ∨ sign = -1) →
      h ∣ u1 - sign * s * v1 → h ∣ u + sign * s * v →
      0 ≤ u1 → u1 ≤ u → 0 ≤ v → 1 ≤ v1 → u * v1 + u1 * v = h → (h < u * u ∨ v1 = 1) →
      ratRecLoop h fuel u u1 v v1 sign = .ok q →
      ∃ n d, h ∣ n - s * d ∧ Q.new n d = .ok q ∧ n * n ≤ h ∧ 1 ≤ d ∧ d * d ≤ h := by
  intro fuel
  induction fuel with
  | zero => intro u u1 v v1 sign q _ _ _ _ _ _ _ _ _ hq; simp [ratRecLoop] at hq
  | succ f ih =>
    intro u u1 v v1 sign q hsign h1 h0 hu1 hle hv hv1 hsum hbig hq
    unfold ratRecLoop at hq
    have hu : 0 ≤ u := by omega
    split at hq
    · rename_i hgt
      split at hq
      · cases hq
      · rename_i hne
        have hpos : 0 < u1 := by omega
        have hqd : u.tdiv u1 = u / u1 := Int.tdiv_eq_ediv_of_nonneg hu
        have hq1 : 1 ≤ u / u1 := Int.le_ediv_of_mul_le hpos (by omega)
        have hm : u.tmod u1 = u % u1 := Int.tmod_eq_emod_of_nonneg hu
        have hm0 : 0 ≤ u % u1 := Int.emod_nonneg _ hne
        have hm1 : u % u1 < u1 := Int.emod_lt_of_pos _ hpos
        have hdm : u % u1 = u - u / u1 * u1 := by
          have := Int.emod_add_mul_ediv u u1; linarith [mul_comm u1 (u / u1)]
        rw [hqd, hm] at hq
        apply ih _ _ _ _ _ q _ _ _ _ _ _ _ _ _ hq
        · rcases hsign with e | e <;> simp [e]
        · have e : u % u1 - -sign * s * (v + u / u1 * v1) =
              (u + sign * s * v) - u / u1 * (u1 - sign * s * v1) := by
            rw [hdm]; ring
          rw [e]
          exact Int.dvd_sub h0 (Dvd.dvd.mul_left h1 _)
        · have e : u1 + -sign * s * v1 = u1 - sign * s * v1 := by ring
          rw [e]; exact h1
        · exact hm0
        · omega
        · omega
        · have : 1 * 1 ≤ u / u1 * v1 := mul_le_mul hq1 hv1 (by norm_num) (by omega)
          omega
        · rw [hdm]; linarith [hsum, show u1 * (v + u / u1 * v1) + (u - u / u1 * u1) * v1 = u * v1 + u1 * v by ring]
        · left; exact hgt
    · rename_i hngt
      refine ⟨sign * u1, v1, ?_, hq, ?_, hv1, ?_⟩
      · have e : sign * u1 - s * v1 = sign * (u1 - sign * s * v1) := by
          rcases hsign with e | e <;> subst e <;> ring
        rw [e]
        exact Dvd.dvd.mul_left h1 _
      · have : sign * u1 * (sign * u1) = u1 * u1 := by
          rcases hsign with e | e <;> subst e <;> ring
        rw [this]; omega
      · rcases hbig with hb | hb
        · have h2 : u * v1 ≤ h := by nlinarith [mul_nonneg hu1 hv]
          by_contra hcon
          have hcon' : h < v1 * v1 := by omega
          have h3 : h * h < (u * u) * (v1 * v1) := by
            have : 0 < h := by omega
            nlinarith
          have h4 : (u * v1) * (u * v1) ≤ h * h := by
            have : 0 ≤ u * v1 := mul_nonneg hu (by omega)
            nlinarith
          nlinarith
        · rw [hb]; omega

/-- `rational_reconstruction(s, h)` for `0 ≤ s ≤ h`, `1 ≤ h`: the returned fraction is `n/d`
    with `n ≡ s·d (mod h)`, `n² ≤ h`, `1 ≤ d`, `d² ≤ h` -/
theorem rationalReconstruction_full (s h : Int) (hs : 0 ≤ s) (hsh : s ≤ h) (hh : 1 ≤ h) (q : Q)
    (hq : rationalReconstruction s h = .ok q) :
    ∃ n d : Int, h ∣ n - s * d ∧ q.num * d = n * (q.den : Int) ∧ n * n ≤ h ∧ 1 ≤ d ∧ d * d ≤ h := by
  unfold rationalReconstruction at hq
  obtain ⟨n, d, hdvd, hnew, hn, hd1, hd⟩ := ratRecLoop_full s h hh _ h s 0 1 1 q (Or.inl rfl)
    (by simp) (by simp) hs hsh (le_refl _) (le_refl _) (by ring) (Or.inr rfl) hq
  exact ⟨n, d, hdvd, (Q.new_value hnew).2, hn, hd1, hd⟩

/-- uniqueness of the small fraction: two pairs congruent to the same `s` modulo `h`, one within
    the reconstruction bounds, the other with `(|N| + D)² < h`, are the same fraction -/
theorem ratRec_unique {s h n d N D : Int} (hh : 1 ≤ h) (h1 : h ∣ n - s * d) (h2 : h ∣ N - s * D)
    (hn : n * n ≤ h) (hd1 : 1 ≤ d) (hd : d * d ≤ h) (hD : 1 ≤ D)
    (hb : (|N| + D) * (|N| + D) < h) : n * D = N * d := by
  have hdvd : h ∣ n * D - N * d := by
    have e : n * D - N * d = (n - s * d) * D - (N - s * D) * d := by ring
    rw [e]
    exact Int.dvd_sub (Dvd.dvd.mul_right h1 _) (Dvd.dvd.mul_right h2 _)
  have habs : |n * D - N * d| < h := by
    have hN : 0 ≤ |N| := abs_nonneg N
    have hnn : 0 ≤ |n| := abs_nonneg n
    have hn2 : |n| * |n| ≤ h := by rw [abs_mul_abs_self]; exact hn
    have hnd : |n| * d ≤ h := by nlinarith [sq_nonneg (|n| - d)]
    have h3 : |n * D - N * d| ≤ |n| * D + |N| * d := by
      calc |n * D - N * d| ≤ |n * D| + |N * d| := abs_sub _ _
        _ = |n| * D + |N| * d := by
          rw [abs_mul, abs_mul, abs_of_nonneg (by omega : (0 : Int) ≤ D),
            abs_of_nonneg (by omega : (0 : Int) ≤ d)]
    have h4 : (|n| * D + |N| * d) * (|n| * D + |N| * d) ≤ h * ((|N| + D) * (|N| + D)) := by
      have e : (|n| * D + |N| * d) * (|n| * D + |N| * d) =
          (|n| * |n|) * (D * D) + 2 * (|n| * d) * (D * |N|) + (d * d) * (|N| * |N|) := by ring
      have e2 : h * ((|N| + D) * (|N| + D)) = h * (D * D) + 2 * h * (D * |N|) + h * (|N| * |N|) := by
        ring
      rw [e, e2]
      have a1 : (|n| * |n|) * (D * D) ≤ h * (D * D) := mul_le_mul_of_nonneg_right hn2 (by positivity)
      have a2 : 2 * (|n| * d) * (D * |N|) ≤ 2 * h * (D * |N|) := by
        have : 0 ≤ D * |N| := mul_nonneg (by omega) hN
        nlinarith
      have a3 : (d * d) * (|N| * |N|) ≤ h * (|N| * |N|) := mul_le_mul_of_nonneg_right hd (by positivity)
      linarith
    have h5 : 0 ≤ |n| * D + |N| * d := by
      have := mul_nonneg hnn (by omega : (0 : Int) ≤ D)
      have := mul_nonneg hN (by omega : (0 : Int) ≤ d)
      linarith
    by_contra hcon
    have hcon' : h ≤ |n| * D + |N| * d := by
      have : h ≤ |n * D - N * d| := by omega
      omega
    have : h * h ≤ (|n| * D + |N| * d) * (|n| * D + |N| * d) := by nlinarith
    have : h * h < h * h := by
      have hpos : 0 < h := by omega
      calc h * h ≤ (|n| * D + |N| * d) * (|n| * D + |N| * d) := this
        _ ≤ h * ((|N| + D) * (|N| + D)) := h4
        _ < h * h := by nlinarith
    omega
  have := Int.eq_zero_of_abs_lt_dvd hdvd habs
  omega

end DSymVerif.LA
