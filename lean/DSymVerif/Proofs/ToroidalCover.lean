/-
Property C15, phase 4: the 2D sentence.  What a successful run of the model of
`delaney2d::toroidal_cover` went through (`TorRun`), the entries of the model's `covers` (C05), the
selection test `orbit_types_2d(cov).all(v == 1)` read as a statement about ALL chambers and the three
index pairs, the cone list of `fundamental_group(cov)`, and curvature / Euler characteristic /
orbifold symbol of a branch-free oriented cover of a euclidean symbol.
-/
import DSymVerif.Proofs.Delaney3dSelect
import DSymVerif.Proofs.Delaney3dOriented
import DSymVerif.Proofs.Delaney3dMono
import DSymVerif.Proofs.Delaney3dReindex
import DSymVerif.Proofs.LowIndexFuel
import DSymVerif.Props.C05
import DSymVerif.Props.C08
import DSymVerif.Props.C09

namespace DSymVerif.D3
open DSymVerif DSymVerif.DS DSymVerif.D2 DSymVerif.FG DSymVerif.FGP DSymVerif.Cosets
open DSymVerif.CoversP DSymVerif.CosetP DSymVerif.CosetInvP

/-! ### the run -/

/-- what a run of the model of `toroidal_cover` that returns `cov` went through -/
structure TorRun (s cov : DSymData) : Prop where
  dim2 : s.dim = 2
  euc : D2.isEuclidean ⟨s, .partialSym⟩ = .ok true
  run : ∃ oc ts cs, orientedCover s = .ok oc ∧ D2.orbitTypes2d ⟨oc, .partialSym⟩ = .ok ts ∧
    covers oc (coverDegree ts) = .ok cs ∧ firstFlat cs = .ok cov

theorem toroidalCover_run {s cov : DSymData} (h : toroidalCover s = .ok cov) : TorRun s cov := by
  unfold toroidalCover at h
  by_cases hd : s.dim ≠ 2
  · rw [if_pos hd] at h; cases h
  · rw [if_neg hd] at h
    have hd2 : s.dim = 2 := not_not.mp hd
    cases he : D2.isEuclidean ⟨s, .partialSym⟩ with
    | ok b =>
      rw [he] at h
      cases b with
      | false => cases h
      | true =>
        simp only at h
        cases hoc : orientedCover s with
        | ok oc =>
          rw [hoc] at h
          simp only at h
          cases hts : D2.orbitTypes2d ⟨oc, .partialSym⟩ with
          | ok ts =>
            rw [hts] at h
            simp only at h
            cases hcs : covers oc (coverDegree ts) with
            | ok cs =>
              rw [hcs] at h
              exact ⟨hd2, he, oc, ts, cs, hoc, hts, hcs, h⟩
            | err => rw [hcs] at h; cases h
            | panic => rw [hcs] at h; cases h
          | err => rw [hts] at h; cases h
          | panic => rw [hts] at h; cases h
        | err => rw [hoc] at h; cases h
        | panic => rw [hoc] at h; cases h
    | err => rw [he] at h; cases h
    | panic => rw [he] at h; cases h

/-- the search loop returns the first entry that passes the test -/
theorem firstFlat_spec : ∀ (cs : List DSymData) {c : DSymData}, firstFlat cs = .ok c →
    c ∈ cs ∧ ∃ ts, D2.orbitTypes2d ⟨c, .partialSym⟩ = .ok ts ∧ ts.all (fun t => t.1 == 1) = true
  | [], _, h => by unfold firstFlat at h; cases h
  | a :: rest, c, h => by
    unfold firstFlat at h
    cases ht : D2.orbitTypes2d ⟨a, .partialSym⟩ with
    | ok ts =>
      rw [ht] at h
      simp only at h
      by_cases hall : ts.all (fun t => t.1 == 1) = true
      · rw [if_pos hall] at h
        cases h
        exact ⟨List.mem_cons_self .., ts, ht, hall⟩
      · rw [if_neg hall] at h
        obtain ⟨hm, r⟩ := firstFlat_spec rest h
        exact ⟨List.mem_cons_of_mem _ hm, r⟩
    | err => rw [ht] at h; cases h
    | panic => rw [ht] at h; cases h

/-- a symbol on which `is_euclidean` answers is complete, and its curvature is 0 -/
theorem euclidean_good {s : DSymData} (hs : ValidSym s) (hdim : s.dim = 2)
    (he : D2.isEuclidean ⟨s, .partialSym⟩ = .ok true) :
    Good2d ⟨s, .partialSym⟩ ∧ ∃ K, curvature ⟨s, .partialSym⟩ = .ok K ∧ K.toRat = 0 := by
  cases hK : curvature ⟨s, .partialSym⟩ with
  | ok K =>
    have hc : s.isCompletePartial = true := by
      by_contra hn
      have hf : (⟨s, .partialSym⟩ : Sym).isComplete = false := by
        show s.isCompletePartial = false
        simpa using hn
      have := (C08.asserts_panic ⟨s, .partialSym⟩ (Or.inr hf)).1
      rw [hK] at this
      cases this
    refine ⟨⟨hs, hdim, hc⟩, K, rfl, ?_⟩
    have := (C08.geometry_trichotomy ⟨s, .partialSym⟩ K hK).1
    rw [he] at this
    have hb : true = decide (K.toRat = 0) := Outcome.ok.inj this
    exact of_decide_eq_true hb.symm
  | err => unfold D2.isEuclidean at he; rw [hK] at he; cases he
  | panic => unfold D2.isEuclidean at he; rw [hK] at he; cases he

/-! ### coverings compose -/

theorem IsCoverOf.trans {a b c : DSymData} {k n : Nat} (hab : IsCoverOf a b k) (hbc : IsCoverOf b c n)
    (ha : 1 ≤ a.size) : IsCoverOf a c (n * k) := by
  have hbsz : 1 ≤ b.size := by rw [hab.size]; exact Nat.mul_pos hab.sheets ha
  have hk : 0 < k := hab.sheets
  refine ⟨Nat.mul_pos hbc.sheets hab.sheets, by rw [hbc.size, hab.size, Nat.mul_assoc],
    by rw [hbc.dim, hab.dim], hbc.valid, ?_, ?_, fun h => hbc.complete (hab.complete h),
    fun h => hbc.connected (hab.connected h)⟩
  · intro i d hi h1 h2
    have h2' : d ≤ n * b.size := by rw [hab.size, ← Nat.mul_assoc]; exact h2
    have hA := hbc.proj i d (by rw [hab.dim]; exact hi) h1 h2'
    have hr := cproj_range (d := d) hbsz
    have hB := hab.proj i (cproj b.size d) hi hr.1 (by rw [← hab.size]; exact hr.2)
    rw [← cproj_cproj a.size (c.dset.opU i d) k hk, ← hab.size, hA, hB, hab.size, cproj_cproj a.size d k hk]
  · intro i j d hi hj h1 h2
    have h2' : d ≤ n * b.size := by rw [hab.size, ← Nat.mul_assoc]; exact h2
    have hA := hbc.deg i j d (by rw [hab.dim]; exact hi) (by rw [hab.dim]; exact hj) h1 h2'
    have hr := cproj_range (d := d) hbsz
    have hB := hab.deg i j (cproj b.size d) hi hj hr.1 (by rw [← hab.size]; exact hr.2)
    rw [hA, hB, hab.size, cproj_cproj a.size d k hk]

/-- a covering in the sense of `IsCoverOf` from its adjacent degrees -/
theorem isCoverOf_of_adjacent {s c : DSymData} {n : Nat} (hn : 1 ≤ n) (hsize : c.size = n * s.size)
    (hdim : c.dim = s.dim) (hvc : ValidSym c) (hsz : 1 ≤ s.size)
    (hproj : ∀ i d, i ≤ s.dim → 1 ≤ d → d ≤ n * s.size →
      cproj s.size (c.dset.opU i d) = s.dset.opU i (cproj s.size d))
    (hdeg : ∀ i d, i < s.dim → 1 ≤ d → d ≤ n * s.size →
      c.mPartial i (i + 1) d = s.mPartial i (i + 1) (cproj s.size d))
    (hcompl : s.isCompletePartial = true → c.isCompletePartial = true)
    (hconn : s.view.isConnected = true → c.view.isConnected = true) : IsCoverOf s c n := by
  refine ⟨hn, hsize, hdim, hvc, hproj, ?_, hcompl, hconn⟩
  intro i j d hi hj h1 h2
  have hr := cproj_range (d := d) hsz
  have h2c : d ≤ c.size := by rw [hsize]; exact h2
  rcases Nat.lt_trichotomy i j with hlt | heq | hgt
  · by_cases ha : j = i + 1
    · subst ha; exact hdeg i d (by omega) h1 h2
    · rw [mPartial_far (Or.inl (by omega)) (by rw [hdim]; exact hi) (by rw [hdim]; exact hj) h1 h2c,
        mPartial_far (Or.inl (by omega)) hi hj hr.1 hr.2]
  · subst heq
    rw [mPartial_diag (by rw [hdim]; exact hi) h1 h2c, mPartial_diag hi hr.1 hr.2]
  · by_cases ha : i = j + 1
    · subst ha
      rw [DSymData.mPartial_symm c, DSymData.mPartial_symm s]
      exact hdeg j d (by omega) h1 h2
    · rw [mPartial_far (Or.inr (by omega)) (by rw [hdim]; exact hi) (by rw [hdim]; exact hj) h1 h2c,
        mPartial_far (Or.inr (by omega)) hi hj hr.1 hr.2]

/-- the oriented cover of a good 2D symbol is a covering with 1 or 2 sheets, oriented, good -/
theorem orientedCover_isCoverOf_2d {s oc : DSymData} (g : Good2d ⟨s, .partialSym⟩) (hsz : 1 ≤ s.size)
    (hoc : orientedCover s = .ok oc) :
    IsCoverOf s oc (if s.view.isOriented then 1 else 2) ∧ oc.view.isOriented = true ∧
      Good2d ⟨oc, .partialSym⟩ := by
  have hs : ValidSym s := g.valid
  have hdim2 : s.dim = 2 := g.dim
  have hdim : 1 ≤ s.dim := by omega
  obtain ⟨oc', hoc', hori, _, _⟩ := C05.oriented_cover_oriented s hs.toValidTables hsz hdim
  obtain ⟨oc'', hoc'', goc, _⟩ := C08.curvature_orientedCover s .partialSym g hsz
  have e1 : oc' = oc := by rw [hoc] at hoc'; exact (Outcome.ok.inj hoc').symm
  have e2 : oc'' = oc := by rw [hoc] at hoc''; exact (Outcome.ok.inj hoc'').symm
  rw [e1] at hori
  rw [e2] at goc
  refine ⟨?_, hori, goc⟩
  have hconn : s.view.isConnected = true → oc.view.isConnected = true :=
    fun hc => C05.oriented_cover_connected s hs.toValidTables hsz hdim hc oc hoc
  cases ho : s.view.isOriented with
  | true =>
    have := (C05.oriented_cover_covering s hs.toValidTables hsz hdim).2.1 ho
    rw [hoc] at this
    have he : oc = s := Outcome.ok.inj this
    rw [he]
    simp only [if_true]
    have hsd : s.size = s.dset.size := rfl
    apply isCoverOf_of_adjacent (le_refl 1) (by omega) rfl hs hsz
    · intro i e hi he1 he2
      have hr := hs.set.range i e hi he1 (by omega)
      rw [← hsd] at hr
      have hc1 : cproj s.size e = e := by
        unfold cproj; rw [Nat.mod_eq_of_lt (by omega)]; omega
      have hc2 : cproj s.size (s.dset.opU i e) = s.dset.opU i e := by
        unfold cproj; rw [Nat.mod_eq_of_lt (by omega)]; omega
      rw [hc1, hc2]
    · intro i e hi he1 he2
      have hc1 : cproj s.size e = e := by
        unfold cproj; rw [Nat.mod_eq_of_lt (by omega)]; omega
      rw [hc1]
    · exact fun h => h
    · exact fun h => h
  | false =>
    obtain ⟨c, hc, hcs, hcd, _, hproj⟩ := ((C05.oriented_cover_covering s hs.toValidTables hsz hdim).2.2 ho).2
    obtain ⟨c2, hc2, _, _, _, hdeg⟩ := C05.oriented_cover_preserves_degrees s hs.toValidTables hsz hdim ho
    have e3 : c = oc := by rw [hoc] at hc; exact (Outcome.ok.inj hc).symm
    have e4 : c2 = oc := by rw [hoc] at hc2; exact (Outcome.ok.inj hc2).symm
    rw [e3] at hcs hcd hproj
    rw [e4] at hdeg
    simp only [Bool.false_eq_true, if_false]
    exact isCoverOf_of_adjacent (by decide) hcs hcd goc.valid hsz hproj
      (fun i d hi h1 h2 => (hdeg i d hi h1 h2).2.2) (fun _ => goc.complete) hconn

/-! ### the entries of the model's `covers` -/

theorem forall₂_mem_right {α β : Type} {R : α → β → Prop} {l₁ : List α} {l₂ : List β}
    (h : List.Forall₂ R l₁ l₂) {b : β} (hb : b ∈ l₂) : ∃ a ∈ l₁, R a b := by
  induction h with
  | nil => cases hb
  | cons hab _ ih =>
    rcases List.mem_cons.1 hb with rfl | hb'
    · exact ⟨_, List.mem_cons_self .., hab⟩
    · obtain ⟨a, ha, hr⟩ := ih hb'
      exact ⟨a, List.mem_cons_of_mem _ ha, hr⟩

/-- every entry of the model's `covers(oc, k)` (no fuel hypothesis: `nodeFuel = searchFuel`) is the
    cover of a valid coset table of the returned presentation: a connected covering in the sense
    of C05 with at most `max k 1` sheets, with the operations of the table cover -/
theorem covers_entry {oc : DSymData} (hs : ValidSym oc) (hsz : 1 ≤ oc.size) (hdim : 1 ≤ oc.dim)
    {k : Nat} {cs : List DSymData} (h : covers oc k = .ok cs) {c : DSymData} (hc : c ∈ cs) :
    ∃ (fg : FundGroup) (_ : fundamentalGroup oc = .ok fg) (v : List (List Int))
      (hv : Valid (viewTab v) fg.nrGenerators fg.relators []),
      IsCoverOf oc c (viewTab v).size ∧
      TableOps oc c fg.edgeToWord (viewTab v) fg.nrGenerators ∧
      (stab0 hv).index = (viewTab v).size ∧ (viewTab v).size ≤ max k 1 := by
  have hrun : ∃ fg, FG.fundamentalGroup oc = .ok fg ∧
      Covers.covers oc k (nodeFuel fg.nrGenerators k) = .ok cs := by
    unfold covers Covers.coversAll at h
    unfold Covers.covers
    cases hfg : FG.fundamentalGroup oc with
    | ok fg => rw [hfg] at h; exact ⟨fg, rfl, h⟩
    | err => rw [hfg] at h; cases h
    | panic => rw [hfg] at h; cases h
  obtain ⟨fg, hfg, h⟩ := hrun
  obtain ⟨f, hf, hall⟩ := C05.covers_one_entry_per_conjugacy_class oc hs hsz hdim k
    (nodeFuel fg.nrGenerators k)
  have hfe : f = fg := by
    have : FG.fundamentalGroup oc = .ok f := hf
    rw [hfg] at this
    exact (Outcome.ok.inj this).symm
  rw [hfe] at hall
  obtain ⟨cs', hcs', hF2, _, _⟩ := hall
    (CanonP.fuelOK_of_ge_searchFuel fg.nrGenerators fg.relators k _ (le_refl _))
  rw [h] at hcs'
  have hce : cs' = cs := (Outcome.ok.inj hcs').symm
  rw [hce] at hF2
  obtain ⟨x, _, t, v, hv, _, _, _, h1, h2, h3, h4⟩ := forall₂_mem_right hF2 hc
  exact ⟨fg, hfg, v, hv, h1, h2, h3, h4⟩

/-- the group of an entry: the textbook orbifold group of the cover embeds into that of the base
    with range the stabiliser of row 0 of the monodromy action on the rows of the table, a subgroup
    whose index is the number of sheets -/
theorem covers_entry_group {oc c : DSymData} (hs : ValidSym oc) (hsz : 1 ≤ oc.size) (hdim : 1 ≤ oc.dim)
    (hconn : oc.view.isConnected = true) {fg : FundGroup} (hfg : fundamentalGroup oc = .ok fg)
    {tab : SpecC11.Tab} (hv : Valid tab fg.nrGenerators fg.relators [])
    (hcov : IsCoverOf oc c tab.size) (hops : TableOps oc c fg.edgeToWord tab fg.nrGenerators)
    (hidx : (stab0 hv).index = tab.size) :
    ((MulAction.stabilizer (Equiv.Perm (Fin tab.size)) (⟨0, hv.pos⟩ : Fin tab.size)).comap
      (rhoT hs hdim hfg hv)).index = tab.size ∧
    ∃ φ : TGroup c →* TGroup oc, Function.Injective φ ∧
      φ.range = (MulAction.stabilizer (Equiv.Perm (Fin tab.size)) (⟨0, hv.pos⟩ : Fin tab.size)).comap
        (rhoT hs hdim hfg hv) := by
  have hlet := (fundamentalGroup_letters oc fg hfg).1
  obtain ⟨h1, _⟩ := transfer_stabiliser hlet hv (presIso hs hdim hfg) (stab0 hv).subtype
    (Subgroup.subtype_injective _) (by rw [Subgroup.range_subtype]; rfl) hidx
  obtain ⟨⟨φ, _, _, hinj, hrange⟩, _⟩ :=
    C05.cover_group_is_stabiliser oc c hs hsz hdim hconn fg hfg tab [] hv hcov hops
  exact ⟨h1, φ, hinj, hrange⟩

/-! ### the selection test: all branching numbers are 1 -/

theorem mem_typesOf {y : DSymData} {i j d : Nat} (hp : (i, j) ∈ [(0, 1), (0, 2), (1, 2)])
    (hd : d ∈ y.view.orbitReps2d i j) : (vN y i j d, looplessB y i j d) ∈ typesOf y := by
  unfold typesOf
  simp only [List.mem_cons, Prod.mk.injEq, List.mem_nil_iff, or_false] at hp
  rcases hp with ⟨rfl, rfl⟩ | ⟨rfl, rfl⟩ | ⟨rfl, rfl⟩
  · exact List.mem_append_left _ (List.mem_map_of_mem hd)
  · exact List.mem_append_right _ (List.mem_append_left _ (List.mem_map_of_mem hd))
  · exact List.mem_append_right _ (List.mem_append_right _ (List.mem_map_of_mem hd))

/-- if `orbit_types_2d` lists only branching numbers 1, then `v_ij(x) = 1` for EVERY chamber `x`
    and each of the index pairs (0,1), (0,2), (1,2) -/
theorem all_v_one {y : DSymData} (g : Good2d ⟨y, .partialSym⟩)
    (hall : (typesOf y).all (fun t => t.1 == 1) = true) {i j x : Nat}
    (hp : (i, j) ∈ [(0, 1), (0, 2), (1, 2)]) (h1 : 1 ≤ x) (h2 : x ≤ y.size) :
    y.vPartial i j x = .ok (some 1) := by
  have hv : ValidSym y := g.valid
  have hd2 : y.dim = 2 := g.dim
  have hij : i ≤ y.dim ∧ j ≤ y.dim := by
    simp only [List.mem_cons, Prod.mk.injEq, List.mem_nil_iff, or_false] at hp
    rcases hp with ⟨rfl, rfl⟩ | ⟨rfl, rfl⟩ | ⟨rfl, rfl⟩ <;> omega
  have hreps := orbitReps2d_ok hv.set hij.1 hij.2
  obtain ⟨d, hd, horb⟩ := hreps.cover x h1 h2
  have hdr := hreps.range d hd
  have hmem := mem_typesOf hp hd
  have hone : vN y i j d = 1 := by
    have := List.all_eq_true.1 hall _ hmem
    simpa using this
  obtain ⟨b, hb⟩ := hv.vPartial_some hij.1 hij.2 hdr.1 hdr.2
  have hbv : vN y i j d = b := by unfold vN; rw [hb]
  rw [(rv_const_orb hv hij.1 hij.2 hdr horb).2, hb, ← hbv, hone]

/-- no 2-orbit with branching number > 1 ⇒ the model of `fundamental_group` returns no cones -/
theorem no_cones {y : DSymData} (hv : ValidSym y) (hd2 : y.dim = 2)
    (hone : ∀ i j x, (i, j) ∈ [(0, 1), (0, 2), (1, 2)] → 1 ≤ x → x ≤ y.size →
      y.vPartial i j x = .ok (some 1))
    {f : FundGroup} (hf : fundamentalGroup y = .ok f) : f.cones = [] := by
  rw [List.eq_nil_iff_forall_not_mem]
  intro c hc
  obtain ⟨i, j, d, word, degree, hij, hj, hd, ⟨_, _, _, hvp⟩, hgt, _⟩ :=
    (C09.cones_are_traced_words y f hf c).1 hc
  have hi : i ≤ y.dim := by omega
  have hdr := (orbitReps2d_ok hv.set hi hj).range d hd
  rcases Nat.eq_or_lt_of_le hij with heq | hlt
  · subst heq
    rw [y.vPartial_diag hi hdr.1 hdr.2] at hvp
    cases hvp
    omega
  · have hp : (i, j) ∈ [(0, 1), (0, 2), (1, 2)] := by
      have : (i = 0 ∧ j = 1) ∨ (i = 0 ∧ j = 2) ∨ (i = 1 ∧ j = 2) := by omega
      rcases this with ⟨rfl, rfl⟩ | ⟨rfl, rfl⟩ | ⟨rfl, rfl⟩ <;> simp
    rw [hone i j d hp hdr.1 hdr.2] at hvp
    cases hvp
    omega

/-! ### curvature, Euler characteristic, orbifold symbol -/

theorem census_empty {ts : List (Nat × Bool)} (hall : ts.all (fun t => t.1 == 1) = true) :
    conesOf ts = [] ∧ cornersOf ts = [] := by
  have hno : ∀ t ∈ ts, ¬ t.1 > 1 := by
    intro t ht
    have := List.all_eq_true.1 hall t ht
    have h1 : t.1 = 1 := by simpa using this
    omega
  unfold conesOf cornersOf
  constructor
  · rw [List.map_eq_nil_iff, List.filter_eq_nil_iff]
    intro t ht
    have := hno t ht
    simp [this]
  · rw [List.map_eq_nil_iff, List.filter_eq_nil_iff]
    intro t ht
    have := hno t ht
    simp [this]

/-- **a branch-free oriented cover of a flat symbol is a torus, combinatorially**: curvature 0,
    Euler characteristic `F − E + V = 0` of the chamber triangulation, and the model of
    `orbifold_symbol` answers `o` (no cones, no boundary, orientable, one handle) -/
theorem flat_oriented_branchfree_is_torus {oc c : DSymData} {n : Nat}
    (goc : Good2d ⟨oc, .partialSym⟩) (hocsz : 1 ≤ oc.size)
    {K : Frac} (hK : curvature ⟨oc, .partialSym⟩ = .ok K) (hK0 : K.toRat = 0)
    (hcov : IsCoverOf oc c n) (hori : c.view.isOriented = true)
    (hall : (typesOf c).all (fun t => t.1 == 1) = true) :
    Good2d ⟨c, .partialSym⟩ ∧
    (∃ K', curvature ⟨c, .partialSym⟩ = .ok K' ∧ K'.toRat = 0) ∧
    eulerCharacteristic ⟨c, .partialSym⟩ = 0 ∧
    orbifoldSymbol ⟨c, .partialSym⟩ = .ok { cones := [], bnds := [], orientable := true, count := 1 } := by
  have hd2 : oc.dim = 2 := goc.dim
  have hcd : c.dim = 2 := by rw [hcov.dim]; exact hd2
  have gc : Good2d ⟨c, .partialSym⟩ := ⟨hcov.valid, hcd, hcov.complete goc.complete⟩
  obtain ⟨_, hsum⟩ := cover_chamberSum goc.valid hd2 goc.complete hocsz n hcov.valid hcov.size hcov.dim
    (fun i d hi h1 h2 => hcov.deg i (i + 1) d (Nat.le_of_lt hi) hi h1 h2)
  have hKc := curvature_eq_chamberSum gc
  have hKo := curvature_eq_chamberSum goc
  rw [hK] at hKo
  have hKe : K = Frac.ofRat (chamberSum oc) := Outcome.ok.inj hKo
  have hzero : (Frac.ofRat (chamberSum c)).toRat = 0 := by
    rw [Frac.toRat_ofRat, hsum]
    have : chamberSum oc = 0 := by rw [← hK0, hKe, Frac.toRat_ofRat]
    rw [this, mul_zero]
  obtain ⟨K2, hK2, hv2⟩ := C08.curvature_euler_formula ⟨c, .partialSym⟩ gc
  have hcen := census_empty hall
  have hchi : eulerCharacteristic ⟨c, .partialSym⟩ = 0 := by
    rw [hKc] at hK2
    have hKe2 : Frac.ofRat (chamberSum c) = K2 := Outcome.ok.inj hK2
    rw [← hKe2, hzero] at hv2
    have h3 : conesOf (typesOf c) = [] := hcen.1
    have h4 : cornersOf (typesOf c) = [] := hcen.2
    simp only [h3, h4, List.map_nil, List.sum_nil, mul_zero, sub_zero] at hv2
    have : ((eulerCharacteristic ⟨c, .partialSym⟩ : Int) : ℚ) = 0 := by linarith
    exact_mod_cast this
  refine ⟨gc, ⟨_, hKc, hzero⟩, hchi, ?_⟩
  have htb := (C08.chi_even_closed_orientable c hcov.valid hcd hori .partialSym).2
  have hcd' := (C08.orbitTypes2d_value ⟨c, .partialSym⟩ gc).2
  have hw : c.view.isWeaklyOriented = true := by
    have := hori
    unfold View.isOriented at this
    rw [Bool.and_eq_true] at this
    exact this.2
  unfold orbifoldSymbol
  have hdim' : ((⟨c, .partialSym⟩ : Sym).dim != 2) = false := by
    show (c.dim != 2) = false
    rw [hcd]; rfl
  have hcompl' : (!(⟨c, .partialSym⟩ : Sym).isComplete) = false := by
    show (!c.isCompletePartial) = false
    rw [gc.complete]; rfl
  rw [hdim', hcompl', htb, hcd', hchi]
  have h3 : conesOf (typesOf c) = [] := hcen.1
  simp only [h3, Bool.false_eq_true, if_false]
  show (if (2 : Int) - (0 + ((([] : List (List Nat)).length : Nat) : Int)) < 0 then Outcome.panic else _) = _
  rw [if_neg (by decide)]
  show Outcome.ok _ = Outcome.ok _
  congr 1
  show OrbSym.mk _ _ _ _ = _
  have : (⟨c, .partialSym⟩ : Sym).view.isWeaklyOriented = true := hw
  rw [this]
  rfl

/-! ### everything a returned toroidal cover went through, with the facts of each stage -/

theorem toroidalCover_facts {s cov : DSymData} (hs : ValidSym s) (hsz : 1 ≤ s.size)
    (h : toroidalCover s = .ok cov) :
    ∃ (oc : DSymData) (ts : List (Nat × Bool)) (cs : List DSymData) (fg : FundGroup)
      (hsoc : ValidSym oc) (hdim : 1 ≤ oc.dim) (_ : fundamentalGroup oc = .ok fg)
      (v : List (List Int)) (hv : Valid (viewTab v) fg.nrGenerators fg.relators []) (K : Frac),
      s.dim = 2 ∧ Good2d ⟨s, .partialSym⟩ ∧
      orientedCover s = .ok oc ∧ Good2d ⟨oc, .partialSym⟩ ∧ oc.view.isOriented = true ∧ 1 ≤ oc.size ∧
      curvature ⟨oc, .partialSym⟩ = .ok K ∧ K.toRat = 0 ∧
      IsCoverOf s oc (if s.view.isOriented then 1 else 2) ∧
      D2.orbitTypes2d ⟨oc, .partialSym⟩ = .ok ts ∧ covers oc (coverDegree ts) = .ok cs ∧ cov ∈ cs ∧
      IsCoverOf oc cov (viewTab v).size ∧
      TableOps oc cov fg.edgeToWord (viewTab v) fg.nrGenerators ∧
      (stab0 hv).index = (viewTab v).size ∧ (viewTab v).size ≤ max (coverDegree ts) 1 ∧
      cov.view.isOriented = true ∧ Good2d ⟨cov, .partialSym⟩ ∧
      (typesOf cov).all (fun t => t.1 == 1) = true := by
  obtain ⟨hd2, he, oc, ts, cs, hoc, hts, hcs, hff⟩ := toroidalCover_run h
  obtain ⟨g, K0, hK0, hK0z⟩ := euclidean_good hs hd2 he
  obtain ⟨hcovs, hori, goc⟩ := orientedCover_isCoverOf_2d g hsz hoc
  have hocsz : 1 ≤ oc.size := by rw [hcovs.size]; exact Nat.mul_pos hcovs.sheets hsz
  have hocd2 : oc.dim = 2 := goc.dim
  have hocd : 1 ≤ oc.dim := by omega
  obtain ⟨oc', hoc', _, K1, K2, hK1, hK2, hK12⟩ := C08.curvature_orientedCover s .partialSym g hsz
  have e1 : oc' = oc := by rw [hoc] at hoc'; exact (Outcome.ok.inj hoc').symm
  rw [e1] at hK2
  have hK2z : K2.toRat = 0 := by
    rw [hK0] at hK1
    have : K0 = K1 := Outcome.ok.inj hK1
    rw [hK12, ← this, hK0z, mul_zero]
  obtain ⟨hmem, ts', hts', hall⟩ := firstFlat_spec cs hff
  obtain ⟨fg, hfg, v, hv, hcov, hops, hidx, hle⟩ := covers_entry goc.valid hocsz hocd hcs hmem
  have gc : Good2d ⟨cov, .partialSym⟩ :=
    ⟨hcov.valid, by show cov.dim = 2; rw [hcov.dim]; exact hocd2, hcov.complete goc.complete⟩
  have horic : cov.view.isOriented = true :=
    cover_of_oriented_is_oriented goc.valid.toValidTables hcov.valid.toValidTables hori hocsz hcov.dim
      (fun i d hi h1 h2 => hcov.proj i d hi h1 (by rw [← hcov.size]; exact h2))
  have hty := (C08.orbitTypes2d_value ⟨cov, .partialSym⟩ gc).1
  rw [hts'] at hty
  have hte : ts' = typesOf cov := Outcome.ok.inj hty
  rw [hte] at hall
  exact ⟨oc, ts, cs, fg, goc.valid, hocd, hfg, v, hv, K2, hd2, g, hoc, goc, hori, hocsz, hK2, hK2z, hcovs,
    hts, hcs, hmem, hcov, hops, hidx, hle, horic, gc, hall⟩

end DSymVerif.D3
