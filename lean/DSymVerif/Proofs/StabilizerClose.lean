/-
C13, invariant of `close_relations_in_place`: every word stored in `edge_to_word`, read in the
returned generators, spells the Schreier element `u_c · g · u_d⁻¹` of its edge (`EInv`);
`edge_to_word` as a finite map; the model's `trace_word` multiplies edge labels along a path
(`traceWord_vol`); the word deduced for the single cut of a relator cycle is the Schreier
element of the cut edge (`cut_value`); hence `closeLoop` keeps the invariant (`closeLoop_inv`).
-/
import DSymVerif.Proofs.StabilizerGroup
import DSymVerif.Proofs.StabilizerTable

set_option linter.unusedSectionVars false

namespace DSymVerif.StabP
open DSymVerif DSymVerif.SpecC11 DSymVerif.CosetP DSymVerif.FWP DSymVerif.Cosets
open DSymVerif.Stab hiding traceWord

/-! ### `edge_to_word` as a finite map -/

theorem idx_inj {k p p' a a' : Nat} (ha : a < k) (ha' : a' < k) (h : p * k + a = p' * k + a') :
    p = p' ∧ a = a' := by
  have hk : 0 < k := by omega
  have h1 : (p * k + a) / k = p := by
    rw [Nat.add_comm, Nat.add_mul_div_right _ _ hk, Nat.div_eq_of_lt ha]; simp
  have h2 : (p' * k + a') / k = p' := by
    rw [Nat.add_comm, Nat.add_mul_div_right _ _ hk, Nat.div_eq_of_lt ha']; simp
  have hp : p = p' := by rw [← h1, ← h2, h]
  subst hp
  exact ⟨rfl, by omega⟩

theorem EMap.insert_n (m : EMap) (p : Nat) (g : Int) (w : List Int) : (m.insert p g w).n = m.n := by
  unfold EMap.insert
  split <;> rfl

theorem EMap.get_insert (m : EMap) {g : Int} (hg : InRange m.n g) (p : Nat) (w : List Int)
    (p' : Nat) (g' : Int) :
    (m.insert p g w).get p' g' = if p' = p ∧ g' = g then some w else m.get p' g' := by
  have hi : m.idx p g = some (p * (2 * m.n + 1) + (g + m.n).toNat) := by
    unfold EMap.idx InRange at *
    rw [if_pos hg]
  unfold EMap.insert
  rw [hi]
  simp only
  unfold EMap.get
  have hidx : ∀ (m' : EMap), m'.idx p' g' =
      if -(m'.n : Int) ≤ g' ∧ g' ≤ m'.n then some (p' * (2 * m'.n + 1) + (g' + m'.n).toNat) else none :=
    fun _ => rfl
  simp only [hidx]
  by_cases hr : -(m.n : Int) ≤ g' ∧ g' ≤ m.n
  · simp only [hr, and_self, if_true]
    by_cases e : p' = p ∧ g' = g
    · obtain ⟨rfl, rfl⟩ := e
      simp only [and_self, if_true]
      rw [Array.getD_eq_getD_getElem?, Array.getElem?_setIfInBounds]
      simp only [if_true, Array.size_append, Array.size_replicate]
      rw [if_pos (by omega)]
      rfl
    · rw [if_neg e]
      have hne : p * (2 * m.n + 1) + (g + m.n).toNat ≠ p' * (2 * m.n + 1) + (g' + m.n).toNat := by
        intro h
        have := idx_inj (k := 2 * m.n + 1) (by unfold InRange at hg; omega) (by omega) h
        apply e
        refine ⟨this.1.symm, ?_⟩
        unfold InRange at hg
        omega
      rw [Array.getD_eq_getD_getElem?, Array.getD_eq_getD_getElem?, Array.getElem?_setIfInBounds,
        if_neg hne, Array.getElem?_append]
      split
      · rfl
      · next hlt =>
        rw [Array.getElem?_replicate]
        have : m.cells[p' * (2 * m.n + 1) + (g' + ↑m.n).toNat]? = none := by
          simp; omega
        rw [this]
        split <;> rfl
  · simp only [hr, if_false]
    have e : ¬ (p' = p ∧ g' = g) := by
      rintro ⟨_, rfl⟩; exact hr hg
    rw [if_neg e]

theorem EMap.get_new (n p : Nat) (g : Int) : (EMap.new n).get p g = none := by
  unfold EMap.get EMap.new
  split
  · simp
  · rfl

/-! ### edge words evaluate to Schreier elements -/

section Close
variable {t : Tab} {n : Nat} {rels : List (List Int)} (u : Nat → List Int) (gens : List (List Int))

/-- value in `⟨1..n | rels⟩` of a word in the new generators: letter `k` ↦ the `k`-th returned generator word -/
noncomputable def psi (n : Nat) (rels : List (List Int)) (gens : List (List Int)) (W : List Int) : GP n rels :=
  liftDen (fun k => mkG n rels (gens.getD (k - 1) [])) W

/-- label of an edge: the value of its word, 1 if it has none -/
noncomputable def sigE (n : Nat) (rels : List (List Int)) (gens : List (List Int)) (e2w : EMap) (c : Nat) (g : Int) :
    GP n rels :=
  match e2w.get c g with
  | some W => psi n rels gens W
  | none => 1

def Known (e2w : EMap) (c : Nat) (g : Int) : Prop := (e2w.get c g).isSome = true

/-- every edge word spells the Schreier element of its edge, and edges are known in both directions -/
structure EInv (t : Tab) (n : Nat) (rels : List (List Int)) (u : Nat → List Int) (gens : List (List Int))
    (e2w : EMap) : Prop where
  ngens : e2w.n = n
  ok : ∀ c g d W, entry t n c g = some d → e2w.get c g = some W →
    psi n rels gens W = sch n rels u t c g ∧ Known e2w d (-g)

variable {u gens}

theorem sigE_known {e2w : EMap} (he : EInv t n rels u gens e2w) {c : Nat} {g : Int} {d : Nat}
    (hent : entry t n c g = some d) (hk : Known e2w c g) :
    sigE n rels gens e2w c g = sch n rels u t c g := by
  unfold Known at hk
  cases hW : e2w.get c g with
  | none => simp [hW] at hk
  | some W => simp only [sigE, hW]; exact (he.ok c g d W hent hW).1

theorem sigE_antisym (hinv : InvConsistent t n) {e2w : EMap} (he : EInv t n rels u gens e2w) :
    AntiSym t n (sigE n rels gens e2w) := by
  intro c g d hent
  have hent' := hinv _ _ _ hent
  by_cases hk : Known e2w c g
  · have hk' : Known e2w d (-g) := by
      unfold Known at hk
      cases hW : e2w.get c g with
      | none => simp [hW] at hk
      | some W => exact (he.ok c g d W hent hW).2
    rw [sigE_known he hent hk, sigE_known he hent' hk', sch_antisym n rels u hinv c g d hent]
  · have hk' : ¬ Known e2w d (-g) := by
      intro hk'
      apply hk
      unfold Known at hk'
      cases hW : e2w.get d (-g) with
      | none => simp [hW] at hk'
      | some W =>
        have := (he.ok d (-g) c W hent' hW).2
        simpa using this
    unfold Known at hk hk'
    have h1 : e2w.get c g = none := by
      cases h : e2w.get c g with
      | none => rfl
      | some _ => simp [h] at hk
    have h2 : e2w.get d (-g) = none := by
      cases h : e2w.get d (-g) with
      | none => rfl
      | some _ => simp [h] at hk'
    simp [sigE, h1, h2]

theorem vol_known {e2w : EMap} (he : EInv t n rels u gens e2w) : ∀ (w : List Int) (c : Nat),
    OnPath t n (Known e2w) c w → vol t n (sigE n rels gens e2w) c w = vol t n (sch n rels u t) c w := by
  intro w c h
  apply vol_congr
  induction w generalizing c with
  | nil => trivial
  | cons g w ih =>
    simp only [OnPath] at h ⊢
    cases hent : entry t n c g with
    | none => trivial
    | some d =>
      simp only [hent] at h ⊢
      exact ⟨sigE_known he hent h.1, ih d h.2⟩

theorem psi_empty : psi n rels gens FW.empty = 1 := liftDen_nil _

/-- the model's `trace_word` multiplies the labels along the path -/
theorem traceWord_vol (hcomp : complete t n = true) (e2w : EMap) : ∀ (w : List Int) (p d : Nat) (res : List Int),
    traceWord t n p w = some d →
    ∃ W', Stab.traceWord (Table.ofView n t) e2w p w res = .ok W' ∧
      psi n rels gens W' = psi n rels gens res * vol t n (sigE n rels gens e2w) p w
  | [], p, d, res, _ => ⟨res, rfl, by simp [vol]⟩
  | g :: w, p, d, res, h => by
    simp only [traceWord] at h
    cases hent : entry t n p g with
    | none => simp [hent] at h
    | some q =>
      simp only [hent] at h
      obtain ⟨W', h1, h2⟩ := traceWord_vol hcomp e2w w q d
        (FW.mulAssign res ((e2w.get p g).getD FW.empty)) h
      refine ⟨W', ?_, ?_⟩
      · simp only [Stab.traceWord, get_ofView hent, h1]
      · rw [h2]
        unfold psi at *
        rw [liftDen_mulAssign]
        simp only [vol, hent, sigE, mul_assoc]
        congr 1
        cases e2w.get p g with
        | none => simp [FW.empty, FW.new, FW.normalized, liftDen_nil]
        | some W => simp [psi]


/-! ### the cuts of a relator cycle -/

/-- positions of the relator `r`, read from row `x`, whose edge has no word -/
def unknownPos (t : Tab) (n : Nat) (e2w : EMap) : List Int → Nat → Nat → List (Nat × Int × Nat)
  | [], _, _ => []
  | h :: hs, i, x =>
    let rest := match entry t n x h with
      | some y => unknownPos t n e2w hs (i + 1) y
      | none => []
    if (e2w.get x h).isNone then (x, h, i) :: rest else rest

theorem cutsGo_eq (hcomp : complete t n = true) (e2w : EMap) : ∀ (r : List Int) (i x y : Nat)
    (acc : List (Nat × Int × Nat)), traceWord t n x r = some y →
    cutsGo (Table.ofView n t) e2w r i x acc = .ok (acc.reverse ++ unknownPos t n e2w r i x)
  | [], i, x, y, acc, _ => by simp [cutsGo, unknownPos]
  | h :: hs, i, x, y, acc, htr => by
    simp only [traceWord] at htr
    cases hent : entry t n x h with
    | none => simp [hent] at htr
    | some z =>
      simp only [hent] at htr
      simp only [cutsGo, get_ofView hent, unknownPos, hent]
      rw [cutsGo_eq hcomp e2w hs (i + 1) z y _ htr]
      by_cases hk : (e2w.get x h).isNone = true
      · simp [hk]
      · simp [hk]

theorem unknownPos_nil {e2w : EMap} : ∀ (r : List Int) (i x y : Nat), traceWord t n x r = some y →
    unknownPos t n e2w r i x = [] → OnPath t n (Known e2w) x r
  | [], _, _, _, _, _ => trivial
  | h :: hs, i, x, y, htr, hu => by
    simp only [traceWord] at htr
    cases hent : entry t n x h with
    | none => simp [hent] at htr
    | some z =>
      simp only [hent] at htr
      simp only [unknownPos, hent] at hu
      by_cases hk : (e2w.get x h).isNone = true
      · simp [hk] at hu
      · simp only [hk, Bool.false_eq_true, if_false] at hu
        simp only [OnPath, hent]
        refine ⟨?_, unknownPos_nil hs (i + 1) z y htr hu⟩
        unfold Known
        cases hg : e2w.get x h with
        | none => simp [hg] at hk
        | some _ => rfl

theorem unknownPos_single {e2w : EMap} : ∀ (r : List Int) (i0 x0 y : Nat) (x : Nat) (h : Int) (i : Nat),
    traceWord t n x0 r = some y → unknownPos t n e2w r i0 x0 = [(x, h, i)] →
    ∃ pre post z, r = pre ++ h :: post ∧ i = i0 + pre.length ∧ traceWord t n x0 pre = some x ∧
      OnPath t n (Known e2w) x0 pre ∧ entry t n x h = some z ∧ OnPath t n (Known e2w) z post ∧
      traceWord t n z post = some y
  | [], _, _, _, _, _, _, _, hu => by simp [unknownPos] at hu
  | h0 :: hs, i0, x0, y, x, h, i, htr, hu => by
    simp only [traceWord] at htr
    cases hent : entry t n x0 h0 with
    | none => simp [hent] at htr
    | some z0 =>
      simp only [hent] at htr
      simp only [unknownPos, hent] at hu
      by_cases hk : (e2w.get x0 h0).isNone = true
      · simp only [hk, if_true, List.cons.injEq, Prod.mk.injEq] at hu
        obtain ⟨⟨rfl, rfl, rfl⟩, hrest⟩ := hu
        exact ⟨[], hs, z0, rfl, by simp, rfl, trivial, hent,
          unknownPos_nil hs (i0 + 1) z0 y htr hrest, htr⟩
      · simp only [hk, Bool.false_eq_true, if_false] at hu
        obtain ⟨pre, post, z, h1, h2, h3, h4, h5, h6, h7⟩ :=
          unknownPos_single hs (i0 + 1) z0 y x h i htr hu
        refine ⟨h0 :: pre, post, z, by rw [h1]; rfl, by simp; omega, ?_, ?_, h5, h6, h7⟩
        · simp only [traceWord, hent, h3]
        · simp only [OnPath, hent]
          refine ⟨?_, h4⟩
          unfold Known
          cases hg : e2w.get x0 h0 with
          | none => simp [hg] at hk
          | some _ => rfl

theorem unknownPos_mem {e2w : EMap} : ∀ (r : List Int) (i x : Nat) (c : Nat × Int × Nat),
    c ∈ unknownPos t n e2w r i x → e2w.get c.1 c.2.1 = none
  | [], _, _, _, h => by simp [unknownPos] at h
  | h0 :: hs, i, x, c, h => by
    simp only [unknownPos] at h
    have hrest : ∀ c, c ∈ (match entry t n x h0 with
        | some y => unknownPos t n e2w hs (i + 1) y
        | none => []) → e2w.get c.1 c.2.1 = none := by
      intro c hc
      cases hent : entry t n x h0 with
      | none => simp [hent] at hc
      | some y => simp only [hent] at hc; exact unknownPos_mem hs (i + 1) y c hc
    by_cases hk : (e2w.get x h0).isNone = true
    · simp only [hk, if_true, List.mem_cons] at h
      rcases h with rfl | h
      · simpa using hk
      · exact hrest c h
    · simp only [hk, Bool.false_eq_true, if_false] at h
      exact hrest c h

theorem rotated_split (pre post : List Int) (h : Int) :
    FW.rotated (pre ++ h :: post) ((pre.length : Int) + 1) = FW.normalized (post ++ pre ++ [h]) := by
  have hne : pre ++ h :: post ≠ [] := by simp
  rw [rotated_of_ne_nil hne]
  have hlen : (pre ++ h :: post).length = pre.length + 1 + post.length := by simp; omega
  by_cases hp : post = []
  · subst hp
    have : (((pre.length : Int) + 1) % ((pre ++ [h]).length : Int)).toNat = 0 := by
      simp
    rw [this]
    simp
  · have hpl : 0 < post.length := List.length_pos_iff.mpr hp
    have : (((pre.length : Int) + 1) % ((pre ++ h :: post).length : Int)).toNat = pre.length + 1 := by
      rw [hlen]
      rw [Int.emod_eq_of_lt (by omega) (by push_cast; omega)]
      omega
    rw [this]
    congr 1
    have h1 : (pre ++ h :: post) = (pre ++ [h]) ++ post := by simp
    rw [h1, List.drop_left' (by simp), List.take_left' (by simp)]
    simp


/-- a relator rotation: trivial in the group and closing at every row -/
structure RelOk (t : Tab) (n : Nat) (rels : List (List Int)) (r : List Int) : Prop where
  one : mkG n rels r = 1
  closes : ∀ c, c < t.size → traceWord t n c r = some c

/-- the word deduced for the single cut of a relator cycle spells the Schreier element of that edge -/
theorem cut_value (hcomp : complete t n = true) (hinv : InvConsistent t n) {e2w : EMap}
    (he : EInv t n rels u gens e2w) {pre post : List Int} {h : Int} {point x z : Nat}
    (hr : RelOk t n rels (pre ++ h :: post)) (_hpoint : point < t.size)
    (hpre : traceWord t n point pre = some x) (hkpre : OnPath t n (Known e2w) point pre)
    (hent : entry t n x h = some z) (hkpost : OnPath t n (Known e2w) z post)
    (hpost : traceWord t n z post = some point) :
    ∃ W', Stab.traceWord (Table.ofView n t) e2w x (cutWord (pre ++ h :: post) pre.length h) FW.empty = .ok W' ∧
      psi n rels gens W' = sch n rels u t x h := by
  have hanti := sigE_antisym (rels := rels) (u := u) (gens := gens) hinv he
  have hent' := hinv _ _ _ hent
  -- the raw rotation `post ++ pre ++ [h]` leads from z back to z
  have hraw : traceWord t n z (post ++ pre ++ [h]) = some z := by
    rw [traceWord_append, traceWord_append, hpost]
    simp only [Option.bind_some, hpre, traceWord, hent]
  have hW1 : traceWord t n z (FW.normalized (post ++ pre ++ [h])) = some z := trace_normalized hinv _ _ _ hraw
  have hW1' : traceWord t n z (FW.normalized (post ++ pre ++ [h]) ++ [-h]) = some x :=
    traceWord_snoc_intro hW1 hent'
  have hW2 : traceWord t n z (FW.normalized (FW.normalized (post ++ pre ++ [h]) ++ [-h])) = some x :=
    trace_normalized hinv _ _ _ hW1'
  have hcw : cutWord (pre ++ h :: post) pre.length h =
      FW.normalized ((FW.normalized (FW.normalized (post ++ pre ++ [h]) ++ [-h])).reverse.map (fun x => -x)) := by
    unfold cutWord
    rw [rotated_split]
    rfl
  have htr3 := trace_inverse hinv _ _ _ hW2
  have hcwt : traceWord t n x (cutWord (pre ++ h :: post) pre.length h) = some z := by
    rw [hcw]; exact trace_normalized hinv _ _ _ htr3
  obtain ⟨W', hW', hpsi⟩ := traceWord_vol (rels := rels) (gens := gens) hcomp e2w _ x z FW.empty hcwt
  refine ⟨W', hW', ?_⟩
  rw [hpsi, psi_empty, one_mul, hcw, vol_normalized hinv hanti htr3, vol_invRaw hinv hanti _ _ _ hW2,
    vol_normalized hinv hanti hW1', vol_append _ _ _ _ _ hW1, vol_single _ hent',
    vol_normalized hinv hanti hraw, hanti _ _ _ hent]
  have hpp : traceWord t n z (post ++ pre) = some x := by
    rw [traceWord_append, hpost]; exact hpre
  rw [vol_append _ _ _ _ _ hpp, vol_single _ hent]
  simp only [mul_inv_cancel_right]
  rw [vol_append _ _ _ _ _ hpost, vol_known he post z hkpost, vol_known he pre point hkpre,
    vol_sch n rels u post z point hpost, vol_sch n rels u pre point x hpre]
  have hone : mkG n rels pre * mkG n rels [h] * mkG n rels post = 1 := by
    have := hr.one
    rw [mkG_append] at this
    have h2 : mkG n rels (h :: post) = mkG n rels [h] * mkG n rels post := by
      rw [← mkG_append]; rfl
    rw [h2, ← mul_assoc] at this
    exact this
  have hh : mkG n rels [h] = (mkG n rels pre)⁻¹ * (mkG n rels post)⁻¹ := by
    have : mkG n rels [h] = (mkG n rels pre)⁻¹ * (mkG n rels pre * mkG n rels [h] * mkG n rels post) *
        (mkG n rels post)⁻¹ := by simp [mul_assoc]
    rw [this, hone, mul_one]
  simp only [sch, hent, hh, mul_inv_rev, inv_inv, mul_assoc, inv_mul_cancel_left]


/-! ### `close_relations_in_place` keeps the invariant -/

/-- every queued edge word spells the Schreier element of its edge -/
def QInv (t : Tab) (n : Nat) (rels : List (List Int)) (u : Nat → List Int) (gens : List (List Int))
    (q : Queue) : Prop :=
  ∀ e ∈ q, ∃ d, entry t n e.1 e.2.1 = some d ∧ psi n rels gens e.2.2 = sch n rels u t e.1 e.2.1

theorem scanRel_inv (hcomp : complete t n = true) (hinv : InvConsistent t n) {e2w : EMap}
    (he : EInv t n rels u gens e2w) {q : Queue} (hq : QInv t n rels u gens q) {r : List Int}
    (hr : RelOk t n rels r) {point : Nat} (hpoint : point < t.size) :
    ∃ ext, scanRel (Table.ofView n t) e2w point r q = .ok (q ++ ext) ∧ QInv t n rels u gens (q ++ ext) ∧
      ext.length ≤ 1 ∧ ∀ e ∈ ext, e2w.get e.1 e.2.1 = none := by
  have hcl := hr.closes point hpoint
  unfold scanRel
  rw [cutsGo_eq hcomp e2w r 0 point point [] hcl]
  simp only [List.reverse_nil, List.nil_append]
  match hu : unknownPos t n e2w r 0 point with
  | [] => exact ⟨[], by simp, by simpa using hq, by simp, by simp⟩
  | [(p, g, i)] =>
    obtain ⟨pre, post, z, h1, h2, h3, h4, h5, h6, h7⟩ := unknownPos_single r 0 point point p g i hcl hu
    simp only [Nat.zero_add] at h2
    subst h1 h2
    obtain ⟨W', hW', hpsi⟩ := cut_value hcomp hinv he hr hpoint h3 h4 h5 h6 h7
    simp only [hW']
    refine ⟨[(p, g, W')], rfl, ?_, by simp, ?_⟩
    · intro e hm
      rcases List.mem_append.mp hm with hm | hm
      · exact hq e hm
      · simp only [List.mem_singleton] at hm
        subst hm
        exact ⟨z, h5, hpsi⟩
    · intro e hm
      simp only [List.mem_singleton] at hm
      subst hm
      -- the cut edge is unknown
      have hmem : (p, g, pre.length) ∈ unknownPos t n e2w (pre ++ g :: post) 0 point := by rw [hu]; simp
      exact unknownPos_mem _ _ _ _ hmem
  | a :: b :: l => exact ⟨[], by simp, by simpa using hq, by simp, by simp⟩


theorem scanRels_inv (hcomp : complete t n = true) (hinv : InvConsistent t n) {e2w : EMap}
    (he : EInv t n rels u gens e2w) {point : Nat} (hpoint : point < t.size) :
    ∀ (rs : List (List Int)) (q : Queue), (∀ r ∈ rs, RelOk t n rels r) → QInv t n rels u gens q →
    ∃ ext, scanRels (Table.ofView n t) e2w point rs q = .ok (q ++ ext) ∧ QInv t n rels u gens (q ++ ext) ∧
      ext.length ≤ rs.length ∧ ∀ e ∈ ext, e2w.get e.1 e.2.1 = none
  | [], q, _, hq => ⟨[], by simp [scanRels], by simpa using hq, by simp, by simp⟩
  | r :: rs, q, hrs, hq => by
    obtain ⟨ext1, h1, h2, h3, h4⟩ := scanRel_inv hcomp hinv he hq (hrs r (by simp)) hpoint
    obtain ⟨ext2, g1, g2, g3, g4⟩ := scanRels_inv hcomp hinv he hpoint rs (q ++ ext1)
      (fun r' hr' => hrs r' (by simp [hr'])) h2
    refine ⟨ext1 ++ ext2, ?_, by rw [← List.append_assoc]; exact g2, by simp; omega, ?_⟩
    · simp only [scanRels, h1, g1, List.append_assoc]
    · intro e hm
      rcases List.mem_append.mp hm with hm | hm
      · exact h4 e hm
      · exact g4 e hm

/-- relators filed under a letter are relator rotations -/
def RbgOk (t : Tab) (n : Nat) (rels : List (List Int)) (rbg : RelMap) : Prop :=
  ∀ gen rs, rbgLookup gen rbg = some rs → ∀ r ∈ rs, RelOk t n rels r

/-- inserting an edge word and its inverse keeps the invariant -/
theorem EInv_insert (hinv : InvConsistent t n) {e2w : EMap} (he : EInv t n rels u gens e2w)
    {point tgt : Nat} {gen : Int} {w : List Int} (hent : entry t n point gen = some tgt)
    (hw : psi n rels gens w = sch n rels u t point gen) :
    EInv t n rels u gens ((e2w.insert tgt (-gen) (FW.inverse w)).insert point gen w) ∧
    (∀ c g, ((e2w.insert tgt (-gen) (FW.inverse w)).insert point gen w).get c g =
      if c = point ∧ g = gen then some w else if c = tgt ∧ g = -gen then some (FW.inverse w)
      else e2w.get c g) := by
  obtain ⟨hr, hr', hg0⟩ := inRange_of_mem (entry_some hent).2.2
  have hn1 : (e2w.insert tgt (-gen) (FW.inverse w)).n = n := by rw [EMap.insert_n, he.ngens]
  have hget : ∀ c g, ((e2w.insert tgt (-gen) (FW.inverse w)).insert point gen w).get c g =
      if c = point ∧ g = gen then some w else if c = tgt ∧ g = -gen then some (FW.inverse w)
      else e2w.get c g := by
    intro c g
    rw [EMap.get_insert _ (by rw [hn1]; exact hr), EMap.get_insert _ (by rw [he.ngens]; exact hr')]
  refine ⟨⟨by rw [EMap.insert_n, hn1], ?_⟩, hget⟩
  intro c g d W hcg hW
  have hent' := hinv _ _ _ hent
  rw [hget] at hW
  unfold Known
  rw [hget]
  by_cases h1 : c = point ∧ g = gen
  · obtain ⟨rfl, rfl⟩ := h1
    simp only [and_self, if_true, Option.some.injEq] at hW
    subst hW
    rw [hent] at hcg
    injection hcg with hcg
    subst hcg
    refine ⟨hw, ?_⟩
    have : ¬ (tgt = c ∧ -g = g) := by
      rintro ⟨_, h⟩; omega
    simp [this]
  · rw [if_neg h1] at hW
    by_cases h2 : c = tgt ∧ g = -gen
    · obtain ⟨rfl, rfl⟩ := h2
      simp only [and_self, if_true, Option.some.injEq] at hW
      subst hW
      rw [hent'] at hcg
      injection hcg with hcg
      subst hcg
      refine ⟨?_, by simp⟩
      unfold psi at hw ⊢
      rw [liftDen_inverse, hw, sch_antisym n rels u hinv _ _ _ hent]
    · rw [if_neg h2] at hW
      obtain ⟨hp, hk⟩ := he.ok c g d W hcg hW
      refine ⟨hp, ?_⟩
      unfold Known at hk
      split
      · rfl
      · split
        · rfl
        · exact hk

theorem closeLoop_inv (hcomp : complete t n = true) (hinv : InvConsistent t n) {rbg : RelMap}
    (hrbg : RbgOk t n rels rbg) :
    ∀ (fuel : Nat) (q : Queue) (e2w e' : EMap), EInv t n rels u gens e2w → QInv t n rels u gens q →
      Stab.closeLoop (Table.ofView n t) rbg fuel q e2w = .ok e' →
      EInv t n rels u gens e' ∧ (∀ c g, Known e2w c g → Known e' c g) ∧ (∀ e ∈ q, Known e' e.1 e.2.1)
  | _, [], e2w, e', he, _, h => by
    simp only [Stab.closeLoop, Outcome.ok.injEq] at h
    subst h
    exact ⟨he, fun _ _ h => h, by simp⟩
  | 0, _ :: _, _, _, _, _, h => by simp [Stab.closeLoop] at h
  | f + 1, (point, gen, w) :: q, e2w, e', he, hq, h => by
    obtain ⟨tgt, hent, hw⟩ := hq (point, gen, w) (by simp)
    simp only at hent hw
    obtain ⟨he2, hget⟩ := EInv_insert hinv he hent hw
    have hq' : QInv t n rels u gens q := fun e hm => hq e (by simp [hm])
    have hrs : ∀ r ∈ (rbgLookup gen rbg).getD [], RelOk t n rels r := by
      cases hl : rbgLookup gen rbg with
      | none => simp
      | some rs => simpa using hrbg gen rs hl
    obtain ⟨ext, hs, hqe, _, _⟩ := scanRels_inv hcomp hinv he2 (entry_some hent).2.1 _ q hrs hq'
    simp only [Stab.closeLoop, get_ofView hent, hs] at h
    obtain ⟨h1, h2, h3⟩ := closeLoop_inv hcomp hinv hrbg f (q ++ ext) _ e' he2 hqe h
    have hmono : ∀ c g, Known e2w c g → Known e' c g := by
      intro c g hk
      apply h2
      unfold Known at hk ⊢
      rw [hget]
      split
      · rfl
      · split
        · rfl
        · exact hk
    refine ⟨h1, hmono, ?_⟩
    intro e hm
    rcases List.mem_cons.mp hm with rfl | hm
    · apply h2
      unfold Known
      rw [hget]
      simp
    · exact h3 e (List.mem_append_left _ hm)

end Close

end DSymVerif.StabP
