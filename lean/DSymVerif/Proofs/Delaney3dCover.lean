/-
Property C15, phase 2: the hypotheses of C05's `cover_for_table_compat` for the cover
`pseudo_toroidal_cover` builds — the candidate table, read through `get`, is inverse-consistent,
and the edge words of the fundamental group of an oriented (loopless) symbol are mutually
inverse on the two sides of every edge.
-/
import DSymVerif.Proofs.Delaney3dPipeline
import DSymVerif.Props.C05
import DSymVerif.Props.C09

namespace DSymVerif.D3
open DSymVerif DSymVerif.DS DSymVerif.Cosets DSymVerif.SpecC11 DSymVerif.CosetP DSymVerif.StabP
  DSymVerif.FG DSymVerif.FGP

/-! ### `tableData` of a valid table -/

section Data
variable {t : Tab} {n : Nat}

theorem tbl_len : (tbl n t).len = t.size := by simp [tbl, Table.len, Table.ofView]
theorem tbl_nrGens : (tbl n t).nrGens = n := rfl

theorem tableData_len : (tableData (tbl n t)).len = t.size := by
  simp [tableData, Covers.Table.len, tbl_len]

theorem tableData_nrGens : (tableData (tbl n t)).nrGens = n := rfl

/-- the cell of `tableData` for a row and a column in range -/
theorem tableData_cell {c : Nat} (hc : c < t.size) {j : Nat} (hj : j < 2 * n + 1) :
    ((tableData (tbl n t)).rows.getD c #[])[j]? =
      some (let g : Int := (j : Int) - (n : Int)
            if g = 0 then (-1 : Int) else
            match (tbl n t).get c g with
            | .ok (some d) => (d : Int)
            | _ => (-1 : Int)) := by
  simp only [tableData, tbl_len, tbl_nrGens]
  rw [Array.getD_eq_getD_getElem?]
  simp [hc, hj]
  rfl

theorem mem_letters_range {g : Int} (hg : g ∈ letters n) : g ≠ 0 ∧ 0 ≤ g + n ∧ (g + (n : Int)).toNat < 2 * n + 1 := by
  rw [mem_letters] at hg
  omega

/-- forward: an entry of the table is an entry of its `tableData` -/
theorem tableData_get_of_get {c d : Nat} {g : Int} (hc : c < t.size) (hg : g ∈ letters n)
    (h : (tbl n t).get c g = .ok (some d)) : (tableData (tbl n t)).get c g = .ok (some d) := by
  obtain ⟨h0, h1, h2⟩ := mem_letters_range hg
  unfold Covers.Table.get
  rw [if_pos (by rw [tableData_len]; exact hc), tableData_nrGens]
  simp only
  rw [if_neg (by omega), tableData_cell hc h2]
  have hback : ((g + (n : Int)).toNat : Int) - (n : Int) = g := by omega
  simp only [hback, if_neg h0, h]
  simp

/-- backward: a defined entry of `tableData` comes from a letter and is the table's entry -/
theorem get_of_tableData_get {c r : Nat} {g : Int} (hc : c < t.size)
    (h : (tableData (tbl n t)).get c g = .ok (some r)) :
    g ∈ letters n ∧ (tbl n t).get c g = .ok (some r) := by
  unfold Covers.Table.get at h
  rw [if_pos (by rw [tableData_len]; exact hc), tableData_nrGens] at h
  simp only at h
  by_cases hneg : g + (n : Int) < 0
  · rw [if_pos hneg] at h; cases h
  · rw [if_neg hneg] at h
    by_cases hj : (g + (n : Int)).toNat < 2 * n + 1
    · rw [tableData_cell hc hj] at h
      have hback : ((g + (n : Int)).toNat : Int) - (n : Int) = g := by omega
      simp only [hback] at h
      by_cases h0 : g = 0
      · simp [h0] at h
      · simp only [if_neg h0] at h
        have hg : g ∈ letters n := by rw [mem_letters]; omega
        refine ⟨hg, ?_⟩
        cases hget : (tbl n t).get c g with
        | ok o =>
          cases o with
          | some d =>
            simp only [hget] at h
            have hd : (0 : Int) ≤ (d : Int) := Int.natCast_nonneg d
            simp only [ge_iff_le, hd, if_true, Outcome.ok.injEq, Option.some.injEq, Int.toNat_natCast] at h
            rw [h]
          | none => simp [hget] at h
        | err => simp [hget] at h
        | panic => simp [hget] at h
    · have hnone : ((tableData (tbl n t)).rows.getD c #[])[(g + (n : Int)).toNat]? = none := by
        simp only [tableData, tbl_len, tbl_nrGens]
        rw [Array.getD_eq_getD_getElem?]
        simp [hc]
        omega
      rw [hnone] at h
      cases h

/-- the data `cover_for_table` reads from a valid table is inverse-consistent -/
theorem tableData_invConsistent {rels subs : List (List Int)} (hv : Valid t n rels subs) :
    (tableData (tbl n t)).InvConsistent := by
  intro c g r hc hget
  rw [tableData_len] at hc
  obtain ⟨hg, hT⟩ := get_of_tableData_get hc hget
  obtain ⟨d, hd⟩ := hv.total c hc g hg
  have hgd := get_ofView hd
  unfold tbl at hT
  rw [hgd] at hT
  cases hT
  have hr : r < t.size := (entry_some hd).1
  refine ⟨by rw [tableData_len]; exact hr, ?_⟩
  exact tableData_get_of_get hr (neg_mem_letters hg) (get_ofView (hv.inv _ _ _ hd))

end Data

/-! ### edge words of an oriented symbol -/

theorem wordOf_eq_e2wGet : ∀ (m : E2W) (d i : Nat), Covers.wordOf m d i = e2wGet m (d, i)
  | [], d, i => rfl
  | (k, w) :: rest, d, i => by
    have ih := wordOf_eq_e2wGet rest d i
    unfold Covers.wordOf e2wGet at ih ⊢
    simp only [List.find?, e2wGet?]
    by_cases hk : k = (d, i)
    · subst hk
      simp
    · have hb : (k.1 == d && k.2 == i) = false := by
        rcases k with ⟨a, b⟩
        simp only [Bool.and_eq_false_iff, beq_eq_false_iff_ne]
        by_contra hcon
        have hcon' : a = d ∧ b = i := by
          constructor
          · by_contra h1; exact hcon (Or.inl h1)
          · by_contra h2; exact hcon (Or.inr h2)
        exact hk (by rw [hcon'.1, hcon'.2])
      simp only [hb, if_neg hk]
      exact ih

theorem invol_of_validTables {s : DSymData} (h : ValidTables s) : Invol s := by
  intro i d e hop
  unfold DSymData.op DSetData.opSimple at hop ⊢
  split at hop
  · cases hop
  · rename_i hr
    simp only [Bool.or_eq_true, decide_eq_true_eq, not_or, not_lt] at hr
    cases hop
    have hrange := h.set.range i d (by omega) (by omega) (by omega)
    have hinv := h.set.invol i d (by omega) (by omega) (by omega)
    rw [if_neg (by simp only [Bool.or_eq_true, decide_eq_true_eq, not_or, not_lt]; omega), hinv]

theorem op_eq_opU {s : DSymData} {i d : Nat} (hi : i ≤ s.dim) (h1 : 1 ≤ d) (h2 : d ≤ s.size) :
    s.op i d = some (s.dset.opU i d) := by
  unfold DSymData.op DSetData.opSimple
  rw [if_neg (by
    simp only [Bool.or_eq_true, decide_eq_true_eq, not_or, not_lt]
    exact ⟨⟨hi, h1⟩, h2⟩)]

/-- no operation of an oriented symbol fixes a chamber -/
theorem loopless_of_oriented {s : DSymData} (h : s.view.isOriented = true) {i d : Nat}
    (hi : i ≤ s.dim) (h1 : 1 ≤ d) (h2 : d ≤ s.size) : s.op i d ≠ some d := by
  unfold View.isOriented at h
  simp only [Bool.and_eq_true] at h
  have hl := h.1
  unfold View.isLoopless View.indices View.elements at hl
  rw [List.all_eq_true] at hl
  have h3 := hl i (List.mem_range.mpr (by show i < s.dim + 1; omega))
  rw [List.all_eq_true] at h3
  have h4 := h3 d (List.mem_map.mpr ⟨d - 1, List.mem_range.mpr (by show d - 1 < s.size; omega), by omega⟩)
  have h5 : ¬ (s.view.op i d = some d) := by simpa using h4
  exact h5

/-- the edge words of the fundamental group of an oriented symbol with valid tables satisfy the
    hypothesis of `cover_for_table_compat` (no mirrors: both sides carry mutually inverse words) -/
theorem edgeWordsOk_of_oriented {oc : DSymData} (hv : ValidTables oc) (ho : oc.view.isOriented = true)
    {fg : FundGroup} (hfg : fundamentalGroup oc = .ok fg) (T : Covers.Table) :
    Covers.EdgeWordsOk oc T fg.edgeToWord := by
  intro i d hi h1 h2
  left
  have hI := invol_of_validTables hv
  have hop := op_eq_opU hi h1 h2
  have hne : oc.dset.opU i d ≠ d := by
    intro he
    exact loopless_of_oriented ho hi h1 h2 (by rw [hop, he])
  -- the word on (d,i) is the inverse of the word on (op d, i)
  have hrange := hv.set.range i d hi h1 h2
  have hop' : oc.op i (oc.dset.opU i d) = some d := hI i d _ hop
  have h := C09.edge_words_inverse oc hI fg hfg i (oc.dset.opU i d) d hop' (Ne.symm hne)
  rw [wordOf_eq_e2wGet, wordOf_eq_e2wGet, h]
  have hred := C09.fg_lookup_reduced oc fg hfg (d, i)
  rw [FWP.inverse_of_isReduced hred]
  unfold Covers.invWord FWP.invW
  rw [List.map_reverse]

end DSymVerif.D3
