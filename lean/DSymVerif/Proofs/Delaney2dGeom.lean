/-
Helper lemmas for property C08, part 2: the value of the model's `curvature` and the
geometry predicates as functions of its sign.
-/
import DSymVerif.Proofs.Delaney2dFrac

namespace DSymVerif.D2
open DSymVerif.DS

/-- the exact rational the model's curvature stands for: Σ_{2-orbits} (2 or 1)/v − size -/
def curvQ (ts : List (Nat × Bool)) (size : Nat) : ℚ := (ts.map typeVal).sum - (size : ℚ)

/-- `curvature` succeeds exactly on complete two-dimensional input whose branching
    numbers are all non-zero, and then returns the normal form of `curvQ` -/
theorem curvature_ok {s : Sym} {k : Frac} (h : curvature s = .ok k) :
    s.dim = 2 ∧ s.isComplete = true ∧ ∃ ts, orbitTypes2d s = .ok ts ∧ (∀ t ∈ ts, t.1 ≠ 0) ∧
      k = Frac.ofRat (curvQ ts s.size) := by
  unfold curvature at h
  split at h
  · cases h
  · rename_i hdim
    split at h
    · cases h
    · rename_i hc
      split at h
      · rename_i ts hts
        split at h
        · cases h
        · rename_i hz
          have hne : ∀ t ∈ ts, t.1 ≠ 0 := by
            intro t ht h0
            apply hz
            simp only [List.any_eq_true, beq_iff_eq]
            exact ⟨t, ht, h0⟩
          refine ⟨by simpa using hdim, by simpa using hc, ts, hts, hne, ?_⟩
          cases h
          rw [sumTypes_eq ts hne, Frac.ofInt_eq_ofRat, Frac.sub_ofRat]
          simp [curvQ]
      · cases h
      · cases h

theorem curvature_normal {s : Sym} {k : Frac} (h : curvature s = .ok k) :
    k = Frac.ofRat k.toRat := by
  obtain ⟨_, _, ts, _, _, hk⟩ := curvature_ok h
  rw [hk, Frac.toRat_ofRat]

theorem isEuclidean_eq {s : Sym} {k : Frac} (h : curvature s = .ok k) :
    isEuclidean s = .ok (decide (k.toRat = 0)) := by
  unfold isEuclidean
  rw [h]
  simp only
  rw [curvature_normal h, Frac.isZero_ofRat, Frac.toRat_ofRat]

theorem isHyperbolic_eq {s : Sym} {k : Frac} (h : curvature s = .ok k) :
    isHyperbolic s = .ok (decide (k.toRat < 0)) := by
  unfold isHyperbolic
  rw [h]
  simp only
  rw [curvature_normal h, Frac.isNeg_ofRat, Frac.toRat_ofRat]

theorem isSpherical_of_not_pos {s : Sym} {k : Frac} (h : curvature s = .ok k) (hk : ¬ 0 < k.toRat) :
    isSpherical s = .ok false := by
  unfold isSpherical
  rw [h]
  simp only
  rw [curvature_normal h, Frac.isPos_ofRat]
  simp [hk]

theorem isSpherical_true_pos {s : Sym} {k : Frac} (h : curvature s = .ok k)
    (hs : isSpherical s = .ok true) : 0 < k.toRat := by
  by_contra hk
  rw [isSpherical_of_not_pos h hk] at hs
  cases hs

/-- for positive curvature the answer of `is_spherical` is the census rule applied to the
    branching numbers > 1 of the oriented cover -/
theorem isSpherical_of_pos {s : Sym} {k : Frac} (h : curvature s = .ok k) (hk : 0 < k.toRat)
    {b : Bool} (hs : isSpherical s = .ok b) :
    ∃ dso ts, orientedCover s.data = .ok dso ∧ orbitTypes2d ⟨dso, .partialSym⟩ = .ok ts ∧
      b = censusRule ((ts.map (·.1)).filter (· > 1)) := by
  unfold isSpherical at hs
  rw [h] at hs
  simp only at hs
  rw [curvature_normal h, Frac.isPos_ofRat] at hs
  rw [if_neg (by simp [hk])] at hs
  split at hs
  · rename_i dso hd
    split at hs
    · rename_i ts hts
      cases hs
      exact ⟨dso, ts, hd, hts, rfl⟩
    · cases hs
    · cases hs
  · cases hs
  · cases hs

theorem predicates_panic {s : Sym} (h : curvature s = .panic) :
    isEuclidean s = .panic ∧ isHyperbolic s = .panic ∧ isSpherical s = .panic := by
  unfold isEuclidean isHyperbolic isSpherical
  rw [h]
  exact ⟨rfl, rfl, rfl⟩

/-- the two `v` overrides are the same function (after the D2 repair) -/
theorem v_rep_irrelevant (d : DSymData) (i j e : Nat) :
    (Sym.v ⟨d, .simpleSym⟩ i j e) = (Sym.v ⟨d, .partialSym⟩ i j e) := rfl

theorem oppositeLoop_rep (d : DSymData) (i j : Nat) : ∀ (fuel k e : Nat),
    oppositeLoop ⟨d, .simpleSym⟩ i j fuel k e = oppositeLoop ⟨d, .partialSym⟩ i j fuel k e := by
  intro fuel
  induction fuel with
  | zero => intro k e; rfl
  | succ n ih =>
    intro k e
    simp only [oppositeLoop, Sym.op]
    split
    · rfl
    · split
      · rfl
      · exact ih _ _

theorem opposite_rep (d : DSymData) (i j e : Nat) :
    opposite ⟨d, .simpleSym⟩ i j e = opposite ⟨d, .partialSym⟩ i j e := by
  unfold opposite
  exact oppositeLoop_rep d i j _ _ _

theorem traceLoop_rep (d : DSymData) : ∀ (fuel j k e : Nat) (corners : List Nat) (seen : List (Nat × Nat)),
    traceLoop ⟨d, .simpleSym⟩ fuel j k e corners seen = traceLoop ⟨d, .partialSym⟩ fuel j k e corners seen := by
  intro fuel
  induction fuel with
  | zero => intros; rfl
  | succ n ih =>
    intro j k e corners seen
    simp only [traceLoop, v_rep_irrelevant, opposite_rep, ih]

theorem traceBoundary_rep (d : DSymData) :
    traceBoundary ⟨d, .simpleSym⟩ = traceBoundary ⟨d, .partialSym⟩ := by
  have hstep : traceStep ⟨d, .simpleSym⟩ = traceStep ⟨d, .partialSym⟩ := by
    funext ori st i e
    simp only [traceStep, traceLoop_rep]
    rfl
  unfold traceBoundary
  rw [hstep]
  rfl

/-- `orbifold_symbol` does not depend on the representation when both report completeness -/
theorem orbifoldSymbol_rep (d : DSymData)
    (hc : Sym.isComplete ⟨d, .simpleSym⟩ = Sym.isComplete ⟨d, .partialSym⟩) :
    orbifoldSymbol ⟨d, .simpleSym⟩ = orbifoldSymbol ⟨d, .partialSym⟩ := by
  unfold orbifoldSymbol
  rw [hc, traceBoundary_rep]
  rfl

end DSymVerif.D2
