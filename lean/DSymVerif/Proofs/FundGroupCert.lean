/-
Helper lemmas for property C09, part 14: why `glue_recursively` may glue a facet.

When the test `good` succeeds for the ridge `(e,i,j)`, the count `n = m_ij(e)·t` stored with the
ridge forces `v_ij(e) = 1` and the run that starts behind the facet `(e,i)` to go once around the
whole 2-orbit: every other facet of the orbit is already glued (`good_cert`).  So the value of
the facet is determined by the 2-orbit relation.
-/
import DSymVerif.Proofs.FundGroupOrbitWord

namespace DSymVerif.FGP
open DSymVerif DSymVerif.DS DSymVerif.FG

/-- a facet is either completely in the boundary or completely glued -/
def Unif (ds : DSymData) (m : OppMap) : Prop :=
  ∀ d i j j', Rng ds (d, i, j) → Rng ds (d, i, j') → oppGet m (d, i, j) = none →
    oppGet m (d, i, j') = none

theorem unif_glued {ds : DSymData} {m : OppMap} (hu : Unif ds m) {d i j : Nat}
    (hr : Rng ds (d, i, j)) (hn : oppGet m (d, i, j) = none) : Glued ds m d i :=
  fun j' hj' => hu d i j j' hr hj' hn

theorem unif_boundaryNew (ds : DSymData) : Unif ds (boundaryNew ds) := by
  intro d i j j' hr _ hn
  rw [oppGet_boundaryNew, if_pos hr] at hn
  cases hn

theorem unif_glue {ds : DSymData} (hv : ValidSet ds.dset) {d i : Nat} (hd : FacetR ds d i)
    {m m' : OppMap} {rs : List Ridge} (go : GlueOut ds d i m m' rs) (hu : Unif ds m) :
    Unif ds m' := by
  intro x a j j' hr hr' hn
  by_cases h1 : (x, a) = (d, i)
  · have e1 : x = d := congrArg Prod.fst h1
    have e2 : a = i := congrArg Prod.snd h1
    subst e1; subst e2
    exact (go.gone j' hr'.2.2.2.1 (fun e => hr'.2.2.2.2 e.symm)).1
  · by_cases h2 : (x, a) = (ds.dset.opU i d, i)
    · have e1 : x = ds.dset.opU i d := congrArg Prod.fst h2
      have e2 : a = i := congrArg Prod.snd h2
      subst e1; subst e2
      exact (go.gone j' hr'.2.2.2.1 (fun e => hr'.2.2.2.2 e.symm)).2
    · have hfr : ∀ jj j0, (x, a, jj) ≠ (d, i, j0) ∧ (x, a, jj) ≠ partner ds (d, i, j0) := by
        intro jj j0
        constructor
        · intro e
          exact h1 (by rw [show x = d from congrArg Prod.fst e,
            show a = i from congrArg (fun r : Ridge => r.2.1) e])
        · intro e
          exact h2 (by rw [show x = ds.dset.opU i d from congrArg Prod.fst e,
            show a = i from congrArg (fun r : Ridge => r.2.1) e])
      rw [go.frame _ hr' (hfr j')]
      exact hu x a j j' hr hr' ((go.frame _ hr (hfr j)).1 hn)

/-- the chamber in front of the last crossing of a closed walk -/
theorem wk_before_last {ds : DSymData} (hv : ValidSet ds.dset) {a b r c : Nat} (hr : 1 ≤ r)
    (hper : wk (opT ds) b a (2 * r) c = c) :
    wk (opT ds) b a (2 * r - 1) c = opT ds a c ∧ ix b a (2 * r - 1) = a ∧ ix a b (2 * r - 1) = b := by
  have hn : 2 * r = (2 * r - 1) + 1 := by omega
  have hix : ix b a (2 * r - 1) = a := by
    unfold ix
    have : (2 * r - 1) % 2 = 1 := by omega
    rw [this]; simp
  have hix' : ix a b (2 * r - 1) = b := by
    unfold ix
    have : (2 * r - 1) % 2 = 1 := by omega
    rw [this]; simp
  refine ⟨?_, hix, hix'⟩
  rw [hn, wk_succ_last, hix] at hper
  have h2 := congrArg (opT ds a) hper
  rw [opT_invol hv] at h2
  exact h2

theorem glueGood_some {ds : DSymData} (hs : ValidSym ds) {m : OppMap} {e i j : Nat}
    (hr : Rng ds (e, i, j)) (hg : glueGood ds m e i (some j) = .ok true) :
    ∃ opp, oppGet m (e, i, j) = some (opp,
      orbR ds i j e * orbV ds i j e * (if opT ds i e = e then 1 else 2)) := by
  unfold glueGood at hg
  simp only at hg
  obtain ⟨a, b, hra, hvb, hm⟩ := hs.mPartial_some hr.2.2.1 hr.2.2.2.1 hr.1 hr.2.1
  rw [hm] at hg
  simp only at hg
  have hor : orbR ds i j e = a := by unfold orbR; rw [hra]
  have hov : orbV ds i j e = b := by unfold orbV; rw [hvb]
  have ht : (if ds.op i e = some e then 1 else 2) = (if opT ds i e = e then 1 else 2) := by
    rw [op_eq hr.2.2.1 hr.1 hr.2.1, opT_eq hr.2.2.1 hr.1 hr.2.1]
    by_cases h : ds.dset.opU i e = e
    · simp [h]
    · simp [h]
  cases g : oppGet m (e, i, j) with
  | none => rw [g] at hg; simp at hg
  | some p =>
    obtain ⟨opp, n⟩ := p
    rw [g] at hg
    injection hg with hg
    simp only [Option.getD_some, beq_iff_eq] at hg
    refine ⟨opp, ?_⟩
    rw [hor, hov, ← ht, hg]

/-- **the certificate**: when `good` holds for the ridge `(e,i,j)`, then `v_ij(e) = 1` and all
    crossings but the last of the closed walk from `s_i e` (crossing `j` first) are glued facets;
    the last crossing is the facet `(e,i)` itself -/
theorem good_cert {ds : DSymData} (hs : ValidSym ds) {m : OppMap} (hm : BInv ds m) (hw : WInv ds m)
    (hu : Unif ds m) {e i j : Nat} (hr : Rng ds (e, i, j))
    (hg : glueGood ds m e i (some j) = .ok true)
    (htd : opT ds i e = e → ZOrNone m (e, i, j)) :
    orbV ds i j e = 1 ∧ ∀ t, t + 1 < 2 * orbR ds i j e →
      Glued ds m (wk (opT ds) j i t (opT ds i e)) (ix j i t) := by
  have hv := hs.set
  obtain ⟨opp, g⟩ := glueGood_some hs hr hg
  have hper := orbR_period hs hr.2.2.2.1 hr.2.2.1 hr.1 hr.2.1
  rw [orbR_swap ds i j e] at hper
  obtain ⟨hr1, hper⟩ := hper
  have hbl := wk_before_last hv hr1 hper
  have W := hw e i j opp _ hr g
  have hn1 := (hm.vals _ _ _ g).1
  have hv1 : 1 ≤ orbV ds i j e := by
    rcases Nat.eq_zero_or_pos (orbV ds i j e) with h | h
    · rw [h] at hn1; simp at hn1
    · exact h
  -- the ridge met by crossing 2r-1 is the partner of (e,i,j), which is present
  have hcr : crossR ds e i j (2 * orbR ds i j e - 1) = (opT ds i e, i, j) := by
    unfold crossR; rw [hbl.1, hbl.2.1, hbl.2.2]
  have hpe : partner ds (e, i, j) = (opT ds i e, i, j) := by
    unfold partner; simp only; rw [opT_eq hr.2.2.1 hr.1 hr.2.1]
  have hBp : oppGet m (opT ds i e, i, j) ≠ none := by
    rw [← hpe]
    intro h
    have := (hm.pres _ hr).2 h
    rw [g] at this; cases this
  have hBr : Rng ds (opT ds i e, i, j) := hpe ▸ rng_partner hv hr
  by_cases hmir : opT ds i e = e
  · -- mirror: n = r·v
    rw [if_pos hmir, Nat.mul_one] at g W hn1
    -- n ≤ 2r, otherwise crossing 2r-1 would be glued
    -- the walk of 2r-1 crossings returns to e: palindrome, its middle crossing is a mirror
    have hret : wk (opT ds) j i (2 * orbR ds i j e - 1) e = e := by rw [hbl.1, hmir]
    have hpal := wk_palindrome (opT ds) (opT_invol hv) (N := 2 * orbR ds i j e - 1)
      (by omega) hret
    have hmid : opT ds (ix j i (orbR ds i j e - 1)) (wk (opT ds) j i (orbR ds i j e - 1) e) =
        wk (opT ds) j i (orbR ds i j e - 1) e := by
      have h1 := hpal (orbR ds i j e - 1) (by omega)
      have h2 : 2 * orbR ds i j e - 1 - (orbR ds i j e - 1) = (orbR ds i j e - 1) + 1 := by omega
      rw [h2, wk_succ_last] at h1
      exact h1
    have hle : orbR ds i j e * orbV ds i j e ≤ orbR ds i j e := by
      by_contra hc
      have := (W.1 (orbR ds i j e - 1) (by omega)).2
      exact this hmid
    have hv1' : orbV ds i j e = 1 := by
      rcases Nat.lt_or_ge 1 (orbV ds i j e) with h | h
      · have : orbR ds i j e * 2 ≤ orbR ds i j e * orbV ds i j e := Nat.mul_le_mul_left _ h
        omega
      · omega
    rw [hv1', Nat.mul_one] at g W
    refine ⟨hv1', ?_⟩
    -- the far end is a glued mirror
    have hz : opp = zeroR := by
      rcases htd hmir with h | ⟨n, h⟩
      · rw [g] at h; cases h
      · rw [g] at h
        exact congrArg Prod.fst (Option.some.inj h)
    have hfar : oppGet m (crossR ds e i j (orbR ds i j e - 1)) = none := by
      rcases W.2 with h | ⟨_, h, _⟩
      · rw [hz] at h
        exact absurd (h ▸ crossR_rng hv hr _) (not_rng_zero ds)
      · exact h
    have habs : ∀ t, t < orbR ds i j e → oppGet m (crossR ds e i j t) = none := by
      intro t ht
      rcases Nat.lt_or_ge (t + 1) (orbR ds i j e) with h | h
      · exact (W.1 t h).1
      · have : t = orbR ds i j e - 1 := by omega
        rw [this]; exact hfar
    intro t ht
    rw [hmir]
    have hrt := crossR_rng hv hr t
    apply unif_glued hu (j := ix i j t) hrt
    rcases Nat.lt_or_ge t (orbR ds i j e) with h | h
    · exact habs t h
    · -- second half: the partner of an earlier crossing
      have hs' : 2 * orbR ds i j e - 2 - t < orbR ds i j e := by omega
      have h0 := habs _ hs'
      have hrs := crossR_rng hv hr (2 * orbR ds i j e - 2 - t)
      have hp := (hm.pres _ hrs).1 h0
      have : partner ds (crossR ds e i j (2 * orbR ds i j e - 2 - t)) = crossR ds e i j t := by
        unfold partner crossR
        simp only
        have hix1 : ix j i (2 * orbR ds i j e - 2 - t) = ix j i t := by
          unfold ix
          have : (2 * orbR ds i j e - 2 - t) % 2 = t % 2 := by omega
          rw [this]
        have hix2 : ix i j (2 * orbR ds i j e - 2 - t) = ix i j t := by
          unfold ix
          have : (2 * orbR ds i j e - 2 - t) % 2 = t % 2 := by omega
          rw [this]
        have rr := wk_range hv hr.1 hr.2.1 (2 * orbR ds i j e - 2 - t) j i
        have hidx : ix j i (2 * orbR ds i j e - 2 - t) ≤ ds.dim := by
          rcases ix_mem j i (2 * orbR ds i j e - 2 - t) with ⟨h, _⟩ | ⟨h, _⟩
          · rw [h]; exact hr.2.2.2.1
          · rw [h]; exact hr.2.2.1
        rw [← opT_eq hidx rr.1 rr.2, ← wk_succ_last (opT ds), hix1, hix2]
        have h3 := hpal t (by omega)
        have h4 : 2 * orbR ds i j e - 1 - t = 2 * orbR ds i j e - 2 - t + 1 := by omega
        rw [h4] at h3
        rw [h3]
      rw [this] at hp
      exact hp
  · -- not a mirror: n = 2·r·v
    rw [if_neg hmir] at g W hn1
    have hle : orbR ds i j e * orbV ds i j e * 2 ≤ 2 * orbR ds i j e := by
      by_contra hc
      have := (W.1 (2 * orbR ds i j e - 1) (by omega)).1
      rw [hcr] at this
      exact hBp this
    have hv1' : orbV ds i j e = 1 := by
      rcases Nat.lt_or_ge 1 (orbV ds i j e) with h | h
      · have : orbR ds i j e * 2 ≤ orbR ds i j e * orbV ds i j e := Nat.mul_le_mul_left _ h
        omega
      · omega
    rw [hv1', Nat.mul_one] at g W
    refine ⟨hv1', ?_⟩
    have hn : orbR ds i j e * 2 - 1 = 2 * orbR ds i j e - 1 := by omega
    have hopp : opp = (opT ds i e, i, j) := by
      rcases W.2 with h | ⟨_, h, _⟩
      · rw [h, hn, hcr]
      · rw [hn, hcr] at h
        exact absurd h hBp
    have gB : oppGet m (opT ds i e, i, j) = some ((e, i, j), orbR ds i j e * 2) := by
      have := hm.symm _ _ _ hr g (hopp ▸ hBr)
      rw [hopp] at this
      exact this
    have WB := hw _ i j _ _ hBr gB
    intro t ht
    have hrt := crossR_rng hv hBr t
    exact unif_glued hu (j := ix i j t) hrt (WB.1 t (by omega)).1

/-! ### the extra facts about `glue`: walk invariant, stability of sentinel entries, pushed mirrors -/

theorem glueFold_extra {ds : DSymData} (hv : ValidSet ds.dset) {d i : Nat} (hd : FacetR ds d i) :
    ∀ (js : List Nat), (∀ j ∈ js, j ≤ ds.dim ∧ j ≠ i) → ∀ (m : OppMap) (res : List Ridge), BInv ds m →
    ∀ m' res', js.foldl (glueStep ds d i (ds.dset.opU i d)) (.ok (m, res)) = .ok (m', res') →
      (WInv ds m → WInv ds m') ∧ (∀ k, Rng ds k → ZOrNone m k → ZOrNone m' k) ∧
      ∃ l, res' = res ++ l ∧ ∀ x ∈ l, Rng ds x → opT ds x.2.1 x.1 = x.1 → ZOrNone m' x
  | [], _, m, res, _, m', res', h => by
    simp only [List.foldl_nil] at h
    injection h with h
    have h1 : m = m' := congrArg Prod.fst h
    have h2 : res = res' := congrArg Prod.snd h
    subst h1; subst h2
    exact ⟨fun h => h, fun _ _ h => h, [], by simp, fun _ h => by cases h⟩
  | j :: js, hjs, m, res, hm, m', res', h => by
    have hj := hjs j List.mem_cons_self
    have hA : Rng ds (d, i, j) := ⟨hd.1, hd.2.1, hd.2.2, hj.1, fun e => hj.2 e.symm⟩
    obtain ⟨m1, res1, e1, so⟩ := glueStep_ok hv hm hA res
    rw [List.foldl_cons, e1] at h
    obtain ⟨w2, z2, l2, hl2, p2⟩ := glueFold_extra hv hd js
      (fun j' hj' => hjs j' (List.mem_cons_of_mem _ hj')) m1 res1 so.inv m' res' h
    obtain ⟨l1, hl1, p1⟩ := so.ext
    refine ⟨fun hw => w2 (so.winv hw), fun k hk hz => z2 k hk (so.zstable k hk hz),
      l1 ++ l2, by rw [hl2, hl1, List.append_assoc], ?_⟩
    intro x hx hxr hxm
    rcases List.mem_append.1 hx with h | h
    · exact z2 x hxr (p1 x h hxr hxm)
    · exact p2 x h hxr hxm

theorem glue_extra {ds : DSymData} (hv : ValidSet ds.dset) {m : OppMap} (hm : BInv ds m)
    {d i : Nat} (hd : FacetR ds d i) {m' : OppMap} {rs : List Ridge}
    (h : glue ds m d i = .ok (m', rs)) :
    (WInv ds m → WInv ds m') ∧ (∀ k, Rng ds k → ZOrNone m k → ZOrNone m' k) ∧
    ∀ x ∈ rs, Rng ds x → opT ds x.2.1 x.1 = x.1 → ZOrNone m' x := by
  unfold glue at h
  rw [op_eq hd.2.2 hd.1 hd.2.1] at h
  simp only at h
  have hjs : ∀ j ∈ (List.range (ds.dim + 1)).filter (· ≠ i), j ≤ ds.dim ∧ j ≠ i := by
    intro j hj
    rw [List.mem_filter, List.mem_range] at hj
    exact ⟨by omega, by simpa using hj.2⟩
  obtain ⟨w, z, l, hl, p⟩ := glueFold_extra hv hd _ hjs m [] hm m' rs h
  rw [List.nil_append] at hl
  subst hl
  exact ⟨w, z, p⟩

/-! ### certificates for everything `glue_recursively` glues -/

/-- facet `f` is the facet of the item or the facet on its other side -/
def touches (ds : DSymData) (it : Item) (f : Edge) : Prop :=
  f = (it.1, it.2.1) ∨ f = (ds.dset.opU it.2.1 it.1, it.2.1)

/-- the facet was glued before the batch (`m0`) or by one of the items `pre` -/
def Known (ds : DSymData) (m0 : OppMap) (pre : List Item) (f : Edge) : Prop :=
  Glued ds m0 f.1 f.2 ∨ ∃ it ∈ pre, touches ds it f

theorem known_mono {ds : DSymData} {m0 : OppMap} {pre pre' : List Item} {f : Edge}
    (hsub : ∀ it ∈ pre, it ∈ pre') (h : Known ds m0 pre f) : Known ds m0 pre' f := by
  rcases h with h | ⟨it, hit, ht⟩
  · exact Or.inl h
  · exact Or.inr ⟨it, hsub it hit, ht⟩

/-- the justification of one glued item: a `Some(j)` item has `v = 1`, every other facet of its
    2-orbit is known, its own facet is not -/
def CertItem (ds : DSymData) (m0 : OppMap) (pre : List Item) (it : Item) : Prop :=
  ∀ j, it.2.2 = some j →
    Rng ds (it.1, it.2.1, j) ∧ orbV ds it.2.1 j it.1 = 1 ∧
    (∀ t, t + 1 < 2 * orbR ds it.2.1 j it.1 →
      Known ds m0 pre (wk (opT ds) j it.2.1 t (opT ds it.2.1 it.1), ix j it.2.1 t)) ∧
    ¬ Known ds m0 pre (it.1, it.2.1) ∧ ¬ Known ds m0 pre (ds.dset.opU it.2.1 it.1, it.2.1)

def CertList (ds : DSymData) (m0 : OppMap) : List Item → List Item → Prop
  | _, [] => True
  | pre, it :: rest => CertItem ds m0 pre it ∧ CertList ds m0 (pre ++ [it]) rest

/-- the mirror entries of the queue are opposite to the sentinel (or gone) -/
def TD (ds : DSymData) (todo : List Item) (m : OppMap) : Prop :=
  ∀ it ∈ todo, ∀ j, it.2.2 = some j → Rng ds (it.1, it.2.1, j) → opT ds it.2.1 it.1 = it.1 →
    ZOrNone m (it.1, it.2.1, j)

/-- what is glued in the current map is known -/
structure Acc (ds : DSymData) (m0 m : OppMap) (res : List Item) : Prop where
  mono0 : ∀ r, Rng ds r → oppGet m0 r = none → oppGet m r = none
  known : ∀ x b, FacetR ds x b → Glued ds m x b → Known ds m0 res (x, b)
  done : ∀ it ∈ res, FacetR ds it.1 it.2.1 ∧ Glued ds m it.1 it.2.1 ∧
    Glued ds m (ds.dset.opU it.2.1 it.1) it.2.1

theorem known_glued {ds : DSymData} (hv : ValidSet ds.dset) {m0 m : OppMap} {res : List Item}
    (ha : Acc ds m0 m res) {f : Edge} (hk : Known ds m0 res f) : Glued ds m f.1 f.2 := by
  rcases hk with h | ⟨it, hit, ht | ht⟩
  · exact glued_mono ha.mono0 h
  · rw [ht]; exact (ha.done it hit).2.1
  · rw [ht]; exact (ha.done it hit).2.2

theorem glueRecLoop_cert {ds : DSymData} (hs : ValidSym ds) (m0 : OppMap) : ∀ (fuel : Nat)
    (m : OppMap) (todo res : List Item), BInv ds m → WInv ds m → Unif ds m → TD ds todo m →
    Acc ds m0 m res → (∀ it ∈ todo, ItemOk ds it) →
    ∀ m' out, glueRecLoop ds fuel m todo res = .ok (m', out) →
    BInv ds m' ∧ WInv ds m' ∧ Unif ds m' ∧ Acc ds m0 m' out.reverse ∧
    ∃ l, out = res.reverse ++ l ∧ CertList ds m0 res.reverse l
  | fuel, m, [], res, hm, hw, hu, _, ha, _, m', out, h => by
    have : glueRecLoop ds fuel m [] res = .ok (m, res.reverse) := by cases fuel <;> rfl
    rw [this] at h
    injection h with h
    have h1 : m = m' := congrArg Prod.fst h
    have h2 : res.reverse = out := congrArg Prod.snd h
    subst h1; subst h2
    refine ⟨hm, hw, hu, by rw [List.reverse_reverse]; exact ha, [], by simp, trivial⟩
  | 0, m, it :: todo, res, _, _, _, _, _, _, m', out, h => by
    simp [glueRecLoop] at h
  | fuel + 1, m, (d, i, jo) :: todo, res, hm, hw, hu, htd, ha, hok, m', out, h => by
    have hv := hs.set
    unfold glueRecLoop at h
    obtain ⟨b, hb, hgood⟩ := glueGood_ok hs hm d i jo
    rw [hb] at h
    cases b with
    | false =>
      simp only at h
      exact glueRecLoop_cert hs m0 fuel m todo res hm hw hu
        (fun it hit => htd it (List.mem_cons_of_mem _ hit)) ha
        (fun it hit => hok it (List.mem_cons_of_mem _ hit)) m' out h
    | true =>
      simp only at h
      have hd : FacetR ds d i := by
        cases jo with
        | none => exact hok (d, i, none) List.mem_cons_self rfl
        | some j =>
          obtain ⟨hr, _⟩ := hgood rfl j rfl
          exact ⟨hr.1, hr.2.1, hr.2.2.1⟩
      obtain ⟨m1, rs, e1, go⟩ := glue_ok hv hm hd
      rw [e1] at h
      simp only at h
      obtain ⟨w1, z1, p1⟩ := glue_extra hv hm hd e1
      have hgd : Glued ds m1 d i := fun j hj => (go.gone j hj.2.2.2.1 (fun e => hj.2.2.2.2 e.symm)).1
      have hgp : Glued ds m1 (ds.dset.opU i d) i := fun j hj =>
        (go.gone j hj.2.2.2.1 (fun e => hj.2.2.2.2 e.symm)).2
      -- the certificate of this item
      have hcert : CertItem ds m0 res.reverse (d, i, jo) := by
        intro j hj
        simp only at hj
        subst hj
        obtain ⟨hr, hp⟩ := hgood rfl j rfl
        have hgc := good_cert hs hm hw hu hr hb
          (fun hmir => htd (d, i, some j) List.mem_cons_self j rfl hr hmir)
        have hnk : ∀ f : Edge, Known ds m0 res.reverse f → Glued ds m f.1 f.2 := by
          intro f hk
          have ha' : Acc ds m0 m res.reverse :=
            ⟨ha.mono0, fun x b hx hg => known_mono (fun it hit => List.mem_reverse.2 hit) (ha.known x b hx hg),
              fun it hit => ha.done it (List.mem_reverse.1 hit)⟩
          exact known_glued hv ha' hk
        refine ⟨hr, hgc.1, ?_, ?_, ?_⟩
        · intro t ht
          have r := wk_range hv (opT_range hv (a := i) hr.1 hr.2.1).1 (opT_range hv (a := i) hr.1 hr.2.1).2 t j i
          have hidx : ix j i t ≤ ds.dim := by
            rcases ix_mem j i t with ⟨h, _⟩ | ⟨h, _⟩
            · rw [h]; exact hr.2.2.2.1
            · rw [h]; exact hr.2.2.1
          exact known_mono (fun it hit => List.mem_reverse.2 hit)
            (ha.known _ _ ⟨r.1, r.2, hidx⟩ (hgc.2 t ht))
        · intro hk
          exact hp (hnk _ hk j hr)
        · intro hk
          have := hnk _ hk j (rng_partner hv hr)
          exact hp ((hm.pres _ hr).2 this)
      -- the state after the glue
      have hu1 := unif_glue hv hd go hu
      have htd1 : TD ds (todo ++ rs.map (fun r => (r.1, r.2.1, some r.2.2))) m1 := by
        intro it hit j hj hrj hmir
        rcases List.mem_append.1 hit with h' | h'
        · exact z1 _ hrj (htd it (List.mem_cons_of_mem _ h') j hj hrj hmir)
        · obtain ⟨r, hrm, hre⟩ := List.mem_map.1 h'
          rw [← hre] at hj hrj hmir ⊢
          simp only at hj hrj hmir ⊢
          injection hj with hj
          subst hj
          exact p1 r hrm hrj hmir
      have ha1 : Acc ds m0 m1 ((d, i, jo) :: res) := by
        refine ⟨fun r hr hn => go.mono r hr (ha.mono0 r hr hn), ?_, ?_⟩
        · intro x b hx hg
          by_cases h1 : (x, b) = (d, i)
          · exact Or.inr ⟨(d, i, jo), List.mem_cons_self, Or.inl h1⟩
          · by_cases h2 : (x, b) = (ds.dset.opU i d, i)
            · exact Or.inr ⟨(d, i, jo), List.mem_cons_self, Or.inr h2⟩
            · have hfr : ∀ jj j0, (x, b, jj) ≠ (d, i, j0) ∧ (x, b, jj) ≠ partner ds (d, i, j0) := by
                intro jj j0
                constructor
                · intro e
                  exact h1 (by rw [show x = d from congrArg Prod.fst e,
                    show b = i from congrArg (fun r : Ridge => r.2.1) e])
                · intro e
                  exact h2 (by rw [show x = ds.dset.opU i d from congrArg Prod.fst e,
                    show b = i from congrArg (fun r : Ridge => r.2.1) e])
              have : Glued ds m x b := fun jj hjj => (go.frame _ hjj (hfr jj)).1 (hg jj hjj)
              exact known_mono (fun it hit => List.mem_cons_of_mem _ hit) (ha.known x b hx this)
        · intro it hit
          rcases List.mem_cons.1 hit with h' | h'
          · rw [h']; exact ⟨hd, hgd, hgp⟩
          · obtain ⟨a1, a2, a3⟩ := ha.done it h'
            exact ⟨a1, glued_mono go.mono a2, glued_mono go.mono a3⟩
      obtain ⟨i1, i2, i3, i4, l, hl, hcl⟩ := glueRecLoop_cert hs m0 fuel m1 _ ((d, i, jo) :: res)
        go.inv (w1 hw) hu1 htd1 ha1
        (by
          intro it hit
          rcases List.mem_append.1 hit with h' | h'
          · exact hok it (List.mem_cons_of_mem _ h')
          · obtain ⟨r, _, rfl⟩ := List.mem_map.1 h'
            intro hn; cases hn) m' out h
      refine ⟨i1, i2, i3, i4, (d, i, jo) :: l, by rw [hl]; simp, ?_⟩
      refine ⟨hcert, ?_⟩
      have : res.reverse ++ [(d, i, jo)] = ((d, i, jo) :: res).reverse := by simp
      rw [this]
      exact hcl

end DSymVerif.FGP
