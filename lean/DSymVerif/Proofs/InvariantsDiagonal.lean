/-
`diagonalize_in_place` ends in a diagonal matrix, and every invariant kept by elementary
unimodular row / column operations is kept by the whole routine.

Invariant `Cleared mat n m i`: every off-diagonal entry in a row `< i` or a column `< i` is zero.
`find_pivot` answers a zero entry only if the whole remaining block is zero (its running minimum
is an `Option`, so no entry is overlooked).
-/
import DSymVerif.Proofs.InvariantsSteps

namespace DSymVerif.Inv

def Cleared (mat : Mat) (n m i : Nat) : Prop :=
  ∀ k c, k < n → c < m → (k < i ∨ c < i) → k ≠ c → get mat k c = 0

/-! ### `find_pivot` finds a non-zero entry if there is one below `isize::MAX` -/

theorem foldl_min {σ α : Type} (μ : σ → Int) (g : σ → α → σ) (Q : α → Int → Prop)
    (hQ : ∀ x a b, b ≤ a → Q x a → Q x b)
    (hstep : ∀ st x, μ (g st x) ≤ μ st ∧ Q x (μ (g st x))) (l : List α) (st : σ) :
    μ (l.foldl g st) ≤ μ st ∧ ∀ x ∈ l, Q x (μ (l.foldl g st)) := by
  induction l generalizing st with
  | nil => exact ⟨Int.le_refl _, by simp⟩
  | cons x l ih =>
    rw [List.foldl_cons]
    obtain ⟨h1, h2⟩ := ih (g st x)
    obtain ⟨s1, s2⟩ := hstep st x
    refine ⟨Int.le_trans h1 s1, ?_⟩
    intro y hy
    rcases List.mem_cons.mp hy with rfl | hy
    · exact hQ _ _ _ h1 s2
    · exact h2 y hy

/-- 1 while nothing has been found, 0 afterwards -/
def noneFlag (st : Nat × Nat × Option Int) : Int := if st.2.2 = none then 1 else 0

theorem pivotStep_min (mat : Mat) (r : Nat) (st : Nat × Nat × Option Int) (c : Nat) :
    noneFlag (pivotStep mat r st c) ≤ noneFlag st ∧
    (1 ≤ noneFlag (pivotStep mat r st c) → get mat r c = 0) := by
  unfold pivotStep
  simp only
  split
  · refine ⟨?_, ?_⟩
    · unfold noneFlag; simp only [reduceCtorEq, if_false]; split <;> omega
    · intro h; unfold noneFlag at h; simp at h
  · rename_i h
    refine ⟨Int.le_refl _, ?_⟩
    intro h1
    have hn : st.2.2 = none := by
      unfold noneFlag at h1
      by_contra hne
      rw [if_neg hne] at h1
      omega
    by_contra h0
    apply h
    refine ⟨by omega, ?_⟩
    rw [hn]; rfl

theorem pivotStep_inv (mat : Mat) (r : Nat) (st : Nat × Nat × Option Int) (c : Nat)
    (h : st.2.2 = none ∨ get mat st.1 st.2.1 ≠ 0) :
    (pivotStep mat r st c).2.2 = none ∨
      get mat (pivotStep mat r st c).1 (pivotStep mat r st c).2.1 ≠ 0 := by
  unfold pivotStep
  simp only
  split
  · rename_i hc
    right
    simp only
    intro h0
    apply hc.1
    rw [h0]; rfl
  · exact h

/-- `find_pivot` answers a zero entry only if the whole remaining block is zero -/
theorem findPivot_zero (mat : Mat) (i n m : Nat) (hn : nrows mat = n) (hm : ncols mat = m)
    (h0 : get mat (findPivot mat i).1 (findPivot mat i).2 = 0) :
    ∀ r c, i ≤ r → r < n → i ≤ c → c < m → get mat r c = 0 := by
  unfold findPivot at h0
  simp only [hn, hm] at h0
  have hinv : ∀ st : Nat × Nat × Option Int, (st.2.2 = none ∨ get mat st.1 st.2.1 ≠ 0) →
      (((List.range' i (n - i)).foldl
          (fun st r => (List.range' i (m - i)).foldl (pivotStep mat r) st) st).2.2 = none ∨
        get mat ((List.range' i (n - i)).foldl
          (fun st r => (List.range' i (m - i)).foldl (pivotStep mat r) st) st).1
          ((List.range' i (n - i)).foldl
          (fun st r => (List.range' i (m - i)).foldl (pivotStep mat r) st) st).2.1 ≠ 0) := by
    intro st hst
    apply foldl_preserves (fun (st : Nat × Nat × Option Int) =>
      st.2.2 = none ∨ get mat st.1 st.2.1 ≠ 0) _ (fun _ => True) _ _
      (fun _ _ => trivial) st hst
    intro st r _ hst
    apply foldl_preserves (fun (st : Nat × Nat × Option Int) =>
      st.2.2 = none ∨ get mat st.1 st.2.1 ≠ 0) _ (fun _ => True) _ _
      (fun _ _ => trivial) st hst
    intro st c _ hst
    exact pivotStep_inv mat r st c hst
  have hmin := foldl_min noneFlag
    (fun st r => (List.range' i (m - i)).foldl (pivotStep mat r) st)
    (fun r a => ∀ c ∈ List.range' i (m - i), 1 ≤ a → get mat r c = 0)
    (by
      intro r a b hba hq c hc hb
      exact hq c hc (by omega))
    (by
      intro st r
      exact foldl_min noneFlag (pivotStep mat r)
        (fun c a => 1 ≤ a → get mat r c = 0)
        (by
          intro c a b hba hq hb
          exact hq (by omega))
        (fun st c => pivotStep_min mat r st c) _ st)
    (List.range' i (n - i)) (i, i, none)
  have hnone : ((List.range' i (n - i)).foldl
      (fun st r => (List.range' i (m - i)).foldl (pivotStep mat r) st) (i, i, none)).2.2 = none := by
    rcases hinv (i, i, none) (Or.inl rfl) with h | h
    · exact h
    · exact absurd h0 h
  intro r c hir hrn hic hcm
  have hr : r ∈ List.range' i (n - i) := by rw [List.mem_range'_1]; omega
  have hc : c ∈ List.range' i (m - i) := by rw [List.mem_range'_1]; omega
  apply hmin.2 r hr c hc
  unfold noneFlag
  rw [if_pos hnone]

/-! ### swaps -/

theorem get_swapRows_full (mat : Mat) (n m a b k c : Nat) (hR : Rect mat n m) (ha : a < n)
    (hb : b < n) :
    get (swapRows mat a b) k c = get mat (if k = b then a else if k = a then b else k) c := by
  unfold swapRows
  rw [get_set_row, get_set_row]
  have hla : a < mat.length := by rw [hR.1]; exact ha
  have hlb : b < mat.length := by rw [hR.1]; exact hb
  simp only [List.length_set]
  by_cases h1 : k = b
  · subst h1; rw [if_pos ⟨rfl, hlb⟩, if_pos rfl]; rfl
  · have : ¬ (b = k ∧ b < mat.length) := by omega
    rw [if_neg this, if_neg h1]
    by_cases h2 : k = a
    · subst h2; rw [if_pos ⟨rfl, hla⟩, if_pos rfl]; rfl
    · have : ¬ (a = k ∧ a < mat.length) := by omega
      rw [if_neg this, if_neg h2]

theorem get_swapCols_full (mat : Mat) (n m a b k c : Nat) (hR : Rect mat n m) (hk : k < n)
    (ha : a < m) (hb : b < m) :
    get (swapCols mat a b) k c = get mat k (if c = b then a else if c = a then b else c) := by
  have hk' : k < mat.length := by rw [hR.1]; exact hk
  have hl := hR.row_length hk
  unfold swapCols get
  have e : (mat.map (fun row => List.set (List.set row a (row.getD b 0)) b (row.getD a 0))).getD k []
      = List.set (List.set (mat.getD k []) a ((mat.getD k []).getD b 0)) b ((mat.getD k []).getD a 0) := by
    simp only [List.getD_eq_getElem?_getD, List.getElem?_map, List.getElem?_eq_getElem hk',
      Option.map_some, Option.getD_some]
  rw [e, getD_set', getD_set']
  simp only [List.length_set, hl]
  by_cases h1 : c = b
  · subst h1; rw [if_pos ⟨rfl, hb⟩, if_pos rfl]
  · have : ¬ (b = c ∧ b < m) := by omega
    rw [if_neg this, if_neg h1]
    by_cases h2 : c = a
    · subst h2; rw [if_pos ⟨rfl, ha⟩, if_pos rfl]
    · have : ¬ (a = c ∧ a < m) := by omega
      rw [if_neg this, if_neg h2]

theorem swapRows_cleared (mat : Mat) (n m i a b : Nat) (hR : Rect mat n m) (ha : a < n) (hb : b < n)
    (hia : i ≤ a) (hib : i ≤ b) (hC : Cleared mat n m i) : Cleared (swapRows mat a b) n m i := by
  intro k c hk hc hor hne
  rw [get_swapRows_full mat n m a b k c hR ha hb]
  by_cases h1 : k = b
  · rw [if_pos h1]; exact hC a c ha hc (by omega) (by omega)
  · rw [if_neg h1]
    by_cases h2 : k = a
    · rw [if_pos h2]; exact hC b c hb hc (by omega) (by omega)
    · rw [if_neg h2]; exact hC k c hk hc hor hne

theorem swapCols_cleared (mat : Mat) (n m i a b : Nat) (hR : Rect mat n m) (ha : a < m) (hb : b < m)
    (hia : i ≤ a) (hib : i ≤ b) (hC : Cleared mat n m i) : Cleared (swapCols mat a b) n m i := by
  intro k c hk hc hor hne
  rw [get_swapCols_full mat n m a b k c hR hk ha hb]
  by_cases h1 : c = b
  · rw [if_pos h1]; exact hC k a hk ha (by omega) (by omega)
  · rw [if_neg h1]
    by_cases h2 : c = a
    · rw [if_pos h2]; exact hC k b hk hb (by omega) (by omega)
    · rw [if_neg h2]; exact hC k c hk hc hor hne

/-! ### elementary operations; invariants closed under them -/

/-- `M'` arises from `M` by an integer operation of determinant ±1 on rows `a ≠ b` -/
def RowOp (n m : Nat) (M M' : Mat) : Prop :=
  ∃ (a b : Nat) (p q r s : Int), a < n ∧ b < n ∧ a ≠ b ∧
    (p * s - q * r = 1 ∨ p * s - q * r = -1) ∧
    ∀ k c, c < m → k < n →
      get M' k c = if k = a then p * get M a c + q * get M b c
                   else if k = b then r * get M a c + s * get M b c else get M k c

/-- the same on columns `a ≠ b` -/
def ColOp (n m : Nat) (M M' : Mat) : Prop :=
  ∃ (a b : Nat) (p q r s : Int), a < m ∧ b < m ∧ a ≠ b ∧
    (p * s - q * r = 1 ∨ p * s - q * r = -1) ∧
    ∀ k c, c < m → k < n →
      get M' k c = if c = a then p * get M k a + q * get M k b
                   else if c = b then r * get M k a + s * get M k b else get M k c

/-- row `a` negated -/
def NegRow (n m : Nat) (M M' : Mat) : Prop :=
  ∃ a, a < n ∧ ∀ k c, c < m → k < n → get M' k c = if k = a then - get M a c else get M k c

/-- same entries -/
def Same (n m : Nat) (M M' : Mat) : Prop := ∀ k c, c < m → k < n → get M' k c = get M k c

/-- an invariant of `n × m` matrices that every elementary unimodular operation keeps -/
structure Closed (n m : Nat) (P : Mat → Prop) : Prop where
  row : ∀ M M', RowOp n m M M' → P M → P M'
  col : ∀ M M', ColOp n m M M' → P M → P M'
  neg : ∀ M M', NegRow n m M M' → P M → P M'
  same : ∀ M M', Same n m M M' → P M → P M'

theorem swapRows_rowOp (mat : Mat) (n m a b : Nat) (hR : Rect mat n m) (ha : a < n) (hb : b < n)
    (hab : a ≠ b) : RowOp n m mat (swapRows mat a b) := by
  refine ⟨a, b, 0, 1, 1, 0, ha, hb, hab, Or.inr (by ring), ?_⟩
  intro k c _ _
  rw [get_swapRows_full mat n m a b k c hR ha hb]
  split_ifs <;> first | (exfalso; omega) | ring

theorem swapCols_colOp (mat : Mat) (n m a b : Nat) (hR : Rect mat n m) (ha : a < m) (hb : b < m)
    (hab : a ≠ b) : ColOp n m mat (swapCols mat a b) := by
  refine ⟨a, b, 0, 1, 1, 0, ha, hb, hab, Or.inr (by ring), ?_⟩
  intro k c _ hk
  rw [get_swapCols_full mat n m a b k c hR hk ha hb]
  split_ifs <;> first | (exfalso; omega) | ring

theorem movePivot_cleared (mat : Mat) (n m i r c : Nat) (P : Mat → Prop) (hP : Closed n m P)
    (hR : Rect mat n m) (hin : i < n)
    (him : i < m) (hr : r < n) (hc : c < m) (hir : i ≤ r) (hic : i ≤ c)
    (hC : Cleared mat n m i) (hPm : P mat) :
    Cleared (movePivot mat i (r, c)) n m i ∧ P (movePivot mat i (r, c)) := by
  unfold movePivot
  simp only
  by_cases h1 : r ≠ i
  · rw [if_pos h1]
    have hR1 := rect_swapRows mat n m r i hR hr hin
    have hC1 := swapRows_cleared mat n m i r i hR hr hin hir (Nat.le_refl _) hC
    have hP1 := hP.row _ _ (swapRows_rowOp mat n m r i hR hr hin h1) hPm
    by_cases h2 : c ≠ i
    · rw [if_pos h2]
      exact ⟨swapCols_cleared _ n m i c i hR1 hc him hic (Nat.le_refl _) hC1,
        hP.col _ _ (swapCols_colOp _ n m c i hR1 hc him h2) hP1⟩
    · rw [if_neg h2]; exact ⟨hC1, hP1⟩
  · rw [if_neg h1]
    by_cases h2 : c ≠ i
    · rw [if_pos h2]
      exact ⟨swapCols_cleared _ n m i c i hR hc him hic (Nat.le_refl _) hC,
        hP.col _ _ (swapCols_colOp _ n m c i hR hc him h2) hPm⟩
    · rw [if_neg h2]; exact ⟨hC, hPm⟩

/-! ### the row pass clears column `i` below the pivot -/

theorem rowPass_aux (n m i : Nat) (P : Mat → Prop) (hP : Closed n m P) (him : i < m) (len s : Nat)
    (st : Mat × Nat) (hs : s + len = n)
    (his : i < s) (hR : Rect st.1 n m) (hC : Cleared st.1 n m i)
    (hZ : ∀ k, i < k → k < s → get st.1 k i = 0) (hPs : P st.1) :
    Rect ((List.range' s len).foldl (clearRowStep i) st).1 n m ∧
    Cleared ((List.range' s len).foldl (clearRowStep i) st).1 n m i ∧
    (∀ k, i < k → k < n → get ((List.range' s len).foldl (clearRowStep i) st).1 k i = 0) ∧
    P ((List.range' s len).foldl (clearRowStep i) st).1 := by
  induction len generalizing s st with
  | zero =>
    simp only [List.range'_zero, List.foldl_nil]
    exact ⟨hR, hC, fun k h1 h2 => hZ k h1 (by omega), hPs⟩
  | succ len ih =>
    rw [List.range'_succ, List.foldl_cons]
    have hsn : s < n := by omega
    have hin : i < n := by omega
    obtain ⟨p, q, r, t, hdet, hE, hclr⟩ := clearRowStep_unimodular st.1 n m i s st.2 hR him his hsn
      (by
        intro c hc
        exact ⟨hC i c hin (by omega) (Or.inr hc) (by omega), hC s c hsn (by omega) (Or.inr hc) (by omega)⟩)
    have hR' := (clearRowStep_spec i n m st.1 st.2 s hR him his hsn).1
    apply ih (s + 1) (clearRowStep i st s) (by omega) (by omega) hR'
    · intro k c hk hc hor hne
      rw [hE k c hc hk]
      by_cases hki : k = i
      · rw [if_pos hki]
        have hci : c < i := by omega
        rw [hC i c hin hc (Or.inr hci) (by omega), hC s c hsn hc (Or.inr hci) (by omega)]; ring
      · rw [if_neg hki]
        by_cases hks : k = s
        · rw [if_pos hks]
          have hci : c < i := by omega
          rw [hC i c hin hc (Or.inr hci) (by omega), hC s c hsn hc (Or.inr hci) (by omega)]; ring
        · rw [if_neg hks]; exact hC k c hk hc hor hne
    · intro k hik hks
      by_cases hk : k = s
      · subst hk; exact hclr
      · rw [hE k i him (by omega), if_neg (by omega), if_neg hk]
        exact hZ k hik (by omega)
    · exact hP.row _ _ ⟨i, s, p, q, r, t, hin, hsn, by omega, hdet, hE⟩ hPs

theorem clearLaterRows_cleared (mat : Mat) (n m i : Nat) (P : Mat → Prop) (hP : Closed n m P)
    (hR : Rect mat n m) (hin : i < n)
    (him : i < m) (hC : Cleared mat n m i) (hPm : P mat) :
    Rect (clearLaterRows mat i).1 n m ∧ Cleared (clearLaterRows mat i).1 n m i ∧
    (∀ k, i < k → k < n → get (clearLaterRows mat i).1 k i = 0) ∧ P (clearLaterRows mat i).1 := by
  unfold clearLaterRows
  rw [hR.nrows]
  exact rowPass_aux n m i P hP him (n - (i + 1)) (i + 1) (mat, 0) (by omega) (by omega) hR hC
    (by intro k h1 h2; omega) hPm

/-! ### the column pass clears row `i` right of the pivot (when it counts no gcd step) -/

theorem clearColStep_unimodular' (mat : Mat) (n m i col cnt : Nat) (hR : Rect mat n m)
    (hin : i < n) (hic : i < col) (hcm : col < m)
    (hz : ∀ k, k < i → get mat k i = 0 ∧ get mat k col = 0) :
    ∃ p q r s : Int, (p * s - q * r = 1 ∨ p * s - q * r = -1) ∧
      (∀ k c, c < m → k < n →
        get (clearColStep i (mat, cnt) col).1 k c =
          if c = i then p * get mat k i + q * get mat k col
          else if c = col then r * get mat k i + s * get mat k col
          else get mat k c) ∧
      get (clearColStep i (mat, cnt) col).1 i col = 0 ∧
      ((clearColStep i (mat, cnt) col).2 = cnt → p = 1 ∧ q = 0) := by
  have him : i < m := by omega
  unfold clearColStep
  simp only
  have key : ∀ p q r s : Int, ∀ k c, c < m → k < n →
      get (mat.mapIdx (fun rw rowv => if i ≤ rw then colOp i col p q r s rowv else rowv)) k c =
        if c = i then p * get mat k i + q * get mat k col
        else if c = col then r * get mat k i + s * get mat k col
        else get mat k c := by
    intro p q r s k c _ hk
    rw [get_mapIdx_colOp i col n m p q r s mat hR (by omega) him hcm k c hk]
    by_cases hik : i ≤ k
    · rw [if_pos hik]
      split_ifs <;> ring
    · rw [if_neg hik]
      obtain ⟨z1, z2⟩ := hz k (by omega)
      by_cases hci : c = i
      · subst hci; rw [if_pos rfl, z1, z2]; ring
      · rw [if_neg hci]
        by_cases hcc : c = col
        · subst hcc; rw [if_pos rfl, z1, z2]; ring
        · rw [if_neg hcc]
  by_cases hA : get mat i i ≠ 0 ∧ (get mat i col).tmod (get mat i i) = 0
  · rw [if_pos hA]
    refine ⟨1, 0, -((get mat i col).tdiv (get mat i i)), 1, Or.inl (by ring), key _ _ _ _, ?_,
      fun _ => ⟨rfl, rfl⟩⟩
    rw [key _ _ _ _ i col hcm hin]
    have hne : col ≠ i := by omega
    rw [if_neg hne, if_pos rfl]
    have hdvd : get mat i i ∣ get mat i col := Int.dvd_of_tmod_eq_zero hA.2
    have := Int.mul_tdiv_cancel' hdvd
    linarith
  · rw [if_neg hA]
    by_cases hB : get mat i col ≠ 0
    · rw [if_pos hB]
      have hs := gcdx_spec' (get mat i i) (get mat i col)
      refine ⟨_, _, _, _, hs.2.2.1, key _ _ _ _, ?_, fun h => absurd h (Nat.succ_ne_self cnt)⟩
      rw [key _ _ _ _ i col hcm hin]
      have hne : col ≠ i := by omega
      rw [if_neg hne, if_pos rfl]
      exact hs.2.1
    · rw [if_neg hB]
      refine ⟨1, 0, 0, 1, Or.inl (by ring), ?_, ?_, fun _ => ⟨rfl, rfl⟩⟩
      · intro k c _ _
        by_cases hci : c = i
        · subst hci; rw [if_pos rfl]; ring
        · rw [if_neg hci]
          by_cases hcc : c = col
          · subst hcc; rw [if_pos rfl]; ring
          · rw [if_neg hcc]
      · by_contra h; exact hB h

theorem colPass_aux (n m i : Nat) (P : Mat → Prop) (hP : Closed n m P) (hin : i < n) (len s : Nat)
    (st : Mat × Nat) (hs : s + len = m)
    (his : i < s) (hR : Rect st.1 n m) (hC : Cleared st.1 n m i)
    (hZ : st.2 = 0 → (∀ k, i < k → k < n → get st.1 k i = 0) ∧
      (∀ c, i < c → c < s → get st.1 i c = 0)) (hPs : P st.1) :
    Rect ((List.range' s len).foldl (clearColStep i) st).1 n m ∧
    Cleared ((List.range' s len).foldl (clearColStep i) st).1 n m i ∧
    (((List.range' s len).foldl (clearColStep i) st).2 = 0 →
      (∀ k, i < k → k < n → get ((List.range' s len).foldl (clearColStep i) st).1 k i = 0) ∧
      (∀ c, i < c → c < m → get ((List.range' s len).foldl (clearColStep i) st).1 i c = 0)) ∧
    P ((List.range' s len).foldl (clearColStep i) st).1 := by
  induction len generalizing s st with
  | zero =>
    simp only [List.range'_zero, List.foldl_nil]
    refine ⟨hR, hC, fun h0 => ⟨(hZ h0).1, fun c h1 h2 => (hZ h0).2 c h1 (by omega)⟩, hPs⟩
  | succ len ih =>
    rw [List.range'_succ, List.foldl_cons]
    have hsm : s < m := by omega
    have him : i < m := by omega
    obtain ⟨p, q, r, t, hdet, hE, hclr, hpq⟩ := clearColStep_unimodular' st.1 n m i s st.2 hR hin his hsm
      (by
        intro k hk
        exact ⟨hC k i (by omega) him (Or.inl hk) (by omega), hC k s (by omega) hsm (Or.inl hk) (by omega)⟩)
    obtain ⟨hR', hmono, _⟩ := clearColStep_spec i n m st.1 st.2 s hR hin his hsm
    apply ih (s + 1) (clearColStep i st s) (by omega) (by omega) hR'
    · intro k c hk hc hor hne
      rw [hE k c hc hk]
      by_cases hci : c = i
      · rw [if_pos hci]
        have hki : k < i := by omega
        rw [hC k i hk him (Or.inl hki) (by omega), hC k s hk hsm (Or.inl hki) (by omega)]; ring
      · rw [if_neg hci]
        by_cases hcs : c = s
        · rw [if_pos hcs]
          have hki : k < i := by omega
          rw [hC k i hk him (Or.inl hki) (by omega), hC k s hk hsm (Or.inl hki) (by omega)]; ring
        · rw [if_neg hcs]; exact hC k c hk hc hor hne
    · intro h0
      have hst0 : st.2 = 0 := by
        have : st.2 ≤ (clearColStep i (st.1, st.2) s).2 := hmono
        have e : (clearColStep i (st.1, st.2) s).2 = 0 := h0
        omega
      have heq : (clearColStep i (st.1, st.2) s).2 = st.2 := by
        have e : (clearColStep i (st.1, st.2) s).2 = 0 := h0
        rw [e, hst0]
      obtain ⟨hp, hq⟩ := hpq heq
      obtain ⟨z1, z2⟩ := hZ hst0
      constructor
      · intro k hik hkn
        rw [hE k i him hkn, if_pos rfl, hp, hq, z1 k hik hkn]; ring
      · intro c hic hcs
        by_cases hc : c = s
        · subst hc; exact hclr
        · rw [hE i c (by omega) hin, if_neg (by omega), if_neg hc]
          exact z2 c hic (by omega)
    · exact hP.col _ _ ⟨i, s, p, q, r, t, him, hsm, by omega, hdet, hE⟩ hPs

theorem clearLaterCols_cleared (mat : Mat) (n m i : Nat) (P : Mat → Prop) (hP : Closed n m P)
    (hR : Rect mat n m) (hin : i < n)
    (him : i < m) (hC : Cleared mat n m i) (hZ : ∀ k, i < k → k < n → get mat k i = 0)
    (hPm : P mat) :
    Rect (clearLaterCols mat i).1 n m ∧ Cleared (clearLaterCols mat i).1 n m i ∧
    ((clearLaterCols mat i).2 = 0 →
      (∀ k, i < k → k < n → get (clearLaterCols mat i).1 k i = 0) ∧
      (∀ c, i < c → c < m → get (clearLaterCols mat i).1 i c = 0)) ∧
    P (clearLaterCols mat i).1 := by
  unfold clearLaterCols
  rw [hR.ncols (by omega)]
  exact colPass_aux n m i P hP hin (m - (i + 1)) (i + 1) (mat, 0) (by omega) (by omega) hR hC
    (fun _ => ⟨hZ, by intro c h1 h2; omega⟩) hPm

/-! ### the inner loop, one outer step, the whole routine -/

theorem innerLoop_cleared (n m i : Nat) (P : Mat → Prop) (hP : Closed n m P) (hin : i < n)
    (him : i < m) (fuel : Nat) (mat M : Mat)
    (hR : Rect mat n m) (hC : Cleared mat n m i) (hPm : P mat)
    (h : innerLoop fuel mat i = some M) :
    Rect M n m ∧ Cleared M n m i ∧ (∀ k, i < k → k < n → get M k i = 0) ∧
    (∀ c, i < c → c < m → get M i c = 0) ∧ P M := by
  induction fuel generalizing mat with
  | zero => unfold innerLoop at h; cases h
  | succ fuel ih =>
    unfold innerLoop at h
    simp only at h
    obtain ⟨r1, c1, z1, p1⟩ := clearLaterRows_cleared mat n m i P hP hR hin him hC hPm
    obtain ⟨r2, c2, z2, p2⟩ :=
      clearLaterCols_cleared (clearLaterRows mat i).1 n m i P hP r1 hin him c1 z1 p1
    split at h
    · rename_i h0
      injection h with h; subst h
      exact ⟨r2, c2, (z2 h0).1, (z2 h0).2, p2⟩
    · exact ih _ r2 c2 p2 h

theorem get_set_ne (mat : Mat) (r c k c' : Nat) (v : Int) (h : k ≠ r ∨ c' ≠ c) :
    get (set mat r c v) k c' = get mat k c' := by
  unfold Inv.set
  rw [get_set_row]
  by_cases hk : r = k ∧ r < mat.length
  · rw [if_pos hk, getD_set']
    have : ¬ (c = c' ∧ c < (mat.getD r []).length) := by omega
    rw [if_neg this]
    obtain ⟨rfl, _⟩ := hk
    rfl
  · rw [if_neg hk]

/-- `mat[i][i] = mat[i][i].abs()` on a row that is otherwise zero: nothing, or the row negated -/
theorem abs_step (M : Mat) (n m i : Nat) (P : Mat → Prop) (hP : Closed n m P) (hR : Rect M n m)
    (hin : i < n) (him : i < m) (hrow : ∀ c, c < m → c ≠ i → get M i c = 0) (hPM : P M) :
    P (set M i i ((get M i i).natAbs : Int)) := by
  by_cases hneg : get M i i < 0
  · apply hP.neg _ _ _ hPM
    refine ⟨i, hin, ?_⟩
    intro k c hc hk
    by_cases hki : k = i
    · subst hki
      rw [if_pos rfl]
      by_cases hci : c = k
      · subst hci
        rw [get_set_self M n m c _ hR hin him]; omega
      · rw [get_set_ne _ _ _ _ _ _ (Or.inr hci), hrow c hc hci]; rfl
    · rw [if_neg hki, get_set_ne _ _ _ _ _ _ (Or.inl hki)]
  · apply hP.same _ _ _ hPM
    intro k c hc hk
    by_cases hki : k = i
    · subst hki
      by_cases hci : c = k
      · subst hci
        rw [get_set_self M n m c _ hR hin him]; omega
      · rw [get_set_ne _ _ _ _ _ _ (Or.inr hci)]
    · rw [get_set_ne _ _ _ _ _ _ (Or.inl hki)]

theorem diagStep_cleared (mat M : Mat) (n m i : Nat) (P : Mat → Prop) (hP : Closed n m P)
    (hR : Rect mat n m) (hin : i < n) (him : i < m)
    (hC : Cleared mat n m i) (hPm : P mat) (h : diagStep mat i = some M) :
    Cleared M n m (i + 1) ∧ P M := by
  unfold diagStep at h
  simp only at h
  obtain ⟨hl1, hl2⟩ := findPivot_lower mat i
  obtain ⟨hb1, hb2⟩ := findPivot_bounds mat i n m hR.nrows (hR.ncols (by omega)) hin him
  by_cases hp : get mat (findPivot mat i).1 (findPivot mat i).2 ≠ 0
  · rw [if_pos hp] at h
    obtain ⟨hR', _⟩ := movePivot_spec mat n m i (findPivot mat i).1 (findPivot mat i).2 hR hin him hb1 hb2
    obtain ⟨hC', hP'⟩ := movePivot_cleared mat n m i (findPivot mat i).1 (findPivot mat i).2 P hP hR
      hin him hb1 hb2 hl1 hl2 hC hPm
    split at h
    · rename_i L hL
      injection h with h; subst h
      rw [show (findPivot mat i) = ((findPivot mat i).1, (findPivot mat i).2) from rfl] at hL
      obtain ⟨rL, cL, zc, zr, pL⟩ := innerLoop_cleared n m i P hP hin him _ _ L hR' hC' hP' hL
      constructor
      · intro k c hk hc hor hne
        rw [get_set_ne _ _ _ _ _ _ (by omega)]
        by_cases hlt : k < i ∨ c < i
        · exact cL k c hk hc hlt hne
        · by_cases hki : k = i
          · subst hki; exact zr c (by omega) hc
          · have hci : c = i := by omega
            subst hci; exact zc k (by omega) hk
      · apply abs_step L n m i P hP rL hin him _ pL
        intro c hc hci
        by_cases hlt : c < i
        · exact cL i c hin hc (Or.inr hlt) (by omega)
        · exact zr c (by omega) hc
    · cases h
  · rw [if_neg hp] at h
    simp only at h
    injection h with h; subst h
    have hz := findPivot_zero mat i n m hR.nrows (hR.ncols (by omega)) (by
      by_contra hne; exact hp hne)
    have hsub : ∀ k c, i ≤ k → k < n → i ≤ c → c < m → get mat k c = 0 := hz
    constructor
    · intro k c hk hc hor hne
      rw [get_set_ne _ _ _ _ _ _ (by omega)]
      by_cases hlt : k < i ∨ c < i
      · exact hC k c hk hc hlt hne
      · exact hsub k c (by omega) hk (by omega) hc
    · apply abs_step mat n m i P hP hR hin him _ hPm
      intro c hc hci
      by_cases hlt : c < i
      · exact hC i c hin hc (Or.inr hlt) (by omega)
      · exact hsub i c (Nat.le_refl _) hin (by omega) hc

theorem diagFrom_cleared (n m : Nat) (P : Mat → Prop) (hP : Closed n m P) (len s : Nat)
    (mat D : Mat) (hR : Rect mat n m)
    (hs : s + len ≤ n ∧ s + len ≤ m) (hC : Cleared mat n m s) (hPm : P mat)
    (h : diagFrom (List.range' s len) mat = some D) :
    Cleared D n m (s + len) ∧ P D := by
  induction len generalizing s mat with
  | zero =>
    simp only [List.range'_zero] at h
    unfold diagFrom at h
    injection h with h; subst h
    exact ⟨hC, hPm⟩
  | succ len ih =>
    rw [List.range'_succ] at h
    unfold diagFrom at h
    split at h
    · rename_i M hM
      obtain ⟨M', hM', hRM⟩ := diagStep_some mat n m s hR (by omega) (by omega)
      rw [hM] at hM'; injection hM' with hM'; subst hM'
      obtain ⟨hCM, hPM⟩ := diagStep_cleared mat M n m s P hP hR (by omega) (by omega) hC hPm hM
      have := ih (s + 1) M hRM (by omega) hCM hPM h
      rw [show s + (len + 1) = s + 1 + len by omega]; exact this
    · cases h

/-- `diagonalize_in_place` ends in a diagonal matrix, and every invariant that elementary
    unimodular row / column operations keep is kept -/
theorem diagonalize_diagonal' (mat D : Mat) (n m : Nat) (P : Mat → Prop) (hP : Closed n m P)
    (hR : Rect mat n m) (hn : 0 < n) (hPm : P mat) (h : diagonalize mat = some D) :
    (∀ r c, r < n → c < m → r ≠ c → get D r c = 0) ∧ P D := by
  unfold diagonalize at h
  rw [hR.nrows, hR.ncols hn, List.range_eq_range'] at h
  obtain ⟨hC, hPD⟩ := diagFrom_cleared n m P hP (min n m) 0 mat D hR (by omega)
    (by intro k c _ _ hor; omega) hPm h
  refine ⟨?_, hPD⟩
  intro r c hr hc hne
  exact hC r c hr hc (by omega) hne

end DSymVerif.Inv
