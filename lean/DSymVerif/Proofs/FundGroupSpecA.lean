/-
Helper lemmas for property C09, part 18: the family of textbook presentations `GRel ds Tr B`
(tree facets `Tr`, one 2-orbit relator for every base chamber satisfying `B`), and step (a): it is
enough to keep one base chamber per 2-orbit — the relators at the other chambers of the orbit are
conjugates of it or of its inverse modulo the pairing relators.
-/
import Mathlib.GroupTheory.QuotientGroup.Basic
import DSymVerif.Proofs.FundGroupPres

namespace DSymVerif.FGP
open DSymVerif DSymVerif.DS DSymVerif.FG

/-- textbook relators with tree facets `Tr` and 2-orbit relators at the base chambers `B i j d` -/
def GRel (ds : DSymData) (Tr : Edge → Prop) (B : Nat → Nat → Nat → Prop) : Set (FreeGroup ℕ) :=
  {r | ∃ d i, FacetR ds d i ∧ r = xg ds d i * xg ds (ds.dset.opU i d) i} ∪
  {r | ∃ d i, Tr (d, i) ∧ r = xg ds d i} ∪
  {r | ∃ i j d, i < j ∧ j ≤ ds.dim ∧ 1 ≤ d ∧ d ≤ ds.size ∧ B i j d ∧
    r = OW ds (xg ds) i j d ^ orbV ds i j d} ∪
  {r | ∃ k, ¬ isCode ds k ∧ r = FreeGroup.of k}

/-- the facets of the code's spanning tree -/
def codeTree (ds : DSymData) (e : Edge) : Prop := ∃ it ∈ spanningTree ds, e = (it.1, it.2.1)

theorem TRel_eq_GRel (ds : DSymData) : TRel ds = GRel ds (codeTree ds) (fun _ _ _ => True) := by
  unfold TRel GRel codeTree
  ext r
  simp only [Set.mem_union, Set.mem_setOf_eq]
  constructor
  · rintro (((h | ⟨it, hit, rfl⟩) | ⟨i, j, d, a, b, c, e, rfl⟩) | h)
    · exact Or.inl (Or.inl (Or.inl h))
    · exact Or.inl (Or.inl (Or.inr ⟨it.1, it.2.1, ⟨it, hit, rfl⟩, rfl⟩))
    · exact Or.inl (Or.inr ⟨i, j, d, a, b, c, e, trivial, rfl⟩)
    · exact Or.inr h
  · rintro (((h | ⟨d, i, ⟨it, hit, he⟩, rfl⟩) | ⟨i, j, d, a, b, c, e, _, rfl⟩) | h)
    · exact Or.inl (Or.inl (Or.inl h))
    · refine Or.inl (Or.inl (Or.inr ⟨it, hit, ?_⟩))
      rw [show d = it.1 from congrArg Prod.fst he, show i = it.2.1 from congrArg Prod.snd he]
    · exact Or.inl (Or.inr ⟨i, j, d, a, b, c, e, rfl⟩)
    · exact Or.inr h

section
variable {ds : DSymData} {Tr : Edge → Prop} {B : Nat → Nat → Nat → Prop}

/-- the class of a facet generator in the group presented by `GRel ds Tr B` -/
noncomputable def xQ (ds : DSymData) (Tr : Edge → Prop) (B : Nat → Nat → Nat → Prop) (c a : Nat) :
    PresentedGroup (GRel ds Tr B) := PresentedGroup.mk _ (xg ds c a)

theorem xQ_pair (a c : Nat) : xQ ds Tr B (opT ds a c) a = (xQ ds Tr B c a)⁻¹ := by
  by_cases h : FacetR ds c a
  · rw [opT_eq h.2.2 h.1 h.2.1]
    have : xQ ds Tr B c a * xQ ds Tr B (ds.dset.opU a c) a = 1 := by
      unfold xQ
      rw [← map_mul]
      exact PresentedGroup.one_of_mem (Or.inl (Or.inl (Or.inl ⟨c, a, h, rfl⟩)))
    exact eq_inv_of_mul_eq_one_right this
  · rw [opT_oor (fun h' => h ⟨h'.2.1, h'.2.2, h'.1⟩)]
    have : xQ ds Tr B c a = 1 := by
      unfold xQ xg; rw [if_neg h, map_one]
    rw [this]; simp

theorem mk_OW_xQ (i j d v : Nat) :
    PresentedGroup.mk (GRel ds Tr B) (OW ds (xg ds) i j d ^ v) = OW ds (xQ ds Tr B) i j d ^ v := by
  rw [map_pow]
  unfold OW
  rw [map_Wf]
  rfl

/-- **step (a)**: if every 2-orbit contains a base chamber satisfying `B`, the presentation with
    one relator per such base chamber has the same normal closure as the presentation with a
    relator at every chamber -/
theorem grel_base (hs : ValidSym ds)
    (hB : ∀ i j d, i < j → j ≤ ds.dim → 1 ≤ d → d ≤ ds.size →
      ∃ d0, 1 ≤ d0 ∧ d0 ≤ ds.size ∧ B i j d0 ∧ Orb2 ds.dset i j d0 d) :
    Subgroup.normalClosure (GRel ds Tr B) = Subgroup.normalClosure (GRel ds Tr (fun _ _ _ => True)) := by
  apply le_antisymm
  · apply Subgroup.normalClosure_mono
    rintro r (((h | h) | ⟨i, j, d, a, b, c, e, _, rfl⟩) | h)
    · exact Or.inl (Or.inl (Or.inl h))
    · exact Or.inl (Or.inl (Or.inr h))
    · exact Or.inl (Or.inr ⟨i, j, d, a, b, c, e, trivial, rfl⟩)
    · exact Or.inr h
  · apply Subgroup.normalClosure_le_normal
    rintro r (((h | h) | ⟨i, j, d, hij, hj, h1, h2, _, rfl⟩) | h)
    · exact Subgroup.subset_normalClosure (Or.inl (Or.inl (Or.inl h)))
    · exact Subgroup.subset_normalClosure (Or.inl (Or.inl (Or.inr h)))
    · have hi : i ≤ ds.dim := by omega
      obtain ⟨d0, a1, a2, hb, ho⟩ := hB i j d hij hj h1 h2
      rw [SetLike.mem_coe, ← PresentedGroup.mk_eq_one_iff, mk_OW_xQ,
        orbV_orbit hi hj a1 a2 ho hs,
        OW_orbit hs (fun a c => xQ_pair a c) hi hj a1 a2 ho, ← mk_OW_xQ]
      exact PresentedGroup.one_of_mem (Or.inl (Or.inr ⟨i, j, d0, hij, hj, a1, a2, hb, rfl⟩))
    · exact Subgroup.subset_normalClosure (Or.inr h)

/-- two relator sets with the same normal closure present the same group -/
noncomputable def presentedEquivOfEq {α : Type} {R S : Set (FreeGroup α)}
    (h : Subgroup.normalClosure R = Subgroup.normalClosure S) :
    PresentedGroup R ≃* PresentedGroup S :=
  QuotientGroup.quotientMulEquivOfEq h

end

end DSymVerif.FGP
