/-
Helper lemmas for property C08, part 31: symbols that are not connected — the boundary components
of a disjoint union are those of the parts.

An embedding (`Emb`, part 30) carries boundary darts to boundary darts, commutes with the boundary
walk `phi` and preserves the corner words (the proofs of part 17 for bijective morphisms, with the
identity on the indices, use injectivity only); every boundary dart of the union whose chamber lies
in the image comes from a boundary dart of the part.  So the traces of `trace_boundary` on the
union correspond one to one to the traces on the two parts.
-/
import DSymVerif.Proofs.Delaney2dUnion

namespace DSymVerif.D2
open DSymVerif.DS

/-- the dart map of an embedding -/
def emap (f : Nat → Nat) (δ : Dart) : Dart := (δ.1, δ.2.1, f δ.2.2)

namespace Emb
variable {f : Nat → Nat} {a s : DSymData} (m : Emb f a s)
include m

theorem valid {δ : Dart} (h : ValidDart a δ) : ValidDart s (emap f δ) := by
  obtain ⟨h1, h2, h3, h4, h5, h6⟩ := h
  have hf := m.range δ.2.2 h4 h5
  refine ⟨h1, h2, h3, hf.1, hf.2, ?_⟩
  show s.dset.opU δ.1 (f δ.2.2) = f δ.2.2
  rw [m.op δ.1 δ.2.2 h1 h4 h5, h6]

omit m in
theorem map_rho (δ : Dart) : rho (emap f δ) = emap f (rho δ) := rfl

theorem map_path {σ n k x k' x' : Nat} {j0 k0 : Nat} (hj0 : j0 ≤ 2) (hk0 : k0 ≤ 2)
    (hσ : σ = j0 + k0) (p : Path a.dset σ n k x k' x') (hk : k = j0 ∨ k = k0) (hx : 1 ≤ x ∧ x ≤ a.size) :
    Path s.dset (j0 + k0) n k (f x) k' (f x') := by
  subst hσ
  induction p with
  | nil k x => exact Path.nil _ _
  | @cons n k x k' x' hstep p ih =>
    have hk2 : k ≤ 2 := by rcases hk with rfl | rfl <;> assumption
    have hkd : k ≤ a.dset.dim := by have := m.dima; show k ≤ a.dim; omega
    have hx' := m.va.set.range k x hkd hx.1 hx.2
    have hnext : j0 + k0 - k = j0 ∨ j0 + k0 - k = k0 := by
      rcases hk with rfl | rfl
      · right; omega
      · left; omega
    have ih' := ih hnext hx'
    rw [← m.op k x hk2 hx.1 hx.2] at ih'
    refine Path.cons ?_ ih'
    rw [m.op k x hk2 hx.1 hx.2]
    intro e
    exact hstep (m.inj _ _ hx'.1 hx'.2 hx.1 hx.2 e)

theorem map_tau {δ : Dart} (h : ValidDart a δ) : tau s (emap f δ) = emap f (tau a δ) := by
  obtain ⟨h1, h2, h3, h4, h5, h6⟩ := h
  have hδ : ValidDart a δ := ⟨h1, h2, h3, h4, h5, h6⟩
  obtain ⟨n, k', e', hn, p, hk', he', hend, _⟩ :=
    chain_path m.va.set (a := δ.2.1) (b := δ.1) (by have := m.dima; omega) (by have := m.dima; omega)
      (fun e => h3 e.symm) ⟨h4, h5⟩ h6
  have hk2 : k' ≤ 2 := by rcases hk' with rfl | rfl <;> assumption
  have ta := tau_of_path m.va.set m.dima hδ p hend (by omega)
  have pb := m.map_path h2 h1 rfl p (Or.inl rfl) ⟨h4, h5⟩
  have hendb : s.dset.opU k' (f e') = f e' := by rw [m.op k' e' hk2 he'.1 he'.2, hend]
  have tb := tau_of_path m.vs.set m.dims (m.valid hδ) (δ := emap f δ) pb hendb
    (by have := m.size_le; omega)
  rw [ta, tb]
  rfl

theorem map_phi {δ : Dart} (h : ValidDart a δ) : phi s (emap f δ) = emap f (phi a δ) := by
  rw [phi_eq m.vs.set m.dims (m.valid h), phi_eq m.va.set m.dima h, m.map_tau h, map_rho]

theorem map_iter {δ : Dart} (h : ValidDart a δ) (n : Nat) :
    (phi s)^[n] (emap f δ) = emap f ((phi a)^[n] δ) := by
  induction n with
  | zero => rfl
  | succ n ih =>
    rw [Function.iterate_succ_apply', Function.iterate_succ_apply', ih,
      m.map_phi (phi_iter_valid m.va.set m.dima h n)]

theorem map_vOf {δ : Dart} (h : ValidDart a δ) : vOf s (emap f δ) = vOf a δ := by
  obtain ⟨h1, h2, h3, h4, h5, _⟩ := h
  exact m.v h1 h2 h3 h4 h5

theorem map_inj {δ δ' : Dart} (h : ValidDart a δ) (h' : ValidDart a δ') (e : emap f δ = emap f δ') :
    δ = δ' := by
  obtain ⟨j, k, x⟩ := δ
  obtain ⟨j', k', x'⟩ := δ'
  obtain ⟨_, _, _, h4, h5, _⟩ := h
  obtain ⟨_, _, _, h4', h5', _⟩ := h'
  simp only [emap, Prod.mk.injEq] at e h4 h5 h4' h5'
  obtain ⟨e1, e2, e3⟩ := e
  rw [e1, e2, m.inj x x' h4 h5 h4' h5' e3]

theorem map_seqOf {σ : Dart} (h : ValidDart a σ) (n : Nat) : seqOf s (emap f σ) n = seqOf a σ n := by
  unfold seqOf
  congr 1
  unfold dlist
  rw [List.map_map, List.map_map]
  apply List.map_congr_left
  intro i _
  simp only [Function.comp]
  rw [m.map_iter h i, m.map_vOf (phi_iter_valid m.va.set m.dima h i)]

theorem map_isWalk {σ : Dart} {n : Nat} (w : IsWalk a σ n) : IsWalk s (emap f σ) n := by
  refine ⟨m.valid w.valid, w.pos, ?_, ?_⟩
  · rw [m.map_iter w.valid, w.closed]
  · have e : dlist s (emap f σ) n = (dlist a σ n).map (emap f) := by
      unfold dlist
      rw [List.map_map]
      apply List.map_congr_left
      intro i _
      exact m.map_iter w.valid i
    rw [e]
    apply List.Nodup.map_on _ w.nodup
    intro x hx z hz hxz
    obtain ⟨i, _, rfl⟩ := mem_dlist.1 hx
    obtain ⟨j, _, rfl⟩ := mem_dlist.1 hz
    exact m.map_inj (phi_iter_valid m.va.set m.dima w.valid i) (phi_iter_valid m.va.set m.dima w.valid j) hxz

/-- a valid dart of `s` at a chamber of the image comes from a valid dart of `a` -/
theorem pullback {η : Dart} (hη : ValidDart s η) {x : Nat} (hx : 1 ≤ x ∧ x ≤ a.size)
    (hfx : f x = η.2.2) : ∃ δ, ValidDart a δ ∧ emap f δ = η := by
  obtain ⟨j, k, e⟩ := η
  obtain ⟨h1, h2, h3, h4, h5, h6⟩ := hη
  simp only at h1 h2 h3 h4 h5 h6 hfx
  subst hfx
  refine ⟨(j, k, x), ⟨h1, h2, h3, hx.1, hx.2, ?_⟩, rfl⟩
  exact (m.fixed_iff h1 hx).1 h6

/-- the chambers along the walk of an image dart stay in the image -/
theorem iter_chamber {δ : Dart} (h : ValidDart a δ) (n : Nat) :
    ∃ x, 1 ≤ x ∧ x ≤ a.size ∧ ((phi s)^[n] (emap f δ)).2.2 = f x := by
  rw [m.map_iter h n]
  have hv := phi_iter_valid m.va.set m.dima h n
  exact ⟨((phi a)^[n] δ).2.2, hv.2.2.2.1, hv.2.2.2.2.1, rfl⟩

end Emb

/-! ### the correspondence of traces under an embedding -/

section
variable {f : Nat → Nat} {a s : DSymData} (m : Emb f a s)
  {bndsA bndsS : List (List Nat)} {startsA startsS : List (Dart × Nat)}
  (TA : TraceRecord a bndsA startsA) (TS : TraceRecord s bndsS startsS)

/-- the image of the start of the trace `p` of `a` lies on the walk of the trace `q` of `s` -/
def ERel (f : Nat → Nat) (s : DSymData) (p q : Dart × Nat) : Prop :=
  (emap f p.1).le ∈ (dlist s q.1 q.2).map Dart.le

include m TA TS

theorem erel_exists {p : Dart × Nat} (hp : p ∈ startsA) : ∃ q ∈ startsS, ERel f s p q := by
  have hv := m.valid (TA.ok p hp).1
  obtain ⟨q, hq, k, hk, hrel⟩ := TS.lookup hv
  refine ⟨q, hq, ?_⟩
  apply List.mem_map.2
  refine ⟨(phi s)^[k] q.1, mem_dlist.2 ⟨k, hk, rfl⟩, ?_⟩
  rcases hrel with e | e
  · rw [e]
  · rw [e]; exact ((rho_valid (phi_iter_valid m.vs.set m.dims (TS.ok q hq).1 k)).2.2.2).symm

omit TA in
theorem erel_dart {p q : Dart × Nat} (hpv : ValidDart a p.1) (hq : q ∈ startsS) (hr : ERel f s p q) :
    ∃ k, k < q.2 ∧ (emap f p.1 = (phi s)^[k] q.1 ∨ emap f p.1 = rho ((phi s)^[k] q.1)) := by
  obtain ⟨η, hη, hle⟩ := List.mem_map.1 hr
  obtain ⟨k, hk, rfl⟩ := mem_dlist.1 hη
  refine ⟨k, hk, ?_⟩
  exact same_le (phi_iter_valid m.vs.set m.dims (TS.ok q hq).1 k) (m.valid hpv) hle.symm

theorem erel_word {p q : Dart × Nat} (hp : p ∈ startsA) (hq : q ∈ startsS) (hr : ERel f s p q) :
    CycEq (bestCyclic (seqOf a p.1 p.2)) (bestCyclic (seqOf s q.1 q.2)) := by
  have wp := TA.isWalk hp
  have wq := TS.isWalk hq
  obtain ⟨k, hk, hrel⟩ := erel_dart m TS wp.valid hq hr
  obtain ⟨wF, hcyc⟩ := word_of_related m.vs m.dims wq hrel
  have hlen := (m.map_isWalk wp).length_unique wF
  have e : seqOf s (emap f p.1) q.2 = seqOf a p.1 p.2 := by rw [← hlen]; exact m.map_seqOf wp.valid p.2
  rw [e] at hcyc
  exact (CycEq.trans (Or.inl (bestCyclic_isRotated _)) hcyc.symm).trans (Or.inl (bestCyclic_isRotated _).symm)

omit m TA in
theorem erel_unique_right {p q q' : Dart × Nat} (hq : q ∈ startsS) (hq' : q' ∈ startsS)
    (hr : ERel f s p q) (hr' : ERel f s p q') : q = q' := by
  obtain ⟨η, hη, hle⟩ := List.mem_map.1 hr
  obtain ⟨η', hη', hle'⟩ := List.mem_map.1 hr'
  exact TS.disjoint hq hq' hη hη' (hle.trans hle'.symm)

theorem erel_unique_left {p p' q : Dart × Nat} (hp : p ∈ startsA) (hp' : p' ∈ startsA) (hq : q ∈ startsS)
    (hr : ERel f s p q) (hr' : ERel f s p' q) : p = p' := by
  have wp := TA.isWalk hp
  have wp' := TA.isWalk hp'
  have wq := TS.isWalk hq
  obtain ⟨k, hk, hrel⟩ := erel_dart m TS wp.valid hq hr
  have hset := le_set_related m.vs m.dims wq hrel
  have hmem : (emap f p'.1).le ∈ (dlist s (emap f p.1) q.2).map Dart.le := (hset _).2 hr'
  obtain ⟨η, hη, hle⟩ := List.mem_map.1 hmem
  obtain ⟨t, ht, rfl⟩ := mem_dlist.1 hη
  rw [m.map_iter wp.valid] at hle
  have hvs := phi_iter_valid m.va.set m.dima wp.valid t
  have hback : p'.1.le = ((phi a)^[t] p.1).le := by
    rcases same_le (m.valid hvs) (m.valid wp'.valid) hle.symm with e | e
    · rw [m.map_inj wp'.valid hvs e]
    · rw [Emb.map_rho] at e
      rw [m.map_inj wp'.valid (rho_valid hvs).1 e]
      exact (rho_valid hvs).2.2.2
  have hper : (phi a)^[t] p.1 = (phi a)^[t % p.2] p.1 := by
    have hk : t = t % p.2 + p.2 * (t / p.2) := (Nat.mod_add_div t p.2).symm
    conv_lhs => rw [hk]
    rw [Function.iterate_add_apply]
    congr 1
    generalize t / p.2 = q'
    induction q' with
    | zero => rfl
    | succ q' ih => rw [Nat.mul_succ, Function.iterate_add_apply, wp.closed, ih]
  rw [hper] at hback
  exact (TA.disjoint hp hp' (mem_dlist.2 ⟨t % p.2, Nat.mod_lt _ wp.pos, rfl⟩)
    (mem_dlist.2 ⟨0, wp'.pos, rfl⟩) hback.symm)

/-- a trace of `s` that starts at a chamber of the image is matched by a trace of `a` -/
theorem erel_surj {q : Dart × Nat} (hq : q ∈ startsS) {x : Nat} (hx : 1 ≤ x ∧ x ≤ a.size)
    (hfx : f x = q.1.2.2) : ∃ p ∈ startsA, ERel f s p q := by
  have wq := TS.isWalk hq
  obtain ⟨δ, hδ, hF⟩ := m.pullback wq.valid hx hfx
  obtain ⟨p, hp, k, hk, hrel⟩ := TA.lookup hδ
  refine ⟨p, hp, ?_⟩
  have wp := TA.isWalk hp
  have wF := m.map_isWalk wp
  have hrelB : q.1 = (phi s)^[k] (emap f p.1) ∨ q.1 = rho ((phi s)^[k] (emap f p.1)) := by
    rw [← hF, m.map_iter wp.valid]
    rcases hrel with e | e
    · left; rw [e]
    · right; rw [e, Emb.map_rho]
  obtain ⟨wq', _⟩ := word_of_related m.vs m.dims wF hrelB
  have hlen := wq.length_unique wq'
  have hset := le_set_related m.vs m.dims wF hrelB
  unfold ERel
  rw [hlen]
  exact (hset _).2 (List.mem_map.2 ⟨_, mem_dlist.2 ⟨0, wp.pos, rfl⟩, rfl⟩)

/-- the start of a trace of `s` related to a trace of `a` sits at a chamber of the image -/
theorem erel_chamber {p q : Dart × Nat} (hp : p ∈ startsA) (hq : q ∈ startsS) (hr : ERel f s p q) :
    ∃ x, 1 ≤ x ∧ x ≤ a.size ∧ q.1.2.2 = f x := by
  have wp := TA.isWalk hp
  have wq := TS.isWalk hq
  obtain ⟨k, hk, hrel⟩ := erel_dart m TS wp.valid hq hr
  -- q.1 = φ^(n-k) (image dart) or its reverse: walk on from the image dart
  obtain ⟨wF, _⟩ := word_of_related m.vs m.dims wq hrel
  have hlen := (m.map_isWalk wp).length_unique wF
  -- the image dart (or its reverse) reaches q.1 after q.2 - k steps
  have hback : q.1 = (phi s)^[q.2 - k] ((phi s)^[k] q.1) := by
    rw [← Function.iterate_add_apply, Nat.sub_add_cancel (Nat.le_of_lt hk), wq.closed]
  rcases hrel with e | e
  · rw [← e] at hback
    obtain ⟨x, h1, h2, hx⟩ := m.iter_chamber wp.valid (q.2 - k)
    exact ⟨x, h1, h2, by rw [hback]; exact hx⟩
  · -- the chamber of `rho δ` is the chamber of `δ`
    have hv := phi_iter_valid m.vs.set m.dims wq.valid k
    have e' : (phi s)^[k] q.1 = rho (emap f p.1) := by
      rw [e, (rho_valid hv).2.1]
    rw [e', Emb.map_rho] at hback
    obtain ⟨x, h1, h2, hx⟩ := m.iter_chamber (rho_valid wp.valid).1 (q.2 - k)
    exact ⟨x, h1, h2, by rw [hback]; exact hx⟩

end

/-! ### the boundary components of a union -/

/-- **the boundary components of a disjoint union are those of the parts**: the results of
    `trace_boundary` have `#A + #B` entries, for every class of corner cycles (modulo rotation and
    reversal) the numbers of entries add up, and all corners together are a permutation of the
    corners of the parts. -/
theorem bnds_union {f g : Nat → Nat} {a b s : DSymData} (u : IsUnion f g a b s)
    {bndsA bndsB bndsS : List (List Nat)} {startsA startsB startsS : List (Dart × Nat)}
    (TA : TraceRecord a bndsA startsA) (TB : TraceRecord b bndsB startsB)
    (TS : TraceRecord s bndsS startsS) :
    bndsS.length = bndsA.length + bndsB.length ∧
    (∀ (P : List Nat → Bool), (∀ x y, CycEq x y → P x = P y) →
      bndsS.countP P = bndsA.countP P + bndsB.countP P) ∧
    bndsS.flatten.Perm (bndsA.flatten ++ bndsB.flatten) := by
  classical
  let JA : Dart × Nat → Dart × Nat := fun p =>
    if hp : p ∈ startsA then Classical.choose (erel_exists u.ea TA TS hp) else p
  let JB : Dart × Nat → Dart × Nat := fun p =>
    if hp : p ∈ startsB then Classical.choose (erel_exists u.eb TB TS hp) else p
  have hJA : ∀ p (hp : p ∈ startsA), JA p ∈ startsS ∧ ERel f s p (JA p) := by
    intro p hp
    simp only [JA, dif_pos hp]
    exact Classical.choose_spec (erel_exists u.ea TA TS hp)
  have hJB : ∀ p (hp : p ∈ startsB), JB p ∈ startsS ∧ ERel g s p (JB p) := by
    intro p hp
    simp only [JB, dif_pos hp]
    exact Classical.choose_spec (erel_exists u.eb TB TS hp)
  have hinjA : ∀ p ∈ startsA, ∀ p' ∈ startsA, JA p = JA p' → p = p' := by
    intro p hp p' hp' e
    have h1 := hJA p hp
    have h2 := hJA p' hp'
    rw [← e] at h2
    exact erel_unique_left u.ea TA TS hp hp' h1.1 h1.2 h2.2
  have hinjB : ∀ p ∈ startsB, ∀ p' ∈ startsB, JB p = JB p' → p = p' := by
    intro p hp p' hp' e
    have h1 := hJB p hp
    have h2 := hJB p' hp'
    rw [← e] at h2
    exact erel_unique_left u.eb TB TS hp hp' h1.1 h1.2 h2.2
  have hndA : (startsA.map JA).Nodup := List.Nodup.map_on hinjA TA.starts_nodup
  have hndB : (startsB.map JB).Nodup := List.Nodup.map_on hinjB TB.starts_nodup
  have hdisj : List.Disjoint (startsA.map JA) (startsB.map JB) := by
    intro q hqa hqb
    obtain ⟨p, hp, rfl⟩ := List.mem_map.1 hqa
    obtain ⟨p', hp', e⟩ := List.mem_map.1 hqb
    have h1 := hJA p hp
    have h2 := hJB p' hp'
    rw [e] at h2
    obtain ⟨x, hx1, hx2, hx⟩ := erel_chamber u.ea TA TS hp h1.1 h1.2
    obtain ⟨y, hy1, hy2, hy⟩ := erel_chamber u.eb TB TS hp' h2.1 h2.2
    exact u.disj x y hx1 hx2 hy1 hy2 (hx.symm.trans hy)
  have hnd : (startsA.map JA ++ startsB.map JB).Nodup := List.Nodup.append hndA hndB hdisj
  have hsub1 : startsA.map JA ++ startsB.map JB ⊆ startsS := by
    intro q hq
    rcases List.mem_append.1 hq with hq | hq
    · obtain ⟨p, hp, rfl⟩ := List.mem_map.1 hq
      exact (hJA p hp).1
    · obtain ⟨p, hp, rfl⟩ := List.mem_map.1 hq
      exact (hJB p hp).1
  have hsub2 : startsS ⊆ startsA.map JA ++ startsB.map JB := by
    intro q hq
    have hv := (TS.ok q hq).1
    rcases u.cover q.1.2.2 hv.2.2.2.1 hv.2.2.2.2.1 with ⟨x, hx1, hx2, hx⟩ | ⟨x, hx1, hx2, hx⟩
    · obtain ⟨p, hp, hr⟩ := erel_surj u.ea TA TS hq ⟨hx1, hx2⟩ hx
      have := hJA p hp
      exact List.mem_append.2 (Or.inl (List.mem_map.2 ⟨p, hp, erel_unique_right TS this.1 hq this.2 hr⟩))
    · obtain ⟨p, hp, hr⟩ := erel_surj u.eb TB TS hq ⟨hx1, hx2⟩ hx
      have := hJB p hp
      exact List.mem_append.2 (Or.inr (List.mem_map.2 ⟨p, hp, erel_unique_right TS this.1 hq this.2 hr⟩))
  have hperm : (startsA.map JA ++ startsB.map JB).Perm startsS :=
    (List.subperm_of_subset hnd hsub1).antisymm (List.subperm_of_subset TS.starts_nodup hsub2)
  refine ⟨?_, ?_, ?_⟩
  · rw [TA.bnds_perm.length_eq, TB.bnds_perm.length_eq, TS.bnds_perm.length_eq, List.length_map,
      List.length_map, List.length_map, ← hperm.length_eq, List.length_append, List.length_map,
      List.length_map]
  · intro P hP
    rw [TA.bnds_perm.countP_eq, TB.bnds_perm.countP_eq, TS.bnds_perm.countP_eq, List.countP_map,
      List.countP_map, List.countP_map, ← hperm.countP_eq, List.countP_append, List.countP_map,
      List.countP_map]
    congr 1
    · apply List.countP_congr
      intro p hp
      simp only [Function.comp]
      have := hJA p hp
      rw [hP _ _ (erel_word u.ea TA TS hp this.1 this.2)]
    · apply List.countP_congr
      intro p hp
      simp only [Function.comp]
      have := hJB p hp
      rw [hP _ _ (erel_word u.eb TB TS hp this.1 this.2)]
  · refine TS.bnds_perm.flatten.trans ?_
    refine ((hperm.map _).flatten).symm.trans ?_
    rw [List.map_append, List.flatten_append]
    refine List.Perm.append ?_ ?_
    · refine List.Perm.trans ?_ TA.bnds_perm.flatten.symm
      rw [List.map_map]
      have key : ∀ l : List (Dart × Nat), (∀ p ∈ l, p ∈ startsA) →
          ((l.map ((fun p => bestCyclic (seqOf s p.1 p.2)) ∘ JA)).flatten).Perm
            ((l.map fun p => bestCyclic (seqOf a p.1 p.2)).flatten) := by
        intro l
        induction l with
        | nil => intro _; exact List.Perm.refl _
        | cons p l ih =>
          intro hl
          simp only [List.map_cons, List.flatten_cons]
          have hp := hl p (by simp)
          have := hJA p hp
          have hc := erel_word u.ea TA TS hp this.1 this.2
          have hperm1 : (bestCyclic (seqOf s (JA p).1 (JA p).2)).Perm (bestCyclic (seqOf a p.1 p.2)) := by
            rcases hc.symm with hc | hc
            · exact hc.perm
            · exact (List.reverse_perm _).symm.trans hc.perm
          exact hperm1.append (ih (fun q hq => hl q (by simp [hq])))
      exact key startsA (fun p hp => hp)
    · refine List.Perm.trans ?_ TB.bnds_perm.flatten.symm
      rw [List.map_map]
      have key : ∀ l : List (Dart × Nat), (∀ p ∈ l, p ∈ startsB) →
          ((l.map ((fun p => bestCyclic (seqOf s p.1 p.2)) ∘ JB)).flatten).Perm
            ((l.map fun p => bestCyclic (seqOf b p.1 p.2)).flatten) := by
        intro l
        induction l with
        | nil => intro _; exact List.Perm.refl _
        | cons p l ih =>
          intro hl
          simp only [List.map_cons, List.flatten_cons]
          have hp := hl p (by simp)
          have := hJB p hp
          have hc := erel_word u.eb TB TS hp this.1 this.2
          have hperm1 : (bestCyclic (seqOf s (JB p).1 (JB p).2)).Perm (bestCyclic (seqOf b p.1 p.2)) := by
            rcases hc.symm with hc | hc
            · exact hc.perm
            · exact (List.reverse_perm _).symm.trans hc.perm
          exact hperm1.append (ih (fun q hq => hl q (by simp [hq])))
      exact key startsB (fun p hp => hp)

end DSymVerif.D2
