/-
Lemmas for property C07, phase 2, part 6: everything the generator's filter looks at is invariant
under the orbit maps.  An automorphism of the D-set preserves orbit lengths (hence the minimal
branching numbers) and chain flags, and permutes the orbit numbers; so admissibility, the exact
curvature, the bookkeeping value and minimal hyperbolicity of `vs ∘ m` are those of `vs`.
-/
import Mathlib.Algebra.BigOperators.Group.Finset.Basic
import DSymVerif.Proofs.DSymGenIso
import DSymVerif.Proofs.DSymGenChain
import DSymVerif.Proofs.DSymGenGeom

set_option linter.unusedSectionVars false

namespace DSymVerif.SymGen
open DSymVerif.DS DSymVerif.Mor

/-! ### automorphisms preserve periods and chain flags -/

theorem aut_comp_iter {ds : DSetData} (h : ValidSet ds) {f : Nat → Nat} (hf : IsAut ds f) {i j : Nat}
    (hi : i ≤ ds.dim) (hj : j ≤ ds.dim) {d : Nat} (hd : 1 ≤ d ∧ d ≤ ds.size) :
    ∀ t, (ds.comp i j)^[t] (f d) = f ((ds.comp i j)^[t] d) := by
  intro t
  induction t with
  | zero => rfl
  | succ t ih =>
    have r := h.comp_range hi hj hd.1 hd.2 t
    have ri := h.range i _ hi r.1 r.2
    rw [Function.iterate_succ_apply', Function.iterate_succ_apply', ih]
    show ds.opU j (ds.opU i (f _)) = f (ds.opU j (ds.opU i _))
    rw [hf.comm j _ hj ri.1 ri.2, hf.comm i _ hi r.1 r.2]

theorem aut_leastPeriod {ds : DSetData} (h : ValidSet ds)
    {f : Nat → Nat} (hf : IsAut ds f)
    (hinj : ∀ x y, 1 ≤ x → x ≤ ds.size → 1 ≤ y → y ≤ ds.size → f x = f y → x = y)
    {i j : Nat} (hi : i ≤ ds.dim) (hj : j ≤ ds.dim) {d : Nat} (hd : 1 ≤ d ∧ d ≤ ds.size) {r : Nat}
    (hr : IsLeastPeriod ds i j d r) : IsLeastPeriod ds i j (f d) r := by
  have key : ∀ t, IsPeriod ds i j t (f d) ↔ IsPeriod ds i j t d := by
    intro t
    unfold IsPeriod
    rw [aut_comp_iter h hf hi hj hd t]
    have rt := h.comp_range hi hj hd.1 hd.2 t
    constructor
    · intro e; exact hinj _ _ rt.1 rt.2 hd.1 hd.2 e
    · intro e; rw [e]
  exact ⟨hr.1, (key r).mpr hr.2.1, fun t h1 h2 hp => hr.2.2 t h1 h2 ((key t).mp hp)⟩

theorem aut_chainFix {ds : DSetData} (h : ValidSet ds) {f : Nat → Nat} (hf : IsAut ds f) {i : Nat}
    (hi : i + 1 ≤ ds.dim) {d : Nat} (hd : 1 ≤ d ∧ d ≤ ds.size) (hc : ChainFix ds i d) :
    ChainFix ds i (f d) := by
  obtain ⟨z, hz, hfix⟩ := hc
  have hi0 : i ≤ ds.dim := by omega
  have hzr := Orb2.range h hi0 hi hd hz
  refine ⟨f z, aut_orb2 h hf hi0 hi hd hz, ?_⟩
  rcases hfix with e | e
  · left; rw [← hf.comm i z hi0 hzr.1 hzr.2, e]
  · right; rw [← hf.comm (i + 1) z hi hzr.1 hzr.2, e]

/-! ### a map and its inverse -/

/-- `m` is induced by the automorphism `f`, `m'` by its inverse `g` -/
structure MapPair (ds : DSetData) (index : Array (Array Nat)) (count : Nat)
    (f g : Nat → Nat) (m m' : List Nat) : Prop where
  af : IsAut ds f
  ag : IsAut ds g
  fg : ∀ d, 1 ≤ d → d ≤ ds.size → f (g d) = d
  gf : ∀ d, 1 ≤ d → d ≤ ds.size → g (f d) = d
  im : Induces ds index count f m
  im' : Induces ds index count g m'

theorem mapPair_of_mem {ds : DSetData} (hds : ValidSet ds) (hc : ds.viewSimple.isConnected = true)
    (h1 : 1 ≤ ds.size) {index : Array (Array Nat)} {count : Nat}
    {ms : List (List Nat)}
    (hA : ∀ m, m ∈ ms → ∃ f, IsAut ds f ∧ Induces ds index count f m)
    (hB : ∀ f, IsAut ds f → ∃ m, m ∈ ms ∧ Induces ds index count f m) {m : List Nat} (hm : m ∈ ms) :
    ∃ f g m', m' ∈ ms ∧ MapPair ds index count f g m m' := by
  obtain ⟨f, af, im⟩ := hA m hm
  obtain ⟨g, ag, hfg⟩ := isAut_inv hds hc h1 af
  obtain ⟨m', hm', im'⟩ := hB g ag
  obtain ⟨hinj, _⟩ := aut_bijective hds hc h1 af
  refine ⟨f, g, m', hm', af, ag, hfg, fun d hd1 hd2 => ?_, im, im'⟩
  have r := af.range d hd1 hd2
  have r' := ag.range _ r.1 r.2
  exact hinj _ _ r'.1 r'.2 hd1 hd2 (hfg _ r.1 r.2)

section pair
variable {ds : DSetData} {index : Array (Array Nat)} {count : Nat} (ok : IndexOK ds index count)
  {f g : Nat → Nat} {m m' : List Nat} (mp : MapPair ds index count f g m m')
include ok mp

theorem MapPair.lt (k : Nat) (hk : k < count) : m.getD k 0 < count := by
  obtain ⟨_, _, _, _, _, _, _, hlt⟩ := induces_entry ok mp.im mp.af k hk
  exact hlt

theorem MapPair.left_inv (k : Nat) (hk : k < count) : m'.getD (m.getD k 0) 0 = k := by
  obtain ⟨i, d, hi, hd1, hd2, hx, he, _⟩ := induces_entry ok mp.im mp.af k hk
  have r := mp.af.range d hd1 hd2
  rw [he, mp.im'.2 i (f d) hi r.1 r.2, mp.gf d hd1 hd2, hx]

omit ok in
theorem MapPair.symm : MapPair ds index count g f m' m :=
  ⟨mp.ag, mp.af, mp.gf, mp.fg, mp.im', mp.im⟩

theorem MapPair.right_inv (k : Nat) (hk : k < count) : m.getD (m'.getD k 0) 0 = k :=
  MapPair.left_inv ok (MapPair.symm mp) k hk

theorem MapPair.inj (k l : Nat) (hk : k < count) (hl : l < count) (e : m.getD k 0 = m.getD l 0) : k = l := by
  rw [← MapPair.left_inv ok mp k hk, ← MapPair.left_inv ok mp l hl, e]

end pair

/-! ### the context's tables are invariant -/

section ctx
variable {ds : DSetData} {g : Geom} {c : Ctx} (h : mkCtx ds g = .ok c) (hds : ValidSet ds)
  {f f' : Nat → Nat} {m m' : List Nat} (mp : MapPair ds c.orbitIndex c.count f f' m m')
  (hinj : ∀ x y, 1 ≤ x → x ≤ ds.size → 1 ≤ y → y ≤ ds.size → f x = f y → x = y)
include h hds mp hinj

omit hds mp hinj in
theorem ctx_count : c.count = (collectOrbits ds).rs.size ∧ c.orbitIndex = (collectOrbits ds).index := by
  obtain ⟨_, _, _, hvm, hix, _⟩ := mkCtx_fields h
  refine ⟨?_, hix⟩
  unfold Ctx.count; rw [hvm]; simp [computeVmins]

omit mp hinj in
theorem ctx_ok : IndexOK ds c.orbitIndex c.count := by
  obtain ⟨h1, h2⟩ := ctx_count h
  rw [h1, h2]; exact indexOK_collect hds

theorem rs_invariant (k : Nat) (hk : k < c.count) : c.rs.getD (m.getD k 0) 0 = c.rs.getD k 0 := by
  obtain ⟨_, hrs, _, _, hix, _⟩ := mkCtx_fields h
  have ok := ctx_ok h hds
  obtain ⟨i, d, hi, hd1, hd2, hx, he, _⟩ := induces_entry ok mp.im mp.af k hk
  have hrow := (collectOrbits_rows hds).2 i hi
  have r := mp.af.range d hd1 hd2
  have hi0 : i ≤ ds.dim := by omega
  have p1 := hrow.per d hd1 hd2
  have p2 := hrow.per (f d) r.1 r.2
  have p3 := aut_leastPeriod hds mp.af hinj hi0 (show i + 1 ≤ ds.dim by omega) ⟨hd1, hd2⟩ p1
  have := p2.unique p3
  have hg : ∀ j, c.rs.getD j 0 = (collectOrbits ds).rs.getD j 0 := by
    intro j; rw [hrs]; simp [List.getD, Array.getD_eq_getD_getElem?]
  rw [he, ← hx, hg, hg]
  unfold ixOf
  rw [hix]
  exact this

theorem vmins_invariant (k : Nat) (hk : k < c.count) : c.vmins.getD (m.getD k 0) 0 = c.vmins.getD k 0 := by
  obtain ⟨_, hrs, _, hvm, _, _⟩ := mkCtx_fields h
  have ok := ctx_ok h hds
  have hlt := MapPair.lt ok mp k hk
  have hlen : c.rs.length = c.count := by
    unfold Ctx.count; rw [hvm, hrs]; simp [computeVmins]
  have hv : ∀ j, j < c.count → c.vmins.getD j 0 = vminOf (c.rs.getD j 0) := by
    intro j hj
    have hj' : j < c.rs.length := by omega
    rw [hvm, ← hrs]
    simp [computeVmins, List.getD, List.getElem?_map, List.getElem?_eq_getElem hj']
  rw [hv _ hlt, hv k hk, rs_invariant h hds mp hinj k hk]

theorem isChain_invariant (k : Nat) (hk : k < c.count) :
    c.isChain.getD (m.getD k 0) false = c.isChain.getD k false := by
  obtain ⟨_, _, hch, _, hix, _⟩ := mkCtx_fields h
  have ok := ctx_ok h hds
  obtain ⟨i, d, hi, hd1, hd2, hx, he, _⟩ := induces_entry ok mp.im mp.af k hk
  have r := mp.af.range d hd1 hd2
  have hg : ∀ j, c.isChain.getD j false = (collectOrbits ds).isChain.getD j false := by
    intro j; rw [hch]; simp [List.getD, Array.getD_eq_getD_getElem?]
  have c1 := collectOrbits_isChain hds hi hd1 hd2
  have c2 := collectOrbits_isChain hds hi r.1 r.2
  have hiff : ChainFix ds i d ↔ ChainFix ds i (f d) := by
    constructor
    · exact aut_chainFix hds mp.af (by omega) ⟨hd1, hd2⟩
    · intro hc
      have := aut_chainFix hds mp.ag (by omega) r hc
      rw [mp.gf d hd1 hd2] at this
      exact this
  rw [he, ← hx, hg, hg]
  unfold ixOf
  rw [hix]
  cases hb : ((collectOrbits ds).isChain.getD (((collectOrbits ds).index.getD i #[]).getD d 0) false)
  · cases hb' : ((collectOrbits ds).isChain.getD (((collectOrbits ds).index.getD i #[]).getD (f d) 0) false)
    · rfl
    · have := c1.mpr (hiff.mpr (c2.mp hb'))
      rw [hb] at this; cases this
  · exact c2.mpr (hiff.mp (c1.mp hb))

theorem kAt_invariant (k : Nat) (hk : k < c.count) : kAt c (m.getD k 0) = kAt c k := by
  unfold kAt
  rw [isChain_invariant h hds mp hinj k hk]

/-! ### admissibility, curvature, minimal hyperbolicity of `vs ∘ m` -/

theorem adm_act {vs : List Nat} (ha : Adm c vs) : Adm c (act m vs) := by
  have ok := ctx_ok h hds
  refine ⟨by rw [act_length]; exact ha.1, fun k hk => ?_⟩
  rw [act_getD _ _ k (by rw [ha.1]; exact hk), ← vmins_invariant h hds mp hinj k hk]
  exact ha.2 _ (MapPair.lt ok mp k hk)

theorem curvQ_act {vs : List Nat} (hl : vs.length = c.count) : curvQ c (act m vs) = curvQ c vs := by
  have ok := ctx_ok h hds
  unfold curvQ
  congr 1
  rw [sum_map_range_eq_finset', sum_map_range_eq_finset']
  apply Finset.sum_nbij' (fun k => m.getD k 0) (fun k => m'.getD k 0)
  · intro k hk; exact Finset.mem_range.mpr (MapPair.lt ok mp k (Finset.mem_range.mp hk))
  · intro k hk
    exact Finset.mem_range.mpr (MapPair.lt ok (MapPair.symm mp) k (Finset.mem_range.mp hk))
  · intro k hk; exact MapPair.left_inv ok mp k (Finset.mem_range.mp hk)
  · intro k hk; exact MapPair.right_inv ok mp k (Finset.mem_range.mp hk)
  · intro k hk
    have hk' := Finset.mem_range.mp hk
    rw [act_getD _ _ k (by rw [hl]; exact hk'), kAt_invariant h hds mp hinj k hk']
where
  sum_map_range_eq_finset' (f : Nat → ℚ) (n : Nat) :
      ((List.range n).map f).sum = ∑ i ∈ Finset.range n, f i := by
    induction n with
    | zero => simp
    | succ n ih =>
      rw [List.range_succ, List.map_append, List.sum_append, ih, Finset.sum_range_succ]
      simp

theorem scaled_act {vs : List Nat} (hl : vs.length = c.count)
    (hb : ∀ i, i < c.count → 1 ≤ vs.getD i 0 ∧ vs.getD i 0 ≤ Tables.genVMax) :
    scaled c (act m vs) = scaled c vs := by
  have ok := ctx_ok h hds
  have hb' : ∀ i, i < c.count → 1 ≤ (act m vs).getD i 0 ∧ (act m vs).getD i 0 ≤ Tables.genVMax := by
    intro i hi
    rw [act_getD _ _ i (by rw [hl]; exact hi)]
    exact hb _ (MapPair.lt ok mp i hi)
  have e1 := scaled_exact c (act m vs) hb'
  have e2 := scaled_exact c vs hb
  rw [curvQ_act h hds mp hinj hl, ← e2] at e1
  exact_mod_cast e1

theorem set_act {vs : List Nat} (hl : vs.length = c.count) (i x : Nat) (hi : i < c.count) :
    (act m vs).set i x = act m (vs.set (m.getD i 0) x) := by
  have ok := ctx_ok h hds
  have hmi := MapPair.lt ok mp i hi
  apply list_ext_getD _ _ (by simp [act_length])
  intro k hk
  have hk' : k < c.count := by simpa [act_length, hl] using hk
  rw [getD_set _ _ _ _ (by rw [act_length, hl]; exact hi)]
  rw [act_getD m (vs.set (m.getD i 0) x) k (by simp [hl]; exact hk')]
  rw [getD_set vs _ _ _ (by rw [hl]; exact hmi)]
  by_cases hki : k = i
  · rw [if_pos hki, if_pos (by rw [hki])]
  · rw [if_neg hki, if_neg (fun e => hki (MapPair.inj ok mp k i hk' hi e)),
      act_getD _ _ k (by rw [hl]; exact hk')]

theorem minHyp_act (hw : WF c) {vs : List Nat} (ha : Adm c vs) (hm : MinHyp c vs) : MinHyp c (act m vs) := by
  have ok := ctx_ok h hds
  have hb := adm_bounds hw ha
  refine ⟨by rw [scaled_act h hds mp hinj ha.1 hb]; exact hm.1, fun i hi hgt => ?_⟩
  have hmi := MapPair.lt ok mp i hi
  rw [act_getD _ _ i (by rw [ha.1]; exact hi)] at hgt ⊢
  rw [← vmins_invariant h hds mp hinj i hi] at hgt
  rw [set_act h hds mp hinj ha.1 i _ hi,
    scaled_act h hds mp hinj (by simp [ha.1]) (lowered_bounds hw ha _ hmi hgt)]
  exact hm.2 _ hmi hgt

end ctx

end DSymVerif.SymGen
