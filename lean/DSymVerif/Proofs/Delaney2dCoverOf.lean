/-
Helper lemmas for property C08, part 33: the curvature is multiplied by the number of sheets under
every covering in the sense of C05 (`CoversP.IsCoverOf`: valid symbol on `n·|ds|` chambers, the
projection commutes with every operation, all degrees `m_ij` preserved) — no divisibility premise,
no reference to the construction that produced the cover.
-/
import DSymVerif.Proofs.Delaney2dConstr

namespace DSymVerif.D2
open DSymVerif.DS

theorem curvature_of_isCoverOf {ds c : DSymData} {n : Nat} (rs rc : Rep) (g : Good2d ⟨ds, rs⟩)
    (hsz : 1 ≤ ds.size) (h : CoversP.IsCoverOf ds c n) :
    Good2d ⟨c, rc⟩ ∧ ∃ K K', curvature ⟨ds, rs⟩ = .ok K ∧ curvature ⟨c, rc⟩ = .ok K' ∧
      K'.toRat = (n : ℚ) * K.toRat := by
  have hs : ValidSym ds := g.valid
  have hdim : ds.dim = 2 := g.dim
  obtain ⟨hcomp, hsum⟩ := cover_chamberSum hs hdim g.complete hsz n h.valid h.size h.dim
    (fun i d hi h1 h2 => h.deg i (i + 1) d (Nat.le_of_lt hi) hi h1 h2)
  have gc : Good2d ⟨c, rc⟩ := ⟨h.valid, by show c.dim = 2; rw [h.dim]; exact hdim, hcomp⟩
  refine ⟨gc, _, _, curvature_eq_chamberSum g, curvature_eq_chamberSum gc, ?_⟩
  rw [Frac.toRat_ofRat, Frac.toRat_ofRat]
  exact hsum

end DSymVerif.D2
