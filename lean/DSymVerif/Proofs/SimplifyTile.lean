/-
`cut_tile` of simplify.rs (model `Simp.cutTile`): evaluation of the pairing map on the four
generated pair lists for symbolic m, and the commutation relations of the 2m new chambers.
-/
import DSymVerif.Proofs.SimplifyCut

namespace DSymVerif.Simp
open DSymVerif DSymVerif.DS

/-- what one pair says about the key `k` -/
def partnerIn (p : Nat × Nat) (k : Nat) : Option Nat :=
  if p.2 = k then some p.1 else if p.1 = k then some p.2 else none

theorem pairedGet_cons (p : Nat × Nat) (rest : List (Nat × Nat)) (k : Nat) :
    pairedGet (p :: rest) k = match pairedGet rest k with
      | some x => some x
      | none => partnerIn p k := by
  obtain ⟨d, e⟩ := p
  rw [pairedGet]
  rfl

theorem pairedGet_mem : ∀ (pairs : List (Nat × Nat)) (k y : Nat), pairedGet pairs k = some y →
    ∃ p ∈ pairs, partnerIn p k = some y
  | [], k, y, h => by cases h
  | p :: rest, k, y, h => by
    rw [pairedGet_cons] at h
    cases hr : pairedGet rest k with
    | some x =>
      rw [hr] at h
      simp only [Option.some.injEq] at h
      subst h
      obtain ⟨q, hq, hq'⟩ := pairedGet_mem rest k x hr
      exact ⟨q, List.mem_cons_of_mem _ hq, hq'⟩
    | none =>
      rw [hr] at h
      exact ⟨p, List.mem_cons_self .., h⟩

theorem pairedGet_ne_none_of_mem : ∀ (pairs : List (Nat × Nat)) (k : Nat) (p : Nat × Nat),
    p ∈ pairs → partnerIn p k ≠ none → pairedGet pairs k ≠ none
  | [], _, _, h, _ => by cases h
  | q :: rest, k, p, h, hp => by
    rw [pairedGet_cons]
    cases hr : pairedGet rest k with
    | some x => simp
    | none =>
      simp only
      rcases List.mem_cons.1 h with rfl | h'
      · exact hp
      · exact absurd hr (pairedGet_ne_none_of_mem rest k p h' hp)

/-- a key that occurs in the list, always with the same partner, is paired with that partner -/
theorem pairedGet_unique {pairs : List (Nat × Nat)} {k x : Nat}
    (hex : ∃ p ∈ pairs, partnerIn p k = some x)
    (hall : ∀ p ∈ pairs, ∀ y, partnerIn p k = some y → y = x) : pairedGet pairs k = some x := by
  obtain ⟨p, hp, hpx⟩ := hex
  cases hg : pairedGet pairs k with
  | none => exact absurd hg (pairedGet_ne_none_of_mem pairs k p hp (by rw [hpx]; simp))
  | some y =>
    obtain ⟨q, hq, hqy⟩ := pairedGet_mem pairs k y hg
    rw [hall q hq y hqy]

theorem pairedGet_eq_none {pairs : List (Nat × Nat)} {k : Nat}
    (hall : ∀ p ∈ pairs, p.1 ≠ k ∧ p.2 ≠ k) : pairedGet pairs k = none := by
  cases hg : pairedGet pairs k with
  | none => rfl
  | some y =>
    obtain ⟨q, hq, hqy⟩ := pairedGet_mem pairs k y hg
    obtain ⟨h1, h2⟩ := hall q hq
    unfold partnerIn at hqy
    rw [if_neg h2, if_neg h1] at hqy
    cases hqy

theorem mapOpx_ok {ds : DSetData} {i : Nat} : ∀ {xs ys : List Nat}, mapOpx ds i xs = .ok ys →
    ys.length = xs.length ∧ ∀ k, k < xs.length → ys.getD k 0 = ds.opU i (xs.getD k 0)
  | [], ys, h => by
    unfold mapOpx at h
    cases h
    exact ⟨rfl, fun k hk => by cases hk⟩
  | x :: xs, ys, h => by
    unfold mapOpx at h
    cases he : opx ds i x with
    | ok e =>
      rw [he] at h
      simp only at h
      cases hr : mapOpx ds i xs with
      | ok es =>
        rw [hr] at h
        simp only [Outcome.ok.injEq] at h
        subst h
        obtain ⟨hl, hv⟩ := mapOpx_ok hr
        refine ⟨by simp [hl], ?_⟩
        intro k hk
        cases k with
        | zero => simp only [List.getD_cons_zero]; exact (opx_ok he).2.2.2.1.symm
        | succ k =>
          simp only [List.getD_cons_succ]
          exact hv k (by simpa using hk)
      | err => rw [hr] at h; cases h
      | panic => rw [hr] at h; cases h
    | err => rw [he] at h; cases h
    | panic => rw [he] at h; cases h


theorem partnerIn_eq_some {a b k y : Nat} :
    partnerIn (a, b) k = some y ↔ (b = k ∧ y = a) ∨ (b ≠ k ∧ a = k ∧ y = b) := by
  unfold partnerIn
  by_cases h1 : b = k
  · simp only [h1, if_true, Option.some.injEq]
    constructor
    · intro h; exact Or.inl ⟨trivial, h.symm⟩
    · rintro (⟨_, h⟩ | ⟨h, _⟩)
      · exact h.symm
      · exact absurd rfl h
  · rw [if_neg h1]
    by_cases h2 : a = k
    · rw [if_pos h2]
      simp only [Option.some.injEq]
      constructor
      · intro h; exact Or.inr ⟨h1, h2, h.symm⟩
      · rintro (⟨h, _⟩ | ⟨_, _, h⟩)
        · exact absurd h h1
        · exact h.symm
    · rw [if_neg h2]
      constructor
      · intro h; cases h
      · rintro (⟨h, _⟩ | ⟨_, h, _⟩)
        · exact absurd h h1
        · exact absurd h h2

/-! ### the pair lists of `cut_tile` -/

/-- partner position under `cycle_0`: 2j ↔ 2j+1 -/
def ctFlip (i : Nat) : Nat := if i % 2 = 0 then i + 1 else i - 1
/-- partner position under `cycle_1`: 2j+1 ↔ (2j+2) mod m -/
def ctRot (m i : Nat) : Nat :=
  if i % 2 = 1 then (if i + 1 = m then 0 else i + 1) else (if i = 0 then m - 1 else i - 1)

theorem cyc_cases {m j : Nat} (hm : m % 2 = 0) (hj : j < m / 2) :
    (2 * j + 2 < m ∧ (2 * j + 2) % m = 2 * j + 2) ∨ (2 * j + 2 = m ∧ (2 * j + 2) % m = 0) := by
  by_cases h : 2 * j + 2 < m
  · exact Or.inl ⟨h, Nat.mod_eq_of_lt h⟩
  · have : 2 * j + 2 = m := by omega
    exact Or.inr ⟨this, by rw [this, Nat.mod_self]⟩

theorem mem_cycle0 {m start : Nat} {p : Nat × Nat} :
    p ∈ cycle0 m start ↔ ∃ j, j < m / 2 ∧ p = (start + 2 * j, start + 2 * j + 1) := by
  unfold cycle0
  simp only [List.mem_map, List.mem_range]
  constructor
  · rintro ⟨j, hj, rfl⟩; exact ⟨j, hj, rfl⟩
  · rintro ⟨j, hj, rfl⟩; exact ⟨j, hj, rfl⟩

theorem mem_cycle1 {m start : Nat} {p : Nat × Nat} :
    p ∈ cycle1 m start ↔ ∃ j, j < m / 2 ∧ p = (start + 2 * j + 1, start + (2 * j + 2) % m) := by
  unfold cycle1
  simp only [List.mem_map, List.mem_range]
  constructor
  · rintro ⟨j, hj, rfl⟩; exact ⟨j, hj, rfl⟩
  · rintro ⟨j, hj, rfl⟩; exact ⟨j, hj, rfl⟩

/-- `cycle_0` on both layers: position i of a layer is paired with position `ctFlip i` of the
    same layer (`off` = 0 or m selects the layer) -/
theorem cycle0_get {n m i off : Nat} (hm : m % 2 = 0) (hi : i < m) (hoff : off = 0 ∨ off = m) :
    pairedGet (cycle0 m (n + 1) ++ cycle0 m (n + m + 1)) (n + off + 1 + i) = some (n + off + 1 + ctFlip i) := by
  apply pairedGet_unique
  · by_cases he : i % 2 = 0
    · refine ⟨(n + off + 1 + 2 * (i / 2), n + off + 1 + 2 * (i / 2) + 1), ?_, ?_⟩
      · rw [List.mem_append, mem_cycle0, mem_cycle0]
        rcases hoff with h | h
        · rw [h]; exact Or.inl ⟨i / 2, by omega, by simp⟩
        · rw [h]; exact Or.inr ⟨i / 2, by omega, by first | rfl | (simp <;> omega)⟩
      · rw [partnerIn_eq_some]; unfold ctFlip; rw [if_pos he]
        exact Or.inr ⟨by omega, by omega, by omega⟩
    · refine ⟨(n + off + 1 + 2 * (i / 2), n + off + 1 + 2 * (i / 2) + 1), ?_, ?_⟩
      · rw [List.mem_append, mem_cycle0, mem_cycle0]
        rcases hoff with h | h
        · rw [h]; exact Or.inl ⟨i / 2, by omega, by simp⟩
        · rw [h]; exact Or.inr ⟨i / 2, by omega, by first | rfl | (simp <;> omega)⟩
      · rw [partnerIn_eq_some]; unfold ctFlip; rw [if_neg he]
        exact Or.inl ⟨by omega, by omega⟩
  · intro p hp y hy
    rw [List.mem_append, mem_cycle0, mem_cycle0] at hp
    unfold ctFlip
    rcases hp with ⟨j, hj, rfl⟩ | ⟨j, hj, rfl⟩ <;> rw [partnerIn_eq_some] at hy <;>
      rcases hoff with rfl | rfl <;> split <;> omega

theorem cycle0_none {n m x : Nat} (hx : x ≤ n) :
    pairedGet (cycle0 m (n + 1) ++ cycle0 m (n + m + 1)) x = none := by
  apply pairedGet_eq_none
  intro p hp
  rw [List.mem_append, mem_cycle0, mem_cycle0] at hp
  rcases hp with ⟨j, hj, rfl⟩ | ⟨j, hj, rfl⟩ <;> constructor <;> simp only <;> omega

/-- `cycle_1` on both layers: position i is paired with position `ctRot m i` of the same layer -/
theorem cycle1_get {n m i off : Nat} (hm : m % 2 = 0) (hi : i < m) (hoff : off = 0 ∨ off = m) :
    pairedGet (cycle1 m (n + 1) ++ cycle1 m (n + m + 1)) (n + off + 1 + i) = some (n + off + 1 + ctRot m i) := by
  apply pairedGet_unique
  · by_cases he : i % 2 = 1
    · -- i = 2j+1 is the first component of pair j
      have hj : i / 2 < m / 2 := by omega
      refine ⟨(n + off + 1 + 2 * (i / 2) + 1, n + off + 1 + (2 * (i / 2) + 2) % m), ?_, ?_⟩
      · rw [List.mem_append, mem_cycle1, mem_cycle1]
        rcases hoff with h | h
        · rw [h]; exact Or.inl ⟨i / 2, hj, by simp⟩
        · rw [h]; exact Or.inr ⟨i / 2, hj, by first | rfl | (simp <;> omega)⟩
      · rw [partnerIn_eq_some]; unfold ctRot; rw [if_pos he]
        rcases cyc_cases hm hj with ⟨h1, h2⟩ | ⟨h1, h2⟩
        · rw [h2, if_neg (by omega)]; exact Or.inr ⟨by omega, by omega, by omega⟩
        · rw [h2, if_pos (by omega)]; exact Or.inr ⟨by omega, by omega, by omega⟩
    · -- i even is the second component of the pair j with (2j+2) mod m = i
      by_cases h0 : i = 0
      · have hj : m / 2 - 1 < m / 2 := by omega
        refine ⟨(n + off + 1 + 2 * (m / 2 - 1) + 1, n + off + 1 + (2 * (m / 2 - 1) + 2) % m), ?_, ?_⟩
        · rw [List.mem_append, mem_cycle1, mem_cycle1]
          rcases hoff with h | h
          · rw [h]; exact Or.inl ⟨m / 2 - 1, hj, by simp⟩
          · rw [h]; exact Or.inr ⟨m / 2 - 1, hj, by first | rfl | (simp <;> omega)⟩
        · rw [partnerIn_eq_some]; unfold ctRot; rw [if_neg he, if_pos h0]
          rcases cyc_cases hm hj with ⟨h1, h2⟩ | ⟨h1, h2⟩
          · omega
          · rw [h2]; exact Or.inl ⟨by omega, by omega⟩
      · have hj : i / 2 - 1 < m / 2 := by omega
        refine ⟨(n + off + 1 + 2 * (i / 2 - 1) + 1, n + off + 1 + (2 * (i / 2 - 1) + 2) % m), ?_, ?_⟩
        · rw [List.mem_append, mem_cycle1, mem_cycle1]
          rcases hoff with h | h
          · rw [h]; exact Or.inl ⟨i / 2 - 1, hj, by simp⟩
          · rw [h]; exact Or.inr ⟨i / 2 - 1, hj, by first | rfl | (simp <;> omega)⟩
        · rw [partnerIn_eq_some]; unfold ctRot; rw [if_neg he, if_neg h0]
          rcases cyc_cases hm hj with ⟨h1, h2⟩ | ⟨h1, h2⟩
          · rw [h2]; exact Or.inl ⟨by omega, by omega⟩
          · omega
  · intro p hp y hy
    rw [List.mem_append, mem_cycle1, mem_cycle1] at hp
    unfold ctRot
    rcases hp with ⟨j, hj, rfl⟩ | ⟨j, hj, rfl⟩ <;> rw [partnerIn_eq_some] at hy <;>
      rcases cyc_cases hm hj with ⟨h1, h2⟩ | ⟨h1, h2⟩ <;> rw [h2] at hy <;>
      rcases hoff with rfl | rfl <;> split <;> split <;> omega


theorem mem_map_range {m : Nat} {f : Nat → Nat × Nat} {p : Nat × Nat} :
    p ∈ (List.range m).map f ↔ ∃ j, j < m ∧ p = f j := by
  simp only [List.mem_map, List.mem_range]
  constructor
  · rintro ⟨j, hj, rfl⟩; exact ⟨j, hj, rfl⟩
  · rintro ⟨j, hj, rfl⟩; exact ⟨j, hj, rfl⟩

/-- the index-2 list of `cut_tile`: new chamber i of layer A / B is glued to `c i` / `o i` -/
theorem ct2_get {n m i off : Nat} {c o : Nat → Nat} (hc : ∀ j, j < m → c j ≤ n) (ho : ∀ j, j < m → o j ≤ n)
    (hi : i < m) (hoff : off = 0 ∨ off = m) :
    pairedGet ((List.range m).map (fun i => (c i, n + 1 + i)) ++ (List.range m).map (fun i => (o i, n + m + 1 + i)))
      (n + off + 1 + i) = some (if off = 0 then c i else o i) := by
  apply pairedGet_unique
  · rcases hoff with h | h
    · refine ⟨(c i, n + 1 + i), ?_, ?_⟩
      · rw [List.mem_append, mem_map_range, mem_map_range]; exact Or.inl ⟨i, hi, rfl⟩
      · rw [partnerIn_eq_some, h, if_pos rfl]; exact Or.inl ⟨by omega, rfl⟩
    · by_cases hm0 : m = 0
      · omega
      · refine ⟨(o i, n + m + 1 + i), ?_, ?_⟩
        · rw [List.mem_append, mem_map_range, mem_map_range]; exact Or.inr ⟨i, hi, rfl⟩
        · rw [partnerIn_eq_some, h, if_neg hm0]; exact Or.inl ⟨by omega, rfl⟩
  · intro p hp y hy
    rw [List.mem_append, mem_map_range, mem_map_range] at hp
    rcases hp with ⟨j, hj, rfl⟩ | ⟨j, hj, rfl⟩
    · have := hc j hj
      rw [partnerIn_eq_some] at hy
      rcases hoff with h | h
      · rw [if_pos h]
        rcases hy with ⟨h1, h2⟩ | ⟨_, h1, _⟩
        · have : j = i := by omega
          rw [h2, this]
        · omega
      · rcases hy with ⟨h1, _⟩ | ⟨_, h1, _⟩ <;> omega
    · have := ho j hj
      rw [partnerIn_eq_some] at hy
      rcases hoff with h | h
      · rcases hy with ⟨h1, _⟩ | ⟨_, h1, _⟩ <;> omega
      · rw [if_neg (by omega)]
        rcases hy with ⟨h1, h2⟩ | ⟨_, h1, _⟩
        · have : j = i := by omega
          rw [h2, this]
        · omega

/-- the index-3 list of `cut_tile`: the two layers are glued position by position -/
theorem ct3_get {n m i : Nat} (hi : i < m) :
    pairedGet ((List.range m).map (fun i => (n + 1 + i, n + m + 1 + i))) (n + 1 + i) = some (n + m + 1 + i) ∧
    pairedGet ((List.range m).map (fun i => (n + 1 + i, n + m + 1 + i))) (n + m + 1 + i) = some (n + 1 + i) := by
  constructor
  · apply pairedGet_unique
    · exact ⟨(n + 1 + i, n + m + 1 + i), mem_map_range.2 ⟨i, hi, rfl⟩,
        partnerIn_eq_some.2 (Or.inr ⟨by omega, rfl, rfl⟩)⟩
    · intro p hp y hy
      obtain ⟨j, hj, rfl⟩ := mem_map_range.1 hp
      rw [partnerIn_eq_some] at hy
      omega
  · apply pairedGet_unique
    · exact ⟨(n + 1 + i, n + m + 1 + i), mem_map_range.2 ⟨i, hi, rfl⟩,
        partnerIn_eq_some.2 (Or.inl ⟨rfl, rfl⟩)⟩
    · intro p hp y hy
      obtain ⟨j, hj, rfl⟩ := mem_map_range.1 hp
      rw [partnerIn_eq_some] at hy
      omega

theorem ct3_none {n m x : Nat} (hx : x ≤ n) :
    pairedGet ((List.range m).map (fun i => (n + 1 + i, n + m + 1 + i))) x = none := by
  apply pairedGet_eq_none
  intro p hp
  obtain ⟨j, hj, rfl⟩ := mem_map_range.1 hp
  constructor <;> simp only <;> omega

theorem cycle1_none {n m x : Nat} (hx : x ≤ n) :
    pairedGet (cycle1 m (n + 1) ++ cycle1 m (n + m + 1)) x = none := by
  apply pairedGet_eq_none
  intro p hp
  rw [List.mem_append, mem_cycle1, mem_cycle1] at hp
  rcases hp with ⟨j, hj, rfl⟩ | ⟨j, hj, rfl⟩ <;> constructor <;> simp only <;> omega

theorem ctFlip_lt {m i : Nat} (hm : m % 2 = 0) (hi : i < m) : ctFlip i < m := by
  unfold ctFlip; split <;> omega

theorem ctRot_lt {m i : Nat} (hm : m % 2 = 0) (hi : i < m) : ctRot m i < m := by
  unfold ctRot; split <;> split <;> omega

theorem ct2_none {n m x : Nat} {c o : Nat → Nat} (hx : x ≤ n) (hc : ∀ j, j < m → c j ≠ x) (ho : ∀ j, j < m → o j ≠ x) :
    pairedGet ((List.range m).map (fun i => (c i, n + 1 + i)) ++ (List.range m).map (fun i => (o i, n + m + 1 + i))) x = none := by
  apply pairedGet_eq_none
  intro p hp
  rw [List.mem_append, mem_map_range, mem_map_range] at hp
  rcases hp with ⟨j, hj, rfl⟩ | ⟨j, hj, rfl⟩
  · exact ⟨hc j hj, by simp only; omega⟩
  · exact ⟨ho j hj, by simp only; omega⟩

theorem ctFlip_flip (k : Nat) : ctFlip (ctFlip k) = k := by
  unfold ctFlip; split <;> split <;> omega

theorem ctFlip_ne (i : Nat) : ctFlip i ≠ i := by
  unfold ctFlip; split <;> omega

theorem ctRot_ne {m i : Nat} (hm : m % 2 = 0) (hi : i < m) : ctRot m i ≠ i := by
  unfold ctRot; split <;> split <;> omega

/-- **`cut_tile`: the 2m new chambers satisfy the commutation relations.**  If `cut_tile`
    returns on a complete 3-dimensional D-set (chamber arguments), the result is complete with
    involutive operations, has 2m more chambers, keeps operations 0, 1, 3 of the old chambers, and
    every new chamber satisfies s0s3 = s3s0 and s1s3 = s3s1; if moreover the cut chambers come in
    0-adjacent pairs (cut[2k], cut[2k+1]) on which s0 and s2 commute, also s0s2 = s2s0. -/
theorem cutTile_commutes {ds s : DSetData} (hv : ValidSet ds) (hdim : ds.dim = 3) {cut : List Nat}
    (hcut : ∀ k, k < cut.length → 1 ≤ cut.getD k 0 ∧ cut.getD k 0 ≤ ds.size)
    (h : cutTile ds cut = .ok s) :
    ValidSet s ∧ s.size = ds.size + 2 * cut.length ∧ s.dim = 3 ∧
    (∀ i d, i ≤ 3 → i ≠ 2 → 1 ≤ d → d ≤ ds.size → s.opU i d = ds.opU i d) ∧
    (∀ c, ds.size < c → c ≤ ds.size + 2 * cut.length →
      s.opU 3 (s.opU 0 c) = s.opU 0 (s.opU 3 c) ∧ s.opU 3 (s.opU 1 c) = s.opU 1 (s.opU 3 c)) ∧
    ((∀ k, k < cut.length → ds.opU 0 (cut.getD k 0) = cut.getD (ctFlip k) 0) →
     (∀ k, k < cut.length → ds.opU 2 (ds.opU 0 (cut.getD k 0)) = ds.opU 0 (ds.opU 2 (cut.getD k 0))) →
     ∀ c, ds.size < c → c ≤ ds.size + 2 * cut.length → s.opU 2 (s.opU 0 c) = s.opU 0 (s.opU 2 c)) ∧
    ((∀ k, k < cut.length → ds.opU 0 (cut.getD k 0) = cut.getD (ctFlip k) 0) → FarCommute ds → FarCommute s) ∧
    (Loopless ds → Loopless s) ∧ (FarDiffer ds → FarDiffer s) := by
  unfold cutTile at h
  simp only at h
  split at h
  · cases h
  rename_i hm'
  have hm : cut.length % 2 = 0 := by omega
  obtain ⟨opp, hopp, h⟩ := bind_ok h
  obtain ⟨g, hg, h⟩ := bind_ok h
  obtain ⟨r0, hr0, h⟩ := bind_ok h
  obtain ⟨r1, hr1, h⟩ := bind_ok h
  obtain ⟨r2, hr2, h⟩ := bind_ok h
  -- m > 0: with no pairs the first `reglue(..).unwrap()` panics
  have hpos : 0 < cut.length := by
    by_cases h0 : cut.length = 0
    · exfalso
      rw [h0] at hr0
      have : reglueU g (cycle0 0 (ds.size + 1) ++ cycle0 0 (ds.size + 0 + 1)) 0 = .panic := rfl
      rw [this] at hr0; cases hr0
    · omega
  have hn := hcut 0 hpos
  obtain ⟨vg, gsize, gdim, gold, gnew⟩ := grow_valid hv (by omega) (by omega) hg
  rw [hdim] at gdim gold gnew
  obtain ⟨hl, hov⟩ := mapOpx_ok hopp
  have hoppr : ∀ j, j < cut.length → 1 ≤ opp.getD j 0 ∧ opp.getD j 0 ≤ ds.size := by
    intro j hj
    rw [hov j hj]
    exact hv.range 2 _ (by omega) (hcut j hj).1 (hcut j hj).2
  have f0 := reglueFacts vg hr0
  have f1 := reglueFacts f0.valid hr1
  have f2 := reglueFacts f1.valid hr2
  have f3 := reglueFacts f2.valid h
  have s0 : r0.size = ds.size + 2 * cut.length := by rw [f0.size, gsize]
  have s1 : r1.size = ds.size + 2 * cut.length := by rw [f1.size, s0]
  have s2 : r2.size = ds.size + 2 * cut.length := by rw [f2.size, s1]
  have s3 : s.size = ds.size + 2 * cut.length := by rw [f3.size, s2]
  have m0 : r0.dim = 3 := by rw [f0.dim, gdim]
  have m1 : r1.dim = 3 := by rw [f1.dim, m0]
  have m2 : r2.dim = 3 := by rw [f2.dim, m1]
  have m3 : s.dim = 3 := by rw [f3.dim, m2]
  clear hg hr0 hr1 hr2 h hopp
  -- reading the final table on the new chambers (`off` = 0: layer A, `off` = m: layer B)
  have Z0 : ∀ off i, (off = 0 ∨ off = cut.length) → i < cut.length →
      s.opU 0 (ds.size + off + 1 + i) = ds.size + off + 1 + ctFlip i := by
    intro off i hoff hi
    rw [f3.other 0 _ (by omega) (by omega) (by omega) (by omega),
      f2.other 0 _ (by omega) (by omega) (by omega) (by omega),
      f1.other 0 _ (by omega) (by omega) (by omega) (by omega)]
    exact (f0.paired _ _ (by omega) (by omega) (by omega) (cycle0_get hm hi hoff)).1
  have Z1 : ∀ off i, (off = 0 ∨ off = cut.length) → i < cut.length →
      s.opU 1 (ds.size + off + 1 + i) = ds.size + off + 1 + ctRot cut.length i := by
    intro off i hoff hi
    rw [f3.other 1 _ (by omega) (by omega) (by omega) (by omega),
      f2.other 1 _ (by omega) (by omega) (by omega) (by omega)]
    exact (f1.paired _ _ (by omega) (by omega) (by omega) (cycle1_get hm hi hoff)).1
  have Z2 : ∀ off i, (off = 0 ∨ off = cut.length) → i < cut.length →
      s.opU 2 (ds.size + off + 1 + i) = if off = 0 then cut.getD i 0 else opp.getD i 0 := by
    intro off i hoff hi
    rw [f3.other 2 _ (by omega) (by omega) (by omega) (by omega)]
    exact (f2.paired _ _ (by omega) (by omega) (by omega)
      (ct2_get (c := fun i => cut.getD i 0) (o := fun i => opp.getD i 0)
        (fun j hj => (hcut j hj).2) (fun j hj => (hoppr j hj).2) hi hoff)).1
  have Z3A : ∀ i, i < cut.length → s.opU 3 (ds.size + 0 + 1 + i) = ds.size + cut.length + 1 + i := by
    intro i hi
    exact (f3.paired _ _ (by omega) (by omega) (by omega) (ct3_get hi).1).1
  have Z3B : ∀ i, i < cut.length → s.opU 3 (ds.size + cut.length + 1 + i) = ds.size + 0 + 1 + i := by
    intro i hi
    exact (f3.paired _ _ (by omega) (by omega) (by omega) (ct3_get hi).2).1
  have B : ∀ i x, i ≤ 3 → i ≠ 2 → 1 ≤ x → x ≤ ds.size → s.opU i x = ds.opU i x := by
    intro i x hi hi2 hx1 hx2
    have c0 : r0.opU i x = ds.opU i x := by
      by_cases h0 : i = 0
      · subst h0
        rw [f0.unpaired x hx1 (by omega) (by omega) (cycle0_none hx2)]; exact gold 0 x (by omega) hx1 hx2
      · rw [f0.other i x (by omega) hx1 (by omega) h0]; exact gold i x hi hx1 hx2
    have c1 : r1.opU i x = ds.opU i x := by
      by_cases h1 : i = 1
      · subst h1
        rw [f1.unpaired x hx1 (by omega) (by omega) (cycle1_none hx2)]; exact c0
      · rw [f1.other i x (by omega) hx1 (by omega) h1]; exact c0
    have c2 : r2.opU i x = ds.opU i x := by
      rw [f2.other i x (by omega) hx1 (by omega) hi2]; exact c1
    by_cases h3 : i = 3
    · subst h3
      rw [f3.unpaired x hx1 (by omega) (by omega) (ct3_none hx2)]; exact c2
    · rw [f3.other i x (by omega) hx1 (by omega) h3]; exact c2
  -- every new chamber is position i of layer A or of layer B
  have hnew : ∀ c, ds.size < c → c ≤ ds.size + 2 * cut.length →
      ∃ i, i < cut.length ∧ (c = ds.size + 0 + 1 + i ∨ c = ds.size + cut.length + 1 + i) := by
    intro c hc1 hc2
    by_cases hA : c ≤ ds.size + cut.length
    · exact ⟨c - ds.size - 1, by omega, Or.inl (by omega)⟩
    · exact ⟨c - ds.size - cut.length - 1, by omega, Or.inr (by omega)⟩
  have h03 : ∀ c, ds.size < c → c ≤ ds.size + 2 * cut.length →
      s.opU 3 (s.opU 0 c) = s.opU 0 (s.opU 3 c) ∧ s.opU 3 (s.opU 1 c) = s.opU 1 (s.opU 3 c) := by
    intro c hc1 hc2
    obtain ⟨i, hi, rfl | rfl⟩ := hnew c hc1 hc2
    · have hf := ctFlip_lt hm hi
      have hr := ctRot_lt hm hi
      refine ⟨?_, ?_⟩
      · rw [Z0 0 i (Or.inl rfl) hi, Z3A _ hf, Z3A i hi, Z0 _ i (Or.inr rfl) hi]
      · rw [Z1 0 i (Or.inl rfl) hi, Z3A _ hr, Z3A i hi, Z1 _ i (Or.inr rfl) hi]
    · have hf := ctFlip_lt hm hi
      have hr := ctRot_lt hm hi
      refine ⟨?_, ?_⟩
      · rw [Z0 _ i (Or.inr rfl) hi, Z3B _ hf, Z3B i hi, Z0 0 i (Or.inl rfl) hi]
      · rw [Z1 _ i (Or.inr rfl) hi, Z3B _ hr, Z3B i hi, Z1 0 i (Or.inl rfl) hi]
  have h02 : (∀ k, k < cut.length → ds.opU 0 (cut.getD k 0) = cut.getD (ctFlip k) 0) →
      (∀ k, k < cut.length → ds.opU 2 (ds.opU 0 (cut.getD k 0)) = ds.opU 0 (ds.opU 2 (cut.getD k 0))) →
      ∀ c, ds.size < c → c ≤ ds.size + 2 * cut.length → s.opU 2 (s.opU 0 c) = s.opU 0 (s.opU 2 c) := by
    intro hadj hcomm c hc1 hc2
    obtain ⟨i, hi, rfl | rfl⟩ := hnew c hc1 hc2
    · have hf := ctFlip_lt hm hi
      rw [Z0 0 i (Or.inl rfl) hi, Z2 0 _ (Or.inl rfl) hf, Z2 0 i (Or.inl rfl) hi, if_pos rfl, if_pos rfl,
        B 0 _ (by omega) (by omega) (hcut i hi).1 (hcut i hi).2, hadj i hi]
    · have hf := ctFlip_lt hm hi
      have hne : ¬ cut.length = 0 := by omega
      rw [Z0 _ i (Or.inr rfl) hi, Z2 _ _ (Or.inr rfl) hf, Z2 _ i (Or.inr rfl) hi, if_neg hne, if_neg hne,
        B 0 _ (by omega) (by omega) (hoppr i hi).1 (hoppr i hi).2, hov i hi, hov _ hf,
        ← hcomm i hi, hadj i hi]
  have hne : ¬ cut.length = 0 := by omega
  -- s2 on the old chambers
  have Z2c : ∀ i, i < cut.length → s.opU 2 (cut.getD i 0) = ds.size + 0 + 1 + i := by
    intro i hi
    rw [f3.other 2 _ (by omega) (hcut i hi).1 (by have := (hcut i hi).2; omega) (by omega)]
    have := (f2.paired _ _ (by omega) (by omega) (by omega)
      (ct2_get (c := fun i => cut.getD i 0) (o := fun i => opp.getD i 0) (off := 0)
        (fun j hj => (hcut j hj).2) (fun j hj => (hoppr j hj).2) hi (Or.inl rfl))).2
    rwa [if_pos rfl] at this
  have Z2o : ∀ i, i < cut.length → s.opU 2 (opp.getD i 0) = ds.size + cut.length + 1 + i := by
    intro i hi
    rw [f3.other 2 _ (by omega) (hoppr i hi).1 (by have := (hoppr i hi).2; omega) (by omega)]
    have := (f2.paired _ _ (by omega) (by omega) (by omega)
      (ct2_get (c := fun i => cut.getD i 0) (o := fun i => opp.getD i 0) (off := cut.length)
        (fun j hj => (hcut j hj).2) (fun j hj => (hoppr j hj).2) hi (Or.inr rfl))).2
    rwa [if_neg hne] at this
  have U2 : ∀ x, 1 ≤ x → x ≤ ds.size → (∀ j, j < cut.length → cut.getD j 0 ≠ x) →
      (∀ j, j < cut.length → opp.getD j 0 ≠ x) → s.opU 2 x = ds.opU 2 x := by
    intro x hx1 hx2 hcx hox
    rw [f3.other 2 x (by omega) hx1 (by omega) (by omega),
      f2.unpaired x hx1 (by omega) (by omega)
        (ct2_none (c := fun i => cut.getD i 0) (o := fun i => opp.getD i 0) hx2 hcx hox),
      f1.other 2 x (by omega) hx1 (by omega) (by omega), f0.other 2 x (by omega) hx1 (by omega) (by omega)]
    exact gold 2 x (by omega) hx1 hx2
  have classify : ∀ v, (∃ i, i < cut.length ∧ cut.getD i 0 = v) ∨ (∃ i, i < cut.length ∧ opp.getD i 0 = v) ∨
      ((∀ j, j < cut.length → cut.getD j 0 ≠ v) ∧ (∀ j, j < cut.length → opp.getD j 0 ≠ v)) := by
    intro v
    by_cases hc : ∃ i, i < cut.length ∧ cut.getD i 0 = v
    · exact Or.inl hc
    · by_cases ho : ∃ i, i < cut.length ∧ opp.getD i 0 = v
      · exact Or.inr (Or.inl ho)
      · exact Or.inr (Or.inr ⟨fun j hj h => hc ⟨j, hj, h⟩, fun j hj h => ho ⟨j, hj, h⟩⟩)
  refine ⟨f3.valid, s3, m3, B, h03, h02, ?_, ?_, ?_⟩
  rotate_left
  · -- loopless
    intro hl i v hi hv1 hv2
    rw [m3] at hi; rw [s3] at hv2
    have hi4 : i = 0 ∨ i = 1 ∨ i = 2 ∨ i = 3 := by omega
    by_cases hvn : ds.size < v
    · obtain ⟨k, hk, rfl | rfl⟩ := hnew v hvn hv2
      · have f1 := ctFlip_ne k
        have f2 := ctRot_ne hm hk
        rcases hi4 with rfl | rfl | rfl | rfl
        · rw [Z0 0 k (Or.inl rfl) hk]; omega
        · rw [Z1 0 k (Or.inl rfl) hk]; omega
        · rw [Z2 0 k (Or.inl rfl) hk, if_pos rfl]; have := (hcut k hk).2; omega
        · rw [Z3A k hk]; omega
      · have f1 := ctFlip_ne k
        have f2 := ctRot_ne hm hk
        rcases hi4 with rfl | rfl | rfl | rfl
        · rw [Z0 _ k (Or.inr rfl) hk]; omega
        · rw [Z1 _ k (Or.inr rfl) hk]; omega
        · rw [Z2 _ k (Or.inr rfl) hk, if_neg hne]; have := (hoppr k hk).2; omega
        · rw [Z3B k hk]; omega
    · have hvo : v ≤ ds.size := by omega
      by_cases hi2 : i = 2
      · subst hi2
        rcases classify v with ⟨k, hk, rfl⟩ | ⟨k, hk, rfl⟩ | ⟨hcx, hox⟩
        · rw [Z2c k hk]; omega
        · rw [Z2o k hk]; omega
        · rw [U2 v hv1 hvo hcx hox]; exact hl 2 v (by omega) hv1 hvo
      · rw [B i v hi hi2 hv1 hvo]; exact hl i v (by omega) hv1 hvo
  · -- far operations differ
    intro hd a b v hab hb hv1 hv2
    rw [m3] at hb; rw [s3] at hv2
    have hab' : (a = 0 ∧ b = 2) ∨ (a = 0 ∧ b = 3) ∨ (a = 1 ∧ b = 3) := by omega
    by_cases hvn : ds.size < v
    · obtain ⟨k, hk, rfl | rfl⟩ := hnew v hvn hv2
      · have hfl := ctFlip_lt hm hk
        have hrl := ctRot_lt hm hk
        rcases hab' with ⟨rfl, rfl⟩ | ⟨rfl, rfl⟩ | ⟨rfl, rfl⟩
        · rw [Z0 0 k (Or.inl rfl) hk, Z2 0 k (Or.inl rfl) hk, if_pos rfl]; have := (hcut k hk).2; omega
        · rw [Z0 0 k (Or.inl rfl) hk, Z3A k hk]; omega
        · rw [Z1 0 k (Or.inl rfl) hk, Z3A k hk]; omega
      · have hfl := ctFlip_lt hm hk
        have hrl := ctRot_lt hm hk
        rcases hab' with ⟨rfl, rfl⟩ | ⟨rfl, rfl⟩ | ⟨rfl, rfl⟩
        · rw [Z0 _ k (Or.inr rfl) hk, Z2 _ k (Or.inr rfl) hk, if_neg hne]; have := (hoppr k hk).2; omega
        · rw [Z0 _ k (Or.inr rfl) hk, Z3B k hk]; omega
        · rw [Z1 _ k (Or.inr rfl) hk, Z3B k hk]; omega
    · have hvo : v ≤ ds.size := by omega
      rcases hab' with ⟨rfl, rfl⟩ | ⟨rfl, rfl⟩ | ⟨rfl, rfl⟩
      · rw [B 0 v (by omega) (by omega) hv1 hvo]
        have r0 := hv.range 0 v (by omega) hv1 hvo
        rcases classify v with ⟨k, hk, rfl⟩ | ⟨k, hk, rfl⟩ | ⟨hcx, hox⟩
        · rw [Z2c k hk]; omega
        · rw [Z2o k hk]; omega
        · rw [U2 v hv1 hvo hcx hox]; exact hd 0 2 v (by omega) (by omega) hv1 hvo
      · rw [B 0 v (by omega) (by omega) hv1 hvo, B 3 v (by omega) (by omega) hv1 hvo]
        exact hd 0 3 v (by omega) (by omega) hv1 hvo
      · rw [B 1 v (by omega) (by omega) hv1 hvo, B 3 v (by omega) (by omega) hv1 hvo]
        exact hd 1 3 v (by omega) (by omega) hv1 hvo
  intro hadj hfc
  have hcomm : ∀ k, k < cut.length → ds.opU 2 (ds.opU 0 (cut.getD k 0)) = ds.opU 0 (ds.opU 2 (cut.getD k 0)) :=
    fun k hk => hfc 0 2 _ (by omega) (by omega) (hcut k hk).1 (hcut k hk).2
  have hoadj : ∀ i, i < cut.length → ds.opU 0 (opp.getD i 0) = opp.getD (ctFlip i) 0 := by
    intro i hi
    rw [hov i hi, hov _ (ctFlip_lt hm hi), ← hcomm i hi, hadj i hi]
  intro a b v hab hb hv1 hv2
  rw [m3] at hb
  rw [s3] at hv2
  by_cases hvn : ds.size < v
  · obtain ⟨c03, c13⟩ := h03 v hvn hv2
    have c02 := h02 hadj hcomm v hvn hv2
    have : (a = 0 ∧ b = 2) ∨ (a = 0 ∧ b = 3) ∨ (a = 1 ∧ b = 3) := by omega
    rcases this with ⟨rfl, rfl⟩ | ⟨rfl, rfl⟩ | ⟨rfl, rfl⟩
    · exact c02
    · exact c03
    · exact c13
  · have hvo : v ≤ ds.size := by omega
    by_cases hb2 : b = 2
    · have ha0 : a = 0 := by omega
      subst hb2 ha0
      have r0v := hv.range 0 v (by omega) hv1 hvo
      rw [B 0 v (by omega) (by omega) hv1 hvo]
      by_cases hc : ∃ i, i < cut.length ∧ cut.getD i 0 = v
      · obtain ⟨i, hi, rfl⟩ := hc
        have hf := ctFlip_lt hm hi
        rw [hadj i hi, Z2c _ hf, Z2c i hi, Z0 0 i (Or.inl rfl) hi]
      · by_cases ho : ∃ i, i < cut.length ∧ opp.getD i 0 = v
        · obtain ⟨i, hi, rfl⟩ := ho
          have hf := ctFlip_lt hm hi
          rw [hoadj i hi, Z2o _ hf, Z2o i hi, Z0 _ i (Or.inr rfl) hi]
        · have hcx : ∀ j, j < cut.length → cut.getD j 0 ≠ v := fun j hj h => hc ⟨j, hj, h⟩
          have hox : ∀ j, j < cut.length → opp.getD j 0 ≠ v := fun j hj h => ho ⟨j, hj, h⟩
          have hcx0 : ∀ j, j < cut.length → cut.getD j 0 ≠ ds.opU 0 v := by
            intro j hj h
            apply hcx (ctFlip j) (ctFlip_lt hm hj)
            rw [← hadj j hj, h]; exact hv.invol 0 v (by omega) hv1 hvo
          have hox0 : ∀ j, j < cut.length → opp.getD j 0 ≠ ds.opU 0 v := by
            intro j hj h
            apply hox (ctFlip j) (ctFlip_lt hm hj)
            rw [← hoadj j hj, h]; exact hv.invol 0 v (by omega) hv1 hvo
          have r2v := hv.range 2 v (by omega) hv1 hvo
          rw [U2 _ r0v.1 r0v.2 hcx0 hox0, U2 v hv1 hvo hcx hox, B 0 _ (by omega) (by omega) r2v.1 r2v.2]
          exact hfc 0 2 v (by omega) (by omega) hv1 hvo
    · have ha2 : a ≠ 2 := by omega
      have ra := hv.range a v (by omega) hv1 hvo
      have rb := hv.range b v (by omega) hv1 hvo
      rw [B a v (by omega) ha2 hv1 hvo, B b v hb hb2 hv1 hvo, B b _ hb hb2 ra.1 ra.2, B a _ (by omega) ha2 rb.1 rb.2]
      exact hfc a b v hab (by omega) hv1 hvo

end DSymVerif.Simp
