/-
Looplessness (no operation has a fixed point) and "far operations differ" (r_02 = r_03 = r_13 = 2
exactly) as invariants of the rewriting primitives: together with `Axioms3` these are all manifold
clauses of Spec/C16 except the sphericity of tiles and vertex figures.
-/
import DSymVerif.Proofs.SimplifySkeleton

namespace DSymVerif.Simp
open DSymVerif DSymVerif.DS

theorem FarDiffer.symm' {ds : DSetData} (h : FarDiffer ds) {a b d : Nat} (ha : a ≤ ds.dim) (hb : b ≤ ds.dim)
    (hab : a + 1 < b ∨ b + 1 < a) (h1 : 1 ≤ d) (h2 : d ≤ ds.size) : ds.opU a d ≠ ds.opU b d := by
  rcases hab with hh | hh
  · exact h a b d hh hb h1 h2
  · exact fun e => h b a d hh ha h1 h2 e.symm

/-! ### walks of `s_i s_c` -/

/-- conjugation: `(s_i s_c)^t (s_i z) = s_i ((s_c s_i)^t z)` -/
theorem cpi_conj {ds : DSetData} (i c : Nat) : ∀ (t z : Nat),
    (cpi ds i c)^[t] (ds.opU i z) = ds.opU i ((cpi ds c i)^[t] z)
  | 0, _ => rfl
  | t + 1, z => by
    rw [Function.iterate_succ_apply', cpi_conj i c t z, Function.iterate_succ_apply']
    rfl

/-- parity: in a loopless D-set an odd alternating word `s_i (s_c s_i)^t` has no fixed point -/
theorem odd_word_no_fix {ds : DSetData} (hv : ValidSet ds) (hl : Loopless ds) : ∀ (t : Nat) (i c : Nat), i ≤ ds.dim → c ≤ ds.dim →
    ∀ x, 1 ≤ x → x ≤ ds.size → (cpi ds i c)^[t] (ds.opU i x) ≠ x
  | 0, i, c, hi, hc, x, h1, h2 => hl i x hi h1 h2
  | t + 1, i, c, hi, hc, x, h1, h2 => by
    intro he
    -- (s_i s_c)^{t+1} s_i x = s_i [(s_c s_i)^t s_c] (s_i x)
    have ri := hv.range i x hi h1 h2
    rw [Function.iterate_succ_apply] at he
    have : cpi ds i c (ds.opU i x) = ds.opU i (ds.opU c (ds.opU i x)) := rfl
    rw [this, cpi_conj i c t] at he
    have rc := hv.range c _ hc ri.1 ri.2
    have rr := cpi_iter_range hv hc hi rc.1 rc.2 t
    -- apply s_i
    have he' := congrArg (ds.opU i) he
    rw [hv.invol i _ hi rr.1 rr.2] at he'
    exact odd_word_no_fix hv hl t c i hc hi (ds.opU i x) ri.1 ri.2 he'

/-- the walk back: `(s_i s_c)^s (s_i y_t) = s_i y_{t-s}` where `y_t = (s_i s_c)^t (s_i x)` -/
theorem walk_rev {ds : DSetData} (hv : ValidSet ds) {i c : Nat} (hi : i ≤ ds.dim) (hc : c ≤ ds.dim)
    {x : Nat} (h1 : 1 ≤ x) (h2 : x ≤ ds.size) (t : Nat) : ∀ s, s ≤ t →
    (cpi ds i c)^[s] (ds.opU i ((cpi ds i c)^[t] (ds.opU i x))) = ds.opU i ((cpi ds i c)^[t - s] (ds.opU i x)) := by
  have re := hv.range i x hi h1 h2
  have ry := fun t => cpi_iter_range hv hi hc re.1 re.2 t
  intro s
  induction s with
  | zero => intro _; rfl
  | succ s ih =>
    intro hs
    rw [Function.iterate_succ_apply', ih (by omega)]
    obtain ⟨u, hu⟩ : ∃ u, t - s = u + 1 := ⟨t - s - 1, by omega⟩
    have hu' : t - (s + 1) = u := by omega
    rw [hu, hu', Function.iterate_succ_apply']
    have ryu := ry u
    generalize (cpi ds i c)^[u] (ds.opU i x) = y at ryu ⊢
    unfold cpi
    have rc := hv.range c y hc ryu.1 ryu.2
    rw [hv.invol i _ hi rc.1 rc.2, hv.invol c y hc ryu.1 ryu.2]

/-- equivariance: an operation s_k that commutes with s_i everywhere and with s_c on the first t
    chambers of the walk maps the walk from x to the walk from s_k x -/
theorem walk_equiv {ds : DSetData} (hv : ValidSet ds) {i c k : Nat} (hi : i ≤ ds.dim) (hc : c ≤ ds.dim) (hk : k ≤ ds.dim)
    (hki : ∀ z, 1 ≤ z → z ≤ ds.size → ds.opU i (ds.opU k z) = ds.opU k (ds.opU i z))
    {x : Nat} (h1 : 1 ≤ x) (h2 : x ≤ ds.size) : ∀ t,
    (∀ u, u < t → ds.opU k (ds.opU c ((cpi ds i c)^[u] (ds.opU i x))) = ds.opU c (ds.opU k ((cpi ds i c)^[u] (ds.opU i x)))) →
    (cpi ds i c)^[t] (ds.opU i (ds.opU k x)) = ds.opU k ((cpi ds i c)^[t] (ds.opU i x)) := by
  have re := hv.range i x hi h1 h2
  have ry := fun t => cpi_iter_range hv hi hc re.1 re.2 t
  intro t
  induction t with
  | zero => intro _; exact hki x h1 h2
  | succ t ih =>
    intro hcomm
    rw [Function.iterate_succ_apply', ih (fun u hu => hcomm u (by omega)), Function.iterate_succ_apply']
    have hz := hcomm t (by omega)
    have ryt := ry t
    generalize (cpi ds i c)^[t] (ds.opU i x) = z at hz ryt ⊢
    unfold cpi
    rw [← hz]
    have rc := hv.range c z hc ryt.1 ryt.2
    exact hki _ rc.1 rc.2


/-! ### collapse -/

/-- **`collapse` keeps a D-set loopless** (parity: the re-routed operation is an odd alternating
    word in s_i and the connector) -/
theorem collapse_loopless {ds s : DSetData} {num : Nat → Nat} {remove : List Nat} {c : Nat}
    (hv : ValidSet ds) (hl : Loopless ds) (res : CollapseRes ds remove c s num) (hc : c ≤ ds.dim) :
    Loopless s := by
  intro i v hi hv1 hv2
  rw [res.dim] at hi
  obtain ⟨x, hx1, hx2, hx, rfl⟩ := res.num_surj v hv1 hv2
  by_cases hic : i = c
  · subst hic
    obtain ⟨hk, hval⟩ := res.op_conn x hx1 hx2 hx
    rw [hval]
    intro he
    have r := hv.range i x hi hx1 hx2
    exact hl i x hi hx1 hx2 (res.num_inj _ _ r.1 r.2 hk hx1 hx2 hx he)
  · obtain ⟨t0, _, hk0, hval⟩ := res.op_walk i x hi hic hx1 hx2 hx
    rw [hval]
    intro he
    have re := hv.range i x hi hx1 hx2
    have ry := cpi_iter_range hv hi hc re.1 re.2 t0
    exact odd_word_no_fix hv hl t0 i c hi hc x hx1 hx2 (res.num_inj _ _ ry.1 ry.2 hk0 hx1 hx2 hx he)

/-- **`collapse` keeps far operations different** under the hypotheses of
    `collapse_far_commute` when moreover the connector differs on the removed set from every
    operation far from `j` -/
theorem collapse_far_differ {ds s : DSetData} {num : Nat → Nat} {remove : List Nat} {c j : Nat}
    (hv : ValidSet ds) (hf : FarCommute ds) (hd : FarDiffer ds) (res : CollapseRes ds remove c s num)
    (hr : ∀ d ∈ remove, 1 ≤ d ∧ d ≤ ds.size) (hc : c ≤ ds.dim) (hj : j ≤ ds.dim) (hjc : j ≠ c)
    (hclosed : ∀ i, i ≤ ds.dim → i ≠ j → ∀ d ∈ remove, ds.opU i d ∈ remove)
    (hcomm : ∀ k, k ≤ ds.dim → (k + 1 < j ∨ j + 1 < k) → ∀ d ∈ remove,
      ds.opU k (ds.opU c d) = ds.opU c (ds.opU k d))
    (hRdiff : ∀ k, k ≤ ds.dim → (k + 1 < j ∨ j + 1 < k) → ∀ d ∈ remove, ds.opU k d ≠ ds.opU c d) :
    FarDiffer s := by
  have keptcl : ∀ i x, i ≤ ds.dim → i ≠ j → 1 ≤ x → x ≤ ds.size → x ∉ remove → ds.opU i x ∉ remove := by
    intro i x hi hij hx1 hx2 hx hm
    have := hclosed i hi hij _ hm
    rw [hv.invol i x hi hx1 hx2] at this
    exact hx this
  have restr : ∀ i x, i ≤ ds.dim → i ≠ j → 1 ≤ x → x ≤ ds.size → x ∉ remove →
      s.opU i (num x) = num (ds.opU i x) := by
    intro i x hi hij hx1 hx2 hx
    by_cases hic : i = c
    · subst hic; exact (res.op_conn x hx1 hx2 hx).2
    · obtain ⟨t0, hz, hk, hval⟩ := res.op_walk i x hi hic hx1 hx2 hx
      cases t0 with
      | zero => exact hval
      | succ t => exact absurd (hz 0 (by omega)) (keptcl i x hi hij hx1 hx2 hx)
  have mixed : ∀ k x, k ≤ ds.dim → (k + 1 < j ∨ j + 1 < k) → 1 ≤ x → x ≤ ds.size → x ∉ remove →
      s.opU k (num x) ≠ s.opU j (num x) := by
    intro k x hk hkj hx1 hx2 hx he
    have hkne : k ≠ j := by omega
    have rkx := hv.range k x hk hx1 hx2
    have kkx := keptcl k x hk hkne hx1 hx2 hx
    rw [restr k x hk hkne hx1 hx2 hx] at he
    obtain ⟨t0, hz, hk0, hval⟩ := res.op_walk j x hj hjc hx1 hx2 hx
    rw [hval] at he
    have rjx := hv.range j x hj hx1 hx2
    have ry := fun t => cpi_iter_range hv hj hc rjx.1 rjx.2 t
    have hy : ds.opU k x = (cpi ds j c)^[t0] (ds.opU j x) :=
      res.num_inj _ _ rkx.1 rkx.2 kkx (ry t0).1 (ry t0).2 hk0 he
    have hki : ∀ z, 1 ≤ z → z ≤ ds.size → ds.opU j (ds.opU k z) = ds.opU k (ds.opU j z) :=
      fun z a b => FarCommute.symm' hf hk hj (by omega) a b
    have heq : ∀ s', s' ≤ t0 → ds.opU k ((cpi ds j c)^[s'] (ds.opU j x)) =
        ds.opU j ((cpi ds j c)^[t0 - s'] (ds.opU j x)) := by
      intro s' hs'
      rw [← walk_equiv hv hj hc hk hki hx1 hx2 s' (fun u hu => hcomm k hk hkj _ (hz u (by omega))),
        hy, walk_rev hv hj hc hx1 hx2 t0 s' hs']
    obtain ⟨m, hm⟩ : ∃ m, t0 = 2 * m ∨ t0 = 2 * m + 1 := ⟨t0 / 2, by omega⟩
    rcases hm with hm | hm
    · have := heq m (by omega)
      rw [show t0 - m = m by omega] at this
      exact FarDiffer.symm' hd hk hj hkj (ry m).1 (ry m).2 this
    · have := heq m (by omega)
      rw [show t0 - m = m + 1 by omega, Function.iterate_succ_apply'] at this
      have rym := ry m
      have hzm := hz m (by omega)
      generalize (cpi ds j c)^[m] (ds.opU j x) = y at this rym hzm
      unfold cpi at this
      have rc := hv.range c y hc rym.1 rym.2
      rw [hv.invol j _ hj rc.1 rc.2] at this
      exact hRdiff k hk hkj y hzm this
  intro a b v hab hb hv1 hv2
  rw [res.dim] at hb
  obtain ⟨x, hx1, hx2, hx, rfl⟩ := res.num_surj v hv1 hv2
  have ha : a ≤ ds.dim := by omega
  by_cases haj : a = j
  · subst haj
    exact fun e => mixed b x hb (by omega) hx1 hx2 hx e.symm
  · by_cases hbj : b = j
    · subst hbj
      exact mixed a x ha (by omega) hx1 hx2 hx
    · rw [restr a x ha haj hx1 hx2 hx, restr b x hb hbj hx1 hx2 hx]
      intro he
      have ra := hv.range a x ha hx1 hx2
      have rb := hv.range b x hb hx1 hx2
      exact hd a b x hab hb hx1 hx2 (res.num_inj _ _ ra.1 ra.2 (keptcl a x ha haj hx1 hx2 hx) rb.1 rb.2
        (keptcl b x hb hbj hx1 hx2 hx) he)


/-! ### reglue -/

theorem reglue_loopless {ds s : DSetData} {pairs : List (Nat × Nat)} {index : Nat} (hv : ValidSet ds)
    (hl : Loopless ds) (h : reglue ds pairs index = .ok (some s)) (hidx : index ≤ ds.dim)
    (hp : ∀ x y, 1 ≤ x → x ≤ ds.size → pairedGet pairs x = some y → y ≠ x) : Loopless s := by
  obtain ⟨_, hs1, hs2, hoth, hpair, hunp⟩ := reglue_ok_valid hv h
  intro i v hi hv1 hv2
  rw [hs2] at hi; rw [hs1] at hv2
  by_cases hii : i = index
  · subst hii
    cases hq : pairedGet pairs v with
    | some y => rw [(hpair v y hv1 hv2 hidx hq).1]; exact hp v y hv1 hv2 hq
    | none => rw [hunp v hv1 hv2 hidx hq]; exact hl i v hi hv1 hv2
  · rw [hoth i v hi hv1 hv2 hii]; exact hl i v hi hv1 hv2

theorem reglue_far_differ {ds s : DSetData} {pairs : List (Nat × Nat)} {index : Nat} (hv : ValidSet ds)
    (hd : FarDiffer ds) (h : reglue ds pairs index = .ok (some s)) (hidx : index ≤ ds.dim)
    (hp : ∀ k, k ≤ ds.dim → (k + 1 < index ∨ index + 1 < k) → ∀ x y, 1 ≤ x → x ≤ ds.size →
      pairedGet pairs x = some y → y ≠ ds.opU k x) : FarDiffer s := by
  obtain ⟨_, hs1, hs2, hoth, hpair, hunp⟩ := reglue_ok_valid hv h
  have mixed : ∀ k v, k ≤ ds.dim → (k + 1 < index ∨ index + 1 < k) → 1 ≤ v → v ≤ ds.size →
      s.opU index v ≠ s.opU k v := by
    intro k v hk hki hv1 hv2
    rw [hoth k v hk hv1 hv2 (by omega)]
    cases hq : pairedGet pairs v with
    | some y => rw [(hpair v y hv1 hv2 hidx hq).1]; exact hp k hk hki v y hv1 hv2 hq
    | none => rw [hunp v hv1 hv2 hidx hq]; exact FarDiffer.symm' hd hidx hk (by omega) hv1 hv2
  intro a b v hab hb hv1 hv2
  rw [hs2] at hb; rw [hs1] at hv2
  have ha : a ≤ ds.dim := by omega
  by_cases hai : a = index
  · subst hai; exact mixed b v hb (by omega) hv1 hv2
  · by_cases hbi : b = index
    · subst hbi; exact fun e => mixed a v ha (by omega) hv1 hv2 e.symm
    · rw [hoth a v ha hv1 hv2 hai, hoth b v hb hv1 hv2 hbi]; exact hd a b v hab hb hv1 hv2

/-- the corner re-gluing keeps a D-set loopless with differing far operations -/
theorem cornerGlue_manifold {ds s : DSetData} (hv : ValidSet ds) (hdim : ds.dim = 3) (hl : Loopless ds) (hd : FarDiffer ds)
    (hf : FarCommute ds) {d e : Nat} (hd1 : 1 ≤ d) (hd2 : d ≤ ds.size) (he1 : 1 ≤ e) (he2 : e ≤ ds.size)
    (hnd : [d, ds.opU 1 e, e, ds.opU 1 d, ds.opU 3 d, ds.opU 1 (ds.opU 3 e), ds.opU 3 e, ds.opU 1 (ds.opU 3 d)].Nodup)
    (h : reglue ds [(d, ds.opU 1 e), (e, ds.opU 1 d), (ds.opU 3 d, ds.opU 1 (ds.opU 3 e)),
      (ds.opU 3 e, ds.opU 1 (ds.opU 3 d))] 1 = .ok (some s)) :
    Loopless s ∧ FarDiffer s := by
  obtain ⟨_, pall⟩ := pairedGet_four hnd
  simp only [List.nodup_cons, List.mem_cons, List.not_mem_nil, or_false, not_or, List.nodup_nil, and_true] at hnd
  obtain ⟨⟨n01, n02, n03, n04, n05, n06, n07⟩, ⟨n12, n13, n14, n15, n16, n17⟩, ⟨n23, n24, n25, n26, n27⟩,
    ⟨n34, n35, n36, n37⟩, ⟨n45, n46, n47⟩, ⟨n56, n57⟩, n67, _⟩ := hnd
  have rf := hv.range 3 d (by omega) hd1 hd2
  have rg := hv.range 3 e (by omega) he1 he2
  have i3d := hv.invol 3 d (by omega) hd1 hd2
  have i3e := hv.invol 3 e (by omega) he1 he2
  have c13 : ∀ x, 1 ≤ x → x ≤ ds.size → ds.opU 3 (ds.opU 1 x) = ds.opU 1 (ds.opU 3 x) :=
    fun x h1 h2 => hf 1 3 x (by omega) (by omega) h1 h2
  constructor
  · apply reglue_loopless hv hl h (by omega)
    intro x y _ _ hxy
    rcases pall x y hxy with ⟨rfl, rfl⟩ | ⟨rfl, rfl⟩ | ⟨rfl, rfl⟩ | ⟨rfl, rfl⟩ | ⟨rfl, rfl⟩ | ⟨rfl, rfl⟩ |
      ⟨rfl, rfl⟩ | ⟨rfl, rfl⟩
    · exact Ne.symm n01
    · exact n01
    · exact Ne.symm n23
    · exact n23
    · exact Ne.symm n45
    · exact n45
    · exact Ne.symm n67
    · exact n67
  · apply reglue_far_differ hv hd h (by omega)
    intro k hk hk2 x y hx1 hx2 hxy
    have hk3 : k = 3 := by omega
    subst hk3
    rcases pall x y hxy with ⟨rfl, rfl⟩ | ⟨rfl, rfl⟩ | ⟨rfl, rfl⟩ | ⟨rfl, rfl⟩ | ⟨rfl, rfl⟩ | ⟨rfl, rfl⟩ |
      ⟨rfl, rfl⟩ | ⟨rfl, rfl⟩
    · exact n14
    · rw [c13 e he1 he2]; exact n05
    · exact n36
    · rw [c13 d hd1 hd2]; exact n27
    · rw [i3d]; exact Ne.symm n05
    · rw [c13 _ rg.1 rg.2, i3e]; exact Ne.symm n14
    · rw [i3e]; exact Ne.symm n27
    · rw [c13 _ rf.1 rf.2, i3d]; exact Ne.symm n36

/-- `squeeze_tile_3d` keeps a D-set loopless with differing far operations -/
theorem squeeze_manifold {ds s : DSetData} (hv : ValidSet ds) (hdim : ds.dim = 3) (hl : Loopless ds) (hd : FarDiffer ds)
    (hf : FarCommute ds) {d e : Nat} (hd1 : 1 ≤ d) (hd2 : d ≤ ds.size) (he1 : 1 ≤ e) (he2 : e ≤ ds.size)
    (hnd : [ds.opU 0 e, d, ds.opU 0 d, e, ds.opU 2 (ds.opU 0 e), ds.opU 2 d, ds.opU 2 (ds.opU 0 d), ds.opU 2 e].Nodup)
    (h : squeezeTile3d ds d e = .ok s) : Loopless s ∧ FarDiffer s := by
  unfold squeezeTile3d at h
  obtain ⟨f, hf', k1⟩ := bind_ok h
  obtain ⟨g, hg', k2⟩ := bind_ok k1
  obtain ⟨f2, hf2', k3⟩ := bind_ok k2
  obtain ⟨g2, hg2', k4⟩ := bind_ok k3
  obtain ⟨d2, hd2', k5⟩ := bind_ok k4
  obtain ⟨e2, he2', k6⟩ := bind_ok k5
  clear h k1 k2 k3 k4 k5
  have vf := (opx_ok hf').2.2.2.1
  have vg := (opx_ok hg').2.2.2.1
  subst vf vg
  have vf2 := (opx_ok hf2').2.2.2.1
  have vg2 := (opx_ok hg2').2.2.2.1
  have vd2 := (opx_ok hd2').2.2.2.1
  have ve2 := (opx_ok he2').2.2.2.1
  subst vf2 vg2 vd2 ve2
  have hr := reglueU_ok k6
  obtain ⟨_, pall⟩ := pairedGet_four hnd
  simp only [List.nodup_cons, List.mem_cons, List.not_mem_nil, or_false, not_or, List.nodup_nil, and_true] at hnd
  obtain ⟨⟨n01, n02, n03, n04, n05, n06, n07⟩, ⟨n12, n13, n14, n15, n16, n17⟩, ⟨n23, n24, n25, n26, n27⟩,
    ⟨n34, n35, n36, n37⟩, ⟨n45, n46, n47⟩, ⟨n56, n57⟩, n67, _⟩ := hnd
  have rf := hv.range 0 e (by omega) he1 he2
  have rg := hv.range 0 d (by omega) hd1 hd2
  have i0e := hv.invol 0 e (by omega) he1 he2
  have i0d := hv.invol 0 d (by omega) hd1 hd2
  have c02 : ∀ x, 1 ≤ x → x ≤ ds.size → ds.opU 0 (ds.opU 2 x) = ds.opU 2 (ds.opU 0 x) := by
    intro x h1 h2; exact (hf 0 2 x (by omega) (by omega) h1 h2).symm
  constructor
  · apply reglue_loopless hv hl hr (by omega)
    intro x y _ _ hxy
    rcases pall x y hxy with ⟨rfl, rfl⟩ | ⟨rfl, rfl⟩ | ⟨rfl, rfl⟩ | ⟨rfl, rfl⟩ | ⟨rfl, rfl⟩ | ⟨rfl, rfl⟩ |
      ⟨rfl, rfl⟩ | ⟨rfl, rfl⟩
    · exact Ne.symm n01
    · exact n01
    · exact Ne.symm n23
    · exact n23
    · exact Ne.symm n45
    · exact n45
    · exact Ne.symm n67
    · exact n67
  · apply reglue_far_differ hv hd hr (by omega)
    intro k hk hk2 x y hx1 hx2 hxy
    have hk0 : k = 0 := by omega
    subst hk0
    rcases pall x y hxy with ⟨rfl, rfl⟩ | ⟨rfl, rfl⟩ | ⟨rfl, rfl⟩ | ⟨rfl, rfl⟩ | ⟨rfl, rfl⟩ | ⟨rfl, rfl⟩ |
      ⟨rfl, rfl⟩ | ⟨rfl, rfl⟩
    · rw [i0e]; exact n13
    · exact n02
    · rw [i0d]; exact Ne.symm n13
    · exact Ne.symm n02
    · rw [c02 _ rf.1 rf.2, i0e]; exact n57
    · rw [c02 d hd1 hd2]; exact n46
    · rw [c02 _ rg.1 rg.2, i0d]; exact Ne.symm n57
    · rw [c02 e he1 he2]; exact Ne.symm n46


/-- the manifold clauses of Spec/C16 except sphericity: D-set axioms, no fixed points, far
    operations differ -/
def Manifold3 (ds : DSetData) : Prop := Axioms3 ds ∧ Loopless ds ∧ FarDiffer ds

theorem collapse_face_orbit_manifold {ds s : DSetData} (hm : Manifold3 ds)
    {c : Nat} (hc1 : 1 ≤ c) (hc2 : c ≤ ds.size)
    (h : collapse (.dset ds) (ds.viewPartial.orbit [0, 1, 3] c) 3 = .ok (some (.dset s))) : Manifold3 s := by
  obtain ⟨⟨hv, hdim, hf⟩, hl, hd⟩ := hm
  obtain ⟨hr, hcl⟩ := orbit_closed hv (idx := [0, 1, 3]) hc1 hc2
  obtain ⟨num, res⟩ := collapse_ok_res hv (by omega) (by omega) hr (hcl 3 (by simp) (by omega)) h
  have hclosed : ∀ i, i ≤ ds.dim → i ≠ 2 → ∀ d ∈ ds.viewPartial.orbit [0, 1, 3] c,
      ds.opU i d ∈ ds.viewPartial.orbit [0, 1, 3] c := by
    intro i hi hi2 d hd'
    have : i = 0 ∨ i = 1 ∨ i = 3 := by omega
    rcases this with rfl | rfl | rfl
    · exact hcl 0 (by simp) (by omega) d hd'
    · exact hcl 1 (by simp) (by omega) d hd'
    · exact hcl 3 (by simp) (by omega) d hd'
  refine ⟨collapse_face_orbit_preserves hv hdim hf hc1 hc2 h, collapse_loopless hv hl res (by omega), ?_⟩
  apply collapse_far_differ hv hf hd res hr (c := 3) (j := 2) (by omega) (by omega) (by omega) hclosed
  · intro k hk hk2 d hd'
    have hk0 : k = 0 := by omega
    subst hk0
    have rd := hr d hd'
    exact (hf 0 3 d (by omega) (by omega) rd.1 rd.2).symm
  · intro k hk hk2 d hd'
    have hk0 : k = 0 := by omega
    subst hk0
    have rd := hr d hd'
    exact hd 0 3 d (by omega) (by omega) rd.1 rd.2

theorem mergeTiles_manifold {ds s : DSetData} (hm : Manifold3 ds) (hw : TilesJunkFaces ds)
    (h : mergeTiles (.dset ds) = .ok (some (.dset s))) : Manifold3 s := by
  have hax' := mergeTiles_model_preserves hm.1 hw h
  obtain ⟨⟨hv, hdim, hf⟩, hl, hd⟩ := hm
  unfold mergeTiles at h
  simp only at h
  cases hsym : asDSym ds with
  | err => rw [hsym] at h; cases h
  | panic => rw [hsym] at h; cases h
  | ok sym =>
    rw [hsym] at h
    simp only at h
    cases hin : FG.innerEdges sym with
    | err => rw [hin] at h; cases h
    | panic => rw [hin] at h; cases h
    | ok inner =>
      rw [hin] at h
      simp only at h
      obtain ⟨hin', h01⟩ := hw sym inner hsym hin
      have hmem : ∀ x, x ∈ tilesJunk ds inner ↔ ∃ e ∈ inner, e.2 = 3 ∧ x ∈ ds.viewPartial.orbit [3] e.1 := by
        intro x
        unfold tilesJunk
        simp only [List.mem_flatMap, List.mem_filter, beq_iff_eq]
        constructor
        · rintro ⟨e, ⟨he, h3⟩, hx⟩; exact ⟨e, he, h3, hx⟩
        · rintro ⟨e, he, h3, hx⟩; exact ⟨e, ⟨he, h3⟩, hx⟩
      have hr : ∀ d ∈ tilesJunk ds inner, 1 ≤ d ∧ d ≤ ds.size := by
        intro d hd'
        obtain ⟨e, he, _, hx⟩ := (hmem d).1 hd'
        exact (orbit_closed hv (hin' e he).1 (hin' e he).2).1 d hx
      have h3 : ∀ d ∈ tilesJunk ds inner, ds.opU 3 d ∈ tilesJunk ds inner := by
        intro d hd'
        obtain ⟨e, he, h3, hx⟩ := (hmem d).1 hd'
        exact (hmem _).2 ⟨e, he, h3, (orbit_closed hv (hin' e he).1 (hin' e he).2).2 3 (by simp) (by omega) d hx⟩
      obtain ⟨num, res⟩ := collapse_ok_res hv (by omega) (by omega) hr h3 h
      have hclosed : ∀ i, i ≤ ds.dim → i ≠ 2 → ∀ d ∈ tilesJunk ds inner, ds.opU i d ∈ tilesJunk ds inner := by
        intro i hi hi2 d hd'
        have : i = 0 ∨ i = 1 ∨ i = 3 := by omega
        rcases this with rfl | rfl | rfl
        · exact (h01 d hd').1
        · exact (h01 d hd').2
        · exact h3 d hd'
      refine ⟨hax', collapse_loopless hv hl res (by omega), ?_⟩
      apply collapse_far_differ hv hf hd res hr (c := 3) (j := 2) (by omega) (by omega) (by omega) hclosed
      · intro k hk hk2 d hd'
        have hk0 : k = 0 := by omega
        subst hk0
        have rd := hr d hd'
        exact (hf 0 3 d (by omega) (by omega) rd.1 rd.2).symm
      · intro k hk hk2 d hd'
        have hk0 : k = 0 := by omega
        subst hk0
        have rd := hr d hd'
        exact hd 0 3 d (by omega) (by omega) rd.1 rd.2

/-- what `merge_facets` does: `collapse` with connector 2 on exactly the chambers whose (2,3)-orbit
    has length 2 -/
theorem mergeFacets_junk {ds s : DSetData} (hv : ValidSet ds) (hdim : ds.dim = 3) (hf : FarCommute ds)
    (h : mergeFacets (.dset ds) = .ok (some (.dset s))) :
    ∃ junk num, CollapseRes ds junk 2 s num ∧ (∀ d, d ∈ junk ↔ Edge2 ds d) := by
  unfold mergeFacets at h
  simp only at h
  cases hsel : filterR2 ds 2 3 (ds.viewPartial.orbitReps [2, 3] (seedsExcl ds)) with
  | err => rw [hsel] at h; cases h
  | panic => rw [hsel] at h; cases h
  | ok sel =>
  rw [hsel] at h
  simp only at h
  have hselm := filterR2_ok hsel
  have hreps := DSymVerif.C02.orbitReps_one_per_component ds.viewPartial hv.toPartial.pinvol [2, 3] (seedsExcl ds)
  have pinv := hv.toPartial.pinvol
  -- members of the selection are chambers with an orbit of length 2
  have hselE : ∀ d ∈ sel, Edge2 ds d := by
    intro d hd
    obtain ⟨hdr, hr2⟩ := (hselm d).1 hd
    have rd := mem_seedsExcl (hreps.1 d hdr)
    exact ⟨rd, (r_eq_two hv (by omega) (by omega) rd.1 rd.2).1 hr2⟩
  have hmem : ∀ x, x ∈ sel.flatMap (fun d => ds.viewPartial.orbit [2, 3] d) ↔
      ∃ d ∈ sel, ds.viewPartial.Reach [2, 3] d x := by
    intro x
    simp only [List.mem_flatMap]
    constructor
    · rintro ⟨d, hd, hx⟩; exact ⟨d, hd, (mem_orbit hv).1 hx⟩
    · rintro ⟨d, hd, hx⟩; exact ⟨d, hd, (mem_orbit hv).2 hx⟩
  have hjE : ∀ x ∈ sel.flatMap (fun d => ds.viewPartial.orbit [2, 3] d), Edge2 ds x := by
    intro x hx
    obtain ⟨d, hd, hr⟩ := (hmem x).1 hx
    exact (hselE d hd).reach hv hdim hr
  -- every chamber with an orbit of length 2 is in the junk list
  have hall : ∀ y, Edge2 ds y → y ∈ sel.flatMap (fun d => ds.viewPartial.orbit [2, 3] d) := by
    intro y hy
    -- a seed in the orbit of y: y itself or s3 s2 y
    obtain ⟨z, hz, hyz⟩ : ∃ z, z ∈ seedsExcl ds ∧ ds.viewPartial.Reach [2, 3] y z := by
      by_cases hlt : y < ds.size
      · exact ⟨y, mem_seedsExcl_iff.2 ⟨hy.1.1, hlt⟩, View.Reach.refl y⟩
      · have r2 := hv.range 2 y (by omega) hy.1.1 hy.1.2
        have r32 := hv.range 3 _ (by omega) r2.1 r2.2
        refine ⟨ds.opU 3 (ds.opU 2 y), mem_seedsExcl_iff.2 ⟨r32.1, ?_⟩, ?_⟩
        · have h1 := hy.2.1; have h2 := hy.1.2; have h3 := r32.2; omega
        · exact View.Reach.step (View.Reach.step (View.Reach.refl y) (by simp)
            (viewPartial_op hv (by omega) hy.1.1 hy.1.2)) (by simp) (viewPartial_op hv (by omega) r2.1 r2.2)
    obtain ⟨rp, hrp, hrz⟩ := hreps.2.1 z hz
    have hry : ds.viewPartial.Reach [2, 3] rp y := hrz.trans (View.Reach.symm pinv hyz)
    have hEr : Edge2 ds rp := hy.reach hv hdim (View.Reach.symm pinv hry)
    have hsel' : rp ∈ sel := (hselm rp).2 ⟨hrp, (r_eq_two hv (by omega) (by omega) hEr.1.1 hEr.1.2).2 hEr.2⟩
    exact (hmem y).2 ⟨rp, hsel', hry⟩
  have hr : ∀ d ∈ sel.flatMap (fun d => ds.viewPartial.orbit [2, 3] d), 1 ≤ d ∧ d ≤ ds.size :=
    fun d hd => (hjE d hd).1
  have hcl2 : ∀ d ∈ sel.flatMap (fun d => ds.viewPartial.orbit [2, 3] d),
      ds.opU 2 d ∈ sel.flatMap (fun d => ds.viewPartial.orbit [2, 3] d) :=
    fun d hd => hall _ ((hjE d hd).s2 hv hdim)
  obtain ⟨num, res⟩ := collapse_ok_res hv (by omega) (by omega) hr hcl2 h
  exact ⟨_, num, res, fun d => ⟨hjE d, hall d⟩⟩

theorem mergeFacets_manifold {ds s : DSetData} (hm : Manifold3 ds)
    (h : mergeFacets (.dset ds) = .ok (some (.dset s))) : Manifold3 s := by
  have hax' := mergeFacets_preserves hm.1.1 hm.1.2.1 hm.1.2.2 h
  obtain ⟨⟨hv, hdim, hf⟩, hl, hd⟩ := hm
  obtain ⟨junk, num, res, hj⟩ := mergeFacets_junk hv hdim hf h
  have hr : ∀ d ∈ junk, 1 ≤ d ∧ d ≤ ds.size := fun d hd' => ((hj d).1 hd').1
  have hclosed : ∀ i, i ≤ ds.dim → i ≠ 1 → ∀ d ∈ junk, ds.opU i d ∈ junk := by
    intro i hi hi1 d hd'
    have hE := (hj d).1 hd'
    have : i = 0 ∨ i = 2 ∨ i = 3 := by omega
    rcases this with rfl | rfl | rfl
    · exact (hj _).2 (hE.s0 hv hdim hf)
    · exact (hj _).2 (hE.s2 hv hdim)
    · exact (hj _).2 (hE.s3 hv hdim)
  refine ⟨hax', collapse_loopless hv hl res (by omega), ?_⟩
  apply collapse_far_differ hv hf hd res hr (c := 2) (j := 1) (by omega) (by omega) (by omega) hclosed
  · intro k hk hk1 d hd'
    have hk3 : k = 3 := by omega
    subst hk3
    exact ((hj d).1 hd').comm hv hdim
  · intro k hk hk1 d hd'
    have hk3 : k = 3 := by omega
    subst hk3
    have hE := (hj d).1 hd'
    intro he
    -- s3 d = s2 d ⇒ s3 s2 d = s3 s3 d = d
    apply hE.2.1
    rw [← he, hv.invol 3 d (by omega) hE.1.1 hE.1.2]


theorem dual_manifold {ds s : DSetData} (hm : Manifold3 ds) (h : dual (.dset ds) = .ok (some (.dset s))) :
    Manifold3 s := by
  have hax' := dual_axioms hm.1 h
  obtain ⟨⟨hv, hdim, hf⟩, hl, hd⟩ := hm
  have hsz : 1 ≤ ds.size := by
    unfold dual ofBuild at h
    simp only at h
    cases hb : buildSet ds.size ds.dim (fun i d => ds.opPartial (ds.dim - i) d) with
    | ok s' => exact (buildSet_ok_inv hb).1
    | err => rw [hb] at h; cases h
    | panic => rw [hb] at h; cases h
  obtain ⟨_, h1, h2, _, hop⟩ := dual_preserves hv (by omega) hsz hf h
  refine ⟨hax', ?_, ?_⟩
  · intro i v hi hv1 hv2
    rw [h2] at hi; rw [h1] at hv2
    rw [hop i v hi hv1 hv2]; exact hl _ v (by omega) hv1 hv2
  · intro a b v hab hb hv1 hv2
    rw [h2] at hb; rw [h1] at hv2
    rw [hop a v (by omega) hv1 hv2, hop b v hb hv1 hv2]
    exact fun e => hd (ds.dim - b) (ds.dim - a) v (by omega) (by omega) hv1 hv2 e.symm

theorem cornerGlue_manifold3 {ds s : DSetData} (hm : Manifold3 ds)
    {d e : Nat} (hd1 : 1 ≤ d) (hd2 : d ≤ ds.size) (he1 : 1 ≤ e) (he2 : e ≤ ds.size)
    (hnd : [d, ds.opU 1 e, e, ds.opU 1 d, ds.opU 3 d, ds.opU 1 (ds.opU 3 e), ds.opU 3 e, ds.opU 1 (ds.opU 3 d)].Nodup)
    (h : reglue ds [(d, ds.opU 1 e), (e, ds.opU 1 d), (ds.opU 3 d, ds.opU 1 (ds.opU 3 e)),
      (ds.opU 3 e, ds.opU 1 (ds.opU 3 d))] 1 = .ok (some s)) :
    Manifold3 s ∧ s.size = ds.size := by
  obtain ⟨⟨hv, hdim, hf⟩, hl, hd⟩ := hm
  obtain ⟨a, b, c, f⟩ := cornerGlue_far_commute hv hdim hf hd1 hd2 he1 he2 hnd h
  obtain ⟨l', d'⟩ := cornerGlue_manifold hv hdim hl hd hf hd1 hd2 he1 he2 hnd h
  exact ⟨⟨⟨a, by rw [c, hdim], f⟩, l', d'⟩, b⟩

theorem fixLocal1Body_manifold {ds s : DSetData} (hm : Manifold3 ds) {c : Nat} (hc1 : 1 ≤ c) (hc2 : c ≤ ds.size)
    (hnd : [ds.opU 0 (ds.opU 1 c), ds.opU 1 (ds.opU 1 (ds.opU 0 c)), ds.opU 1 (ds.opU 0 c),
      ds.opU 1 (ds.opU 0 (ds.opU 1 c)), ds.opU 3 (ds.opU 0 (ds.opU 1 c)),
      ds.opU 1 (ds.opU 3 (ds.opU 1 (ds.opU 0 c))), ds.opU 3 (ds.opU 1 (ds.opU 0 c)),
      ds.opU 1 (ds.opU 3 (ds.opU 0 (ds.opU 1 c)))].Nodup)
    (h : fixLocal1Body ds c = .ok (some (.dset s))) : Manifold3 s := by
  unfold fixLocal1Body at h
  obtain ⟨c1, hc1', k1⟩ := bind_ok h
  obtain ⟨d, hd', k2⟩ := bind_ok k1
  obtain ⟨c0, hc0', k3⟩ := bind_ok k2
  obtain ⟨e, he', k4⟩ := bind_ok k3
  obtain ⟨f, hf', k5⟩ := bind_ok k4
  obtain ⟨g, hg', k6⟩ := bind_ok k5
  obtain ⟨d1, hd1', k7⟩ := bind_ok k6
  obtain ⟨e1, he1', k8⟩ := bind_ok k7
  obtain ⟨f1, hf1', k9⟩ := bind_ok k8
  obtain ⟨g1, hg1', k10⟩ := bind_ok k9
  obtain ⟨tmp, htmp, k11⟩ := bind_ok k10
  clear h k1 k2 k3 k4 k5 k6 k7 k8 k9 k10
  have v1 := (opx_ok hc1').2.2.2.1
  have v3 := (opx_ok hc0').2.2.2.1
  subst v1 v3
  have v2 := (opx_ok hd').2.2.2.1
  have v4 := (opx_ok he').2.2.2.1
  subst v2 v4
  have v5 := (opx_ok hf').2.2.2.1
  have v6 := (opx_ok hg').2.2.2.1
  have v7 := (opx_ok hd1').2.2.2.1
  have v8 := (opx_ok he1').2.2.2.1
  subst v5 v6 v7 v8
  have v9 := (opx_ok hf1').2.2.2.1
  have v10 := (opx_ok hg1').2.2.2.1
  subst v9 v10
  have rd := (opx_ok hd1')
  have re := (opx_ok he1')
  obtain ⟨tm, ts⟩ := cornerGlue_manifold3 hm rd.2.1 rd.2.2.1 re.2.1 re.2.2.1 hnd (reglueU_ok htmp)
  exact collapse_face_orbit_manifold tm hc1 (by rw [ts]; exact hc2) k11

theorem fixLocal1Vertex_manifold {ds s : DSetData} (hm : Manifold3 ds)
    (hnd : ∀ c, 1 ≤ c → c ≤ ds.size → fixLocal1Body ds c = .ok (some (.dset s)) →
      [ds.opU 0 (ds.opU 1 c), ds.opU 1 (ds.opU 1 (ds.opU 0 c)), ds.opU 1 (ds.opU 0 c),
        ds.opU 1 (ds.opU 0 (ds.opU 1 c)), ds.opU 3 (ds.opU 0 (ds.opU 1 c)),
        ds.opU 1 (ds.opU 3 (ds.opU 1 (ds.opU 0 c))), ds.opU 3 (ds.opU 1 (ds.opU 0 c)),
        ds.opU 1 (ds.opU 3 (ds.opU 0 (ds.opU 1 c)))].Nodup)
    (h : fixLocal1Vertex (.dset ds) = .ok (some (.dset s))) : Manifold3 s := by
  obtain ⟨c, hc1, hc2, hb⟩ := fixLocal1Vertex_some hm.1.1 h
  exact fixLocal1Body_manifold hm hc1 hc2 (hnd c hc1 hc2 hb) hb

theorem fixNonDiskFace_manifold {ds s : DSetData} (hm : Manifold3 ds)
    (hnd : ∀ d e, 1 ≤ d → d ≤ ds.size → 1 ≤ e → e ≤ ds.size → nonDiskGlue ds d e = .ok (some (.dset s)) →
      [d, ds.opU 1 e, e, ds.opU 1 d, ds.opU 3 d, ds.opU 1 (ds.opU 3 e), ds.opU 3 e, ds.opU 1 (ds.opU 3 d)].Nodup)
    (h : fixNonDiskFace (.dset ds) = .ok (some (.dset s))) : Manifold3 s := by
  obtain ⟨d, e, rd, re, hg⟩ := fixNonDiskFace_some hm.1.1 hm.1.2.1 h
  have hnd' := hnd d e rd.1 rd.2 re.1 re.2 hg
  unfold nonDiskGlue at hg
  obtain ⟨f, hf', k1⟩ := bind_ok hg
  obtain ⟨g, hg', k2⟩ := bind_ok k1
  obtain ⟨d1, hd1', k3⟩ := bind_ok k2
  obtain ⟨e1, he1', k4⟩ := bind_ok k3
  obtain ⟨f1, hf1', k5⟩ := bind_ok k4
  obtain ⟨g1, hg1', k6⟩ := bind_ok k5
  obtain ⟨out, hout, k7⟩ := bind_ok k6
  clear hg k1 k2 k3 k4 k5 k6
  have vf := (opx_ok hf').2.2.2.1
  have vg := (opx_ok hg').2.2.2.1
  have vd1 := (opx_ok hd1').2.2.2.1
  have ve1 := (opx_ok he1').2.2.2.1
  subst vf vg vd1 ve1
  have vf1 := (opx_ok hf1').2.2.2.1
  have vg1 := (opx_ok hg1').2.2.2.1
  subst vf1 vg1
  have : out = s := by
    have h' : (Outcome.ok (some (DOE.dset out)) : Step) = .ok (some (.dset s)) := k7
    cases h'; rfl
  subst this
  exact (cornerGlue_manifold3 hm rd.1 rd.2 re.1 re.2 hnd' (reglueU_ok hout)).1


theorem asDSet_manifold {ds0 ds : DSetData} (hm : Manifold3 ds0) (h : asDSet ds0 = .ok ds) :
    Manifold3 ds ∧ ds.size = ds0.size := by
  obtain ⟨⟨hv, hdim, hf⟩, hl, hd⟩ := hm
  obtain ⟨a, b, c, hval, f⟩ := asDSet_ok hv h
  refine ⟨⟨⟨a, by rw [c, hdim], f hf⟩, ?_, ?_⟩, b⟩
  · intro i v hi hv1 hv2
    rw [c] at hi; rw [b] at hv2
    rw [hval i v hi hv1 hv2]; exact hl i v hi hv1 hv2
  · intro x y v hxy hy hv1 hv2
    rw [c] at hy; rw [b] at hv2
    rw [hval x v (by omega) hv1 hv2, hval y v hy hv1 hv2]; exact hd x y v hxy hy hv1 hv2

theorem cutIfLong_manifold {ds ds' : DSetData} {x : Nat} (hm : Manifold3 ds)
    (hx1 : 1 ≤ x) (hx2 : x ≤ ds.size) (h : cutIfLong ds x = .ok ds') :
    Manifold3 ds' ∧ ds.size ≤ ds'.size := by
  obtain ⟨⟨hv, hdim, hf⟩, hl, hd⟩ := hm
  unfold cutIfLong at h
  obtain ⟨k, hk, k1⟩ := bind_ok h
  split at k1
  · obtain ⟨a, ha, k2⟩ := bind_ok k1
    obtain ⟨x1, hx1', k3⟩ := bind_ok k2
    obtain ⟨b, hb, k4⟩ := bind_ok k3
    have ra := opx_ok ha
    have rx1 := opx_ok hx1'
    have rb := opx_ok hb
    have r0 := hv.range 0 x (by omega) hx1 hx2
    have r1 := hv.range 1 x (by omega) hx1 hx2
    have va : a = ds.opU 0 x := ra.2.2.2.1.symm
    have vx1 : x1 = ds.opU 1 x := rx1.2.2.2.1.symm
    subst va vx1
    have r01 := hv.range 0 _ (by omega) r1.1 r1.2
    have vb : b = ds.opU 0 (ds.opU 1 x) := rb.2.2.2.1.symm
    subst vb
    obtain ⟨v', s', d', _, _, f', l', g', _⟩ := cutFace_commutes hv hdim r0.1 r0.2 r01.1 r01.2 k4
    exact ⟨⟨⟨v', d', f' hf⟩, l' hl, g' hd⟩, by omega⟩
  · have : ds = ds' := by
      have k1' : (Outcome.ok ds : Outcome DSetData) = .ok ds' := k1
      cases k1'; rfl
    subst this
    exact ⟨⟨⟨hv, hdim, hf⟩, hl, hd⟩, Nat.le_refl _⟩

theorem fixLocal2Body_manifold {ds0 s : DSetData} (hm : Manifold3 ds0) {d : Nat} (hd1 : 1 ≤ d) (hd2 : d ≤ ds0.size)
    (hnd : ∀ ds a b, fix2Pre ds0 d = .ok (ds, a, b) →
      [ds.opU 0 b, a, ds.opU 0 a, b, ds.opU 2 (ds.opU 0 b), ds.opU 2 a, ds.opU 2 (ds.opU 0 a), ds.opU 2 b].Nodup)
    (h : fixLocal2Body ds0 d = .ok (some (.dset s))) : Manifold3 s := by
  unfold fixLocal2Body at h
  obtain ⟨dsA, hA, k1⟩ := bind_ok h
  obtain ⟨d1, hd1', k2⟩ := bind_ok k1
  obtain ⟨e, he', k3⟩ := bind_ok k2
  obtain ⟨dsB, hB, k4⟩ := bind_ok k3
  obtain ⟨dsC, hC, k5⟩ := bind_ok k4
  obtain ⟨d0, hd0', k6⟩ := bind_ok k5
  obtain ⟨a, ha', k7⟩ := bind_ok k6
  obtain ⟨e0, he0', k8⟩ := bind_ok k7
  obtain ⟨b, hb', k9⟩ := bind_ok k8
  obtain ⟨dsD, hD, k10⟩ := bind_ok k9
  clear h k1 k2 k3 k4 k5 k6 k7 k8 k9
  have hpre : fix2Pre ds0 d = .ok (dsC, a, b) := by
    unfold fix2Pre
    simp only [hA, hd1', he', hB, hC, hd0', ha', he0', hb', bind, Outcome.bind, pure]
  obtain ⟨mA, sA⟩ := asDSet_manifold hm hA
  have re := opx_ok he'
  have e1 : 1 ≤ e ∧ e ≤ dsA.size := by
    have := mA.1.1.range 2 d1 (by rw [mA.1.2.1]; omega) re.2.1 re.2.2.1
    rw [re.2.2.2.1] at this; exact this
  obtain ⟨mB, lB⟩ := cutIfLong_manifold mA hd1 (by omega) hB
  obtain ⟨mC, lC⟩ := cutIfLong_manifold mB e1.1 (by omega) hC
  have ra := opx_ok ha'
  have rb := opx_ok hb'
  have ar : 1 ≤ a ∧ a ≤ dsC.size := by
    have := mC.1.1.range 1 d0 (by rw [mC.1.2.1]; omega) ra.2.1 ra.2.2.1
    rw [ra.2.2.2.1] at this; exact this
  have br : 1 ≤ b ∧ b ≤ dsC.size := by
    have := mC.1.1.range 1 e0 (by rw [mC.1.2.1]; omega) rb.2.1 rb.2.2.1
    rw [rb.2.2.2.1] at this; exact this
  have hndC := hnd dsC a b hpre
  obtain ⟨vD, sD, dD, fD⟩ := squeeze_far_commute mC.1.1 mC.1.2.1 mC.1.2.2 ar.1 ar.2 br.1 br.2 hndC hD
  obtain ⟨lD, gD⟩ := squeeze_manifold mC.1.1 mC.1.2.1 mC.2.1 mC.2.2 mC.1.2.2 ar.1 ar.2 br.1 br.2 hndC hD
  exact collapse_face_orbit_manifold ⟨⟨vD, by rw [dD, mC.1.2.1], fD⟩, lD, gD⟩ hd1 (by omega) k10

theorem fixLocal2Vertex_manifold {ds s : DSetData} (hm : Manifold3 ds)
    (hnd : ∀ d ds' a b, 1 ≤ d → d ≤ ds.size → fix2Pre ds d = .ok (ds', a, b) →
      [ds'.opU 0 b, a, ds'.opU 0 a, b, ds'.opU 2 (ds'.opU 0 b), ds'.opU 2 a, ds'.opU 2 (ds'.opU 0 a),
        ds'.opU 2 b].Nodup)
    (h : fixLocal2Vertex (.dset ds) = .ok (some (.dset s))) : Manifold3 s := by
  unfold fixLocal2Vertex at h
  obtain ⟨d, hd, hb⟩ := fixLocal2Loop_some h
  have rd := mem_seedsExcl (orbitReps_mem_seeds hm.1.1 hd)
  exact fixLocal2Body_manifold hm rd.1 rd.2 (fun ds' a b hp => hnd d ds' a b rd.1 rd.2 hp) hb

/-- state of the `merge_all` loop for the manifold clauses -/
def AccM (acc : Outcome DOE) : Prop :=
  match acc with
  | .ok (.dset ds) => Manifold3 ds
  | _ => True

theorem applyIf_accM {op : DOE → Step} (hop : ∀ ds s, Manifold3 ds → op (.dset ds) = .ok (some (.dset s)) → Manifold3 s)
    {acc : Outcome DOE} (h : AccM acc) (hempty : op .empty = .ok none) : AccM (applyIf op acc) := by
  unfold applyIf
  cases acc with
  | err => trivial
  | panic => trivial
  | ok x =>
    cases x with
    | empty => simp only [hempty]; trivial
    | dset ds =>
      simp only
      cases hr : op (.dset ds) with
      | err => trivial
      | panic => trivial
      | ok o =>
        cases o with
        | none => exact h
        | some y =>
          cases y with
          | empty => trivial
          | dset s => exact hop ds s h hr

theorem mergeAll_manifold (hw : InnerWallsAreFaces) {ds s : DSetData} (hm : Manifold3 ds)
    (h : mergeAll (.dset ds) = .ok (some (.dset s))) : Manifold3 s := by
  have hT : ∀ ds s, Manifold3 ds → mergeTiles (.dset ds) = .ok (some (.dset s)) → Manifold3 s :=
    fun ds s a b => mergeTiles_manifold a (hw ds a.1) b
  have hF : ∀ ds s, Manifold3 ds → mergeFacets (.dset ds) = .ok (some (.dset s)) → Manifold3 s :=
    fun ds s a b => mergeFacets_manifold a b
  have hD : ∀ ds s, Manifold3 ds → dual (.dset ds) = .ok (some (.dset s)) → Manifold3 s :=
    fun ds s a b => dual_manifold a b
  have a0 : AccM (.ok (.dset ds)) := hm
  have a1 := applyIf_accM hT a0 rfl
  have a2 := applyIf_accM hF a1 rfl
  have a3 := applyIf_accM hD a2 rfl
  have a4 := applyIf_accM hT a3 rfl
  have a5 := applyIf_accM hF a4 rfl
  have a6 := applyIf_accM hD a5 rfl
  unfold mergeAll at h
  simp only [List.foldl] at h
  generalize applyIf dual (applyIf mergeFacets (applyIf mergeTiles (applyIf dual (applyIf mergeFacets
    (applyIf mergeTiles (Outcome.ok (DOE.dset ds))))))) = fin at a6 h
  cases fin with
  | err => cases h
  | panic => cases h
  | ok x =>
    simp only [Outcome.ok.injEq, Option.some.injEq] at h
    subst h
    exact a6


/-! ### Boolean forms for the examples -/

def manifold3B (s : DSetData) : Bool :=
  validSetB s && s.dim == 3 && farCommuteB s &&
  ((List.range (s.dim + 1)).all fun i => (List.range s.size).all fun d0 => s.opU i (d0 + 1) != d0 + 1) &&
  ((List.range (s.dim + 1)).all fun i => (List.range (s.dim + 1)).all fun j => (List.range s.size).all fun d0 =>
    !(i + 1 < j) || s.opU i (d0 + 1) != s.opU j (d0 + 1))

theorem manifold3B_sound {s : DSetData} (h : manifold3B s = true) : Manifold3 s := by
  unfold manifold3B at h
  simp only [Bool.and_eq_true, beq_iff_eq, List.all_eq_true, List.mem_range, bne_iff_ne, ne_eq, Bool.or_eq_true,
    Bool.not_eq_true', decide_eq_false_iff_not] at h
  obtain ⟨⟨⟨⟨h1, h2⟩, h3⟩, h4⟩, h5⟩ := h
  refine ⟨axioms3_of_bool h1 h2 h3, ?_, ?_⟩
  · intro i d hi hd1 hd2
    have := h4 i (by omega) (d - 1) (by omega)
    rwa [show d - 1 + 1 = d by omega] at this
  · intro i j d hij hj hd1 hd2
    have := h5 i (by omega) j (by omega) (d - 1) (by omega)
    rw [show d - 1 + 1 = d by omega] at this
    rcases this with h | h
    · exact absurd hij h
    · exact h

/-- a state of the real pipeline on which `merge_facets` removes an edge -/
def exFacets20 : DSetData :=
  { size := 20, dim := 3,
    op := #[2, 20, 4, 5,
      1, 19, 7, 8,
      9, 16, 10, 7,
      7, 10, 1, 9,
      8, 17, 6, 1,
      11, 15, 5, 12,
      4, 13, 2, 3,
      5, 18, 11, 2,
      3, 11, 12, 4,
      12, 4, 3, 11,
      6, 9, 8, 10,
      10, 14, 9, 6,
      14, 7, 17, 16,
      13, 12, 18, 15,
      16, 6, 19, 14,
      15, 3, 20, 13,
      18, 5, 13, 20,
      17, 8, 14, 19,
      20, 2, 15, 18,
      19, 1, 16, 17] }

end DSymVerif.Simp
