/-
Property C15, phase 2: invariants of the loops of `construct_candidates` and of the selection
loops of `pseudo_toroidal_cover` — every candidate table is a valid table of the group.
-/
import DSymVerif.Proofs.Delaney3dTables
import DSymVerif.Proofs.FundGroupLetters
import DSymVerif.Proofs.LowIndexFuel

namespace DSymVerif.D3
open DSymVerif DSymVerif.Cosets DSymVerif.SpecC11 DSymVerif.SpecC13 DSymVerif.CosetP DSymVerif.StabP

/-- what the theorems assume of the presentation handed to `construct_candidates`
    (`n = gen_to_edge.len()` generators) -/
structure GroupOK (fg : FG.FundGroup) : Prop where
  /-- relators are words over the letters `±1..±n` -/
  letters : ∀ w ∈ fg.relators, ∀ x ∈ w, x ∈ allGensOf fg.genToEdge.length
  /-- cone words are words over the letters -/
  cones : ∀ c ∈ fg.cones, ∀ x ∈ c.1, x ∈ allGensOf fg.genToEdge.length
  /-- the node budget of the model of `coset_tables` exhausts the search tree -/
  fuel : (BT.dfs (btProblem fg.genToEdge.length (expandedRelatorSet fg.relators) Tables.candidateIndexBound)
      (LowIndexP.height Tables.candidateIndexBound) (.ok (Table.new fg.genToEdge.length))).length ≤ nodeFuel fg.genToEdge.length Tables.candidateIndexBound


/-- the only assumption left for a presentation returned by `fundamental_group`: the node budget
    of the model of `coset_tables` (the Rust iterator has none) exhausts the search tree — the
    hypothesis of C12's theorems -/
def FuelOK (fg : FG.FundGroup) : Prop :=
  (BT.dfs (btProblem fg.genToEdge.length (expandedRelatorSet fg.relators) Tables.candidateIndexBound)
      (LowIndexP.height Tables.candidateIndexBound) (.ok (Table.new fg.genToEdge.length))).length ≤ nodeFuel fg.genToEdge.length Tables.candidateIndexBound

/-- the budget `nodeFuel = searchFuel` of the model always suffices (C12 `cosetTables_fuel_adequate`) -/
theorem fuelOK (fg : FG.FundGroup) : FuelOK fg :=
  CanonP.cosetTables_fuel_adequate fg.genToEdge.length fg.relators Tables.candidateIndexBound

/-- relators and cone words of a value returned by the model of `fundamental_group` are words
    over its generators (C09 `fundamentalGroup_letters`) -/
theorem groupOK_of_fundamentalGroup {ds : DS.DSymData} {fg : FG.FundGroup}
    (h : FG.fundamentalGroup ds = .ok fg) (hf : FuelOK fg) : GroupOK fg :=
  ⟨(FGP.fundamentalGroup_letters ds fg h).1, (FGP.fundamentalGroup_letters ds fg h).2.1, hf⟩

/-- every table of every list satisfies `P` -/
def AllCands (P : Tab → Prop) (c : Candidates) : Prop := ∀ e ∈ c, ∀ t ∈ e.2, P t

theorem candPush_all {P : Tab → Prop} {c c' : Candidates} {name : String} {t : Tab}
    (h : candPush c name t = .ok c') (hc : AllCands P c) (ht : P t) : AllCands P c' := by
  unfold candPush at h
  split at h
  · cases h
    intro e he t' ht'
    obtain ⟨e0, he0, rfl⟩ := List.mem_map.mp he
    split at ht'
    · rcases List.mem_append.mp ht' with h1 | h1
      · exact hc e0 he0 t' h1
      · simp only [List.mem_singleton] at h1
        rw [h1]; exact ht
    · exact hc e0 he0 t' ht'
  · cases h

theorem candPush_names {c c' : Candidates} {name : String} {t : Tab}
    (h : candPush c name t = .ok c') : c'.map (·.1) = c.map (·.1) := by
  unfold candPush at h
  split at h
  · cases h
    rw [List.map_map]
    apply List.map_congr_left
    intro e _
    simp only [Function.comp]
    split <;> rfl
  · cases h

/-- the core tables: each is the core of a valid table with at most `k` rows -/
def IsCoreOf (n : Nat) (rels : List (List Int)) (k : Nat) (c : Tab) : Prop :=
  ∃ t : Tab, validTable t n rels [] = true ∧ t.size ≤ max k 1 ∧ coreTab n t = .ok c

theorem coreTables_spec {n : Nat} {rels : List (List Int)} {k : Nat} :
    ∀ (l : List (Outcome Table)) (cts : List Tab),
      (∀ x ∈ l, ∀ t', x = .ok t' → ∃ tab, tabOf t' = .ok tab ∧ validTable tab n rels [] = true ∧ tab.size ≤ max k 1) →
      coreTables n l = .ok cts → ∀ c ∈ cts, IsCoreOf n rels k c
  | [], cts, _, h => by
    simp only [coreTables] at h
    cases h
    intro c hc; cases hc
  | .ok t :: rest, cts, hl, h => by
    obtain ⟨tab, h1, h2, h3⟩ := hl (.ok t) (by simp) t rfl
    simp only [coreTables, h1] at h
    split at h
    · rename_i c hc
      split at h
      · rename_i cs hcs
        cases h
        intro c' hc'
        rcases List.mem_cons.mp hc' with rfl | hm
        · exact ⟨tab, h2, h3, hc⟩
        · exact coreTables_spec rest cs (fun x hx => hl x (List.mem_cons_of_mem _ hx)) hcs c' hm
      · cases h
      · cases h
    · cases h
    · cases h
  | .err :: _, _, _, h => by simp [coreTables] at h
  | .panic :: _, _, _, h => by simp [coreTables] at h

theorem isCoreOf_valid {n : Nat} {rels : List (List Int)} {k : Nat} {c : Tab}
    (hlet : ∀ w ∈ rels, ∀ x ∈ w, x ∈ allGensOf n) (h : IsCoreOf n rels k c) :
    validTable c n rels [] = true := by
  obtain ⟨t, hv, _, hc⟩ := h
  obtain ⟨c', hc', hv', _, _⟩ := coreTab_valid hlet hv
  rw [hc] at hc'
  cases hc'
  exact hv'

section Loops
variable {n : Nat} {rels : List (List Int)} (hlet : ∀ w ∈ rels, ∀ x ∈ w, x ∈ allGensOf n)
include hlet

theorem firstLoop_all {cones : List (List Int × Nat)} :
    ∀ (ts : List Tab) (c c' : Candidates), (∀ t ∈ ts, validTable t n rels [] = true) →
      AllCands (fun t => validTable t n rels [] = true) c →
      firstLoop n cones ts c = .ok c' → AllCands (fun t => validTable t n rels [] = true) c'
  | [], c, c', _, hc, h => by simp only [firstLoop] at h; cases h; exact hc
  | t :: rest, c, c', hts, hc, h => by
    have hrest : ∀ t' ∈ rest, validTable t' n rels [] = true := fun t' ht' => hts t' (List.mem_cons_of_mem _ ht')
    unfold firstLoop at h
    split at h
    · split at h
      · split at h
        · rename_i c1 hc1
          exact firstLoop_all rest c1 c' hrest (candPush_all hc1 hc (hts t (List.mem_cons_self ..))) h
        · cases h
        · cases h
      · cases h
      · cases h
    · exact firstLoop_all rest c c' hrest hc h
    · cases h
    · cases h

theorem pairStep_all {cones cones2 : List (List Int × Nat)} {ta tb : Tab} {c c' : Candidates}
    (hta : validTable ta n rels [] = true) (htb : validTable tb n rels [] = true)
    (hc : AllCands (fun t => validTable t n rels [] = true) c)
    (h : pairStep n cones cones2 ta tb c = .ok c') :
    AllCands (fun t => validTable t n rels [] = true) c' := by
  obtain ⟨tx, htx, hvx, _⟩ := interTab_valid hlet hta htb
  unfold pairStep at h
  rw [htx] at h
  simp only at h
  split at h
  · split at h
    · split at h
      · exact candPush_all h hc hvx
      · cases h; exact hc
      · cases h
      · cases h
    · split at h
      · split at h
        · cases h; exact hc
        · exact candPush_all h hc hvx
        · cases h
        · cases h
      · cases h; exact hc
  · cases h; exact hc
  · cases h
  · cases h

theorem innerLoop_all {cones cones2 : List (List Int × Nat)} {ta : Tab}
    (hta : validTable ta n rels [] = true) :
    ∀ (tbs : List Tab) (c c' : Candidates), (∀ t ∈ tbs, validTable t n rels [] = true) →
      AllCands (fun t => validTable t n rels [] = true) c →
      innerLoop n cones cones2 ta tbs c = .ok c' → AllCands (fun t => validTable t n rels [] = true) c'
  | [], c, c', _, hc, h => by simp only [innerLoop] at h; cases h; exact hc
  | tb :: rest, c, c', hts, hc, h => by
    have hrest : ∀ t' ∈ rest, validTable t' n rels [] = true := fun t' ht' => hts t' (List.mem_cons_of_mem _ ht')
    unfold innerLoop at h
    split at h
    · split at h
      · rename_i c1 hc1
        exact innerLoop_all hta rest c1 c' hrest
          (pairStep_all hlet hta (hts tb (List.mem_cons_self ..)) hc hc1) h
      · cases h
      · cases h
    · exact innerLoop_all hta rest c c' hrest hc h

theorem secondLoop_all {cones cones2 cones3 : List (List Int × Nat)} {all : List Tab}
    (hall : ∀ t ∈ all, validTable t n rels [] = true) :
    ∀ (tas : List Tab) (c c' : Candidates), (∀ t ∈ tas, validTable t n rels [] = true) →
      AllCands (fun t => validTable t n rels [] = true) c →
      secondLoop n cones cones2 cones3 all tas c = .ok c' →
      AllCands (fun t => validTable t n rels [] = true) c'
  | [], c, c', _, hc, h => by simp only [secondLoop] at h; cases h; exact hc
  | ta :: rest, c, c', hts, hc, h => by
    have hrest : ∀ t' ∈ rest, validTable t' n rels [] = true := fun t' ht' => hts t' (List.mem_cons_of_mem _ ht')
    unfold secondLoop at h
    split at h
    · split at h
      · rename_i c1 hc1
        exact secondLoop_all hall rest c1 c' hrest
          (innerLoop_all hlet (hts ta (List.mem_cons_self ..)) all c c1 hall hc hc1) h
      · cases h
      · cases h
    · exact secondLoop_all hall rest c c' hrest hc h
    · cases h
    · cases h

end Loops

/-- **every candidate is a valid table.**  Under `GroupOK`, every table `construct_candidates`
    files under any point-group name passes `validTable relators []`: complete, inverse-consistent,
    every relator closes at every row, transitive — a transitive permutation representation of
    the presented group (C11 `validTable_action`). -/
theorem constructCandidates_valid (fg : FG.FundGroup) (hg : GroupOK fg) (cands : Candidates)
    (h : constructCandidates fg = .ok cands) :
    AllCands (fun t => validTable t fg.genToEdge.length fg.relators [] = true) cands := by
  unfold constructCandidates at h
  simp only at h
  split at h
  · rename_i cts hcts
    have hcore := coreTables_spec _ cts
      (lowIndex_valid fg.genToEdge.length fg.relators Tables.candidateIndexBound (nodeFuel fg.genToEdge.length Tables.candidateIndexBound) hg.letters hg.fuel) hcts
    have hvalid : ∀ t ∈ cts, validTable t fg.genToEdge.length fg.relators [] = true :=
      fun t ht => isCoreOf_valid hg.letters (hcore t ht)
    split at h
    · rename_i c1 hc1
      have h1 := firstLoop_all hg.letters cts _ c1 hvalid
        (fun e he t ht => by
          obtain ⟨p, _, rfl⟩ := List.mem_map.mp he
          cases ht) hc1
      exact secondLoop_all hg.letters hvalid cts c1 cands hvalid h1 h
    · cases h
    · cases h
  · cases h
  · cases h

/-- the core tables of the run (for the statements about `core_type`) -/
theorem constructCandidates_cores (fg : FG.FundGroup) (hg : GroupOK fg) (cts : List Tab)
    (h : coreTables fg.genToEdge.length
      (cosetTables fg.genToEdge.length fg.relators Tables.candidateIndexBound (nodeFuel fg.genToEdge.length Tables.candidateIndexBound)) = .ok cts) :
    ∀ c ∈ cts, IsCoreOf fg.genToEdge.length fg.relators Tables.candidateIndexBound c :=
  coreTables_spec _ cts
    (lowIndex_valid fg.genToEdge.length fg.relators Tables.candidateIndexBound (nodeFuel fg.genToEdge.length Tables.candidateIndexBound) hg.letters hg.fuel) h

end DSymVerif.D3
