/-
Helper lemmas for property C02, part 8: consequences of the work-list invariant —
soundness of every reported item, the fuel bound, completeness (every reachable chamber is
reported, every edge of a reached chamber is reported, one start per component) and
`orbit` = reachable set.
-/
import DSymVerif.Proofs.DSetTraversal
import DSymVerif.Proofs.DSetOrbit
import Mathlib.Data.List.ProdSigma
import Mathlib.Data.List.Perm.Subperm

namespace DSymVerif.DS
open View

/-! ### reachability in a view -/

/-- `e` is reachable from `d` by defined operations with indices from `indices` -/
inductive View.Reach (s : View) (indices : List Nat) : Nat → Nat → Prop
  | refl (d : Nat) : View.Reach s indices d d
  | step {d e c i : Nat} : View.Reach s indices d e → i ∈ indices → s.op i e = some c →
      View.Reach s indices d c

theorem View.Reach.trans {s : View} {indices : List Nat} {a b c : Nat}
    (h1 : s.Reach indices a b) (h2 : s.Reach indices b c) : s.Reach indices a c := by
  induction h2 with
  | refl => exact h1
  | step _ hi hop ih => exact View.Reach.step ih hi hop

theorem View.Reach.symm {s : View} (h : s.PInvol) {indices : List Nat} {a b : Nat}
    (h1 : s.Reach indices a b) : s.Reach indices b a := by
  induction h1 with
  | refl => exact View.Reach.refl _
  | @step e c i _ hi hop ih =>
    exact (View.Reach.step (View.Reach.refl c) hi (h.invol i e c hop)).trans ih

/-! ### items of a run -/

theorem AllOK.suffix {s : View} {indices seeds : List Nat} :
    ∀ (l1 : List TravItem) {l2 : List TravItem}, AllOK s indices seeds (l1 ++ l2) → AllOK s indices seeds l2
  | [], _, h => h
  | _ :: l1, _, h => AllOK.suffix l1 h.2

theorem AllOK.mem {s : View} {indices seeds : List Nat} :
    ∀ {acc : List TravItem}, AllOK s indices seeds acc → ∀ w ∈ acc,
      ∃ pre, (∀ u ∈ pre, u ∈ acc) ∧ ItemOK s indices seeds pre w ∧ AllOK s indices seeds pre
  | [], _, w, hw => by cases hw
  | t :: acc, h, w, hw => by
    rcases List.mem_cons.1 hw with rfl | hw
    · exact ⟨acc, fun u hu => List.mem_cons_of_mem _ hu, h.1, h.2⟩
    · obtain ⟨pre, hsub, hok, hpre⟩ := AllOK.mem h.2 w hw
      exact ⟨pre, fun u hu => List.mem_cons_of_mem _ (hsub u hu), hok, hpre⟩

theorem IsTarget.of_subset {pre acc : List TravItem} (hsub : ∀ u ∈ pre, u ∈ acc) {e : Nat}
    (h : IsTarget pre e) : IsTarget acc e := by
  obtain ⟨u, hu, he⟩ := h; exact ⟨u, hsub u hu, he⟩

/-- every reported chamber is reachable from a seed, and lies in the component of a start item -/
theorem AllOK.reach {s : View} {indices seeds : List Nat} :
    ∀ {acc : List TravItem}, AllOK s indices seeds acc → ∀ t ∈ acc,
      ∃ u ∈ acc, u.1 = none ∧ u.2.1 ∈ seeds ∧ s.Reach indices u.2.1 t.2.1 ∧ s.Reach indices u.2.1 t.2.2
  | [], _, t, ht => by cases ht
  | t0 :: acc, h, t, ht => by
    rcases List.mem_cons.1 ht with rfl | ht
    · cases hmi : t.1 with
      | none =>
        obtain ⟨h1, h2, _⟩ := h.1.start hmi
        exact ⟨t, List.mem_cons_self, hmi, h2, View.Reach.refl _, by rw [h1]; exact View.Reach.refl _⟩
      | some i =>
        obtain ⟨hi, hdi, ⟨w, hw, hwe⟩⟩ := h.1.edge i hmi
        obtain ⟨u, hu, hu1, hu2, _, hu4⟩ := AllOK.reach h.2 w hw
        rw [hwe] at hu4
        refine ⟨u, List.mem_cons_of_mem _ hu, hu1, hu2, hu4, ?_⟩
        rw [hdi]
        cases hop : s.op i t.2.1 with
        | none => exact hu4
        | some c => exact View.Reach.step hu4 hi hop
    · obtain ⟨u, hu, hrest⟩ := AllOK.reach h.2 t ht
      exact ⟨u, List.mem_cons_of_mem _ hu, hrest⟩

/-- if all edges of reported chambers are reported then the reported chambers are closed
    under reachability (operations are partial involutions) -/
theorem target_closed {s : View} (h : s.PInvol) {indices seeds : List Nat} {acc : List TravItem}
    (hall : AllOK s indices seeds acc)
    (hcl : ∀ e, IsTarget acc e → ∀ k ∈ indices, EdgeDone acc k e) {d e : Nat}
    (hd : IsTarget acc d) (hr : s.Reach indices d e) : IsTarget acc e := by
  induction hr with
  | refl => exact hd
  | @step e c k _ hk hop ih =>
    obtain ⟨w, hw, hwk, hwe⟩ := hcl e ih k hk
    obtain ⟨pre, hsub, hok, _⟩ := hall.mem w hw
    obtain ⟨_, hdi, htgt⟩ := hok.edge k hwk
    rcases hwe with hwe | hwe
    · refine ⟨w, hw, ?_⟩
      rw [hdi, hwe, hop]; rfl
    · cases hop' : s.op k w.2.1 with
      | none =>
        rw [hop'] at hdi
        simp only [Option.getD_none] at hdi
        rw [hwe] at hdi; rw [← hdi, hop] at hop'; cases hop'
      | some x =>
        rw [hop'] at hdi
        simp only [Option.getD_some] at hdi
        rw [hwe] at hdi; subst hdi
        have := h.invol k _ _ hop'
        rw [hop] at this; cases this
        exact htgt.of_subset hsub

/-- two different start items lie in different components -/
theorem starts_pairwise {s : View} (h : s.PInvol) {indices seeds : List Nat} :
    ∀ {acc : List TravItem}, AllOK s indices seeds acc →
      acc.Pairwise (fun t' t => t.1 = none → t'.1 = none → ¬ s.Reach indices t.2.1 t'.2.1)
  | [], _ => List.Pairwise.nil
  | t' :: acc, hall => by
    refine List.Pairwise.cons ?_ (starts_pairwise h hall.2)
    intro t ht hn hn' hr
    obtain ⟨_, _, hcl, _⟩ := hall.1.start hn'
    obtain ⟨pre, hsub, hok, _⟩ := hall.2.mem t ht
    have htd : IsTarget acc t.2.1 := ⟨t, ht, (hok.start hn).1⟩
    have := target_closed h hall.2 hcl htd hr
    apply hall.1.fresh
    rw [hn']
    exact (seenIn_none_iff hall.2 _).2 this

/-- two items with the same index never touch a common chamber -/
theorem edges_pairwise {s : View} (h : s.PInvol) {indices seeds : List Nat} :
    ∀ {acc : List TravItem}, AllOK s indices seeds acc →
      acc.Pairwise (fun t' t => ∀ i, t.1 = some i → t'.1 = some i →
        t.2.1 ≠ t'.2.1 ∧ t.2.1 ≠ t'.2.2 ∧ t.2.2 ≠ t'.2.1 ∧ t.2.2 ≠ t'.2.2)
  | [], _ => List.Pairwise.nil
  | t' :: acc, hall => by
    refine List.Pairwise.cons ?_ (edges_pairwise h hall.2)
    intro t ht i hi hi'
    obtain ⟨pre, _, hok, _⟩ := hall.2.mem t ht
    obtain ⟨_, hdi, _⟩ := hok.edge i hi
    obtain ⟨_, hdi', _⟩ := hall.1.edge i hi'
    have hfresh := hall.1.fresh
    rw [hi'] at hfresh
    have h1 : t.2.1 ≠ t'.2.1 := fun he => hfresh ⟨t, ht, by simp [seenOf, hi, he]⟩
    have h2 : t.2.2 ≠ t'.2.1 := fun he => hfresh ⟨t, ht, by simp [seenOf, hi, he]⟩
    refine ⟨h1, ?_, h2, ?_⟩
    · -- t.d ≠ t'.di
      intro he
      cases hop' : s.op i t'.2.1 with
      | none => rw [hop'] at hdi'; simp only [Option.getD_none] at hdi'; exact h1 (he.trans hdi')
      | some c =>
        rw [hop'] at hdi'; simp only [Option.getD_some] at hdi'
        have hc : s.op i c = some t'.2.1 := h.invol i _ _ hop'
        rw [← hdi', ← he] at hc
        rw [hc] at hdi; simp only [Option.getD_some] at hdi
        exact h2 hdi
    · -- t.di ≠ t'.di
      intro he
      cases hop' : s.op i t'.2.1 with
      | none => rw [hop'] at hdi'; simp only [Option.getD_none] at hdi'; exact h2 (he.trans hdi')
      | some c =>
        rw [hop'] at hdi'; simp only [Option.getD_some] at hdi'
        have hc : s.op i c = some t'.2.1 := h.invol i _ _ hop'
        rw [← hdi', ← he] at hc
        cases hop : s.op i t.2.1 with
        | none =>
          rw [hop] at hdi; simp only [Option.getD_none] at hdi
          rw [hdi, hop] at hc; cases hc
        | some x =>
          rw [hop] at hdi; simp only [Option.getD_some] at hdi
          have hx : s.op i x = some t.2.1 := h.invol i _ _ hop
          rw [← hdi, hc] at hx
          exact h1 (Option.some.inj hx).symm

/-! ### the bound on the number of reports -/

/-- chambers a traversal can touch: `1..size` and the seeds -/
def InCh (s : View) (seeds : List Nat) (x : Nat) : Prop := (1 ≤ x ∧ x ≤ s.size) ∨ x ∈ seeds

theorem AllOK.inCh {s : View} (hr : ∀ i d e, s.op i d = some e → 1 ≤ e ∧ e ≤ s.size)
    {indices seeds : List Nat} :
    ∀ {acc : List TravItem}, AllOK s indices seeds acc → ∀ t ∈ acc, InCh s seeds t.2.1 ∧ InCh s seeds t.2.2
  | [], _, t, ht => by cases ht
  | t0 :: acc, h, t, ht => by
    rcases List.mem_cons.1 ht with rfl | ht
    · cases hmi : t.1 with
      | none =>
        obtain ⟨h1, h2, _⟩ := h.1.start hmi
        rw [h1]; exact ⟨Or.inr h2, Or.inr h2⟩
      | some i =>
        obtain ⟨_, hdi, ⟨w, hw, hwe⟩⟩ := h.1.edge i hmi
        have hd : InCh s seeds t.2.1 := by rw [← hwe]; exact (AllOK.inCh hr h.2 w hw).2
        refine ⟨hd, ?_⟩
        rw [hdi]
        cases hop : s.op i t.2.1 with
        | none => exact hd
        | some c => exact Or.inl (hr i _ c hop)
    · exact AllOK.inCh hr h.2 t ht

theorem AllOK.pairs_nodup {s : View} {indices seeds : List Nat} :
    ∀ {acc : List TravItem}, AllOK s indices seeds acc → (acc.map (fun t => (t.2.1, t.1))).Nodup
  | [], _ => List.nodup_nil
  | t :: acc, h => by
    rw [List.map_cons, List.nodup_cons]
    refine ⟨?_, AllOK.pairs_nodup h.2⟩
    intro hm
    obtain ⟨u, hu, heq⟩ := List.mem_map.1 hm
    apply h.1.fresh
    exact ⟨u, hu, by simp [seenOf, ← heq]⟩

theorem mem_elements (s : View) (x : Nat) : x ∈ s.elements ↔ 1 ≤ x ∧ x ≤ s.size := by
  unfold View.elements
  simp only [List.mem_map, List.mem_range]
  constructor
  · rintro ⟨a, ha, rfl⟩; omega
  · intro h; exact ⟨x - 1, by omega, by omega⟩

theorem AllOK.length_le {s : View} (hr : ∀ i d e, s.op i d = some e → 1 ≤ e ∧ e ≤ s.size)
    {indices seeds : List Nat} {acc : List TravItem} (h : AllOK s indices seeds acc) :
    acc.length ≤ (s.size + seeds.length) * (indices.length + 1) := by
  have hsub : acc.map (fun t => (t.2.1, t.1)) ⊆
      (s.elements ++ seeds) ×ˢ (none :: indices.map some) := by
    intro p hp
    obtain ⟨t, ht, rfl⟩ := List.mem_map.1 hp
    rw [List.mem_product]
    constructor
    · rcases (h.inCh hr t ht).1 with h1 | h1
      · exact List.mem_append_left _ ((mem_elements s _).2 h1)
      · exact List.mem_append_right _ h1
    · cases hmi : t.1 with
      | none => exact List.mem_cons_self
      | some i =>
        obtain ⟨pre, _, hok, _⟩ := h.mem t ht
        exact List.mem_cons_of_mem _ (List.mem_map.2 ⟨i, (hok.edge i hmi).1, rfl⟩)
  have := (h.pairs_nodup.subperm hsub).length_le
  rw [List.length_map, List.length_product] at this
  simpa [View.elements] using this

theorem travFuel_bounds (s : View) (indices seeds : List Nat) :
    let B := (s.size + seeds.length) * (indices.length + 1)
    B * indices.length + seeds.length < travFuel s indices seeds ∧ B < travFuel s indices seeds := by
  intro B
  unfold travFuel
  simp only
  have h1 : B * indices.length ≤ (s.size + seeds.length + 1) * (indices.length + 1) * (indices.length + 1) := by
    apply Nat.mul_le_mul
    · exact Nat.mul_le_mul_right _ (Nat.le_succ _)
    · exact Nat.le_succ _
  have h2 : B ≤ (s.size + seeds.length + 1) * (indices.length + 1) * (indices.length + 1) := by
    calc B ≤ (s.size + seeds.length + 1) * (indices.length + 1) := Nat.mul_le_mul_right _ (Nat.le_succ _)
      _ = (s.size + seeds.length + 1) * (indices.length + 1) * 1 := (Nat.mul_one _).symm
      _ ≤ _ := Nat.mul_le_mul_left _ (by omega)
  constructor <;> omega

/-! ### runs -/

/-- any view: the output satisfies the invariant -/
theorem traversal_run_any (s : View) (indices seeds : List Nat) :
    ∃ acc st', s.traversal indices seeds = acc.reverse ∧ TInv s indices seeds acc st' := by
  unfold View.traversal
  exact travCollect_inv _ _ _ [] (TInv.init s indices seeds)

/-- the facts about an item of the output, relative to the items before it -/
theorem traversal_item_ok (s : View) (indices seeds : List Nat) (pre post : List TravItem) (t : TravItem)
    (h : s.traversal indices seeds = pre ++ t :: post) : ItemOK s indices seeds pre.reverse t := by
  obtain ⟨acc, st', hacc, inv⟩ := traversal_run_any s indices seeds
  have : acc = post.reverse ++ t :: pre.reverse := by
    have := congrArg List.reverse (hacc.symm.trans h)
    simpa using this
  have hall := inv.allOK
  rw [this] at hall
  exact (AllOK.suffix _ hall).1

/-- operations with values in `1..size`: the fuel suffices, the run ends with empty queues -/
theorem traversal_run {s : View} (hr : ∀ i d e, s.op i d = some e → 1 ≤ e ∧ e ≤ s.size)
    (indices seeds : List Nat) :
    ∃ acc st', s.traversal indices seeds = acc.reverse ∧ TInv s indices seeds acc st' ∧ Exhausted st' := by
  unfold View.traversal
  have hb := travFuel_bounds s indices seeds
  exact travCollect_exhausted (fun acc st inv => inv.allOK.length_le hr) hb.1 _ _ []
    (TInv.init s indices seeds) (by simpa using hb.2)

/-- more fuel (of either kind) does not change the result -/
theorem traversal_fuel {s : View} (hr : ∀ i d e, s.op i d = some e → 1 ≤ e ∧ e ≤ s.size)
    (indices seeds : List Nat) (f n : Nat) (hf : travFuel s indices seeds ≤ f) (hn : travFuel s indices seeds ≤ n) :
    travCollect s indices f n { seeds := seeds, seen := [], todo := todoInit indices } [] =
      s.traversal indices seeds := by
  unfold View.traversal
  have hb := travFuel_bounds s indices seeds
  exact travCollect_fuel (fun acc st inv => inv.allOK.length_le hr) hb.1 hf _ _ _ []
    (TInv.init s indices seeds) (by simpa using hb.2) (by simp only [List.length_nil, Nat.zero_add]; omega)

/-- at the end of a complete run all edges of reported chambers are reported and all seeds are seen -/
theorem TInv.final {s : View} {indices seeds : List Nat} {acc : List TravItem} {st : TravState}
    (inv : TInv s indices seeds acc st) (hex : Exhausted st) :
    (∀ e, IsTarget acc e → ∀ k ∈ indices, EdgeDone acc k e) ∧ (∀ d ∈ seeds, IsTarget acc d) := by
  constructor
  · intro e he k hk
    rcases inv.frontier e he k hk with h1 | ⟨q, hq, heq⟩
    · exact h1
    · have := hex.1 (k, q) hq
      simp only at this; rw [this] at heq; cases heq
  · intro d hd
    obtain ⟨pre, hpre, hall⟩ := inv.seeds_suffix
    rw [hex.2, List.append_nil] at hpre
    rw [hpre] at hd
    exact (seenIn_none_iff inv.allOK d).1 (hall d hd)

/-! ### `is_connected` -/

theorem elements_sorted (s : View) : s.elements.Pairwise (· < ·) := by
  unfold View.elements
  rw [List.pairwise_map]
  exact List.pairwise_lt_range.imp (fun h => Nat.succ_lt_succ h)

/-- a start item other than chamber 1 means chamber 1's component is finished without it -/
theorem start_gt_one {s : View} (h : s.PInvol) {indices : List Nat} {acc : List TravItem}
    (hall : AllOK s indices s.elements acc) {t : TravItem} (ht : t ∈ acc) (hn : t.1 = none)
    (hgt : t.2.1 > 1) : ¬ s.Reach indices 1 t.2.1 := by
  intro hr
  obtain ⟨pre, hsub, hok, hpre⟩ := hall.mem t ht
  obtain ⟨_, hseed, hcl, l1, l2, hsplit, hl1⟩ := hok.start hn
  have hsorted := elements_sorted s
  have h1mem : 1 ∈ s.elements := by
    have := (mem_elements s t.2.1).1 hseed
    exact (mem_elements s 1).2 ⟨Nat.le_refl _, by omega⟩
  rw [hsplit] at hsorted h1mem
  have h1l1 : 1 ∈ l1 := by
    rcases List.mem_append.1 h1mem with h1 | h1
    · exact h1
    · rcases List.mem_cons.1 h1 with h1 | h1
      · omega
      · have := (List.pairwise_cons.1 (List.pairwise_append.1 hsorted).2.1).1 1 h1
        omega
  have := target_closed h hpre hcl (hl1 1 h1l1) hr
  apply hok.fresh
  rw [hn]
  exact (seenIn_none_iff hpre _).2 this

/-- `is_connected()` holds iff every chamber is reachable from chamber 1 -/
theorem isConnected_iff {s : View} (h : s.PInvol) :
    s.isConnected = true ↔ ∀ d, 1 ≤ d → d ≤ s.size → s.Reach s.indices 1 d := by
  obtain ⟨acc, st', hacc, inv, hex⟩ := traversal_run h.range s.indices s.elements
  have hfin := inv.final hex
  have hall := inv.allOK
  unfold View.isConnected View.fullTraversal
  rw [hacc, List.all_eq_true]
  constructor
  · intro hc d h1 h2
    obtain ⟨t, ht, hte⟩ := hfin.2 d ((mem_elements s d).2 ⟨h1, h2⟩)
    obtain ⟨u, hu, hu1, hu2, _, hu4⟩ := hall.reach t ht
    have := hc u (List.mem_reverse.2 hu)
    obtain ⟨mi, ud, udi⟩ := u
    simp only at hu1 hu2 hu4 this
    subst hu1
    simp only [Option.isNone_none, Bool.true_and, Bool.not_eq_eq_eq_not, Bool.not_true,
      decide_eq_false_iff_not] at this
    have := (mem_elements s ud).1 hu2
    have hud : ud = 1 := by omega
    rw [hud, hte] at hu4; exact hu4
  · intro hr t ht
    have ht' := List.mem_reverse.1 ht
    obtain ⟨mi, d, di⟩ := t
    cases mi with
    | some i => simp
    | none =>
      simp only [Option.isNone_none, Bool.true_and, Bool.not_eq_eq_eq_not, Bool.not_true,
        decide_eq_false_iff_not]
      intro hgt
      obtain ⟨pre, _, hok, _⟩ := hall.mem _ ht'
      have hseed := (hok.start rfl).2.1
      have := (mem_elements s d).1 hseed
      exact start_gt_one h hall ht' rfl hgt (hr d this.1 this.2)

end DSymVerif.DS
