/-
Lemmas about the model of `PrimeResidueClass<P>` (Model/PrimeResidue.lean):
range checks, the extended-Euclid invariant of `inverse`, the value map to `ZMod p`.
-/
import Mathlib.Data.ZMod.Basic
import Mathlib.Tactic.Linarith
import Mathlib.Tactic.Ring
import DSymVerif.Model.PrimeResidue

namespace DSymVerif.PRC

open DSymVerif

theorem chk_ok {x : Int} (h1 : i64Min ≤ x) (h2 : x ≤ i64Max) : chk x = .ok x := by
  simp [chk, inI64, h1, h2]

theorem chk_ok_of_abs {x : Int} (h1 : -(2 * maxP) ≤ x) (h2 : x ≤ 2 * maxP) : chk x = .ok x := by
  apply chk_ok <;> simp only [maxP, i64Min, i64Max] at * <;> omega

@[simp] theorem bind_ok {α β} (a : α) (f : α → Outcome β) : (Outcome.ok a).bind f = f a := rfl

theorem fromI64_nonneg {p : Int} (hp : 0 < p) (n : Int) : 0 ≤ fromI64 p n :=
  Int.emod_nonneg _ (ne_of_gt hp)

theorem fromI64_lt {p : Int} (hp : 0 < p) (n : Int) : fromI64 p n < p :=
  Int.emod_lt_of_pos _ hp

theorem fromI64_eq (p n : Int) : fromI64 p n = n % p := rfl

theorem fromI64_of_canonical {p a : Int} (h0 : 0 ≤ a) (h1 : a < p) : fromI64 p a = a :=
  Int.emod_eq_of_lt h0 h1

/-- the state invariant of the `while r1 != 0` loop of `inverse` -/
structure InvInv (p a t t1 r r1 ε : Int) : Prop where
  eps : ε = 1 ∨ ε = -1
  s1 : 0 ≤ ε * t1
  s0 : ε * t ≤ 0
  det : ε * (t1 * r - t * r1) = p
  r1_nonneg : 0 ≤ r1
  r1_lt : r1 < r
  r_le : r ≤ p
  gcd : Int.gcd r r1 = 1
  c0 : ∃ k, t * a - r = k * p
  c1 : ∃ k, t1 * a - r1 = k * p

theorem InvInv.abs_t1_le {p a t t1 r r1 ε : Int} (h : InvInv p a t t1 r r1 ε) :
    -p ≤ t1 ∧ t1 ≤ p := by
  have hr : 1 ≤ r := by have := h.r1_nonneg; have := h.r1_lt; omega
  have h1 : 0 ≤ -(ε * t) * r1 := mul_nonneg (by linarith [h.s0]) h.r1_nonneg
  have h2 : ε * t1 * r ≤ p := by nlinarith [h.det]
  have h3 : ε * t1 ≤ p := by nlinarith [h.s1]
  rcases h.eps with e | e <;> subst e <;> constructor <;> nlinarith [h.s1]

theorem InvInv.abs_t_le {p a t t1 r r1 ε : Int} (h : InvInv p a t t1 r r1 ε) (hr1 : 1 ≤ r1) :
    -p ≤ t ∧ t ≤ p := by
  have hr : 1 ≤ r := by have := h.r1_lt; omega
  have h1 : 0 ≤ ε * t1 * r := mul_nonneg h.s1 (by omega)
  have h2 : -(ε * t) * r1 ≤ p := by nlinarith [h.det]
  have h3 : -(ε * t) ≤ p := by nlinarith [h.s0]
  rcases h.eps with e | e <;> subst e <;> constructor <;> nlinarith [h.s0]

/-- one iteration preserves the invariant (with the sign flipped) -/
theorem InvInv.step {p a t t1 r r1 ε : Int} (h : InvInv p a t t1 r r1 ε) (hr1 : 1 ≤ r1) :
    InvInv p a t1 (t - r / r1 * t1) r1 (r - r / r1 * r1) (-ε) := by
  have hq0 : 0 ≤ r / r1 := Int.ediv_nonneg (by have := h.r1_lt; omega) h.r1_nonneg
  have hmod : r - r / r1 * r1 = r % r1 := by
    have := Int.emod_add_mul_ediv r r1; linarith [mul_comm r1 (r / r1)]
  refine ⟨?_, ?_, ?_, ?_, ?_, ?_, ?_, ?_, h.c1, ?_⟩
  · rcases h.eps with e | e <;> simp [e]
  · have : 0 ≤ r / r1 * (ε * t1) := mul_nonneg hq0 h.s1
    nlinarith [h.s0]
  · linarith [h.s1]
  · have := h.det; nlinarith
  · rw [hmod]; exact Int.emod_nonneg _ (by omega)
  · rw [hmod]; exact Int.emod_lt_of_pos _ (by omega)
  · have := h.r1_lt; have := h.r_le; omega
  · rw [hmod, Int.gcd_comm, Int.gcd_emod]; exact h.gcd
  · obtain ⟨k0, hk0⟩ := h.c0
    obtain ⟨k1, hk1⟩ := h.c1
    exact ⟨k0 - r / r1 * k1, by nlinarith⟩

end DSymVerif.PRC
