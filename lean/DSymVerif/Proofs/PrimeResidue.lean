/-
Lemmas about the model of `PrimeResidueClass<P>` (Model/PrimeResidue.lean):
range checks, the extended-Euclid invariant of `inverse`, the value map to `ZMod p`.
-/
import Mathlib.Data.ZMod.Basic
import Mathlib.Tactic.Linarith
import Mathlib.Tactic.Ring
import DSymVerif.Model.PrimeResidue

namespace DSymVerif.PRC

open DSymVerif

theorem chk_ok {x : Int} (h1 : i64Min ≤ x) (h2 : x ≤ i64Max) : chk x = .ok x := by
  simp [chk, inI64, h1, h2]

theorem chk_ok_of_abs {x : Int} (h1 : -(2 * maxP) ≤ x) (h2 : x ≤ 2 * maxP) : chk x = .ok x := by
  apply chk_ok <;> simp only [maxP, i64Min, i64Max] at * <;> omega

@[simp] theorem bind_ok {α β} (a : α) (f : α → Outcome β) : (Outcome.ok a).bind f = f a := rfl

theorem fromI64_nonneg {p : Int} (hp : 0 < p) (n : Int) : 0 ≤ fromI64 p n :=
  Int.emod_nonneg _ (ne_of_gt hp)

theorem fromI64_lt {p : Int} (hp : 0 < p) (n : Int) : fromI64 p n < p :=
  Int.emod_lt_of_pos _ hp

theorem fromI64_eq (p n : Int) : fromI64 p n = n % p := rfl

theorem fromI64_of_canonical {p a : Int} (h0 : 0 ≤ a) (h1 : a < p) : fromI64 p a = a :=
  Int.emod_eq_of_lt h0 h1

theorem chk_bind_eq {x v : Int} {p : Int}
    (h : (chk x).bind (fun s => Outcome.ok (fromI64 p s)) = .ok v) : v = x % p := by
  unfold chk at h
  split at h
  · simp only [bind_ok] at h
    cases h; rfl
  · cases h

/-- the state invariant of the `while r1 != 0` loop of `inverse` -/
structure InvInv (p a t t1 r r1 ε : Int) : Prop where
  eps : ε = 1 ∨ ε = -1
  s1 : 0 ≤ ε * t1
  s0 : ε * t ≤ 0
  det : ε * (t1 * r - t * r1) = p
  r1_nonneg : 0 ≤ r1
  r1_lt : r1 < r
  r_le : r ≤ p
  gcd : Int.gcd r r1 = 1
  c0 : ∃ k, t * a - r = k * p
  c1 : ∃ k, t1 * a - r1 = k * p

theorem InvInv.abs_t1_le {p a t t1 r r1 ε : Int} (h : InvInv p a t t1 r r1 ε) :
    -p ≤ t1 ∧ t1 ≤ p := by
  have hr : 1 ≤ r := by have := h.r1_nonneg; have := h.r1_lt; omega
  have h1 : 0 ≤ -(ε * t) * r1 := mul_nonneg (by linarith [h.s0]) h.r1_nonneg
  have h2 : ε * t1 * r ≤ p := by nlinarith [h.det]
  have h3 : ε * t1 ≤ p := by nlinarith [h.s1]
  rcases h.eps with e | e <;> subst e <;> constructor <;> nlinarith [h.s1]

theorem InvInv.abs_t_le {p a t t1 r r1 ε : Int} (h : InvInv p a t t1 r r1 ε) (hr1 : 1 ≤ r1) :
    -p ≤ t ∧ t ≤ p := by
  have hr : 1 ≤ r := by have := h.r1_lt; omega
  have h1 : 0 ≤ ε * t1 * r := mul_nonneg h.s1 (by omega)
  have h2 : -(ε * t) * r1 ≤ p := by nlinarith [h.det]
  have h3 : -(ε * t) ≤ p := by nlinarith [h.s0]
  rcases h.eps with e | e <;> subst e <;> constructor <;> nlinarith [h.s0]

/-- one iteration preserves the invariant (with the sign flipped) -/
theorem InvInv.step {p a t t1 r r1 ε : Int} (h : InvInv p a t t1 r r1 ε) (hr1 : 1 ≤ r1) :
    InvInv p a t1 (t - r / r1 * t1) r1 (r - r / r1 * r1) (-ε) := by
  have hq0 : 0 ≤ r / r1 := Int.ediv_nonneg (by have := h.r1_lt; omega) h.r1_nonneg
  have hmod : r - r / r1 * r1 = r % r1 := by
    have := Int.emod_add_mul_ediv r r1; linarith [mul_comm r1 (r / r1)]
  refine ⟨?_, ?_, ?_, ?_, ?_, ?_, ?_, ?_, h.c1, ?_⟩
  · rcases h.eps with e | e <;> simp [e]
  · have : 0 ≤ r / r1 * (ε * t1) := mul_nonneg hq0 h.s1
    nlinarith [h.s0]
  · linarith [h.s1]
  · have := h.det; nlinarith
  · rw [hmod]; exact Int.emod_nonneg _ (by omega)
  · rw [hmod]; exact Int.emod_lt_of_pos _ (by omega)
  · have := h.r1_lt; have := h.r_le; omega
  · rw [hmod, Int.gcd_comm, Int.gcd_emod]; exact h.gcd
  · obtain ⟨k0, hk0⟩ := h.c0
    obtain ⟨k1, hk1⟩ := h.c1
    exact ⟨k0 - r / r1 * k1, by nlinarith⟩

/-- the loop of `inverse` neither overflows nor runs out of fuel, ends with `r = 1`
    and a `t` with `t·a ≡ 1 (mod p)` -/
theorem invLoop_spec {p a : Int} (hp2 : 2 ≤ p) (hpm : p ≤ maxP) :
    ∀ (fuel : Nat) (t t1 r r1 ε : Int), InvInv p a t t1 r r1 ε → r1 < fuel →
      ∃ t', invLoop fuel t t1 r r1 = .ok (t', 1) ∧ ∃ k, t' * a - 1 = k * p := by
  intro fuel
  induction fuel with
  | zero => intro t t1 r r1 ε h hf; have := h.r1_nonneg; omega
  | succ f ih =>
    intro t t1 r r1 ε h hf
    unfold invLoop
    by_cases hr1 : r1 = 0
    · subst hr1
      have hg := h.gcd
      rw [Int.gcd_zero_right] at hg
      have hr : r = 1 := by have := h.r1_lt; omega
      subst hr
      simp only [if_true]
      exact ⟨t, rfl, h.c0⟩
    · have hr1' : 1 ≤ r1 := by have := h.r1_nonneg; omega
      have hr0 : 0 ≤ r := by have := h.r1_lt; omega
      simp only [hr1, if_false]
      rw [Int.tdiv_eq_ediv_of_nonneg hr0]
      have hn := h.step hr1'
      have hq0 : 0 ≤ r / r1 := Int.ediv_nonneg hr0 h.r1_nonneg
      have hqr : r / r1 ≤ r := Int.ediv_le_self _ hr0
      have hmod : r - r / r1 * r1 = r % r1 := by
        have := Int.emod_add_mul_ediv r r1; linarith [mul_comm r1 (r / r1)]
      have hm0 : 0 ≤ r % r1 := Int.emod_nonneg _ (by omega)
      have hm1 : r % r1 < r1 := Int.emod_lt_of_pos _ (by omega)
      have hrp := h.r_le
      have hrl := h.r1_lt
      have ht := h.abs_t_le hr1'
      have ht1 := hn.abs_t1_le
      have hpm' : p ≤ 3037000499 := hpm
      rw [chk_ok_of_abs (by simp only [maxP]; omega) (by simp only [maxP]; omega)]
      simp only [bind_ok]
      rw [chk_ok_of_abs (by simp only [maxP]; omega) (by simp only [maxP]; omega)]
      simp only [bind_ok]
      rw [chk_ok_of_abs (by simp only [maxP]; omega) (by simp only [maxP]; omega)]
      simp only [bind_ok]
      rw [chk_ok_of_abs (by simp only [maxP]; omega) (by simp only [maxP]; omega)]
      simp only [bind_ok]
      rw [chk_ok_of_abs (by simp only [maxP]; omega) (by simp only [maxP]; omega)]
      simp only [bind_ok]
      exact ih _ _ _ _ _ hn (by omega)

theorem gcd_prime_of_canonical {p : ℕ} (hp : p.Prime) {a : Int} (h0 : 0 < a) (h1 : a < p) :
    Int.gcd (p : ℤ) a = 1 := by
  rw [Int.gcd_eq_natAbs, Int.natAbs_natCast]
  have : ¬ p ∣ a.natAbs := by
    intro hd
    have := Nat.le_of_dvd (by omega) hd
    omega
  exact (Nat.Prime.coprime_iff_not_dvd hp).2 this

theorem initial_inv {p : ℕ} (hp : p.Prime) {a : Int} (h0 : 0 < a) (h1 : a < p) :
    InvInv (p : ℤ) a 0 1 p a 1 :=
  ⟨Or.inl rfl, by norm_num, by norm_num, by ring, le_of_lt h0, h1, le_refl _,
    gcd_prime_of_canonical hp h0 h1, ⟨-1, by ring⟩, ⟨0, by ring⟩⟩

theorem mul_in_range {p a b : Int} (hpm : p ≤ maxP) (ha0 : 0 ≤ a) (ha : a < p) (hb0 : 0 ≤ b)
    (hb : b < p) : i64Min ≤ a * b ∧ a * b ≤ i64Max := by
  have h1 : a * b ≤ 3037000498 * 3037000498 := by
    have ha' : a ≤ 3037000498 := by simp only [maxP] at hpm; omega
    have hb' : b ≤ 3037000498 := by simp only [maxP] at hpm; omega
    exact mul_le_mul ha' hb' hb0 (by norm_num)
  have h0 : 0 ≤ a * b := mul_nonneg ha0 hb0
  simp only [i64Min, i64Max]
  constructor <;> omega

/-- `inverse` on a canonical non-zero value, prime modulus accepted by `valid()` -/
theorem inverse_spec {p : ℕ} (hp : p.Prime) (hpm : (p : ℤ) ≤ maxP) {a : Int} (h0 : 0 < a)
    (h1 : a < p) :
    ∃ v, inverse (p : ℤ) a = .ok v ∧ 0 ≤ v ∧ v < p ∧ (v * a) % (p : ℤ) = 1 := by
  have hp2 : (2 : ℤ) ≤ p := by exact_mod_cast hp.two_le
  obtain ⟨t', ht', k, hk⟩ := invLoop_spec hp2 hpm (a.toNat + 2) 0 1 p a 1 (initial_inv hp h0 h1)
    (by have := Int.toNat_of_nonneg (le_of_lt h0); push_cast; omega)
  refine ⟨fromI64 p t', ?_, fromI64_nonneg (by omega) _, fromI64_lt (by omega) _, ?_⟩
  · simp [inverse, ht']
  · have : t' * a = 1 + k * p := by linarith
    rw [fromI64_eq, Int.mul_emod, Int.emod_emod_of_dvd _ (dvd_refl _), ← Int.mul_emod, this,
      Int.add_mul_emod_self_right]
    exact Int.emod_eq_of_lt (by norm_num) (by omega)

end DSymVerif.PRC
