/-
C01, part 5: the grammar reads back what the printer writes —
`lex (render spec) = some spec` for every specification whose numbers fit `usize` and
whose lists are non-empty (decimal print/parse round trip, separators, `alt` order).
-/
import DSymVerif.Model.Text

namespace DSymVerif.Text

/-! ### characters -/

theorem digitChar_toNat : ∀ k : Fin 10, (digitChar k.val).toNat = 48 + k.val := by decide
theorem digitChar_isDigit : ∀ k : Fin 10, isDigit (digitChar k.val) = true := by decide

theorem isWs_of_isDigit {c : Char} (h : isDigit c = true) : isWs c = false := by
  unfold isDigit at h
  simp only [Bool.and_eq_true, decide_eq_true_eq] at h
  unfold isWs
  simp only [Bool.or_eq_false_iff, decide_eq_false_iff_not]
  refine ⟨⟨⟨?_, ?_⟩, ?_⟩, ?_⟩ <;> (intro hc; subst hc; revert h; decide)

/-- the list is empty or its first character does not satisfy `p` -/
def HeadNot (p : Char → Bool) : List Char → Prop
  | [] => True
  | c :: _ => p c = false

theorem headNot_cons {p : Char → Bool} {c : Char} {r : List Char} (h : p c = false) : HeadNot p (c :: r) := h

theorem takeWhile_append_headNot {p : Char → Bool} : ∀ (ds rest : List Char),
    (∀ c ∈ ds, p c = true) → HeadNot p rest →
    (ds ++ rest).takeWhile p = ds ∧ (ds ++ rest).dropWhile p = rest := by
  intro ds
  induction ds with
  | nil =>
    intro rest _ h
    cases rest with
    | nil => exact ⟨rfl, rfl⟩
    | cons c r =>
      have hc : p c = false := h
      simp [List.takeWhile_cons, List.dropWhile_cons, hc]
  | cons d ds ih =>
    intro rest hall h
    have hd : p d = true := hall d (by simp)
    obtain ⟨a, b⟩ := ih rest (fun c hc => hall c (by simp [hc])) h
    simp only [List.cons_append, List.takeWhile_cons, List.dropWhile_cons, hd, if_true]
    exact ⟨by rw [a], b⟩

theorem ws0_of_headNot {cs : List Char} (h : HeadNot isWs cs) : ws0 cs = cs := by
  unfold ws0
  cases cs with
  | nil => rfl
  | cons c r =>
    have hc : isWs c = false := h
    simp [List.dropWhile_cons, hc]

/-! ### decimal numbers -/

def valOf (cs : List Char) (init : Nat) : Nat :=
  cs.foldl (fun acc c => acc * 10 + (c.toNat - 48)) init

theorem natDigitsAux_val : ∀ (fuel n : Nat) (acc : List Char), n < fuel →
    valOf (natDigitsAux fuel n acc) 0 = valOf acc n := by
  intro fuel
  induction fuel with
  | zero => intro n acc h; omega
  | succ fuel ih =>
    intro n acc h
    unfold natDigitsAux
    split
    · rename_i hlt
      have := digitChar_toNat ⟨n, hlt⟩
      simp only at this
      simp only [valOf, List.foldl_cons, this]
      congr 1
      omega
    · rename_i hge
      rw [ih (n / 10) _ (by omega)]
      have := digitChar_toNat ⟨n % 10, Nat.mod_lt _ (by omega)⟩
      simp only at this
      simp only [valOf, List.foldl_cons, this]
      congr 1
      omega

theorem natDigitsAux_digits : ∀ (fuel n : Nat) (acc : List Char), (∀ c ∈ acc, isDigit c = true) →
    ∀ c ∈ natDigitsAux fuel n acc, isDigit c = true := by
  intro fuel
  induction fuel with
  | zero => intro n acc h; exact h
  | succ fuel ih =>
    intro n acc h
    unfold natDigitsAux
    split
    · rename_i hlt
      intro c hc
      rcases List.mem_cons.mp hc with rfl | hc
      · exact digitChar_isDigit ⟨n, hlt⟩
      · exact h c hc
    · apply ih
      intro c hc
      rcases List.mem_cons.mp hc with rfl | hc
      · exact digitChar_isDigit ⟨n % 10, Nat.mod_lt _ (by omega)⟩
      · exact h c hc

theorem natDigitsAux_ne_nil : ∀ (fuel n : Nat) (acc : List Char), (1 ≤ fuel ∨ acc ≠ []) →
    natDigitsAux fuel n acc ≠ [] := by
  intro fuel
  induction fuel with
  | zero =>
    intro n acc h
    rcases h with h | h
    · omega
    · exact h
  | succ fuel ih =>
    intro n acc _
    unfold natDigitsAux
    split
    · simp
    · exact ih _ _ (Or.inr (by simp))

theorem natDigits_val (n : Nat) : digitsVal (natDigits n) = n := by
  exact natDigitsAux_val (n + 1) n [] (by omega)

theorem natDigits_digits (n : Nat) : ∀ c ∈ natDigits n, isDigit c = true :=
  natDigitsAux_digits (n + 1) n [] (by simp)

theorem natDigits_ne_nil (n : Nat) : natDigits n ≠ [] :=
  natDigitsAux_ne_nil (n + 1) n [] (Or.inl (by omega))

/-- a printed number starts with a digit: it is neither blank nor empty -/
theorem headNot_ws_natDigits (n : Nat) (rest : List Char) : HeadNot isWs (natDigits n ++ rest) := by
  have hne := natDigits_ne_nil n
  have hd := natDigits_digits n
  cases h : natDigits n with
  | nil => exact absurd h hne
  | cons c r =>
    rw [h] at hd
    exact isWs_of_isDigit (hd c (by simp))

theorem integer_render (n : Nat) (rest : List Char) (hn : n < usizeLimit) (h : HeadNot isDigit rest) :
    integer (natDigits n ++ rest) = some (n, rest) := by
  obtain ⟨a, b⟩ := takeWhile_append_headNot (natDigits n) rest (natDigits_digits n) h
  unfold integer
  simp only [a, b]
  have hne : (natDigits n).isEmpty = false := by
    cases h' : natDigits n with
    | nil => exact absurd h' (natDigits_ne_nil n)
    | cons _ _ => rfl
  rw [hne, natDigits_val]
  simp [hn]

/-! ### the combinators on rendered text -/

theorem punct_render (c : Char) (rest : List Char) (hc : isWs c = false) (h : HeadNot isWs rest) :
    punct c (c :: rest) = some rest := by
  unfold punct
  rw [ws0_of_headNot (headNot_cons hc)]
  simp [chr, ws0_of_headNot h]

theorem counts_render (a b : Nat) (rest : List Char) (ha : a < usizeLimit) (hb : b < usizeLimit)
    (h : HeadNot isDigit rest) :
    counts (natDigits a ++ ('.' :: (natDigits b ++ rest))) = some ((a, b), rest) := by
  unfold counts
  rw [integer_render a _ ha (headNot_cons (by decide))]
  simp [chr, integer_render b rest hb h]

theorem extents_render_two (size : Nat) (rest : List Char) (hs : size < usizeLimit)
    (h1 : HeadNot isDigit rest) (h2 : HeadNot isWs rest) :
    extents (natDigits size ++ rest) = some ((size, 2), rest) := by
  unfold extents
  rw [integer_render size rest hs h1]
  have : ws1 rest = none := by
    unfold ws1
    cases rest with
    | nil => rfl
    | cons c r =>
      have hc : isWs c = false := h2
      simp [hc]
  simp [this]

theorem extents_render_pair (size dim : Nat) (rest : List Char) (hs : size < usizeLimit)
    (hd : dim < usizeLimit) (h1 : HeadNot isDigit rest) :
    extents (natDigits size ++ (' ' :: (natDigits dim ++ rest))) = some ((size, dim), rest) := by
  unfold extents
  rw [integer_render size _ hs (headNot_cons (by decide))]
  have : ws1 (' ' :: (natDigits dim ++ rest)) = some (natDigits dim ++ rest) := by
    unfold ws1
    simp [isWs, ws0_of_headNot (headNot_ws_natDigits dim rest)]
  simp [this, integer_render dim rest hd h1]

/-- the tail of a printed list: a blank and a number per further entry -/
def renderTail (ys : List Nat) : List Char := ys.flatMap fun y => ' ' :: natDigits y

theorem headNot_digit_renderTail (ys : List Nat) (rest : List Char) (h : HeadNot isDigit rest) :
    HeadNot isDigit (renderTail ys ++ rest) := by
  cases ys with
  | nil => exact h
  | cons y ys => exact (by decide : isDigit ' ' = false)

theorem renderTail_length (ys : List Nat) : ys.length ≤ (renderTail ys).length := by
  induction ys with
  | nil => simp [renderTail]
  | cons y ys ih =>
    simp only [renderTail, List.flatMap_cons, List.length_append, List.length_cons] at ih ⊢
    omega

theorem intListLoop_render : ∀ (ys : List Nat) (fuel : Nat) (rest : List Char),
    ys.length ≤ fuel → (∀ y ∈ ys, y < usizeLimit) → HeadNot isDigit rest → HeadNot isWs rest →
    intListLoop fuel (renderTail ys ++ rest) = (ys, rest) := by
  intro ys
  induction ys with
  | nil =>
    intro fuel rest _ _ _ hw
    have : ws1 rest = none := by
      unfold ws1
      cases rest with
      | nil => rfl
      | cons c r =>
        have hc : isWs c = false := hw
        simp [hc]
    cases fuel with
    | zero => rfl
    | succ fuel => simp [renderTail, intListLoop, this]
  | cons y ys ih =>
    intro fuel rest hf hall hd hw
    obtain ⟨fuel', rfl⟩ : ∃ f, fuel = f + 1 := ⟨fuel - 1, by simp only [List.length_cons] at hf; omega⟩
    have hcs : renderTail (y :: ys) ++ rest = ' ' :: (natDigits y ++ (renderTail ys ++ rest)) := by
      simp [renderTail, List.flatMap_cons]
    have hws : ws1 (' ' :: (natDigits y ++ (renderTail ys ++ rest))) = some (natDigits y ++ (renderTail ys ++ rest)) := by
      unfold ws1
      simp [isWs, ws0_of_headNot (headNot_ws_natDigits y _)]
    rw [hcs, intListLoop, hws]
    simp only [integer_render y _ (hall y (by simp)) (headNot_digit_renderTail ys rest hd)]
    rw [ih fuel' rest (by simp only [List.length_cons] at hf; omega) (fun z hz => hall z (by simp [hz])) hd hw]

theorem renderList_cons (x : Nat) (xs : List Nat) : renderList (x :: xs) = natDigits x ++ renderTail xs := rfl

theorem intList_render (x : Nat) (xs : List Nat) (rest : List Char)
    (hall : ∀ y ∈ x :: xs, y < usizeLimit) (hd : HeadNot isDigit rest) (hw : HeadNot isWs rest) :
    intList (renderList (x :: xs) ++ rest) = some (x :: xs, rest) := by
  unfold intList
  rw [renderList_cons, List.append_assoc,
    integer_render x _ (hall x (by simp)) (headNot_digit_renderTail xs rest hd)]
  simp only
  rw [intListLoop_render xs _ rest
    (by rw [List.length_append]; have := renderTail_length xs; omega)
    (fun z hz => hall z (by simp [hz])) hd hw]

/-- the tail of printed lists: a comma and a list per further list -/
def renderListsTail (yss : List (List Nat)) : List Char := yss.flatMap fun ys => ',' :: renderList ys

theorem renderListsTail_length (yss : List (List Nat)) : yss.length ≤ (renderListsTail yss).length := by
  induction yss with
  | nil => simp [renderListsTail]
  | cons y ys ih =>
    simp only [renderListsTail, List.flatMap_cons, List.length_append, List.length_cons] at ih ⊢
    omega

/-- what may follow a printed list of lists: `:` or `>` — neither digit, blank nor comma -/
structure Closer (rest : List Char) : Prop where
  digit : HeadNot isDigit rest
  ws : HeadNot isWs rest
  comma : HeadNot (· == ',') rest

theorem headNot_ws_renderList {ys : List Nat} (hne : ys ≠ []) (rest : List Char) :
    HeadNot isWs (renderList ys ++ rest) := by
  cases ys with
  | nil => exact absurd rfl hne
  | cons y ys =>
    rw [renderList_cons, List.append_assoc]
    exact headNot_ws_natDigits y _

theorem intListsLoop_render : ∀ (yss : List (List Nat)) (fuel : Nat) (rest : List Char),
    yss.length ≤ fuel → (∀ ys ∈ yss, ys ≠ [] ∧ ∀ y ∈ ys, y < usizeLimit) → Closer rest →
    intListsLoop fuel (renderListsTail yss ++ rest) = (yss, rest) := by
  intro yss
  induction yss with
  | nil =>
    intro fuel rest _ _ hc
    have : punct ',' rest = none := by
      unfold punct
      rw [ws0_of_headNot hc.ws]
      cases rest with
      | nil => rfl
      | cons c r =>
        have h : (c == ',') = false := hc.comma
        have h' : c ≠ ',' := by simpa using h
        simp [chr, h']
    cases fuel with
    | zero => rfl
    | succ fuel => simp [renderListsTail, intListsLoop, this]
  | cons ys yss ih =>
    intro fuel rest hf hall hc
    obtain ⟨fuel', rfl⟩ : ∃ f, fuel = f + 1 := ⟨fuel - 1, by simp only [List.length_cons] at hf; omega⟩
    obtain ⟨hne, hys⟩ := hall ys (by simp)
    obtain ⟨y, ys', rfl⟩ : ∃ y ys', ys = y :: ys' := by
      cases ys with
      | nil => exact absurd rfl hne
      | cons y ys' => exact ⟨y, ys', rfl⟩
    have hcs : renderListsTail ((y :: ys') :: yss) ++ rest =
        ',' :: (renderList (y :: ys') ++ (renderListsTail yss ++ rest)) := by
      simp [renderListsTail, List.flatMap_cons]
    have hnext : Closer (renderListsTail yss ++ rest) ∨ yss ≠ [] := by
      cases yss with
      | nil => exact Or.inl (by simpa [renderListsTail] using hc)
      | cons _ _ => exact Or.inr (by simp)
    have hd : HeadNot isDigit (renderListsTail yss ++ rest) := by
      cases yss with
      | nil => simpa [renderListsTail] using hc.digit
      | cons _ _ => exact (by decide : isDigit ',' = false)
    have hw : HeadNot isWs (renderListsTail yss ++ rest) := by
      cases yss with
      | nil => simpa [renderListsTail] using hc.ws
      | cons _ _ => exact (by decide : isWs ',' = false)
    rw [hcs, intListsLoop,
      punct_render ',' _ (by decide) (headNot_ws_renderList (by simp) _)]
    simp only [intList_render y ys' _ hys hd hw]
    rw [ih fuel' rest (by simp only [List.length_cons] at hf; omega)
      (fun zs hz => hall zs (by simp [hz])) hc]

theorem renderLists_cons (xs : List Nat) (xss : List (List Nat)) :
    renderLists (xs :: xss) = renderList xs ++ renderListsTail xss := rfl

theorem intLists_render (xss : List (List Nat)) (rest : List Char) (hne : xss ≠ [])
    (hall : ∀ ys ∈ xss, ys ≠ [] ∧ ∀ y ∈ ys, y < usizeLimit) (hc : Closer rest) :
    intLists (renderLists xss ++ rest) = some (xss, rest) := by
  obtain ⟨xs, xss', rfl⟩ : ∃ xs xss', xss = xs :: xss' := by
    cases xss with
    | nil => exact absurd rfl hne
    | cons a b => exact ⟨a, b, rfl⟩
  obtain ⟨hne1, hxs⟩ := hall xs (by simp)
  obtain ⟨x, xs', rfl⟩ : ∃ x xs', xs = x :: xs' := by
    cases xs with
    | nil => exact absurd rfl hne1
    | cons a b => exact ⟨a, b, rfl⟩
  have hd : HeadNot isDigit (renderListsTail xss' ++ rest) := by
    cases xss' with
    | nil => simpa [renderListsTail] using hc.digit
    | cons _ _ => exact (by decide : isDigit ',' = false)
  have hw : HeadNot isWs (renderListsTail xss' ++ rest) := by
    cases xss' with
    | nil => simpa [renderListsTail] using hc.ws
    | cons _ _ => exact (by decide : isWs ',' = false)
  unfold intLists
  rw [renderLists_cons, List.append_assoc, intList_render x xs' _ hxs hd hw]
  simp only
  rw [intListsLoop_render xss' _ rest
    (by rw [List.length_append]; have := renderListsTail_length xss'; omega)
    (fun zs hz => hall zs (by simp [hz])) hc]

/-! ### `lex ∘ render` -/

/-- a specification the printer can emit and the grammar can read: every number fits `usize`,
    no list is empty -/
structure Printed (s : DSymSpec) : Prop where
  setCount : s.setCount < usizeLimit
  symCount : s.symCount < usizeLimit
  size : s.size < usizeLimit
  dim : s.dim < usizeLimit
  op_ne : s.opSpec ≠ []
  m_ne : s.mSpec ≠ []
  ops : ∀ ys ∈ s.opSpec, ys ≠ [] ∧ ∀ y ∈ ys, y < usizeLimit
  ms : ∀ ys ∈ s.mSpec, ys ≠ [] ∧ ∀ y ∈ ys, y < usizeLimit

theorem closer_colon (r : List Char) : Closer (':' :: r) :=
  ⟨headNot_cons (by decide), headNot_cons (by decide), headNot_cons (by decide)⟩
theorem closer_gt (r : List Char) : Closer ('>' :: r) :=
  ⟨headNot_cons (by decide), headNot_cons (by decide), headNot_cons (by decide)⟩

theorem lex_render_aux (s : DSymSpec) (h : Printed s) (trail : List Char) :
    lex (render s ++ trail) = some s := by
  obtain ⟨setCount, symCount, size, dim, opSpec, mSpec⟩ := s
  have hops : HeadNot isWs (renderLists opSpec ++ (':' :: (renderLists mSpec ++ ('>' :: trail)))) := by
    cases opSpec with
    | nil => exact absurd rfl h.op_ne
    | cons xs xss =>
      rw [renderLists_cons, List.append_assoc]
      exact headNot_ws_renderList (h.ops xs (by simp)).1 _
  have hms : HeadNot isWs (renderLists mSpec ++ ('>' :: trail)) := by
    cases mSpec with
    | nil => exact absurd rfl h.m_ne
    | cons xs xss =>
      rw [renderLists_cons, List.append_assoc]
      exact headNot_ws_renderList (h.ms xs (by simp)).1 _
  -- the text after the extents
  have hbody : ∀ c3 : List Char,
      extents c3 = some ((size, dim), ':' :: (renderLists opSpec ++ (':' :: (renderLists mSpec ++ ('>' :: trail))))) →
      lex ('<' :: (natDigits setCount ++ ('.' :: (natDigits symCount ++ (':' :: c3))))) =
        some ⟨setCount, symCount, size, dim, opSpec, mSpec⟩ := by
    intro c3 hext
    have hc3 : HeadNot isWs c3 := by
      cases c3 with
      | nil => trivial
      | cons c r =>
        by_cases hc : isWs c = true
        · exfalso
          unfold extents integer at hext
          have : isDigit c = false := by
            cases hd : isDigit c with
            | false => rfl
            | true => rw [isWs_of_isDigit hd] at hc; cases hc
          simp [List.takeWhile_cons, this] at hext
        · exact (by simpa using hc : isWs c = false)
    unfold lex
    rw [punct_render '<' _ (by decide) (headNot_ws_natDigits setCount _)]
    simp only
    rw [counts_render setCount symCount _ h.setCount h.symCount (headNot_cons (by decide))]
    simp only
    rw [punct_render ':' _ (by decide) hc3]
    simp only
    rw [hext]
    simp only
    rw [punct_render ':' _ (by decide) hops]
    simp only
    rw [intLists_render opSpec _ h.op_ne h.ops (closer_colon _)]
    simp only
    rw [punct_render ':' _ (by decide) hms]
    simp only
    rw [intLists_render mSpec _ h.m_ne h.ms (closer_gt _)]
    simp only
    have hlast : punct '>' ('>' :: trail) = some (ws0 trail) := by
      unfold punct
      rw [ws0_of_headNot (headNot_cons (by decide))]
      simp [chr]
    rw [hlast]
  unfold render fmtHead
  dsimp only
  by_cases hd2 : dim = 2
  · subst hd2
    simp only [if_true, List.append_assoc, List.cons_append, List.nil_append]
    apply hbody
    exact extents_render_two size _ h.size (headNot_cons (by decide)) (headNot_cons (by decide))
  · simp only [hd2, if_false, List.append_assoc, List.cons_append, List.nil_append]
    apply hbody
    exact extents_render_pair size dim _ h.size h.dim (headNot_cons (by decide))

end DSymVerif.Text
