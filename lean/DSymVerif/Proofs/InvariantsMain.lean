/-
The main statement: on every presentation over `±1…±n` the model of `abelian_invariants` returns
exactly the list the Spec computes from the determinantal divisors.
-/
import DSymVerif.Proofs.InvariantsDetChain
import DSymVerif.Proofs.InvariantsDetSpec

namespace DSymVerif.Inv
open DSymVerif.SpecC14

/-! ### the two sorting routines agree -/

theorem insertAsc_eq (x : ℕ) (l : List ℕ) : insertAsc x l = l.orderedInsert (· ≤ ·) x := by
  induction l with
  | nil => rfl
  | cons y ys ih => simp only [insertAsc, List.orderedInsert_cons, ih]

theorem sortAsc_eq (l : List ℕ) : sortAsc l = l.insertionSort (· ≤ ·) := by
  induction l with
  | nil => rfl
  | cons x xs ih =>
    show insertAsc x (sortAsc xs) = _
    rw [ih, insertAsc_eq]; rfl

theorem mergeSort_leNat_eq (l : List ℕ) : l.mergeSort leNat = sortAsc l := by
  rw [sortAsc_eq, ← List.mergeSort_eq_insertionSort (· ≤ ·) l]
  rfl

/-! ### rows -/

theorem rowsOf_ok (n : ℕ) (rels : List (List ℤ)) (h : ∀ w ∈ rels, ∀ g ∈ w, InRange n g) :
    rowsOf n rels = .ok (relMatrix n rels) := by
  induction rels with
  | nil => rfl
  | cons w ws ih =>
    unfold rowsOf
    rw [relatorAsVector_ok n w (h w List.mem_cons_self),
      ih (fun w' hw' => h w' (List.mem_cons_of_mem _ hw'))]
    rfl

theorem relMatrix_rect (n : ℕ) (rels : List (List ℤ)) : Rect (relMatrix n rels) rels.length n := by
  refine ⟨by simp [relMatrix], ?_⟩
  intro row hrow
  unfold relMatrix at hrow
  obtain ⟨w, _, rfl⟩ := List.mem_map.mp hrow
  exact expVec_length n w

/-! ### leading non-zero entries -/

def lead : List ℤ → ℕ
  | [] => 0
  | x :: xs => if x ≠ 0 then 1 + lead xs else 0

theorem lead_le (c : List ℤ) : lead c ≤ c.length := by
  induction c with
  | nil => exact Nat.le_refl _
  | cons x xs ih => unfold lead; split <;> simp <;> omega

theorem lead_nz (c : List ℤ) (i : ℕ) (hi : i < lead c) : c.getD i 0 ≠ 0 := by
  induction c generalizing i with
  | nil => simp [lead] at hi
  | cons x xs ih =>
    unfold lead at hi
    split at hi
    · rename_i hx
      cases i with
      | zero => simpa using hx
      | succ i => simp only [List.getD_cons_succ]; exact ih i (by omega)
    · omega

theorem lead_z (c : List ℤ) (h : lead c < c.length) : c.getD (lead c) 0 = 0 := by
  induction c with
  | nil => simp at h
  | cons x xs ih =>
    unfold lead at h ⊢
    split
    · rename_i hx
      rw [if_pos hx] at h
      rw [show 1 + lead xs = lead xs + 1 by omega, List.getD_cons_succ]
      exact ih (by simp at h; omega)
    · rename_i hx
      simp only [List.getD_cons_zero]
      by_contra h0; exact hx h0

/-! ### from the determinantal divisors to the list -/

section
variable (a : Mat) (n N : ℕ) (c : List ℤ)
variable (hN : min a.length n = N) (hlen : c.length = N)
variable (hnn : ∀ x ∈ c, 0 ≤ x) (hch : ∀ i j, i ≤ j → c.getD i 0 ∣ c.getD j 0)
variable (hd : ∀ k, k ≤ N → detDivisor a n k = (∏ i ∈ Finset.range k, c.getD i 0).natAbs)

include hlen hd in
theorem rankFrom_eq (fuel t : ℕ) (hsum : t + fuel = N) (hpre : ∀ i, i < t → c.getD i 0 ≠ 0) :
    rankFrom a n fuel (t + 1) = lead (c.drop t) := by
  induction fuel generalizing t with
  | zero =>
    have : c.drop t = [] := List.drop_eq_nil_of_le (by omega)
    rw [this]; rfl
  | succ fuel ih =>
    have ht : t < c.length := by omega
    rw [List.drop_eq_getElem_cons ht]
    unfold rankFrom lead
    have hP : (∏ i ∈ Finset.range t, c.getD i 0) ≠ 0 := by
      rw [Finset.prod_ne_zero_iff]
      intro i hi
      exact hpre i (Finset.mem_range.mp hi)
    have hct : c[t] = c.getD t 0 := by
      simp [List.getD_eq_getElem?_getD, List.getElem?_eq_getElem ht]
    have hiff : detDivisor a n (t + 1) ≠ 0 ↔ c[t] ≠ 0 := by
      rw [hd (t + 1) (by omega), Finset.prod_range_succ, hct]
      simp only [ne_eq, Int.natAbs_eq_zero, mul_eq_zero, not_or]
      exact ⟨fun h => h.2, fun h => ⟨hP, h⟩⟩
    by_cases h0 : c[t] ≠ 0
    · rw [if_pos (hiff.mpr h0), if_pos h0]
      rw [ih (t + 1) (by omega) (by
        intro i hi
        by_cases hit : i = t
        · subst hit; rw [← hct]; exact h0
        · exact hpre i (by omega))]
    · rw [if_neg (fun h => h0 (hiff.mp h)), if_neg h0]

include hN hlen hd in
theorem rank_eq : rank a n = lead c := by
  unfold rank
  rw [hN]
  have := rankFrom_eq a n N c hlen hd N 0 (by omega) (by intro i hi; omega)
  simpa using this

include hch hlen in
theorem tail_zero (j : ℕ) (hj : lead c ≤ j) : c.getD j 0 = 0 := by
  by_cases hl : lead c < c.length
  · have h0 := lead_z c hl
    have := hch (lead c) j hj
    rw [h0] at this
    exact zero_dvd_iff.mp this
  · exact getD_default c j 0 (by omega)

include hN hlen hd in
theorem invariantFactors_eq :
    invariantFactors a n = (List.range (lead c)).map (fun k => (c.getD k 0).natAbs) := by
  unfold invariantFactors
  rw [rank_eq a n N c hN hlen hd]
  apply List.map_congr_left
  intro k hk
  rw [List.mem_range] at hk
  have hle := lead_le c
  rw [hd (k + 1) (by omega), hd k (by omega), Finset.prod_range_succ, Int.natAbs_mul]
  have hP : (∏ i ∈ Finset.range k, c.getD i 0).natAbs ≠ 0 := by
    rw [Int.natAbs_ne_zero, Finset.prod_ne_zero_iff]
    intro i hi
    exact lead_nz c i (by have := Finset.mem_range.mp hi; omega)
  exact Nat.mul_div_cancel_left _ (Nat.pos_of_ne_zero hP)

include hN hlen hnn hch hd in
/-- the Spec's list is what `finish` makes of the chain -/
theorem expectedOfMatrix_eq (hNn : N ≤ n) : expectedOfMatrix a n = finish n N c := by
  have hle := lead_le c
  have hsplit : c = (List.range (lead c)).map (fun k => c.getD k 0) ++ List.replicate (N - lead c) 0 := by
    apply List.ext_getElem
    · simp; omega
    · intro i h1 h2
      have hci : c[i] = c.getD i 0 := by
        simp [List.getD_eq_getElem?_getD, List.getElem?_eq_getElem h1]
      by_cases hi : i < lead c
      · rw [List.getElem_append_left (by simpa using hi)]
        simp [hci]
      · rw [List.getElem_append_right (by simpa using Nat.le_of_not_lt hi)]
        simp only [List.getElem_replicate]
        rw [hci]; exact tail_zero N c hlen hch i (by omega)
  have hT : ∀ x ∈ (List.range (lead c)).map (fun k => c.getD k 0), 0 ≤ x := by
    intro x hx
    obtain ⟨k, hk, rfl⟩ := List.mem_map.mp hx
    rw [List.mem_range] at hk
    exact hnn _ (getD_mem (by omega))
  unfold expectedOfMatrix finish
  rw [mergeSort_leNat_eq, invariantFactors_eq a n N c hN hlen hd, rank_eq a n N c hN hlen hd]
  congr 1
  conv_rhs => rw [hsplit]
  rw [List.filter_append, List.map_append, List.map_append, List.append_assoc]
  congr 1
  · -- the non-zero part
    have e : List.map (fun k => (c.getD k 0).natAbs) (List.range (lead c))
        = List.map Int.natAbs (List.map (fun k => c.getD k 0) (List.range (lead c))) := by
      rw [List.map_map]; rfl
    rw [e, List.filter_map]
    apply congrArg
    apply List.filter_congr
    intro x hx
    have := hT x hx
    simp only [Function.comp, ne_eq, decide_not, Bool.not_eq_eq_eq_not, Bool.not_not,
      decide_eq_decide]
    omega
  · -- the zeros
    have : (List.replicate (N - lead c) (0 : ℤ)).filter (fun x => decide (x ≠ 1)) = List.replicate (N - lead c) 0 := by
      rw [List.filter_eq_self]
      intro x hx
      rw [List.eq_of_mem_replicate hx]; decide
    rw [this]
    simp only [List.map_replicate, Int.natAbs_zero, List.replicate_append_replicate]
    congr 1
    omega

end

/-! ### the main statement -/

theorem sortAsc_replicate_zero (k : ℕ) : sortAsc (List.replicate k 0) = List.replicate k 0 := by
  induction k with
  | zero => rfl
  | succ k ih =>
    show insertAsc 0 (sortAsc (List.replicate k 0)) = _
    rw [ih]
    cases k with
    | zero => rfl
    | succ k => simp [List.replicate_succ, insertAsc]

/-- **main statement**: on every presentation over `±1…±n` the model of `abelian_invariants`
    returns the list the Spec computes from the determinantal divisors -/
theorem abelianInvariants_eq_expected (n : ℕ) (rels : List (List ℤ))
    (hin : ∀ w ∈ rels, ∀ g ∈ w, InRange n g) :
    abelianInvariants n rels = .ok (expected n rels) := by
  have hR := relMatrix_rect n rels
  unfold abelianInvariants
  rw [rowsOf_ok n rels hin]
  simp only
  by_cases h0 : n = 0
  · rw [if_pos h0]
    subst h0
    simp [expected, expectedOfMatrix, rank, rankFrom, invariantFactors, sortAsc]
  · rw [if_neg h0]
    by_cases h1 : (relMatrix n rels).length = 0
    · rw [if_pos h1]
      have : rels = [] := by
        have := hR.1; rw [h1] at this
        exact List.eq_nil_of_length_eq_zero this.symm
      subst this
      simp [expected, expectedOfMatrix, relMatrix, rank, rankFrom, invariantFactors,
        sortAsc_replicate_zero]
    · rw [if_neg h1]
      have hr : 0 < rels.length := by have := hR.1; omega
      obtain ⟨D, hD, hRD⟩ := diagonalize_some _ rels.length n hR hr
      rw [hD]
      simp only
      rw [hRD.1]
      obtain ⟨hlen, hnn, hch, hdk⟩ := dk_of_model _ D rels.length n hR hr hD
      congr 1
      unfold expected
      symm
      apply expectedOfMatrix_eq (relMatrix n rels) n (min rels.length n) _ (by rw [hR.1]) hlen hnn hch
      · intro k hk
        rw [detDivisor_eq_dk _ rels.length n k hR]
        exact hdk k hk
      · omega

end DSymVerif.Inv
