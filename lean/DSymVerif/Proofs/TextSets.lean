/-
C01, part 13: the two plain D-set `Display` impls.  A complete D-set prints exactly the text
of the symbol over it whose branching numbers are all undefined (degrees 0), so the round
trip for symbols covers them.
-/
import DSymVerif.Proofs.TextStable

namespace DSymVerif.Text
open DSymVerif DSymVerif.DS

theorem mapO_congr {α β : Type} (f g : α → Outcome β) :
    ∀ (l : List α), (∀ x ∈ l, f x = g x) → mapO f l = mapO g l := by
  intro l
  induction l with
  | nil => intro _; rfl
  | cons a l ih =>
    intro h
    rw [mapO, mapO, h a (by simp), ih (fun x hx => h x (by simp [hx]))]

/-- on a complete D-set the `PartialDSet` and `SimpleDSet` accessors coincide -/
theorem opPartial_eq_opSimple {ds : DSetData} (h : ValidSet ds) : ds.opPartial = ds.opSimple := by
  funext i d
  unfold DSetData.opPartial DSetData.opSimple
  by_cases hoor : (decide (i > ds.dim) || decide (d < 1) || decide (d > ds.size)) = true
  · rw [if_pos hoor, if_pos hoor]
  · rw [if_neg hoor, if_neg hoor]
    simp only [Bool.or_eq_true, decide_eq_true_eq, not_or, Nat.not_lt] at hoor
    have := (h.range i d (by omega) (by omega) (by omega)).1
    split
    · rename_i h0; omega
    · rfl

theorem fmt_partialDSet_eq {ds : DSetData} (h : ValidSet ds) :
    fmt (Printable.ofPartialDSet ds) = fmt (Printable.ofSimpleDSet ds 1) := by
  unfold Printable.ofPartialDSet Printable.ofSimpleDSet DSetData.viewPartial DSetData.viewSimple
  rw [opPartial_eq_opSimple h]

/-- a complete `SimpleDSet` prints the text of the symbol over it with all branching numbers 0 -/
theorem fmt_simpleDSet_eq {ds : DSetData} (h : ValidSet ds) (c : Nat) :
    fmt (Printable.ofSimpleDSet ds c) = fmt (Printable.ofSimpleDSym (DSymData.ofSimple ds) c 1) := by
  have hinv := SymInv.ofSimple h
  have N := collectOrbits_numbering h (DSymData.ofSimple ds).view rfl
    (fun j e hj he1 he2 => view_op_in_range (DSymData.ofSimple ds) hj he1 he2)
  have hrows : degRows (Printable.ofSimpleDSet ds c) =
      degRows (Printable.ofSimpleDSym (DSymData.ofSimple ds) c 1) := by
    unfold degRows
    apply mapO_congr
    intro i hi
    have hi' : i < ds.dim := List.mem_range.mp hi
    unfold degRow
    show mapO _ ((DSymData.ofSimple ds).view.orbitReps2d i (i + 1)) =
      mapO _ ((DSymData.ofSimple ds).view.orbitReps2d i (i + 1))
    apply mapO_congr
    intro d hd
    have hdr : 1 ≤ d ∧ d ≤ ds.size := by
      have hr := N.reps i hi'
      rw [hr] at hd
      simp only [List.mem_filter, List.mem_range'_1] at hd
      exact ⟨hd.1.1, by omega⟩
    have h1 : (Printable.ofSimpleDSet ds c).m i d = .ok (some 0) := by
      show Outcome.ok (View.m ⟨ds.size, ds.dim, ds.opSimple⟩ i (i + 1) d) = _
      unfold View.m
      dsimp only
      have hd1 := hdr.1
      have hd2 := hdr.2
      rw [if_neg (by
        simp only [Bool.or_eq_true, decide_eq_true_eq, not_or, Nat.not_lt]
        omega), if_neg (by omega), if_pos (by simp)]
    have h2 : (Printable.ofSimpleDSym (DSymData.ofSimple ds) c 1).m i d = .ok (some 0) := by
      show (DSymData.ofSimple ds).mPartial i (i + 1) d = _
      have hv := vPartial_val hinv (show i < (DSymData.ofSimple ds).dim from hi') hdr.1 hdr.2
      have hr := (rPartial_val hinv (show i < (DSymData.ofSimple ds).dim from hi') hdr.1 hdr.2).1
      have hz : (DSymData.ofSimple ds).orbitVs.getD (ixf (DSymData.ofSimple ds) i d) 0 = 0 :=
        getD_replicate _ _
      rw [hz] at hv
      have := DSymData.mOf_some hr hv
      rw [Nat.mul_zero] at this
      exact this
    rw [h1, h2]
  unfold fmt
  rw [hrows]
  rfl

/-- printing a complete D-set (either representation) and parsing the text yields the symbol over
    that D-set with no branching number defined -/
theorem print_parse_dset {ds : DSetData} (h : ValidSet ds) (c : Nat) (h1 : 1 ≤ ds.size) (h2 : 1 ≤ ds.dim)
    (hc : c < usizeLimit) (hs : ds.size < usizeLimit) (hd : ds.dim + 1 < usizeLimit)
    (ht : ds.size * (ds.dim + 1) < allocLimit) :
    ∃ cs t, fmt (Printable.ofSimpleDSet ds c) = .ok cs ∧ parse cs = .ok t ∧
      SameSym (DSymData.ofSimple ds) t := by
  rw [fmt_simpleDSet_eq h c]
  have hU : (1 : Nat) < usizeLimit := by unfold usizeLimit; decide
  apply print_parse (DSymData.ofSimple ds) c 1 (SymInv.ofSimple h) h1 h2
  refine ⟨hc, hU, hs, hd, ht, ?_⟩
  intro i d _ _ _
  unfold degOf
  have hz : (DSymData.ofSimple ds).orbitVs.getD (ixf (DSymData.ofSimple ds) i d) 0 = 0 :=
    getD_replicate _ _
  rw [hz, Nat.mul_zero]
  unfold usizeLimit; decide

end DSymVerif.Text
