/-
Helper lemmas for property C10 (free words), part 2: `FW.cmp` is a strict total order
on all letter lists, agrees with the Spec's `wordCmp` on zero-free words; sorted
insertion; the relator representative is the least element of the list of rotations
and inverses, the relator permutation list is that set, strictly sorted.
-/
import DSymVerif.Proofs.FreeWord

namespace DSymVerif.FWP
open DSymVerif.FW DSymVerif.SpecC10

/-! ### the letter order `1 < 2 < 3 < … < 0 < -1 < -2 < …` -/

theorem letterLt_iff (x y : Int) :
    letterLt x y = true ↔ (0 < x ∧ 0 < y ∧ x < y) ∨ (¬ (0 < x ∧ 0 < y) ∧ y < x) := by
  unfold letterLt
  by_cases hx : 0 < x <;> by_cases hy : 0 < y <;> simp [hx, hy]

theorem letterLt_irrefl (x : Int) : ¬ letterLt x x = true := by
  rw [letterLt_iff]; omega

theorem letterLt_asymm {x y : Int} (h : letterLt x y = true) : ¬ letterLt y x = true := by
  rw [letterLt_iff] at *; omega

theorem letterLt_total {x y : Int} (h : x ≠ y) : letterLt x y = true ∨ letterLt y x = true := by
  rw [letterLt_iff, letterLt_iff]; omega

theorem letterLt_trans {x y z : Int} (h1 : letterLt x y = true) (h2 : letterLt y z = true) :
    letterLt x z = true := by
  rw [letterLt_iff] at *; omega

theorem letterLt_ne {x y : Int} (h : letterLt x y = true) : x ≠ y := by
  rintro rfl; exact letterLt_irrefl x h

theorem letterLt_swap {x y : Int} (h : x ≠ y) : letterLt y x = !letterLt x y := by
  cases h1 : letterLt x y with
  | true => simpa using letterLt_asymm h1
  | false =>
    rcases letterLt_total h with h2 | h2
    · rw [h1] at h2; cases h2
    · simpa using h2

/-! ### `FW.cmp` -/

theorem cmp_self : ∀ a : List Int, FW.cmp a a = .eq
  | [] => rfl
  | x :: xs => by simp [FW.cmp, cmp_self xs]

theorem cmp_eq_iff : ∀ a b : List Int, FW.cmp a b = .eq ↔ a = b
  | [], [] => by simp [FW.cmp]
  | [], _ :: _ => by simp [FW.cmp]
  | _ :: _, [] => by simp [FW.cmp]
  | x :: xs, y :: ys => by
      by_cases h : x = y
      · subst h; simp [FW.cmp, cmp_eq_iff xs ys]
      · by_cases hl : letterLt x y = true <;> simp [FW.cmp, h, hl]

theorem cmp_swap : ∀ a b : List Int, FW.cmp b a = (FW.cmp a b).swap
  | [], [] => rfl
  | [], _ :: _ => rfl
  | _ :: _, [] => rfl
  | x :: xs, y :: ys => by
      by_cases h : x = y
      · subst h; simp [FW.cmp, cmp_swap xs ys]
      · have h' : y ≠ x := fun e => h e.symm
        simp only [FW.cmp, ne_eq, h, h', not_false_eq_true, if_true, letterLt_swap h]
        cases letterLt x y <;> rfl

theorem cmp_lt_iff_gt (a b : List Int) : FW.cmp a b = .lt ↔ FW.cmp b a = .gt := by
  rw [cmp_swap a b]; cases FW.cmp a b <;> simp [Ordering.swap]

theorem cmp_trans : ∀ {a b c : List Int}, FW.cmp a b = .lt → FW.cmp b c = .lt → FW.cmp a c = .lt
  | [], [], _, h, _ => by simp [FW.cmp] at h
  | [], _ :: _, [], _, h => by simp [FW.cmp] at h
  | [], _ :: _, _ :: _, _, _ => rfl
  | _ :: _, [], _, h, _ => by simp [FW.cmp] at h
  | _ :: _, _ :: _, [], _, h => by simp [FW.cmp] at h
  | x :: xs, y :: ys, z :: zs, h1, h2 => by
      by_cases hxy : x = y
      · subst hxy
        by_cases hyz : x = z
        · subst hyz
          simp only [FW.cmp, ne_eq, not_true_eq_false, if_false] at h1 h2 ⊢
          exact cmp_trans h1 h2
        · simp only [FW.cmp, ne_eq, not_true_eq_false, if_false] at h1
          simp only [FW.cmp, ne_eq, hyz, not_false_eq_true, if_true] at h2 ⊢
          exact h2
      · by_cases hyz : y = z
        · subst hyz
          simp only [FW.cmp, ne_eq, hxy, not_false_eq_true, if_true] at h1 ⊢
          exact h1
        · simp only [FW.cmp, ne_eq, hxy, not_false_eq_true, if_true] at h1
          simp only [FW.cmp, ne_eq, hyz, not_false_eq_true, if_true] at h2
          have l1 : letterLt x y = true := by
            cases h : letterLt x y with
            | true => rfl
            | false => rw [h] at h1; simp at h1
          have l2 : letterLt y z = true := by
            cases h : letterLt y z with
            | true => rfl
            | false => rw [h] at h2; simp at h2
          have l3 := letterLt_trans l1 l2
          have hxz : x ≠ z := letterLt_ne l3
          simp [FW.cmp, hxz, l3]

theorem cmp_irrefl (a : List Int) : FW.cmp a a ≠ .lt := by rw [cmp_self]; simp

theorem cmp_total (a b : List Int) : FW.cmp a b = .lt ∨ a = b ∨ FW.cmp b a = .lt := by
  cases h : FW.cmp a b with
  | lt => exact Or.inl rfl
  | eq => exact Or.inr (Or.inl ((cmp_eq_iff a b).1 h))
  | gt => exact Or.inr (Or.inr ((cmp_lt_iff_gt b a).2 h))

/-- `a ≤ b` in the order of `Ord for FreeWord` -/
def Le (a b : List Int) : Prop := FW.cmp a b ≠ .gt

theorem le_iff (a b : List Int) : Le a b ↔ FW.cmp a b = .lt ∨ a = b := by
  unfold Le
  rw [← cmp_eq_iff]
  cases FW.cmp a b <;> simp

theorem le_refl (a : List Int) : Le a a := by simp [Le, cmp_self]

theorem le_of_lt {a b : List Int} (h : FW.cmp a b = .lt) : Le a b := by simp [Le, h]

theorem le_of_not_lt {a b : List Int} (h : FW.cmp b a ≠ .lt) : Le a b := by
  unfold Le
  intro hg
  exact h ((cmp_lt_iff_gt b a).2 hg)

theorem le_trans {a b c : List Int} (h1 : Le a b) (h2 : Le b c) : Le a c := by
  rw [le_iff] at *
  rcases h1 with h1 | rfl
  · rcases h2 with h2 | rfl
    · exact Or.inl (cmp_trans h1 h2)
    · exact Or.inl h1
  · exact h2

theorem le_antisymm {a b : List Int} (h1 : Le a b) (h2 : Le b a) : a = b := by
  rw [le_iff] at *
  rcases h1 with h1 | rfl
  · rcases h2 with h2 | rfl
    · exact absurd (cmp_trans h1 h2) (cmp_irrefl a)
    · rfl
  · rfl

/-! ### agreement with the Spec's `wordCmp` on zero-free words -/

/-- `Ordering` as the Spec's integer code -/
def ordInt : Ordering → Int
  | .lt => -1
  | .eq => 0
  | .gt => 1

theorem keyLt_eq_letterLt {x y : Int} (hx : x ≠ 0) (hy : y ≠ 0) : keyLt x y = letterLt x y := by
  rw [Bool.eq_iff_iff, letterLt_iff]
  unfold keyLt
  by_cases h1 : x < 0 <;> by_cases h2 : y < 0 <;> simp [h1, h2] <;> omega

theorem wordCmp_eq_cmp : ∀ {a b : List Int}, NZ a → NZ b → wordCmp a b = ordInt (FW.cmp a b)
  | [], [], _, _ => rfl
  | [], _ :: _, _, _ => rfl
  | _ :: _, [], _, _ => rfl
  | x :: xs, y :: ys, ha, hb => by
      have hx : x ≠ 0 := ha x (by simp)
      have hy : y ≠ 0 := hb y (by simp)
      by_cases h : x = y
      · subst h
        simp only [wordCmp, FW.cmp, beq_self_eq_true, if_true, ne_eq, not_true_eq_false, if_false]
        exact wordCmp_eq_cmp (fun z hz => ha z (by simp [hz])) (fun z hz => hb z (by simp [hz]))
      · have hb' : (x == y) = false := by simpa using h
        simp only [wordCmp, FW.cmp, hb', ne_eq, h, not_false_eq_true, if_true,
          keyLt_eq_letterLt hx hy]
        cases letterLt x y <;> simp [ordInt]

/-! ### sorted insertion (the `BTreeSet`) -/

/-- strictly `cmp`-sorted -/
def Sorted (l : List (List Int)) : Prop := l.Pairwise (fun u v => FW.cmp u v = .lt)

theorem mem_insertSorted (w : List Int) : ∀ (l : List (List Int)) (v : List Int),
    v ∈ insertSorted w l ↔ v = w ∨ v ∈ l
  | [], v => by simp [insertSorted]
  | u :: us, v => by
      unfold insertSorted
      cases h : FW.cmp w u with
      | lt => simp
      | eq =>
        have : w = u := (cmp_eq_iff w u).1 h
        subst this
        simp
      | gt =>
        simp only [List.mem_cons, mem_insertSorted w us v]
        tauto

theorem sorted_insertSorted (w : List Int) : ∀ (l : List (List Int)),
    Sorted l → Sorted (insertSorted w l)
  | [], _ => by simp [insertSorted, Sorted]
  | u :: us, hs => by
      unfold insertSorted
      have hs' := List.pairwise_cons.1 hs
      cases h : FW.cmp w u with
      | lt =>
        refine List.pairwise_cons.2 ⟨?_, hs⟩
        intro v hv
        rcases List.mem_cons.1 hv with rfl | hv
        · exact h
        · exact cmp_trans h (hs'.1 v hv)
      | eq => exact hs
      | gt =>
        refine List.pairwise_cons.2 ⟨?_, sorted_insertSorted w us hs'.2⟩
        intro v hv
        rcases (mem_insertSorted w us v).1 hv with rfl | hv
        · exact (cmp_lt_iff_gt u v).2 h
        · exact hs'.1 v hv

theorem sorted_nodup {l : List (List Int)} (h : Sorted l) : l.Nodup := by
  unfold Sorted at h
  refine List.Pairwise.imp ?_ h
  intro a b hab e
  subst e
  exact cmp_irrefl a hab

/-- inserting a list of words one after the other -/
def insertAll (cs : List (List Int)) (acc : List (List Int)) : List (List Int) :=
  cs.foldl (fun acc w => insertSorted w acc) acc

theorem insertAll_spec : ∀ (cs acc : List (List Int)), Sorted acc →
    Sorted (insertAll cs acc) ∧ ∀ v, v ∈ insertAll cs acc ↔ v ∈ cs ∨ v ∈ acc
  | [], acc, h => by simp [insertAll, h]
  | c :: cs, acc, h => by
      have ih := insertAll_spec cs (insertSorted c acc) (sorted_insertSorted c acc h)
      refine ⟨ih.1, fun v => ?_⟩
      have := ih.2 v
      simp only [insertAll, List.foldl_cons] at this ⊢
      rw [this, mem_insertSorted, List.mem_cons]
      tauto

/-! ### least element of a list of candidates -/

/-- one update `if w < best { best = w }` -/
def minW (w best : List Int) : List Int := if FW.lt w best then w else best

def minAll (cs : List (List Int)) (init : List Int) : List Int :=
  cs.foldl (fun best w => minW w best) init

theorem minW_le_left (w best : List Int) : Le (minW w best) w := by
  unfold minW FW.lt
  by_cases h : FW.cmp w best = .lt
  · simp [h, le_refl]
  · have : (FW.cmp w best == Ordering.lt) = false := by simpa using h
    simp only [this]
    exact le_of_not_lt h

theorem minW_le_right (w best : List Int) : Le (minW w best) best := by
  unfold minW FW.lt
  by_cases h : FW.cmp w best = .lt
  · simp [h, le_of_lt h]
  · have : (FW.cmp w best == Ordering.lt) = false := by simpa using h
    simp only [this]
    exact le_refl _

theorem minW_mem (w best : List Int) : minW w best = w ∨ minW w best = best := by
  unfold minW; split <;> simp

theorem minAll_spec : ∀ (cs : List (List Int)) (init : List Int),
    (minAll cs init = init ∨ minAll cs init ∈ cs) ∧ Le (minAll cs init) init ∧
      ∀ c ∈ cs, Le (minAll cs init) c
  | [], init => by simp [minAll, le_refl]
  | c :: cs, init => by
      have ih := minAll_spec cs (minW c init)
      have e : minAll (c :: cs) init = minAll cs (minW c init) := rfl
      rw [e]
      refine ⟨?_, le_trans ih.2.1 (minW_le_right c init), ?_⟩
      · rcases ih.1 with h | h
        · rcases minW_mem c init with h' | h'
          · right; rw [h, h']; simp
          · left; rw [h, h']
        · right; exact List.mem_cons_of_mem _ h
      · intro c' hc'
        rcases List.mem_cons.1 hc' with rfl | hc'
        · exact le_trans ih.2.1 (minW_le_left _ init)
        · exact ih.2.2 c' hc'

/-! ### relator representative and relator permutations -/

/-- the list the property talks about: every rotation of `a` and its inverse -/
def rotInvList (a : List Int) : List (List Int) :=
  (List.range a.length).flatMap (fun (i : Nat) =>
    [FW.rotated a (i : Int), FW.inverse (FW.rotated a (i : Int))])

/-- the same list in the order in which the two loops visit it -/
def visitList (a : List Int) (is : List Nat) : List (List Int) :=
  is.flatMap (fun (i : Nat) => [FW.inverse (FW.rotated a (i : Int)), FW.rotated a (i : Int)])

theorem mem_visitList (a : List Int) (v : List Int) :
    v ∈ visitList a (List.range a.length) ↔ v ∈ rotInvList a := by
  simp only [visitList, rotInvList, List.mem_flatMap, List.mem_cons, List.not_mem_nil, or_false]
  constructor <;> rintro ⟨i, hi, h⟩ <;> exact ⟨i, hi, h.symm.elim Or.inl Or.inr |>.symm.symm⟩

theorem relRep_fold_eq (a : List Int) : ∀ (is : List Nat) (init : List Int),
    is.foldl (fun best (i : Nat) =>
        let w := FW.rotated a (i : Int)
        let winv := FW.inverse w
        let best := if FW.lt winv best then winv else best
        if FW.lt w best then w else best) init
      = minAll (visitList a is) init
  | [], init => rfl
  | i :: is, init => by
      rw [List.foldl_cons, relRep_fold_eq a is]
      simp [visitList, minAll, minW]

theorem relPerms_fold_eq (a : List Int) : ∀ (is : List Nat) (acc : List (List Int)),
    is.foldl (fun acc (i : Nat) =>
        let w := FW.rotated a (i : Int)
        insertSorted w (insertSorted (FW.inverse w) acc)) acc
      = insertAll (visitList a is) acc
  | [], acc => rfl
  | i :: is, acc => by
      rw [List.foldl_cons, relPerms_fold_eq a is]
      simp [visitList, insertAll]

theorem relRep_nil : FW.relatorRepresentative [] = [] := rfl

theorem relRep_eq {a : List Int} (h : a ≠ []) :
    FW.relatorRepresentative a = minAll (visitList a (List.range a.length)) a := by
  have : a.length ≠ 0 := fun e => h (List.eq_nil_of_length_eq_zero e)
  unfold FW.relatorRepresentative
  rw [if_neg this, relRep_fold_eq]

theorem relPerms_nil : FW.relatorPermutations [] = [[]] := rfl

theorem relPerms_eq' {a : List Int} (h : a ≠ []) :
    FW.relatorPermutations a = insertAll (visitList a (List.range a.length)) [] := by
  have : a.length ≠ 0 := fun e => h (List.eq_nil_of_length_eq_zero e)
  unfold FW.relatorPermutations
  rw [if_neg this, relPerms_fold_eq]

theorem rotated_zero {a : List Int} (h : isReduced a = true) : FW.rotated a 0 = a := by
  by_cases hn : a = []
  · subst hn; rfl
  · rw [rotated_of_ne_nil hn]
    simp [normalized_of_isReduced h]

/-- the representative is ≤ every rotation and every inverse of a rotation (all `a`) -/
theorem relRep_le (a : List Int) : ∀ v ∈ rotInvList a, Le (FW.relatorRepresentative a) v := by
  intro v hv
  by_cases hn : a = []
  · subst hn; simp [rotInvList] at hv
  · rw [relRep_eq hn]
    exact (minAll_spec _ a).2.2 v ((mem_visitList a v).2 hv)

/-- the representative of a reduced non-empty word is one of them -/
theorem relRep_mem {a : List Int} (hr : isReduced a = true) (hn : a ≠ []) :
    FW.relatorRepresentative a ∈ rotInvList a := by
  rw [relRep_eq hn]
  rcases (minAll_spec (visitList a (List.range a.length)) a).1 with h | h
  · rw [h]
    have hpos : 0 < a.length := List.length_pos_iff.2 hn
    simp only [rotInvList, List.mem_flatMap, List.mem_range, List.mem_cons, List.not_mem_nil,
      or_false]
    exact ⟨0, hpos, Or.inl (by simpa using (rotated_zero hr).symm)⟩
  · exact (mem_visitList a _).1 h

theorem relPerms_sorted (a : List Int) : Sorted (FW.relatorPermutations a) := by
  by_cases hn : a = []
  · subst hn; simp [relPerms_nil, Sorted]
  · rw [relPerms_eq' hn]
    exact (insertAll_spec _ [] List.Pairwise.nil).1

theorem mem_relPerms {a : List Int} (hn : a ≠ []) (v : List Int) :
    v ∈ FW.relatorPermutations a ↔ v ∈ rotInvList a := by
  rw [relPerms_eq' hn, (insertAll_spec _ [] List.Pairwise.nil).2 v, mem_visitList]
  simp

end DSymVerif.FWP
