/-
Helper lemmas for property C20, part 5: the generic `PartitionImpl<T>`.

`GWF g`: the forest is well-formed, `elements` is as long as the forest, and `index` / `elements`
are inverse to each other (key a ↦ index i exactly when elements[i] = a).
`grep g z` is the key-level representative: `elements[root(index z)]`, or `z` itself for a key
that was never interned.  The contract `Refines genImpl GInv grep` is proved from the forest
lemmas; interning a new key changes no representative.
-/
import DSymVerif.Proofs.PartitionRefine

namespace DSymVerif.PartP
open DSymVerif DSymVerif.Part

def el (g : GPart) (i : Nat) : Nat := g.elements.getD i 0

theorem el_lt {g : GPart} {i : Nat} (h : i < g.elements.size) : el g i = g.elements[i] := by
  simp [el, Array.getD, h]

/-- key-level representative -/
noncomputable def grep (g : GPart) (z : Nat) : Nat :=
  match lookup g.index z with
  | some i => el g (rootF g.forest.parent i)
  | none => z

structure GWF (g : GPart) : Prop where
  wf : WF g.forest
  size_eq : g.elements.size = g.forest.parent.size
  bij : ∀ a i, lookup g.index a = some i ↔ g.elements[i]? = some a

theorem GWF.idx_lt {g : GPart} (h : GWF g) {a i : Nat} (hl : lookup g.index a = some i) :
    i < g.elements.size := by
  have := (h.bij a i).1 hl
  by_cases hi : i < g.elements.size
  · exact hi
  · rw [Array.getElem?_eq_none (by omega)] at this; cases this

theorem GWF.el_idx {g : GPart} (h : GWF g) {a i : Nat} (hl : lookup g.index a = some i) :
    el g i = a := by
  have h1 := (h.bij a i).1 hl
  have hi := h.idx_lt hl
  rw [el_lt hi]
  rw [Array.getElem?_eq_getElem hi] at h1
  exact Option.some.inj h1

theorem GWF.lookup_el {g : GPart} (h : GWF g) {i : Nat} (hi : i < g.elements.size) :
    lookup g.index (el g i) = some i := by
  rw [h.bij, el_lt hi, Array.getElem?_eq_getElem hi]

theorem GWF.el_inj {g : GPart} (h : GWF g) {i j : Nat} (hi : i < g.elements.size)
    (hj : j < g.elements.size) (e : el g i = el g j) : i = j := by
  have h1 := h.lookup_el hi
  have h2 := h.lookup_el hj
  rw [e, h2] at h1
  exact (Option.some.inj h1).symm

theorem gwf_new : GWF GPart.new :=
  ⟨wf_new, rfl, fun a i => by simp [GPart.new, lookup]⟩

theorem grep_some {g : GPart} {z i : Nat} (h : lookup g.index z = some i) :
    grep g z = el g (rootF g.forest.parent i) := by
  unfold grep; rw [h]

theorem grep_none {g : GPart} {z : Nat} (h : lookup g.index z = none) : grep g z = z := by
  unfold grep; rw [h]

/-- `get_index`: interning changes no representative -/
theorem getIndex_ok {g : GPart} (h : GWF g) (a : Nat) :
    GWF (g.getIndex a).1 ∧ lookup (g.getIndex a).1.index a = some (g.getIndex a).2 ∧
      (∀ x, par (g.getIndex a).1.forest.parent x = par g.forest.parent x) ∧
      (∀ z, grep (g.getIndex a).1 z = grep g z) ∧
      (∀ j, j < g.elements.size → el (g.getIndex a).1 j = el g j) ∧
      g.elements.size ≤ (g.getIndex a).1.elements.size := by
  unfold GPart.getIndex
  cases hl : lookup g.index a with
  | some x => exact ⟨h, hl, fun _ => rfl, fun _ => rfl, fun _ _ => rfl, Nat.le_refl _⟩
  | none =>
    simp only []
    have hpar : ∀ x, par (g.forest.parent.push g.elements.size) x = par g.forest.parent x := by
      intro x; rw [h.size_eq]; exact par_push _ x
    have hrk : ∀ x, rk (g.forest.rank.push 0) x = rk g.forest.rank x := fun x => rk_push _ x
    have wf1 : WF ⟨g.forest.parent.push g.elements.size, g.forest.rank.push 0⟩ :=
      h.wf.of_same (by simp [h.wf.size_eq]) (by simp) hpar hrk
    have hel : ∀ j, j < g.elements.size → (g.elements.push a).getD j 0 = g.elements.getD j 0 := by
      intro j hj
      have hj' : j < (g.elements.push a).size := by simp; omega
      simp only [Array.getD, hj, hj', dite_true]
      exact Array.getElem_push_lt hj
    have hbij : ∀ z i, lookup ((a, g.elements.size) :: g.index) z = some i ↔
        (g.elements.push a)[i]? = some z := by
      intro z i
      simp only [lookup]
      by_cases hz : a = z
      · subst hz
        rw [if_pos rfl]
        constructor
        · intro e; cases e; simp
        · intro e
          by_cases hi : i < g.elements.size
          · rw [Array.getElem?_push_lt hi] at e
            have := (h.bij a i).2 (by rw [Array.getElem?_eq_getElem hi]; exact e)
            rw [hl] at this; cases this
          · by_cases hi' : i = g.elements.size
            · rw [hi']
            · rw [Array.getElem?_eq_none (by simp; omega)] at e; cases e
      · rw [if_neg hz, h.bij z i]
        by_cases hi : i < g.elements.size
        · rw [Array.getElem?_eq_getElem hi, Array.getElem?_eq_getElem (by simp; omega),
            Array.getElem_push_lt hi]
        · rw [Array.getElem?_eq_none (by omega)]
          by_cases hi' : i = g.elements.size
          · subst hi'
            simp only [Array.getElem?_push_size]
            constructor
            · intro e; cases e
            · intro e; exact absurd (Option.some.inj e) hz
          · rw [Array.getElem?_eq_none (by simp; omega)]
    have gwf1 : GWF ⟨(a, g.elements.size) :: g.index, g.elements.push a,
        ⟨g.forest.parent.push g.elements.size, g.forest.rank.push 0⟩⟩ :=
      ⟨wf1, by simp [h.size_eq], hbij⟩
    refine ⟨gwf1, by simp [lookup], hpar, ?_, hel, by simp⟩
    intro z
    have hroot : ∀ i, rootF (g.forest.parent.push g.elements.size) i = rootF g.forest.parent i :=
      fun i => rootF_of_pres h.wf (fun _ _ hr => RootOf.congr hpar hr) i
    by_cases hz : a = z
    · subst hz
      rw [grep_none hl, grep_some (i := g.elements.size) (by simp [lookup])]
      show (g.elements.push a).getD (rootF (g.forest.parent.push g.elements.size) g.elements.size) 0 = a
      rw [hroot, rootF_eq (.root (par_ge (by rw [h.size_eq]; exact Nat.le_refl _)))]
      simp [Array.getD]
    · cases hlz : lookup g.index z with
      | none => rw [grep_none hlz, grep_none (by simp [lookup, hz, hlz])]
      | some i =>
        rw [grep_some hlz, grep_some (i := i) (by simp [lookup, hz, hlz])]
        show (g.elements.push a).getD (rootF (g.forest.parent.push g.elements.size) i) 0 = _
        rw [hroot]
        apply hel
        rw [h.size_eq]
        exact RootOf.lt_size h.wf (rootF_spec h.wf i) (by rw [← h.size_eq]; exact h.idx_lt hlz)

/-- `PartitionImpl::root_index` -/
theorem g_rootIndex_ok {g : GPart} (h : GWF g) (a : Nat) :
    ∃ g' r, GPart.rootIndex g a = .ok (g', r) ∧ GWF g' ∧ (∀ z, grep g' z = grep g z) ∧
      r < g'.elements.size ∧ par g'.forest.parent r = r ∧ el g' r = grep g a ∧
      (∀ z r', RootOf g.forest.parent z r' → RootOf g'.forest.parent z r') ∧
      (∀ j, j < g.elements.size → el g' j = el g j) ∧
      g.elements.size ≤ g'.elements.size := by
  obtain ⟨gwf1, hla, hpar, hgrep, hel, hle⟩ := getIndex_ok h a
  have hx : (g.getIndex a).2 < (g.getIndex a).1.forest.parent.size := by
    rw [← gwf1.size_eq]; exact gwf1.idx_lt hla
  obtain ⟨p', r, hw, wf', hs, hr, pres⟩ := rootWalk_ok gwf1.wf hx
  have gwf' : GWF ⟨(g.getIndex a).1.index, (g.getIndex a).1.elements,
      ⟨p', (g.getIndex a).1.forest.rank⟩⟩ := ⟨wf', by rw [gwf1.size_eq]; exact hs.symm, gwf1.bij⟩
  have hroot : ∀ i, rootF p' i = rootF (g.getIndex a).1.forest.parent i :=
    fun i => rootF_of_pres gwf1.wf pres i
  have hgrep' : ∀ z, grep (⟨(g.getIndex a).1.index, (g.getIndex a).1.elements,
      ⟨p', (g.getIndex a).1.forest.rank⟩⟩ : GPart) z = grep (g.getIndex a).1 z := by
    intro z
    cases hlz : lookup (g.getIndex a).1.index z with
    | none => rw [grep_none hlz, grep_none (g := ⟨_, _, ⟨p', _⟩⟩) hlz]
    | some i =>
      rw [grep_some hlz, grep_some (g := ⟨_, _, ⟨p', _⟩⟩) hlz]
      show Array.getD _ (rootF p' i) 0 = _
      rw [hroot]; rfl
  refine ⟨_, r, ?_, gwf', fun z => by rw [hgrep', hgrep], ?_, ?_, ?_, ?_, hel, hle⟩
  · unfold GPart.rootIndex; rw [hw]
  · show r < (g.getIndex a).1.elements.size
    rw [gwf1.size_eq]; exact RootOf.lt_size gwf1.wf hr hx
  · exact (pres r r (.root hr.isRoot)).isRoot
  · show el (g.getIndex a).1 r = _
    rw [← hgrep a, grep_some hla, rootF_eq hr]
  · intro z r' hz
    exact pres z r' (RootOf.congr hpar hz)

theorem g_find_ok {g : GPart} (h : GWF g) (a : Nat) :
    ∃ g', GPart.find g a = .ok (g', grep g a) ∧ GWF g' ∧ ∀ z, grep g' z = grep g z := by
  obtain ⟨g', r, hr, gwf', hgrep, hlt, _, hel, _⟩ := g_rootIndex_ok h a
  refine ⟨g', ?_, gwf', hgrep⟩
  unfold GPart.find
  rw [hr]; simp only []
  rw [dif_pos hlt, ← hel, el_lt hlt]

theorem g_unite_ok {g : GPart} (h : GWF g) (a b : Nat) :
    ∃ g' w, GPart.unite g a b = .ok g' ∧ GWF g' ∧ (w = grep g a ∨ w = grep g b) ∧
      ∀ z, grep g' z = if grep g z = grep g a ∨ grep g z = grep g b then w else grep g z := by
  obtain ⟨g1, x, h1, gwf1, hg1, hx1, rx1, ex1, _, _, _⟩ := g_rootIndex_ok h a
  obtain ⟨g2, y, h2, gwf2, hg2, hy2, ry2, ey2, pres2, hel2, hle2⟩ := g_rootIndex_ok gwf1 b
  have hx2 : x < g2.elements.size := by omega
  have rx2 : par g2.forest.parent x = x := (pres2 x x (.root rx1)).isRoot
  have ex2 : el g2 x = grep g a := by rw [hel2 x hx1, ex1]
  have ey2' : el g2 y = grep g b := by rw [ey2, hg1]
  obtain ⟨f', w, hl, wf', hs', hw, roots⟩ :=
    link_ok gwf2.wf (by rw [← gwf2.size_eq]; exact hx2) (by rw [← gwf2.size_eq]; exact hy2) rx2 ry2
  have gwf' : GWF ⟨g2.index, g2.elements, f'⟩ := ⟨wf', by rw [hs']; exact gwf2.size_eq, gwf2.bij⟩
  have hg : ∀ z, grep g2 z = grep g z := fun z => by rw [hg2, hg1]
  refine ⟨⟨g2.index, g2.elements, f'⟩, el g2 w, ?_, gwf', ?_, ?_⟩
  · unfold GPart.unite; rw [h1]; simp only []; rw [h2]; simp only []; rw [hl]
  · rcases hw with e | e
    · left; rw [e, ex2]
    · right; rw [e, ey2']
  · intro z
    rw [← hg z, ← ex2, ← ey2']
    cases hlz : lookup g2.index z with
    | none =>
      rw [grep_none (g := ⟨g2.index, g2.elements, f'⟩) hlz, grep_none hlz, if_neg]
      rintro (e | e)
      · rw [e, gwf2.lookup_el hx2] at hlz; cases hlz
      · rw [e, gwf2.lookup_el hy2] at hlz; cases hlz
    | some i =>
      have hi : i < g2.forest.parent.size := by rw [← gwf2.size_eq]; exact gwf2.idx_lt hlz
      have hri := rootF_spec gwf2.wf i
      have hrs : rootF g2.forest.parent i < g2.elements.size := by
        rw [gwf2.size_eq]; exact RootOf.lt_size gwf2.wf hri hi
      rw [grep_some (g := ⟨g2.index, g2.elements, f'⟩) hlz, grep_some hlz]
      show el g2 (rootF f'.parent i) = _
      rw [rootF_eq (roots i _ hri)]
      by_cases c : rootF g2.forest.parent i = x ∨ rootF g2.forest.parent i = y
      · rw [if_pos c, if_pos]
        rcases c with c | c
        · left; rw [c]
        · right; rw [c]
      · rw [if_neg c, if_neg]
        rintro (e | e)
        · exact c (Or.inl (gwf2.el_inj hrs hx2 e))
        · exact c (Or.inr (gwf2.el_inj hrs hy2 e))

/-- generic partition `g` represents the unions `us` -/
def GInv (g : GPart) (us : List (Nat × Nat)) : Prop :=
  GWF g ∧ ∀ u v, grep g u = grep g v ↔ Conn us u v

theorem grep_idem {g : GPart} (h : GWF g) (a : Nat) : grep g (grep g a) = grep g a := by
  cases hl : lookup g.index a with
  | none => rw [grep_none hl, grep_none hl]
  | some i =>
    have hi : i < g.forest.parent.size := by rw [← h.size_eq]; exact h.idx_lt hl
    have hrs : rootF g.forest.parent i < g.elements.size := by
      rw [h.size_eq]; exact RootOf.lt_size h.wf (rootF_spec h.wf i) hi
    rw [grep_some hl, grep_some (h.lookup_el hrs), rootF_idem h.wf]

theorem gen_refines : Refines genImpl GInv grep where
  new := by
    refine ⟨gwf_new, fun u v => ?_⟩
    have hn : ∀ z, grep GPart.new z = z := fun z => grep_none (by simp [GPart.new, lookup])
    show grep GPart.new u = grep GPart.new v ↔ _
    rw [hn, hn]; exact conn_nil_iff.symm
  rep_conn := fun h => h.2
  rep_idem := fun h a => grep_idem h.1 a
  find := by
    intro s us h a
    obtain ⟨g', hf, gwf', hr⟩ := g_find_ok h.1 a
    exact ⟨g', hf, ⟨gwf', fun u v => by rw [hr, hr]; exact h.2 u v⟩, hr⟩
  unite := by
    intro s us h a b
    obtain ⟨g', w, hu, gwf', hw, hr⟩ := g_unite_ok h.1 a b
    exact ⟨g', w, hu, ⟨gwf', merge_rep h.2 hw hr⟩, hw, hr⟩

end DSymVerif.PartP
