/-
Lemmas about the model of the D-set generator, part 4: `next_undefined`, the invariant
of all states reachable in the search tree, and what it says about emitted sets.
Core Lean only.
-/
import DSymVerif.Proofs.DSetGenInv

namespace DSymVerif.DSG
open DSymVerif.DS

/-! ### next_undefined -/

/-- row-major order on (index, chamber) positions: chamber first, then index -/
def Before (p q : Nat × Nat) : Prop := p.2 < q.2 ∨ (p.2 = q.2 ∧ p.1 < q.1)

theorem firstUndef_spec {ds : DSetData} (hv : ValidPartialSet ds) :
    ∀ (l : List (Nat × Nat)), l.Pairwise Before →
    (∀ p, p ∈ l → p.1 ≤ ds.dim ∧ 1 ≤ p.2 ∧ p.2 ≤ ds.size) →
    ∃ r, firstUndef ds l = .ok r ∧
      (∀ p, r = some p → p ∈ l ∧ ds.opU p.1 p.2 = 0 ∧
        ∀ q, q ∈ l → Before q p → ds.opU q.1 q.2 ≠ 0) ∧
      (r = none → ∀ q, q ∈ l → ds.opU q.1 q.2 ≠ 0) := by
  intro l
  induction l with
  | nil =>
    intro _ _
    exact ⟨none, rfl, (by intro p h; cases h), (by intro _ q hq; cases hq)⟩
  | cons a l ih =>
    intro hp hr
    obtain ⟨i, d⟩ := a
    have ha := hr (i, d) (by simp)
    obtain ⟨hal, hpl⟩ := List.pairwise_cons.1 hp
    simp only [firstUndef, opC_valid hv ha.1 ha.2.1 ha.2.2]
    by_cases hz : ds.opU i d = 0
    · refine ⟨some (i, d), by simp [hz], ?_, by intro h; cases h⟩
      intro p hp'
      cases hp'
      refine ⟨by simp, hz, ?_⟩
      intro q hq hb
      exfalso
      rcases List.mem_cons.1 hq with rfl | hq
      · unfold Before at hb; omega
      · have := hal q hq
        unfold Before at hb this
        omega
    · obtain ⟨r, hr', h1, h2⟩ := ih hpl (fun p hp' => hr p (by simp [hp']))
      refine ⟨r, by simp [hz, hr'], ?_, ?_⟩
      · intro p hp'
        obtain ⟨a1, a2, a3⟩ := h1 p hp'
        refine ⟨by simp [a1], a2, ?_⟩
        intro q hq hb
        rcases List.mem_cons.1 hq with rfl | hq
        · exact hz
        · exact a3 q hq hb
      · intro hn q hq
        rcases List.mem_cons.1 hq with rfl | hq
        · exact hz
        · exact h2 hn q hq

theorem mem_scanPositions {ds : DSetData} {i0 d0 : Nat} (hi0 : i0 ≤ ds.dim) (hd0 : d0 ≤ ds.size)
    (p : Nat × Nat) :
    p ∈ scanPositions ds i0 d0 ↔
      (p.2 = d0 ∧ i0 ≤ p.1 ∧ p.1 ≤ ds.dim) ∨ (d0 < p.2 ∧ p.2 ≤ ds.size ∧ p.1 ≤ ds.dim) := by
  obtain ⟨i, d⟩ := p
  unfold scanPositions
  simp only [List.mem_append, List.mem_map, List.mem_flatMap, List.mem_range'_1, List.mem_range,
    Prod.mk.injEq]
  constructor
  · rintro (⟨a, ha, rfl, rfl⟩ | ⟨a, ha, b, hb, rfl, rfl⟩)
    · left; omega
    · right; omega
  · rintro (⟨rfl, h1, h2⟩ | ⟨h1, h2, h3⟩)
    · left; exact ⟨i, by omega, rfl, rfl⟩
    · right; exact ⟨d, by omega, i, by omega, rfl, rfl⟩

theorem pairwise_scanPositions (ds : DSetData) (i0 d0 : Nat) :
    (scanPositions ds i0 d0).Pairwise Before := by
  unfold scanPositions
  rw [List.pairwise_append]
  refine ⟨?_, ?_, ?_⟩
  · rw [List.pairwise_map]
    exact (List.pairwise_lt_range' (s := i0) (n := ds.dim + 1 - i0)).imp
      (fun {a b} h => Or.inr ⟨rfl, h⟩)
  · rw [List.pairwise_flatMap]
    refine ⟨?_, ?_⟩
    · intro d _
      rw [List.pairwise_map]
      exact (List.pairwise_lt_range (n := ds.dim + 1)).imp (fun {a b} h => Or.inr ⟨rfl, h⟩)
    · refine (List.pairwise_lt_range' (s := d0 + 1) (n := ds.size - d0)).imp ?_
      intro a b hab x hx y hy
      simp only [List.mem_map] at hx hy
      obtain ⟨_, _, rfl⟩ := hx
      obtain ⟨_, _, rfl⟩ := hy
      exact Or.inl hab
  · intro a ha b hb
    simp only [List.mem_map, List.mem_flatMap, List.mem_range'_1] at ha hb
    obtain ⟨_, _, rfl⟩ := ha
    obtain ⟨d, hd, _, _, rfl⟩ := hb
    exact Or.inl (by simp only; omega)

/-- `next_undefined(ds, i0, d0)` returns the first undefined position at or after
    `(i0, d0)` in row-major order, `None` when there is none; it does not panic -/
theorem nextUndefined_spec {ds : DSetData} (hv : ValidPartialSet ds) {i0 d0 : Nat}
    (hi0 : i0 ≤ ds.dim) (h1 : 1 ≤ d0) (h2 : d0 ≤ ds.size) :
    ∃ r, nextUndefined ds i0 d0 = .ok r ∧
      (∀ i d, r = some (i, d) → i ≤ ds.dim ∧ 1 ≤ d ∧ d ≤ ds.size ∧ ds.opU i d = 0 ∧
        ∀ i' d', i' ≤ ds.dim → 1 ≤ d' → d' ≤ ds.size → ¬ Before (i', d') (i0, d0) →
          Before (i', d') (i, d) → ds.opU i' d' ≠ 0) ∧
      (r = none → ∀ i' d', i' ≤ ds.dim → 1 ≤ d' → d' ≤ ds.size → ¬ Before (i', d') (i0, d0) →
        ds.opU i' d' ≠ 0) := by
  have hmem := mem_scanPositions hi0 h2
  have hin : ∀ i' d', i' ≤ ds.dim → 1 ≤ d' → d' ≤ ds.size → ¬ Before (i', d') (i0, d0) →
      (i', d') ∈ scanPositions ds i0 d0 := by
    intro i' d' a b c hb
    rw [hmem]
    unfold Before at hb
    simp only at hb ⊢
    omega
  obtain ⟨r, hr, hs, hn⟩ := firstUndef_spec hv (scanPositions ds i0 d0)
    (pairwise_scanPositions ds i0 d0) (by
      intro p hp
      have := (hmem p).1 hp
      omega)
  refine ⟨r, hr, ?_, ?_⟩
  · intro i d hrd
    obtain ⟨a1, a2, a3⟩ := hs (i, d) hrd
    have := (hmem (i, d)).1 a1
    simp only at this a2
    refine ⟨by omega, by omega, by omega, a2, ?_⟩
    intro i' d' a b c hb hb'
    exact a3 (i', d') (hin i' d' a b c hb) hb'
  · intro hrn i' d' a b c hb
    exact hn hrn (i', d') (hin i' d' a b c hb)

/-! ### check_canonicity does not change the length of `is_remap_start` -/

theorem canonLoop_size (ds : DSetData) (maxSize : Nat) :
    ∀ (l : List Nat) (irs irs' : Array Bool),
    canonLoop ds maxSize l irs = .ok (some irs') → irs'.size = irs.size := by
  intro l
  induction l with
  | nil => intro irs irs' h; simp only [canonLoop] at h; cases h; rfl
  | cons d l ih =>
    intro irs irs' h
    simp only [canonLoop] at h
    split at h
    · exact ih _ _ h
    · split at h
      · split at h
        · cases h
        · split at h
          · split at h
            · rename_i irs1 hput
              have := ih _ _ h
              rw [this, (putC_ok hput).2, Array.size_setIfInBounds]
            · cases h
          · exact ih _ _ h
      · cases h
    · cases h

/-! ### the invariant of reachable states -/

def PrefixDefined (ds : DSetData) (i d : Nat) : Prop :=
  ∀ i' d', i' ≤ ds.dim → 1 ≤ d' → d' ≤ ds.size → Before (i', d') (i, d) → ds.opU i' d' ≠ 0

/-- every chamber but the first is joined to a smaller one by a defined entry -/
def Linked (ds : DSetData) : Prop :=
  ∀ e, 2 ≤ e → e ≤ ds.size → ∃ i, i ≤ ds.dim ∧ 1 ≤ ds.opU i e ∧ ds.opU i e < e

structure GInv (dim maxSize : Nat) (s : GenState) : Prop where
  valid : ValidPartialSet s.dset
  dim_eq : s.dset.dim = dim
  size_pos : 1 ≤ s.dset.size
  size_le : s.dset.size ≤ maxSize ∨ (s.dset.size = 1 ∧ s.next ≠ none)
  irs : s.isRemapStart.size = maxSize + 1
  linked : Linked s.dset
  next_some : ∀ i d, s.next = some (i, d) →
    i ≤ dim ∧ 1 ≤ d ∧ d ≤ s.dset.size ∧ s.dset.opU i d = 0 ∧ PrefixDefined s.dset i d
  next_none : s.next = none → ∀ i d, i ≤ dim → 1 ≤ d → d ≤ s.dset.size → s.dset.opU i d ≠ 0

theorem getD_replicate_zero (n k : Nat) : (Array.replicate n 0).getD k 0 = 0 := by
  simp only [Array.getD_eq_getD_getElem?]
  by_cases h : k < n
  · rw [Array.getElem?_eq_getElem (by simpa using h)]; simp
  · rw [Array.getElem?_eq_none (by simpa using h)]; rfl

/-- the root state for `dim ≥ 1` -/
def rootState (dim maxSize : Nat) : GenState :=
  { dset := ⟨1, dim, Array.replicate (1 * (dim + 1)) 0⟩,
    isRemapStart := Array.replicate (maxSize + 1) false, next := some (0, 1) }

theorem root_eq (dim maxSize : Nat) :
    root dim maxSize = if dim < 1 then .panicked else .st (rootState dim maxSize) := by
  unfold root DSetData.new rootState
  by_cases h : dim < 1
  · simp [h]
  · simp [h]

theorem rootState_inv (dim maxSize : Nat) : GInv dim maxSize (rootState dim maxSize) := by
  have hop : ∀ i d, (rootState dim maxSize).dset.opU i d = 0 :=
    fun i d => getD_replicate_zero _ _
  have hsz : (rootState dim maxSize).dset.size = 1 := rfl
  have hdm : (rootState dim maxSize).dset.dim = dim := rfl
  have hnx : (rootState dim maxSize).next = some (0, 1) := rfl
  refine ⟨⟨?_, ?_, ?_⟩, hdm, by rw [hsz]; exact Nat.le_refl _, ?_, ?_, ?_, ?_, ?_⟩
  · show (Array.replicate (1 * (dim + 1)) 0).size = 1 * (dim + 1)
    simp
  · intro i d _ _ _; rw [hop]; omega
  · intro i d _ _ _ hne; exact absurd (hop i d) hne
  · right; exact ⟨hsz, by rw [hnx]; simp⟩
  · show (Array.replicate (maxSize + 1) false).size = maxSize + 1
    simp
  · intro e h2 h1
    rw [hsz] at h1
    omega
  · intro i d h
    rw [hnx] at h
    cases h
    refine ⟨Nat.zero_le _, Nat.le_refl _, by rw [hsz]; exact Nat.le_refl _, hop 0 1, ?_⟩
    intro i' d' _ h1 _ hb
    unfold Before at hb
    simp only at hb
    omega
  · intro h; rw [hnx] at h; cases h

/-- one step of the search keeps the invariant (stated on the intermediate values) -/
theorem step_inv {dim maxSize : Nat} {s c : GenState} {i d e : Nat} {ds0 ds1 : DSetData}
    {irs0 : Array Bool}
    (hs : GInv dim maxSize s) (hnext : s.next = some (i, d)) (hmax : e ≤ maxSize)
    (hg : (s.dset.size < e ∧ e < s.isRemapStart.size ∧ ds0 = s.dset.grow 1 ∧
            irs0 = s.isRemapStart.setIfInBounds e true) ∨
          (¬ s.dset.size < e ∧ ds0 = s.dset ∧ irs0 = s.isRemapStart))
    (hset : setC ds0 i d e = .ok ds1) (himpl : checkImpl ds1 i d = .ok (some c.dset))
    (hirs : irs0.size = maxSize + 1 → c.isRemapStart.size = maxSize + 1)
    (hnx : nextUndefined c.dset i d = .ok c.next) : GInv dim maxSize c := by
  obtain ⟨hi, hd1, hd2, hz, hpre⟩ := hs.next_some i d hnext
  -- the set after `grow`
  have h0 : ValidPartialSet ds0 ∧ ds0.dim = dim ∧ s.dset.size ≤ ds0.size ∧ ds0.size ≤ maxSize ∨
      ValidPartialSet ds0 ∧ ds0.dim = dim ∧ ds0 = s.dset := by
    rcases hg with ⟨hlt, _, rfl, _⟩ | ⟨_, rfl, _⟩
    · left
      refine ⟨grow_valid hs.valid, hs.dim_eq, ?_, ?_⟩
      · show s.dset.size ≤ s.dset.size + 1; omega
      · show s.dset.size + 1 ≤ maxSize; omega
    · right; exact ⟨hs.valid, hs.dim_eq, rfl⟩
  have hv0 : ValidPartialSet ds0 := by rcases h0 with h0 | h0 <;> exact h0.1
  have hdim0 : ds0.dim = dim := by rcases h0 with h0 | h0 <;> exact h0.2.1
  have hsz0 : s.dset.size ≤ ds0.size := by
    rcases h0 with h0 | h0
    · exact h0.2.2.1
    · rw [h0.2.2]; exact Nat.le_refl _
  have hirs0 : irs0.size = maxSize + 1 := by
    rcases hg with ⟨_, _, _, rfl⟩ | ⟨_, _, rfl⟩
    · rw [Array.size_setIfInBounds]; exact hs.irs
    · exact hs.irs
  -- entries of `s` survive in `ds0`
  have hkeep0 : ∀ i' d', i' ≤ dim → 1 ≤ d' → d' ≤ s.dset.size → ds0.opU i' d' = s.dset.opU i' d' := by
    intro i' d' a b c'
    rcases hg with ⟨_, _, rfl, _⟩ | ⟨_, rfl, _⟩
    · rw [grow_opU hs.valid (by rw [hs.dim_eq]; exact a) b, if_pos c']
    · rfl
  obtain ⟨hi0, hd01, hd02, he1, he2, _, _, _, _, _⟩ := setC_ok hset
  have hv1 := setC_valid hv0 hset
  have hx1 := setC_ext hset
  obtain ⟨r, hr, hspec⟩ := checkImpl_spec hv1 (i := i) (d := d) (by rw [hx1.dim_eq]; exact hi0)
    hd01 (by rw [hx1.size_eq]; exact hd02)
  rw [himpl] at hr
  injection hr with hr
  obtain ⟨hv2, hx2⟩ := hspec c.dset hr.symm
  have hx02 := hx1.trans hx2
  have hdimc : c.dset.dim = dim := by rw [hx02.dim_eq]; exact hdim0
  have hszc : c.dset.size = ds0.size := hx02.size_eq
  -- entries of `s` survive in the child
  have hkeep : ∀ i' d', i' ≤ dim → 1 ≤ d' → d' ≤ s.dset.size → s.dset.opU i' d' ≠ 0 →
      c.dset.opU i' d' = s.dset.opU i' d' := by
    intro i' d' a b c' hne
    rw [← hkeep0 i' d' a b c'] at hne ⊢
    exact hx02.opU_keep hne
  have hmaxpos : c.dset.size ≤ maxSize := by
    rw [hszc]
    rcases h0 with h0 | h0
    · exact h0.2.2.2
    · rw [h0.2.2]
      rw [h0.2.2] at he2
      rcases hs.size_le with h | ⟨h, _⟩
      · exact h
      · omega
  -- the new entry
  have hnew : c.dset.opU i d ≠ 0 := by
    have : ds1.opU i d = if i = i ∧ d = e then d else if i = i ∧ d = d then e else ds0.opU i d :=
      setC_opU hset hi0 hd01
    have h1 : ds1.opU i d ≠ 0 := by
      rw [this]; split
      · omega
      · simp; omega
    rw [hx2.opU_keep h1]; exact h1
  obtain ⟨r2, hr2, hsome, hnone⟩ := nextUndefined_spec hv2 (i0 := i) (d0 := d)
    (by rw [hdimc]; exact hi) hd1 (by rw [hszc]; omega)
  rw [hnx] at hr2
  injection hr2 with hr2
  -- all positions before (i, d), and (i, d) itself, are defined in the child
  have hbefore : ∀ i' d', i' ≤ dim → 1 ≤ d' → d' ≤ c.dset.size →
      Before (i', d') (i, d) ∨ (i', d') = (i, d) → c.dset.opU i' d' ≠ 0 := by
    intro i' d' a b c' hb
    rcases hb with hb | hb
    · have hd' : d' ≤ s.dset.size := by unfold Before at hb; simp only at hb; omega
      have := hpre i' d' (by rw [hs.dim_eq]; exact a) b hd' hb
      rw [hkeep i' d' a b hd' this]; exact this
    · cases hb; exact hnew
  have hsplit : ∀ i' d', Before (i', d') (i, d) ∨ (i', d') = (i, d) ∨
      (¬ Before (i', d') (i, d) ∧ (i', d') ≠ (i, d)) := by
    intro i' d'
    by_cases h1 : Before (i', d') (i, d)
    · exact Or.inl h1
    · by_cases h2 : (i', d') = (i, d)
      · exact Or.inr (Or.inl h2)
      · exact Or.inr (Or.inr ⟨h1, h2⟩)
  refine ⟨hv2, hdimc, by rw [hszc]; omega, Or.inl hmaxpos, ?_, ?_, ?_, ?_⟩
  · exact hirs hirs0
  · -- linked
    intro x hx2' hxs
    by_cases hxo : x ≤ s.dset.size
    · obtain ⟨i', hi', h1, h2⟩ := hs.linked x hx2' hxo
      rw [hs.dim_eq] at hi'
      refine ⟨i', by rw [hdimc]; exact hi', ?_⟩
      rw [hkeep i' x hi' (by omega) hxo (by omega)]
      exact ⟨h1, h2⟩
    · -- the new chamber
      rw [hszc] at hxs
      have hxe : x = e := by
        rcases hg with ⟨_, _, rfl, _⟩ | ⟨_, rfl, _⟩
        · have : (s.dset.grow 1).size = s.dset.size + 1 := rfl
          omega
        · omega
      subst hxe
      have h1 : ds1.opU i x = d := by
        rw [setC_opU hset hi0 he1]; simp
      refine ⟨i, by rw [hdimc]; exact hi, ?_⟩
      rw [hx2.opU_keep (by rw [h1]; omega), h1]
      omega
  · -- next = some
    intro i2 d2 hn
    obtain ⟨a1, a2, a3, a4, a5⟩ := hsome i2 d2 (by rw [← hr2]; exact hn)
    refine ⟨by rw [← hdimc]; exact a1, a2, a3, a4, ?_⟩
    intro i' d' b1 b2 b3 hb
    rw [hdimc] at b1
    rcases hsplit i' d' with h1 | h1 | ⟨h1, _⟩
    · exact hbefore i' d' b1 b2 b3 (Or.inl h1)
    · exact hbefore i' d' b1 b2 b3 (Or.inr h1)
    · exact a5 i' d' (by rw [hdimc]; exact b1) b2 b3 h1 hb
  · -- next = none
    intro hn i' d' b1 b2 b3
    rcases hsplit i' d' with h1 | h1 | ⟨h1, _⟩
    · exact hbefore i' d' b1 b2 b3 (Or.inl h1)
    · exact hbefore i' d' b1 b2 b3 (Or.inr h1)
    · exact hnone (by rw [← hr2]; exact hn) i' d' (by rw [hdimc]; exact b1) b2 b3 h1

/-- one step of the search keeps the invariant -/
theorem childFor_inv {dim maxSize : Nat} {s c : GenState} {i d e : Nat}
    (hs : GInv dim maxSize s) (hnext : s.next = some (i, d)) (hmax : e ≤ maxSize)
    (h : childFor maxSize s i d e = .ok (some c)) : GInv dim maxSize c := by
  obtain ⟨ds0, irs0, ds1, hg, hset, himpl, hcan, hnx⟩ := childFor_ok h
  exact step_inv hs hnext hmax hg hset himpl
    (fun h => by rw [canonLoop_size _ _ _ _ _ hcan]; exact h) hnx

theorem children_inv {dim maxSize : Nat} {s : GenState} (hs : GInv dim maxSize s) {c : Node}
    (hc : c ∈ children maxSize (.st s)) :
    c = .panicked ∨ ∃ c', c = .st c' ∧ GInv dim maxSize c' := by
  unfold children at hc
  simp only at hc
  split at hc
  · cases hc
  · rename_i i d hnext
    have hst : storeOk s.dset = true := by
      simp only [storeOk, beq_iff_eq]; exact hs.valid.size_eq
    rw [hst] at hc
    simp only [Bool.not_true, Bool.false_eq_true, if_false] at hc
    obtain ⟨hi, hd1, hd2, hz, _⟩ := hs.next_some i d hnext
    split at hc
    · rename_i cs hcs
      obtain ⟨c', hc', rfl⟩ := List.mem_map.1 hc
      obtain ⟨e, he, _, hfor⟩ := childLoop_mem _ _ hcs c' hc'
      have hr := List.mem_range'_1.1 he
      have hm1 : min (s.dset.size + 1) maxSize ≤ maxSize := Nat.min_le_right _ _
      have hm2 : min (s.dset.size + 1) maxSize ≤ s.dset.size + 1 := Nat.min_le_left _ _
      exact Or.inr ⟨c', rfl, childFor_inv hs hnext (by omega) hfor⟩
    · left; simpa using hc

/-- the invariant holds in every state of the search tree -/
theorem reach_inv {dim maxSize : Nat} {n m : Node} (hr : BT.Reach (problem dim maxSize) n m) :
    (n = .panicked ∨ ∃ s, n = .st s ∧ GInv dim maxSize s) →
    (m = .panicked ∨ ∃ t, m = .st t ∧ GInv dim maxSize t) := by
  induction hr with
  | refl => exact id
  | @step s c t hc _ ih =>
    intro hn
    apply ih
    rcases hn with rfl | ⟨s', rfl, hs'⟩
    · have : c ∈ children maxSize .panicked := hc
      simp [children] at this
    · exact children_inv hs' hc

theorem root_inv (dim maxSize : Nat) :
    root dim maxSize = .panicked ∨ ∃ s, root dim maxSize = .st s ∧ GInv dim maxSize s := by
  rw [root_eq]
  split
  · exact Or.inl rfl
  · exact Or.inr ⟨_, rfl, rootState_inv dim maxSize⟩

/-- every state in the tree satisfies the invariant -/
theorem reachable_inv {dim maxSize : Nat} {t : GenState}
    (hr : BT.Reach (problem dim maxSize) (root dim maxSize) (.st t)) : GInv dim maxSize t := by
  rcases reach_inv hr (root_inv dim maxSize) with h | ⟨t', h, ht'⟩
  · cases h
  · cases h; exact ht'

/-- the emitted sets are the sets of the leaves `next = None` of the tree -/
theorem mem_dsets {dim maxSize : Nat} {ds : DSetData} (h : Outcome.ok ds ∈ dsets dim maxSize) :
    ∃ t, BT.Reach (problem dim maxSize) (root dim maxSize) (.st t) ∧ t.next = none ∧ t.dset = ds := by
  rw [dsets_eq_dfs] at h
  obtain ⟨n, hn, hx⟩ := List.mem_filterMap.1 h
  have hreach := (BT.mem_dfs_iff (problem dim maxSize) (height maxSize)
    (children_decreasing dim maxSize) (root dim maxSize) n).1 hn
  cases n with
  | panicked => simp [extract] at hx
  | st t =>
    simp only [extract] at hx
    split at hx
    · rename_i hnone
      injection hx with hx
      injection hx with hx
      refine ⟨t, hreach, ?_, hx⟩
      cases hnx : t.next with
      | none => rfl
      | some p => rw [hnx] at hnone; simp at hnone
    · cases hx

end DSymVerif.DSG
