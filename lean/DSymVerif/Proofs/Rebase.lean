/-
C12 `rebase_min_invariant`: the canonical form of the Spec (lexicographic minimum over all
base points of the breadth-first renumbering of a table) is a complete invariant of the
table up to isomorphism (bijections of the rows commuting with all letters): isomorphic
tables have equal canonical forms, and two tables whose canonical forms are the same
`some m` are isomorphic.  This is what makes the Spec clauses "pairwise inequivalent" and
"classes equal the brute-force classes" mean what they say.
-/
import DSymVerif.Spec.C12
import DSymVerif.Proofs.CosetAction

namespace DSymVerif.RebaseP
open DSymVerif.SpecC11 DSymVerif.SpecC12 DSymVerif.CosetP

abbrev St := Array Nat × Array (Option (List Int))

theorem getD_setIfInBounds {α : Type} (ws : Array α) (d e : Nat) (v dflt : α) :
    (ws.setIfInBounds d v).getD e dflt = if d = e ∧ d < ws.size then v else ws.getD e dflt := by
  simp only [Array.getD_eq_getD_getElem?, Array.getElem?_setIfInBounds]
  by_cases h : d = e
  · subst h
    by_cases h2 : d < ws.size
    · simp [h2]
    · simp [h2]
  · simp [h]

/-- the visited marks agree with the order array, which has no repetitions -/
structure Marks (N : Nat) (s : St) : Prop where
  wsize : s.2.size = N
  mark : ∀ d, d < N → ((s.2.getD d none).isSome ↔ d ∈ s.1)
  nodup : s.1.toList.Nodup
  lt : ∀ d ∈ s.1, d < N

theorem bfsLetters_marks (t : Tab) (n c : Nat) (wc : List Int) :
    ∀ (gs : List Int) (s : St), Marks t.size s → Marks t.size (bfsLetters t n c wc gs s)
  | [], s, h => by simpa [bfsLetters] using h
  | g :: gs, (ord, ws), h => by
    simp only [bfsLetters]
    cases he : entry t n c g with
    | none => exact bfsLetters_marks t n c wc gs (ord, ws) h
    | some d =>
      simp only []
      have hd : d < t.size := (entry_some he).1
      by_cases hv : (ws.getD d none).isNone = true
      · simp only [hv, if_true]
        apply bfsLetters_marks t n c wc gs
        have hnot : d ∉ ord := by
          intro hm
          have := (h.mark d hd).mpr hm
          simp only [Option.isNone_iff_eq_none] at hv
          rw [hv] at this
          cases this
        refine ⟨by simpa using h.wsize, ?_, ?_, ?_⟩
        · intro e he'
          simp only [getD_setIfInBounds, Array.mem_push]
          by_cases hde : d = e
          · subst hde
            have : d < ws.size := by rw [h.wsize]; exact hd
            simp [this]
          · have : ¬ (d = e ∧ d < ws.size) := fun x => hde x.1
            simp only [this, if_false]
            rw [h.mark e he']
            constructor
            · exact Or.inl
            · rintro (h1 | h1)
              · exact h1
              · exact absurd h1.symm hde
        · simp only [Array.toList_push]
          rw [List.nodup_append]
          refine ⟨h.nodup, by simp, ?_⟩
          intro a ha b hb
          simp only [List.mem_singleton] at hb
          subst hb
          rintro rfl
          exact hnot (by simpa using ha)
        · intro e he'
          rcases Array.mem_push.mp he' with h1 | h1
          · exact h.lt e h1
          · exact h1 ▸ hd
      · simp only [hv]
        exact bfsLetters_marks t n c wc gs (ord, ws) h

theorem bfsLoop_marks (t : Tab) (n : Nat) : ∀ (fuel i : Nat) (s : St),
    Marks t.size s → Marks t.size (bfsLoop t n fuel i s)
  | 0, _, s, h => by simpa [bfsLoop] using h
  | f + 1, i, (ord, ws), h => by
    simp only [bfsLoop]
    by_cases hi : i < ord.size
    · simp only [hi, dif_pos]
      exact bfsLoop_marks t n f (i + 1) _ (bfsLetters_marks t n _ _ _ _ h)
    · simp only [hi, dif_neg, not_false_eq_true]
      exact h

theorem bfs_marks (t : Tab) (n s : Nat) (hs : s < t.size) : Marks t.size (bfs t n s) := by
  unfold bfs
  apply bfsLoop_marks
  refine ⟨by simp, ?_, by simp, ?_⟩
  · intro d hd
    simp only [getD_setIfInBounds, Array.size_replicate]
    by_cases hsd : s = d
    · subst hsd; simp [hs]
    · have : ¬ (s = d ∧ s < t.size) := fun x => hsd x.1
      simp only [this, if_false]
      simp [Array.getD_eq_getD_getElem?, hd]
      exact fun e => hsd e.symm
  · intro d hd
    simp at hd
    exact hd ▸ hs


/-! ### the order array of a successful BFS is a permutation of the rows -/

theorem mem_of_full {N : Nat} {ord : Array Nat} (hn : ord.toList.Nodup) (hlt : ∀ d ∈ ord, d < N)
    (hsz : ord.size = N) : ∀ d, d < N → d ∈ ord := by
  intro d hd
  have hsub : ord.toList ⊆ List.range N := fun x hx => List.mem_range.mpr (hlt x (by simpa using hx))
  have hsp : List.Subperm ord.toList (List.range N) := List.subperm_of_subset hn hsub
  have hperm : List.Perm ord.toList (List.range N) := hsp.perm_of_length_le (by simp [hsz])
  have : d ∈ ord.toList := hperm.mem_iff.mpr (List.mem_range.mpr hd)
  simpa using this

/-- `invertOrder` after the first `k` positions -/
def invFold (ord : Array Nat) (N k : Nat) : Array Nat :=
  (List.range k).foldl (fun acc i => acc.setIfInBounds (ord.getD i 0) i) (Array.replicate N 0)

theorem invertOrder_eq (N : Nat) (ord : Array Nat) : invertOrder N ord = invFold ord N ord.size := rfl

theorem invFold_succ (ord : Array Nat) (N k : Nat) :
    invFold ord N (k + 1) = (invFold ord N k).setIfInBounds (ord.getD k 0) k := by
  unfold invFold
  rw [List.range_succ, List.foldl_append]
  rfl

theorem invFold_size (ord : Array Nat) (N : Nat) : ∀ k, (invFold ord N k).size = N
  | 0 => by simp [invFold]
  | k + 1 => by rw [invFold_succ, Array.size_setIfInBounds, invFold_size ord N k]

theorem getD_of_lt (ord : Array Nat) {i : Nat} (h : i < ord.size) : ord.getD i 0 = ord[i] := by
  simp [Array.getD_eq_getD_getElem?, h]

theorem invFold_get {N : Nat} {ord : Array Nat} (hn : ord.toList.Nodup) (hlt : ∀ d ∈ ord, d < N) :
    ∀ k, k ≤ ord.size → ∀ i, i < k → (invFold ord N k).getD (ord.getD i 0) 0 = i
  | 0, _, i, hi => by omega
  | k + 1, hk, i, hi => by
    rw [invFold_succ, getD_setIfInBounds, invFold_size]
    have hkk : k < ord.size := by omega
    have hii : i < ord.size := by omega
    by_cases hik : i = k
    · subst hik
      have : ord.getD i 0 < N := by rw [getD_of_lt ord hii]; exact hlt _ (by simp)
      rw [if_pos ⟨rfl, this⟩]
    · have hne : ord.getD k 0 ≠ ord.getD i 0 := by
        rw [getD_of_lt ord hkk, getD_of_lt ord hii]
        intro he
        have := (List.Nodup.getElem_inj_iff hn (i := k) (j := i) (hi := by simpa using hkk) (hj := by simpa using hii)).mp (by simpa using he)
        exact hik this.symm
      have : ¬ (ord.getD k 0 = ord.getD i 0 ∧ ord.getD k 0 < N) := fun x => hne x.1
      simp only [this, if_false]
      exact invFold_get hn hlt k (by omega) i (by omega)

/-- `invertOrder` inverts a duplicate-free order array -/
theorem invertOrder_get {N : Nat} {ord : Array Nat} (hn : ord.toList.Nodup) (hlt : ∀ d ∈ ord, d < N)
    (i : Nat) (hi : i < ord.size) : (invertOrder N ord).getD ord[i] 0 = i := by
  rw [invertOrder_eq, ← getD_of_lt ord hi]
  exact invFold_get hn hlt ord.size (Nat.le_refl _) i hi


/-! ### isomorphisms of tables and the renumbered table -/

/-- an isomorphism of tables seen as sets with a (partial) action of the letters: a bijection
    of the rows that commutes with every entry -/
structure TabIso (t t' : Tab) (n : Nat) (σ : Nat → Nat) : Prop where
  size : t'.size = t.size
  lt : ∀ c, c < t.size → σ c < t.size
  inj : ∀ a b, a < t.size → b < t.size → σ a = σ b → a = b
  comm : ∀ c g, c < t.size → entry t' n (σ c) g = (entry t n c g).map σ

theorem letters_col {n : Nat} {g : Int} {j : Nat} (h : col n g = some j) : (letters n)[j]? = some g := by
  unfold col at h
  unfold letters
  by_cases h1 : 1 ≤ g ∧ g ≤ n
  · simp only [h1, and_self, if_true, Option.some.injEq] at h
    subst h
    have hj : g.toNat - 1 < n := by omega
    rw [List.getElem?_append_left (by simpa using hj)]
    simp only [List.getElem?_map, List.getElem?_range hj, Option.map_some, Option.some.injEq]
    omega
  · by_cases h2 : 1 ≤ -g ∧ -g ≤ n
    · simp only [h1, h2, and_self, if_true, if_false, Option.some.injEq] at h
      subst h
      have hj : n + (-g).toNat - 1 - n < n := by omega
      rw [List.getElem?_append_right (by simp; omega)]
      simp only [List.length_map, List.length_range, List.getElem?_map, List.getElem?_range hj,
        Option.map_some, Option.some.injEq]
      omega
    · simp [h1, h2] at h

/-- the table `renumberFrom` builds from an order array and its inverse -/
def renumTab (t : Tab) (n : Nat) (ord o2n : Array Nat) : Tab :=
  ord.map fun c =>
    ((letters n).map fun g =>
      match entry t n c g with
      | some d => ((o2n.getD d 0 : Nat) : Int)
      | none => (-1 : Int)).toArray

theorem renumberFrom_eq (t : Tab) (n s : Nat) :
    renumberFrom t n s =
      if (bfs t n s).1.size ≠ t.size then none
      else some (renumTab t n (bfs t n s).1 (invertOrder t.size (bfs t n s).1)) := rfl

theorem entry_of_row {t : Tab} {n c : Nat} {g : Int} {j : Nat} {row : Array Int} {v : Int}
    (hc : col n g = some j) (hr : t[c]? = some row) (hv : row[j]? = some v) :
    entry t n c g = if 0 ≤ v ∧ v < t.size then some v.toNat else none := by
  simp [entry, hc, hr, hv]

theorem entry_of_col_none {t : Tab} {n c : Nat} {g : Int} (hc : col n g = none) : entry t n c g = none := by
  simp [entry, hc]

theorem entry_renumTab {t : Tab} {n : Nat} {ord o2n : Array Nat} (hsz : ord.size = t.size)
    (ho : ∀ d, d < t.size → o2n.getD d 0 < t.size) (i : Nat) (hi : i < ord.size) (g : Int) :
    entry (renumTab t n ord o2n) n i g = (entry t n ord[i] g).map (fun d => o2n.getD d 0) := by
  have hsize : (renumTab t n ord o2n).size = t.size := by simp [renumTab, hsz]
  cases hc : col n g with
  | none => rw [entry_of_col_none hc, entry_of_col_none hc]; rfl
  | some j =>
    have hrow : (renumTab t n ord o2n)[i]? = some (((letters n).map fun g =>
        match entry t n ord[i] g with
        | some d => ((o2n.getD d 0 : Nat) : Int)
        | none => (-1 : Int)).toArray) := by
      simp [renumTab, hi]
    have hv : (((letters n).map fun g =>
        match entry t n ord[i] g with
        | some d => ((o2n.getD d 0 : Nat) : Int)
        | none => (-1 : Int)).toArray)[j]? = some (match entry t n ord[i] g with
        | some d => ((o2n.getD d 0 : Nat) : Int)
        | none => (-1 : Int)) := by
      simp only [List.getElem?_toArray, List.getElem?_map, letters_col hc, Option.map_some]
    rw [entry_of_row hc hrow hv, hsize]
    cases he : entry t n ord[i] g with
    | none => simp
    | some d =>
      have hd := (entry_some he).1
      have := ho d hd
      have h0 : (0 : Int) ≤ ((o2n.getD d 0 : Nat) : Int) := Int.natCast_nonneg _
      have h1 : ((o2n.getD d 0 : Nat) : Int) < (t.size : Int) := by exact_mod_cast this
      simp only [Option.map_some]
      rw [if_pos ⟨h0, h1⟩]
      simp


/-- what a successful `renumberFrom` provides: a duplicate-free order array listing every
    row, and its inverse -/
structure Renum (t : Tab) (n s : Nat) (u : Tab) (ord o2n : Array Nat) : Prop where
  ord_eq : ord = (bfs t n s).1
  o2n_eq : o2n = invertOrder t.size ord
  u_eq : u = renumTab t n ord o2n
  size : ord.size = t.size
  nodup : ord.toList.Nodup
  lt : ∀ d ∈ ord, d < t.size
  full : ∀ d, d < t.size → d ∈ ord
  inv : ∀ i (hi : i < ord.size), o2n.getD ord[i] 0 = i

theorem renum_of_some {t : Tab} {n s : Nat} {u : Tab} (hs : s < t.size)
    (h : renumberFrom t n s = some u) :
    Renum t n s u (bfs t n s).1 (invertOrder t.size (bfs t n s).1) := by
  rw [renumberFrom_eq] at h
  by_cases hsz : (bfs t n s).1.size ≠ t.size
  · simp [hsz] at h
  · simp only [hsz, if_false, Option.some.injEq] at h
    have hsz' : (bfs t n s).1.size = t.size := by
      by_contra hne
      exact hsz hne
    have hm := bfs_marks t n s hs
    exact ⟨rfl, rfl, h.symm, hsz', hm.nodup, hm.lt, mem_of_full hm.nodup hm.lt hsz',
      fun i hi => invertOrder_get hm.nodup hm.lt i hi⟩

theorem Renum.o2n_lt {t : Tab} {n s : Nat} {u : Tab} {ord o2n : Array Nat} (r : Renum t n s u ord o2n)
    (d : Nat) (hd : d < t.size) : o2n.getD d 0 < t.size := by
  obtain ⟨i, hi, rfl⟩ := Array.mem_iff_getElem.mp (r.full d hd)
  rw [r.inv i hi, ← r.size]
  exact hi

theorem Renum.ord_o2n {t : Tab} {n s : Nat} {u : Tab} {ord o2n : Array Nat} (r : Renum t n s u ord o2n)
    (d : Nat) (hd : d < t.size) : ord.getD (o2n.getD d 0) 0 = d := by
  obtain ⟨i, hi, rfl⟩ := Array.mem_iff_getElem.mp (r.full d hd)
  rw [r.inv i hi, getD_of_lt ord hi]

/-- the renumbered table is isomorphic to the original (old row ↦ new row) -/
theorem Renum.iso_fwd {t : Tab} {n s : Nat} {u : Tab} {ord o2n : Array Nat} (r : Renum t n s u ord o2n) :
    TabIso t u n (fun c => o2n.getD c 0) := by
  refine ⟨by rw [r.u_eq]; simp [renumTab, r.size], fun c hc => r.o2n_lt c hc, ?_, ?_⟩
  · intro a b ha hb hab
    have h1 := r.ord_o2n a ha
    have h2 := r.ord_o2n b hb
    have hab' : o2n.getD a 0 = o2n.getD b 0 := hab
    rw [hab'] at h1
    exact h1.symm.trans h2
  · intro c g hc
    obtain ⟨i, hi, rfl⟩ := Array.mem_iff_getElem.mp (r.full c hc)
    simp only [r.inv i hi]
    rw [r.u_eq]
    exact entry_renumTab r.size (fun d hd => r.o2n_lt d hd) i hi g

/-- and back (new row ↦ old row) -/
theorem Renum.iso_bwd {t : Tab} {n s : Nat} {u : Tab} {ord o2n : Array Nat} (r : Renum t n s u ord o2n) :
    TabIso u t n (fun i => ord.getD i 0) := by
  have husz : u.size = t.size := by rw [r.u_eq]; simp [renumTab, r.size]
  refine ⟨husz.symm, ?_, ?_, ?_⟩
  · intro i hi
    rw [husz] at hi ⊢
    have hi' : i < ord.size := by rw [r.size]; exact hi
    rw [getD_of_lt ord hi']
    exact r.lt _ (by simp)
  · intro a b ha hb hab
    rw [husz] at ha hb
    have ha' : a < ord.size := by rw [r.size]; exact ha
    have hb' : b < ord.size := by rw [r.size]; exact hb
    simp only [getD_of_lt ord ha', getD_of_lt ord hb'] at hab
    have h1 := r.inv a ha'
    have h2 := r.inv b hb'
    rw [hab] at h1
    exact h1.symm.trans h2
  · intro i g hi
    rw [husz] at hi
    have hi' : i < ord.size := by rw [r.size]; exact hi
    simp only [getD_of_lt ord hi']
    rw [r.u_eq, entry_renumTab r.size (fun d hd => r.o2n_lt d hd) i hi' g]
    cases he : entry t n ord[i] g with
    | none => simp
    | some d =>
      simp only [Option.map_some, Option.some.injEq]
      exact (r.ord_o2n d (entry_some he).1).symm


/-! ### the BFS of isomorphic tables runs in lockstep -/

/-- the BFS state of `t'` from `σ s` is the `σ`-image of the BFS state of `t` from `s` -/
structure Rel (N : Nat) (σ : Nat → Nat) (a b : St) : Prop where
  ord : b.1 = a.1.map σ
  asize : a.2.size = N
  bsize : b.2.size = N
  marks : ∀ d, d < N → b.2.getD (σ d) none = a.2.getD d none
  lt : ∀ d ∈ a.1, d < N

theorem bfsLetters_rel {t t' : Tab} {n : Nat} {σ : Nat → Nat} (iso : TabIso t t' n σ)
    (c : Nat) (hc : c < t.size) (wc : List Int) :
    ∀ (gs : List Int) (a b : St), Rel t.size σ a b →
      Rel t.size σ (bfsLetters t n c wc gs a) (bfsLetters t' n (σ c) wc gs b)
  | [], a, b, h => by simpa [bfsLetters] using h
  | g :: gs, (ao, aw), (bo, bw), h => by
    simp only [bfsLetters]
    rw [iso.comm c g hc]
    cases he : entry t n c g with
    | none => exact bfsLetters_rel iso c hc wc gs _ _ h
    | some d =>
      simp only [Option.map_some]
      have hd : d < t.size := (entry_some he).1
      have hm : bw.getD (σ d) none = aw.getD d none := h.marks d hd
      rw [hm]
      by_cases hv : (aw.getD d none).isNone = true
      · simp only [hv, if_true]
        apply bfsLetters_rel iso c hc wc gs
        refine ⟨?_, by simpa using h.asize, by simpa using h.bsize, ?_, ?_⟩
        · have := h.ord
          simp only [] at this ⊢
          rw [this, Array.map_push]
        · intro e he'
          simp only [getD_setIfInBounds]
          have h1 : σ d < bw.size := by rw [h.bsize]; exact iso.lt d hd
          have h2 : d < aw.size := by rw [h.asize]; exact hd
          by_cases hde : d = e
          · subst hde
            simp [h1, h2]
          · have hne : σ d ≠ σ e := fun x => hde (iso.inj d e hd he' x)
            have n1 : ¬ (σ d = σ e ∧ σ d < bw.size) := fun x => hne x.1
            have n2 : ¬ (d = e ∧ d < aw.size) := fun x => hde x.1
            simp only [n1, n2, if_false]
            exact h.marks e he'
        · intro e he'
          rcases Array.mem_push.mp he' with h1 | h1
          · exact h.lt e h1
          · exact h1 ▸ hd
      · simp only [hv]
        exact bfsLetters_rel iso c hc wc gs _ _ h

theorem bfsLoop_rel {t t' : Tab} {n : Nat} {σ : Nat → Nat} (iso : TabIso t t' n σ) :
    ∀ (fuel i : Nat) (a b : St), Rel t.size σ a b →
      Rel t.size σ (bfsLoop t n fuel i a) (bfsLoop t' n fuel i b)
  | 0, _, a, b, h => by simpa [bfsLoop] using h
  | f + 1, i, (ao, aw), (bo, bw), h => by
    simp only [bfsLoop]
    have hord : bo = ao.map σ := h.ord
    have hsz : bo.size = ao.size := by rw [hord]; simp
    by_cases hi : i < ao.size
    · have hi' : i < bo.size := by omega
      simp only [hi, hi', dif_pos]
      have hc : ao[i] < t.size := h.lt _ (by simp)
      have hbi : bo[i] = σ ao[i] := by
        subst hord
        simp
      rw [hbi, h.marks ao[i] hc]
      exact bfsLoop_rel iso f (i + 1) _ _ (bfsLetters_rel iso ao[i] hc _ _ _ _ h)
    · have hi' : ¬ i < bo.size := by omega
      simp only [hi, hi', dif_neg, not_false_eq_true]
      exact h

theorem bfs_rel {t t' : Tab} {n : Nat} {σ : Nat → Nat} (iso : TabIso t t' n σ) (s : Nat)
    (hs : s < t.size) : Rel t.size σ (bfs t n s) (bfs t' n (σ s)) := by
  unfold bfs
  rw [iso.size]
  apply bfsLoop_rel iso
  refine ⟨by simp, by simp, by simp, ?_, ?_⟩
  · intro d hd
    simp only [getD_setIfInBounds, Array.size_replicate]
    by_cases hsd : s = d
    · subst hsd
      simp [hs, iso.lt s hs]
    · have hne : σ s ≠ σ d := fun x => hsd (iso.inj s d hs hd x)
      have n1 : ¬ (σ s = σ d ∧ σ s < t.size) := fun x => hne x.1
      have n2 : ¬ (s = d ∧ s < t.size) := fun x => hsd x.1
      simp only [n1, n2, if_false]
      simp [Array.getD_eq_getD_getElem?, hd, iso.lt d hd]
  · intro d hd
    simp at hd
    exact hd ▸ hs

theorem invFold_rel {N : Nat} {σ : Nat → Nat} {ord : Array Nat}
    (hlt : ∀ d ∈ ord, d < N) (hσ : ∀ c, c < N → σ c < N)
    (hinj : ∀ a b, a < N → b < N → σ a = σ b → a = b) :
    ∀ k, k ≤ ord.size → ∀ d, d < N →
      (invFold (ord.map σ) N k).getD (σ d) 0 = (invFold ord N k).getD d 0
  | 0, _, d, hd => by
    simp [invFold, Array.getD_eq_getD_getElem?, hd, hσ d hd]
  | k + 1, hk, d, hd => by
    rw [invFold_succ, invFold_succ, getD_setIfInBounds, getD_setIfInBounds, invFold_size, invFold_size]
    have hkk : k < ord.size := by omega
    have hk' : k < (ord.map σ).size := by simpa using hkk
    have e1 : (ord.map σ).getD k 0 = σ ord[k] := by
      rw [getD_of_lt _ hk']; simp
    have e2 : ord.getD k 0 = ord[k] := getD_of_lt ord hkk
    have hok : ord[k] < N := hlt _ (by simp)
    rw [e1, e2]
    by_cases hkd : ord[k] = d
    · subst hkd
      simp [hok, hσ _ hok]
    · have hne : σ ord[k] ≠ σ d := fun x => hkd (hinj _ _ hok hd x)
      have n1 : ¬ (σ ord[k] = σ d ∧ σ ord[k] < N) := fun x => hne x.1
      have n2 : ¬ (ord[k] = d ∧ ord[k] < N) := fun x => hkd x.1
      simp only [n1, n2, if_false]
      exact invFold_rel hlt hσ hinj k (by omega) d hd

/-- **invariance**: re-basing commutes with isomorphisms — the table renumbered from `σ s`
    in `t'` is literally the table renumbered from `s` in `t` -/
theorem renumberFrom_iso {t t' : Tab} {n : Nat} {σ : Nat → Nat} (iso : TabIso t t' n σ) (s : Nat)
    (hs : s < t.size) : renumberFrom t' n (σ s) = renumberFrom t n s := by
  have hr := bfs_rel iso s hs
  have hord : (bfs t' n (σ s)).1 = (bfs t n s).1.map σ := hr.ord
  rw [renumberFrom_eq, renumberFrom_eq, hord, iso.size]
  simp only [Array.size_map]
  by_cases hsz : (bfs t n s).1.size ≠ t.size
  · simp [hsz]
  · simp only [hsz, if_false, Option.some.injEq]
    unfold renumTab
    rw [Array.map_map, Array.map_inj_left]
    intro c hc
    have hclt : c < t.size := hr.lt c hc
    simp only [Function.comp]
    congr 1
    rw [List.map_inj_left]
    intro g _
    rw [iso.comm c g hclt]
    cases he : entry t n c g with
    | none => simp
    | some d =>
      simp only [Option.map_some]
      have hd := (entry_some he).1
      rw [invertOrder_eq, invertOrder_eq]
      simp only [Array.size_map]
      rw [invFold_rel hr.lt iso.lt iso.inj _ (Nat.le_refl _) d hd]


/-! ### the lexicographic order and its minimum -/

theorem lexLt_irrefl : ∀ a : List Int, lexLt a a = false
  | [] => rfl
  | x :: xs => by simp [lexLt, lexLt_irrefl xs]

theorem lexLt_trans : ∀ a b c : List Int, lexLt a b = true → lexLt b c = true → lexLt a c = true
  | [], [], _, h, _ => by simp [lexLt] at h
  | [], _ :: _, [], _, h => by simp [lexLt] at h
  | [], _ :: _, _ :: _, _, _ => by simp [lexLt]
  | _ :: _, [], _, h, _ => by simp [lexLt] at h
  | _ :: _, _ :: _, [], _, h => by simp [lexLt] at h
  | x :: xs, y :: ys, z :: zs, h1, h2 => by
    simp only [lexLt] at h1 h2 ⊢
    by_cases hxy : x < y
    · by_cases hyz : y < z
      · have : x < z := by omega
        simp [this]
      · by_cases hzy : z < y
        · simp [hyz, hzy] at h2
        · have : y = z := by omega
          subst this
          simp [hxy]
    · by_cases hyx : y < x
      · simp [hxy, hyx] at h1
      · have hxy' : x = y := by omega
        subst hxy'
        simp only [Int.lt_irrefl, if_false] at h1
        by_cases hyz : x < z
        · simp [hyz]
        · by_cases hzy : z < x
          · simp [hyz, hzy] at h2
          · have : x = z := by omega
            subst this
            simp only [Int.lt_irrefl, if_false] at h2 ⊢
            exact lexLt_trans xs ys zs h1 h2

theorem lexLt_total : ∀ a b : List Int, a ≠ b → lexLt a b = true ∨ lexLt b a = true
  | [], [], h => absurd rfl h
  | [], _ :: _, _ => Or.inl (by simp [lexLt])
  | _ :: _, [], _ => Or.inr (by simp [lexLt])
  | x :: xs, y :: ys, h => by
    simp only [lexLt]
    by_cases hxy : x < y
    · simp [hxy]
    · by_cases hyx : y < x
      · simp [hyx]
      · have : x = y := by omega
        subst this
        simp only [Int.lt_irrefl, if_false]
        exact lexLt_total xs ys (fun e => h (by rw [e]))

theorem lexMin_eq_none : ∀ {l : List (List Int)}, lexMin l = none ↔ l = []
  | [] => by simp [lexMin]
  | x :: xs => by
    simp only [lexMin]
    cases lexMin xs <;> simp

theorem lexMin_spec : ∀ {l : List (List Int)} {m : List Int}, lexMin l = some m →
    m ∈ l ∧ ∀ x ∈ l, lexLt x m = false
  | [], m, h => by simp [lexMin] at h
  | x :: xs, m, h => by
    simp only [lexMin] at h
    cases hm : lexMin xs with
    | none =>
      simp only [hm, Option.some.injEq] at h
      subst h
      have : xs = [] := lexMin_eq_none.mp hm
      subst this
      simp [lexLt_irrefl]
    | some m' =>
      simp only [hm, Option.some.injEq] at h
      obtain ⟨h1, h2⟩ := lexMin_spec hm
      by_cases hlt : lexLt m' x = true
      · simp only [hlt, if_true] at h
        subst h
        refine ⟨List.mem_cons_of_mem _ h1, ?_⟩
        intro y hy
        rcases List.mem_cons.mp hy with rfl | hy
        · cases hyx : lexLt y m' with
          | false => rfl
          | true =>
            have := lexLt_trans _ _ _ hlt hyx
            rw [lexLt_irrefl] at this
            cases this
        · exact h2 y hy
      · have hlt' : lexLt m' x = false := by simpa using hlt
        simp only [hlt', Bool.false_eq_true, if_false] at h
        subst h
        refine ⟨by simp, ?_⟩
        intro y hy
        rcases List.mem_cons.mp hy with rfl | hy
        · exact lexLt_irrefl _
        · cases hyx : lexLt y x with
          | false => rfl
          | true =>
            exfalso
            by_cases hxm : x = m'
            · subst hxm
              rw [h2 y hy] at hyx
              cases hyx
            · rcases lexLt_total x m' hxm with h3 | h3
              · have := lexLt_trans _ _ _ hyx h3
                rw [h2 y hy] at this
                cases this
              · exact hlt h3

/-- the minimum depends only on the set of elements -/
theorem lexMin_congr {l l' : List (List Int)} (h : ∀ x, x ∈ l ↔ x ∈ l') : lexMin l = lexMin l' := by
  cases hm : lexMin l with
  | none =>
    have : l = [] := lexMin_eq_none.mp hm
    subst this
    have : l' = [] := by
      cases l' with
      | nil => rfl
      | cons a r => exact absurd ((h a).mpr (by simp)) (by simp)
    subst this
    rfl
  | some m =>
    cases hm' : lexMin l' with
    | none =>
      have : l' = [] := lexMin_eq_none.mp hm'
      subst this
      exact absurd ((h m).mp (lexMin_spec hm).1) (by simp)
    | some m' =>
      obtain ⟨a1, a2⟩ := lexMin_spec hm
      obtain ⟨b1, b2⟩ := lexMin_spec hm'
      by_cases he : m = m'
      · rw [he]
      · rcases lexLt_total m m' he with h3 | h3
        · rw [b2 m ((h m).mp a1)] at h3
          cases h3
        · rw [a2 m' ((h m').mpr b1)] at h3
          cases h3


/-! ### the canonical form is a complete invariant -/

theorem TabIso.surj {t t' : Tab} {n : Nat} {σ : Nat → Nat} (iso : TabIso t t' n σ) :
    ∀ c', c' < t.size → ∃ c, c < t.size ∧ σ c = c' := by
  intro c' hc'
  let f : Fin t.size → Fin t.size := fun x => ⟨σ x.val, iso.lt x.val x.isLt⟩
  have hinj : Function.Injective f := by
    intro a b hab
    apply Fin.ext
    exact iso.inj a.val b.val a.isLt b.isLt (by simpa [f] using congrArg Fin.val hab)
  obtain ⟨x, hx⟩ := (Finite.injective_iff_surjective.mp hinj) ⟨c', hc'⟩
  exact ⟨x.val, x.isLt, by simpa [f] using congrArg Fin.val hx⟩

theorem TabIso.trans {a b c : Tab} {n : Nat} {σ τ : Nat → Nat} (h1 : TabIso a b n σ)
    (h2 : TabIso b c n τ) : TabIso a c n (τ ∘ σ) := by
  refine ⟨h2.size.trans h1.size, ?_, ?_, ?_⟩
  · intro x hx
    have := h2.lt (σ x) (by rw [h1.size]; exact h1.lt x hx)
    rw [h1.size] at this
    exact this
  · intro x y hx hy hxy
    have hx' : σ x < b.size := by rw [h1.size]; exact h1.lt x hx
    have hy' : σ y < b.size := by rw [h1.size]; exact h1.lt y hy
    exact h1.inj x y hx hy (h2.inj _ _ hx' hy' hxy)
  · intro x g hx
    have hx' : σ x < b.size := by rw [h1.size]; exact h1.lt x hx
    simp only [Function.comp]
    rw [h2.comm (σ x) g hx', h1.comm x g hx, Option.map_map]

theorem mem_rebasings {t : Tab} {n : Nat} {x : List Int} :
    x ∈ rebasings t n ↔ ∃ s, s < t.size ∧ ∃ u, renumberFrom t n s = some u ∧ tabKey u = x := by
  unfold rebasings rowsOf
  simp only [List.mem_filterMap, List.mem_range, Option.map_eq_some_iff]

/-- isomorphic tables have the same set of re-based renumberings -/
theorem rebasings_iso {t t' : Tab} {n : Nat} {σ : Nat → Nat} (iso : TabIso t t' n σ) (x : List Int) :
    x ∈ rebasings t' n ↔ x ∈ rebasings t n := by
  rw [mem_rebasings, mem_rebasings, iso.size]
  constructor
  · rintro ⟨s', hs', u, hu, rfl⟩
    obtain ⟨s, hs, rfl⟩ := iso.surj s' hs'
    exact ⟨s, hs, u, by rw [← renumberFrom_iso iso s hs]; exact hu, rfl⟩
  · rintro ⟨s, hs, u, hu, rfl⟩
    exact ⟨σ s, iso.lt s hs, u, by rw [renumberFrom_iso iso s hs]; exact hu, rfl⟩

/-- ○ `rebase_min_invariant`, invariance: isomorphic tables have the same canonical form -/
theorem canonicalForm_iso {t t' : Tab} {n : Nat} {σ : Nat → Nat} (iso : TabIso t t' n σ) :
    canonicalForm t' n = canonicalForm t n :=
  lexMin_congr (rebasings_iso iso)

theorem flatten_inj_of_width {α : Type} (w : Nat) : ∀ (l l' : List (List α)),
    l.length = l'.length → (∀ r ∈ l, r.length = w) → (∀ r ∈ l', r.length = w) →
    l.flatten = l'.flatten → l = l'
  | [], [], _, _, _, _ => rfl
  | [], _ :: _, h, _, _, _ => by simp at h
  | _ :: _, [], h, _, _, _ => by simp at h
  | a :: l, b :: l', h, h1, h2, hf => by
    simp only [List.flatten_cons] at hf
    have ha : a.length = w := h1 a (by simp)
    have hb : b.length = w := h2 b (by simp)
    have := List.append_inj hf (by rw [ha, hb])
    rw [this.1]
    congr 1
    exact flatten_inj_of_width w l l' (by simpa using h) (fun r hr => h1 r (by simp [hr]))
      (fun r hr => h2 r (by simp [hr])) this.2

theorem renumTab_rows_width (t : Tab) (n : Nat) (ord o2n : Array Nat) :
    ∀ r ∈ (renumTab t n ord o2n).toList.map Array.toList, r.length = (letters n).length := by
  intro r hr
  simp only [renumTab, Array.toList_map, List.map_map, List.mem_map, Function.comp] at hr
  obtain ⟨c, _, rfl⟩ := hr
  simp

theorem tabKey_renumTab_inj {t t' : Tab} {n : Nat} {ord o2n ord' o2n' : Array Nat}
    (h : tabKey (renumTab t n ord o2n) = tabKey (renumTab t' n ord' o2n')) :
    renumTab t n ord o2n = renumTab t' n ord' o2n' := by
  unfold tabKey at h
  simp only [List.cons.injEq, Int.natCast_inj] at h
  obtain ⟨hsz, hfl⟩ := h
  have hl : (renumTab t n ord o2n).toList.map Array.toList = (renumTab t' n ord' o2n').toList.map Array.toList := by
    apply flatten_inj_of_width (letters n).length
    · simpa using hsz
    · exact renumTab_rows_width t n ord o2n
    · exact renumTab_rows_width t' n ord' o2n'
    · simpa [List.flatMap] using hfl
  have hinj : Function.Injective (Array.toList : Array Int → List Int) := fun a b hab => by
    cases a; cases b; simp_all
  have := List.map_injective_iff.mpr hinj hl
  exact Array.toList_inj.mp this

/-- ○ `rebase_min_invariant`, completeness: tables with the same canonical form are isomorphic -/
theorem iso_of_canonicalForm_eq {t t' : Tab} {n : Nat} {m : List Int}
    (h : canonicalForm t n = some m) (h' : canonicalForm t' n = some m) :
    ∃ σ, TabIso t t' n σ := by
  obtain ⟨s, hs, u, hu, hk⟩ := mem_rebasings.mp (lexMin_spec h).1
  obtain ⟨s', hs', u', hu', hk'⟩ := mem_rebasings.mp (lexMin_spec h').1
  have r := renum_of_some hs hu
  have r' := renum_of_some hs' hu'
  have heq : u = u' := by
    rw [r.u_eq, r'.u_eq]
    apply tabKey_renumTab_inj
    rw [← r.u_eq, ← r'.u_eq, hk, hk']
  have i1 := r.iso_fwd
  have i2 := r'.iso_bwd
  rw [← heq] at i2
  exact ⟨_, i1.trans i2⟩

end DSymVerif.RebaseP
