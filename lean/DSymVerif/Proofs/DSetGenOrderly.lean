/-
Lemmas about the model of the D-set generator, part 10: the canonicity test is monotone —
a non-zero verdict of `compare_renumbered_from` on a part of a D-set `T` is the verdict on
`T` itself — hence a D-set on which every start chamber compares ≥ 0 is never pruned.
Core Lean only.
-/
import DSymVerif.Proofs.DSetGenCompl

namespace DSymVerif.DSG
open DSymVerif.DS

theorem loopPairs_add (a b dim : Nat) :
    ∃ l, loopPairs (a + b) dim = loopPairs a dim ++ l := by
  unfold loopPairs
  have := @List.range_add a b
  rw [this, List.flatMap_append]
  exact ⟨_, rfl⟩

/-- `op_unchecked(i, x)` succeeded on a well-formed table with `i ≤ dim`: x is a chamber -/
theorem opC_range {ds : DSetData} (hv : ValidPartialSet ds) {i x y : Nat} (_hi : i ≤ ds.dim)
    (h : opC ds i x = .ok y) : 1 ≤ x ∧ x ≤ ds.size ∧ y = ds.opU i x := by
  obtain ⟨h0, hlt, hy⟩ := opC_ok h
  refine ⟨by omega, ?_, hy.symm⟩
  rw [hv.size_eq] at hlt
  unfold DSetData.idx at hlt
  have h1 : (x - 1) * (ds.dim + 1) < ds.size * (ds.dim + 1) := by omega
  have := Nat.lt_of_mul_lt_mul_right h1
  omega

/-- the comparison loop on a part of `T`, if it ends with a non-zero verdict, runs
    identically on `T` -/
theorem cmpLoop_mono {ds T : DSetData} (hv : ValidPartialSet ds) (hT : ValidPartialSet T)
    (hp : PartOf ds T) :
    ∀ (l l' : List (Nat × Nat)) (r : Renum) (v : Int),
    (∀ p, p ∈ l → p.2 ≤ ds.dim ∧ 1 ≤ p.1 ∧ p.1 ≤ ds.size) →
    cmpLoop ds l r = .ok v → v ≠ 0 → cmpLoop T (l ++ l') r = .ok v := by
  intro l
  induction l with
  | nil =>
    intro l' r v _ h hv0
    simp only [cmpLoop] at h
    injection h with h
    exact absurd h.symm hv0
  | cons p rest ih =>
    intro l' r v hl h hv0
    obtain ⟨d, i⟩ := p
    obtain ⟨hi, hd1, hd2⟩ := hl (d, i) (by simp)
    simp only at hi hd1 hd2
    have hl' : ∀ p, p ∈ rest → p.2 ≤ ds.dim ∧ 1 ≤ p.1 ∧ p.1 ≤ ds.size :=
      fun p hp' => hl p (by simp [hp'])
    have hiT : i ≤ T.dim := by rw [hp.dim_eq]; exact hi
    simp only [List.cons_append, cmpLoop] at h ⊢
    split at h
    · rename_i od hod
      split at h
      · rename_i ei hei
        obtain ⟨o1, o2, rfl⟩ := opC_range hv hi hei
        split at h
        · injection h with h; exact absurd h.symm hv0
        · rename_i hne
          have hagree := hp.agree i od hi o1 o2 hne
          have hT1 : opC T i od = .ok (ds.opU i od) := by
            rw [← hagree]
            exact opC_valid hT hiT o1 (Nat.le_trans o2 hp.size_le)
          rw [hT1]
          simp only
          rw [if_neg hne]
          split at h
          · rename_i x hx
            split at h
            · rename_i r' hr'
              split at h
              · rename_i di hdi
                obtain ⟨_, _, rfl⟩ := opC_range hv hi hdi
                split at h
                · injection h with h; exact absurd h.symm hv0
                · rename_i hne2
                  have hagree2 := hp.agree i d hi hd1 hd2 hne2
                  have hT2 : opC T i d = .ok (ds.opU i d) := by
                    rw [← hagree2]
                    exact opC_valid hT hiT hd1 (Nat.le_trans hd2 hp.size_le)
                  rw [hT2]
                  simp only
                  rw [if_neg hne2]
                  split at h
                  · rename_i y hy
                    split at h
                    · rename_i hyne
                      rw [if_pos hyne]
                      exact h
                    · rename_i hyne
                      rw [if_neg hyne]
                      exact ih l' r' v hl' h hv0
                  · cases h
              · cases h
            · cases h
          · cases h
      · cases h
    · cases h

theorem compare_mono {ds T : DSetData} (hv : ValidPartialSet ds) (hT : ValidPartialSet T)
    (hp : PartOf ds T) {d0 maxSize : Nat} {v : Int}
    (h : compareRenumberedFrom ds d0 maxSize = .ok v) (hv0 : v ≠ 0) :
    compareRenumberedFrom T d0 maxSize = .ok v := by
  unfold compareRenumberedFrom at h ⊢
  simp only at h ⊢
  split at h
  · split at h
    · obtain ⟨l', hl'⟩ := loopPairs_add ds.size (T.size - ds.size) ds.dim
      have hsz : ds.size + (T.size - ds.size) = T.size := by have := hp.size_le; omega
      rw [hsz, ← hp.dim_eq] at hl'
      rw [hl']
      apply cmpLoop_mono hv hT hp _ l' _ v _ _ hv0
      · intro p hp'
        have := (mem_loopPairs _ _ _).1 hp'
        rw [← hp.dim_eq]
        omega
      · rw [hp.dim_eq]; exact h
    · cases h
  · cases h

/-- every start chamber other than 1 compares ≥ 0: no breadth-first renumbering of `T`
    from another chamber is smaller than `T` itself (as decided by the generator's own
    comparison; the renumbering from chamber 1 is `T` itself when `T` is `Orderly`) -/
def Canonical (T : DSetData) (maxSize : Nat) : Prop :=
  ∀ d0, 2 ≤ d0 → d0 ≤ T.size → ∀ v, compareRenumberedFrom T d0 maxSize = .ok v → 0 ≤ v

/-- chambers are numbered in the order of their first occurrence in the row-major table:
    every number between 2 and an entry occurs at an earlier position -/
def Orderly (T : DSetData) : Prop :=
  ∀ i d, i ≤ T.dim → 1 ≤ d → d ≤ T.size → ∀ v, 2 ≤ v → v < T.opU i d →
    ∃ i' d', i' ≤ T.dim ∧ 1 ≤ d' ∧ d' ≤ T.size ∧ Before (i', d') (i, d) ∧ T.opU i' d' = v

theorem getC_false_put {irs : Array Bool} {k d : Nat} (h : getC irs k = .ok false) :
    getC (irs.setIfInBounds d false) k = .ok false := by
  obtain ⟨hk, hv⟩ := getC_ok h
  unfold getC
  rw [Array.getElem?_setIfInBounds]
  by_cases hdk : d = k
  · subst hdk; rw [if_pos rfl, if_pos hk]
  · rw [if_neg hdk, Array.getElem?_eq_getElem hk, hv]

theorem canonLoop_not_none {ds T : DSetData} {maxSize : Nat} (hv : ValidPartialSet ds)
    (hT : ValidSet T) (hp : PartOf ds T) (hc : Canonical T maxSize) :
    ∀ (l : List Nat) (irs : Array Bool) (rc : Option (Array Bool)),
    (∀ d, d ∈ l → 1 ≤ d ∧ d ≤ ds.size) → getC irs 1 = .ok false →
    canonLoop ds maxSize l irs = .ok rc → rc ≠ none := by
  intro l
  induction l with
  | nil => intro irs rc _ _ h; simp only [canonLoop] at h; cases h; simp
  | cons d l ih =>
    intro irs rc hl h1 h
    obtain ⟨hd1, hd2⟩ := hl d (by simp)
    have hl' : ∀ d, d ∈ l → 1 ≤ d ∧ d ≤ ds.size := fun x hx => hl x (by simp [hx])
    simp only [canonLoop] at h
    split at h
    · exact ih _ _ hl' h1 h
    · rename_i htrue
      have hd2' : 2 ≤ d := by
        apply Classical.byContradiction
        intro hlt
        have : d = 1 := by omega
        subst this
        rw [h1] at htrue
        cases htrue
      split at h
      · rename_i diff hdiff
        split at h
        · rename_i hneg
          exfalso
          have := compare_mono hv hT.toPartial hp hdiff (by omega)
          have := hc d hd2' (Nat.le_trans hd2 hp.size_le) diff this
          omega
        · split at h
          · split at h
            · rename_i irs' hput
              rw [(putC_ok hput).2] at h
              exact ih _ _ hl' (getC_false_put h1) h
            · cases h
          · exact ih _ _ hl' h1 h
      · cases h
    · cases h

theorem canonLoop_keep_false (ds : DSetData) (maxSize : Nat) {k : Nat} :
    ∀ (l : List Nat) (irs irs' : Array Bool), getC irs k = .ok false →
    canonLoop ds maxSize l irs = .ok (some irs') → getC irs' k = .ok false := by
  intro l
  induction l with
  | nil => intro irs irs' h1 h; simp only [canonLoop] at h; cases h; exact h1
  | cons d l ih =>
    intro irs irs' h1 h
    simp only [canonLoop] at h
    split at h
    · exact ih _ _ h1 h
    · split at h
      · split at h
        · cases h
        · split at h
          · split at h
            · rename_i irs1 hput
              rw [(putC_ok hput).2] at h
              exact ih _ _ (getC_false_put h1) h
            · cases h
          · exact ih _ _ h1 h
      · cases h
    · cases h

theorem grow_partOf {ds T : DSetData} (hv : ValidPartialSet ds) (hp : PartOf ds T)
    (hsz : ds.size + 1 ≤ T.size) : PartOf (ds.grow 1) T := by
  refine ⟨hp.dim_eq, hsz, ?_⟩
  intro i d hi h1 h2 hne
  have hi' : i ≤ ds.dim := hi
  rw [grow_opU hv hi' h1] at hne ⊢
  split at hne
  · rename_i hle
    rw [if_pos hle]
    exact hp.agree i d hi' h1 hle hne
  · exact absurd rfl hne

/-- the branch `e = T.op(i, d)` at a state whose set is part of the orderly canonical `T` -/
theorem childFor_complete {dim maxSize : Nat} {s : GenState} {T : DSetData} {i d : Nat}
    (hs : GInv dim maxSize s) (hnext : s.next = some (i, d)) (hT : ValidSet T)
    (hf : FarCommute T) (ho : Orderly T) (hc : Canonical T maxSize) (hTsz : T.size ≤ maxSize)
    (hp : PartOf s.dset T) (hirs1 : getC s.isRemapStart 1 = .ok false) :
    d ≤ T.opU i d ∧ T.opU i d ≤ maxSize ∧ T.opU i d ≤ s.dset.size + 1 ∧
    (¬ s.dset.size < T.opU i d → s.dset.opU i (T.opU i d) = 0) ∧
    ∃ c, childFor maxSize s i d (T.opU i d) = .ok (some c) ∧ PartOf c.dset T ∧
      getC c.isRemapStart 1 = .ok false := by
  obtain ⟨hi, hd1, hd2, hzd, hpre⟩ := hs.next_some i d hnext
  have hidim : i ≤ s.dset.dim := by rw [hs.dim_eq]; exact hi
  have hiT : i ≤ T.dim := by rw [hp.dim_eq]; exact hidim
  have hd2T : d ≤ T.size := Nat.le_trans hd2 hp.size_le
  obtain ⟨e1, e2⟩ := hT.range i d hiT hd1 hd2T
  have hinvT := hT.invol i d hiT hd1 hd2T
  generalize he : T.opU i d = e at *
  -- (4) the partner entry is free
  have hfree : e ≤ s.dset.size → s.dset.opU i e = 0 := by
    intro hle
    apply Classical.byContradiction
    intro hne
    have h1 := hp.agree i e hidim e1 hle hne
    rw [hinvT] at h1
    have h2 := hs.valid.invol i e hidim e1 hle hne
    rw [← h1] at h2
    rw [h2] at hzd
    omega
  -- (1) e ≥ d
  have hge : d ≤ e := by
    apply Classical.byContradiction
    intro hlt
    have hlt' : e < d := by omega
    have := hpre i e hidim e1 (by omega) (Or.inl hlt')
    exact this (hfree (by omega))
  -- (3) e ≤ size + 1
  have hsucc : e ≤ s.dset.size + 1 := by
    apply Classical.byContradiction
    intro hgt
    obtain ⟨i', d', a1, a2, a3, a4, a5⟩ := ho i d hiT hd1 hd2T (s.dset.size + 1)
      (by have := hs.size_pos; omega) (by rw [he]; omega)
    have hd' : d' ≤ s.dset.size := by unfold Before at a4; simp only at a4; omega
    have hi' : i' ≤ s.dset.dim := by rw [← hp.dim_eq]; exact a1
    have hne := hpre i' d' hi' a2 hd' a4
    have := hp.agree i' d' hi' a2 hd' hne
    have hr := hs.valid.range i' d' hi' a2 hd'
    omega
  refine ⟨hge, Nat.le_trans e2 hTsz, hsucc, fun h => hfree (by omega), ?_⟩
  have hmax : e ≤ maxSize := Nat.le_trans e2 hTsz
  unfold childFor
  simp only
  split
  case h_2 hno =>
    exfalso
    by_cases hlt : s.dset.size < e
    · have hb : e < s.isRemapStart.size := by rw [hs.irs]; omega
      exact hno (s.dset.grow 1) (s.isRemapStart.setIfInBounds e true)
        (by rw [if_pos hlt, putC_of_lt hb])
    · exact hno s.dset s.isRemapStart (by rw [if_neg hlt])
  rename_i ds0 irs0 hgeq
  have hg : (s.dset.size < e ∧ e < s.isRemapStart.size ∧ ds0 = s.dset.grow 1 ∧
          irs0 = s.isRemapStart.setIfInBounds e true) ∨
       (¬ s.dset.size < e ∧ ds0 = s.dset ∧ irs0 = s.isRemapStart) := by
    split at hgeq
    · rename_i hlt
      split at hgeq
      · rename_i irs' hput
        cases hgeq
        obtain ⟨h1, h2⟩ := putC_ok hput
        exact Or.inl ⟨hlt, h1, rfl, h2⟩
      · cases hgeq
    · rename_i hlt
      cases hgeq
      exact Or.inr ⟨hlt, rfl, rfl⟩
  have h0 : ValidPartialSet ds0 ∧ PartOf ds0 T := by
    rcases hg with ⟨hlt, _, rfl, _⟩ | ⟨_, rfl, _⟩
    · exact ⟨grow_valid hs.valid, grow_partOf hs.valid hp (by omega)⟩
    · exact ⟨hs.valid, hp⟩
  have hset : ∃ ds1, setC ds0 i d e = .ok ds1 := by
    rcases hg with ⟨hlt, _, rfl, _⟩ | ⟨hlt, rfl, _⟩
    · have hsz : (s.dset.grow 1).size = s.dset.size + 1 := rfl
      apply setC_of_free (grow_valid hs.valid) hidim hd1 (by rw [hsz]; omega) (by omega)
        (by rw [hsz]; omega)
      · rw [grow_opU hs.valid hidim hd1, if_pos hd2]; exact hzd
      · rw [grow_opU hs.valid hidim (by omega), if_neg (by omega)]
    · exact setC_of_free hs.valid hidim hd1 hd2 (by omega) (by omega) hzd (hfree (by omega))
  obtain ⟨ds1, hset⟩ := hset
  obtain ⟨hi0, hd01, hd02, _, _, _, _, _, _, _⟩ := setC_ok hset
  have hv1 := setC_valid h0.1 hset
  have hx1 := setC_ext hset
  have hp1 := setC_partOf hT h0.2 hset he
  obtain ⟨ds2, himpl, hp2, hv2, hx2⟩ := checkImpl_complete hv1 hT hf hp1 (i := i) (d := d)
    (by rw [hx1.dim_eq]; exact hi0) hd01 (by rw [hx1.size_eq]; exact hd02)
  rw [hset]
  simp only
  rw [himpl]
  simp only
  have hdim2 : ds2.dim = s.dset.dim := by
    rw [hx2.dim_eq, hx1.dim_eq]
    rcases hg with ⟨_, _, rfl, _⟩ | ⟨_, rfl, _⟩ <;> rfl
  obtain ⟨nx, hnx, _, _⟩ := nextUndefined_spec hv2 (i0 := i) (d0 := d)
    (by rw [hdim2]; exact hidim) hd1 (by rw [hx2.size_eq, hx1.size_eq]; exact hd02)
  have hinv : GInv dim maxSize { dset := ds2, isRemapStart := irs0, next := nx } :=
    step_inv (c := { dset := ds2, isRemapStart := irs0, next := nx }) hs hnext hmax hg hset himpl
      (fun h => h) hnx
  have hsz2 : ds2.size ≤ maxSize := by
    rcases hinv.size_le with h | ⟨h, _⟩
    · exact h
    · have : ds2.size = 1 := h
      omega
  obtain ⟨rc, hrc⟩ := checkCanonicity_total hinv.valid hinv.linked hsz2 (irs := irs0) hinv.irs
  have hirs0 : getC irs0 1 = .ok false := by
    rcases hg with ⟨hlt, _, _, rfl⟩ | ⟨_, _, rfl⟩
    · obtain ⟨hk, hv'⟩ := getC_ok hirs1
      unfold getC
      rw [Array.getElem?_setIfInBounds, if_neg (by have := hs.size_pos; omega),
        Array.getElem?_eq_getElem hk, hv']
    · exact hirs1
  have hrcne := canonLoop_not_none hv2 hT hp2 hc _ irs0 rc (by
    intro x hx
    simp only [List.mem_map, List.mem_range] at hx
    obtain ⟨a, ha, rfl⟩ := hx
    omega) hirs0 hrc
  rw [hrc]
  cases rc with
  | none => exact absurd rfl hrcne
  | some irs =>
    simp only
    rw [hnx]
    exact ⟨_, rfl, hp2, canonLoop_keep_false _ _ _ _ _ hirs0 hrc⟩

/-! ### the branch is kept by the loop -/

theorem childLoop_mem_conv {maxSize : Nat} {s : GenState} {i d : Nat}
    (hv : ValidPartialSet s.dset) (hi : i ≤ s.dset.dim) :
    ∀ (es : List Nat) (cs : List GenState), childLoop maxSize s i d es = .ok cs →
    ∀ e c, e ∈ es → 1 ≤ e → (¬ s.dset.size < e → s.dset.opU i e = 0) →
      childFor maxSize s i d e = .ok (some c) → c ∈ cs := by
  intro es
  induction es with
  | nil => intro cs _ e c he; cases he
  | cons e0 es ih =>
    intro cs h e c he he1 hz hfor
    simp only [childLoop] at h
    rcases List.mem_cons.1 he with rfl | he'
    · -- the head of the list is our e
      by_cases hlt : s.dset.size < e
      · rw [if_pos hlt, hfor] at h
        simp only at h
        split at h
        · cases h; simp
        · cases h
      · rw [if_neg hlt, opC_valid hv hi he1 (by omega), hz hlt, hfor] at h
        simp only [decide_true] at h
        split at h
        · cases h; simp
        · cases h
    · split at h
      · split at h
        · split at h
          · rename_i cs0 hcs0
            cases h
            exact List.mem_cons_of_mem _ (ih _ hcs0 e c he' he1 hz hfor)
          · cases h
        · exact ih _ h e c he' he1 hz hfor
        · cases h
      · exact ih _ h e c he' he1 hz hfor
      · cases h

/-! ### a complete part of a connected set is the whole set -/

theorem complete_partOf_eq {ds T : DSetData} (hv : ValidSet ds) (hT : ValidSet T)
    (hcon : Connected T) (hp : PartOf ds T) (h1 : 1 ≤ ds.size) : ds = T := by
  -- every chamber of T reached from 1 is a chamber of ds
  have hreach : ∀ e, Joined T 1 e → 1 ≤ e ∧ e ≤ ds.size := by
    intro e hj
    induction hj with
    | refl => exact ⟨Nat.le_refl _, h1⟩
    | @step b i hi _ ih =>
      obtain ⟨b1, b2⟩ := ih
      have hi' : i ≤ ds.dim := by rw [← hp.dim_eq]; exact hi
      obtain ⟨r1, r2⟩ := hv.range i b hi' b1 b2
      rw [hp.agree i b hi' b1 b2 (by omega)]
      exact ⟨r1, r2⟩
  have hsize : ds.size = T.size := by
    have hTpos : 1 ≤ T.size := Nat.le_trans h1 hp.size_le
    have := (hreach T.size (hcon T.size hTpos (Nat.le_refl _))).2
    have := hp.size_le
    omega
  have hdim : ds.dim = T.dim := hp.dim_eq.symm
  have hop : ds.op = T.op := by
    apply Array.ext
    · rw [hv.size_eq, hT.size_eq, hsize, hdim]
    · intro k hk1 hk2
      -- position k is the entry (k % (dim+1), k / (dim+1) + 1)
      have hpos : 0 < ds.dim + 1 := by omega
      have hk : k < ds.size * (ds.dim + 1) := by rw [← hv.size_eq]; exact hk1
      have hdlt : k / (ds.dim + 1) < ds.size := by
        rw [Nat.div_lt_iff_lt_mul hpos]; exact hk
      have hilt : k % (ds.dim + 1) < ds.dim + 1 := Nat.mod_lt _ hpos
      have hidx : ds.idx (k % (ds.dim + 1)) (k / (ds.dim + 1) + 1) = k := by
        unfold DSetData.idx
        rw [Nat.add_sub_cancel, Nat.mul_comm]
        exact Nat.div_add_mod k (ds.dim + 1)
      have hidxT : T.idx (k % (ds.dim + 1)) (k / (ds.dim + 1) + 1) = k := by
        unfold DSetData.idx
        rw [← hdim, Nat.add_sub_cancel, Nat.mul_comm]
        exact Nat.div_add_mod k (ds.dim + 1)
      generalize k / (ds.dim + 1) = q at hdlt hidx hidxT
      generalize k % (ds.dim + 1) = m at hilt hidx hidxT
      have hm : m ≤ ds.dim := by omega
      have hne := (hv.range m (q + 1) hm (by omega) (by omega)).1
      have := hp.agree m (q + 1) hm (by omega) (by omega) (by omega)
      unfold DSetData.opU at this
      rw [hidx, hidxT] at this
      simpa [Array.getD, hk1, hk2] using this.symm
  cases ds
  cases T
  simp only at hsize hdim hop
  subst hsize hdim hop
  rfl

/-! ### the path to `T` in the search tree -/

theorem exists_leaf {dim maxSize : Nat} {T : DSetData} (hT : ValidSet T) (hf : FarCommute T)
    (hcon : Connected T) (ho : Orderly T) (hc : Canonical T maxSize) (hTsz : T.size ≤ maxSize) :
    ∀ (n : Nat) (s : GenState), height maxSize (.st s) ≤ n → GInv dim maxSize s →
    PartOf s.dset T → getC s.isRemapStart 1 = .ok false →
    ∃ t, BT.Reach (problem dim maxSize) (.st s) (.st t) ∧ t.next = none ∧ t.dset = T := by
  intro n
  induction n with
  | zero =>
    intro s hh _ _ _
    simp only [height] at hh
    omega
  | succ n ih =>
    intro s hh hs hp hirs1
    cases hnext : s.next with
    | none =>
      refine ⟨s, BT.Reach.refl _, hnext, ?_⟩
      have hvs : ValidSet s.dset := by
        refine ⟨hs.valid.size_eq, ?_, ?_⟩
        · intro i d hi h1 h2
          have := hs.next_none hnext i d (by rw [← hs.dim_eq]; exact hi) h1 h2
          exact ⟨Nat.pos_of_ne_zero this, hs.valid.range i d hi h1 h2⟩
        · intro i d hi h1 h2
          exact hs.valid.invol i d hi h1 h2
            (hs.next_none hnext i d (by rw [← hs.dim_eq]; exact hi) h1 h2)
      exact complete_partOf_eq hvs hT hcon hp hs.size_pos
    | some pr =>
      obtain ⟨i, d⟩ := pr
      obtain ⟨hge, hmax, hsucc, hfree, c, hfor, hpc, hirsc⟩ :=
        childFor_complete hs hnext hT hf ho hc hTsz hp hirs1
      obtain ⟨hi, hd1, hd2, _, _⟩ := hs.next_some i d hnext
      have hidim : i ≤ s.dset.dim := by rw [hs.dim_eq]; exact hi
      -- c is among the children
      have hmemc : Node.st c ∈ children maxSize (.st s) := by
        unfold children
        simp only [hnext]
        have hst : storeOk s.dset = true := by
          simp only [storeOk, beq_iff_eq]; exact hs.valid.size_eq
        rw [hst]
        simp only [Bool.not_true, Bool.false_eq_true, if_false]
        have hrange : ∀ e, e ∈ List.range' d (min (s.dset.size + 1) maxSize + 1 - d) →
            d ≤ e ∧ e ≤ maxSize ∧ e ≤ s.dset.size + 1 := by
          intro e he
          have hr := List.mem_range'_1.1 he
          have hm1 : min (s.dset.size + 1) maxSize ≤ maxSize := Nat.min_le_right _ _
          have hm2 : min (s.dset.size + 1) maxSize ≤ s.dset.size + 1 := Nat.min_le_left _ _
          omega
        obtain ⟨cs, hcs⟩ := childLoop_total hs hnext _ hrange
        rw [hcs]
        simp only
        apply List.mem_map.2
        refine ⟨c, ?_, rfl⟩
        apply childLoop_mem_conv hs.valid hidim _ _ hcs (T.opU i d) c _ (by omega) hfree hfor
        apply List.mem_range'_1.2
        have : T.opU i d ≤ min (s.dset.size + 1) maxSize := Nat.le_min.2 ⟨hsucc, hmax⟩
        omega
      have hdec := children_decreasing dim maxSize (.st s) (.st c) hmemc
      rcases children_inv hs hmemc with h | ⟨c', hcc, hinvc⟩
      · cases h
      · injection hcc with hcc
        subst hcc
        obtain ⟨t, hr, ht1, ht2⟩ := ih c (by omega) hinvc hpc hirsc
        exact ⟨t, BT.Reach.step hmemc hr, ht1, ht2⟩

theorem rootState_irs1 (dim : Nat) {maxSize : Nat} (h : 1 ≤ maxSize) :
    getC (rootState dim maxSize).isRemapStart 1 = .ok false := by
  show getC (Array.replicate (maxSize + 1) false) 1 = .ok false
  unfold getC
  have hk : 1 < (Array.replicate (maxSize + 1) false).size := by simp; omega
  rw [Array.getElem?_eq_getElem hk, Array.getElem_replicate]

/-- **Every orderly canonical D-set is emitted**: the orderly-generation pruning never cuts
    the branch leading to a complete connected D-set `T` with commuting far operations
    whose chambers are numbered in order of first occurrence and on which every start
    chamber compares ≥ 0. -/
theorem canonical_emitted {dim maxSize : Nat} {T : DSetData} (hdim : 1 ≤ dim) (hT : ValidSet T)
    (hf : FarCommute T) (hcon : Connected T) (hTd : T.dim = dim) (hT1 : 1 ≤ T.size)
    (hTsz : T.size ≤ maxSize) (ho : Orderly T) (hc : Canonical T maxSize) :
    Outcome.ok T ∈ dsets dim maxSize := by
  have hroot : root dim maxSize = .st (rootState dim maxSize) := by
    rw [root_eq, if_neg (by omega)]
  have hp : PartOf (rootState dim maxSize).dset T := by
    refine ⟨hTd, hT1, ?_⟩
    intro i d _ _ _ hne
    exact absurd (getD_replicate_zero _ _) hne
  obtain ⟨t, hr, ht1, ht2⟩ := exists_leaf hT hf hcon ho hc hTsz _ (rootState dim maxSize)
    (Nat.le_refl _) (rootState_inv dim maxSize) hp (rootState_irs1 dim (by omega))
  rw [dsets_eq_dfs, hroot]
  apply List.mem_filterMap.2
  refine ⟨.st t, ?_, ?_⟩
  · exact (BT.mem_dfs_iff (problem dim maxSize) (height maxSize)
      (children_decreasing dim maxSize) _ _).2 hr
  · simp [extract, ht1, ht2]

end DSymVerif.DSG
