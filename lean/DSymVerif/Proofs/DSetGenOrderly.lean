/-
Lemmas about the model of the D-set generator, part 10: the canonicity test is monotone —
a non-zero verdict of `compare_renumbered_from` on a part of a D-set `T` is the verdict on
`T` itself — hence a D-set on which every start chamber compares ≥ 0 is never pruned.
Core Lean only.
-/
import DSymVerif.Proofs.DSetGenCompl

namespace DSymVerif.DSG
open DSymVerif.DS

theorem loopPairs_add (a b dim : Nat) :
    ∃ l, loopPairs (a + b) dim = loopPairs a dim ++ l := by
  unfold loopPairs
  have := List.range_add a b
  rw [this, List.flatMap_append]
  exact ⟨_, rfl⟩

/-- `op_unchecked(i, x)` succeeded on a well-formed table with `i ≤ dim`: x is a chamber -/
theorem opC_range {ds : DSetData} (hv : ValidPartialSet ds) {i x y : Nat} (_hi : i ≤ ds.dim)
    (h : opC ds i x = .ok y) : 1 ≤ x ∧ x ≤ ds.size ∧ y = ds.opU i x := by
  obtain ⟨h0, hlt, hy⟩ := opC_ok h
  refine ⟨by omega, ?_, hy.symm⟩
  rw [hv.size_eq] at hlt
  unfold DSetData.idx at hlt
  have h1 : (x - 1) * (ds.dim + 1) < ds.size * (ds.dim + 1) := by omega
  have := Nat.lt_of_mul_lt_mul_right h1
  omega

/-- the comparison loop on a part of `T`, if it ends with a non-zero verdict, runs
    identically on `T` -/
theorem cmpLoop_mono {ds T : DSetData} (hv : ValidPartialSet ds) (hT : ValidSet T)
    (hp : PartOf ds T) :
    ∀ (l l' : List (Nat × Nat)) (r : Renum) (v : Int),
    (∀ p, p ∈ l → p.2 ≤ ds.dim ∧ 1 ≤ p.1 ∧ p.1 ≤ ds.size) →
    cmpLoop ds l r = .ok v → v ≠ 0 → cmpLoop T (l ++ l') r = .ok v := by
  intro l
  induction l with
  | nil =>
    intro l' r v _ h hv0
    simp only [cmpLoop] at h
    injection h with h
    exact absurd h.symm hv0
  | cons p rest ih =>
    intro l' r v hl h hv0
    obtain ⟨d, i⟩ := p
    obtain ⟨hi, hd1, hd2⟩ := hl (d, i) (by simp)
    simp only at hi hd1 hd2
    have hl' : ∀ p, p ∈ rest → p.2 ≤ ds.dim ∧ 1 ≤ p.1 ∧ p.1 ≤ ds.size :=
      fun p hp' => hl p (by simp [hp'])
    have hiT : i ≤ T.dim := by rw [hp.dim_eq]; exact hi
    simp only [List.cons_append, cmpLoop] at h ⊢
    split at h
    · rename_i od hod
      simp only
      split at h
      · rename_i ei hei
        obtain ⟨o1, o2, rfl⟩ := opC_range hv hi hei
        split at h
        · injection h with h; exact absurd h.symm hv0
        · rename_i hne
          have hagree := hp.agree i od hi o1 o2 hne
          have hT1 : opC T i od = .ok (ds.opU i od) := by
            rw [← hagree]
            exact opC_valid hT.toPartial hiT o1 (Nat.le_trans o2 hp.size_le)
          rw [hT1]
          simp only
          rw [if_neg hne]
          split at h
          · rename_i x hx
            simp only at h ⊢
            split at h
            · rename_i r' hr'
              simp only
              split at h
              · rename_i di hdi
                obtain ⟨_, _, rfl⟩ := opC_range hv hi hdi
                split at h
                · injection h with h; exact absurd h.symm hv0
                · rename_i hne2
                  have hagree2 := hp.agree i d hi hd1 hd2 hne2
                  have hT2 : opC T i d = .ok (ds.opU i d) := by
                    rw [← hagree2]
                    exact opC_valid hT.toPartial hiT hd1 (Nat.le_trans hd2 hp.size_le)
                  rw [hT2]
                  simp only
                  rw [if_neg hne2]
                  split at h
                  · rename_i y hy
                    simp only
                    split at h
                    · rename_i hyne
                      rw [if_pos hyne]
                      exact h
                    · rename_i hyne
                      rw [if_neg hyne]
                      exact ih l' r' v hl' h hv0
                  · cases h
              · cases h
            · cases h
          · cases h
      · cases h
    · cases h

end DSymVerif.DSG
