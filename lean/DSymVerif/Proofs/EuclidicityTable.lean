/-
Syntax of the entries of `src/data/euclideanInvariants.data` as the Rust `Lazy` parses it
(`Tables.euclideanInvariants`), on lists of characters (kernel-reducible).
An output of `orbifold_invariant` has the form
    n / label_1 / … / label_n / ori / edges / k / inv_1 / … / inv_k /
-/
namespace DSymVerif.Euc.Tab

/-- split at `/` (the string `a/b/` gives `[a, b, ""]`) -/
def splitSlash : List Char → List Char → List (List Char)
  | [], cur => [cur.reverse]
  | c :: cs, cur => if c = '/' then cur.reverse :: splitSlash cs [] else splitSlash cs (c :: cur)

def isNum (cs : List Char) : Bool := !cs.isEmpty && cs.all Char.isDigit

def numOf (cs : List Char) : Nat := cs.foldl (fun n c => 10 * n + (c.toNat - '0'.toNat)) 0

/-- characters of node labels: digits, `*`, `x`, parentheses -/
def labelChar (c : Char) : Bool := c.isDigit || c = '*' || c = 'x' || c = '(' || c = ')'

def isLabel (cs : List Char) : Bool := !cs.isEmpty && cs.all labelChar

def charsLe : List Char → List Char → Bool
  | [], _ => true
  | _ :: _, [] => false
  | a :: as, b :: bs => a.toNat < b.toNat || (a.toNat == b.toNat && charsLe as bs)

def sortedBy {α : Type} (le : α → α → Bool) : List α → Bool
  | [] => true
  | [_] => true
  | a :: b :: r => le a b && sortedBy le (b :: r)

/-- the fields of a well-formed entry: (labels, orientation class, edge count, invariants) -/
def parse (cs : List Char) : Option (List (List Char) × Nat × Nat × List Nat) :=
  match splitSlash cs [] with
  | nTok :: rest =>
    if !isNum nTok then none else
    let n := numOf nTok
    let labels := rest.take n
    match rest.drop n with
    | ori :: edges :: k :: tail =>
      if labels.length == n && labels.all isLabel && isNum ori && isNum edges && isNum k
          && tail.length == numOf k + 1 && (tail.take (numOf k)).all isNum
          && tail.drop (numOf k) == [[]] then
        some (labels, numOf ori, numOf edges, (tail.take (numOf k)).map numOf)
      else none
    | _ => none
  | [] => none

/-- syntax n/label…/ori/edges/k/inv…/ with n = number of labels and k = number of invariants;
    moreover, as in every output of `orbifold_invariant`: the orientation class is 0, 1 or 2, the
    labels are in ascending (byte-lexicographic) order, the invariants are ascending and none is 1 -/
def wellFormedChars (cs : List Char) : Bool :=
  match parse cs with
  | some (labels, ori, _, invs) =>
    ori ≤ 2 && sortedBy charsLe labels && sortedBy (fun a b => decide (a ≤ b)) invs && invs.all (· != 1)
  | none => false

def wellFormed (s : String) : Bool := wellFormedChars s.toList

/-- a divisibility chain of factors ≥ 2 -/
def chainFrom : List Nat → Bool
  | [] => true
  | [a] => decide (2 ≤ a)
  | a :: b :: r => decide (2 ≤ a) && b % a == 0 && chainFrom (b :: r)

/-- the lists `abelian_invariants` can return: one `0` per free generator FIRST (the list is
    sorted ascending), then the invariant factors ≠ 1, each dividing the next -/
def reachableInvariants (invs : List Nat) : Bool := chainFrom (invs.dropWhile (· == 0))

/-- the invariant fields of a well-formed entry are a list `abelian_invariants` can return
    (vacuous for tokens that do not parse) -/
def reachableChars (cs : List Char) : Bool :=
  match parse cs with
  | some (_, _, _, invs) => reachableInvariants invs
  | none => true

def reachable (s : String) : Bool := reachableChars s.toList

end DSymVerif.Euc.Tab
