/-
Property C15, phase 2: a covering of an oriented symbol (projection commuting with every
operation) is oriented — loopless because a loop would project to a loop, weakly oriented because
the proper 2-colouring of the base pulls back along the projection.
-/
import DSymVerif.Proofs.Delaney3dSelect
import DSymVerif.Proofs.DSetOrient

namespace DSymVerif.D3
open DSymVerif DSymVerif.DS

theorem cover_of_oriented_is_oriented {oc c : DSymData} (hvo : ValidTables oc) (hvc : ValidTables c)
    (ho : oc.view.isOriented = true) (hsz : 1 ≤ oc.size) (hdim : c.dim = oc.dim)
    (hproj : ∀ i d, i ≤ oc.dim → 1 ≤ d → d ≤ c.size →
      cproj oc.size (c.dset.opU i d) = oc.dset.opU i (cproj oc.size d)) :
    c.view.isOriented = true := by
  have hoB := ho
  unfold View.isOriented at ho ⊢
  rw [Bool.and_eq_true] at ho ⊢
  constructor
  · unfold View.isLoopless
    simp only [List.all_eq_true, bne_iff_ne, ne_eq]
    intro i hi d hd
    have hi' : i ≤ c.dim := (mem_indices c.view i).1 hi
    have hd' := (mem_elements c.view d).1 hd
    have hio : i ≤ oc.dim := by rw [← hdim]; exact hi'
    intro heq
    have hop : c.view.op i d = some (c.dset.opU i d) := op_eq_opU hi' hd'.1 hd'.2
    rw [hop] at heq
    have heq' : c.dset.opU i d = d := Option.some.inj heq
    have hp := hproj i d hio hd'.1 hd'.2
    rw [heq'] at hp
    have hr := cproj_range (d := d) hsz
    exact loopless_of_oriented hoB hio hr.1 hr.2 (by rw [op_eq_opU hio hr.1 hr.2, ← hp])
  · have hpin : c.view.PInvol := by rw [c.view_eq]; exact hvc.set.pinvol
    have hpino : oc.view.PInvol := by rw [oc.view_eq]; exact hvo.set.pinvol
    rw [isWeaklyOriented_iff hpin]
    obtain ⟨c0, hc0⟩ := (isWeaklyOriented_iff hpino).mp ho.2
    refine ⟨fun d => c0 (cproj oc.size d), ?_⟩
    intro i d e hi h1 h2 hope hne
    have hio : i ≤ oc.dim := by rw [← hdim]; exact hi
    have hop : c.view.op i d = some (c.dset.opU i d) := op_eq_opU hi h1 h2
    rw [hop] at hope
    have he : c.dset.opU i d = e := Option.some.inj hope
    have hp := hproj i d hio h1 h2
    rw [he] at hp
    have hr := cproj_range (d := d) hsz
    have hopo : oc.view.op i (cproj oc.size d) = some (cproj oc.size e) := by
      rw [hp]; exact op_eq_opU hio hr.1 hr.2
    have hneo : cproj oc.size e ≠ cproj oc.size d := by
      intro hcon
      exact loopless_of_oriented hoB hio hr.1 hr.2 (by
        have := op_eq_opU (s := oc) hio hr.1 hr.2
        rw [this, ← hp, hcon])
    exact hc0 i (cproj oc.size d) (cproj oc.size e) hio hr.1 hr.2 hopo hneo

end DSymVerif.D3
