/-
`backtrack_preorder`: the model of `BackTrackIterator` yields `extract s` for exactly the
nodes of the search tree, each once, in depth-first preorder.  Core Lean only.
-/
import DSymVerif.Model.Backtrack

namespace DSymVerif.BT

variable {σ α : Type}

/-- the states still to be expanded, in the order the iterator will expand them: the
    whole top frame, and of every lower frame everything but its head (the head of a
    lower frame is the already expanded parent of the frame above) -/
def pend : List (List σ) → List σ
  | [] => []
  | top :: rest => top ++ rest.flatMap List.tail

/-- every frame is non-empty (so the two `unwrap()`s of `next` cannot fail) -/
def WF : List (List σ) → Prop
  | [] => True
  | f :: rest => f ≠ [] ∧ WF rest

theorem unwind_tails (st : List (List σ)) :
    pend (unwind st) = st.flatMap List.tail := by
  induction st with
  | nil => simp [unwind, pend]
  | cons f rest ih =>
    unfold unwind
    by_cases h : f.length < 2
    · simp only [h, if_true, List.flatMap_cons]
      have : f.tail = [] := by
        cases f with
        | nil => rfl
        | cons a t =>
          cases t with
          | nil => rfl
          | cons b u => simp only [List.length_cons] at h; omega
      rw [this, ih]; simp
    · simp [h, pend]

theorem unwind_wf (st : List (List σ)) (h : WF st) : WF (unwind st) := by
  induction st with
  | nil => simp [unwind, WF]
  | cons f rest ih =>
    unfold unwind
    by_cases hl : f.length < 2
    · simp only [hl, if_true]; exact ih h.2
    · simp only [hl, if_false]
      refine ⟨?_, h.2⟩
      cases f with
      | nil => simp at hl
      | cons a t =>
        cases t with
        | nil => simp at hl
        | cons b u => simp

theorem flatMap_congr' {β γ : Type} {f g : β → List γ} (l : List β)
    (h : ∀ x, x ∈ l → f x = g x) : l.flatMap f = l.flatMap g := by
  induction l with
  | nil => rfl
  | cons a t ih =>
    simp only [List.flatMap_cons]
    rw [h a (by simp), ih (fun x hx => h x (by simp [hx]))]

/-- a height bound for the tree: children are strictly lower -/
def Decreasing (p : Problem σ α) (h : σ → Nat) : Prop :=
  ∀ s c, c ∈ p.children s → h c < h s

theorem dfsN_stable (p : Problem σ α) (h : σ → Nat) (hd : Decreasing p h) :
    ∀ (n m : Nat) (s : σ), h s < n → h s < m → dfsN p n s = dfsN p m s := by
  intro n
  induction n with
  | zero => intro m s hn; omega
  | succ n ih =>
    intro m s hn hm
    cases m with
    | zero => omega
    | succ m =>
      simp only [dfsN]
      congr 1
      apply flatMap_congr'
      intro c hc
      have := hd s c hc
      exact ih m c (by omega) (by omega)

/-- depth-first preorder listing of the subtree below `s` -/
def dfs (p : Problem σ α) (h : σ → Nat) (s : σ) : List σ := dfsN p (h s + 1) s

theorem dfs_unfold (p : Problem σ α) (h : σ → Nat) (hd : Decreasing p h) (s : σ) :
    dfs p h s = s :: (p.children s).flatMap (dfs p h) := by
  have e : dfsN p (h s + 1) s = s :: (p.children s).flatMap (dfsN p (h s)) := rfl
  show dfsN p (h s + 1) s = s :: (p.children s).flatMap (fun c => dfsN p (h c + 1) c)
  rw [e]
  congr 1
  apply flatMap_congr'
  intro c hc
  have := hd s c hc
  exact dfsN_stable p h hd _ _ c (by omega) (by omega)

theorem dfs_length_pos (p : Problem σ α) (h : σ → Nat) (s : σ) : 0 < (dfs p h s).length := by
  unfold dfs; simp [dfsN]

/-- main invariant: with enough fuel the iterator, started from any well-formed stack,
    yields the extracted preorder listing of all pending subtrees -/
theorem iter_eq (p : Problem σ α) (h : σ → Nat) (hd : Decreasing p h) :
    ∀ (fuel : Nat) (st : List (List σ)), WF st →
      ((pend st).flatMap (dfs p h)).length ≤ fuel →
      iter p fuel st = ((pend st).flatMap (dfs p h)).filterMap p.extract := by
  intro fuel
  induction fuel with
  | zero =>
    intro st _ hlen
    have : (pend st).flatMap (dfs p h) = [] := List.eq_nil_of_length_eq_zero (by omega)
    simp [iter, this]
  | succ fuel ih =>
    intro st hwf hlen
    cases st with
    | nil => simp [iter, pend]
    | cons top rest =>
      cases top with
      | nil => exact absurd rfl hwf.1
      | cons cur sibs =>
        have hpend : pend ((cur :: sibs) :: rest) = cur :: (sibs ++ rest.flatMap List.tail) := by
          simp [pend]
        rw [hpend, List.flatMap_cons, dfs_unfold p h hd cur] at hlen ⊢
        simp only [List.cons_append, List.length_cons, List.filterMap_cons] at hlen ⊢
        by_cases hc : (p.children cur).length > 0
        · -- push the children frame
          have hstep : step p ((cur :: sibs) :: rest) =
              some (p.extract cur, p.children cur :: (cur :: sibs) :: rest) := by
            simp [step, hc]
          have hwf' : WF (p.children cur :: (cur :: sibs) :: rest) := by
            refine ⟨?_, hwf⟩
            intro hnil; rw [hnil] at hc; simp at hc
          have hpend' : pend (p.children cur :: (cur :: sibs) :: rest) =
              p.children cur ++ (sibs ++ rest.flatMap List.tail) := by
            simp [pend]
          have hrec := ih (p.children cur :: (cur :: sibs) :: rest) hwf' (by
            rw [hpend', List.flatMap_append]; simp only [List.length_append] at hlen ⊢; omega)
          simp only [iter, hstep]
          rw [hrec, hpend', List.flatMap_append, List.filterMap_append]
          cases hx : p.extract cur <;> simp [List.filterMap_append]
        · -- leaf: unwind
          have hnil : p.children cur = [] := by
            cases hch : p.children cur with
            | nil => rfl
            | cons a t => rw [hch] at hc; simp at hc
          have hstep : step p ((cur :: sibs) :: rest) =
              some (p.extract cur, unwind ((cur :: sibs) :: rest)) := by
            simp [step, hnil]
          have hpend' : pend (unwind ((cur :: sibs) :: rest)) = sibs ++ rest.flatMap List.tail := by
            rw [unwind_tails]; simp
          have hrec := ih (unwind ((cur :: sibs) :: rest)) (unwind_wf _ hwf) (by
            rw [hpend']; simp only [hnil, List.flatMap_nil, List.nil_append] at hlen; omega)
          simp only [iter, hstep]
          rw [hrec, hpend']
          simp only [hnil, List.flatMap_nil, List.nil_append]
          cases hx : p.extract cur <;> simp

/-- **backtrack_preorder**: for a search tree of finite height (children strictly
    decrease `h`), the iterator run with at least as much fuel as the tree has nodes
    yields `extract s` for exactly the nodes reachable from the root through
    `children`, each once, in depth-first preorder. -/
theorem run_eq_dfs (p : Problem σ α) (h : σ → Nat) (hd : Decreasing p h) (fuel : Nat)
    (hf : (dfs p h p.root).length ≤ fuel) :
    run p fuel = (dfs p h p.root).filterMap p.extract := by
  have := iter_eq p h hd fuel [[p.root]] ⟨by simp, trivial⟩ (by simpa [pend] using hf)
  simpa [run, pend] using this

/-- more fuel changes nothing once the tree is exhausted -/
theorem run_fuel_irrelevant (p : Problem σ α) (h : σ → Nat) (hd : Decreasing p h)
    (f₁ f₂ : Nat) (h₁ : (dfs p h p.root).length ≤ f₁) (h₂ : (dfs p h p.root).length ≤ f₂) :
    run p f₁ = run p f₂ := by
  rw [run_eq_dfs p h hd f₁ h₁, run_eq_dfs p h hd f₂ h₂]

/-- the nodes listed by `dfs` are exactly the states reachable through `children` -/
inductive Reach (p : Problem σ α) : σ → σ → Prop
  | refl (s : σ) : Reach p s s
  | step {s c t : σ} : c ∈ p.children s → Reach p c t → Reach p s t

theorem mem_dfsN_iff (p : Problem σ α) (h : σ → Nat) (hd : Decreasing p h) :
    ∀ (n : Nat) (s t : σ), h s < n → (t ∈ dfsN p n s ↔ Reach p s t) := by
  intro n
  induction n with
  | zero => intro s t hn; omega
  | succ n ih =>
    intro s t hn
    simp only [dfsN, List.mem_cons, List.mem_flatMap]
    constructor
    · rintro (rfl | ⟨c, hc, ht⟩)
      · exact Reach.refl _
      · have := hd s c hc
        exact Reach.step hc ((ih c t (by omega)).1 ht)
    · intro hr
      cases hr with
      | refl => exact Or.inl rfl
      | step hc hr' =>
        rename_i c
        have := hd s c hc
        exact Or.inr ⟨c, hc, (ih c t (by omega)).2 hr'⟩

theorem mem_dfs_iff (p : Problem σ α) (h : σ → Nat) (hd : Decreasing p h) (s t : σ) :
    t ∈ dfs p h s ↔ Reach p s t :=
  mem_dfsN_iff p h hd (h s + 1) s t (by omega)

end DSymVerif.BT
