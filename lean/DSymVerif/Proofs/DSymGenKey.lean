/-
Lemmas for property C07, phase 2, part 11: the generator's key format and its fixed list.
A private key is (sorted cones, "*"?, sorted corners, "x"?); the list inside `is_good`, read in
this format (`goodKeys`, checked against the generated table by `decide`), names — entry by entry —
the orbifolds that `SpecC08.parseSymbol` reads from the same strings (`goodKeys_orbs`).  Rendering
is injective on keys whose numbers are single digits ≥ 2.
-/
import Mathlib.Data.List.Perm.Subperm
import Mathlib.Data.List.Sort
import DSymVerif.Proofs.DSymGenGood
import DSymVerif.Spec.C07

namespace DSymVerif.SymGen
open DSymVerif.SpecC08

/-! ### keys -/

structure PKey where
  cones : List Nat
  star : Bool
  corners : List Nat
  cross : Bool
  deriving DecidableEq, Repr

def dch (n : Nat) : Char := Char.ofNat (48 + n)

def PKey.chars (k : PKey) : List Char :=
  k.cones.map dch ++ (if k.star then ['*'] else []) ++ k.corners.map dch ++
    (if k.cross then ['x'] else [])

/-- the orbifold a key names: at most one boundary component, at most one cross-cap, no handle -/
def PKey.orb (k : PKey) : Orb :=
  ⟨k.cones, if k.star then [k.corners] else [], 0, if k.cross then 1 else 0⟩

def Digits (l : List Nat) : Prop := ∀ v, v ∈ l → 2 ≤ v ∧ v ≤ 9

structure PKey.Valid (k : PKey) : Prop where
  cones : Digits k.cones
  corners : Digits k.corners
  nostar : k.star = false → k.corners = []

/-- the list inside `is_good`, in the generator's own format -/
def goodKeys : List PKey :=
  [ ⟨[], false, [], false⟩, ⟨[], true, [], false⟩, ⟨[], false, [], true⟩,
    ⟨[5, 3, 2], false, [], false⟩, ⟨[4, 3, 2], false, [], false⟩, ⟨[3, 3, 2], false, [], false⟩,
    ⟨[4, 2, 2], false, [], false⟩, ⟨[3, 2, 2], false, [], false⟩, ⟨[2, 2, 2], false, [], false⟩,
    ⟨[4, 4], false, [], false⟩, ⟨[3, 3], false, [], false⟩, ⟨[2, 2], false, [], false⟩,
    ⟨[], true, [5, 3, 2], false⟩, ⟨[], true, [4, 3, 2], false⟩, ⟨[], true, [3, 3, 2], false⟩,
    ⟨[3], true, [2], false⟩,
    ⟨[], true, [4, 2, 2], false⟩, ⟨[], true, [3, 2, 2], false⟩, ⟨[], true, [2, 2, 2], false⟩,
    ⟨[2], true, [4], false⟩, ⟨[2], true, [3], false⟩, ⟨[2], true, [2], false⟩,
    ⟨[], true, [4, 4], false⟩, ⟨[], true, [3, 3], false⟩, ⟨[], true, [2, 2], false⟩,
    ⟨[4], true, [], false⟩, ⟨[3], true, [], false⟩, ⟨[2], true, [], false⟩,
    ⟨[4], false, [], true⟩, ⟨[3], false, [], true⟩, ⟨[2], false, [], true⟩ ]

/-- the generated table is `goodKeys` rendered (re-checked on every run) -/
theorem goodKeys_chars : Tables.goodSphericalOrbifolds.map String.toList = goodKeys.map PKey.chars := by
  decide

/-- read by `SpecC08.parseSymbol`, the generated table names the orbifolds of `goodKeys` -/
theorem goodKeys_orbs : SpecC07.goodOrbs = goodKeys.map PKey.orb := by decide

/-- every listed key has single-digit numbers ≥ 2, at most three corners, sorted lists, and
    corners only behind a star -/
theorem goodKeys_props :
    (goodKeys.all fun k =>
      k.cones.all (fun v => decide (2 ≤ v ∧ v ≤ 9)) && k.corners.all (fun v => decide (2 ≤ v ∧ v ≤ 9)) &&
      (k.star || k.corners.isEmpty) && decide (k.corners.length ≤ 3) &&
      decide (sortDesc k.cones = k.cones) && decide (sortDesc k.corners = k.corners)) = true := by decide

theorem goodKeys_valid {t : PKey} (ht : t ∈ goodKeys) :
    t.Valid ∧ t.corners.length ≤ 3 ∧ sortDesc t.cones = t.cones ∧ sortDesc t.corners = t.corners := by
  have := List.all_eq_true.mp goodKeys_props t ht
  simp only [Bool.and_eq_true, List.all_eq_true, decide_eq_true_eq, Bool.or_eq_true,
    List.isEmpty_iff] at this
  obtain ⟨⟨⟨⟨⟨h1, h2⟩, h3⟩, h4⟩, h5⟩, h6⟩ := this
  refine ⟨⟨h1, h2, fun hs => ?_⟩, h4, h5, h6⟩
  rcases h3 with h | h
  · rw [hs] at h; cases h
  · exact h

/-! ### rendering is injective -/

def isD (c : Char) : Bool := decide ('2' ≤ c) && decide (c ≤ '9')
def dval (c : Char) : Nat := c.toNat - 48

theorem digit_facts : ∀ v : Fin 10, 2 ≤ v.val → isD (dch v.val) = true ∧ dval (dch v.val) = v.val := by
  decide

theorem isD_dch {v : Nat} (h : 2 ≤ v ∧ v ≤ 9) : isD (dch v) = true ∧ dval (dch v) = v :=
  digit_facts ⟨v, by omega⟩ h.1

theorem sep_facts : isD '*' = false ∧ isD 'x' = false := by decide

def decode (cs : List Char) : PKey :=
  let a := cs.takeWhile isD
  let r1 := cs.dropWhile isD
  let star := r1.head? == some '*'
  let r2 := if star then r1.tail else r1
  let b := r2.takeWhile isD
  let r3 := r2.dropWhile isD
  ⟨a.map dval, star, b.map dval, r3.head? == some 'x'⟩

theorem takeWhile_digits (l : List Nat) (hl : Digits l) (r : List Char) (hr : r.head?.map isD ≠ some true) :
    (l.map dch ++ r).takeWhile isD = l.map dch ∧ (l.map dch ++ r).dropWhile isD = r := by
  induction l with
  | nil =>
    simp only [List.map_nil, List.nil_append]
    cases r with
    | nil => simp
    | cons c cs =>
      have : isD c = false := by
        cases hc : isD c
        · rfl
        · simp [hc] at hr
      simp [this]
  | cons v vs ih =>
    have hv := (isD_dch (hl v (by simp))).1
    have ih' := ih (fun w hw => hl w (by simp [hw]))
    simp only [List.map_cons, List.cons_append, List.takeWhile_cons, List.dropWhile_cons, hv, if_true]
    exact ⟨by rw [ih'.1], ih'.2⟩

theorem map_dval_dch (l : List Nat) (hl : Digits l) : (l.map dch).map dval = l := by
  induction l with
  | nil => rfl
  | cons v vs ih =>
    simp only [List.map_cons]
    rw [(isD_dch (hl v (by simp))).2, ih (fun w hw => hl w (by simp [hw]))]

theorem decode_chars (k : PKey) (hk : k.Valid) : decode k.chars = k := by
  obtain ⟨cones, star, corners, cross⟩ := k
  have hc := hk.cones
  have hb := hk.corners
  have hns := hk.nostar
  simp only at hc hb hns
  unfold PKey.chars decode
  simp only
  cases star
  · -- no star: no corners
    have hcor : corners = [] := hns rfl
    subst hcor
    simp only [Bool.false_eq_true, if_false, List.append_nil, List.map_nil]
    cases cross
    · simp only [Bool.false_eq_true, if_false, List.append_nil]
      have t := takeWhile_digits cones hc [] (by simp)
      simp only [List.append_nil] at t
      rw [t.1, t.2]
      simp [map_dval_dch cones hc]
    · simp only [if_true]
      have t := takeWhile_digits cones hc ['x'] (by simp [sep_facts.2])
      rw [t.1, t.2]
      simp [map_dval_dch cones hc, sep_facts.2]
  · simp only [if_true]
    have e : cones.map dch ++ ['*'] ++ corners.map dch ++ (if cross = true then ['x'] else []) =
        cones.map dch ++ ('*' :: (corners.map dch ++ (if cross = true then ['x'] else []))) := by simp
    rw [e]
    have t := takeWhile_digits cones hc ('*' :: (corners.map dch ++ (if cross = true then ['x'] else [])))
      (by simp [sep_facts.1])
    rw [t.1, t.2]
    simp only [List.head?_cons, beq_self_eq_true, if_true, List.tail_cons]
    cases cross
    · simp only [Bool.false_eq_true, if_false, List.append_nil]
      have t2 := takeWhile_digits corners hb [] (by simp)
      simp only [List.append_nil] at t2
      rw [t2.1, t2.2]
      simp [map_dval_dch cones hc, map_dval_dch corners hb]
    · simp only [if_true]
      have t2 := takeWhile_digits corners hb ['x'] (by simp [sep_facts.2])
      rw [t2.1, t2.2]
      simp [map_dval_dch cones hc, map_dval_dch corners hb]

theorem chars_injective {k t : PKey} (hk : k.Valid) (ht : t.Valid) (h : k.chars = t.chars) : k = t := by
  rw [← decode_chars k hk, ← decode_chars t ht, h]

/-! ### the model's strings -/

theorem digit_string : ∀ v : Fin 10, (toString v.val).toList = [dch v.val] := by decide

theorem degreeList_toList (l : List Nat) (hl : Digits l) : (degreeListAsString l).toList = l.map dch := by
  unfold degreeListAsString
  rw [String.toList_join, List.flatMap_map]
  induction l with
  | nil => rfl
  | cons v vs ih =>
    have hv := hl v (by simp)
    simp only [List.flatMap_cons, List.map_cons]
    rw [ih (fun w hw => hl w (by simp [hw]))]
    have := digit_string ⟨v, by omega⟩
    simp only at this
    rw [this]
    rfl

/-- the string the private `orbifold_symbol` builds is the rendering of its key -/
theorem key_toList (k : PKey) (hk : k.Valid) :
    (degreeListAsString k.cones ++ (if k.star then "*" else "") ++ degreeListAsString k.corners ++
      (if k.cross then "x" else "")).toList = k.chars := by
  simp only [String.toList_append, degreeList_toList _ hk.cones, degreeList_toList _ hk.corners]
  unfold PKey.chars
  cases k.star <;> cases k.cross <;> rfl

/-- membership of a rendered valid key in the generated table -/
theorem contains_iff_goodKeys (k : PKey) (hk : k.Valid) (s : String) (hs : s.toList = k.chars) :
    Tables.goodSphericalOrbifolds.contains s = true ↔ k ∈ goodKeys := by
  rw [List.contains_iff_mem]
  constructor
  · intro hm
    have : s.toList ∈ Tables.goodSphericalOrbifolds.map String.toList := List.mem_map.mpr ⟨s, hm, rfl⟩
    rw [goodKeys_chars, hs] at this
    obtain ⟨t, ht, htc⟩ := List.mem_map.mp this
    rw [chars_injective hk (goodKeys_valid ht).1 htc.symm]
    exact ht
  · intro hm
    have : k.chars ∈ goodKeys.map PKey.chars := List.mem_map.mpr ⟨k, hm, rfl⟩
    rw [← goodKeys_chars] at this
    obtain ⟨s', hs', hsc⟩ := List.mem_map.mp this
    have : s' = s := String.toList_inj.mp (by rw [hsc, hs])
    rw [← this]
    exact hs'

end DSymVerif.SymGen
