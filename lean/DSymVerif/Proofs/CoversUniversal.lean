/-
Property C05, part 20: the finite universal cover is the covering that belongs to the trivial
subgroup — its sheet stabiliser is trivial and it has `|π1(ds)|` sheets.
-/
import DSymVerif.Proofs.CoversWired
import DSymVerif.Proofs.CosetIndex

namespace DSymVerif.CoversP
open DSymVerif DSymVerif.DS DSymVerif.FG DSymVerif.FGP DSymVerif.Cosets DSymVerif.SpecC11
open DSymVerif.CosetP DSymVerif.Covers DSymVerif.LowIndexP DSymVerif.CosetInvP DSymVerif.CosetSoundP

/-- a subgroup contained in a subgroup of the same finite index is equal to it -/
theorem eq_of_le_of_index_eq {G : Type} [Group G] {H K : Subgroup G} (hle : H ≤ K)
    (hK : K.index ≠ 0) (hi : H.index = K.index) : H = K := by
  have hmul := Subgroup.relIndex_mul_index hle
  rw [hi] at hmul
  have hone : H.relIndex K = 1 := by
    have hpos : 0 < K.index := Nat.pos_of_ne_zero hK
    exact Nat.eq_of_mul_eq_mul_right hpos (by rw [hmul, Nat.one_mul])
  exact le_antisymm hle (Subgroup.relIndex_eq_one.mp hone)

/-- **the finite universal cover belongs to the trivial subgroup**: whenever the model of
    `finite_universal_cover(ds)` returns `c`, `c` is the cover of a valid coset table (`TableOps`)
    whose stabiliser of row 0 — the stabiliser of sheet 0 under the sheet action of `c` — is the
    trivial subgroup of the returned presentation `⟨1..n | relators⟩`, and the number of sheets is
    the order of that group -/
theorem finiteUniversalCover_trivial_subgroup {ds : DSymData} (hs : ValidSym ds) (hsz : 1 ≤ ds.size)
    (hdim : 1 ≤ ds.dim) {c : DSymData} (hc : finiteUniversalCover ds = .ok c) :
    ∃ (f : FundGroup) (t : Cosets.Table) (v : List (List Int))
      (hv : Valid (viewTab v) f.nrGenerators f.relators []),
      fundamentalGroup ds = .ok f ∧ cosetTable f.nrGenerators f.relators [] = .ok t ∧ t.view = .ok v ∧
      IsCoverOf ds c (viewTab v).size ∧ TableOps ds c f.edgeToWord (viewTab v) f.nrGenerators ∧
      stab0 hv = ⊥ ∧ (viewTab v).size = Nat.card (G f.nrGenerators f.relators) := by
  unfold finiteUniversalCover subgroupCover at hc
  cases hf : fundamentalGroup ds with
  | ok f =>
    rw [hf] at hc
    simp only at hc
    cases ht : cosetTable f.nrGenerators f.relators [] with
    | ok t =>
      rw [ht] at hc
      simp only at hc
      have hlet := (fundamentalGroup_letters ds f hf).1
      have hsub : ∀ w ∈ ([] : List (List Int)), ∀ x ∈ w, x ∈ allGensOf f.nrGenerators :=
        fun w hw => by cases hw
      obtain ⟨v, hview, hval, hsize, _, hget⟩ := cosetTable_view hlet hsub ht
      obtain ⟨v', hview', _, hidx⟩ := cosetTable_index hlet hsub ht
      rw [hview] at hview'
      cases hview'
      obtain ⟨c', hc', hcov, hop, _⟩ := coverForTableC_covering hs hsz hdim hf hval ⟨hsize, hget⟩
      rw [hc] at hc'
      cases hc'
      have hbot : subgroupOf f.nrGenerators f.relators [] = ⊥ := by
        unfold subgroupOf
        have : {x : PresentedGroup (relSet f.nrGenerators f.relators) |
            ∃ s ∈ ([] : List (List Int)), x = PresentedGroup.mk _ (wordElt f.nrGenerators s)} = ∅ := by
          ext x; simp
        rw [this, Subgroup.closure_empty]
      have hstab : stab0 hval = ⊥ := by
        have hle := subgroupOf_le_stab0 hval
        have hi : (subgroupOf f.nrGenerators f.relators []).index = (stab0 hval).index := by
          rw [hidx, index_stab0 hval]
        have hK : (stab0 hval).index ≠ 0 := by
          rw [index_stab0 hval]; exact Nat.pos_iff_ne_zero.mp hval.pos
        rw [← eq_of_le_of_index_eq hle hK hi, hbot]
      refine ⟨f, t, v, hval, rfl, ht, hview, ?_, tableOps_of_shows hf ⟨hsize, hget⟩ hop, hstab, ?_⟩
      · rw [hsize]; exact hcov
      · rw [← hidx, hbot, Subgroup.index_bot]
    | err => rw [ht] at hc; cases hc
    | panic => rw [ht] at hc; cases hc
  | err => rw [hf] at hc; cases hc
  | panic => rw [hf] at hc; cases hc

end DSymVerif.CoversP
